/-
C02, step 2: `detectRoute` on a candidate list against the decision table `Spec.classifyIn`.

If the candidates are — as a set — the routes of the service whose template admits the path, then
stage by stage the model's filters and the table's filters keep the same routes (the header loops
are the declarative tests by `ClassifyHeaders`), so emptiness, the method set of the 405 and the
final stage agree; the model's one notion of "has a body" (`ContentLength ≠ 0`, since the repair of
F04) is `Spec.hasBody`.
-/
import Restful.Lemmas.ClassifyHeaders
import Restful.Lemmas.OrderPerm
import Restful.Spec.Classify
namespace Restful
open Str

theorem C02.mem_filter_congr {α : Type} {A B : List α} {p q : α → Bool} (h : ∀ x, x ∈ A ↔ x ∈ B)
    (hpq : ∀ x ∈ B, p x = q x) : ∀ x, x ∈ A.filter p ↔ x ∈ B.filter q := by
  intro x
  simp only [List.mem_filter, h]
  constructor
  · rintro ⟨hx, hp⟩; exact ⟨hx, (hpq x hx) ▸ hp⟩
  · rintro ⟨hx, hp⟩; exact ⟨hx, (hpq x hx).symm ▸ hp⟩

theorem C02.decide_eq_beq {α : Type} [BEq α] [LawfulBEq α] [DecidableEq α] (a b : α) : decide (a = b) = (a == b) := by
  rw [Bool.eq_iff_iff]; simp

theorem C02.isEmpty_congr {α : Type} {A B : List α} (h : ∀ x, x ∈ A ↔ x ∈ B) : A.isEmpty = B.isEmpty := by
  cases A with
  | nil =>
    cases B with
    | nil => rfl
    | cons b bs => exact absurd ((h b).2 List.mem_cons_self) (by simp)
  | cons a as =>
    cases B with
    | nil => exact absurd ((h a).1 List.mem_cons_self) (by simp)
    | cons b bs => rfl

/-- the model's two tests "a body is sent" / "no body is sent" are `Spec.hasBody` and its negation -/
theorem Spec.hasBody_model (req : Req) :
    decide (req.contentLength ≠ 0) = Spec.hasBody req ∧
    decide (req.contentLength = 0) = !Spec.hasBody req := by
  unfold Spec.hasBody
  by_cases hz : req.contentLength = 0 <;> simp [hz]

theorem detect_classify (E : ReEnv) (k : RouterKind) (routes cands : List Route) (req : Req)
    (hmem : ∀ r, r ∈ cands ↔ r ∈ routes ∧ Spec.pathAdmits E k r req.path = true)
    (hyg : ∀ r ∈ routes, (∀ c ∈ r.consumes, c ≠ []) ∧ (∀ p ∈ r.produces, p ≠ [])) :
    match detectRoute cands req with
    | .ok r => r ∈ cands ∧ ∃ ids, Spec.classifyIn E k routes req = .runs ids ∧ r.id ∈ ids
    | .error (c, a) => Spec.verdictMatches (Spec.classifyIn E k routes req) (.error c a) 0 = true := by
  obtain ⟨hbody, hclen⟩ := Spec.hasBody_model req
  unfold detectRoute Spec.classifyIn
  simp only []
  have m1 : ∀ r, r ∈ List.filter (fun x => passesConds x req) cands ↔
      r ∈ List.filter (fun r => Spec.pathAdmits E k r req.path && passesConds r req) routes := by
    intro r
    simp only [List.mem_filter, hmem, Bool.and_eq_true, and_assoc]
  have s0 : ∀ r, r ∈ List.filter (fun r => Spec.pathAdmits E k r req.path && passesConds r req) routes → r ∈ routes :=
    fun r hr => (List.mem_filter.1 hr).1
  have s1 : ∀ r, r ∈ List.filter (fun x => passesConds x req) cands → r ∈ cands :=
    fun r hr => (List.mem_filter.1 hr).1
  generalize List.filter (fun x => passesConds x req) cands = c1 at m1 s1 ⊢
  generalize List.filter (fun r => Spec.pathAdmits E k r req.path && passesConds r req) routes = c0 at m1 s0 ⊢
  have m2 : ∀ r, r ∈ List.filter (fun r => decide (req.method = r.method)) c1 ↔
      r ∈ List.filter (fun r => req.method == r.method) c0 :=
    C02.mem_filter_congr m1 (fun r _ => C02.decide_eq_beq _ _)
  have s2 : ∀ r, r ∈ List.filter (fun r => req.method == r.method) c0 → r ∈ c0 :=
    fun r hr => (List.mem_filter.1 hr).1
  have t2 : ∀ r, r ∈ List.filter (fun r => decide (req.method = r.method)) c1 → r ∈ c1 :=
    fun r hr => (List.mem_filter.1 hr).1
  generalize List.filter (fun r => decide (req.method = r.method)) c1 = c2 at m2 t2 ⊢
  generalize List.filter (fun r => req.method == r.method) c0 = m at m2 s2 ⊢
  have m3 : ∀ r, r ∈ List.filter (fun x => matchesContentType x req.contentType) c2 ↔
      r ∈ List.filter (fun r => Spec.consumesOK r req.contentType) m :=
    C02.mem_filter_congr m2 (fun r hr => matchesContentType_iff r _ (hyg r (s0 r (s2 r hr))).1)
  have s3 : ∀ r, r ∈ List.filter (fun r => Spec.consumesOK r req.contentType) m → r ∈ m :=
    fun r hr => (List.mem_filter.1 hr).1
  have t3 : ∀ r, r ∈ List.filter (fun x => matchesContentType x req.contentType) c2 → r ∈ c2 :=
    fun r hr => (List.mem_filter.1 hr).1
  generalize List.filter (fun x => matchesContentType x req.contentType) c2 = c3 at m3 t3 ⊢
  generalize List.filter (fun r => Spec.consumesOK r req.contentType) m = ct at m3 s3 ⊢
  have m4 : ∀ r, r ∈ List.filter (fun x => matchesAccept x (if List.isEmpty req.accept = true then starStar else req.accept)) c3 ↔
      r ∈ List.filter (fun r => Spec.acceptOK r.produces req.accept) ct :=
    C02.mem_filter_congr m3 (fun r hr => matchesAccept_iff r _ (hyg r (s0 r (s2 r (s3 r hr)))).2)
  have t4 : ∀ r, r ∈ List.filter (fun x => matchesAccept x (if List.isEmpty req.accept = true then starStar else req.accept)) c3 → r ∈ c3 :=
    fun r hr => (List.mem_filter.1 hr).1
  generalize List.filter (fun x => matchesAccept x (if List.isEmpty req.accept = true then starStar else req.accept)) c3 = c4 at m4 t4 ⊢
  generalize List.filter (fun r => Spec.acceptOK r.produces req.accept) ct = a at m4 ⊢
  rw [C02.isEmpty_congr m1, C02.isEmpty_congr m2, C02.isEmpty_congr m3, hbody, hclen]
  by_cases g0 : c0.isEmpty = true
  · simp only [g0, if_true]
    decide
  · simp only [g0, Bool.false_eq_true, if_false]
    by_cases g1 : m.isEmpty = true
    · simp only [g1, if_true]
      simp only [Spec.verdictMatches, Bool.and_eq_true, List.all_eq_true, beq_self_eq_true, and_true,
        List.contains_iff_mem, List.mem_map]
      constructor
      · rintro x ⟨r, hr, rfl⟩
        rw [mem_allowedMethods]
        exact Or.inr ⟨r, (m1 r).2 hr, rfl⟩
      · intro x hx
        rw [mem_allowedMethods] at hx
        rcases hx with hx | ⟨r, hr, rfl⟩
        · simp at hx
        · exact ⟨r, (m1 r).1 hr, rfl⟩
    · simp only [g1, Bool.false_eq_true, if_false]
      by_cases g2 : (ct.isEmpty && Spec.hasBody req) = true
      · simp only [g2, if_true]
        decide
      · simp only [g2, Bool.false_eq_true, if_false]
        cases hc4 : c4 with
        | nil =>
          have ha : a.isEmpty = true := by
            rw [← C02.isEmpty_congr m4, hc4]; rfl
          simp only [ha, if_true]
          by_cases g3 : (bodylessMethods.contains req.method && !Spec.hasBody req) = true
          · simp only [g3, if_true]; decide
          · simp only [g3, Bool.false_eq_true, if_false]; decide
        | cons r rest =>
          have hr4 : r ∈ c4 := hc4 ▸ List.mem_cons_self
          have hra : r ∈ a := (m4 r).1 hr4
          have ha : a.isEmpty = false := by
            cases a with
            | nil => simp at hra
            | cons _ _ => rfl
          simp only [ha, Bool.false_eq_true, if_false]
          refine ⟨s1 r (t2 r (t3 r (t4 r hr4))), _, rfl, ?_⟩
          exact List.mem_map.2 ⟨r, hra, rfl⟩

end Restful
