import Restful.Lemmas.TieImpVocab
import Restful.Lemmas.TieImpAllowed
import Restful.Model.Options
import Restful.Lemmas.TieImpCors
namespace Restful
namespace TieImp
open Imp

/-- the container of a route table as `computeAllowedMethods` walks it -/
def genCont (E : ReEnv) (mk : RouteDecl → Option ImpGen.GoPathExpression → ImpGen.GoRoute) (tbl : Config) : ImpGen.GoContainer :=
  { webServices := tbl.services.map (fun ws => some (genWS E mk ws)) }

/-- the filter value: the model's configuration with the container it was given -/
def genCors (cc : Cors.CorsCfg) (cont : Option ImpGen.GoContainer) : ImpGen.GoCrossOriginResourceSharing :=
  { ExposeHeaders := cc.exposeHeaders, AllowedHeaders := cc.allowedHeaders, AllowedDomains := cc.allowedDomains,
    AllowedDomainFunc := cc.pred, AllowedMethods := cc.allowedMethods, MaxAge := cc.maxAge,
    CookiesAllowed := cc.cookies, Container := cont }

/-- a request as the CORS filter reads it -/
def genCorsReq (rq : Cors.CorsReq) : ImpGen.GoRequest :=
  { Request :=
      { method := rq.method, path := rq.path, contentLength := 0,
        header := (fun k =>
          if k = "Origin".toList then rq.origin
          else if k = "Access-Control-Request-Method".toList then rq.acrm
          else if k = "Access-Control-Request-Headers".toList then rq.acrh
          else []) } }

theorem reqOf_genCorsReq (rq : Cors.CorsReq) : T11.reqOf (genCorsReq rq).Request = rq := by
  obtain ⟨e1, e2, e3⟩ := T11.hdr3 "Origin".toList "Access-Control-Request-Method".toList
    "Access-Control-Request-Headers".toList rq.origin rq.acrm rq.acrh T11.acrm_ne_origin T11.acrh_ne_origin T11.acrh_ne_acrm
  have e1' : (genCorsReq rq).Request.header "Origin".toList = rq.origin := e1
  have e2' : (genCorsReq rq).Request.header "Access-Control-Request-Method".toList = rq.acrm := e2
  have e3' : (genCorsReq rq).Request.header "Access-Control-Request-Headers".toList = rq.acrh := e3
  show Cors.CorsReq.mk rq.method rq.path _ _ _ = rq
  rw [e1', e2', e3']

/-- what the filter did, as the two logs the translation returns: the response log grows by the added
    headers; the chain log gets one entry (the response log at that moment) iff control was passed on -/
def corsView (resp0 : RespLog) (chain0 : ChainLog) (o : Cors.Out) : RespLog × ChainLog :=
  (resp0 ++ o.added, if o.passOn then chain0 ++ [resp0 ++ o.added] else chain0)

/-- cors_filter.go `CrossOriginResourceSharing.Filter` with everything it calls (`isOriginAllowed`,
    `doActualRequest`, `doPreflightRequest`, `setOptionsHeaders`, the three `checkAndSet…` helpers, the two
    request-header tests, `computeAllowedMethods`), as translated on this run, IS the model's `corsOut`: the
    same headers in the same order and the same decision to pass control on, for every configuration,
    route table, request and lower-casing function; the receiver `doPreflightRequest` writes to is dropped
    (value receiver of `Filter`) -/
theorem cors_filter (lower : Str → Str) (E : ReEnv)
    (mk : RouteDecl → Option ImpGen.GoPathExpression → ImpGen.GoRoute)
    (hmk : ∀ rt pe, (mk rt pe).Method = rt.method ∧ (mk rt pe).pathExpr = pe)
    (X : ImpGen.Ext) (hlower : X.strings_ToLower = lower) (hitoa : X.strconv_Itoa = Cors.itoa)
    (cc : Cors.CorsCfg) (tbl : Config) (rq : Cors.CorsReq) (resp0 : RespLog) (chain0 : ChainLog) :
    ImpGen.CrossOriginResourceSharing_Filter X (genCors cc (some (genCont E mk tbl))) (some (genCorsReq rq)) resp0 chain0
      = (Cors.corsOut lower E cc tbl rq).map (corsView resp0 chain0) := by
  subst hlower
  exact T11.filter_tie' X hitoa E mk hmk (genCors cc (some (genCont E mk tbl))) tbl rfl
    (genCorsReq rq).Request rq (reqOf_genCorsReq rq) resp0 chain0

/-- a request as the OPTIONS filter reads it -/
def genOptReq (rq : Options.OptReq) : ImpGen.GoRequest :=
  { Request :=
      { method := rq.method, path := rq.path, contentLength := 0,
        header := (fun k =>
          if k = "Origin".toList then rq.origin
          else if k = "Access-Control-Request-Headers".toList then rq.acrh
          else if k = "Access-Control-Request-Method".toList then rq.acrm
          else []) } }

/-- options_filter.go `Container.OPTIONSFilter` as translated on this run IS the model's `optionsOut`
    (for a request that is not OPTIONS control is passed on with the response log as it stands) -/
theorem options_filter (E : ReEnv)
    (mk : RouteDecl → Option ImpGen.GoPathExpression → ImpGen.GoRoute)
    (hmk : ∀ rt pe, (mk rt pe).Method = rt.method ∧ (mk rt pe).pathExpr = pe)
    (X : ImpGen.Ext) (tbl : Config) (rq : Options.OptReq) (resp0 : RespLog) (chain0 : ChainLog) :
    ImpGen.Container_OPTIONSFilter X (some (genCont E mk tbl)) (some (genOptReq rq)) resp0 chain0
      = (Options.optionsOut E tbl rq).map (fun o => (resp0 ++ o.added, if o.passOn then chain0 ++ [resp0 ++ o.added] else chain0)) := by
  obtain ⟨e1, e2, _⟩ := T11.hdr3 "Origin".toList "Access-Control-Request-Headers".toList
    "Access-Control-Request-Method".toList rq.origin rq.acrh rq.acrm T11.acrh_ne_origin T11.acrm_ne_origin
    (Ne.symm T11.acrh_ne_acrm)
  exact T11.options_tie' X E mk hmk tbl (genOptReq rq).Request rq e1 e2 rfl rfl resp0 chain0

#print axioms cors_filter
#print axioms options_filter

end TieImp
end Restful
