/-
`CurlyRouter.matchesRouteByPathTokens` (generated translation, Gen/Imp.lean) = `Curly.matchTokens`
(hand model) for all arguments.  Port of Restful/Imp/ProtoTie.lean; recipe in /root/agents/T1/NOTES.md.
All helpers live in the sub-namespace `Restful.TieImp.T1` so they cannot clash.
-/
import Restful.Lemmas.TieImp
import Restful.Lemmas.TieImpBridge
namespace Restful
namespace TieImp
open Imp

namespace T1
open ImpGen

theorem isTailWildcard_tie (X : Ext) (rt : Str) :
    isTailWildcard X rt = some (Curly.isTailWildcard rt) := by
  unfold isTailWildcard Curly.isTailWildcard
  have e1 : ":".toList = [':'] := rfl
  have e2 : "{".toList = ['{'] := rfl
  have e3 : "*}".toList = ['*', '}'] := rfl
  simp only [e1, e2, e3, index_char]
  cases h : Str.index ':' rt with
  | none => simp
  | some k =>
    have hk := index_lt h
    have : ((k : Int) + 1) = ((k + 1 : Nat) : Int) := by omega
    simp only [this]
    rw [sliceFrom_nat _ _ (by omega)]
    have : ((k : Int) != -1) = true := by rw [bne_iff_ne]; omega
    cases hp : Str.hasPrefix ['{'] rt <;> simp [this]


theorem regular_tie (rx : Str → Str → Bool × GoErr) (full : Str → Str → Bool) (join : Str → Str → Str)
    (rt : Str) (colon : Nat) (q : Str) :
    CurlyRouter_regularMatchesPathToken (extOf rx join) rt (colon : Int) q
      = ofStep (Curly.regularMatches (envOf rx full) rt colon q) := by
  unfold CurlyRouter_regularMatchesPathToken Curly.regularMatches Curly.regPart
  have e1 : "*".toList = ['*'] := rfl
  have e2 : ((colon : Int) + 1) = ((colon + 1 : Nat) : Int) := by omega
  have e3 : len rt = (rt.length : Int) := rfl
  simp only [e1, e2, e3, slice_eq]
  cases h : Str.slice? rt ((colon + 1 : Nat) : Int) ((rt.length : Int) - 1) with
  | none => rfl
  | some rp =>
    by_cases hs : rp = ['*']
    · simp [hs, ofStep]
    · simp only [Option.bind_eq_bind, Option.bind_some, beq_iff_eq, hs, if_false]
      have hx : (extOf rx join).regexp_MatchString = rx := rfl
      simp only [hx]
      have hse : ((rx rp q).fst && (rx rp q).snd.isNone) = (envOf rx full).search rp q := rfl
      rw [hse]
      cases (envOf rx full).search rp q <;> rfl

/-! ### the loop -/

/-- outcome of one iteration of the model's loop (`Curly.walk` with the recursive call cut out) -/
inductive Outcome where
  | fail | panic
  | stop (p s : Nat)
  | next (p s : Nat)

/-- the part of an iteration after the custom-verb block -/
def walkInner (E : ReEnv) (rt' q' : Str) (p s : Nat) : Outcome :=
    if Str.hasPrefix ['{'] rt' then
      match Str.index ':' rt' with
      | some colon =>
        match Curly.regularMatches E rt' colon q' with
        | .fail => .fail
        | .panic => .panic
        | .stop => .stop (p + 1) s
        | .next => .next (p + 1) s
      | none =>
        match Str.index '}' rt' with
        | some e => if !Str.hasSuffix (rt'.drop (e + 1)) q' then .fail else .next (p + 1) s
        | none => .next (p + 1) s
    else if q' != rt' then .fail
    else .next p (s + 1)

def walkStep (E : ReEnv) (hasVerb : Bool) (rt q : Str) (p s : Nat) : Outcome :=
    if hasVerb && hasCustomVerb rt then
      if !isMatchCustomVerb rt q then .fail
      else walkInner E (removeCustomVerb rt) (removeCustomVerb q) p (s + 1)
    else walkInner E rt q p s

def Outcome.cont (k : Nat → Nat → Curly.MatchResult) : Outcome → Curly.MatchResult
  | .fail => .no
  | .panic => .panic
  | .stop p s => .yes p s
  | .next p s => k p s

theorem walk_cons (E : ReEnv) (hv : Bool) (rt q : Str) (rts qs : List Str) (p s : Nat) :
    Curly.walk E hv (rt :: rts) (q :: qs) p s
      = (walkStep E hv rt q p s).cont (fun p s => Curly.walk E hv rts qs p s) := by
  rw [Curly.walk]
  unfold walkStep walkInner
  simp only []
  repeat' split
  all_goals first | rfl | simp_all

abbrev Res := Bool × Int × Int
abbrev St := Option Res × Int × Int

/-- what the code after the loop does with the final loop state -/
def fin : Option St → Option Res
  | none => none
  | some (some r, _, _) => some r
  | some (none, p, s) => some (true, p, s)

/-- one iteration of the translated loop body agrees with one iteration of the model -/
def Rel : Option (ForInStep St) → Outcome → Prop
  | some (.done (some r, _, _)), .fail => r = (false, 0, 0)
  | some (.done (none, a, b)), .stop p s => a = (p : Int) ∧ b = (s : Int)
  | some (.yield (none, a, b)), .next p s => a = (p : Int) ∧ b = (s : Int)
  | none, .panic => True
  | _, _ => False

theorem loop_tie (E : ReEnv) (hv : Bool) (qs : List Str)
    (f : Int × Str → St → Option (ForInStep St))
    (hend : ∀ (rt : Str) (p s : Int), f ((qs.length : Int), rt) (none, p, s) = some (.done (some (false, 0, 0), p, s)))
    (hstep : ∀ (k : Nat) (rt q : Str) (p s : Nat), qs[k]? = some q →
      Rel (f ((k : Int), rt) (none, (p : Int), (s : Int))) (walkStep E hv rt q p s)) :
    ∀ (rts : List Str) (k p s : Nat), k ≤ qs.length →
      fin (forIn (enumFrom k rts) ((none, (p : Int), (s : Int)) : St) f)
        = ofMatch (Curly.walk E hv rts (qs.drop k) p s) := by
  intro rts
  induction rts with
  | nil => intro k p s _; simp [enumFrom, fin, Curly.walk, ofMatch]
  | cons rt rts ih =>
    intro k p s hk
    rw [enumFrom_cons, List.forIn_cons]
    by_cases hlt : k < qs.length
    · rw [List.drop_eq_getElem_cons hlt, walk_cons]
      have hs := hstep k rt qs[k] p s (by simp)
      generalize f ((k : Int), rt) (none, (p : Int), (s : Int)) = r at hs
      generalize walkStep E hv rt qs[k] p s = o at hs
      cases o with
      | fail =>
        match r, hs with
        | some (.done (some r, _, _)), hs => simp only [Rel] at hs; subst hs; rfl
      | panic =>
        match r, hs with
        | none, _ => rfl
      | stop p' s' =>
        match r, hs with
        | some (.done (none, a, b)), hs => simp only [Rel] at hs; obtain ⟨rfl, rfl⟩ := hs; rfl
      | next p' s' =>
        match r, hs with
        | some (.yield (none, a, b)), hs =>
          simp only [Rel] at hs; obtain ⟨rfl, rfl⟩ := hs
          exact ih (k + 1) p' s' (by omega)
    · have hk' : k = qs.length := by omega
      subst hk'
      rw [hend]
      simp [fin, Curly.walk, ofMatch]

theorem loop_tie0 (E : ReEnv) (hv : Bool) (qs rts : List Str)
    (f : Int × Str → St → Option (ForInStep St))
    (hend : ∀ (rt : Str) (p s : Int), f ((qs.length : Int), rt) (none, p, s) = some (.done (some (false, 0, 0), p, s)))
    (hstep : ∀ (k : Nat) (rt q : Str) (p s : Nat), qs[k]? = some q →
      Rel (f ((k : Int), rt) (none, (p : Int), (s : Int))) (walkStep E hv rt q p s)) :
    fin (forIn (enum rts) ((none, 0, 0) : St) f) = ofMatch (Curly.walk E hv rts qs 0 0) :=
  loop_tie E hv qs f hend hstep rts 0 0 0 (Nat.zero_le _)

theorem Rel_fail (a b : Int) : Rel (some (.done (some (false, 0, 0), a, b))) .fail := rfl
theorem Rel_stop (p s : Nat) (a b : Int) (ha : a = p) (hb : b = s) : Rel (some (.done (none, a, b))) (.stop p s) := ⟨ha, hb⟩
theorem Rel_next (p s : Nat) (a b : Int) (ha : a = p) (hb : b = s) : Rel (some (.yield (none, a, b))) (.next p s) := ⟨ha, hb⟩

end T1

section
open T1

/-- the part of the loop body after the custom-verb block, for the (possibly rewritten) tokens.
    No `generalize`/`cases h : e` on subterms of `if` conditions: `simp`'s `rfl`-rewrites leave stale
    `Decidable` instances behind, and abstracting would make the goal type-incorrect. -/
local macro "inner_tac" rx:term "," full:term "," join:term "," rt:term "," q:term : tactic => `(tactic| (
  unfold walkInner
  rcases Bool.eq_false_or_eq_true (Str.hasPrefix ['{'] $rt) with hpre | hpre
  · simp only [hpre, if_true, index_char]
    rcases Option.eq_none_or_eq_some (Str.index ':' $rt) with hc | ⟨c, hc⟩
    · have hc1 : ((-1 : Int) != -1) = false := rfl
      simp only [hc, hc1, Bool.false_eq_true, if_false]
      rcases Option.eq_none_or_eq_some (Str.index '}' $rt) with he | ⟨e, he⟩
      · simp only [he, hc1, Bool.not_false, if_true, Option.pure_def, Option.bind_some, Bool.false_eq_true, if_false]
        exact Rel_next _ _ _ _ (by omega) (by omega)
      · have he1 : ((e : Int) != -1) = true := by rw [bne_iff_ne]; omega
        have he2 : ((e : Int) + 1) = ((e + 1 : Nat) : Int) := by omega
        have he3 := index_lt he
        have he4 := sliceFrom_nat $rt (e + 1) (by omega)
        simp only [he, he1, Bool.not_true, Bool.false_eq_true, if_false, he2, he4, Option.pure_def, Option.bind_some]
        rcases Bool.eq_false_or_eq_true (Str.hasSuffix (List.drop (e + 1) $rt) $q) with hsuf | hsuf
        · simp only [hsuf, Bool.not_true, Bool.false_eq_true, if_false]
          exact Rel_next _ _ _ _ (by omega) (by omega)
        · simp only [hsuf, Bool.not_false, if_true]
          exact Rel_fail _ _
    · have hc1 : ((c : Int) != -1) = true := by rw [bne_iff_ne]; omega
      simp only [hc, hc1, if_true, regular_tie $rx $full $join]
      cases Curly.regularMatches (envOf $rx $full) $rt c $q
      · exact Rel_fail _ _
      · exact Rel_next _ _ _ _ (by omega) (by omega)
      · exact Rel_stop _ _ _ _ (by omega) (by omega)
      · trivial
  · -- static token
    simp only [hpre, Bool.false_eq_true, if_false]
    by_cases hqe : $q = $rt
    · have hqe' : ($q != $rt) = false := by rw [hqe]; exact bne_self_eq_false _
      simp only [hqe', Bool.false_eq_true, if_false]
      exact Rel_next _ _ _ _ (by omega) (by omega)
    · have hqe' : ($q != $rt) = true := by rw [bne_iff_ne]; exact hqe
      simp only [hqe', if_true]
      exact Rel_fail _ _))

theorem match_tokens (rx : Str → Str → Bool × GoErr) (full : Str → Str → Bool) (join : Str → Str → Str)
    (rts qs : List Str) (hv : Bool) :
    ImpGen.CurlyRouter_matchesRouteByPathTokens (extOf rx join) rts qs hv
      = ofMatch (Curly.matchTokens (envOf rx full) rts qs hv) := by
  unfold ImpGen.CurlyRouter_matchesRouteByPathTokens Curly.matchTokens
  dsimp only
  rw [jp_eq fin rfl, loop_tie0 (envOf rx full) hv qs rts]
  case hpost => intro st; rcases st with ⟨_ | _, _, _⟩ <;> rfl
  case hend => 
    intro rt p s
    simp [len]
  case hstep =>
    intro k rt q p s hq
    have hk : k < qs.length := by
      rcases Nat.lt_or_ge k qs.length with h | h
      · exact h
      · rw [List.getElem?_eq_none h] at hq; cases hq
    have hne : ((k : Int) == len qs) = false := by
      rw [beq_eq_false_iff_ne]; unfold len; omega
    have e1 : ":".toList = [':'] := rfl
    have e2 : "{".toList = ['{'] := rfl
    have e3 : "}".toList = ['}'] := rfl
    have x1 : (extOf rx join).hasCustomVerb = hasCustomVerb := rfl
    have x2 : (extOf rx join).isMatchCustomVerb = isMatchCustomVerb := rfl
    have x3 : (extOf rx join).removeCustomVerb = removeCustomVerb := rfl
    simp only [hne, at?_nat, hq, e1, e2, e3, x1, x2, x3, Bool.false_eq_true, if_false, Option.bind_eq_bind, Option.bind_some]
    unfold walkStep
    rcases Bool.eq_false_or_eq_true (hv && hasCustomVerb rt) with hverb | hverb
    · simp only [hverb, if_true]
      rcases Bool.eq_false_or_eq_true (isMatchCustomVerb rt q) with hm | hm
      · simp only [hm, Bool.not_true, Bool.false_eq_true, if_false]
        inner_tac rx, full, join, (removeCustomVerb rt), (removeCustomVerb q)
      · simp only [hm, Bool.not_false, if_true]
        exact Rel_fail _ _
    · simp only [hverb, Bool.false_eq_true, if_false]
      inner_tac rx, full, join, rt, q
  -- the length pre-check: whatever the order and nesting of the tests (`len(rts) < len(qs)`, `count == 0`, the last
  -- token), the route tokens are `[]` or `init ++ [l]`; in both cases every test evaluates and the rest is a case split
  generalize Curly.walk (envOf rx full) hv rts qs 0 0 = w
  have hlen : (len rts < len qs) ↔ rts.length < qs.length := by unfold len; omega
  have hlen' : (len qs > len rts) ↔ rts.length < qs.length := by unfold len; omega
  unfold Curly.lastIsStar
  rcases List.eq_nil_or_concat rts with rfl | ⟨init, l, rfl⟩
  · have hz : (len ([] : List Str) == 0) = true := rfl
    have hz' : ((0 : Int) == len ([] : List Str)) = true := rfl
    by_cases hd : ([] : List Str).length < qs.length <;>
      simp [hlen, hlen', hz, hz'] <;> simp_all [ofMatch, -Nat.not_lt]
  · rw [List.concat_eq_append] at *
    have hz : (len (init ++ [l]) == 0) = false := by
      rw [beq_eq_false_iff_ne]; unfold len; simp; omega
    have hz' : ((0 : Int) == len (init ++ [l])) = false := by
      rw [beq_eq_false_iff_ne]; unfold len; simp; omega
    have hat : at? (init ++ [l]) (len (init ++ [l]) - 1) = some l := by
      unfold at? len; simp
    by_cases hd : (init ++ [l]).length < qs.length <;> cases hw : Curly.isTailWildcard l <;>
      simp [hlen, hlen', hz, hz', hat, hw, isTailWildcard_tie] <;> simp_all [ofMatch, -Nat.not_lt]


end

#print axioms match_tokens

end TieImp
end Restful
