/-
The tie between the translated decision functions (Gen/Translated.lean, regenerated from the Go
sources by tools/gotrans on every run) and the hand-written models: the model's definitions ARE
the translated ones, for all arguments.  A change to one of these Go functions changes the
generated definition and breaks the corresponding theorem here at compile time.
-/
import Restful.Gen.Translated
import Restful.Model.Curly
import Restful.Model.Jsr
import Restful.Model.Response
namespace Restful
namespace Tie
open Translated

/-- curly_route.go `sortableCurlyRoutes.Less(i, j)` with `x = s[i]`, `y = s[j]` is `Curly.candLess x y` -/
theorem curly_less (x y : Curly.Cand) :
    sortableCurlyRoutes_Less y.staticCount x.staticCount y.paramCount x.paramCount y.route.path x.route.path
      = Curly.candLess x y := by
  unfold sortableCurlyRoutes_Less Curly.candLess
  simp only [Int.ofNat_lt, gt_iff_lt, decide_eq_true_eq]

/-- jsr311.go `sortableRouteCandidates.Less` under `sort.Reverse` (`Less(i, j) = orig.Less(j, i)`):
    with `x` at `i` and `y` at `j` the original is called with `ci = y`, `cj = x` -/
theorem jsr_route_less (x y : Jsr.RouteCand) :
    sortableRouteCandidates_Less y.literalCount x.literalCount y.matchesCount x.matchesCount
      y.nonDefaultCount x.nonDefaultCount y.route.path x.route.path = Jsr.routeCandLess x y := by
  unfold sortableRouteCandidates_Less Jsr.routeCandLess
  simp only [Int.ofNat_lt, gt_iff_lt, decide_eq_true_eq]

/-- jsr311.go `sortableDispatcherCandidates.Less` under `sort.Reverse` -/
theorem jsr_dispatcher_less (x y : Jsr.DispCand) :
    sortableDispatcherCandidates_Less y.matchesCount x.matchesCount y.literalCount x.literalCount
      y.nonDefaultCount x.nonDefaultCount = Jsr.dispCandLess x y := by
  unfold sortableDispatcherCandidates_Less Jsr.dispCandLess
  simp only [Int.ofNat_lt, gt_iff_lt, decide_eq_true_eq]

/-- response.go `Response.StatusCode()` -/
theorem response_status_code (st : Resp.State) :
    Response_StatusCode st.statusCode = (st.StatusCode : Int) := by
  unfold Response_StatusCode Resp.State.StatusCode
  by_cases h : st.statusCode = 0
  · simp [h]
  · have : ((0 : Int) == (st.statusCode : Int)) = false := by
      simp only [beq_eq_false_iff_ne, ne_eq]
      omega
    simp [this, h]

/-- route.go `stringTrimSpaceCutset`: the router's Accept / Content-Type test trims blanks only -/
theorem trim_space_cutset (c : Char) : stringTrimSpaceCutset c = Str.isSpaceOnly c := rfl

/-- request.go `Request.SelectedRoutePath()`: the empty string when no route was selected (what a
    stage behind a `replace` filter sees: `C01_selected_path_replace_witness`), the route's path
    otherwise -/
theorem selected_route_path (sel : Option Str) :
    Request_SelectedRoutePath sel.isNone (sel.getD []) = sel.getD [] := by
  cases sel <;> simp [Request_SelectedRoutePath]

/-- which ordering is applied where, and by which algorithm: `sort.Sort` (insertion sort up to 12
    elements: stable) on the curly candidates, `sort.Sort(sort.Reverse(…))` on both JSR311 candidate
    lists; no other use of package sort on the request path (mime.go inserts by hand) -/
theorem sort_call_sites :
    sortCalls = [("CurlyRouter.selectRoutes", "sort.Sort(candidates)"),
      ("RouterJSR311.selectRoutes", "sort.Sort(sort.Reverse(filtered))"),
      ("RouterJSR311.detectDispatcher", "sort.Sort(sort.Reverse(filtered))"),
      ("Parameter.AllowableValues", "sort.Strings(allowableSortedKeys)")] := by
  decide

end Tie
end Restful
