/-
The tie between the IMPERATIVE functions of the package as translated statement by statement on
every run (Gen/Imp.lean, tools/goimp: loops, local mutation, early return / break / continue,
slice and index expressions that can panic) and the hand-written structurally recursive model:
for ALL arguments the translated function computes what the model's function computes, a Go
run-time panic (`none`) exactly where the model says `panic`.  A change to one of these Go
functions changes the generated definition and breaks the corresponding theorem at compile time.

What stays uninterpreted (`ImpGen.Ext`): `regexp.MatchString` (arbitrary; the model's regex oracle
`ReEnv.search` is `matched && err == nil` of it), the three custom-verb helpers of custom_verb.go
(instantiated with the model's definitions, which the routing stream ties to the code),
`path.Join` (only reached with the non-default path strategy, which is not modelled) and the
package variable `TrimRightSlashEnabled` (the default `true` is a hypothesis).
-/
import Restful.Gen.Imp
import Restful.Model.Curly
import Restful.Model.Params
import Restful.Model.Registry
import Restful.Model.Jsr
namespace Restful
namespace TieImp
open Imp

/-- the regex oracle of the model, as the translated code sees `regexp.MatchString` -/
def envOf (rx : Str → Str → Bool × GoErr) (full : Str → Str → Bool) : ReEnv :=
  { search := fun re s => (rx re s).1 && (rx re s).2.isNone, full := full }

/-- `Ext` with the un-translated helpers instantiated by the model's definitions; `quote` stands for
    `regexp.QuoteMeta` (arbitrary), `strings.TrimSpace` is the blank-only trim of the model (template
    names and expressions contain no other white space: part of `wfTemplates`) -/
def extOfQ (rx : Str → Str → Bool × GoErr) (join : Str → Str → Str) (quote : Str → Str) : ImpGen.Ext :=
  { TrimRightSlashEnabled := true, hasCustomVerb := Restful.hasCustomVerb,
    isMatchCustomVerb := Restful.isMatchCustomVerb, removeCustomVerb := Restful.removeCustomVerb,
    path_Join := join, regexp_MatchString := rx, regexp_QuoteMeta := quote, strings_TrimSpace := Jsr.trimSpace }

def extOf (rx : Str → Str → Bool × GoErr) (join : Str → Str → Str) : ImpGen.Ext := extOfQ rx join id

/-- the text `templateToRegularExpression` writes for one token -/
def tokText (quote : Str → Str) : Jsr.JTok → Str
  | .lit s => quote s
  | .var _ => "([^/]+?)".toList
  | .re _ e => "(".toList ++ e ++ ")".toList
  | .wild _ => "(.*)".toList

/-- the source text of the compiled template expression: `^`, `/` + the text of every token, trailing
    slashes removed, then the final group `(/.*)?$` -/
def exprText (quote : Str → Str) (toks : List Jsr.JTok) : Str :=
  Str.trimRight '/' ('^' :: (toks.map (fun t => '/' :: tokText quote t)).flatten) ++ "(/.*)?$".toList

def ofStep : Curly.Step → Option (Bool × Bool)
  | .fail => some (false, false)
  | .next => some (true, false)
  | .stop => some (true, true)
  | .panic => none

def ofMatch : Curly.MatchResult → Option (Bool × Int × Int)
  | .no => some (false, 0, 0)
  | .yes p s => some (true, ((p : Nat) : Int), ((s : Nat) : Int))
  | .panic => none

/-- `computeWebserviceScore` returns the partial score next to `false`; nobody reads it -/
def scoreProj (r : Bool × Int) : Option Int := if r.1 then some r.2 else none

def ofScore : Curly.Score → Option (Option Int)
  | .no => some none
  | .yes n => some (some ((n : Nat) : Int))
  | .panic => none

end TieImp
end Restful
