/- compress.go `wantsCompressedResponse` as translated on this run IS the model's `Serve.wants` -/
import Restful.Lemmas.TieImpBase
import Restful.Model.Serve
namespace Restful
namespace TieImp
open Imp

/-- which coding the container applies: none when the writer already carries a Content-Encoding, else the
    one of gzip / deflate that Accept-Encoding mentions, the one mentioned FIRST when both are (substring
    test, as in the code) -/
theorem wants_compressed (X : ImpGen.Ext) (r : Serve.Rec) (ae : Str) (hr : HttpRequest) (hw : HttpWriter)
    (h1 : hw.header "Content-Encoding".toList = Serve.getHeader r "Content-Encoding".toList)
    (h2 : hr.header "Accept-Encoding".toList = ae) :
    (ImpGen.wantsCompressedResponse X hr hw).map (fun p => if p.1 then some p.2 else none)
      = some ((Serve.wants r ae).map Serve.Coding.name) := by
  have ng : Serve.Coding.name .gzip = "gzip".toList := rfl
  have nd : Serve.Coding.name .deflate = "deflate".toList := rfl
  have he : ("".toList : Str) = [] := rfl
  unfold ImpGen.wantsCompressedResponse Serve.wants
  rw [he]
  generalize ("gzip".toList : Str) = G at *
  generalize ("deflate".toList : Str) = D at *
  generalize ("Content-Encoding".toList : Str) = CE at *
  generalize ("Accept-Encoding".toList : Str) = AE at *
  subst h2
  simp only [h1, Imp.index]
  by_cases hce : Serve.getHeader r CE = []
  · rcases Option.eq_none_or_eq_some (Str.indexSub G (hr.header AE)) with hg | ⟨gi, hg⟩ <;>
    rcases Option.eq_none_or_eq_some (Str.indexSub D (hr.header AE)) with hz | ⟨zi, hz⟩ <;>
    simp only [hg, hz, hce] <;> simp [ng, nd] <;> (try split) <;> simp_all <;> omega
  · simp [hce]
end TieImp
end Restful
