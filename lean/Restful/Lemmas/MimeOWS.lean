/- C05_ows: `sortedMimes` factors through the whitespace-free normal form `dropOWS`. -/
import Restful.Lemmas.Mime
namespace Restful
namespace Mime
open Str

/-! ### trimOWS -/

theorem mem_of_mem_trimOWS {c : Char} {s : Str} (h : c ∈ trimOWS s) : c ∈ s := by
  unfold trimOWS at h
  rw [List.mem_reverse] at h
  have h1 := (List.dropWhile_sublist isOWS).subset h
  rw [List.mem_reverse] at h1
  exact (List.dropWhile_sublist isOWS).subset h1

theorem head?_dropWhile_isOWS (s : Str) : ∀ x, (s.dropWhile isOWS).head? = some x → isOWS x = false := by
  intro x hx
  have := List.head?_dropWhile_not isOWS s
  rw [hx] at this
  exact this

theorem head?_trimOWS (s : Str) : ∀ x, (trimOWS s).head? = some x → isOWS x = false := by
  intro x hx
  unfold trimOWS at hx
  -- the result is a prefix of `s.dropWhile isOWS`
  obtain ⟨w, hw⟩ := List.dropWhile_suffix (l := (s.dropWhile isOWS).reverse) isOWS
  have hpre : ((s.dropWhile isOWS).reverse.dropWhile isOWS).reverse ++ w.reverse = s.dropWhile isOWS := by
    rw [← List.reverse_append, hw, List.reverse_reverse]
  generalize ((s.dropWhile isOWS).reverse.dropWhile isOWS).reverse = t at hx hpre
  cases t with
  | nil => simp at hx
  | cons y t' =>
    simp only [List.head?_cons, Option.some.injEq] at hx
    subst hx
    apply head?_dropWhile_isOWS s
    rw [← hpre]
    rfl

theorem getLast?_trimOWS (s : Str) : ∀ x, (trimOWS s).getLast? = some x → isOWS x = false := by
  intro x hx
  unfold trimOWS at hx
  rw [List.getLast?_reverse] at hx
  exact head?_dropWhile_isOWS _ x hx

theorem trimOWS_id {s : Str} (h1 : ∀ x, s.head? = some x → isOWS x = false)
    (h2 : ∀ x, s.getLast? = some x → isOWS x = false) : trimOWS s = s := by
  unfold trimOWS
  rw [dropWhile_eq_self_of_head h1, dropWhile_eq_self_of_head, List.reverse_reverse]
  intro x hx
  rw [List.head?_reverse] at hx
  exact h2 x hx

theorem trimOWS_idem (s : Str) : trimOWS (trimOWS s) = trimOWS s :=
  trimOWS_id (head?_trimOWS s) (getLast?_trimOWS s)

/-! ### splitting and joining -/

theorem not_mem_of_mem_split (c : Char) (s : Str) : ∀ x ∈ split c s, c ∉ x := by
  suffices h : ∀ n (s : Str), s.length ≤ n → ∀ x ∈ split c s, c ∉ x from h s.length s (Nat.le_refl _)
  intro n
  induction n with
  | zero =>
    intro s hs x hx
    have : s = [] := List.length_eq_zero_iff.mp (Nat.le_zero.mp hs)
    subst this
    have : split c [] = [[]] := rfl
    rw [this, List.mem_singleton] at hx
    subst hx
    simp
  | succ n ih =>
    intro s hs x hx
    rw [split_eq] at hx
    rcases List.mem_cons.mp hx with rfl | hx
    · exact not_mem_takeWhile_ne c s
    · have hlen : (s.dropWhile (· != c)).length ≤ s.length := (List.dropWhile_sublist _).length_le
      cases hd : s.dropWhile (· != c) with
      | nil => rw [hd] at hx; simp at hx
      | cons y r' =>
        rw [hd] at hx hlen
        simp only at hx
        simp only [List.length_cons] at hlen
        exact ih r' (by omega) x hx

theorem mem_join {c : Char} {sep : Str} {xs : List Str} (h : c ∈ join sep xs) : c ∈ sep ∨ ∃ x ∈ xs, c ∈ x := by
  unfold join at h
  induction xs with
  | nil => simp at h
  | cons x xs ih =>
    cases xs with
    | nil =>
      rw [List.intercalate_singleton] at h
      exact Or.inr ⟨x, List.mem_cons_self, h⟩
    | cons y ys =>
      rw [List.intercalate_cons_cons] at h
      simp only [List.mem_append] at h
      rcases h with (h | h) | h
      · exact Or.inr ⟨x, List.mem_cons_self, h⟩
      · exact Or.inl h
      · rcases ih h with h | ⟨z, hz, hc⟩
        · exact Or.inl h
        · exact Or.inr ⟨z, List.mem_cons_of_mem _ hz, hc⟩

theorem split_join {c : Char} {xs : List Str} (hne : xs ≠ []) (h : ∀ x ∈ xs, c ∉ x) :
    split c (join [c] xs) = xs :=
  List.splitOn_intercalate c h hne

/-! ### the normal form parses like the header -/

theorem split_normParam (p : Str) : split '=' (normParam p) = (split '=' p).map trimOWS := by
  unfold normParam
  apply split_join
  · simpa using split_ne_nil '=' p
  · intro x hx
    obtain ⟨y, hy, rfl⟩ := List.mem_map.mp hx
    exact fun hc => not_mem_of_mem_split '=' p y hy (mem_of_mem_trimOWS hc)

theorem qParam_normParam (p : Str) : Spec.C05.qParam (normParam p) = Spec.C05.qParam p := by
  unfold Spec.C05.qParam
  rw [split_normParam]
  generalize split '=' p = sp
  rcases sp with _ | ⟨k, _ | ⟨v, _ | ⟨x, xs⟩⟩⟩
  · rfl
  · rfl
  · simp only [List.map_cons, List.map_nil, trimOWS_idem]
  · rfl

theorem qualityOf_normParam (ps : List Str) : qualityOf (ps.map normParam) = qualityOf ps := by
  induction ps with
  | nil => rfl
  | cons p rest ih => rw [List.map_cons, qualityOf_cons, qualityOf_cons, qParam_normParam, ih]

/-- a character of the normal form of a parameter is one of the parameter or `=` -/
theorem mem_normParam {c : Char} {p : Str} (h : c ∈ normParam p) : c = '=' ∨ c ∈ p := by
  unfold normParam at h
  rcases mem_join h with h | ⟨x, hx, hc⟩
  · exact Or.inl (by simpa using h)
  · obtain ⟨y, hy, rfl⟩ := List.mem_map.mp hx
    right
    have hc' := mem_of_mem_trimOWS hc
    have : y ∈ split '=' p := hy
    have hj : join ['='] (split '=' p) = p := join_split '=' p
    rw [← hj]
    unfold join
    exact mem_intercalate_of_mem this hc'
where
  mem_intercalate_of_mem {sep : Str} {xs : List Str} {y : Str} {c : Char} (hy : y ∈ xs) (hc : c ∈ y) :
      c ∈ sep.intercalate xs := by
    induction xs with
    | nil => simp at hy
    | cons x xs ih =>
      cases xs with
      | nil =>
        rw [List.intercalate_singleton]
        rcases List.mem_cons.mp hy with rfl | hy
        · exact hc
        · simp at hy
      | cons z zs =>
        rw [List.intercalate_cons_cons]
        simp only [List.mem_append]
        rcases List.mem_cons.mp hy with rfl | hy
        · exact Or.inl (Or.inl hc)
        · exact Or.inr (ih hy)

theorem mem_of_mem_split {c : Char} {d : Char} {s y : Str} (hy : y ∈ split d s) (hc : c ∈ y) : c ∈ s := by
  have hj : join [d] (split d s) = s := join_split d s
  rw [← hj]
  exact mem_normParam.mem_intercalate_of_mem hy hc

theorem split_normElem {e m : Str} {ps : List Str} (h : split ';' e = m :: ps) :
    split ';' (normElem e) = trimOWS m :: ps.map normParam := by
  unfold normElem
  rw [h]
  simp only
  apply split_join
  · simp
  · intro x hx
    rcases List.mem_cons.mp hx with rfl | hx
    · exact fun hc => not_mem_of_mem_split ';' e m (by rw [h]; exact List.mem_cons_self) (mem_of_mem_trimOWS hc)
    · obtain ⟨y, hy, rfl⟩ := List.mem_map.mp hx
      intro hc
      rcases mem_normParam hc with hc | hc
      · exact absurd hc (by decide)
      · exact not_mem_of_mem_split ';' e y (by rw [h]; exact List.mem_cons_of_mem _ hy) hc

theorem rangeOf_normElem (e : Str) : rangeOf (normElem e) = rangeOf e := by
  cases h : split ';' e with
  | nil => exact absurd h (split_ne_nil ';' e)
  | cons m ps =>
    unfold rangeOf
    rw [split_normElem h, h]
    simp only [qualityOf_normParam, trimOWS_idem]

/-- a character of the normal form of an element is one of the element, `;` or `=` -/
theorem mem_normElem {c : Char} {e : Str} (h : c ∈ normElem e) : c = ';' ∨ c = '=' ∨ c ∈ e := by
  cases hs : split ';' e with
  | nil => exact absurd hs (split_ne_nil ';' e)
  | cons m ps =>
    unfold normElem at h
    rw [hs] at h
    simp only at h
    rcases mem_join h with h | ⟨x, hx, hc⟩
    · exact Or.inl (by simpa using h)
    · rcases List.mem_cons.mp hx with rfl | hx
      · exact Or.inr (Or.inr (mem_of_mem_split (d := ';') (by rw [hs]; exact List.mem_cons_self) (mem_of_mem_trimOWS hc)))
      · obtain ⟨y, hy, rfl⟩ := List.mem_map.mp hx
        rcases mem_normParam hc with hc | hc
        · exact Or.inr (Or.inl hc)
        · exact Or.inr (Or.inr (mem_of_mem_split (d := ';') (by rw [hs]; exact List.mem_cons_of_mem _ hy) hc))

theorem split_dropOWS (a : Str) : split ',' (dropOWS a) = (split ',' a).map normElem := by
  unfold dropOWS
  apply split_join
  · simpa using split_ne_nil ',' a
  · intro x hx
    obtain ⟨y, hy, rfl⟩ := List.mem_map.mp hx
    intro hc
    rcases mem_normElem hc with hc | hc | hc
    · exact absurd hc (by decide)
    · exact absurd hc (by decide)
    · exact not_mem_of_mem_split ',' a y hy hc

/-- the ranked list of ranges only depends on the whitespace-free normal form of the header -/
theorem sortedMimes_dropOWS (a : Str) : sortedMimes (dropOWS a) = sortedMimes a := by
  unfold sortedMimes
  rw [foldl_insertValid, foldl_insertValid, split_dropOWS, List.filterMap_map]
  have : rangeOf ∘ normElem = rangeOf := by
    funext e
    exact rangeOf_normElem e
  rw [this]

end Mime
end Restful
