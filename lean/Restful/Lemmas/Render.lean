/-
String facts about rendered well-formed template tokens, and about request tokens
carrying a custom verb.  Everything the CurlyRouter walk inspects of a route token
(`hasPrefix "{"`, `index ':'`, `index '}'`, `regPart`, `customVerbOf`, `isTailWildcard`)
is computed here from the structured token.
-/
import Restful.Model.Curly
import Restful.Spec.Admits
namespace Restful
open Str

/-! ### generic list/string facts -/

theorem Str.index_eq_none {c : Char} {s : Str} (h : c ∉ s) : index c s = none := by
  simpa [index] using h

theorem Str.index_append_cons {c : Char} (l r : Str) (h : c ∉ l) :
    index c (l ++ c :: r) = some l.length := by
  induction l with
  | nil => simp [index, List.idxOf?_cons]
  | cons a l ih =>
    have hne : a ≠ c := fun e => h (by simp [e])
    have hl : c ∉ l := fun e => h (by simp [e])
    have := ih hl
    simp only [index] at this ⊢
    simp [List.idxOf?_cons, hne, this]

theorem Str.index_cons_append_cons {c d : Char} (l r : Str) (hd : d ≠ c) (h : c ∉ l) :
    index c (d :: (l ++ c :: r)) = some (l.length + 1) := by
  have := Str.index_append_cons (c := c) (d :: l) r (by simp [h, Ne.symm hd])
  simpa using this

theorem Str.hasSuffix_iff {p s : Str} : hasSuffix p s = true ↔ ∃ pre, s = pre ++ p := by
  simp only [hasSuffix, List.isSuffixOf_iff_suffix]
  constructor
  · rintro ⟨t, rfl⟩; exact ⟨t, rfl⟩
  · rintro ⟨t, rfl⟩; exact ⟨t, rfl⟩

/-! ### hygiene predicates as membership facts -/

theorem nameOK_not_mem {n : Str} (h : nameOK n = true) :
    ':' ∉ n ∧ '{' ∉ n ∧ '}' ∉ n := by
  simp only [nameOK, List.all_eq_true] at h
  refine ⟨?_, ?_, ?_⟩ <;> intro hm <;> have := h _ hm <;> simp [nameChar] at this

theorem litOK_not_mem {s : Str} (h : litOK s = true) :
    s ≠ [] ∧ ':' ∉ s ∧ '{' ∉ s ∧ '}' ∉ s := by
  simp only [litOK, Bool.and_eq_true, Bool.not_eq_true', List.all_eq_true] at h
  obtain ⟨hne, h⟩ := h
  refine ⟨by intro e; simp [e] at hne, ?_, ?_, ?_⟩ <;> intro hm <;> have := h _ hm <;>
    simp [litChar] at this

theorem verbOK_not_mem {v : Str} (h : verbOK v = true) :
    v ≠ [] ∧ v.all isLetter = true ∧ ':' ∉ v := by
  simp only [verbOK, Bool.and_eq_true, Bool.not_eq_true'] at h
  obtain ⟨hne, hall⟩ := h
  refine ⟨by intro e; simp [e] at hne, hall, ?_⟩
  intro hm
  have := (List.all_eq_true.mp hall) _ hm
  revert this; decide

/-! ### `splitLastColon` / `customVerbOf` -/

theorem splitLastColon_no_colon {s : Str} (h : ':' ∉ s) : splitLastColon s = none := by
  have hall : ∀ a ∈ s.reverse, (a != ':') = true := by
    intro a ha
    have : a ∈ s := by simpa using ha
    simp only [bne_iff_ne, ne_eq]
    intro e; exact h (e ▸ this)
  have : s.reverse.dropWhile (· != ':') = [] := by
    have := List.dropWhile_append_of_pos (p := (· != ':')) (l₂ := []) hall
    simpa using this
  simp only [splitLastColon, this]

theorem splitLastColon_append {a v : Str} (h : ':' ∉ v) :
    splitLastColon (a ++ ':' :: v) = some (a, v) := by
  have hall : ∀ c ∈ v.reverse, (c != ':') = true := by
    intro c hc
    have : c ∈ v := by simpa using hc
    simp only [bne_iff_ne, ne_eq]
    intro e; exact h (e ▸ this)
  have hrev : (a ++ ':' :: v).reverse = v.reverse ++ ':' :: a.reverse := by simp
  have hd : (v.reverse ++ ':' :: a.reverse).dropWhile (· != ':') = ':' :: a.reverse := by
    rw [List.dropWhile_append_of_pos hall]; simp
  have ht : (v.reverse ++ ':' :: a.reverse).takeWhile (· != ':') = v.reverse := by
    rw [List.takeWhile_append_of_pos hall]; simp
  simp only [splitLastColon, hrev, hd, ht, List.reverse_reverse]

theorem customVerbOf_no_colon {s : Str} (h : ':' ∉ s) : customVerbOf s = none := by
  simp only [customVerbOf, splitLastColon_no_colon h]

/-- a token ending in `}` has no custom verb: the text after the last colon is not all letters -/
theorem customVerbOf_append_rbrace (x : Str) : customVerbOf (x ++ ['}']) = none := by
  unfold customVerbOf
  split
  · rename_i pre verb hs
    have hv : verb = (('}' :: x.reverse).takeWhile (· != ':')).reverse := by
      unfold splitLastColon at hs
      simp only [List.reverse_append, List.reverse_cons, List.reverse_nil, List.nil_append,
        List.singleton_append] at hs
      split at hs
      · simp at hs
      · simp only [Option.some.injEq, Prod.mk.injEq] at hs
        exact hs.2.symm
    have : verb.all isLetter = false := by
      subst hv
      rw [List.takeWhile_cons]
      simp only [show (('}' : Char) != ':') = true by decide, if_true, List.reverse_cons,
        List.all_append, List.all_cons, List.all_nil, show isLetter '}' = false by decide,
        Bool.false_and, Bool.and_false]
    simp [this]
  · rfl

theorem customVerbOf_append_verb {a v : Str} (hv : verbOK v = true) :
    customVerbOf (a ++ ':' :: v) = some (a, v) := by
  obtain ⟨hne, hall, hc⟩ := verbOK_not_mem hv
  have : v.isEmpty = false := by cases v <;> simp_all
  simp only [customVerbOf, splitLastColon_append hc, this, hall, Bool.not_false, Bool.and_self,
    if_true]

/-! ### rendered base tokens -/

theorem Tok.hasPrefix_render {b : Tok} (h : b.wf = true) :
    hasPrefix ['{'] b.render = !(match b with | .lit _ => true | _ => false) := by
  cases b with
  | lit s =>
    obtain ⟨hne, _, hb, _⟩ := litOK_not_mem (by simpa [Tok.wf] using h)
    cases s with
    | nil => exact absurd rfl hne
    | cons c s =>
      have : '{' ≠ c := fun e => hb (by simp [← e])
      simp [Tok.render, hasPrefix, List.isPrefixOf, this]
  | var n => simp [Tok.render, hasPrefix, List.isPrefixOf]
  | re n e => simp [Tok.render, hasPrefix, List.isPrefixOf]
  | suf n s => simp [Tok.render, hasPrefix, List.isPrefixOf]
  | wild n => simp [Tok.render, hasPrefix, List.isPrefixOf]

theorem Tok.hasPrefix_render_lit {s : Str} (h : (Tok.lit s).wf = true) :
    hasPrefix ['{'] (Tok.lit s).render = false := by
  simpa using Tok.hasPrefix_render h

theorem Tok.hasPrefix_render_var (n : Str) : hasPrefix ['{'] (Tok.var n).render = true := by
  simp [Tok.render, hasPrefix, List.isPrefixOf]
theorem Tok.hasPrefix_render_re (n e : Str) : hasPrefix ['{'] (Tok.re n e).render = true := by
  simp [Tok.render, hasPrefix, List.isPrefixOf]
theorem Tok.hasPrefix_render_suf (n s : Str) : hasPrefix ['{'] (Tok.suf n s).render = true := by
  simp [Tok.render, hasPrefix, List.isPrefixOf]
theorem Tok.hasPrefix_render_wild (n : Str) : hasPrefix ['{'] (Tok.wild n).render = true := by
  simp [Tok.render, hasPrefix, List.isPrefixOf]

/-- no colon in a rendered literal, `{v}`, `{v}suffix` -/
theorem Tok.not_colon_mem_render_lit {s : Str} (h : (Tok.lit s).wf = true) :
    ':' ∉ (Tok.lit s).render := (litOK_not_mem (s := s) (by simpa [Tok.wf] using h)).2.1

theorem Tok.not_colon_mem_render_var {n : Str} (h : (Tok.var n).wf = true) :
    ':' ∉ (Tok.var n).render := by
  have := (nameOK_not_mem (by simpa [Tok.wf] using h)).1
  simp [Tok.render, this]

theorem Tok.not_colon_mem_render_suf {n s : Str} (h : (Tok.suf n s).wf = true) :
    ':' ∉ (Tok.suf n s).render := by
  simp only [Tok.wf, Bool.and_eq_true] at h
  have h1 := (nameOK_not_mem h.1).1
  have h2 := (litOK_not_mem h.2).2.1
  simp [Tok.render, h1, h2]

theorem Tok.index_colon_render_lit {s : Str} (h : (Tok.lit s).wf = true) :
    index ':' (Tok.lit s).render = none := index_eq_none (Tok.not_colon_mem_render_lit h)
theorem Tok.index_colon_render_var {n : Str} (h : (Tok.var n).wf = true) :
    index ':' (Tok.var n).render = none := index_eq_none (Tok.not_colon_mem_render_var h)
theorem Tok.index_colon_render_suf {n s : Str} (h : (Tok.suf n s).wf = true) :
    index ':' (Tok.suf n s).render = none := index_eq_none (Tok.not_colon_mem_render_suf h)

theorem Tok.index_colon_render_re {n e : Str} (h : (Tok.re n e).wf = true) :
    index ':' (Tok.re n e).render = some (n.length + 1) := by
  simp only [Tok.wf, Bool.and_eq_true] at h
  have := index_cons_append_cons (d := '{') n (e ++ ['}']) (by decide) (nameOK_not_mem h.1).1
  simpa [Tok.render] using this

theorem Tok.index_colon_render_wild {n : Str} (h : (Tok.wild n).wf = true) :
    index ':' (Tok.wild n).render = some (n.length + 1) := by
  have := index_cons_append_cons (d := '{') n ['*', '}'] (by decide)
    (nameOK_not_mem (n := n) (by simpa [Tok.wf] using h)).1
  simpa [Tok.render] using this

theorem Tok.index_rbrace_render_var {n : Str} (h : (Tok.var n).wf = true) :
    index '}' (Tok.var n).render = some (n.length + 1) := by
  have := index_cons_append_cons (d := '{') n [] (by decide)
    (nameOK_not_mem (n := n) (by simpa [Tok.wf] using h)).2.2
  simpa [Tok.render] using this

theorem Tok.index_rbrace_render_suf {n s : Str} (h : (Tok.suf n s).wf = true) :
    index '}' (Tok.suf n s).render = some (n.length + 1) := by
  simp only [Tok.wf, Bool.and_eq_true] at h
  have := index_cons_append_cons (d := '{') n s (by decide) (nameOK_not_mem h.1).2.2
  simpa [Tok.render] using this

theorem Tok.drop_render_var (n : Str) : (Tok.var n).render.drop (n.length + 1 + 1) = [] := by
  simp [Tok.render]

theorem Tok.drop_render_suf (n s : Str) : (Tok.suf n s).render.drop (n.length + 1 + 1) = s := by
  have : '{' :: n ++ '}' :: s = ('{' :: n ++ ['}']) ++ s := by simp
  rw [Tok.render, this, List.drop_left' (by simp)]

theorem Tok.regPart_render_re (n e : Str) :
    Curly.regPart (Tok.re n e).render (n.length + 1) = some e := by
  have hlen : (Tok.re n e).render.length = n.length + e.length + 3 := by
    simp [Tok.render]; omega
  have hdrop : (Tok.re n e).render.drop (n.length + 2) = e ++ ['}'] := by
    have : '{' :: n ++ ':' :: e ++ ['}'] = ('{' :: n ++ [':']) ++ (e ++ ['}']) := by simp
    rw [Tok.render, this, List.drop_left' (by simp)]
  unfold Curly.regPart slice?
  rw [hlen]
  have hc : (0 : Int) ≤ ((n.length + 1 + 1 : Nat) : Int) ∧
      ((n.length + 1 + 1 : Nat) : Int) ≤ ((n.length + e.length + 3 : Nat) : Int) - 1 ∧
      ((n.length + e.length + 3 : Nat) : Int) - 1 ≤ ((n.length + e.length + 3 : Nat) : Int) := by
    omega
  rw [if_pos hc]
  have h1 : ((n.length + 1 + 1 : Nat) : Int).toNat = n.length + 2 := by omega
  have h2 : (((n.length + e.length + 3 : Nat) : Int) - 1).toNat - (n.length + 2) = e.length := by
    omega
  rw [h1, h2, hdrop, List.take_left' rfl]

theorem Tok.regPart_render_wild (n : Str) :
    Curly.regPart (Tok.wild n).render (n.length + 1) = some ['*'] := by
  have := Tok.regPart_render_re n ['*']
  simpa [Tok.render] using this

/-- a well-formed base token (no verb part) never reads as carrying a custom verb -/
theorem Tok.customVerbOf_render {b : Tok} (h : b.wf = true) : customVerbOf b.render = none := by
  cases b with
  | lit s => exact customVerbOf_no_colon (Tok.not_colon_mem_render_lit h)
  | var n => exact customVerbOf_no_colon (Tok.not_colon_mem_render_var h)
  | suf n s => exact customVerbOf_no_colon (Tok.not_colon_mem_render_suf h)
  | re n e =>
    have : (Tok.re n e).render = ('{' :: n ++ ':' :: e) ++ ['}'] := by simp [Tok.render]
    rw [this]; exact customVerbOf_append_rbrace _
  | wild n =>
    have : (Tok.wild n).render = ('{' :: n ++ [':', '*']) ++ ['}'] := by simp [Tok.render]
    rw [this]; exact customVerbOf_append_rbrace _

/-! ### rendered full tokens -/

theorem TTok.wf_base {t : TTok} (h : t.wf = true) : t.base.wf = true := by
  simp only [TTok.wf, Bool.and_eq_true] at h; exact h.1

theorem TTok.wf_verb {t : TTok} {v : Str} (h : t.wf = true) (hv : t.verb = some v) :
    verbOK v = true ∧ t.base.isWild = false := by
  simp only [TTok.wf, hv, Bool.and_eq_true, Bool.not_eq_true'] at h; exact h.2

theorem TTok.wf_wild_verb {t : TTok} (h : t.wf = true) (hw : t.base.isWild = true) :
    t.verb = none := by
  cases hv : t.verb with
  | none => rfl
  | some v => have := (TTok.wf_verb h hv).2; simp [hw] at this

theorem TTok.render_of_verb_none {t : TTok} (hv : t.verb = none) : t.render = t.base.render := by
  simp [TTok.render, hv]

theorem TTok.render_of_verb_some {t : TTok} {v : Str} (hv : t.verb = some v) :
    t.render = t.base.render ++ ':' :: v := by
  simp [TTok.render, hv]

theorem TTok.customVerbOf_render {t : TTok} (h : t.wf = true) :
    customVerbOf t.render = t.verb.map (fun v => (t.base.render, v)) := by
  cases hv : t.verb with
  | none =>
    rw [TTok.render_of_verb_none hv]
    simpa using Tok.customVerbOf_render (TTok.wf_base h)
  | some v =>
    rw [TTok.render_of_verb_some hv]
    simpa using customVerbOf_append_verb (TTok.wf_verb h hv).1

theorem TTok.hasCustomVerb_render {t : TTok} (h : t.wf = true) :
    hasCustomVerb t.render = t.verb.isSome := by
  simp [hasCustomVerb, TTok.customVerbOf_render h]

/-- whatever `isTailWildcard` accepts ends in `}` -/
theorem isTailWildcard_getLast? {rt : Str} (h : Curly.isTailWildcard rt = true) :
    rt.getLast? = some '}' := by
  unfold Curly.isTailWildcard at h
  split at h
  · rename_i colon _
    simp only [Bool.and_eq_true, beq_iff_eq] at h
    have h2 := congrArg List.getLast? h.2
    rw [List.getLast?_drop] at h2
    split at h2
    · simp at h2
    · simpa using h2
  · simp at h

theorem isTailWildcard_append_verb {a v : Str} (hv : verbOK v = true) :
    Curly.isTailWildcard (a ++ ':' :: v) = false := by
  obtain ⟨hne, hall, _⟩ := verbOK_not_mem hv
  cases hw : Curly.isTailWildcard (a ++ ':' :: v) with
  | false => rfl
  | true =>
    exfalso
    have h := isTailWildcard_getLast? hw
    obtain ⟨ys, hys⟩ := List.getLast?_eq_some_iff.mp h
    -- the last character of the token is the last character of the verb
    have hmem : '}' ∈ v := by
      have h2 : (a ++ ':' :: v).getLast? = v.getLast? := by
        cases v with
        | nil => exact absurd rfl hne
        | cons c v =>
          rw [show a ++ ':' :: c :: v = (a ++ [':']) ++ (c :: v) by simp, List.getLast?_append]
          cases hl : (c :: v).getLast? with
          | none => simp at hl
          | some x => rfl
      rw [h2] at h
      obtain ⟨zs, hzs⟩ := List.getLast?_eq_some_iff.mp h
      simp [hzs]
    have := (List.all_eq_true.mp hall) _ hmem
    revert this; decide

theorem Tok.isTailWildcard_render {b : Tok} (h : b.wf = true) :
    Curly.isTailWildcard b.render = b.isWild := by
  cases b with
  | lit s => simp [Curly.isTailWildcard, Tok.index_colon_render_lit h, Tok.isWild]
  | var n => simp [Curly.isTailWildcard, Tok.index_colon_render_var h, Tok.isWild]
  | suf n s => simp [Curly.isTailWildcard, Tok.index_colon_render_suf h, Tok.isWild]
  | re n e =>
    have hdrop : (Tok.re n e).render.drop (n.length + 1 + 1) = e ++ ['}'] := by
      have : '{' :: n ++ ':' :: e ++ ['}'] = ('{' :: n ++ [':']) ++ (e ++ ['}']) := by simp
      rw [Tok.render, this, List.drop_left' (by simp)]
    have hne : e ≠ ['*'] := by
      simp only [Tok.wf, reOK, Bool.and_eq_true] at h
      simpa using h.2.1.1.1.1
    have : (e ++ ['}'] == ['*', '}']) = false := by
      have : e ++ ['}'] ≠ ['*'] ++ ['}'] := fun he => hne (List.append_cancel_right he)
      simpa using this
    simp only [Curly.isTailWildcard, Tok.index_colon_render_re h, hdrop, this, Bool.and_false,
      Tok.isWild]
  | wild n =>
    have hdrop : (Tok.wild n).render.drop (n.length + 1 + 1) = ['*', '}'] := by
      have : '{' :: n ++ [':', '*', '}'] = ('{' :: n ++ [':']) ++ ['*', '}'] := by simp
      rw [Tok.render, this, List.drop_left' (by simp)]
    simp [Curly.isTailWildcard, Tok.index_colon_render_wild h, hdrop,
      Tok.hasPrefix_render_wild, Tok.isWild]

theorem TTok.isTailWildcard_render {t : TTok} (h : t.wf = true) :
    Curly.isTailWildcard t.render = t.base.isWild := by
  cases hv : t.verb with
  | none => rw [TTok.render_of_verb_none hv, Tok.isTailWildcard_render (TTok.wf_base h)]
  | some v =>
    obtain ⟨hvo, hw⟩ := TTok.wf_verb h hv
    rw [TTok.render_of_verb_some hv, isTailWildcard_append_verb hvo, hw]

theorem TTok.isTailWildcard_render' {t : TTok} (h : t.wf = true) :
    Curly.isTailWildcard t.render = (t.base.isWild && t.verb.isNone) := by
  rw [TTok.isTailWildcard_render h]
  cases hw : t.base.isWild with
  | false => rfl
  | true => simp [TTok.wf_wild_verb h hw]

/-! ### request tokens carrying a verb -/

theorem removeCustomVerb_eq_stripVerb {v q : Str} (hv : verbOK v = true)
    (hs : hasSuffix (':' :: v) q = true) : removeCustomVerb q = Spec.stripVerb v q := by
  obtain ⟨pre, rfl⟩ := hasSuffix_iff.mp hs
  have : Spec.stripVerb v (pre ++ ':' :: v) = pre := by
    unfold Spec.stripVerb
    apply List.take_left'
    simp
  rw [this, removeCustomVerb, customVerbOf_append_verb hv]

theorem isMatchCustomVerb_render {b : Tok} {v : Str} (_hb : b.wf = true) (hv : verbOK v = true)
    (q : Str) : isMatchCustomVerb (b.render ++ ':' :: v) q = hasSuffix (':' :: v) q := by
  rw [isMatchCustomVerb, customVerbOf_append_verb hv]

theorem TTok.isMatchCustomVerb_render {t : TTok} {v : Str} (h : t.wf = true)
    (hv : t.verb = some v) (q : Str) :
    isMatchCustomVerb t.render q = hasSuffix (':' :: v) q := by
  rw [TTok.render_of_verb_some hv,
    Restful.isMatchCustomVerb_render (TTok.wf_base h) (TTok.wf_verb h hv).1]

theorem TTok.removeCustomVerb_render {t : TTok} (h : t.wf = true) :
    removeCustomVerb t.render = t.base.render := by
  rw [removeCustomVerb, TTok.customVerbOf_render h]
  cases hv : t.verb with
  | none => simp [TTok.render_of_verb_none hv]
  | some v => simp

end Restful
