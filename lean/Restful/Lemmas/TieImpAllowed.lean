import Restful.Lemmas.TieImpVocab
import Restful.Lemmas.TieImpBridge
import Restful.Lemmas.TieImpTactic
namespace Restful
namespace TieImp
open Imp
set_option linter.unusedSimpArgs false

/-- a service of the model as the `*WebService` the function walks; `mk` builds the Route value around
    the two fields that are read -/
def genWS (E : ReEnv) (mk : RouteDecl → Option ImpGen.GoPathExpression → ImpGen.GoRoute) (ws : Service) : ImpGen.GoWebService :=
  { rootPath := ws.rootPath, pathExpr := genPE E ws.rootPath, routes := ws.routes.map (fun rt => mk rt (genPE E rt.relPath)) }

namespace T9

/-- `matches[len(matches)-1]` of a match of `reOf` is the final group -/
theorem at?_last_match (s : Str) (caps : List Str) (fin : Str) :
    at? (s :: (caps ++ [fin])) (len (s :: (caps ++ [fin])) - 1) = some fin := by
  rw [at?_last _ (by simp)]
  simp

/-- what the code does with `pe.Matcher.FindStringSubmatch(s)`: nothing on no match, else `k` of the last
    group; `none` = nil `pathExpr` -/
def onMatch {σ : Type} (E : ReEnv) (tmpl s : Str) (acc : σ) (k : Str → Option (ForInStep σ)) : Option (ForInStep σ) :=
  match Jsr.compile tmpl with
  | none => none
  | some ex =>
    match Jsr.matchExpr E ex.toks s with
    | some (_, last) => k last
    | none => some (.yield acc)

/-- the code's way of reading a compiled expression is `onMatch`, for ANY code `F` (it reads `pe.Matcher s`
    however it likes: nested `if matches != nil {…}` or a guard `if matches == nil { continue }`) that does
    nothing on no match and `k` of the last group on a match; `none` = nil `pathExpr` -/
theorem onMatch_gen {σ : Type} (E : ReEnv) (tmpl s : Str) (acc : σ) (k : Str → Option (ForInStep σ))
    (F : ImpGen.GoPathExpression → Option (ForInStep σ))
    (hF : ∀ pe : ImpGen.GoPathExpression,
      (pe.Matcher s = [] → F pe = some (ForInStep.yield acc)) ∧
      (∀ caps fin, pe.Matcher s = s :: (caps ++ [fin]) → F pe = k fin)) :
    (genPE E tmpl).bind F = onMatch E tmpl s acc k := by
  unfold onMatch genPE
  cases Jsr.compile tmpl with
  | none => rfl
  | some ex =>
    simp only [Option.map_some, Option.bind_some]
    cases hm : Jsr.matchExpr E ex.toks s with
    | none => exact (hF _).1 (by simp [reOf, hm])
    | some r =>
      obtain ⟨caps, fin⟩ := r
      exact (hF _).2 caps fin (by simp [reOf, hm])

/-- one iteration of the inner loop, by the model -/
def innerStep (E : ReEnv) (finalMatch : Str) (rt : RouteDecl) (acc : List Str) : Option (ForInStep (List Str)) :=
  onMatch E rt.relPath finalMatch acc (fun last =>
    if last = [] || last = ['/'] then some (.yield (acc ++ [rt.method])) else some (.yield acc))

/-- the inner loop, body abstract: appends left to right what the model conses -/
theorem inner_loop {ρ : Type} (E : ReEnv) (finalMatch : Str) (g : RouteDecl → ρ)
    (f : ρ → List Str → Option (ForInStep (List Str)))
    (hf : ∀ rt acc, f (g rt) acc = innerStep E finalMatch rt acc) :
    ∀ (rts : List RouteDecl) (acc : List Str),
      forIn (rts.map g) acc f = (Cors.routeMethods E rts finalMatch).map (acc ++ ·) := by
  intro rts
  induction rts with
  | nil => intro acc; simp [Cors.routeMethods]
  | cons rt rest ih =>
    intro acc
    rw [List.map_cons, List.forIn_cons, hf, Cors.routeMethods]
    unfold innerStep onMatch
    cases Jsr.compile rt.relPath with
    | none => rfl
    | some ex =>
      dsimp only
      cases Jsr.matchExpr E ex.toks finalMatch with
      | none => exact ih acc
      | some r =>
        obtain ⟨caps, last⟩ := r
        dsimp only
        by_cases h : (last = [] || last = ['/']) = true
        · rw [if_pos h, if_pos h]
          refine (ih _).trans ?_
          cases Cors.routeMethods E rest finalMatch <;> simp
        · rw [if_neg h, if_neg h]
          exact ih acc

/-- one iteration of the outer loop, by the model -/
def outerStep (E : ReEnv) (requestPath : Str) (ws : Service) (acc : List Str) : Option (ForInStep (List Str)) :=
  onMatch E ws.rootPath requestPath acc (fun finalMatch =>
    (Cors.routeMethods E ws.routes finalMatch).map (fun a => .yield (acc ++ a)))

/-- the outer loop, body abstract -/
theorem outer_loop {ρ : Type} (E : ReEnv) (requestPath : Str) (g : Service → ρ)
    (f : ρ → List Str → Option (ForInStep (List Str)))
    (hf : ∀ ws acc, f (g ws) acc = outerStep E requestPath ws acc) :
    ∀ (svcs : List Service) (acc : List Str),
      forIn (svcs.map g) acc f = (Cors.computeAllowedMethods E svcs requestPath).map (acc ++ ·) := by
  intro svcs
  induction svcs with
  | nil => intro acc; simp [Cors.computeAllowedMethods]
  | cons ws rest ih =>
    intro acc
    rw [List.map_cons, List.forIn_cons, hf, Cors.computeAllowedMethods]
    unfold outerStep onMatch
    cases Jsr.compile ws.rootPath with
    | none => rfl
    | some ex =>
      dsimp only
      cases Jsr.matchExpr E ex.toks requestPath with
      | none => exact ih acc
      | some r =>
        obtain ⟨caps, fm⟩ := r
        dsimp only
        cases Cors.routeMethods E ws.routes fm with
        | none => rfl
        | some a =>
          refine (ih _).trans ?_
          cases Cors.computeAllowedMethods E rest requestPath <;> simp

end T9

/-- container.go `Container.computeAllowedMethods` (OPTIONS filter, CORS preflight): every route, of
    every registered service whose expression matches the URL, whose own expression matches the rest up to
    an optional final slash contributes its method — as translated on this run IS the model's, with the
    compiled expressions read through the closed form (`reOf`); a nil `pathExpr` (template that does not
    compile) is a panic where the model says `none` -/
theorem compute_allowed_methods (E : ReEnv) (X : ImpGen.Ext)
    (mk : RouteDecl → Option ImpGen.GoPathExpression → ImpGen.GoRoute)
    (hmk : ∀ rt pe, (mk rt pe).Method = rt.method ∧ (mk rt pe).pathExpr = pe)
    (svcs : List Service) (hr : HttpRequest) :
    ImpGen.Container_computeAllowedMethods X (some { webServices := svcs.map (fun ws => some (genWS E mk ws)) }) (some { Request := hr })
      = Cors.computeAllowedMethods E svcs hr.path := by
  unfold ImpGen.Container_computeAllowedMethods
  unfold_gen_helpers
  simp only [deref, Option.bind_eq_bind, Option.bind_some, Option.pure_def]
  rw [T9.outer_loop E hr.path (fun ws => some (genWS E mk ws)) _ ?hf]
  case hf =>
    intro ws acc
    simp only [Option.bind_some]
    rw [show (genWS E mk ws).pathExpr = genPE E ws.rootPath from rfl,
        show (genWS E mk ws).routes = ws.routes.map (fun rt => mk rt (genPE E rt.relPath)) from rfl]
    unfold T9.outerStep
    -- (when the per-service part is a helper, its call is bound before the `append`: re-associate)
    try simp only [Option.bind_assoc]
    refine T9.onMatch_gen E _ _ acc _ _ (fun pe => ⟨fun h0 => ?_, fun caps finalMatch h1 => ?_⟩)
    · simp [h0]
    · simp only [h1, List.isEmpty_cons, Bool.not_false, Bool.not_true, Bool.false_eq_true, if_true, if_false,
        ↓reduceIte, T9.at?_last_match, Option.bind_some, Option.pure_def, Option.bind_eq_bind]
      rw [T9.inner_loop E finalMatch (fun rt => mk rt (genPE E rt.relPath)) _ ?hf2]
      case hf2 =>
        intro rt acc
        rw [(hmk rt _).2, (hmk rt _).1]
        unfold T9.innerStep
        refine T9.onMatch_gen E _ _ acc _ _ (fun pe => ⟨fun h0 => ?_, fun caps last h1 => ?_⟩)
        · simp [h0]
        · simp only [h1, List.isEmpty_cons, Bool.not_false, Bool.not_true, Bool.false_eq_true, if_true, if_false,
            ↓reduceIte, T9.at?_last_match, Option.bind_some, Option.pure_def, Option.bind_eq_bind]
          by_cases hl : (last = [] || last = ['/']) = true <;>
            simp_all [push]
      · cases Cors.routeMethods E ws.routes finalMatch <;> rfl
  · cases Cors.computeAllowedMethods E svcs hr.path <;> simp

#print axioms compute_allowed_methods

end TieImp
end Restful
