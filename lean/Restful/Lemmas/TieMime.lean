/-
The tie between the translated decision functions (Gen/Translated.lean, regenerated from the Go
sources by tools/gotrans on every run) and the hand-written models: the model's definitions ARE
the translated ones, for all arguments.  A change to one of these Go functions changes the
generated definition and breaks the corresponding theorem here at compile time.  One file per
group of properties, so that a change breaks the obligations of the properties it concerns only.
This file: the Accept-header helpers of mime.go (C05).  `strings.Trim` is a function parameter of
the translated definition (tools/gotrans never interprets a library function); the tie instantiates
it with the cutset trim below, so what is tied is the call as written: WHICH string is trimmed
with WHICH cutset.
-/
import Restful.Gen.Translated
import Restful.Model.Mime
namespace Restful
namespace Tie
open Translated

/-- `strings.Trim(s, cutset)` (ASCII cutset): the leading and the trailing bytes that occur in the
    cutset removed -/
def trimCutset (s cutset : Str) : Str :=
  ((s.dropWhile cutset.contains).reverse.dropWhile cutset.contains).reverse

/-- mime.go:58 `trimOWS(s) = strings.Trim(s, " \t")` is the model's `Mime.trimOWS` -/
theorem mime_trim_ows (s : Str) : trimOWS trimCutset s = Mime.trimOWS s := by
  have h : (List.contains " \t".toList) = Mime.isOWS := by
    funext c
    simp only [Mime.isOWS, List.contains_cons, List.contains_nil, Bool.or_false,
      show " \t".toList = [' ', '\t'] by decide]
  unfold trimOWS trimCutset Mime.trimOWS
  rw [h]

end Tie
end Restful
