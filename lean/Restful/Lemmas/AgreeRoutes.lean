/-
C18, part 2: inside one WebService of the common fragment, on a normal path, the two routers have
the same candidate routes (up to order) and bind the same parameters for each of them; and what
`detectRoute` answers on two permutations of a candidate list.
-/
import Restful.Lemmas.AgreePath
import Restful.Lemmas.Order
import Restful.Lemmas.OrderJsr
import Restful.Lemmas.CurlyParams
import Restful.Lemmas.JsrMatch
namespace Restful
open Str

/-! ### `detectRoute` in one step -/

/-- the error `detectRoute` returns when no route survives all four stages -/
def detectErr (routes : List Route) (req : Req) : Nat × Option (List Str) :=
  let c1 := routes.filter (passesConds · req)
  if c1.isEmpty then (404, none) else
  let c2 := c1.filter (fun r => req.method = r.method)
  if c2.isEmpty then (405, some (allowedMethods c1 [])) else
  let c3 := c2.filter (matchesContentType · req.contentType)
  if c3.isEmpty && decide (req.contentLength ≠ 0) then (415, none) else
  if bodylessMethods.contains req.method && decide (req.contentLength = 0)
  then (415, none) else (406, none)

theorem detectRoute_eq (routes : List Route) (req : Req) :
    detectRoute routes req = match stage4 routes req with
      | r :: _ => .ok r
      | [] => .error (detectErr routes req) := by
  unfold detectRoute stage4 detectErr
  simp only
  by_cases h1 : (List.filter (fun x => passesConds x req) routes).isEmpty = true
  · have h1' := List.isEmpty_iff.mp h1
    simp [h1']
  · simp only [h1, Bool.false_eq_true, if_false]
    by_cases h2 : (List.filter (fun r => decide (req.method = r.method))
        (List.filter (fun x => passesConds x req) routes)).isEmpty = true
    · have h2' := List.isEmpty_iff.mp h2
      simp [h2']
    · simp only [h2, Bool.false_eq_true, if_false]
      by_cases h3 : ((List.filter (fun x => matchesContentType x req.contentType)
          (List.filter (fun r => decide (req.method = r.method))
            (List.filter (fun x => passesConds x req) routes))).isEmpty && decide (req.contentLength ≠ 0)) = true
      · have h3' := List.isEmpty_iff.mp (Bool.and_eq_true_iff.mp h3).1
        rw [if_pos h3, if_pos h3, h3']
        rfl
      · simp only [h3, Bool.false_eq_true, if_false]
        generalize List.filter (fun x => matchesAccept x (if List.isEmpty req.accept = true then starStar else req.accept))
          (List.filter (fun x => matchesContentType x req.contentType)
            (List.filter (fun r => decide (req.method = r.method))
              (List.filter (fun x => passesConds x req) routes))) = c4
        cases c4 with
        | nil => simp only; split <;> rfl
        | cons r rest => rfl

/-- the errors on two permutations agree up to the order of the Allow list -/
theorem detectErr_perm {l l' : List Route} (hp : l.Perm l') (req : Req) :
    (detectErr l req).1 = (detectErr l' req).1 ∧
      match (detectErr l req).2, (detectErr l' req).2 with
      | none, none => True
      | some al, some al' => ∀ m, m ∈ al ↔ m ∈ al'
      | _, _ => False := by
  have p1 := hp.filter (passesConds · req)
  have p2 := p1.filter (fun r => decide (req.method = r.method))
  have p3 := p2.filter (matchesContentType · req.contentType)
  have e1 := p1.isEmpty_eq
  have e2 := p2.isEmpty_eq
  have e3 := p3.isEmpty_eq
  unfold detectErr
  simp only
  rw [← e1, ← e2, ← e3]
  split
  · simp
  split
  · simp only [true_and]
    intro m
    rw [mem_allowedMethods, mem_allowedMethods]
    simp only [List.not_mem_nil, false_or]
    constructor
    · rintro ⟨x, hx, h⟩; exact ⟨x, p1.mem_iff.mp hx, h⟩
    · rintro ⟨x, hx, h⟩; exact ⟨x, p1.mem_iff.mpr hx, h⟩
  split
  · simp
  split <;> simp

/-- what `finishWith` does with the route `detectRoute` returns -/
def finOf (extract : Route → Option Params) (r : Route) : Outcome :=
  match extract r with
  | none => .panic "params"
  | some ps => .selected r.svc r.id ps

/-- two routers' tails on candidate lists that are permutations of each other: either both reach a
    route (each an eligible member of its list), or both answer the same error -/
theorem finishWith_perm_weak (ex ex' : Route → Option Params) {cands cands' : List Route}
    (hmp : cands.Perm cands') (req : Req) :
    (∃ r ∈ cands, ∃ r' ∈ cands', Spec.eligible r req = true ∧ Spec.eligible r' req = true ∧
        finishWith ex cands req = finOf ex r ∧ finishWith ex' cands' req = finOf ex' r') ∨
    (Spec.sameOutcome (finishWith ex cands req) (finishWith ex' cands' req) ∧
      ∀ s r ps, finishWith ex cands req ≠ .selected s r ps) := by
  unfold finishWith
  cases cands with
  | nil =>
    have := hmp.nil_eq
    subst this
    right
    simp [Spec.sameOutcome]
  | cons x xs =>
    cases cands' with
    | nil => exact absurd hmp.eq_nil (by simp)
    | cons y ys =>
      simp only
      have h4 : (stage4 (x :: xs) req).Perm (stage4 (y :: ys) req) := by
        rw [stage4_eq_filter, stage4_eq_filter]; exact hmp.filter _
      rw [detectRoute_eq, detectRoute_eq]
      cases hs : stage4 (x :: xs) req with
      | nil =>
        rw [hs] at h4
        have hs' := h4.nil_eq.symm
        rw [hs']
        right
        simp only
        obtain ⟨hc, ha⟩ := detectErr_perm hmp req
        generalize detectErr (x :: xs) req = e at hc ha
        generalize detectErr (y :: ys) req = e' at hc ha
        obtain ⟨c, a⟩ := e
        obtain ⟨c', a'⟩ := e'
        simp only at hc ha ⊢
        subst hc
        cases a <;> cases a' <;> simp_all [Spec.sameOutcome]
      | cons r rest =>
        cases hs' : stage4 (y :: ys) req with
        | nil => rw [hs, hs'] at h4; exact absurd h4.eq_nil (by simp)
        | cons r' rest' =>
          left
          have hr : r ∈ stage4 (x :: xs) req := by rw [hs]; exact List.mem_cons_self
          have hr' : r' ∈ stage4 (y :: ys) req := by rw [hs']; exact List.mem_cons_self
          rw [stage4_eq_filter, List.mem_filter] at hr hr'
          exact ⟨r, hr.1, r', hr'.1, hr.2, hr'.2, rfl, rfl⟩

/-- the routes behind a `filterMap`ped candidate list -/
theorem filterMap_map_eq_filter {α β : Type} (f : α → Option β) (g : β → α) :
    ∀ (l : List α), (∀ x ∈ l, ∀ c, f x = some c → g c = x) →
      (l.filterMap f).map g = l.filter (fun x => (f x).isSome)
  | [], _ => rfl
  | x :: xs, h => by
    have ih := filterMap_map_eq_filter f g xs (fun y hy => h y (List.mem_cons_of_mem _ hy))
    rw [List.filterMap_cons, List.filter_cons]
    cases hf : f x with
    | none => simpa using ih
    | some c =>
      have := h x List.mem_cons_self c hf
      simp [this, ih]

/-! ### `curlyAfterSvc` through `finishWith` -/

variable (E : ReEnv)

theorem curlyAfterSvc_eq (routes : List Route) (req : Req) :
    curlyAfterSvc E routes req =
      match Curly.candidates E routes (tokenize req.path) with
      | none => .panic "curly.match"
      | some cs =>
        finishWith (fun r => Params.extract r req.path)
          ((Sort.insertionSort Curly.candLess cs).map (·.route)) req := by
  unfold curlyAfterSvc Curly.selectRoutes finishWith
  cases Curly.candidates E routes (tokenize req.path) with
  | none => rfl
  | some cs =>
    simp only [Option.map_some]
    generalize (Sort.insertionSort Curly.candLess cs).map (·.route) = cands
    cases cands with
    | nil => rfl
    | cons x xs =>
      simp only
      cases detectRoute (x :: xs) req with
      | error e => rfl
      | ok r =>
        simp only
        cases Params.extract r req.path <;> rfl

/-! ### one route of the common fragment, both routers -/

/-- what `wfCommon` says about one built route -/
theorem wfCommon_route {cfg : Config} (hwf : Spec.wfCommon cfg = true) {svc : Service} (hsvc : svc ∈ cfg.services)
    {rt : Route} (hrt : rt ∈ svc.built) :
    ∃ ts, readTemplate rt.path = some ts ∧ Spec.readTemplateJ svc.rootPath rt.relPath = some ts ∧
      ∀ t ∈ ts, t.wf = true ∧ Spec.tokCommon t = true := by
  unfold Spec.wfCommon at hwf
  simp only [List.all_eq_true, Bool.and_eq_true] at hwf
  have h := (hwf svc hsvc).2 rt hrt
  rw [Service.built_root svc hrt] at h
  split at h
  · rename_i a b ha hb
    simp only [Bool.and_eq_true, beq_iff_eq, List.all_eq_true] at h
    obtain ⟨rfl, hc⟩ := h
    exact ⟨a, ha, hb, fun t ht => ⟨(readTemplate_facts ha).2.1 t ht, hc t ht⟩⟩
  · simp at h

/-- CurlyRouter on one route: never a panic; a candidate iff the template admits the tokens; the
    path processor binds the expected parameters -/
theorem curly_route_facts (svc : Service) {rt : Route} (hrt : rt ∈ svc.built) {ts : List TTok}
    (hts : readTemplate rt.path = some ts) (p : Str) :
    Curly.panics E (tokenize p) rt = false ∧
    (Curly.candOf E (tokenize p) rt).isSome = Spec.admits E .curly ts (tokenize p) ∧
    (Spec.admits E .curly ts (tokenize p) = true →
      Params.extract rt p = some (Spec.expectedParams ts (tokenize p))) := by
  have hm := matchTokens_of_template E svc hrt hts (tokenize p)
  obtain ⟨hrender, htwf, hshape, hverb, hnd⟩ := readTemplate_facts hts
  obtain ⟨hparts, hhv⟩ := built_pathParts svc hrt
  refine ⟨?_, ?_, ?_⟩
  · unfold Curly.panics
    rw [hm]
    cases Spec.admits E .curly ts (tokenize p) <;> rfl
  · unfold Curly.candOf
    rw [hm]
    cases Spec.admits E .curly ts (tokenize p) <;> rfl
  · intro hadm
    have := Params.extractWalk_spec E ts htwf hshape hnd (tokenize p) hadm
    unfold Params.extract
    rw [hparts, hhv, ← hrender, hverb, this]

/-- RouterJSR311 on one route, once the root has matched: the relative template compiles; a
    candidate iff the template admits the path; the bound parameters are the expected ones -/
theorem jsr_route_facts (svc : Service) {rt : Route} {ts : List TTok}
    (hts : Spec.readTemplateJ svc.rootPath rt.relPath = some ts) {p : Str} (hn : '\n' ∉ p)
    {wex : Jsr.Expr} {wc : List Str} {final : Str} (hwex : Jsr.compile svc.rootPath = some wex)
    (hwm : Jsr.matchExpr E wex.toks p = some (wc, final)) :
    Jsr.rfails rt = false ∧
    (Jsr.rcandOf E final rt).isSome = (Spec.admittedSegments E .jsr ts p).isSome ∧
    (∀ c, Jsr.rcandOf E final rt = some c → c.route = rt) ∧
    (∀ segs, Spec.admittedSegments E .jsr ts p = some segs →
      Jsr.extract E svc rt p = some (Spec.expectedParams ts segs)) := by
  obtain ⟨a, b, ha, hb, hab, hshape, hjsr, hnd⟩ := Jsr.readTemplateJ_spec hts
  have hjb : ∀ t ∈ b, Spec.tokJsrOK t = true := fun t ht => hjsr t (List.mem_append_right _ ht)
  obtain ⟨rex, hrex, _, _⟩ := Jsr.compile_of_readToks' hb hjb
  have hcomplete : ∀ segs, Spec.admittedSegments E .jsr ts p = some segs →
      ∃ rc f, Jsr.matchExpr E rex.toks final = some (rc, f) ∧ (f = [] ∨ f = ['/']) := by
    intro segs hseg
    obtain ⟨wc', final', rc, f, h1, h2, hf⟩ :=
      Jsr.match_complete E svc.rootPath rt.relPath p ts hts wex rex hwex hrex hn segs hseg
    rw [hwm] at h1
    simp only [Option.some.injEq, Prod.mk.injEq] at h1
    obtain ⟨_, rfl⟩ := h1
    exact ⟨rc, f, h2, hf⟩
  refine ⟨by simp [Jsr.rfails, hrex], ?_, fun c hc => (Jsr.rcandOf_some E hc).1, ?_⟩
  · cases hc : Jsr.rcandOf E final rt with
    | some c =>
      obtain ⟨_, ex, caps, f, hex, hm, hf, _⟩ := Jsr.rcandOf_some E hc
      rw [hrex] at hex
      cases hex
      obtain ⟨segs, hseg, _⟩ := Jsr.match_sound E svc.rootPath rt.relPath p ts hts wex rex hwex hrex wc caps final f hwm hm hf
      simp [hseg]
    | none =>
      cases hseg : Spec.admittedSegments E .jsr ts p with
      | none => rfl
      | some segs =>
        obtain ⟨rc, f, hm, hf⟩ := hcomplete segs hseg
        rw [Jsr.rcandOf_of E hrex hm hf] at hc
        simp at hc
  · intro segs hseg
    obtain ⟨rc, f, hm, hf⟩ := hcomplete segs hseg
    obtain ⟨segs', hseg', hbind⟩ := Jsr.match_sound E svc.rootPath rt.relPath p ts hts wex rex hwex hrex wc rc final f hwm hm hf
    rw [hseg] at hseg'
    cases hseg'
    unfold Jsr.extract
    simp only [hwex, hrex, hwm, hm, hbind]

end Restful
