/-
The shape of the state, read off the sources on every run (tools/gofacts → Gen/Facts.lean):
package-level variables, the fields of every struct type, and the header / media-type constants.

The models carry one component per entry below (Container: services, mux patterns, root flag,
filters, recovery switch and handler, error handler, router, encoding switch; WebService: root,
routes, filters, dynamic switch; Response: status, length, Accept, Produces, …); the correspondence
streams validate what the code does WITH this state.  What they cannot see is state the model has
no component for: a cache, a pool or a memo added as a new variable or field changes no answer
until the history, the interleaving or the fault that makes it stale comes along.  The obligation
`state_shape` is the frame condition: the code has exactly the state the model accounts for.  A
change to it is reported by every property whose model owns that state; the check then still
searches for a failing input (histories, concurrent replays, fault traffic) and names this theorem
when it finds none.  (A harmless new field breaks it too: then the expectation below is what has
to be brought up to date, together with the model.)
-/
import Restful.Gen.Facts
namespace Restful
namespace StateShape
open Gen

def expectedPkgVars : List (String × String) := [("DefaultContainer", "*Container"), ("DefaultResponseMimeType", "string"), ("DoNotRecover", "false"), ("EnableContentEncoding", "false"), ("MarshalIndent", "json.MarshalIndent"), ("NewDecoder", "json.NewDecoder"), ("NewEncoder", "json.NewEncoder"), ("PrettyPrintResponses", "true"), ("TrimRightSlashEnabled", "true"), ("anonymousFuncCount", "int32"), ("currentCompressorProvider", "CompressorProvider"), ("customVerbReg", "regexp.MustCompile(\":([A-Za-z]+)$\")"), ("defaultRequestContentType", "string"), ("entityAccessRegistry", "&entityReaderWriters{ protection: new(sync.RWMutex), accessors: map[string]EntityReaderWriter{}, }"), ("jsr311Router", "RouterJSR311{}"), ("trace", "bool = false"), ("traceLogger", "log.StdLogger")]

/-- every struct type of the package, by name -/
def expectedStructNames : List String := ["BoundedCachedCompressors", "CompressingResponseWriter", "Container", "CrossOriginResourceSharing", "CurlyRouter", "ExtensionProperties", "FilterChain", "Header", "Items", "Parameter", "ParameterData", "Request", "Response", "ResponseError", "Route", "RouteBuilder", "RouterJSR311", "ServiceError", "SyncPoolCompessors", "WebService", "curlyRoute", "defaultPathProcessor", "dispatcherCandidate", "entityJSONAccess", "entityReaderWriters", "entityXMLAccess", "mime", "pathExpression", "routeAccessor", "routeCandidate", "sortableDispatcherCandidates", "sortableRouteCandidates"]

/-- documentation-only structs (Swagger-style descriptions): their fields are not state -/
def docStructs : List String := ["ExtensionProperties", "Header", "Items", "Parameter", "ParameterData", "ResponseError", "RouteBuilder"]

def expectedStructFields : List (String × List String) := [
  ("BoundedCachedCompressors", ["gzipWriters chan *gzip.Writer", "gzipReaders chan *gzip.Reader", "zlibWriters chan *zlib.Writer", "writersCapacity int", "readersCapacity int"]),
  ("CompressingResponseWriter", ["writer http.ResponseWriter", "compressor io.WriteCloser", "encoding string"]),
  ("Container", ["webServicesLock sync.RWMutex", "webServices []*WebService", "ServeMux *http.ServeMux", "isRegisteredOnRoot bool", "containerFilters []FilterFunction", "doNotRecover bool", "recoverHandleFunc RecoverHandleFunction", "serviceErrorHandleFunc ServiceErrorHandleFunction", "router RouteSelector", "contentEncodingEnabled bool"]),
  ("CrossOriginResourceSharing", ["ExposeHeaders []string", "AllowedHeaders []string", "AllowedDomains []string", "AllowedDomainFunc func(origin string) bool", "AllowedMethods []string", "MaxAge int", "CookiesAllowed bool", "Container *Container", "allowedOriginPatterns []*regexp.Regexp"]),
  ("CurlyRouter", []),
  ("FilterChain", ["Filters []FilterFunction", "Index int", "Target RouteFunction", "ParameterDocs []*Parameter", "Operation string"]),
  ("Request", ["Request *http.Request", "pathParameters map[string]string", "attributes map[string]interface{}", "selectedRoute *Route"]),
  ("Response", ["(embedded) http.ResponseWriter", "requestAccept string", "routeProduces []string", "statusCode int", "contentLength int", "prettyPrint bool", "err error", "hijacker http.Hijacker"]),
  ("Route", ["(embedded) ExtensionProperties", "Method string", "Produces []string", "Consumes []string", "Path string", "Function RouteFunction", "Filters []FilterFunction", "If []RouteSelectionConditionFunction", "relativePath string", "pathParts []string", "pathExpr *pathExpression", "Doc string", "Notes string", "Operation string", "ParameterDocs []*Parameter", "ResponseErrors map[int]ResponseError", "DefaultResponse *ResponseError", "ReadSample interface{}", "WriteSample interface{}", "WriteSamples []interface{}", "Metadata map[string]interface{}", "Deprecated bool", "contentEncodingEnabled *bool", "hasCustomVerb bool", "allowedMethodsWithoutContentType []string"]),
  ("RouterJSR311", []),
  ("ServiceError", ["Code int", "Message string", "Header http.Header"]),
  ("SyncPoolCompessors", ["GzipWriterPool *sync.Pool", "GzipReaderPool *sync.Pool", "ZlibWriterPool *sync.Pool"]),
  ("WebService", ["rootPath string", "pathExpr *pathExpression", "routes []Route", "produces []string", "consumes []string", "pathParameters []*Parameter", "filters []FilterFunction", "documentation string", "apiVersion string", "typeNameHandleFunc TypeNameHandleFunction", "dynamicRoutes bool", "routesLock sync.RWMutex"]),
  ("curlyRoute", ["route Route", "paramCount int", "staticCount int"]),
  ("defaultPathProcessor", []),
  ("dispatcherCandidate", ["dispatcher *WebService", "finalMatch string", "matchesCount int", "literalCount int", "nonDefaultCount int"]),
  ("entityJSONAccess", ["ContentType string"]),
  ("entityReaderWriters", ["protection *sync.RWMutex", "accessors map[string]EntityReaderWriter"]),
  ("entityXMLAccess", ["ContentType string"]),
  ("mime", ["media string", "quality float64"]),
  ("pathExpression", ["LiteralCount int", "VarNames []string", "VarCount int", "Matcher *regexp.Regexp", "Source string", "tokens []string"]),
  ("routeAccessor", ["route *Route"]),
  ("routeCandidate", ["route Route", "matchesCount int", "literalCount int", "nonDefaultCount int"]),
  ("sortableDispatcherCandidates", ["candidates []dispatcherCandidate"]),
  ("sortableRouteCandidates", ["candidates []routeCandidate"])]

/-- constants whose values the models use as literals -/
def expectedConsts : List (String × String) := [("ENCODING_DEFLATE", "\"deflate\""), ("ENCODING_GZIP", "\"gzip\""), ("HEADER_Accept", "\"Accept\""), ("HEADER_AcceptEncoding", "\"Accept-Encoding\""), ("HEADER_AccessControlAllowCredentials", "\"Access-Control-Allow-Credentials\""), ("HEADER_AccessControlAllowHeaders", "\"Access-Control-Allow-Headers\""), ("HEADER_AccessControlAllowMethods", "\"Access-Control-Allow-Methods\""), ("HEADER_AccessControlAllowOrigin", "\"Access-Control-Allow-Origin\""), ("HEADER_AccessControlExposeHeaders", "\"Access-Control-Expose-Headers\""), ("HEADER_AccessControlMaxAge", "\"Access-Control-Max-Age\""), ("HEADER_AccessControlRequestHeaders", "\"Access-Control-Request-Headers\""), ("HEADER_AccessControlRequestMethod", "\"Access-Control-Request-Method\""), ("HEADER_Allow", "\"Allow\""), ("HEADER_ContentDisposition", "\"Content-Disposition\""), ("HEADER_ContentEncoding", "\"Content-Encoding\""), ("HEADER_ContentType", "\"Content-Type\""), ("HEADER_LastModified", "\"Last-Modified\""), ("HEADER_Origin", "\"Origin\""), ("MIME_JSON", "\"application/json\""), ("MIME_OCTET", "\"application/octet-stream\""), ("MIME_XML", "\"application/xml\""), ("MIME_ZIP", "\"application/zip\"")]

/-- the expected fields of the named structs are the generated ones -/
def fieldsAgree (names : List String) : Bool :=
  names.all (fun n => structFields.lookup n == expectedStructFields.lookup n && (structFields.lookup n).isSome)

/-- no package-level variable and no struct type beyond the expected ones (audited by every property:
    a new variable or type may be state of anything) -/
theorem globals_shape : pkgVars = expectedPkgVars ∧ structFields.map (·.1) = expectedStructNames := by
  decide +kernel

/-- registration and serving state: C06, C07, C10, C11, C12, C17, C19 -/
theorem container_shape : fieldsAgree ["Container", "WebService", "Route", "FilterChain", "Request", "ServiceError"] = true := by
  decide +kernel

/-- routing working data: C01–C04, C14, C18 -/
theorem routing_shape : fieldsAgree ["WebService", "Route", "pathExpression", "curlyRoute", "routeCandidate",
    "dispatcherCandidate", "sortableRouteCandidates", "sortableDispatcherCandidates", "CurlyRouter", "RouterJSR311",
    "defaultPathProcessor", "Request"] = true := by
  decide +kernel

/-- the Response and the writer that encodes: C05, C07, C15 -/
theorem response_shape : fieldsAgree ["Response", "CompressingResponseWriter", "mime"] = true := by
  decide +kernel

/-- the entity accessor registry: C05, C16 -/
theorem entity_shape : fieldsAgree ["entityReaderWriters", "entityJSONAccess", "entityXMLAccess", "Request"] = true := by
  decide +kernel

/-- the CORS filter value: C08, C09 -/
theorem cors_shape : fieldsAgree ["CrossOriginResourceSharing"] = true := by
  decide +kernel

/-- compressor providers: C13 (and C07, C16 through them) -/
theorem compress_shape : fieldsAgree ["BoundedCachedCompressors", "SyncPoolCompessors", "CompressingResponseWriter"] = true := by
  decide +kernel

/-- everything at once -/
theorem state_shape :
    pkgVars = expectedPkgVars ∧ structFields.map (·.1) = expectedStructNames ∧
      structFields.filter (fun p => !docStructs.contains p.1) = expectedStructFields := by
  decide +kernel

theorem consts_shape : expectedConsts.all (fun p => consts.lookup p.1 == some p.2) = true := by
  decide +kernel

end StateShape
end Restful
