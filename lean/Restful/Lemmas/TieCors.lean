/-
The tie between the translated decision functions (Gen/Translated.lean, regenerated from the Go
sources by tools/gotrans on every run) and the hand-written models: the model's definitions ARE
the translated ones, for all arguments.  A change to one of these Go functions changes the
generated definition and breaks the corresponding theorem here at compile time.  One file per
group of properties, so that a change breaks the obligations of the properties it concerns only.
This file: the three decisions of the CORS filter (C08, C09) — search loops over the configured
lists (`Translated.search`), `strings.ToLower` as a function parameter (the model's `lower`),
the user's `AllowedDomainFunc` as a function leaf plus its nil test (the model's `pred`).
-/
import Restful.Gen.Translated
import Restful.Model.Cors
namespace Restful
namespace Tie
open Translated

/-- the loop of cors_filter.go:144 (`for _, domain := range c.AllowedDomains`) as translated is the
    model's `Cors.domainLoop`; `rest` is what follows the loop -/
theorem cors_domain_loop (lower : Str → Str) (origin : Str) (rest : Bool) (ds : List Str) :
    search ds (fun x => if (x == ".*".toList) || (lower x == lower origin) then some true else none) rest
      = (if Cors.domainLoop lower (lower origin) ds then true else rest) := by
  induction ds with
  | nil => simp [search, Cors.domainLoop]
  | cons d ds ih =>
    unfold search Cors.domainLoop
    rw [ih]
    simp only [Cors.sDotStar]
    by_cases h1 : d = ['.', '*']
    · simp [h1]
    · by_cases h2 : lower d = lower origin
      · simp [h2]
      · simp [h1, h2]

/-- cors_filter.go:131 `CrossOriginResourceSharing.isOriginAllowed`: `strings.ToLower` is the
    model's `lower`, `c.AllowedDomainFunc == nil` is `cc.pred.isNone`, the function itself is the
    predicate (whatever stands for a nil function: `dflt`) -/
theorem cors_is_origin_allowed (lower : Str → Str) (cc : Cors.CorsCfg) (origin : Str) (dflt : Str → Bool) :
    CrossOriginResourceSharing_isOriginAllowed origin cc.allowedDomains cc.pred.isNone
        (cc.pred.getD dflt) lower
      = Cors.isOriginAllowed lower cc origin := by
  unfold CrossOriginResourceSharing_isOriginAllowed Cors.isOriginAllowed
  rw [cors_domain_loop]
  by_cases ho : origin.length = 0
  · simp [ho]
  · have ho' : (((List.length origin : Nat) : Int) == (0 : Int)) = false := by
      simp only [beq_eq_false_iff_ne, ne_eq]; omega
    by_cases hd : cc.allowedDomains.length = 0
    · cases hp : cc.pred <;> simp [ho, ho', hd]
    · have hd' : (((List.length cc.allowedDomains : Nat) : Int) == (0 : Int)) = false := by
        simp only [beq_eq_false_iff_ne, ne_eq]; omega
      cases hp : cc.pred <;> simp [ho, ho', hd, hd']

/-- cors_filter.go:174 `isValidAccessControlRequestMethod(method, allowedMethods)` -/
theorem cors_is_valid_request_method (method : Str) (allowed : List Str) :
    CrossOriginResourceSharing_isValidAccessControlRequestMethod allowed method
      = Cors.isValidAccessControlRequestMethod method allowed := by
  unfold CrossOriginResourceSharing_isValidAccessControlRequestMethod
  induction allowed with
  | nil => simp [search, Cors.isValidAccessControlRequestMethod]
  | cons a as ih =>
    unfold search Cors.isValidAccessControlRequestMethod
    rw [ih]
    by_cases h : a = method
    · simp [h]
    · simp [h]

/-- cors_filter.go:183 `isValidAccessControlRequestHeader(header)` over `c.AllowedHeaders` -/
theorem cors_is_valid_request_header (lower : Str → Str) (header : Str) (allowed : List Str) :
    CrossOriginResourceSharing_isValidAccessControlRequestHeader allowed lower header
      = Cors.isValidAccessControlRequestHeader lower header allowed := by
  unfold CrossOriginResourceSharing_isValidAccessControlRequestHeader
  induction allowed with
  | nil => simp [search, Cors.isValidAccessControlRequestHeader]
  | cons a as ih =>
    unfold search Cors.isValidAccessControlRequestHeader
    rw [ih]
    simp only [Cors.sStar]
    by_cases h1 : lower a = lower header
    · simp [h1]
    · by_cases h2 : a = ['*']
      · simp [h2]
      · simp [h1, h2]

end Tie
end Restful
