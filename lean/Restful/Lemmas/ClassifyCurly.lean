/-
C02 for CurlyRouter: totality and exact classification.

  * the candidate list of the detected service is, as a set, the built routes whose template admits
    the path (`Curly.selectRoutes_spec`); nothing panics on checked templates;
  * since fix 19aa57d `computeWebserviceScore` evaluates the expression of a `{name:regex}` root
    token: the router's score IS `Spec.claimScore` (`Curly.claimScore_eq`, from
    `Curly.wsScoreE_claim` in `Lemmas/CurlyScore.lean`), scoring cannot panic
    (`Curly.detectWebService_total`), so the service `detectWebService` picks is one of
    `Spec.bestServices` (`Curly.detected_best`) — no hypothesis on root expressions any more (F03).
    What is needed of the roots: `Config.wfTemplates` for services with routes
    (`Curly.rootGood_of_route`), `Curly.rootsRead` for services without.
-/
import Restful.Lemmas.ClassifyDetect
import Restful.Lemmas.Order
import Restful.Lemmas.CurlyParams
namespace Restful
open Str
variable (E : ReEnv)

/-- what `Config.wfTemplates` gives for one built route -/
theorem C02.wf_template {cfg : Config} (hwf : cfg.wfTemplates = true) {svc : Service} (hsvc : svc ∈ cfg.services)
    {rt : Route} (hrt : rt ∈ svc.built) : ∃ ts, Spec.templateOf cfg.router rt = some ts := by
  unfold Config.wfTemplates at hwf
  simp only [List.all_eq_true] at hwf
  exact Option.isSome_iff_exists.mp (hwf svc hsvc rt hrt)

/-- what `Spec.mediaHygiene` gives for one built route -/
theorem C02.hygiene_route {cfg : Config} (hh : Spec.mediaHygiene cfg = true) {svc : Service} (hsvc : svc ∈ cfg.services)
    {rt : Route} (hrt : rt ∈ svc.built) : (∀ c ∈ rt.consumes, c ≠ []) ∧ (∀ p ∈ rt.produces, p ≠ []) := by
  unfold Spec.mediaHygiene at hh
  simp only [List.all_eq_true, Bool.and_eq_true, Bool.not_eq_true', List.isEmpty_eq_false_iff] at hh
  exact hh svc hsvc rt hrt

/-! ### `Spec.c02Holds` from a best service and its verdict -/

theorem Spec.c02Holds_nosvc {cfg : Config} {req : Req} (h : Spec.bestServices E cfg req = []) :
    Spec.c02Holds E cfg req (.error 404 none) 0 = true := by
  unfold Spec.c02Holds
  simp only [h]
  decide

theorem Spec.c02Holds_of {cfg : Config} {req : Req} {o : Outcome} {inv : Nat} {svc : Service}
    (hbest : svc ∈ Spec.bestServices E cfg req) (hnp : ∀ w, o ≠ .panic w)
    (hsel : ∀ s r ps, o = .selected s r ps → svc.id = s)
    (hv : Spec.verdictMatches (Spec.classifyIn E cfg.router svc.built req) o inv = true) :
    Spec.c02Holds E cfg req o inv = true := by
  unfold Spec.c02Holds
  cases o with
  | panic w => exact absurd rfl (hnp w)
  | error c a =>
    simp only
    cases hbs : Spec.bestServices E cfg req with
    | nil => rw [hbs] at hbest; simp at hbest
    | cons x xs =>
      simp only
      rw [← hbs, List.any_eq_true]
      exact ⟨svc, hbest, by simpa using hv⟩
  | selected s r ps =>
    simp only
    cases hbs : Spec.bestServices E cfg req with
    | nil => rw [hbs] at hbest; simp at hbest
    | cons x xs =>
      simp only
      rw [← hbs, List.any_eq_true]
      refine ⟨svc, hbest, ?_⟩
      rw [Bool.and_eq_true]
      exact ⟨by simpa using hsel s r ps rfl, hv⟩

namespace Curly

/-! ### the candidates of one service -/

theorem pathAdmits_curly {rt : Route} {ts : List TTok} (hts : readTemplate rt.path = some ts) (path : Str) :
    Spec.pathAdmits E .curly rt path = Spec.admits E .curly ts (tokenize path) := by
  unfold Spec.pathAdmits Spec.templateOf
  simp only [hts]
  unfold Spec.admittedSegments
  simp only
  cases Spec.admits E .curly ts (tokenize path) <;> rfl

theorem matchTokens_pathAdmits (svc : Service) {rt : Route} (hrt : rt ∈ svc.built) {ts : List TTok}
    (hts : readTemplate rt.path = some ts) (path : Str) :
    matchTokens E rt.pathParts (tokenize path) rt.hasCustomVerb =
      if Spec.pathAdmits E .curly rt path = true then .yes (paramCount ts) (staticCount ts) else .no := by
  rw [pathAdmits_curly E hts]
  exact matchTokens_of_template E svc hrt hts (tokenize path)

/-- on checked templates the candidate loop cannot panic and keeps exactly the admitted routes -/
theorem selectRoutes_spec (svc : Service) (hread : ∀ rt ∈ svc.built, ∃ ts, readTemplate rt.path = some ts)
    (path : Str) :
    ∃ cands, selectRoutes E svc.built (tokenize path) = some cands ∧
      ∀ r, r ∈ cands ↔ r ∈ svc.built ∧ Spec.pathAdmits E .curly r path = true := by
  have hnp : svc.built.any (panics E (tokenize path)) = false := by
    rw [List.any_eq_false]
    intro rt hrt
    obtain ⟨ts, hts⟩ := hread rt hrt
    unfold panics
    rw [matchTokens_pathAdmits E svc hrt hts]
    by_cases ha : Spec.pathAdmits E .curly rt path = true
    · simp [ha]
    · simp [ha]
  unfold selectRoutes
  rw [candidates_eq, hnp]
  simp only [Bool.false_eq_true, if_false, Option.map_some]
  refine ⟨_, rfl, ?_⟩
  intro r
  simp only [List.mem_map]
  constructor
  · rintro ⟨c, hc, rfl⟩
    have hc' : c ∈ svc.built.filterMap (candOf E (tokenize path)) :=
      (Sort.insertionSort_perm candLess _).mem_iff.1 hc
    rw [List.mem_filterMap] at hc'
    obtain ⟨rt, hrt, hcand⟩ := hc'
    obtain ⟨hroute, hm⟩ := candOf_some E hcand
    rw [hroute]
    refine ⟨hrt, ?_⟩
    obtain ⟨ts, hts⟩ := hread rt hrt
    rw [matchTokens_pathAdmits E svc hrt hts] at hm
    by_cases ha : Spec.pathAdmits E .curly rt path = true
    · exact ha
    · rw [if_neg ha] at hm; cases hm
  · rintro ⟨hrt, ha⟩
    obtain ⟨ts, hts⟩ := hread r hrt
    have hm := matchTokens_pathAdmits E svc hrt hts path
    rw [if_pos ha] at hm
    refine ⟨⟨r, paramCount ts, staticCount ts⟩, ?_, rfl⟩
    apply (Sort.insertionSort_perm candLess _).mem_iff.2
    rw [List.mem_filterMap]
    exact ⟨r, hrt, by simp [candOf, hm]⟩

/-- the path processor cannot fail on an admitted route -/
theorem extract_some (svc : Service) {rt : Route} (hrt : rt ∈ svc.built) {ts : List TTok}
    (hts : readTemplate rt.path = some ts) {path : Str} (ha : Spec.pathAdmits E .curly rt path = true) :
    ∃ ps, Params.extract rt path = some ps := by
  obtain ⟨hrender, htwf, hshape, hverb, hnd⟩ := readTemplate_facts hts
  obtain ⟨hparts, hhv⟩ := built_pathParts svc hrt
  rw [pathAdmits_curly E hts] at ha
  have := Params.extractWalk_spec E ts htwf hshape hnd (tokenize path) ha
  unfold Params.extract
  rw [hparts, hhv, ← hrender, hverb, this]
  exact ⟨_, rfl⟩

/-- `curlyAfterSvc` is `detectRoute` on the admitted routes followed by a parameter extraction that
    cannot fail -/
theorem curlyAfterSvc_cases (svc : Service) (hread : ∀ rt ∈ svc.built, ∃ ts, readTemplate rt.path = some ts)
    (req : Req) :
    ∃ cands, (∀ r, r ∈ cands ↔ r ∈ svc.built ∧ Spec.pathAdmits E .curly r req.path = true) ∧
      match detectRoute cands req with
      | .error (c, a) => curlyAfterSvc E svc.built req = .error c a
      | .ok r => ∃ ps, curlyAfterSvc E svc.built req = .selected svc.id r.id ps := by
  obtain ⟨cands, hsel, hmem⟩ := selectRoutes_spec E svc hread req.path
  refine ⟨cands, hmem, ?_⟩
  unfold curlyAfterSvc
  rw [hsel]
  cases cands with
  | nil => simp [detectRoute]
  | cons x xs =>
    simp only
    cases hd : detectRoute (x :: xs) req with
    | error e => obtain ⟨c, a⟩ := e; simp
    | ok r =>
      simp only
      obtain ⟨hr, _⟩ := detectRoute_ok hd
      obtain ⟨hrt, ha⟩ := (hmem r).1 hr
      obtain ⟨ts, hts⟩ := hread r hrt
      obtain ⟨ps, hps⟩ := extract_some E svc hrt hts ha
      rw [hps]
      simp only
      exact ⟨ps, by rw [Service.built_svc svc hrt]⟩

/-! ### the detected service is a best service -/

/-- under `wfTemplates` (services with routes) and `Curly.rootsRead` (services without) every root
    path reads the way `computeWebserviceScore` treats it -/
theorem rootGood_of_cfg {cfg : Config} (hk : cfg.router = .curly) (hwf : cfg.wfTemplates = true)
    (hroots : Curly.rootsRead cfg = true) {s : Service} (hs : s ∈ cfg.services) :
    RootGood (tokenize s.rootPath) := by
  cases hb : s.built with
  | nil =>
    have hr : s.routes = [] := by
      unfold Service.built at hb
      simpa using hb
    unfold Curly.rootsRead at hroots
    simp only [List.all_eq_true] at hroots
    have h := hroots s hs
    rw [hr] at h
    simp only [List.isEmpty_nil, Bool.not_true, Bool.false_or] at h
    split at h
    · rename_i ts hts
      left
      refine ⟨ts, hts, ?_⟩
      simpa [List.all_eq_true, Option.isNone_iff_eq_none] using h
    · simp at h
  | cons rt rest =>
    have hrt : rt ∈ s.built := by rw [hb]; exact List.mem_cons_self
    obtain ⟨ts, hts⟩ := C02.wf_template hwf hs hrt
    rw [hk] at hts
    exact rootGood_of_route hrt hts

/-- **the router's score is the specification's claim**, regular expressions of root variables
    included (the former statement needed `Spec.noRootRegex`: F03) -/
theorem claimScore_eq {cfg : Config} (hk : cfg.router = .curly) (hwf : cfg.wfTemplates = true)
    (hroots : Curly.rootsRead cfg = true) {s : Service} (hs : s ∈ cfg.services) (qs : List Str) :
    wsScoreE E qs (tokenize s.rootPath) =
      match Spec.claimScore E s qs with
      | some sc => .yes sc
      | none => .no :=
  wsScoreE_claim E (rootGood_of_cfg hk hwf hroots hs) qs

theorem claimScore_some_iff {cfg : Config} (hk : cfg.router = .curly) (hwf : cfg.wfTemplates = true)
    (hroots : Curly.rootsRead cfg = true) {s : Service} (hs : s ∈ cfg.services) (qs : List Str) (sc : Nat) :
    Spec.claimScore E s qs = some sc ↔ wsScoreE E qs (tokenize s.rootPath) = .yes sc := by
  rw [claimScore_eq E hk hwf hroots hs]
  cases Spec.claimScore E s qs <;> simp

theorem claimScore_none_iff {cfg : Config} (hk : cfg.router = .curly) (hwf : cfg.wfTemplates = true)
    (hroots : Curly.rootsRead cfg = true) {s : Service} (hs : s ∈ cfg.services) (qs : List Str) :
    Spec.claimScore E s qs = none ↔ wsScoreE E qs (tokenize s.rootPath) = .no := by
  rw [claimScore_eq E hk hwf hroots hs]
  cases Spec.claimScore E s qs <;> simp

/-- scoring the roots of a checked table cannot panic -/
theorem detectWebService_total {cfg : Config} (hk : cfg.router = .curly) (hwf : cfg.wfTemplates = true)
    (hroots : Curly.rootsRead cfg = true) (qs : List Str) :
    detectWebService E qs cfg.services none ≠ none := by
  intro h
  rw [detectWebService_panic] at h
  obtain ⟨s, hs, hp⟩ := h
  exact wsScoreE_ne_panic E qs _ (rootGood_of_cfg hk hwf hroots hs).noPanic hp

theorem foldl_max_eq (x : Nat) : ∀ (l : List (Service × Nat)) (init : Nat), (∀ p ∈ l, p.2 ≤ x) → init ≤ x →
    ((∃ p ∈ l, p.2 = x) ∨ init = x) → l.foldl (fun m p => max m p.2) init = x
  | [], init, _, _, h => by
    rcases h with ⟨p, hp, _⟩ | h
    · simp at hp
    · simpa using h
  | p :: l, init, hle, hinit, h => by
    rw [List.foldl_cons]
    have hp : p.2 ≤ x := hle p List.mem_cons_self
    apply foldl_max_eq x l _ (fun q hq => hle q (List.mem_cons_of_mem _ hq)) (by omega)
    rcases h with ⟨q, hq, hqx⟩ | h
    · simp only [List.mem_cons] at hq
      rcases hq with rfl | hq
      · right; omega
      · left; exact ⟨q, hq, hqx⟩
    · right; omega

theorem bestServices_nil {cfg : Config} (hk : cfg.router = .curly) (hwf : cfg.wfTemplates = true)
    (hroots : Curly.rootsRead cfg = true) (req : Req)
    (h : detectWebService E (tokenize req.path) cfg.services none = some none) : Spec.bestServices E cfg req = [] := by
  rw [detectWebService_none] at h
  unfold Spec.bestServices
  rw [hk]
  simp only
  have : cfg.services.filterMap (fun s => (Spec.claimScore E s (tokenize req.path)).map (fun sc => (s, sc))) = [] := by
    rw [List.filterMap_eq_nil_iff]
    intro s hs
    rw [(claimScore_none_iff E hk hwf hroots hs _).mpr (h.2 s hs)]
    rfl
  rw [this]
  rfl

theorem detected_best {cfg : Config} (hk : cfg.router = .curly) (hwf : cfg.wfTemplates = true)
    (hroots : Curly.rootsRead cfg = true) (req : Req) {svc : Service} {sc : Nat}
    (h : detectWebService E (tokenize req.path) cfg.services none = some (some (svc, sc))) :
    svc ∈ cfg.services ∧ svc ∈ Spec.bestServices E cfg req := by
  have hsvc : svc ∈ cfg.services := detectWebService_mem_none E h
  refine ⟨hsvc, ?_⟩
  obtain ⟨hsc, hmax⟩ := detectWebService_max E (tokenize req.path) cfg.services svc sc h
  unfold Spec.bestServices
  rw [hk]
  simp only
  have hin : (svc, sc) ∈ cfg.services.filterMap
      (fun s => (Spec.claimScore E s (tokenize req.path)).map (fun sc => (s, sc))) := by
    rw [List.mem_filterMap]
    exact ⟨svc, hsvc, by rw [(claimScore_some_iff E hk hwf hroots hsvc _ sc).mpr hsc]; rfl⟩
  have hle : ∀ p ∈ cfg.services.filterMap
      (fun s => (Spec.claimScore E s (tokenize req.path)).map (fun sc => (s, sc))), p.2 ≤ sc := by
    intro p hp
    rw [List.mem_filterMap] at hp
    obtain ⟨s, hs, hp⟩ := hp
    cases hw : Spec.claimScore E s (tokenize req.path) with
    | none => rw [hw] at hp; simp at hp
    | some sc' =>
      rw [hw] at hp
      simp only [Option.map_some, Option.some.injEq] at hp
      subst hp
      exact hmax s hs sc' ((claimScore_some_iff E hk hwf hroots hs _ sc').mp hw)
  rw [foldl_max_eq sc _ 0 hle (Nat.zero_le _) (Or.inl ⟨_, hin, rfl⟩)]
  rw [List.mem_map]
  refine ⟨(svc, sc), ?_, rfl⟩
  rw [List.mem_filter]
  exact ⟨hin, by simp⟩

end Curly

/-! ### the theorems -/

/-- CurlyRouter never panics on a table of checked templates (`hroots`: the root of a route-less
    service, about which `wfTemplates` says nothing, reads as a template without custom verb) -/
theorem C02_total_curly (cfg : Config) (hk : cfg.router = .curly) (hwf : cfg.wfTemplates = true)
    (hroots : Curly.rootsRead cfg = true) (req : Req) :
    ∀ w, route E cfg req ≠ .panic w := by
  intro w
  unfold route routeTagged
  rw [hk]
  simp only
  rw [routeCurly_fst]
  cases hd : Curly.detectWebService E (tokenize req.path) cfg.services none with
  | none => exact absurd hd (Curly.detectWebService_total E hk hwf hroots _)
  | some d =>
    cases d with
    | none => simp
    | some x =>
      obtain ⟨svc, sc⟩ := x
      simp only
      have hsvc : svc ∈ cfg.services := Curly.detectWebService_mem_none E hd
      have hread : ∀ rt ∈ svc.built, ∃ ts, readTemplate rt.path = some ts := by
        intro rt hrt
        have := C02.wf_template hwf hsvc hrt
        rw [hk] at this
        exact this
      obtain ⟨cands, _, hcase⟩ := Curly.curlyAfterSvc_cases E svc hread req
      cases hdr : detectRoute cands req with
      | error e =>
        obtain ⟨c, a⟩ := e
        rw [hdr] at hcase
        simp only at hcase
        rw [hcase]; simp
      | ok r =>
        rw [hdr] at hcase
        simp only at hcase
        obtain ⟨ps, hps⟩ := hcase
        rw [hps]; simp

/-- **C02, CurlyRouter** (full statement: F03 is repaired, `Spec.noRootRegex` is no hypothesis any
    more): on checked templates with hygienic media lists the outcome is exactly what the decision
    table says for a best-matching service — best among the roots that CLAIM the URL, regular
    expressions of root variables included -/
theorem C02_classify_curly (E : ReEnv) (cfg : Config) (hk : cfg.router = .curly) (hwf : cfg.wfTemplates = true)
    (hroots : Curly.rootsRead cfg = true) (hh : Spec.mediaHygiene cfg = true) (req : Req) :
    Spec.c02Holds E cfg req (route E cfg req)
      (match route E cfg req with | .selected _ _ _ => 1 | _ => 0) = true := by
  unfold route routeTagged
  rw [hk]
  simp only
  rw [routeCurly_fst]
  cases hd : Curly.detectWebService E (tokenize req.path) cfg.services none with
  | none => exact absurd hd (Curly.detectWebService_total E hk hwf hroots _)
  | some d =>
    cases d with
    | none =>
      simp only
      exact Spec.c02Holds_nosvc E (Curly.bestServices_nil E hk hwf hroots req hd)
    | some x =>
      obtain ⟨svc, sc⟩ := x
      simp only
      obtain ⟨hsvc, hbest⟩ := Curly.detected_best E hk hwf hroots req hd
      have hread : ∀ rt ∈ svc.built, ∃ ts, readTemplate rt.path = some ts := by
        intro rt hrt
        have := C02.wf_template hwf hsvc hrt
        rw [hk] at this
        exact this
      obtain ⟨cands, hmem, hcase⟩ := Curly.curlyAfterSvc_cases E svc hread req
      have hdc := detect_classify E .curly svc.built cands req hmem (fun r hr => C02.hygiene_route hh hsvc hr)
      cases hdr : detectRoute cands req with
      | error e =>
        obtain ⟨c, a⟩ := e
        rw [hdr] at hcase hdc
        simp only at hcase hdc
        rw [hcase]
        simp only
        apply Spec.c02Holds_of E hbest (by simp) (by simp)
        rw [hk]; exact hdc
      | ok r =>
        rw [hdr] at hcase hdc
        simp only at hcase hdc
        obtain ⟨ps, hps⟩ := hcase
        obtain ⟨_, ids, hids, hrid⟩ := hdc
        rw [hps]
        simp only
        apply Spec.c02Holds_of E hbest (by simp)
        · intro s r' ps' h
          simp only [Outcome.selected.injEq] at h
          exact h.1
        · rw [hk, hids]
          simp [Spec.verdictMatches, hrid]

end Restful
