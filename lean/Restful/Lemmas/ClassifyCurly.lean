/-
C02 for CurlyRouter: totality and exact classification.

  * the candidate list of the detected service is, as a set, the built routes whose template admits
    the path (`Curly.selectRoutes_spec`); nothing panics on checked templates;
  * without regex variables in root paths `Spec.claimScore` is `Curly.wsScore`, so the service
    `detectWebService` picks is one of `Spec.bestServices` (`Curly.detected_best`).
-/
import Restful.Lemmas.ClassifyDetect
import Restful.Lemmas.Order
import Restful.Lemmas.CurlyParams
namespace Restful
open Str
variable (E : ReEnv)

/-- what `Config.wfTemplates` gives for one built route -/
theorem C02.wf_template {cfg : Config} (hwf : cfg.wfTemplates = true) {svc : Service} (hsvc : svc ∈ cfg.services)
    {rt : Route} (hrt : rt ∈ svc.built) : ∃ ts, Spec.templateOf cfg.router rt = some ts := by
  unfold Config.wfTemplates at hwf
  simp only [List.all_eq_true] at hwf
  exact Option.isSome_iff_exists.mp (hwf svc hsvc rt hrt)

/-- what `Spec.mediaHygiene` gives for one built route -/
theorem C02.hygiene_route {cfg : Config} (hh : Spec.mediaHygiene cfg = true) {svc : Service} (hsvc : svc ∈ cfg.services)
    {rt : Route} (hrt : rt ∈ svc.built) : (∀ c ∈ rt.consumes, c ≠ []) ∧ (∀ p ∈ rt.produces, p ≠ []) := by
  unfold Spec.mediaHygiene at hh
  simp only [List.all_eq_true, Bool.and_eq_true, Bool.not_eq_true', List.isEmpty_eq_false_iff] at hh
  exact hh svc hsvc rt hrt

/-! ### `Spec.c02Holds` from a best service and its verdict -/

theorem Spec.c02Holds_nosvc {cfg : Config} {req : Req} (h : Spec.bestServices E cfg req = []) :
    Spec.c02Holds E cfg req (.error 404 none) 0 = true := by
  unfold Spec.c02Holds
  simp only [h]
  decide

theorem Spec.c02Holds_of {cfg : Config} {req : Req} {o : Outcome} {inv : Nat} {svc : Service}
    (hbest : svc ∈ Spec.bestServices E cfg req) (hnp : ∀ w, o ≠ .panic w)
    (hsel : ∀ s r ps, o = .selected s r ps → svc.id = s)
    (hv : Spec.verdictMatches (Spec.classifyIn E cfg.router svc.built req) o inv = true) :
    Spec.c02Holds E cfg req o inv = true := by
  unfold Spec.c02Holds
  cases o with
  | panic w => exact absurd rfl (hnp w)
  | error c a =>
    simp only
    cases hbs : Spec.bestServices E cfg req with
    | nil => rw [hbs] at hbest; simp at hbest
    | cons x xs =>
      simp only
      rw [← hbs, List.any_eq_true]
      exact ⟨svc, hbest, by simpa using hv⟩
  | selected s r ps =>
    simp only
    cases hbs : Spec.bestServices E cfg req with
    | nil => rw [hbs] at hbest; simp at hbest
    | cons x xs =>
      simp only
      rw [← hbs, List.any_eq_true]
      refine ⟨svc, hbest, ?_⟩
      rw [Bool.and_eq_true]
      exact ⟨by simpa using hsel s r ps rfl, hv⟩

namespace Curly

/-! ### the candidates of one service -/

theorem pathAdmits_curly {rt : Route} {ts : List TTok} (hts : readTemplate rt.path = some ts) (path : Str) :
    Spec.pathAdmits E .curly rt path = Spec.admits E .curly ts (tokenize path) := by
  unfold Spec.pathAdmits Spec.templateOf
  simp only [hts]
  unfold Spec.admittedSegments
  simp only
  cases Spec.admits E .curly ts (tokenize path) <;> rfl

theorem matchTokens_pathAdmits (svc : Service) {rt : Route} (hrt : rt ∈ svc.built) {ts : List TTok}
    (hts : readTemplate rt.path = some ts) (path : Str) :
    matchTokens E rt.pathParts (tokenize path) rt.hasCustomVerb =
      if Spec.pathAdmits E .curly rt path = true then .yes (paramCount ts) (staticCount ts) else .no := by
  rw [pathAdmits_curly E hts]
  exact matchTokens_of_template E svc hrt hts (tokenize path)

/-- on checked templates the candidate loop cannot panic and keeps exactly the admitted routes -/
theorem selectRoutes_spec (svc : Service) (hread : ∀ rt ∈ svc.built, ∃ ts, readTemplate rt.path = some ts)
    (path : Str) :
    ∃ cands, selectRoutes E svc.built (tokenize path) = some cands ∧
      ∀ r, r ∈ cands ↔ r ∈ svc.built ∧ Spec.pathAdmits E .curly r path = true := by
  have hnp : svc.built.any (panics E (tokenize path)) = false := by
    rw [List.any_eq_false]
    intro rt hrt
    obtain ⟨ts, hts⟩ := hread rt hrt
    unfold panics
    rw [matchTokens_pathAdmits E svc hrt hts]
    by_cases ha : Spec.pathAdmits E .curly rt path = true
    · simp [ha]
    · simp [ha]
  unfold selectRoutes
  rw [candidates_eq, hnp]
  simp only [Bool.false_eq_true, if_false, Option.map_some]
  refine ⟨_, rfl, ?_⟩
  intro r
  simp only [List.mem_map]
  constructor
  · rintro ⟨c, hc, rfl⟩
    have hc' : c ∈ svc.built.filterMap (candOf E (tokenize path)) :=
      (Sort.insertionSort_perm candLess _).mem_iff.1 hc
    rw [List.mem_filterMap] at hc'
    obtain ⟨rt, hrt, hcand⟩ := hc'
    obtain ⟨hroute, hm⟩ := candOf_some E hcand
    rw [hroute]
    refine ⟨hrt, ?_⟩
    obtain ⟨ts, hts⟩ := hread rt hrt
    rw [matchTokens_pathAdmits E svc hrt hts] at hm
    by_cases ha : Spec.pathAdmits E .curly rt path = true
    · exact ha
    · rw [if_neg ha] at hm; cases hm
  · rintro ⟨hrt, ha⟩
    obtain ⟨ts, hts⟩ := hread r hrt
    have hm := matchTokens_pathAdmits E svc hrt hts path
    rw [if_pos ha] at hm
    refine ⟨⟨r, paramCount ts, staticCount ts⟩, ?_, rfl⟩
    apply (Sort.insertionSort_perm candLess _).mem_iff.2
    rw [List.mem_filterMap]
    exact ⟨r, hrt, by simp [candOf, hm]⟩

/-- the path processor cannot fail on an admitted route -/
theorem extract_some (svc : Service) {rt : Route} (hrt : rt ∈ svc.built) {ts : List TTok}
    (hts : readTemplate rt.path = some ts) {path : Str} (ha : Spec.pathAdmits E .curly rt path = true) :
    ∃ ps, Params.extract rt path = some ps := by
  obtain ⟨hrender, htwf, hshape, hverb, hnd⟩ := readTemplate_facts hts
  obtain ⟨hparts, hhv⟩ := built_pathParts svc hrt
  rw [pathAdmits_curly E hts] at ha
  have := Params.extractWalk_spec E ts htwf hshape hnd (tokenize path) ha
  unfold Params.extract
  rw [hparts, hhv, ← hrender, hverb, this]
  exact ⟨_, rfl⟩

/-- `curlyAfterSvc` is `detectRoute` on the admitted routes followed by a parameter extraction that
    cannot fail -/
theorem curlyAfterSvc_cases (svc : Service) (hread : ∀ rt ∈ svc.built, ∃ ts, readTemplate rt.path = some ts)
    (req : Req) :
    ∃ cands, (∀ r, r ∈ cands ↔ r ∈ svc.built ∧ Spec.pathAdmits E .curly r req.path = true) ∧
      match detectRoute cands req with
      | .error (c, a) => curlyAfterSvc E svc.built req = .error c a
      | .ok r => ∃ ps, curlyAfterSvc E svc.built req = .selected svc.id r.id ps := by
  obtain ⟨cands, hsel, hmem⟩ := selectRoutes_spec E svc hread req.path
  refine ⟨cands, hmem, ?_⟩
  unfold curlyAfterSvc
  rw [hsel]
  cases cands with
  | nil => simp [detectRoute]
  | cons x xs =>
    simp only
    cases hd : detectRoute (x :: xs) req with
    | error e => obtain ⟨c, a⟩ := e; simp
    | ok r =>
      simp only
      obtain ⟨hr, _⟩ := detectRoute_ok hd
      obtain ⟨hrt, ha⟩ := (hmem r).1 hr
      obtain ⟨ts, hts⟩ := hread r hrt
      obtain ⟨ps, hps⟩ := extract_some E svc hrt hts ha
      rw [hps]
      simp only
      exact ⟨ps, by rw [Service.built_svc svc hrt]⟩

/-! ### the detected service is a best service -/

theorem rootRegexOK_of_noRe : ∀ (ts : List TTok) (qs : List Str),
    ts.all (fun t => match t.base with | .re _ _ => false | _ => true) = true → ts.length ≤ qs.length →
    Spec.rootRegexOK E ts qs = true
  | [], _, _, _ => by simp [Spec.rootRegexOK]
  | _ :: _, [], _, hl => by simp at hl
  | t :: ts, q :: qs, hall, hl => by
    simp only [List.all_cons, Bool.and_eq_true] at hall
    simp only [List.length_cons, Nat.add_le_add_iff_right] at hl
    rw [Spec.rootRegexOK, rootRegexOK_of_noRe ts qs hall.2 hl, Bool.and_true]
    have h1 := hall.1
    split at h1
    · simp at h1
    · rename_i hne
      split
      · rename_i n e hb; exact absurd hb (hne n e)
      · rfl

theorem readToks_length {ss : List Str} {ts : List TTok} (h : readToks ss = some ts) : ts.length = ss.length := by
  have := (readToks_render h).1
  rw [← this, List.length_map]

/-- without regex variables in root paths the specification's claim is the router's score -/
theorem claimScore_eq {cfg : Config} (hr : Spec.noRootRegex cfg = true) {s : Service} (hs : s ∈ cfg.services)
    (qs : List Str) : Spec.claimScore E s qs = wsScore qs (tokenize s.rootPath) := by
  unfold Spec.noRootRegex at hr
  simp only [List.all_eq_true] at hr
  have h := hr s hs
  unfold Spec.claimScore
  split at h
  · rename_i ts hts
    rw [hts]
    cases hw : wsScore qs (tokenize s.rootPath) with
    | none => rfl
    | some sc =>
      simp only
      have hl : ts.length ≤ qs.length := by
        rw [readToks_length hts]
        unfold wsScore at hw
        split at hw
        · simp at hw
        · omega
      rw [rootRegexOK_of_noRe E ts qs h hl]
      rfl
  · simp at h

theorem foldl_max_eq (x : Nat) : ∀ (l : List (Service × Nat)) (init : Nat), (∀ p ∈ l, p.2 ≤ x) → init ≤ x →
    ((∃ p ∈ l, p.2 = x) ∨ init = x) → l.foldl (fun m p => max m p.2) init = x
  | [], init, _, _, h => by
    rcases h with ⟨p, hp, _⟩ | h
    · simp at hp
    · simpa using h
  | p :: l, init, hle, hinit, h => by
    rw [List.foldl_cons]
    have hp : p.2 ≤ x := hle p List.mem_cons_self
    apply foldl_max_eq x l _ (fun q hq => hle q (List.mem_cons_of_mem _ hq)) (by omega)
    rcases h with ⟨q, hq, hqx⟩ | h
    · simp only [List.mem_cons] at hq
      rcases hq with rfl | hq
      · right; omega
      · left; exact ⟨q, hq, hqx⟩
    · right; omega

theorem filterMap_congr' {α β : Type} {f g : α → Option β} : ∀ {l : List α}, (∀ x ∈ l, f x = g x) →
    l.filterMap f = l.filterMap g
  | [], _ => rfl
  | a :: l, h => by
    rw [List.filterMap_cons, List.filterMap_cons, h a List.mem_cons_self,
      filterMap_congr' (fun x hx => h x (List.mem_cons_of_mem _ hx))]

/-- the list of scored services of `Spec.bestServices`, on the router's own score -/
theorem scored_eq {cfg : Config} (hr : Spec.noRootRegex cfg = true) (qs : List Str) :
    cfg.services.filterMap (fun s => (Spec.claimScore E s qs).map (fun sc => (s, sc))) =
      cfg.services.filterMap (fun s => (wsScore qs (tokenize s.rootPath)).map (fun sc => (s, sc))) := by
  apply filterMap_congr'
  intro s hs
  rw [claimScore_eq E hr hs]

theorem bestServices_nil {cfg : Config} (hk : cfg.router = .curly) (hr : Spec.noRootRegex cfg = true) (req : Req)
    (h : detectWebService (tokenize req.path) cfg.services none = none) : Spec.bestServices E cfg req = [] := by
  rw [detectWebService_none] at h
  unfold Spec.bestServices
  rw [hk]
  simp only
  rw [scored_eq E hr]
  have : cfg.services.filterMap (fun s => (wsScore (tokenize req.path) (tokenize s.rootPath)).map (fun sc => (s, sc))) = [] := by
    rw [List.filterMap_eq_nil_iff]
    intro s hs
    have := h.2 s hs
    unfold svcScore at this
    rw [this]; rfl
  rw [this]
  rfl

theorem detected_best {cfg : Config} (hk : cfg.router = .curly) (hr : Spec.noRootRegex cfg = true) (req : Req)
    {svc : Service} {sc : Nat} (h : detectWebService (tokenize req.path) cfg.services none = some (svc, sc)) :
    svc ∈ cfg.services ∧ svc ∈ Spec.bestServices E cfg req := by
  have hsvc : svc ∈ cfg.services := by
    rcases detectWebService_mem (tokenize req.path) cfg.services none svc sc h with h' | h'
    · exact h'
    · simp at h'
  refine ⟨hsvc, ?_⟩
  obtain ⟨hsc, hmax⟩ := detectWebService_max (tokenize req.path) cfg.services svc sc h
  unfold Spec.bestServices
  rw [hk]
  simp only
  rw [scored_eq E hr]
  have hin : (svc, sc) ∈ cfg.services.filterMap
      (fun s => (wsScore (tokenize req.path) (tokenize s.rootPath)).map (fun sc => (s, sc))) := by
    rw [List.mem_filterMap]
    exact ⟨svc, hsvc, by rw [hsc]; rfl⟩
  have hle : ∀ p ∈ cfg.services.filterMap
      (fun s => (wsScore (tokenize req.path) (tokenize s.rootPath)).map (fun sc => (s, sc))), p.2 ≤ sc := by
    intro p hp
    rw [List.mem_filterMap] at hp
    obtain ⟨s, hs, hp⟩ := hp
    cases hw : wsScore (tokenize req.path) (tokenize s.rootPath) with
    | none => rw [hw] at hp; simp at hp
    | some sc' =>
      rw [hw] at hp
      simp only [Option.map_some, Option.some.injEq] at hp
      subst hp
      exact hmax s hs sc' hw
  rw [foldl_max_eq sc _ 0 hle (Nat.zero_le _) (Or.inl ⟨_, hin, rfl⟩)]
  rw [List.mem_map]
  refine ⟨(svc, sc), ?_, rfl⟩
  rw [List.mem_filter]
  exact ⟨hin, by simp⟩

end Curly

/-! ### the theorems -/

/-- CurlyRouter never panics on a table of checked templates -/
theorem C02_total_curly (cfg : Config) (hk : cfg.router = .curly) (hwf : cfg.wfTemplates = true) (req : Req) :
    ∀ w, route E cfg req ≠ .panic w := by
  intro w
  unfold route routeTagged
  rw [hk]
  simp only
  rw [routeCurly_fst]
  cases hd : Curly.detectWebService (tokenize req.path) cfg.services none with
  | none => simp
  | some x =>
    obtain ⟨svc, sc⟩ := x
    simp only
    have hsvc : svc ∈ cfg.services := by
      rcases Curly.detectWebService_mem (tokenize req.path) cfg.services none svc sc hd with h' | h'
      · exact h'
      · simp at h'
    have hread : ∀ rt ∈ svc.built, ∃ ts, readTemplate rt.path = some ts := by
      intro rt hrt
      have := C02.wf_template hwf hsvc hrt
      rw [hk] at this
      exact this
    obtain ⟨cands, _, hcase⟩ := Curly.curlyAfterSvc_cases E svc hread req
    cases hdr : detectRoute cands req with
    | error e =>
      obtain ⟨c, a⟩ := e
      rw [hdr] at hcase
      simp only at hcase
      rw [hcase]; simp
    | ok r =>
      rw [hdr] at hcase
      simp only at hcase
      obtain ⟨ps, hps⟩ := hcase
      rw [hps]; simp

/-- **C02, CurlyRouter**: on checked templates without regex variables in root paths, hygienic media
    lists, the outcome is exactly what the decision table says for a best-matching service -/
theorem C02_classify_curly_partial (E : ReEnv) (cfg : Config) (hk : cfg.router = .curly) (hwf : cfg.wfTemplates = true)
    (hh : Spec.mediaHygiene cfg = true) (hr : Spec.noRootRegex cfg = true) (req : Req) :
    Spec.c02Holds E cfg req (route E cfg req)
      (match route E cfg req with | .selected _ _ _ => 1 | _ => 0) = true := by
  unfold route routeTagged
  rw [hk]
  simp only
  rw [routeCurly_fst]
  cases hd : Curly.detectWebService (tokenize req.path) cfg.services none with
  | none =>
    simp only
    exact Spec.c02Holds_nosvc E (Curly.bestServices_nil E hk hr req hd)
  | some x =>
    obtain ⟨svc, sc⟩ := x
    simp only
    obtain ⟨hsvc, hbest⟩ := Curly.detected_best E hk hr req hd
    have hread : ∀ rt ∈ svc.built, ∃ ts, readTemplate rt.path = some ts := by
      intro rt hrt
      have := C02.wf_template hwf hsvc hrt
      rw [hk] at this
      exact this
    obtain ⟨cands, hmem, hcase⟩ := Curly.curlyAfterSvc_cases E svc hread req
    have hdc := detect_classify E .curly svc.built cands req hmem (fun r hr => C02.hygiene_route hh hsvc hr)
    cases hdr : detectRoute cands req with
    | error e =>
      obtain ⟨c, a⟩ := e
      rw [hdr] at hcase hdc
      simp only at hcase hdc
      rw [hcase]
      simp only
      apply Spec.c02Holds_of E hbest (by simp) (by simp)
      rw [hk]; exact hdc
    | ok r =>
      rw [hdr] at hcase hdc
      simp only at hcase hdc
      obtain ⟨ps, hps⟩ := hcase
      obtain ⟨_, ids, hids, hrid⟩ := hdc
      rw [hps]
      simp only
      apply Spec.c02Holds_of E hbest (by simp)
      · intro s r' ps' h
        simp only [Outcome.selected.injEq] at h
        exact h.1
      · rw [hk, hids]
        simp [Spec.verdictMatches, hrid]

end Restful
