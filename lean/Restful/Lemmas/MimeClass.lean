/-
What the class of F07b consists of: a header in it has an element the router admits on (its media
type, blanks trimmed, is `*/*` or produced) whose quality `sortedMimes` cannot parse.
-/
import Restful.Lemmas.Mime
import Restful.Lemmas.MimeOWS
namespace Restful
namespace Mime
open Str

theorem mem_takeWhile_imp {p : Char → Bool} {l : Str} {c : Char} (h : c ∈ l.takeWhile p) : p c = true := by
  have := List.all_takeWhile (p := p) (l := l)
  rw [List.all_eq_true] at this
  exact this c h

theorem dropWhile_append_of_all {p : Char → Bool} {l s : Str} (h : ∀ c ∈ l, p c = true) :
    (l ++ s).dropWhile p = s.dropWhile p := by
  induction l with
  | nil => rfl
  | cons x xs ih =>
    have hx := h x List.mem_cons_self
    simp only [List.cons_append, List.dropWhile_cons, hx, if_true]
    exact ih (fun c hc => h c (List.mem_cons_of_mem _ hc))

/-- `trimOWS` removes a surrounding of optional whitespace from a core that neither starts nor ends
    with it -/
theorem trimOWS_surround {l t r : Str} (hl : ∀ c ∈ l, isOWS c = true) (hr : ∀ c ∈ r, isOWS c = true)
    (h1 : ∀ x, t.head? = some x → isOWS x = false) (h2 : ∀ x, t.getLast? = some x → isOWS x = false) (hne : t ≠ []) :
    trimOWS (l ++ t ++ r) = t := by
  unfold trimOWS
  rw [List.append_assoc, dropWhile_append_of_all hl]
  have e1 : (t ++ r).dropWhile isOWS = t ++ r := by
    apply dropWhile_eq_self_of_head
    intro x hx
    cases t with
    | nil => exact absurd rfl hne
    | cons y ys => exact h1 x (by simpa using hx)
  rw [e1, List.reverse_append, dropWhile_append_of_all (by simpa using hr)]
  rw [dropWhile_eq_self_of_head, List.reverse_reverse]
  intro x hx
  rw [List.head?_reverse] at hx
  exact h2 x hx

/-- a string is its blank-trimmed core surrounded by blanks -/
theorem trim_space_decomp (x : Str) : ∃ l r : Str, (∀ c ∈ l, c = ' ') ∧ (∀ c ∈ r, c = ' ') ∧ x = l ++ trim ' ' x ++ r := by
  refine ⟨x.takeWhile (· == ' '), ((trimLeft ' ' x).reverse.takeWhile (· == ' ')).reverse, ?_, ?_, ?_⟩
  · intro c hc
    have := mem_takeWhile_imp hc
    simpa using this
  · intro c hc
    rw [List.mem_reverse] at hc
    have := mem_takeWhile_imp hc
    simpa using this
  · unfold trim trimRight
    have h1 : x = x.takeWhile (· == ' ') ++ trimLeft ' ' x := by
      unfold trimLeft
      exact List.takeWhile_append_dropWhile.symm
    have h2 : trimLeft ' ' x =
        ((trimLeft ' ' x).reverse.dropWhile (· == ' ')).reverse ++ ((trimLeft ' ' x).reverse.takeWhile (· == ' ')).reverse := by
      rw [← List.reverse_append, List.takeWhile_append_dropWhile, List.reverse_reverse]
    rw [List.append_assoc, ← h2]
    exact h1

theorem wfMedia_no_ows {m : Str} (h : Spec.wfMedia m = true) : ∀ c ∈ m, isOWS c = false := by
  intro c hc
  simp only [Spec.wfMedia, Bool.and_eq_true, List.all_eq_true] at h
  have := h.1.2 c hc
  simp only [Bool.not_eq_true', Bool.or_eq_false_iff] at this
  exact this.2

theorem star_no_ows : ∀ c ∈ starStar, isOWS c = false := by decide

/-- trimming optional whitespace gives what trimming blanks gives, when the latter is whitespace-free -/
theorem trimOWS_eq_trim_space {x : Str} (hne : trim ' ' x ≠ []) (h : ∀ c ∈ trim ' ' x, isOWS c = false) :
    trimOWS x = trim ' ' x := by
  obtain ⟨l, r, hl, hr, hx⟩ := trim_space_decomp x
  conv => lhs; rw [hx]
  apply trimOWS_surround
  · intro c hc; rw [hl c hc]; rfl
  · intro c hc; rw [hr c hc]; rfl
  · intro y hy; exact h y (List.mem_of_head? hy)
  · intro y hy; exact h y (List.mem_of_getLast? hy)
  · exact hne

theorem maxFirst_eq_none {l : List Mime} (h : Spec.C05.maxFirst l = none) : l = [] := by
  cases l with
  | nil => rfl
  | cons r rs =>
    unfold Spec.C05.maxFirst at h
    split at h
    · simp at h
    · split at h <;> simp at h

/-- the media type `rangeOf` gives an element is the router's reading of it, when that reading is a
    media type of the quantifier or the wildcard -/
theorem rangeOf_media {piece : Str} {m : Mime} (hr : rangeOf piece = some m)
    (hne : mediaOf piece ≠ []) (hows : ∀ c ∈ mediaOf piece, isOWS c = false) : m.media = mediaOf piece := by
  unfold rangeOf at hr
  rw [split_eq] at hr
  simp only at hr
  generalize qualityOf (match List.dropWhile (fun x => x != ';') piece with | [] => [] | _ :: r' => split ';' r') = oq at hr
  cases oq with
  | none => simp at hr
  | some q =>
    simp only [Option.map_some, Option.some.injEq] at hr
    subst hr
    exact trimOWS_eq_trim_space hne hows

/-- the router admitted a (non-empty) header on one of its elements: its media type, as the router
    reads it, is the wildcard or produced -/
theorem admitted_piece {a : Str} {P reg : List Str} (h : WF P reg) (ha : a ≠ [])
    (hadm : routerAdmits a P = true) :
    ∃ piece ∈ split ',' a, mediaOf piece = starStar ∨ mediaOf piece ∈ P := by
  have hne : (if a.isEmpty = true then starStar else a) = a := by cases a <;> simp_all
  unfold routerAdmits at hadm
  rw [hne] at hadm
  have hacc := acceptLoop_sound _ _ hadm
  simp only [List.any_eq_true, Bool.or_eq_true, beq_iff_eq] at hacc
  obtain ⟨piece, hp, hm⟩ := hacc
  refine ⟨piece, hp, ?_⟩
  rcases hm with hm | ⟨p, hpP, hp' | hp'⟩
  · exact Or.inl hm
  · exact absurd (hp' ▸ hpP) h.star_not_mem
  · exact Or.inr (hp' ▸ hpP)

/-- a non-empty header the router admits does not normalise to the empty header: the element it was
    admitted on keeps its media type -/
theorem dropOWS_ne_nil_of_admitted {a : Str} {P reg : List Str} (h : WF P reg) (ha : a ≠ [])
    (hadm : routerAdmits a P = true) : dropOWS a ≠ [] := by
  obtain ⟨piece, hp, hm⟩ := admitted_piece h ha hadm
  intro hd
  have hs := split_dropOWS a
  rw [hd] at hs
  have hmem : normElem piece ∈ split ',' ([] : Str) := by
    rw [hs]; exact List.mem_map.mpr ⟨piece, hp, rfl⟩
  have hnil : normElem piece = [] := by
    have : split ',' ([] : Str) = [[]] := by decide
    rw [this] at hmem
    simpa using hmem
  have hsp := split_eq ';' piece
  have hn := split_normElem hsp
  rw [hnil] at hn
  have h0 : split ';' ([] : Str) = [[]] := by decide
  rw [h0] at hn
  have ht : trimOWS (piece.takeWhile (· != ';')) = [] := by
    have := (List.cons.inj hn).1
    exact this.symm
  have hmedia : trimOWS (piece.takeWhile (· != ';')) = mediaOf piece := by
    apply trimOWS_eq_trim_space
    · rcases hm with e | e
      · show mediaOf piece ≠ []
        rw [e]; decide
      · exact wfMedia_ne_nil (h.pMedia _ e)
    · rcases hm with e | e
      · show ∀ c ∈ mediaOf piece, isOWS c = false
        rw [e]; exact star_no_ows
      · exact wfMedia_no_ows (h.pMedia _ e)
  rw [hmedia] at ht
  rcases hm with e | e
  · rw [e] at ht; exact absurd ht (by decide)
  · exact wfMedia_ne_nil (h.pMedia _ e) ht

/-- two admitted headers with one normal form are both present or both absent -/
theorem isEmpty_eq_of_admitted {a a' : Str} {P reg : List Str} (h : WF P reg)
    (hadm : routerAdmits a P = true) (hadm' : routerAdmits a' P = true) (hd : dropOWS a = dropOWS a') :
    a.isEmpty = a'.isEmpty := by
  have h0 : dropOWS [] = [] := by decide
  by_cases ha : a = [] <;> by_cases ha' : a' = []
  · rw [ha, ha']
  · subst ha
    rw [h0] at hd
    exact absurd hd.symm (dropOWS_ne_nil_of_admitted h ha' hadm')
  · subst ha'
    rw [h0] at hd
    exact absurd hd (dropOWS_ne_nil_of_admitted h ha hadm)
  · cases a <;> cases a' <;> simp_all

end Mime
end Restful
