/-
What the class of F07b consists of: a header in it has an element the router admits on (its media
type, blanks trimmed, is `*/*` or produced) whose quality `sortedMimes` cannot parse.
-/
import Restful.Lemmas.Mime
import Restful.Lemmas.MimeOWS
namespace Restful
namespace Mime
open Str

theorem mem_takeWhile_imp {p : Char → Bool} {l : Str} {c : Char} (h : c ∈ l.takeWhile p) : p c = true := by
  have := List.all_takeWhile (p := p) (l := l)
  rw [List.all_eq_true] at this
  exact this c h

theorem dropWhile_append_of_all {p : Char → Bool} {l s : Str} (h : ∀ c ∈ l, p c = true) :
    (l ++ s).dropWhile p = s.dropWhile p := by
  induction l with
  | nil => rfl
  | cons x xs ih =>
    have hx := h x List.mem_cons_self
    simp only [List.cons_append, List.dropWhile_cons, hx, if_true]
    exact ih (fun c hc => h c (List.mem_cons_of_mem _ hc))

/-- `trimOWS` removes a surrounding of optional whitespace from a core that neither starts nor ends
    with it -/
theorem trimOWS_surround {l t r : Str} (hl : ∀ c ∈ l, isOWS c = true) (hr : ∀ c ∈ r, isOWS c = true)
    (h1 : ∀ x, t.head? = some x → isOWS x = false) (h2 : ∀ x, t.getLast? = some x → isOWS x = false) (hne : t ≠ []) :
    trimOWS (l ++ t ++ r) = t := by
  unfold trimOWS
  rw [List.append_assoc, dropWhile_append_of_all hl]
  have e1 : (t ++ r).dropWhile isOWS = t ++ r := by
    apply dropWhile_eq_self_of_head
    intro x hx
    cases t with
    | nil => exact absurd rfl hne
    | cons y ys => exact h1 x (by simpa using hx)
  rw [e1, List.reverse_append, dropWhile_append_of_all (by simpa using hr)]
  rw [dropWhile_eq_self_of_head, List.reverse_reverse]
  intro x hx
  rw [List.head?_reverse] at hx
  exact h2 x hx

/-- a string is its blank-trimmed core surrounded by blanks -/
theorem trim_space_decomp (x : Str) : ∃ l r : Str, (∀ c ∈ l, c = ' ') ∧ (∀ c ∈ r, c = ' ') ∧ x = l ++ trim ' ' x ++ r := by
  refine ⟨x.takeWhile (· == ' '), ((trimLeft ' ' x).reverse.takeWhile (· == ' ')).reverse, ?_, ?_, ?_⟩
  · intro c hc
    have := mem_takeWhile_imp hc
    simpa using this
  · intro c hc
    rw [List.mem_reverse] at hc
    have := mem_takeWhile_imp hc
    simpa using this
  · unfold trim trimRight
    have h1 : x = x.takeWhile (· == ' ') ++ trimLeft ' ' x := by
      unfold trimLeft
      exact List.takeWhile_append_dropWhile.symm
    have h2 : trimLeft ' ' x =
        ((trimLeft ' ' x).reverse.dropWhile (· == ' ')).reverse ++ ((trimLeft ' ' x).reverse.takeWhile (· == ' ')).reverse := by
      rw [← List.reverse_append, List.takeWhile_append_dropWhile, List.reverse_reverse]
    rw [List.append_assoc, ← h2]
    exact h1

theorem wfMedia_no_ows {m : Str} (h : Spec.wfMedia m = true) : ∀ c ∈ m, isOWS c = false := by
  intro c hc
  simp only [Spec.wfMedia, Bool.and_eq_true, List.all_eq_true] at h
  have := h.1.2 c hc
  simp only [Bool.not_eq_true', Bool.or_eq_false_iff] at this
  exact this.2

theorem star_no_ows : ∀ c ∈ starStar, isOWS c = false := by decide

/-- trimming optional whitespace gives what trimming blanks gives, when the latter is whitespace-free -/
theorem trimOWS_eq_trim_space {x : Str} (hne : trim ' ' x ≠ []) (h : ∀ c ∈ trim ' ' x, isOWS c = false) :
    trimOWS x = trim ' ' x := by
  obtain ⟨l, r, hl, hr, hx⟩ := trim_space_decomp x
  conv => lhs; rw [hx]
  apply trimOWS_surround
  · intro c hc; rw [hl c hc]; rfl
  · intro c hc; rw [hr c hc]; rfl
  · intro y hy; exact h y (List.mem_of_head? hy)
  · intro y hy; exact h y (List.mem_of_getLast? hy)
  · exact hne

theorem maxFirst_eq_none {l : List Mime} (h : Spec.C05.maxFirst l = none) : l = [] := by
  cases l with
  | nil => rfl
  | cons r rs =>
    unfold Spec.C05.maxFirst at h
    split at h
    · simp at h
    · split at h <;> simp at h

/-- the media type `rangeOf` gives an element is the router's reading of it, when that reading is a
    media type of the quantifier or the wildcard -/
theorem rangeOf_media {piece : Str} {m : Mime} (hr : rangeOf piece = some m)
    (hne : mediaOf piece ≠ []) (hows : ∀ c ∈ mediaOf piece, isOWS c = false) : m.media = mediaOf piece := by
  unfold rangeOf at hr
  rw [split_eq] at hr
  simp only at hr
  generalize qualityOf (match List.dropWhile (fun x => x != ';') piece with | [] => [] | _ :: r' => split ';' r') = oq at hr
  cases oq with
  | none => simp at hr
  | some q =>
    simp only [Option.map_some, Option.some.injEq] at hr
    subst hr
    exact trimOWS_eq_trim_space hne hows

end Mime
end Restful
