/- container.go `fixedPrefixPath` as translated on this run IS the model's -/
import Restful.Lemmas.TieImpBase
namespace Restful
namespace TieImp
namespace T2
open Imp
set_option linter.unusedSimpArgs false

theorem fixed_prefix_path (X : ImpGen.Ext) (p : Str) :
    ImpGen.fixedPrefixPath X p = some (Registry.fixedPrefixPath p) := by 
  unfold ImpGen.fixedPrefixPath Registry.fixedPrefixPath
  simp only [String.reduceToList, index_single, containsSub_single]
  cases hi : Str.index '{' p with
  | none => simp
  | some k =>
    have := idxOf?_lt hi
    simp [sliceTo, slice]
    omega

end T2
end TieImp
end Restful
