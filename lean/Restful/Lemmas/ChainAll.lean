/-
C06 for EVERY filter kind (pass, stop, replace, middle) and EVERY script (panics anywhere): the
clauses of the property stated directly about `Spec.chainLog`, without the side conditions of
`chainLog_closed` (pass/stop only, panic-free scripts).

* `passesOn f` — the filter hands control to the rest of the chain: its kind is pass, replace or
  middle AND its first part does not panic.
* `chainLog_shape` — the log is the DESCENT (start events of the filters up to and including the
  first one that does not pass on, then the target iff there is none) followed by the ASCENT (post
  events only, innermost first, cut short by a panic).
* `descent_closed` — the k-th start event carries `ctxAt fs cx k`, the fold of what the filters
  before it passed on.
-/
import Restful.Lemmas.Chain
namespace Restful
open Str
namespace Spec
open Serve

/-- whether a script panics does not depend on the attributes it starts with: it panics iff it
    contains a panic step -/
theorem attrsAfter_panics (as : List Act) (attrs : List (Str × Str)) :
    (attrsAfter as attrs).2 = !noPanic as := by
  induction as generalizing attrs with
  | nil => rfl
  | cons a as ih =>
    cases a with
    | write b => simpa [attrsAfter, noPanic, isPanic] using ih attrs
    | writeHeader c => simpa [attrsAfter, noPanic, isPanic] using ih attrs
    | addHeader k v => simpa [attrsAfter, noPanic, isPanic] using ih attrs
    | setAttr k v => simpa [attrsAfter, noPanic, isPanic] using ih (setParam attrs k v)
    | panic v => simp [attrsAfter, noPanic, isPanic]

/-- the filter passes control on to the rest of the chain: it is of a kind that calls
    `chain.ProcessFilter` (directly, with a new Request/Response, or through an adapted middleware's
    `next`) and its first part does not panic before doing so -/
def passesOn (f : Filter) : Bool :=
  (match f.kind with
   | .pass => true
   | .replace => true
   | .middle => true
   | .stop => false) && noPanic f.pre

theorem passesOn_iff (f : Filter) : passesOn f = true ↔ f.kind ≠ .stop ∧ noPanic f.pre = true := by
  unfold passesOn
  cases f.kind <;> simp

/-- index of the first filter that does not pass control on (`fs.length` when all do) -/
def firstBlocked (fs : List (Stage × Filter)) : Nat := fs.findIdx (fun sf => !passesOn sf.2)

/-- the k-th stage of the chain: the filters in list order, then the target -/
def stageAt : List (Stage × Filter) → Target → Nat → Stage
  | [], t, _ => t.stage
  | (st, _) :: _, _, 0 => st
  | _ :: fs, t, k + 1 => stageAt fs t k

/-- the Request/Response context the k-th stage of the chain receives when the chain is entered
    with `cx`: what the filters before it passed on, one after the other (`Chain.innerCtx`: a pass
    filter its own Request with the attributes its first part left; a replace filter a new Request
    — own attributes, no parameters, no selected path — and one more wrapper; an adapted middleware
    the same Request and one more wrapper) -/
def ctxAt : List (Stage × Filter) → Ctx → Nat → Ctx
  | _, cx, 0 => cx
  | [], cx, _ + 1 => cx
  | (_, f) :: fs, cx, k + 1 => ctxAt fs (Serve.Chain.innerCtx f cx) k

/-- the way down: every filter records its start; the rest of the chain starts iff it passes on -/
def descent : List (Stage × Filter) → Target → Ctx → List Event
  | [], t, cx => [Serve.Chain.evOf t.stage false cx]
  | (st, f) :: fs, t, cx =>
    Serve.Chain.evOf st false cx :: (if passesOn f then descent fs t (Serve.Chain.innerCtx f cx) else [])

/-- the stages whose second part is due on the way back, innermost first: every filter that passed
    control on, and the filter that stopped (its code after the decision not to call the chain) —
    not a filter whose first part panicked -/
def returners : List (Stage × Filter) → List Stage
  | [] => []
  | (st, f) :: fs => if passesOn f then returners fs ++ [st] else if noPanic f.pre then [st] else []

end Spec

namespace Serve
namespace Chain
open Spec

/-! ### one step of `chainLog`, by `passesOn` -/

/-- a filter that passes on: its start, the rest of the chain on the context it hands on, and —
    unless a panic is unwinding — its post event -/
theorem chainLog_cons_passes (st : Stage) (f : Filter) (fs : List (Stage × Filter)) (t : Target) (cx : Ctx)
    (h : passesOn f = true) :
    ∃ cxP cxp cxr, chainLog ((st, f) :: fs) t cx =
      after (evOf st false cx) (chainLog fs t (innerCtx f cx)).1 (chainLog fs t (innerCtx f cx)).2.2 cxP
        (postPart st f cxp cxr) := by
  obtain ⟨hk, hn⟩ := (passesOn_iff f).mp h
  rw [chainLog_cons]
  simp only [attrsAfter_panics, hn, Bool.not_true, Bool.false_eq_true, if_false, innerCtx]
  cases hkind : f.kind with
  | stop => exact absurd hkind hk
  | pass => exact ⟨_, _, _, rfl⟩
  | replace => exact ⟨_, _, _, rfl⟩
  | middle => exact ⟨_, _, _, rfl⟩

/-- a filter that does not pass on: its start and, when it merely stopped, its own post event;
    nothing of the rest of the chain -/
theorem chainLog_cons_blocked (st : Stage) (f : Filter) (fs : List (Stage × Filter)) (t : Target) (cx : Ctx)
    (h : passesOn f = false) :
    (chainLog ((st, f) :: fs) t cx).1 =
      evOf st false cx ::
        (if noPanic f.pre then [evOf st true { cx with attrs := (attrsAfter f.pre cx.attrs).1 }] else []) ∧
    (noPanic f.pre = false → (chainLog ((st, f) :: fs) t cx).2.2 = true) := by
  rw [chainLog_cons]
  simp only [attrsAfter_panics]
  cases hn : noPanic f.pre with
  | false => simp
  | true =>
    have hk : f.kind = .stop := by
      cases hk : f.kind <;> simp [passesOn, hk, hn] at h ⊢
    simp [hk, after, postPart]

/-! ### the shape of the whole log -/

theorem descent_post (fs : List (Stage × Filter)) (t : Target) (cx : Ctx) :
    ∀ ev ∈ descent fs t cx, ev.post = false := by
  induction fs generalizing cx with
  | nil =>
    intro ev hev
    simp only [descent, List.mem_singleton] at hev
    rw [hev]; rfl
  | cons sf fs ih =>
    obtain ⟨st, f⟩ := sf
    intro ev hev
    simp only [descent, List.mem_cons] at hev
    rcases hev with rfl | hev
    · rfl
    · split at hev
      · exact ih _ ev hev
      · cases hev

/-- THE SHAPE, every kind, every script: the descent, then post events only — their stages are a
    prefix of `returners fs` (innermost first), all of it when no panic leaves the chain -/
theorem chainLog_shape (fs : List (Stage × Filter)) (t : Target) (cx : Ctx) :
    ∃ asc, (chainLog fs t cx).1 = descent fs t cx ++ asc ∧ (∀ ev ∈ asc, ev.post = true) ∧
      asc.map (·.stage) <+: returners fs ∧
      ((chainLog fs t cx).2.2 = false → asc.map (·.stage) = returners fs) := by
  induction fs generalizing cx with
  | nil =>
    refine ⟨[], ?_, fun _ h => absurd h List.not_mem_nil, List.prefix_refl _, fun _ => rfl⟩
    rw [chainLog_nil]; rfl
  | cons sf fs ih =>
    obtain ⟨st, f⟩ := sf
    cases hpo : passesOn f with
    | false =>
      obtain ⟨h1, h2⟩ := chainLog_cons_blocked st f fs t cx hpo
      cases hn : noPanic f.pre with
      | false =>
        refine ⟨[], ?_, fun _ h => absurd h List.not_mem_nil, ?_, fun _ => ?_⟩
        · rw [h1]; simp [descent, hpo, hn]
        · simp [returners, hpo, hn]
        · simp [returners, hpo, hn]
      | true =>
        refine ⟨[evOf st true { cx with attrs := (attrsAfter f.pre cx.attrs).1 }], ?_, ?_, ?_, fun _ => ?_⟩
        · rw [h1]; simp [descent, hpo, hn]
        · intro ev hev
          simp only [List.mem_singleton] at hev
          rw [hev]; rfl
        · simp [returners, hpo, hn, evOf]
        · simp [returners, hpo, hn, evOf]
    | true =>
      obtain ⟨cxP, cxp, cxr, h⟩ := chainLog_cons_passes st f fs t cx hpo
      obtain ⟨asc, ha1, ha2, ha3, ha4⟩ := ih (innerCtx f cx)
      rw [h]
      simp only [after]
      cases hp : (chainLog fs t (innerCtx f cx)).2.2 with
      | true =>
        refine ⟨asc, ?_, ha2, ?_, fun hc => ?_⟩
        · simp [descent, hpo, ha1]
        · simp only [returners, hpo, if_true]
          exact List.IsPrefix.trans ha3 (List.prefix_append _ _)
        · simp at hc
      | false =>
        refine ⟨asc ++ [evOf st true cxp], ?_, ?_, ?_, fun _ => ?_⟩
        · simp [descent, hpo, ha1, postPart]
        · intro ev hev
          simp only [List.mem_append, List.mem_singleton] at hev
          rcases hev with hev | rfl
          · exact ha2 ev hev
          · rfl
        · simp only [returners, hpo, if_true, List.map_append, ha4 hp]
          exact List.prefix_refl _
        · simp only [returners, hpo, if_true, List.map_append, ha4 hp]
          rfl

/-- the start events of the log are the descent -/
theorem chainLog_starts (fs : List (Stage × Filter)) (t : Target) (cx : Ctx) :
    (chainLog fs t cx).1.filter (fun ev => !ev.post) = descent fs t cx := by
  obtain ⟨asc, h1, h2, _, _⟩ := chainLog_shape fs t cx
  rw [h1, List.filter_append]
  have e1 : (descent fs t cx).filter (fun ev => !ev.post) = descent fs t cx := by
    rw [List.filter_eq_self]
    intro ev hev
    simp [descent_post fs t cx ev hev]
  have e2 : asc.filter (fun ev => !ev.post) = [] := by
    rw [List.filter_eq_nil_iff]
    intro ev hev
    simp [h2 ev hev]
  rw [e1, e2, List.append_nil]

/-! ### the descent in closed form -/

theorem firstBlocked_cons (sf : Stage × Filter) (fs : List (Stage × Filter)) :
    firstBlocked (sf :: fs) = if passesOn sf.2 then firstBlocked fs + 1 else 0 := by
  simp only [firstBlocked, List.findIdx_cons]
  cases passesOn sf.2 <;> simp

theorem firstBlocked_le (fs : List (Stage × Filter)) : firstBlocked fs ≤ fs.length := List.findIdx_le_length

theorem firstBlocked_eq_length (fs : List (Stage × Filter)) :
    firstBlocked fs = fs.length ↔ ∀ sf ∈ fs, passesOn sf.2 = true := by
  simp [firstBlocked, List.findIdx_eq_length]

/-- the k-th start event is the k-th stage of the chain with the context `ctxAt fs cx k`; there are
    `firstBlocked fs + 1` of them -/
theorem descent_closed (fs : List (Stage × Filter)) (t : Target) (cx : Ctx) :
    descent fs t cx =
      (List.range (firstBlocked fs + 1)).map (fun k => evOf (stageAt fs t k) false (ctxAt fs cx k)) := by
  induction fs generalizing cx with
  | nil => simp [descent, firstBlocked, stageAt, ctxAt, List.range_succ]
  | cons sf fs ih =>
    obtain ⟨st, f⟩ := sf
    rw [firstBlocked_cons]
    cases hpo : passesOn f with
    | false => simp [descent, hpo, stageAt, ctxAt, List.range_succ]
    | true =>
      simp only [descent, hpo, if_true, ih]
      conv => rhs; rw [List.range_succ_eq_map]
      simp [stageAt, ctxAt, Function.comp_def]

theorem stageAt_eq (fs : List (Stage × Filter)) (t : Target) (k : Nat) :
    stageAt fs t k = ((fs.map (·.1) ++ [t.stage])[k]?).getD t.stage := by
  induction fs generalizing k with
  | nil => cases k <;> simp [stageAt]
  | cons sf fs ih =>
    obtain ⟨st, f⟩ := sf
    cases k with
    | zero => simp [stageAt]
    | succ k => simpa [stageAt] using ih k

/-- the stages of the start events: a prefix of the chain's labels followed by the target -/
theorem descent_stages (fs : List (Stage × Filter)) (t : Target) (cx : Ctx) :
    (descent fs t cx).map (·.stage) = (fs.map (·.1) ++ [t.stage]).take (firstBlocked fs + 1) := by
  induction fs generalizing cx with
  | nil => simp [descent, firstBlocked, evOf]
  | cons sf fs ih =>
    obtain ⟨st, f⟩ := sf
    rw [firstBlocked_cons]
    cases hpo : passesOn f with
    | false => simp [descent, hpo, evOf]
    | true => simp [descent, hpo, evOf, ih]

/-- `ctxAt` is the fold of `innerCtx` over the filters before the k-th stage -/
theorem ctxAt_foldl (fs : List (Stage × Filter)) (cx : Ctx) (k : Nat) :
    ctxAt fs cx k = (fs.take k).foldl (fun c sf => innerCtx sf.2 c) cx := by
  induction fs generalizing cx k with
  | nil => cases k <;> simp [ctxAt]
  | cons sf fs ih =>
    obtain ⟨st, f⟩ := sf
    cases k with
    | zero => simp [ctxAt]
    | succ k => simpa [ctxAt] using ih (innerCtx f cx) k

/-- one step of the fold: the stage after filter `k` receives what filter `k` hands on -/
theorem ctxAt_succ (fs : List (Stage × Filter)) (cx : Ctx) (k : Nat) (hk : k < fs.length) :
    ctxAt fs cx (k + 1) = innerCtx fs[k].2 (ctxAt fs cx k) := by
  rw [ctxAt_foldl, ctxAt_foldl, List.take_succ_eq_append_getElem hk, List.foldl_append]
  rfl

/-! ### the target -/

/-- how often the target starts: once when every filter passes on, never otherwise -/
theorem descent_count (fs : List (Stage × Filter)) (t : Target) (cx : Ctx) (hd : ∀ sf ∈ fs, sf.1 ≠ t.stage) :
    ((descent fs t cx).map (fun ev => (ev.stage, ev.post))).count (t.stage, false) =
      if fs.all (fun sf => passesOn sf.2) then 1 else 0 := by
  induction fs generalizing cx with
  | nil => simp [descent, evOf]
  | cons sf fs ih =>
    obtain ⟨st, f⟩ := sf
    have hst : st ≠ t.stage := hd (st, f) List.mem_cons_self
    have hne : ((st, false) == (t.stage, false)) = false := by
      rw [beq_eq_false_iff_ne]
      intro he
      exact hst (Prod.mk.inj he).1
    simp only [descent, List.map_cons, evOf, List.count_cons, hne, Bool.false_eq_true, if_false, Nat.add_zero]
    rw [List.all_cons]
    by_cases hpo : passesOn f = true
    · rw [if_pos hpo, hpo, Bool.true_and]
      exact ih _ (fun sf h => hd sf (List.mem_cons_of_mem _ h))
    · have hpo' : passesOn f = false := by simpa using hpo
      rw [if_neg hpo, hpo']
      simp

theorem chainLog_target_count (fs : List (Stage × Filter)) (t : Target) (cx : Ctx) (hd : ∀ sf ∈ fs, sf.1 ≠ t.stage) :
    ((chainLog fs t cx).1.map (fun ev => (ev.stage, ev.post))).count (t.stage, false) =
      if fs.all (fun sf => passesOn sf.2) then 1 else 0 := by
  obtain ⟨asc, h1, h2, _, _⟩ := chainLog_shape fs t cx
  rw [h1, List.map_append, List.count_append, descent_count fs t cx hd]
  have : (asc.map (fun ev => (ev.stage, ev.post))).count (t.stage, false) = 0 := by
    rw [List.count_eq_zero]
    intro hm
    rw [List.mem_map] at hm
    obtain ⟨ev, hev, he⟩ := hm
    have := h2 ev hev
    rw [(Prod.mk.inj he).2] at this
    cases this
  rw [this, Nat.add_zero]

theorem chainLog_target_iff (fs : List (Stage × Filter)) (t : Target) (cx : Ctx) (hd : ∀ sf ∈ fs, sf.1 ≠ t.stage) :
    (t.stage, false) ∈ (chainLog fs t cx).1.map (fun ev => (ev.stage, ev.post)) ↔ ∀ sf ∈ fs, passesOn sf.2 = true := by
  rw [← List.count_pos_iff, chainLog_target_count fs t cx hd]
  constructor
  · intro h
    split at h
    · rename_i ha
      simpa [List.all_eq_true] using ha
    · cases h
  · intro h
    rw [if_pos (by simpa [List.all_eq_true] using h)]
    exact Nat.one_pos

/-! ### after a filter that does not pass on -/

theorem returners_blocked (pre : List (Stage × Filter)) (st : Stage) (f : Filter) (rest : List (Stage × Filter))
    (hpre : ∀ sf ∈ pre, passesOn sf.2 = true) (hf : passesOn f = false) :
    returners (pre ++ (st, f) :: rest) = (if noPanic f.pre then [st] else []) ++ (pre.map (·.1)).reverse := by
  induction pre with
  | nil => simp [returners, hf]
  | cons sf pre ih =>
    obtain ⟨s0, f0⟩ := sf
    have h0 : passesOn f0 = true := hpre (s0, f0) List.mem_cons_self
    have := ih (fun sf h => hpre sf (List.mem_cons_of_mem _ h))
    simp only [List.cons_append, returners, h0, if_true, this, List.map_cons, List.reverse_cons, List.append_assoc]

theorem firstBlocked_blocked (pre : List (Stage × Filter)) (st : Stage) (f : Filter) (rest : List (Stage × Filter))
    (hpre : ∀ sf ∈ pre, passesOn sf.2 = true) (hf : passesOn f = false) :
    firstBlocked (pre ++ (st, f) :: rest) = pre.length := by
  induction pre with
  | nil => simp [firstBlocked_cons, hf]
  | cons sf pre ih =>
    have h0 : passesOn sf.2 = true := hpre sf List.mem_cons_self
    rw [List.cons_append, firstBlocked_cons, h0, if_pos rfl, ih (fun sf h => hpre sf (List.mem_cons_of_mem _ h))]
    rfl

/-- a filter that does not pass control on stops everything after it: when the filters `pre` pass
    on and `f` does not, the log is the start events of `pre` and of `f` — in this order, nothing
    else starts — followed by post events only: `f`'s own (iff it stopped rather than panicked) and
    then those of `pre` in reverse order, cut short when a panic unwinds -/
theorem chainLog_blocked (pre : List (Stage × Filter)) (st : Stage) (f : Filter) (rest : List (Stage × Filter))
    (t : Target) (cx : Ctx) (hpre : ∀ sf ∈ pre, passesOn sf.2 = true) (hf : passesOn f = false) :
    ∃ starts asc, (chainLog (pre ++ (st, f) :: rest) t cx).1 = starts ++ asc ∧
      starts.map (fun ev => (ev.stage, ev.post)) = (pre.map (fun sf => (sf.1, false))) ++ [(st, false)] ∧
      (∀ ev ∈ asc, ev.post = true) ∧
      asc.map (·.stage) <+: (if noPanic f.pre then [st] else []) ++ (pre.map (·.1)).reverse ∧
      ((chainLog (pre ++ (st, f) :: rest) t cx).2.2 = false →
        asc.map (·.stage) = (if noPanic f.pre then [st] else []) ++ (pre.map (·.1)).reverse) := by
  obtain ⟨asc, h1, h2, h3, h4⟩ := chainLog_shape (pre ++ (st, f) :: rest) t cx
  rw [returners_blocked pre st f rest hpre hf] at h3 h4
  refine ⟨descent (pre ++ (st, f) :: rest) t cx, asc, h1, ?_, h2, h3, h4⟩
  have hs := descent_stages (pre ++ (st, f) :: rest) t cx
  rw [firstBlocked_blocked pre st f rest hpre hf] at hs
  have hpost := descent_post (pre ++ (st, f) :: rest) t cx
  have e : (descent (pre ++ (st, f) :: rest) t cx).map (fun ev => (ev.stage, ev.post)) =
      ((descent (pre ++ (st, f) :: rest) t cx).map (·.stage)).map (fun s => (s, false)) := by
    rw [List.map_map]
    apply List.map_congr_left
    intro ev hev
    simp [hpost ev hev]
  have ht : (List.map (·.1) (pre ++ (st, f) :: rest) ++ [t.stage]).take (pre.length + 1) = pre.map (·.1) ++ [st] := by
    have : List.map (·.1) (pre ++ (st, f) :: rest) ++ [t.stage] = (pre.map (·.1) ++ [st]) ++ (rest.map (·.1) ++ [t.stage]) := by
      simp
    rw [this, List.take_left' (by simp)]
  rw [e, hs, ht]
  simp [Function.comp_def]

/-! ### on the model's log -/

theorem count_recover (r : List Event) (h : AllRecover r) (st : Stage) (b : Bool) (hr : st ≠ .recover) :
    (r.map (fun ev => (ev.stage, ev.post))).count (st, b) = 0 := by
  rw [List.count_eq_zero]
  intro hm
  rw [List.mem_map] at hm
  obtain ⟨ev, hev, he⟩ := hm
  exact hr (by rw [← (Prod.mk.inj he).1, h ev hev])

/-- events of user code occur in the model's log as often as in the specified chain's -/
theorem serve_count (E : ReEnv) (cfg : Cfg) (e : Entry) (w : World) (sr : SReq) (st : Stage) (b : Bool)
    (hr : st ≠ .recover) :
    ((serve E cfg e w sr).log.map (fun ev => (ev.stage, ev.post))).count (st, b) =
      ((chainEvents E cfg e sr).map (fun ev => (ev.stage, ev.post))).count (st, b) := by
  obtain ⟨r, hr1, hr2⟩ := serve_log E cfg e w sr
  rw [hr2, List.map_append, List.count_append, count_recover r hr1 st b hr, Nat.add_zero]

/-- the filters' labels of a served chain differ from its target's -/
theorem chainOf_target_fresh (E : ReEnv) (cfg : Cfg) (e : Entry) (sr : SReq) (fs : List (Stage × Filter)) (t : Target) (cx : Ctx)
    (h : chainOf E cfg e sr = some (fs, t, cx)) : ∀ sf ∈ fs, sf.1 ≠ t.stage := by
  obtain ⟨h1, h2, _⟩ := chainOf_labels E cfg e sr fs t cx h
  intro sf hsf he
  have := h1 sf.1 (List.mem_map_of_mem hsf)
  rw [he, h2] at this
  cases this

/-- ON THE MODEL, every entry point, every configuration, every request: a stage that is neither a
    filter nor the recover handler (a route function, the plain handler, the service-error writer)
    starts iff it is the target of the chain the request goes through and every filter of that chain
    passes control on -/
theorem serve_target_iff (E : ReEnv) (cfg : Cfg) (e : Entry) (w : World) (sr : SReq) (st : Stage)
    (hf : st.isFilter = false) (hr : st ≠ .recover) :
    (st, false) ∈ (serve E cfg e w sr).log.map (fun ev => (ev.stage, ev.post)) ↔
      ∃ fs t cx, chainOf E cfg e sr = some (fs, t, cx) ∧ t.stage = st ∧ ∀ sf ∈ fs, passesOn sf.2 = true := by
  rw [← List.count_pos_iff, serve_count E cfg e w sr st false hr, List.count_pos_iff, chainEvents]
  cases h : chainOf E cfg e sr with
  | none => simp
  | some c =>
    obtain ⟨fs, t, cx⟩ := c
    have h1 := (chainOf_labels E cfg e sr fs t cx h).1
    have hd := chainOf_target_fresh E cfg e sr fs t cx h
    simp only [Option.some.injEq, Prod.mk.injEq]
    constructor
    · intro hm
      have hst : t.stage = st := by
        rw [List.mem_map] at hm
        obtain ⟨ev, hev, he⟩ := hm
        rcases chainLog_stage_mem fs t cx ev hev with h3 | h3
        · have := h1 _ h3
          rw [(Prod.mk.inj he).1, hf] at this
          cases this
        · rw [← h3]; exact (Prod.mk.inj he).1
      subst hst
      exact ⟨fs, t, cx, ⟨rfl, rfl, rfl⟩, rfl, (chainLog_target_iff fs t cx hd).mp hm⟩
    · rintro ⟨fs', t', cx', ⟨rfl, rfl, rfl⟩, rfl, hall⟩
      exact (chainLog_target_iff _ _ _ hd).mpr hall

/-- … and never more than once -/
theorem serve_target_once (E : ReEnv) (cfg : Cfg) (e : Entry) (w : World) (sr : SReq) (st : Stage)
    (hf : st.isFilter = false) (hr : st ≠ .recover) :
    ((serve E cfg e w sr).log.map (fun ev => (ev.stage, ev.post))).count (st, false) ≤ 1 := by
  rw [serve_count E cfg e w sr st false hr, chainEvents]
  cases h : chainOf E cfg e sr with
  | none => simp
  | some c =>
    obtain ⟨fs, t, cx⟩ := c
    have h1 := (chainOf_labels E cfg e sr fs t cx h).1
    have hd := chainOf_target_fresh E cfg e sr fs t cx h
    by_cases hst : t.stage = st
    · subst hst
      show ((chainLog fs t cx).1.map (fun ev => (ev.stage, ev.post))).count (t.stage, false) ≤ 1
      rw [chainLog_target_count fs t cx hd]
      split <;> decide
    · have : ((chainLog fs t cx).1.map (fun ev => (ev.stage, ev.post))).count (st, false) = 0 := by
        rw [List.count_eq_zero]
        intro hm
        rw [List.mem_map] at hm
        obtain ⟨ev, hev, he⟩ := hm
        rcases chainLog_stage_mem fs t cx ev hev with h3 | h3
        · have := h1 _ h3
          rw [(Prod.mk.inj he).1, hf] at this
          cases this
        · exact hst (by rw [← h3]; exact (Prod.mk.inj he).1)
      show ((chainLog fs t cx).1.map (fun ev => (ev.stage, ev.post))).count (st, false) ≤ 1
      rw [this]
      exact Nat.zero_le _

/-- the chain of a request that is dispatched: none (a panicking condition or router), the
    container filters around the service-error writer, or `allFilters` around the route function -/
theorem chainOf_dispatch_cases (E : ReEnv) (cfg : Cfg) (sr : SReq) :
    chainOf E cfg .dispatch sr = none ∨
    (∃ c a tag, sr.condPanic = none ∧ routeTagged E cfg.routing sr.req = (.error c a, tag) ∧
      chainOf E cfg .dispatch sr =
        some (label .cfilter cfg.cfilters, ⟨.errorWriter, errorScript c a (errMsg E cfg sr c tag)⟩, {})) ∨
    (∃ svc rid ps tag selPath, sr.condPanic = none ∧ routeTagged E cfg.routing sr.req = (.selected svc rid ps, tag) ∧
      chainOf E cfg .dispatch sr =
        some (allFilters cfg svc rid, ⟨.handler rid, (routeX cfg rid).script⟩, { params := ps, selPath := selPath })) := by
  unfold chainOf
  simp only
  cases hc : sr.condPanic with
  | some v => exact .inl (by simp)
  | none =>
    simp only [Option.isSome_none, Bool.false_eq_true, if_false]
    generalize routeTagged E cfg.routing sr.req = o
    obtain ⟨o, tag⟩ := o
    cases o with
    | panic w => exact .inl rfl
    | error c a => exact .inr (.inl ⟨c, a, tag, trivial, rfl, rfl⟩)
    | selected svc rid ps => exact .inr (.inr ⟨svc, rid, ps, tag, _, trivial, rfl, rfl⟩)

theorem label_forall (mk : Nat → Stage) (fs : List Filter) (P : Filter → Prop) :
    (∀ sf ∈ label mk fs, P sf.2) ↔ ∀ f ∈ fs, P f := by
  simp [label]

theorem allFilters_forall (cfg : Cfg) (svc rid : Nat) (P : Filter → Prop) :
    (∀ sf ∈ allFilters cfg svc rid, P sf.2) ↔
      (∀ f ∈ cfg.cfilters, P f) ∧ (∀ f ∈ (svcX cfg svc).filters, P f) ∧ (∀ f ∈ (routeX cfg rid).filters, P f) := by
  simp only [allFilters, List.mem_append, or_imp, forall_and, label_forall, and_assoc]

/-- the route function `rid` runs iff the request came through `Dispatch`/`ServeHTTP`, was routed to
    `rid`, and every container, service and route filter on its way passes control on -/
theorem serve_handler_iff (E : ReEnv) (cfg : Cfg) (e : Entry) (w : World) (sr : SReq) (rid : Nat) :
    (Stage.handler rid, false) ∈ (serve E cfg e w sr).log.map (fun ev => (ev.stage, ev.post)) ↔
      (e = .dispatch ∨ e = .serveDispatch) ∧ sr.condPanic = none ∧
      ∃ svc ps tag, routeTagged E cfg.routing sr.req = (.selected svc rid ps, tag) ∧
        (∀ f ∈ cfg.cfilters, passesOn f = true) ∧ (∀ f ∈ (svcX cfg svc).filters, passesOn f = true) ∧
        (∀ f ∈ (routeX cfg rid).filters, passesOn f = true) := by
  rw [serve_target_iff E cfg e w sr (.handler rid) rfl (by intro h; cases h)]
  have routed : ∀ e', (e' = .dispatch ∨ e' = .serveDispatch) →
      ((∃ fs t cx, chainOf E cfg e' sr = some (fs, t, cx) ∧ t.stage = .handler rid ∧ ∀ sf ∈ fs, passesOn sf.2 = true) ↔
        sr.condPanic = none ∧ ∃ svc ps tag, routeTagged E cfg.routing sr.req = (.selected svc rid ps, tag) ∧
          (∀ f ∈ cfg.cfilters, passesOn f = true) ∧ (∀ f ∈ (svcX cfg svc).filters, passesOn f = true) ∧
          (∀ f ∈ (routeX cfg rid).filters, passesOn f = true)) := by
    intro e' he'
    have hsame : chainOf E cfg e' sr = chainOf E cfg .dispatch sr := by rcases he' with rfl | rfl <;> rfl
    rw [hsame]
    rcases chainOf_dispatch_cases E cfg sr with h | ⟨c, a, tag, hc, hrt, h⟩ | ⟨svc, rid', ps, tag, selPath, hc, hrt, h⟩
    · rw [h]
      constructor
      · rintro ⟨_, _, _, h', _⟩; cases h'
      · rintro ⟨hc, svc, ps, tag, hrt, hall⟩
        rcases chainOf_dispatch_cases E cfg sr with h2 | ⟨_, _, _, _, hrt2, _⟩ | ⟨_, _, _, _, _, _, _, h2⟩
        · exfalso
          have : chainOf E cfg .dispatch sr ≠ none := by
            simp [chainOf, hc, hrt]
          exact this h
        · rw [hrt] at hrt2; cases hrt2
        · rw [h] at h2; cases h2
    · rw [h]
      constructor
      · rintro ⟨_, _, _, h', hst, _⟩
        simp only [Option.some.injEq, Prod.mk.injEq] at h'
        obtain ⟨_, rfl, _⟩ := h'
        cases hst
      · rintro ⟨_, svc, ps, tag', hrt2, _⟩
        rw [hrt] at hrt2; cases hrt2
    · rw [h]
      constructor
      · rintro ⟨_, _, _, h', hst, hall⟩
        simp only [Option.some.injEq, Prod.mk.injEq] at h'
        obtain ⟨rfl, rfl, _⟩ := h'
        simp only [Stage.handler.injEq] at hst
        subst hst
        exact ⟨hc, svc, ps, tag, hrt, (allFilters_forall cfg svc rid' _).mp hall⟩
      · rintro ⟨_, svc2, ps2, tag2, hrt2, hall⟩
        rw [hrt] at hrt2
        simp only [Prod.mk.injEq, Outcome.selected.injEq] at hrt2
        obtain ⟨⟨rfl, rfl, rfl⟩, rfl⟩ := hrt2
        exact ⟨_, _, _, rfl, rfl, (allFilters_forall cfg svc rid' _).mpr hall⟩
  cases e with
  | dispatch => simpa using routed .dispatch (.inl rfl)
  | serveDispatch => simpa using routed .serveDispatch (.inr rfl)
  | muxHandle => simp [chainOf]
  | serveHandle => simp [chainOf]
  | muxHandleF => simp [chainOf]
  | serveHandleF => simp [chainOf]

/-- the plain `http.Handler` behind `Handle` / `HandleWithFilter` runs iff it was registered with
    `Handle` (no filter applies), or with `HandleWithFilter` and every container filter passes on -/
theorem serve_plain_iff (E : ReEnv) (cfg : Cfg) (e : Entry) (w : World) (sr : SReq) :
    (Stage.plain 0, false) ∈ (serve E cfg e w sr).log.map (fun ev => (ev.stage, ev.post)) ↔
      (e = .muxHandle ∨ e = .serveHandle) ∨
      ((e = .muxHandleF ∨ e = .serveHandleF) ∧ ∀ f ∈ cfg.cfilters, passesOn f = true) := by
  rw [serve_target_iff E cfg e w sr (.plain 0) rfl (by intro h; cases h)]
  have routed : ∀ e', (e' = .dispatch ∨ e' = .serveDispatch) →
      ¬ ∃ fs t cx, chainOf E cfg e' sr = some (fs, t, cx) ∧ t.stage = .plain 0 ∧ ∀ sf ∈ fs, passesOn sf.2 = true := by
    intro e' he'
    have hsame : chainOf E cfg e' sr = chainOf E cfg .dispatch sr := by rcases he' with rfl | rfl <;> rfl
    rw [hsame]
    rintro ⟨_, _, _, h', hst, _⟩
    rcases chainOf_dispatch_cases E cfg sr with h | ⟨_, _, _, _, _, h⟩ | ⟨_, _, _, _, _, _, _, h⟩
    · rw [h] at h'; cases h'
    · rw [h] at h'
      simp only [Option.some.injEq, Prod.mk.injEq] at h'
      obtain ⟨_, rfl, _⟩ := h'
      cases hst
    · rw [h] at h'
      simp only [Option.some.injEq, Prod.mk.injEq] at h'
      obtain ⟨_, rfl, _⟩ := h'
      cases hst
  cases e with
  | dispatch => simpa using routed .dispatch (.inl rfl)
  | serveDispatch => simpa using routed .serveDispatch (.inr rfl)
  | muxHandle =>
    exact ⟨fun _ => .inl (.inl rfl),
      fun _ => ⟨[], ⟨.plain 0, cfg.plainScript⟩, {}, rfl, rfl, fun _ h => absurd h List.not_mem_nil⟩⟩
  | serveHandle =>
    exact ⟨fun _ => .inl (.inr rfl),
      fun _ => ⟨[], ⟨.plain 0, cfg.plainScript⟩, {}, rfl, rfl, fun _ h => absurd h List.not_mem_nil⟩⟩
  | muxHandleF =>
    constructor
    · rintro ⟨fs, t, cx, h, _, hall⟩
      simp only [chainOf, Option.some.injEq, Prod.mk.injEq] at h
      obtain ⟨rfl, _, _⟩ := h
      exact .inr ⟨.inl rfl, (label_forall _ _ _).mp hall⟩
    · rintro (h | ⟨_, hall⟩)
      · rcases h with h | h <;> cases h
      · exact ⟨_, _, _, rfl, rfl, (label_forall _ _ _).mpr hall⟩
  | serveHandleF =>
    constructor
    · rintro ⟨fs, t, cx, h, _, hall⟩
      simp only [chainOf, Option.some.injEq, Prod.mk.injEq] at h
      obtain ⟨rfl, _, _⟩ := h
      exact .inr ⟨.inr rfl, (label_forall _ _ _).mp hall⟩
    · rintro (h | ⟨_, hall⟩)
      · rcases h with h | h <;> cases h
      · exact ⟨_, _, _, rfl, rfl, (label_forall _ _ _).mpr hall⟩

/-- the start events of the model's log, every entry point: stage k of the chain with the context
    `ctxAt fs cx k`, for k up to the first filter that does not pass on — then nothing but the
    recover handler's -/
theorem serve_starts (E : ReEnv) (cfg : Cfg) (e : Entry) (w : World) (sr : SReq)
    (fs : List (Stage × Filter)) (t : Target) (cx : Ctx) (h : chainOf E cfg e sr = some (fs, t, cx)) :
    ∃ r, AllRecover r ∧ (serve E cfg e w sr).log.filter (fun ev => !ev.post) =
      (List.range (firstBlocked fs + 1)).map (fun k => evOf (stageAt fs t k) false (ctxAt fs cx k)) ++ r := by
  obtain ⟨r, hr1, hr2⟩ := serve_log E cfg e w sr
  refine ⟨r.filter (fun ev => !ev.post), fun ev hev => hr1 ev (List.mem_filter.mp hev).1, ?_⟩
  rw [hr2, chainEvents, h, List.filter_append]
  show (chainLog fs t cx).1.filter (fun ev => !ev.post) ++ _ = _
  rw [chainLog_starts, descent_closed]

end Chain
end Serve
end Restful
