/-
C03 for CurlyRouter: the selected route is never less specific than another eligible route, and
the outcome of every request does not depend on the order of registration.

  * sortedness of the model's sort, `candLess` a strict weak order  — `Restful.Lemmas.OrderSort`
  * ranking keys (`C03_curly_key`, `C03_root_*`, `Curly.detectWebService_max`) — `Restful.Lemmas.OrderScore`
  * the score the router computes since fix 19aa57d (root expressions evaluated, `Curly.wsScoreE`)
    against the arithmetic `Curly.wsScore`, `C03_rootE_*`            — `Restful.Lemmas.CurlyScore`
  * permutation lemmas for the selection stages                    — `Restful.Lemmas.OrderPerm`
-/
import Restful.Lemmas.OrderSort
import Restful.Lemmas.OrderScore
import Restful.Lemmas.CurlyScore
import Restful.Lemmas.OrderPerm
import Restful.Lemmas.RouteSelected
import Restful.Lemmas.ReadTemplate
namespace Restful
open Str
variable (E : ReEnv)

/-! ### `routeCurly` in two steps -/

/-- what `routeCurly` does once the WebService is detected -/
def curlyAfterSvc (routes : List Route) (req : Req) : Outcome :=
  match Curly.selectRoutes E routes (tokenize req.path) with
  | none => .panic "curly.match"
  | some [] => .error 404 none
  | some cands =>
    match detectRoute cands req with
    | .error (c, a) => .error c a
    | .ok r =>
      match Params.extract r req.path with
      | none => .panic "params"
      | some ps => .selected r.svc r.id ps

theorem routeCurly_fst (cfg : Config) (req : Req) :
    (routeCurly E cfg req).1 =
      match Curly.detectWebService E (tokenize req.path) cfg.services none with
      | none => .panic "curly.score"
      | some none => .error 404 none
      | some (some (svc, _)) => curlyAfterSvc E svc.built req := by
  unfold routeCurly curlyAfterSvc
  simp only
  cases Curly.detectWebService E (tokenize req.path) cfg.services none with
  | none => rfl
  | some d =>
    cases d with
    | none => rfl
    | some x =>
      obtain ⟨svc, sc⟩ := x
      simp only
      cases Curly.selectRoutes E svc.built (tokenize req.path) with
      | none => rfl
      | some cands =>
        cases cands with
        | nil => rfl
        | cons x xs =>
          simp only
          cases detectRoute (x :: xs) req with
          | error e => rfl
          | ok r =>
            simp only
            cases Params.extract r req.path <;> rfl

theorem detectRoute_ok_head {l : List Route} {req : Req} {r : Route} (h : detectRoute l req = .ok r) :
    ∃ rest, stage4 l req = r :: rest := by
  unfold detectRoute at h
  simp only at h
  split at h
  · simp at h
  split at h
  · simp at h
  split at h
  · simp at h
  split at h
  · split at h <;> simp at h
  · rename_i r' rest heq
    simp only [Except.ok.injEq] at h
    subst h
    exact ⟨rest, heq⟩

/-! ### (4) the selected route has the greatest static count among the eligible matching routes -/

/-- the candidate behind the route `detectRoute` returns is the first eligible one of the sorted list,
    so its static count bounds that of every eligible candidate -/
theorem curlyAfterSvc_selected_max {routes : List Route} {req : Req} {s r : Nat} {ps : Params}
    (h : curlyAfterSvc E routes req = .selected s r ps) :
    ∃ rt ∈ routes, rt.svc = s ∧ rt.id = r ∧ Params.extract rt req.path = some ps ∧
      ∃ p st, Curly.matchTokens E rt.pathParts (tokenize req.path) rt.hasCustomVerb = .yes p st ∧
        ∀ rt' ∈ routes, ∀ p' st', Curly.matchTokens E rt'.pathParts (tokenize req.path) rt'.hasCustomVerb = .yes p' st' →
          Spec.eligible rt' req = true → st' ≤ st := by
  unfold curlyAfterSvc at h
  split at h
  · simp at h
  · simp at h
  · rename_i cands _ hsel
    split at h
    · simp at h
    · rename_i rt hdet
      split at h
      · simp at h
      · rename_i ps' hext
        simp only [Outcome.selected.injEq] at h
        obtain ⟨h1, h2, h3⟩ := h
        subst h3
        unfold Curly.selectRoutes at hsel
        cases hc : Curly.candidates E routes (tokenize req.path) with
        | none => simp [hc] at hsel
        | some cs =>
          simp only [hc, Option.map_some, Option.some.injEq] at hsel
          obtain ⟨rest, h4⟩ := detectRoute_ok_head hdet
          rw [stage4_eq_filter, ← hsel] at h4
          obtain ⟨l1, c, l2, hL, hcr, hl1⟩ := filter_map_head _ _ _ h4
          have hperm := Sort.insertionSort_perm Curly.candLess cs
          have hsorted := Curly.sort_candLess_sorted cs
          rw [hL] at hperm hsorted
          have hcmem : c ∈ cs := hperm.subset (by simp)
          have hcf := Curly.candidates_mem E hc c hcmem
          rw [hcr] at hcf
          refine ⟨rt, hcf.1, h1, h2, hext, c.paramCount, c.staticCount, hcf.2, ?_⟩
          intro rt' hrt' p' st' hm' hel'
          have hc' : (⟨rt', p', st'⟩ : Curly.Cand) ∈ l1 ++ c :: l2 :=
            hperm.symm.subset (Curly.candidates_complete E hc hrt' hm')
          rw [List.mem_append, List.mem_cons] at hc'
          rcases hc' with hc' | hc' | hc'
          · have := hl1 _ hc'
            simp only at this
            rw [hel'] at this
            exact absurd this (by simp)
          · rw [← hc']; exact Nat.le_refl _
          · rw [List.pairwise_append] at hsorted
            have := (List.pairwise_cons.mp hsorted.2.1).1 _ hc'
            rw [Curly.candLess_eq_false_iff] at this
            simp only at this
            omega

/-- the facts about a `selected` outcome of `routeCurly` that (4) and (4') rest on -/
theorem routeCurly_selected_max {cfg : Config} {req : Req} {s r : Nat} {ps : Params}
    (h : (routeCurly E cfg req).1 = .selected s r ps) :
    ∃ svc ∈ cfg.services, ∃ rt ∈ svc.built, svc.id = s ∧ rt.id = r ∧
      ∃ p st, Curly.matchTokens E rt.pathParts (tokenize req.path) rt.hasCustomVerb = .yes p st ∧
        ∀ rt' ∈ svc.built, ∀ p' st', Curly.matchTokens E rt'.pathParts (tokenize req.path) rt'.hasCustomVerb = .yes p' st' →
          Spec.eligible rt' req = true → st' ≤ st := by
  rw [routeCurly_fst] at h
  split at h
  · simp at h
  · simp at h
  · rename_i svc sc hsvc
    have hsvcmem : svc ∈ cfg.services := Curly.detectWebService_mem_none E hsvc
    obtain ⟨rt, hrt, h1, h2, _, p, st, hm, hmax⟩ := curlyAfterSvc_selected_max E h
    exact ⟨svc, hsvcmem, rt, hrt, by rw [← Service.built_svc svc hrt]; exact h1, h2, p, st, hm, hmax⟩

/-- **C03 (CurlyRouter), never less specific**: the static count of any other matching, eligible
    route of the detected service is at most that of the selected one -/
theorem C03_curly_never_less_specific (E : ReEnv) (cfg : Config) (req : Req) (s r : Nat) (ps : Params)
    (h : (routeCurly E cfg req).1 = .selected s r ps) :
    ∃ svc ∈ cfg.services, ∃ rt ∈ svc.built, svc.id = s ∧ rt.id = r ∧
      ∀ rt' ∈ svc.built, ∀ p' st', Curly.matchTokens E rt'.pathParts (tokenize req.path) rt'.hasCustomVerb = .yes p' st' →
        Spec.eligible rt' req = true →
        ∀ p st, Curly.matchTokens E rt.pathParts (tokenize req.path) rt.hasCustomVerb = .yes p st → st' ≤ st := by
  obtain ⟨svc, hsvc, rt, hrt, h1, h2, p0, st0, hm0, hmax⟩ := routeCurly_selected_max E h
  refine ⟨svc, hsvc, rt, hrt, h1, h2, ?_⟩
  intro rt' hrt' p' st' hm' hel' p st hm
  rw [hm0] at hm
  simp only [Curly.MatchResult.yes.injEq] at hm
  rw [← hm.2]
  exact hmax rt' hrt' p' st' hm' hel'

theorem matchTokens_of_template (svc : Service) {rt : Route} (hrt : rt ∈ svc.built) {ts : List TTok}
    (hts : readTemplate rt.path = some ts) (qs : List Str) :
    Curly.matchTokens E rt.pathParts qs rt.hasCustomVerb =
      if Spec.admits E .curly ts qs = true then .yes (paramCount ts) (staticCount ts) else .no := by
  obtain ⟨hr, hwf, hshape, hverb, _⟩ := readTemplate_facts hts
  obtain ⟨hp, hv⟩ := built_pathParts svc hrt
  rw [hp, hv, ← hr, hverb]
  exact Curly.matchTokens_spec E ts hwf hshape qs

set_option linter.unusedVariables false in
/-- **C03 (CurlyRouter), never less specific, on structured templates**: no eligible route of the
    detected service that admits the request is more specific than the selected one -/
theorem C03_curly_never_less_specific' (E : ReEnv) (cfg : Config) (hwf : cfg.wfTemplates = true) (hk : cfg.router = .curly)
    (req : Req) (s r : Nat) (ps : Params) (h : (routeCurly E cfg req).1 = .selected s r ps) :
    ∃ svc ∈ cfg.services, ∃ rt ∈ svc.built, svc.id = s ∧ rt.id = r ∧
      ∀ rt' ∈ svc.built, ∀ ts ts', readTemplate rt.path = some ts → readTemplate rt'.path = some ts' →
        Spec.admits E .curly ts' (tokenize req.path) = true → Spec.eligible rt' req = true →
        Spec.moreSpecific ts' ts = false := by
  obtain ⟨svc, hsvc, rt, hrt, h1, h2, p0, st0, hm0, hmax⟩ := routeCurly_selected_max E h
  refine ⟨svc, hsvc, rt, hrt, h1, h2, ?_⟩
  intro rt' hrt' ts ts' hts hts' hadm hel
  have hm' := matchTokens_of_template E svc hrt' hts' (tokenize req.path)
  rw [if_pos hadm] at hm'
  have hm := matchTokens_of_template E svc hrt hts (tokenize req.path)
  rw [hm0] at hm
  have hst : st0 = staticCount ts := by
    split at hm
    · simp only [Curly.MatchResult.yes.injEq] at hm
      exact hm.2
    · simp at hm
  have hle := hmax rt' hrt' _ _ hm' hel
  cases hms : Spec.moreSpecific ts' ts with
  | false => rfl
  | true =>
    have := C03_curly_key ts' ts hms
    omega

/-! ### (5) order independence -/

theorem Spec.sameOutcome_refl (o : Outcome) : Spec.sameOutcome o o := by
  cases o with
  | selected s r ps => exact ⟨rfl, rfl, rfl⟩
  | error c a =>
    cases a with
    | none => exact rfl
    | some al => exact ⟨rfl, fun _ => Iff.rfl⟩
  | panic w => trivial

/-- for a route list whose (method, path) pairs are distinct, what happens after the WebService is
    detected does not depend on the order of the routes -/
theorem curlyAfterSvc_perm {routes routes' : List Route} (hp : routes.Perm routes')
    (hd : routes.Pairwise (fun a b => a.method = b.method → a.path ≠ b.path)) (req : Req) :
    Spec.sameOutcome (curlyAfterSvc E routes req) (curlyAfterSvc E routes' req) := by
  have hcp := Curly.candidates_perm E hp (tokenize req.path)
  unfold curlyAfterSvc Curly.selectRoutes
  cases hc : Curly.candidates E routes (tokenize req.path) with
  | none =>
    cases hc' : Curly.candidates E routes' (tokenize req.path) with
    | none => simp [Spec.sameOutcome]
    | some cs' => simp [hc, hc'] at hcp
  | some cs =>
    cases hc' : Curly.candidates E routes' (tokenize req.path) with
    | none => simp [hc, hc'] at hcp
    | some cs' =>
      simp only [hc, hc'] at hcp
      simp only [Option.map_some]
      -- the two sorted candidate lists
      have hL := Sort.insertionSort_perm Curly.candLess cs
      have hL' := Sort.insertionSort_perm Curly.candLess cs'
      have hLL' : (Sort.insertionSort Curly.candLess cs).Perm (Sort.insertionSort Curly.candLess cs') :=
        hL.trans (hcp.trans hL'.symm)
      have hS := Curly.sort_candLess_sorted cs
      have hS' := Curly.sort_candLess_sorted cs'
      generalize Sort.insertionSort Curly.candLess cs = L at hL hLL' hS
      generalize Sort.insertionSort Curly.candLess cs' = L' at hL' hLL' hS'
      -- their eligible parts are equal
      have hfilt : L.filter ((Spec.eligible · req) ∘ (·.route)) = L'.filter ((Spec.eligible · req) ∘ (·.route)) := by
        refine List.Perm.eq_of_pairwise (le := fun a b => Curly.candLess b a = false) ?_
          (hS.filter _) (hS'.filter _) (hLL'.filter _)
        intro a b ha hb hab hba
        rw [List.mem_filter] at ha hb
        have ha' : a ∈ cs := hL.subset ha.1
        have hb' : b ∈ cs' := hL'.subset hb.1
        have hkey := Curly.candLess_antisymm a b hba hab
        have har := (Curly.candidates_mem E hc a ha').1
        have hbr : b.route ∈ routes := hp.symm.subset (Curly.candidates_mem E hc' b hb').1
        have hea := ha.2
        have heb := hb.2
        simp only [Function.comp, Spec.eligible, Bool.and_eq_true, decide_eq_true_eq] at hea heb
        have hroute : a.route = b.route := by
          apply pairwise_eq_of_not hd har hbr
          · intro hn; exact hn (by rw [← hea.1.1.2, ← heb.1.1.2]) hkey.2.2
          · intro hn; exact hn (by rw [← hea.1.1.2, ← heb.1.1.2]) hkey.2.2.symm
        exact Curly.cand_ext_of_mem E hc hc' ha' hb' hroute
      have h4 : stage4 (L.map (·.route)) req = stage4 (L'.map (·.route)) req := by
        rw [stage4_eq_filter, stage4_eq_filter, List.filter_map, List.filter_map, hfilt]
      have hmp : (L.map (·.route)).Perm (L'.map (·.route)) := hLL'.map _
      have hdet := detectRoute_perm hmp req h4
      generalize L.map (·.route) = cands at hmp hdet
      generalize L'.map (·.route) = cands' at hmp hdet
      cases cands with
      | nil =>
        have := hmp.nil_eq
        subst this
        simp [Spec.sameOutcome]
      | cons x xs =>
        cases cands' with
        | nil => exact absurd hmp.eq_nil (by simp)
        | cons y ys =>
          simp only
          generalize detectRoute (x :: xs) req = d at hdet
          generalize detectRoute (y :: ys) req = d' at hdet
          match d, d', hdet with
          | .ok r, .ok r', hdet =>
            simp only [detectRel] at hdet
            subst hdet
            exact Spec.sameOutcome_refl _
          | .error (c, some al), .error (c', some al'), hdet => exact hdet
          | .error (c, none), .error (c', none), hdet => exact hdet
          | .ok _, .error _, hdet => simp [detectRel] at hdet
          | .error (_, none), .ok _, hdet => simp [detectRel] at hdet
          | .error (_, some _), .ok _, hdet => simp [detectRel] at hdet
          | .error (_, none), .error (_, some _), hdet => simp [detectRel] at hdet
          | .error (_, some _), .error (_, none), hdet => simp [detectRel] at hdet

/-- services that `CfgPerm` pairs have the same root and permuted built routes -/
theorem built_perm_of_rel {s s' : Service}
    (h : s.id = s'.id ∧ s.root = s'.root ∧ s.consumes = s'.consumes ∧ s.produces = s'.produces ∧ s.routes.Perm s'.routes) :
    s.rootPath = s'.rootPath ∧ s.built.Perm s'.built := by
  obtain ⟨h1, h2, h3, h4, h5⟩ := h
  have hroot : s.rootPath = s'.rootPath := by simp [Service.rootPath, h2]
  refine ⟨hroot, ?_⟩
  have hb : s.build = s'.build := by
    funext r
    simp [Service.build, Service.consumesOf, Service.producesOf, h1, hroot, h3, h4]
  unfold Service.built
  rw [hb]
  exact h5.map _

/-- no two services whose roots both CLAIM the request (faithful score, root expressions
    evaluated) score equally; weaker than `Spec.scoresSeparate`, which speaks about the arithmetic -/
def Curly.ScoresSeparateE (cfg : Config) (req : Req) : Prop :=
  cfg.services.Pairwise (fun a b => ∀ sa sb,
    Curly.wsScoreE E (tokenize req.path) (tokenize a.rootPath) = .yes sa →
    Curly.wsScoreE E (tokenize req.path) (tokenize b.rootPath) = .yes sb → sa ≠ sb)

theorem Curly.scoresSeparateE_of {cfg : Config} {req : Req} (hs : Spec.scoresSeparate cfg req) :
    Curly.ScoresSeparateE E cfg req := by
  refine List.Pairwise.imp ?_ hs
  intro a b hab sa sb ha hb
  exact hab sa sb (Curly.wsScore_of_wsScoreE E ha) (Curly.wsScore_of_wsScoreE E hb)

/-- under `ScoresSeparateE` the detected WebService is the same (up to the order of its routes)
    for every order of registration; scoring panics for one order iff it does for the other -/
theorem detectWebService_perm {cfg cfg' : Config} (hperm : Spec.CfgPerm cfg cfg') (req : Req)
    (hs : Curly.ScoresSeparateE E cfg req) :
    match Curly.detectWebService E (tokenize req.path) cfg.services none,
          Curly.detectWebService E (tokenize req.path) cfg'.services none with
    | none, none => True
    | some none, some none => True
    | some (some (s, _)), some (some (s', _)) => s ∈ cfg.services ∧ s.built.Perm s'.built
    | _, _ => False := by
  obtain ⟨_, svcs, hsp, hf⟩ := hperm
  -- a panic does not depend on the order
  have hpanic : Curly.detectWebService E (tokenize req.path) cfg.services none = none ↔
      Curly.detectWebService E (tokenize req.path) cfg'.services none = none := by
    rw [Curly.detectWebService_panic, Curly.detectWebService_panic]
    constructor
    · rintro ⟨s, hs, hp⟩
      obtain ⟨s', hs', hrel⟩ := Spec.Forall2.left hf s (hsp.symm.subset hs)
      exact ⟨s', hs', by rw [Curly.svcScoreE, ← (built_perm_of_rel hrel).1]; exact hp⟩
    · rintro ⟨s', hs', hp⟩
      obtain ⟨s, hs, hrel⟩ := Spec.Forall2.right hf s' hs'
      exact ⟨s, hsp.subset hs, by rw [Curly.svcScoreE, (built_perm_of_rel hrel).1]; exact hp⟩
  cases h1 : Curly.detectWebService E (tokenize req.path) cfg.services none with
  | none =>
    rw [hpanic.mp h1]
    trivial
  | some d1 =>
    cases h2 : Curly.detectWebService E (tokenize req.path) cfg'.services none with
    | none =>
      rw [hpanic.mpr h2] at h1
      cases h1
    | some d2 =>
      cases d1 with
      | none =>
        cases d2 with
        | none => trivial
        | some x =>
          obtain ⟨s', sc'⟩ := x
          exfalso
          have hmax' := Curly.detectWebService_max E _ _ _ _ h2
          obtain ⟨s0, hs0, hrel⟩ := Spec.Forall2.right hf s' (Curly.detectWebService_mem_none E h2)
          have h0 := ((Curly.detectWebService_none E _ _ _).mp h1).2 s0 (hsp.subset hs0)
          rw [Curly.svcScoreE, (built_perm_of_rel hrel).1, hmax'.1] at h0
          cases h0
      | some x =>
        obtain ⟨s, sc⟩ := x
        have hmax := Curly.detectWebService_max E _ _ _ _ h1
        have hsm := Curly.detectWebService_mem_none E h1
        obtain ⟨s1', hs1', hrel1⟩ := Spec.Forall2.left hf s (hsp.symm.subset hsm)
        have hsc1 : Curly.svcScoreE E (tokenize req.path) s1' = .yes sc := by
          rw [Curly.svcScoreE, ← (built_perm_of_rel hrel1).1]; exact hmax.1
        cases d2 with
        | none =>
          have h0 := ((Curly.detectWebService_none E _ _ _).mp h2).2 s1' hs1'
          rw [hsc1] at h0
          cases h0
        | some x' =>
          obtain ⟨s', sc'⟩ := x'
          have hmax' := Curly.detectWebService_max E _ _ _ _ h2
          obtain ⟨s0, hs0, hrel⟩ := Spec.Forall2.right hf s' (Curly.detectWebService_mem_none E h2)
          have hs0m : s0 ∈ cfg.services := hsp.subset hs0
          have hsc0 : Curly.wsScoreE E (tokenize req.path) (tokenize s0.rootPath) = .yes sc' := by
            rw [(built_perm_of_rel hrel).1]; exact hmax'.1
          have le1 : sc' ≤ sc := hmax.2 s0 hs0m sc' hsc0
          have le2 : sc ≤ sc' := hmax'.2 s1' hs1' sc hsc1
          have hsc : sc' = sc := by omega
          subst hsc
          have hss0 : s = s0 := by
            apply pairwise_eq_of_not hs hsm hs0m
            · intro hn; exact hn _ _ hmax.1 hsc0 rfl
            · intro hn; exact hn _ _ hsc0 hmax.1 rfl
          subst hss0
          exact ⟨hsm, (built_perm_of_rel hrel).2⟩

/-- **C03 (CurlyRouter), order independence**, under the weaker separation hypothesis on the
    faithful scores -/
theorem C03_curly_order_E (E : ReEnv) (cfg cfg' : Config) (hperm : Spec.CfgPerm cfg cfg')
    (hd : Spec.distinctMethodPath cfg) (req : Req) (hs : Curly.ScoresSeparateE E cfg req) :
    Spec.sameOutcome (routeCurly E cfg req).1 (routeCurly E cfg' req).1 := by
  have hdet := detectWebService_perm E hperm req hs
  rw [routeCurly_fst, routeCurly_fst]
  cases h1 : Curly.detectWebService E (tokenize req.path) cfg.services none with
  | none =>
    cases h2 : Curly.detectWebService E (tokenize req.path) cfg'.services none with
    | none => simp [Spec.sameOutcome]
    | some x' => cases x' <;> simp [h1, h2] at hdet
  | some x =>
    cases h2 : Curly.detectWebService E (tokenize req.path) cfg'.services none with
    | none => cases x <;> simp [h1, h2] at hdet
    | some x' =>
      cases x with
      | none =>
        cases x' with
        | none => simp [Spec.sameOutcome]
        | some y' => simp [h1, h2] at hdet
      | some y =>
        cases x' with
        | none => simp [h1, h2] at hdet
        | some y' =>
          obtain ⟨s, sc⟩ := y
          obtain ⟨s', sc'⟩ := y'
          simp only [h1, h2] at hdet
          exact curlyAfterSvc_perm E hdet.2 (hd s hdet.1) req

/-- **C03 (CurlyRouter), order independence**: for a route table whose (method, template) pairs are
    distinct within each WebService, and a request on which no two matching WebService roots score
    equally, the outcome is the same for every order in which the WebServices and their routes were
    registered -/
theorem C03_curly_order (E : ReEnv) (cfg cfg' : Config) (hperm : Spec.CfgPerm cfg cfg')
    (hd : Spec.distinctMethodPath cfg) (req : Req) (hs : Spec.scoresSeparate cfg req) :
    Spec.sameOutcome (routeCurly E cfg req).1 (routeCurly E cfg' req).1 :=
  C03_curly_order_E E cfg cfg' hperm hd req (Curly.scoresSeparateE_of E hs)

end Restful

/-! ### non-vacuity of `C03_curly_order` -/
namespace Restful.C03Example

def rGet (id : Nat) (p : String) : RouteDecl :=
  { id := id, method := "GET".toList, relPath := p.toList, consumes := [], produces := [], conds := [], noct := [] }

/-- `/users` with `GET /{id}`, `GET /me`, `POST /{id}` -/
def users : Service :=
  { id := 1, root := "/users".toList,
    routes := [rGet 10 "/{id}", rGet 11 "/me", { rGet 12 "/{id}" with method := "POST".toList }] }
/-- the same service with its routes registered in another order -/
def users' : Service :=
  { id := 1, root := "/users".toList,
    routes := [{ rGet 12 "/{id}" with method := "POST".toList }, rGet 11 "/me", rGet 10 "/{id}"] }
/-- `/{tenant}` with `GET /{thing}` -/
def tenants : Service := { id := 2, root := "/{tenant}".toList, routes := [rGet 20 "/{thing}"] }

def cfg : Config := { router := .curly, services := [users, tenants] }
def cfg' : Config := { router := .curly, services := [tenants, users'] }
def req : Req := { method := "GET".toList, path := "/users/me".toList }
def E0 : ReEnv := ⟨fun _ _ => true, fun _ _ => true⟩

theorem cfgPerm : Spec.CfgPerm cfg cfg' := by
  refine ⟨rfl, [tenants, users], by decide, ?_⟩
  exact .cons ⟨rfl, rfl, rfl, rfl, List.Perm.refl _⟩ (.cons ⟨rfl, rfl, rfl, rfl, by decide⟩ .nil)

theorem distinct : Spec.distinctMethodPath cfg := by
  unfold Spec.distinctMethodPath
  decide

theorem separate : Spec.scoresSeparate cfg req := by
  have h1 : Curly.wsScore (tokenize req.path) (tokenize users.rootPath) = some 10 := by decide
  have h2 : Curly.wsScore (tokenize req.path) (tokenize tenants.rootPath) = some 1 := by decide
  unfold Spec.scoresSeparate
  simp only [cfg, List.pairwise_cons, List.mem_cons, List.not_mem_nil, or_false, forall_eq,
    false_imp_iff, implies_true, List.Pairwise.nil, and_true]
  intro sa sb ha hb
  rw [h1] at ha
  rw [h2] at hb
  simp only [Option.some.injEq] at ha hb
  omega

/-- the hypotheses of `C03_curly_order` hold of a concrete pair of configurations and a request,
    the two registrations are different, and the common outcome is a selected route
    (the literal `/users/me` of the literal root `/users`) -/
example : Spec.CfgPerm cfg cfg' ∧ Spec.distinctMethodPath cfg ∧ Spec.scoresSeparate cfg req ∧
    cfg ≠ cfg' ∧ (routeCurly E0 cfg req).1 = .selected 1 11 [] ∧
    Spec.sameOutcome (routeCurly E0 cfg req).1 (routeCurly E0 cfg' req).1 :=
  ⟨cfgPerm, distinct, separate, by decide, by decide,
    C03_curly_order E0 cfg cfg' cfgPerm distinct req separate⟩

end Restful.C03Example
