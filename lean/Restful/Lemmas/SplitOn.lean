/-
String-level facts used by the RouterJSR311 theorems: how `split '/'` unfolds along
`takeWhile`/`dropWhile`, the identity cases of the trims, `idxOf?` on rendered tokens.
-/
import Restful.Go.Str
import Restful.Model.Path
namespace Restful
open Str

namespace Str

/-- the text up to the next `c` -/
abbrev upTo (c : Char) (r : Str) : Str := r.takeWhile (· != c)
/-- the text from the next `c` on (empty, or starting with `c`) -/
abbrev from_ (c : Char) (r : Str) : Str := r.dropWhile (· != c)

theorem not_mem_takeWhile_ne (c : Char) (r : Str) : c ∉ r.takeWhile (· != c) := by
  induction r with
  | nil => simp
  | cons x xs ih =>
    by_cases h : x = c
    · subst h; simp
    · simp [h, ih]
      exact fun h' => h h'.symm

theorem dropWhile_ne_cases (c : Char) (r : Str) :
    r.dropWhile (· != c) = [] ∨ ∃ r', r.dropWhile (· != c) = c :: r' := by
  induction r with
  | nil => simp
  | cons x xs ih =>
    by_cases h : x = c
    · subst h; right; exact ⟨xs, by simp⟩
    · simpa [List.dropWhile_cons, h] using ih

/-- `strings.Split(r, "/")` = the text up to the first slash, then the split of what follows it -/
theorem split_eq (c : Char) (r : Str) :
    split c r = r.takeWhile (· != c) ::
      (match r.dropWhile (· != c) with
       | [] => []
       | _ :: r' => split c r') := by
  have hr : r.takeWhile (· != c) ++ r.dropWhile (· != c) = r := List.takeWhile_append_dropWhile
  have hn := not_mem_takeWhile_ne c r
  rcases dropWhile_ne_cases c r with h | ⟨r', h⟩
  · rw [h]
    rw [h, List.append_nil] at hr
    rw [hr] at hn ⊢
    exact List.splitOn_eq_singleton hn
  · rw [h]
    rw [h] at hr
    show List.splitOn c r = _
    conv => lhs; rw [← hr]
    exact List.splitOn_append_cons_self_of_not_mem hn r'

theorem split_ne_nil (c : Char) (r : Str) : split c r ≠ [] := List.splitOn_ne_nil c r

theorem join_split (c : Char) (r : Str) : join [c] (split c r) = r := List.intercalate_splitOn c

/-- taking up to `c` in `l ++ rest` where `l` is free of `c` and `rest` is empty or starts with `c` -/
theorem takeWhile_ne_append {c : Char} {l rest : Str} (hl : c ∉ l)
    (hrest : rest = [] ∨ ∃ r', rest = c :: r') :
    (l ++ rest).takeWhile (· != c) = l ∧ (l ++ rest).dropWhile (· != c) = rest := by
  induction l with
  | nil =>
    rcases hrest with rfl | ⟨r', rfl⟩ <;> simp
  | cons x xs ih =>
    simp only [List.mem_cons, not_or] at hl
    have hx : x ≠ c := fun h => hl.1 h.symm
    have := ih hl.2
    simp [hx, this.1, this.2]

theorem dropWhile_eq_self_of_head {p : Char → Bool} {s : Str} (h : ∀ x, s.head? = some x → p x = false) :
    s.dropWhile p = s := by
  cases s with
  | nil => rfl
  | cons x xs => simp [h x rfl]

theorem trimLeft_id {c : Char} {s : Str} (h : s.head? ≠ some c) : trimLeft c s = s := by
  apply dropWhile_eq_self_of_head
  intro x hx
  simp only [beq_eq_false_iff_ne, ne_eq]
  rintro rfl
  exact h hx

theorem trimRight_id {c : Char} {s : Str} (h : s.getLast? ≠ some c) : trimRight c s = s := by
  unfold trimRight
  rw [dropWhile_eq_self_of_head, List.reverse_reverse]
  intro x hx
  simp only [beq_eq_false_iff_ne, ne_eq]
  rintro rfl
  rw [List.head?_reverse] at hx
  exact h hx

theorem trim_id {c : Char} {s : Str} (h1 : s.head? ≠ some c) (h2 : s.getLast? ≠ some c) : trim c s = s := by
  unfold trim
  rw [trimLeft_id h1, trimRight_id h2]

theorem trim_id_of_not_mem {c : Char} {s : Str} (h : c ∉ s) : trim c s = s := by
  apply trim_id
  · intro hh; exact h (List.mem_of_head? hh)
  · intro hh; exact h (List.mem_of_getLast? hh)

theorem idxOf?_append_cons {c : Char} {l rest : Str} (hl : c ∉ l) :
    (l ++ c :: rest).idxOf? c = some l.length := by
  induction l with
  | nil => simp [List.idxOf?_cons]
  | cons x xs ih =>
    simp only [List.mem_cons, not_or] at hl
    have hx : x ≠ c := fun h => hl.1 h.symm
    simp [List.idxOf?_cons, hx, ih hl.2]

theorem idxOf?_none {c : Char} {l : Str} (hl : c ∉ l) : l.idxOf? c = none := by
  induction l with
  | nil => simp
  | cons x xs ih =>
    simp only [List.mem_cons, not_or] at hl
    have hx : x ≠ c := fun h => hl.1 h.symm
    simp [List.idxOf?_cons, hx, ih hl.2]

end Str
end Restful
