/-
C02, step 1: the header loops of route.go (`matchesAccept`, `matchesContentType`) decide exactly the
declarative `Spec.acceptOK` / `Spec.consumesOK` once no Produces/Consumes entry is the empty string.

The loops stop before one trailing empty piece (`remainingEmpty`).  Its media type is `""`, which
is neither `*/*` nor — under hygiene — a declared type; it can only "match" a declared `*/*`, and
then the first piece has matched already.
-/
import Restful.Lemmas.Detect
namespace Restful
open Str

theorem mediaOf_nil : mediaOf [] = [] := by decide

/-- the declarative test on one piece of an `Accept` header -/
abbrev acceptPieceOK (produces : List Str) (piece : Str) : Bool :=
  mediaOf piece == starStar || produces.any (fun p => p == starStar || p == mediaOf piece)

/-- the declarative test on one piece of a `Content-Type` header -/
abbrev consumePieceOK (consumes : List Str) (piece : Str) : Bool :=
  consumes.any (fun c => c == starStar || c == mediaOf piece)

/-- a declared `*/*` matches every piece -/
theorem any_star_of_any_nil {l : List Str} (hne : ∀ p ∈ l, p ≠ []) {mt : Str}
    (h : l.any (fun p => p == starStar || p == ([] : Str)) = true) :
    l.any (fun p => p == starStar || p == mt) = true := by
  rw [List.any_eq_true] at h ⊢
  obtain ⟨p, hp, hpp⟩ := h
  refine ⟨p, hp, ?_⟩
  simp only [Bool.or_eq_true, beq_iff_eq] at hpp ⊢
  rcases hpp with h1 | h1
  · exact Or.inl h1
  · exact absurd h1 (hne p hp)

theorem remainingEmpty_cases {rest : List Str} (h : remainingEmpty rest = true) : rest = [] ∨ rest = [[]] := by
  match rest, h with
  | [], _ => exact Or.inl rfl
  | [p], h =>
    simp only [remainingEmpty, List.isEmpty_iff] at h
    subst h
    exact Or.inr rfl
  | _ :: _ :: _, h => simp [remainingEmpty] at h

/-- converse of `acceptLoop_sound` under hygiene -/
theorem acceptLoop_complete (produces pieces : List Str) (hne : ∀ p ∈ produces, p ≠ [])
    (h : pieces.any (fun piece => mediaOf piece == starStar ||
      produces.any (fun p => p == starStar || p == mediaOf piece)) = true) :
    acceptLoop produces pieces = true := by
  induction pieces with
  | nil => simp at h
  | cons piece rest ih =>
    unfold acceptLoop
    simp only [List.any_cons, Bool.or_eq_true] at h
    by_cases h1 : mediaOf piece = starStar
    · simp [h1]
    · by_cases h2 : produces.any (fun p => decide (p = starStar) || decide (p = mediaOf piece)) = true
      · simp [h2]
      · simp only [h1, if_false, h2]
        have h2' : ¬ produces.any (fun p => p == starStar || p == mediaOf piece) = true := by
          simpa [beq_iff_eq] using h2
        have hrest : rest.any (fun piece => mediaOf piece == starStar ||
            produces.any (fun p => p == starStar || p == mediaOf piece)) = true := by
          rcases h with (h | h) | h
          · exact absurd (by simpa using h) h1
          · exact absurd h h2'
          · exact h
        by_cases h3 : remainingEmpty rest = true
        · exfalso
          rcases remainingEmpty_cases h3 with rfl | rfl
          · simp at hrest
          · simp only [List.any_cons, List.any_nil, Bool.or_false, mediaOf_nil, Bool.or_eq_true] at hrest
            rcases hrest with h | h
            · exact absurd h (by decide)
            · exact h2' (any_star_of_any_nil hne h)
        · simp only [h3]
          exact ih hrest

/-- converse of `consumeLoop_sound` under hygiene -/
theorem consumeLoop_complete (consumes pieces : List Str) (hne : ∀ c ∈ consumes, c ≠ [])
    (h : pieces.any (fun piece => consumes.any (fun c => c == starStar || c == mediaOf piece)) = true) :
    consumeLoop consumes pieces = true := by
  induction pieces with
  | nil => simp at h
  | cons piece rest ih =>
    unfold consumeLoop
    simp only [List.any_cons, Bool.or_eq_true] at h
    by_cases h2 : consumes.any (fun c => decide (c = starStar) || decide (c = mediaOf piece)) = true
    · simp [h2]
    · simp only [h2]
      have h2' : ¬ consumes.any (fun c => c == starStar || c == mediaOf piece) = true := by
        simpa [beq_iff_eq] using h2
      have hrest : rest.any (fun piece => consumes.any (fun c => c == starStar || c == mediaOf piece)) = true := by
        rcases h with h | h
        · exact absurd h h2'
        · exact h
      by_cases h3 : remainingEmpty rest = true
      · exfalso
        rcases remainingEmpty_cases h3 with rfl | rfl
        · simp at hrest
        · simp only [List.any_cons, List.any_nil, Bool.or_false, mediaOf_nil] at hrest
          exact h2' (any_star_of_any_nil hne hrest)
      · simp only [h3]
        exact ih hrest

theorem acceptLoop_iff (produces pieces : List Str) (hne : ∀ p ∈ produces, p ≠ []) :
    acceptLoop produces pieces = pieces.any (fun piece => mediaOf piece == starStar ||
      produces.any (fun p => p == starStar || p == mediaOf piece)) := by
  rw [Bool.eq_iff_iff]
  exact ⟨acceptLoop_sound _ _, acceptLoop_complete _ _ hne⟩

theorem consumeLoop_iff (consumes pieces : List Str) (hne : ∀ c ∈ consumes, c ≠ []) :
    consumeLoop consumes pieces =
      pieces.any (fun piece => consumes.any (fun c => c == starStar || c == mediaOf piece)) := by
  rw [Bool.eq_iff_iff]
  exact ⟨consumeLoop_sound _ _, consumeLoop_complete _ _ hne⟩

/-- `Route.matchesAccept` decides `Spec.acceptOK` when no Produces entry is empty -/
theorem matchesAccept_iff (r : Route) (accept : Str) (hne : ∀ p ∈ r.produces, p ≠ []) :
    matchesAccept r (if accept.isEmpty then starStar else accept) = Spec.acceptOK r.produces accept := by
  unfold matchesAccept Spec.acceptOK
  exact acceptLoop_iff _ _ hne

/-- `Route.matchesContentType` decides `Spec.consumesOK` when no Consumes entry is empty -/
theorem matchesContentType_iff (r : Route) (ct : Str) (hne : ∀ c ∈ r.consumes, c ≠ []) :
    matchesContentType r ct = Spec.consumesOK r ct := by
  unfold matchesContentType Spec.consumesOK Spec.consumesAny
  by_cases h0 : r.consumes.isEmpty = true
  · simp [h0]
  · simp only [h0, Bool.false_or, Bool.false_eq_true, if_false]
    by_cases h1 : ct.isEmpty = true
    · simp only [h1, if_true]
      rw [consumeLoop_iff _ _ hne]
      by_cases hc : (if (!r.noct.isEmpty) = true then r.noct.contains r.method else idempotentMethods.contains r.method) = true
      · rw [if_pos hc, hc]; rfl
      · rw [if_neg hc]
        simp only [Bool.not_eq_true] at hc
        rw [hc]; rfl
    · simp only [h1, Bool.false_eq_true, if_false]
      exact consumeLoop_iff _ _ hne

/-- why hygiene is needed: with an empty Produces entry, `Accept: a/b,` (one trailing comma) is
    satisfiable declaratively (the empty range names the empty type) but the loop never looks at it -/
theorem matchesAccept_iff_needs_hygiene :
    acceptLoop [[]] (split ',' "a/b,".toList) = false ∧
      Spec.acceptOK [[]] "a/b,".toList = true := by
  decide

end Restful
