import Restful.Lemmas.TieImp
import Restful.Lemmas.TieImpBridge
import Restful.Model.Mime
import Restful.Lemmas.SplitOn
namespace Restful
namespace TieImp
namespace T15
open Imp

/-- insertion before the first element satisfying `p`, else at the end -/
def insP {α : Type} (p : α → Bool) : List α → α → List α
  | [], e => [e]
  | x :: xs, e => if p x then e :: x :: xs else x :: insP p xs e

theorem insP_of_not_any {α : Type} (p : α → Bool) (l : List α) (e : α) (h : l.any p = false) :
    insP p l e = l ++ [e] := by
  induction l with
  | nil => rfl
  | cons x xs ih =>
    simp only [List.any_cons, Bool.or_eq_false_iff] at h
    simp [insP, h.1, ih h.2]

theorem slice_zero_append {α : Type} (l r : List α) : slice (l ++ r) 0 (l.length : Int) = some l := by
  simp [slice]; omega

theorem sliceFrom_append {α : Type} (l r : List α) : sliceFrom (l ++ r) (l.length : Int) = some r := by
  rw [sliceFrom_nat _ _ (by simp)]; simp

/-- `for i, each := range L { if p each { return L[0:i] ++ [e] ++ L[i:] } }` -/
theorem ins_loop {α : Type} (p : α → Bool) (e : α) (L : List α)
    (f : Int × α → Option (List α) × Unit → Option (ForInStep (Option (List α) × Unit)))
    (hf : ∀ pre x rest, L = pre ++ x :: rest → f ((pre.length : Int), x) (none, ()) =
      some (if p x then .done (some (pre ++ e :: x :: rest), ()) else .yield (none, ())))
    (rest pre : List α) (hL : L = pre ++ rest) :
    forIn (enumFrom pre.length rest) (none, ()) f =
      some (if rest.any p then some (pre ++ insP p rest e) else none, ()) := by
  induction rest generalizing pre with
  | nil => simp [enumFrom_nil]
  | cons x xs ih =>
    rw [enumFrom_cons, List.forIn_cons, hf pre x xs hL]
    by_cases hp : p x = true
    · simp [hp, insP]
    · have := ih (pre ++ [x]) (by simp [hL])
      simp only [List.length_append, List.length_cons, List.length_nil, Nat.zero_add] at this
      simp [hp, insP, this]



theorem ins_loop0 {α : Type} (p : α → Bool) (e : α) (L : List α)
    (f : Int × α → Option (List α) × Unit → Option (ForInStep (Option (List α) × Unit)))
    (hf : ∀ pre x rest, L = pre ++ x :: rest → f ((pre.length : Int), x) (none, ()) =
      some (if p x then .done (some (pre ++ e :: x :: rest), ()) else .yield (none, ()))) :
    forIn (enum L) (none, ()) f = some (if L.any p then some (insP p L e) else none, ()) :=
  ins_loop p e L f hf L [] rfl

theorem insertMime_eq (X : ImpGen.Ext) (l : List ImpGen.GoMime) (e : ImpGen.GoMime) :
    ImpGen.insertMime X l e = some (insP (fun x => X.float_gt e.quality x.quality) l e) := by
  unfold ImpGen.insertMime
  simp only [Option.pure_def, Option.bind_eq_bind]
  rw [ins_loop0 (fun x => X.float_gt e.quality x.quality) e l _ ?hf]
  case hf =>
    intro pre x rest hL
    subst hL
    simp only [slice_zero_append, sliceFrom_append, Option.bind_some, push, List.nil_append,
      List.append_assoc, List.cons_append]
    split <;> rfl
  by_cases h : l.any (fun x => X.float_gt e.quality x.quality) = true
  · simp [h]
  · simp only [Bool.not_eq_true] at h
    simp [h, insP_of_not_any _ _ _ h, push]

/-! ### `sortedMimes` -/

/-- what one iteration of the parameter loop does (`break` = `.done`), in the model's terms -/
def paramStep (param : Str) (s : Int × Bool) : ForInStep (Int × Bool) :=
  match Str.split '=' param with
  | [k, v] =>
    if Mime.trimOWS k = Mime.qKey then
      (match Mime.parseQ (Mime.trimOWS v) with
       | some q => .done (((q : Nat) : Int), s.2)
       | none => .done (s.1, false))
    else .yield s
  | _ => .yield s

/-- the result of the parameter loop: `(quality, valid)` -/
def qvOf (ps : List Str) : Int × Bool :=
  match Mime.qualityOf ps with
  | some q => (((q : Nat) : Int), true)
  | none => (1000, false)

theorem param_loop (f : Str → Int × Bool → Option (ForInStep (Int × Bool)))
    (hf : ∀ param s, f param s = some (paramStep param s)) (ps : List Str) :
    forIn ps ((1000 : Int), true) f = some (qvOf ps) := by
  induction ps with
  | nil => rfl
  | cons param rest ih =>
    rw [List.forIn_cons, hf]
    unfold qvOf at ih ⊢
    rcases hs : Str.split '=' param with _ | ⟨k, _ | ⟨v, _ | ⟨w, t⟩⟩⟩
    · simp [paramStep, Mime.qualityOf, hs, ih]
    · simp [paramStep, Mime.qualityOf, hs, ih]
    · simp only [paramStep, Mime.qualityOf, hs]
      by_cases hk : Mime.trimOWS k = Mime.qKey
      · simp only [hk, if_true]
        cases Mime.parseQ (Mime.trimOWS v) <;> rfl
      · simp [hk, ih]
    · simp [paramStep, Mime.qualityOf, hs, ih]

/-- the parameter loop written with early `return`s (a helper `func … (quality, valid)`): what one iteration
    returns, `none` = goes on; after the loop the function returns `(1.0, true)` -/
def paramRet (param : Str) : Option (Int × Bool) :=
  match Str.split '=' param with
  | [k, v] =>
    if Mime.trimOWS k = Mime.qKey then
      (match Mime.parseQ (Mime.trimOWS v) with
       | some q => some (((q : Nat) : Int), true)
       | none => some (1000, false))
    else none
  | _ => none

theorem paramRet_eq (ps : List Str) : (ps.findSome? paramRet).getD (1000, true) = qvOf ps := by
  induction ps with
  | nil => rfl
  | cons param rest ih =>
    unfold qvOf at ih ⊢
    rw [List.findSome?_cons]
    rcases hs : Str.split '=' param with _ | ⟨k, _ | ⟨v, _ | ⟨w, t⟩⟩⟩
    · simp [paramRet, Mime.qualityOf, hs, ih]
    · simp [paramRet, Mime.qualityOf, hs, ih]
    · simp only [paramRet, Mime.qualityOf, hs]
      by_cases hk : Mime.trimOWS k = Mime.qKey
      · simp only [hk, if_true]
        cases Mime.parseQ (Mime.trimOWS v) <;> rfl
      · simp [hk, ih]
    · simp [paramRet, Mime.qualityOf, hs, ih]

/-- a loop that only folds: `for x in l { acc = step acc x }`, seen through a representation `g` -/
theorem fold_loop {α β γ : Type} (g : β → γ) (step : β → α → β) (f : α → γ → Option (ForInStep γ))
    (hf : ∀ x acc, f x (g acc) = some (.yield (g (step acc x)))) (l : List α) (acc : β) :
    forIn l (g acc) f = some (g (l.foldl step acc)) := by
  induction l generalizing acc with
  | nil => rfl
  | cons x xs ih => rw [List.forIn_cons, hf]; exact ih _

theorem at?_zero_cons {α : Type} (x : α) (xs : List α) : at? (x :: xs) 0 = some x := rfl

theorem at?_one_cons {α : Type} (x y : α) (xs : List α) : at? (x :: y :: xs) 1 = some y := rfl

theorem len_two {α : Type} (x y : α) : (len [x, y] == 2) = true := rfl

theorem sliceFrom_one_cons {α : Type} (x : α) (xs : List α) : sliceFrom (x :: xs) 1 = some xs := by
  have := sliceFrom_nat (x :: xs) 1 (by simp)
  simpa using this

/-! ### `Response.EntityWriter` -/

/-- a loop whose iterations either `return` a value or go on -/
theorem findSome_loop {α ρ : Type} (step : α → Option ρ)
    (f : α → Option ρ × Unit → Option (ForInStep (Option ρ × Unit)))
    (hf : ∀ x, f x (none, ()) =
      some (match step x with | some r => .done (some r, ()) | none => .yield (none, ()))) (l : List α) :
    forIn l (none, ()) f = some (l.findSome? step, ()) := by
  induction l with
  | nil => rfl
  | cons x xs ih =>
    rw [List.forIn_cons, hf]
    cases hx : step x with
    | none => simpa [hx] using ih
    | some r => simp [hx]

/-- `findSome_loop` through a representation `g` of the elements -/
theorem findSome_loop_map {α β ρ : Type} (g : β → α) (step : β → Option ρ)
    (f : α → Option ρ × Unit → Option (ForInStep (Option ρ × Unit)))
    (hf : ∀ x, f (g x) (none, ()) =
      some (match step x with | some r => .done (some r, ()) | none => .yield (none, ()))) (l : List β) :
    forIn (l.map g) (none, ()) f = some (l.findSome? step, ()) := by
  induction l with
  | nil => rfl
  | cons x xs ih =>
    rw [List.map_cons, List.forIn_cons, hf]
    cases hx : step x with
    | none => simpa [hx] using ih
    | some r => simp [hx]

/-- `entityAccessRegistry.accessorAt` as the translation sees it, instantiated by the model's -/
def accV (reg : List Str) (idOf : Str → Nat) (m : Str) : GoAccessor × Bool :=
  match Mime.accessorAt reg m with
  | [] => (default, false)
  | k :: _ => (idOf k, true)

/-- the model's answer (a list of at most one key) as the `(w, true)` the code returns early -/
def wv (idOf : Str → Nat) (w : List Str) : Option (GoAccessor × Bool) := w.head?.map (fun k => (idOf k, true))

theorem wv_isNone (idOf : Str → Nat) (w : List Str) : (wv idOf w).isNone = w.isEmpty := by
  cases w <;> rfl

/-- `if w, ok := accessorAt(m); ok { return w, true }` -/
def accStep (reg : List Str) (idOf : Str → Nat) (m : Str) : Option (GoAccessor × Bool) :=
  if (accV reg idOf m).snd then some ((accV reg idOf m).fst, true) else none

theorem accStep_eq (reg : List Str) (idOf : Str → Nat) (m : Str) :
    accStep reg idOf m = wv idOf (Mime.accessorAt reg m) := by
  unfold accStep accV wv
  cases Mime.accessorAt reg m <;> rfl

theorem firstProduced_eq (reg : List Str) (idOf : Str → Nat) (p : List Str) :
    p.findSome? (accStep reg idOf) = wv idOf (Mime.firstProduced reg p) := by
  induction p with
  | nil => rfl
  | cons x xs ih =>
    rw [List.findSome?_cons, accStep_eq, Mime.firstProduced]
    cases h : Mime.accessorAt reg x with
    | nil => simpa [wv] using ih
    | cons k t => simp [wv]

theorem walkProduces_eq (reg : List Str) (idOf : Str → Nat) (media : Str) (p : List Str) :
    p.findSome? (fun x => if x == media then accStep reg idOf media else none)
      = wv idOf (Mime.walkProduces reg media p) := by
  induction p with
  | nil => rfl
  | cons x xs ih =>
    rw [List.findSome?_cons, Mime.walkProduces]
    by_cases hx : x = media
    · subst hx
      simp only [beq_self_eq_true, if_true, accStep_eq] at ih ⊢
      cases h : Mime.accessorAt reg x with
      | nil => simp only [h] at ih; simpa [wv] using ih
      | cons k t => simp [wv]
    · simpa [hx] using ih

/-- `for each in produces { if w, ok := accessorAt(each); ok { return w, true } }` -/
theorem first_loop (reg : List Str) (idOf : Str → Nat) (p : List Str) :
    forIn p ((none : Option (GoAccessor × Bool)), ()) (fun each _ =>
      if (accV reg idOf each).snd = true then
        some (ForInStep.done (some ((accV reg idOf each).fst, true), ()))
      else some (ForInStep.yield (none, ()))) = some (wv idOf (Mime.firstProduced reg p), ()) := by
  rw [findSome_loop (accStep reg idOf), firstProduced_eq]
  intro x
  unfold accStep
  split <;> rfl

/-- `for each in produces { if each == media { if w, ok := accessorAt(media); ok { return w, true } } }` -/
theorem match_loop (reg : List Str) (idOf : Str → Nat) (media : Str) (p : List Str) :
    forIn p ((none : Option (GoAccessor × Bool)), ()) (fun each _ =>
      if (each == media) = true then
        if (accV reg idOf media).snd = true then
          some (ForInStep.done (some ((accV reg idOf media).fst, true), ()))
        else some (ForInStep.yield (none, ()))
      else some (ForInStep.yield (none, ()))) = some (wv idOf (Mime.walkProduces reg media p), ()) := by
  rw [findSome_loop (fun x => if x == media then accStep reg idOf media else none), walkProduces_eq]
  intro x
  unfold accStep
  split
  · split <;> rfl
  · rfl

/-- one iteration of the loop over the sorted ranges -/
def walkStep (reg : List Str) (idOf : Str → Nat) (p : List Str) (m : Mime.Mime) : Option (GoAccessor × Bool) :=
  match wv idOf (Mime.walkProduces reg m.media p) with
  | some r => some r
  | none => if m.media = starStar then wv idOf (Mime.firstProduced reg p) else none

theorem walk_eq (reg : List Str) (idOf : Str → Nat) (p : List Str) (ms : List Mime.Mime) :
    ms.findSome? (walkStep reg idOf p) = wv idOf (Mime.walk reg p ms) := by
  induction ms with
  | nil => rfl
  | cons m ms ih =>
    rw [List.findSome?_cons, Mime.walk, walkStep]
    cases h1 : Mime.walkProduces reg m.media p with
    | cons k t => simp [wv]
    | nil =>
      by_cases hm : m.media = starStar
      · cases h2 : Mime.firstProduced reg p with
        | cons k t => simp [wv, hm]
        | nil => simpa [wv, hm, h2] using ih
      · simpa [wv, hm] using ih

end T15
end TieImp
end Restful
