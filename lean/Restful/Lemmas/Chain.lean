/-
Helpers for C06: the serve model's log against `Spec.chainLog`.
-/
import Restful.Spec.Serve
namespace Restful
open Str
namespace Serve
namespace Chain
open Spec

/-! ### scripts -/

/-- a script never touches the log; its attribute effect and panic flag are `attrsAfter` -/
theorem runActs_spec (as : List Act) (cx : Ctx) (s : St) :
    (runActs as cx s).2.1.log = s.log ∧
    (runActs as cx s).1 = { cx with attrs := (attrsAfter as cx.attrs).1 } ∧
    (runActs as cx s).2.2.isSome = (attrsAfter as cx.attrs).2 := by
  induction as generalizing cx s with
  | nil => simp [runActs, attrsAfter]
  | cons a as ih =>
    cases a with
    | write b => simpa [runActs, attrsAfter] using ih cx _
    | writeHeader c => simpa [runActs, attrsAfter] using ih cx _
    | addHeader k v => simpa [runActs, attrsAfter] using ih cx _
    | setAttr k v => simpa [runActs, attrsAfter] using ih { cx with attrs := setParam cx.attrs k v } s
    | panic v => simp [runActs, attrsAfter]

def evOf (stage : Stage) (post : Bool) (cx : Ctx) : Event :=
  ⟨stage, post, cx.attrs, cx.params, cx.selPath, cx.wrappers⟩

theorem runStage_spec (stage : Stage) (post : Bool) (as : List Act) (cx : Ctx) (s : St) :
    (runStage stage post as cx s).2.1.log = evOf stage post cx :: s.log ∧
    (runStage stage post as cx s).1 = { cx with attrs := (attrsAfter as cx.attrs).1 } ∧
    (runStage stage post as cx s).2.2.isSome = (attrsAfter as cx.attrs).2 := by
  have h := runActs_spec as cx (logStart stage post cx s)
  exact ⟨by rw [runStage, h.1]; rfl, h.2.1, h.2.2⟩

/-! ### the chain -/

/-- the post part of a filter in `chainLog`: runs with `cxp`, hands back `cxr`'s wrappers -/
def postPart (st : Stage) (f : Filter) (cxp cxr : Ctx) : List Event × Ctx × Bool :=
  ([evOf st true cxp], { cxp with attrs := (attrsAfter f.post cxp.attrs).1, wrappers := cxr.wrappers }, (attrsAfter f.post cxp.attrs).2)

/-- then-what after the inner chain came back -/
def after (ev0 : Event) (inner : List Event) (p : Bool) (cxPanic : Ctx) (post : List Event × Ctx × Bool) : List Event × Ctx × Bool :=
  if p then (ev0 :: inner, cxPanic, true) else (ev0 :: inner ++ post.1, post.2.1, post.2.2)

theorem chainLog_nil (t : Target) (cx : Ctx) :
    chainLog [] t cx = ([evOf t.stage false cx], { cx with attrs := (attrsAfter t.script cx.attrs).1 }, (attrsAfter t.script cx.attrs).2) := by
  rw [chainLog]; rfl

theorem chainLog_cons (st : Stage) (f : Filter) (fs : List (Stage × Filter)) (t : Target) (cx : Ctx) :
    chainLog ((st, f) :: fs) t cx =
      (let cx1 : Ctx := { cx with attrs := (attrsAfter f.pre cx.attrs).1 }
       if (attrsAfter f.pre cx.attrs).2 then ([evOf st false cx], cx1, true) else
       match f.kind with
       | .stop => after (evOf st false cx) [] false cx1 (postPart st f cx1 cx1)
       | .pass =>
         let r := chainLog fs t cx1
         after (evOf st false cx) r.1 r.2.2 r.2.1 (postPart st f r.2.1 r.2.1)
       | .replace =>
         let r := chainLog fs t { attrs := [("who".toList, (toString f.id).toList)], params := [], selPath := [], wrappers := f.id :: cx1.wrappers }
         after (evOf st false cx) r.1 r.2.2 cx1 (postPart st f cx1 cx1)
       | .middle =>
         let r := chainLog fs t { cx1 with wrappers := f.id :: cx1.wrappers }
         after (evOf st false cx) r.1 r.2.2 r.2.1 (postPart st f { r.2.1 with wrappers := cx1.wrappers } r.2.1)) := by
  rw [chainLog]
  simp only [after, postPart, evOf]
  split <;> rfl

theorem runChain_spec (fs : List (Stage × Filter)) (t : Target) (cx : Ctx) (s : St) :
    (runChain fs t cx s).2.1.log = (chainLog fs t cx).1.reverse ++ s.log ∧
    (runChain fs t cx s).1 = (chainLog fs t cx).2.1 ∧
    (runChain fs t cx s).2.2.isSome = (chainLog fs t cx).2.2 := by
  induction fs generalizing cx s with
  | nil =>
    have h := runStage_spec t.stage false t.script cx s
    simpa [runChain, chainLog_nil] using h
  | cons sf fs ih =>
    obtain ⟨st, f⟩ := sf
    have h0 := runStage_spec st false f.pre cx s
    rw [runChain, chainLog_cons]
    generalize hr : runStage st false f.pre cx s = r at h0
    obtain ⟨cx1, s1, p⟩ := r
    simp only at h0
    obtain ⟨hl, hc, hp⟩ := h0
    cases p with
    | some v =>
      simp at hp; simp [hp, hl, hc]
    | none =>
      simp at hp
      have hw : cx1.wrappers = cx.wrappers := by rw [hc]
      simp only [hp, ← hc]
      cases hk : f.kind with
      | stop =>
        have h1 := runStage_spec st true f.post cx1 s1
        simp [after, postPart, h1, hl]
      | pass =>
        have h1 := ih cx1 s1
        generalize hr2 : runChain fs t cx1 s1 = r2 at h1
        obtain ⟨cx2, s2, p2⟩ := r2
        simp only at h1
        obtain ⟨hl2, hc2, hp2⟩ := h1
        cases p2 with
        | some v => simp at hp2; simp [after, hp2, hl2, hc2, hl]
        | none =>
          simp at hp2
          have h3 := runStage_spec st true f.post cx2 s2
          simp [after, postPart, hp2, h3, hl2, ← hc2, hl]
      | replace =>
        simp only [hw]
        generalize ({ attrs := [("who".toList, (toString f.id).toList)], params := [], selPath := [], wrappers := f.id :: cx.wrappers } : Ctx) = ci
        have h1 := ih ci s1
        generalize hr2 : runChain fs t ci s1 = r2 at h1
        obtain ⟨cx2, s2, p2⟩ := r2
        simp only at h1
        obtain ⟨hl2, hc2, hp2⟩ := h1
        cases p2 with
        | some v => simp at hp2; simp [after, hp2, hl2, hl]
        | none =>
          simp at hp2
          have h3 := runStage_spec st true f.post cx1 s2
          simp [after, postPart, hp2, h3, hl2, hl]
      | middle =>
        subst hc
        simp only
        generalize ({ attrs := (attrsAfter f.pre cx.attrs).1, params := cx.params, selPath := cx.selPath, wrappers := f.id :: cx.wrappers } : Ctx) = ci
        have h1 := ih ci s1
        generalize hr2 : runChain fs t ci s1 = r2 at h1
        obtain ⟨cx2, s2, p2⟩ := r2
        simp only at h1
        obtain ⟨hl2, hc2, hp2⟩ := h1
        cases p2 with
        | some v => simp at hp2; simp [after, hp2, hl2, hc2, hl]
        | none =>
          simp at hp2
          have h3 := runStage_spec st true f.post { cx2 with wrappers := cx.wrappers } s2
          simp [after, postPart, hp2, h3, hl2, ← hc2, hl]

/-! ### what is around the chain -/

theorem closeComp_log (s : St) : (closeComp s).log = s.log := by
  unfold closeComp
  split
  · rfl
  · split <;> rfl

theorem install_log (s : St) (c : Coding) : (install s c).log = s.log := rfl

theorem maybeInstall_log (en : Bool) (s : St) (ae : Str) : (maybeInstall en s ae).log = s.log := by
  unfold maybeInstall
  split
  · rfl
  · split <;> rfl

/-- only recover-handler events -/
def AllRecover (r : List Event) : Prop := ∀ ev ∈ r, ev.stage = .recover

theorem runRecover_log (cfg : Cfg) (s : St) : ∃ r, AllRecover r ∧ (runRecover cfg s).log = r ++ s.log := by
  unfold runRecover
  split
  · rename_i sc _
    refine ⟨[evOf .recover false {}], ?_, ?_⟩
    · intro ev hev
      simp only [List.mem_singleton] at hev
      rw [hev]; rfl
    · rw [(runStage_spec .recover false sc {} s).1]; rfl
  · exact ⟨[], fun _ h => absurd h List.not_mem_nil, rfl⟩

theorem finishDispatch_log (cfg : Cfg) (s : St) (p : Option Str) :
    ∃ r, AllRecover r ∧ (finishDispatch cfg s p).1.log = r ++ s.log := by
  have nil : AllRecover [] := fun _ h => absurd h List.not_mem_nil
  unfold finishDispatch
  split
  · exact ⟨[], nil, by rw [closeComp_log]; rfl⟩
  · split
    · obtain ⟨r, hr, h⟩ := runRecover_log cfg s
      exact ⟨r, hr, by rw [closeComp_log, h]⟩
    · exact ⟨[], nil, by rw [closeComp_log]; rfl⟩

/-- `body` adds the events `X` (oldest first) and after them nothing but recover-handler events -/
def LogsAs (body : St → St × Option Str × Nat) (X : List Event) : Prop :=
  ∀ s, ∃ r, AllRecover r ∧ (body s).1.log = r ++ X.reverse ++ s.log

end Chain
end Serve

namespace Spec
open Serve

/-- the script contains no panic -/
def noPanic (as : List Act) : Bool := as.all (fun a => !isPanic a)

theorem attrsAfter_noPanic (as : List Act) (attrs : List (Str × Str)) (h : noPanic as = true) :
    (attrsAfter as attrs).2 = false := by
  induction as generalizing attrs with
  | nil => rfl
  | cons a as ih =>
    have h' : noPanic as = true := by
      simp only [noPanic, List.all_cons, Bool.and_eq_true] at h ⊢
      exact h.2
    cases a with
    | write b => simpa [attrsAfter] using ih attrs h'
    | writeHeader c => simpa [attrsAfter] using ih attrs h'
    | addHeader k v => simpa [attrsAfter] using ih attrs h'
    | setAttr k v => simpa [attrsAfter] using ih _ h'
    | panic v => simp [noPanic, isPanic] at h

/-- the events `chainOf`'s chain must produce (none when there is no chain) -/
def chainEvents (E : ReEnv) (cfg : Cfg) (e : Entry) (sr : SReq) : List Event :=
  match chainOf E cfg e sr with
  | none => []
  | some (fs, t, cx) => (chainLog fs t cx).1

end Spec

namespace Serve
namespace Chain
open Spec

theorem chain_then_finish (cfg : Cfg) (fs : List (Stage × Filter)) (t : Target) (cx : Ctx) (s : St) :
    ∃ r, AllRecover r ∧
      (finishDispatch cfg (runChain fs t cx s).2.1 (runChain fs t cx s).2.2).1.log = r ++ (chainLog fs t cx).1.reverse ++ s.log := by
  obtain ⟨r, hr1, hr2⟩ := finishDispatch_log cfg (runChain fs t cx s).2.1 (runChain fs t cx s).2.2
  exact ⟨r, hr1, by rw [hr2, (runChain_spec fs t cx s).1, List.append_assoc]⟩

theorem dispatch_logsAs (E : ReEnv) (cfg : Cfg) (sr : SReq) :
    LogsAs (dispatch E cfg sr) (chainEvents E cfg .dispatch sr) := by
  intro s0
  unfold dispatch chainEvents chainOf
  cases hc : sr.condPanic with
  | some v => simpa using finishDispatch_log cfg s0 (some v)
  | none =>
    simp only [Option.isSome_none, Bool.false_eq_true, if_false]
    generalize routeTagged E cfg.routing sr.req = o
    obtain ⟨o, tag⟩ := o
    cases o with
    | panic w => simpa using finishDispatch_log cfg s0 (some w.toList)
    | error code allow => exact chain_then_finish cfg _ _ _ s0
    | selected svc rid ps =>
      have h := chain_then_finish cfg (allFilters cfg svc rid) ⟨.handler rid, (routeX cfg rid).script⟩
        { params := ps, selPath := match (cfg.routing.services.flatMap (·.built)).find? (fun r => r.id == rid && r.svc == svc) with
          | some r => r.path
          | none => [] }
        (maybeInstall (match (routeX cfg rid).enc with
          | some b => b
          | none => cfg.encoding) s0 sr.acceptEncoding)
      rw [maybeInstall_log] at h
      exact h

theorem handleWrapper_logsAs (cfg : Cfg) (sr : SReq) (body : St → St × Option Str × Nat) (X : List Event)
    (h : LogsAs body X) : LogsAs (fun s => handleWrapper cfg sr s body) X := by
  intro s0
  simp only [handleWrapper]
  split
  · exact h s0
  · obtain ⟨r, hr1, hr2⟩ := h (maybeInstall cfg.encoding s0 sr.acceptEncoding)
    exact ⟨r, hr1, by rw [closeComp_log, hr2, maybeInstall_log]⟩

theorem serveWrapper_logsAs (cfg : Cfg) (sr : SReq) (inner : St → St × Option Str × Nat) (X : List Event)
    (h : LogsAs inner X) : LogsAs (fun s => serveWrapper cfg sr s inner) X := by
  intro s0
  simp only [serveWrapper]
  split
  · exact h s0
  · split
    · rename_i c _
      obtain ⟨r, hr1, hr2⟩ := h (install s0 c)
      exact ⟨r, hr1, by rw [closeComp_log, hr2, install_log]⟩
    · obtain ⟨r, hr1, hr2⟩ := h s0
      exact ⟨r, hr1, by rw [closeComp_log, hr2]⟩

theorem plainBody_logsAs (cfg : Cfg) : LogsAs (plainBody cfg) (chainLog [] ⟨.plain 0, cfg.plainScript⟩ {}).1 := by
  intro s
  refine ⟨[], fun _ h => absurd h List.not_mem_nil, ?_⟩
  simp only [plainBody]
  rw [(runStage_spec (.plain 0) false cfg.plainScript {} s).1, chainLog_nil]
  rfl

theorem plainFilteredBody_logsAs (cfg : Cfg) :
    LogsAs (plainFilteredBody cfg) (chainLog (label .cfilter cfg.cfilters) ⟨.plain 0, cfg.plainScript⟩ {}).1 := by
  intro s
  unfold plainFilteredBody
  split
  · rename_i he
    have : cfg.cfilters = [] := List.isEmpty_iff.mp he
    rw [this]
    exact plainBody_logsAs cfg s
  · -- container.go:393: the chain, then (recovery on, a panic unwinding) the recover handler
    have nil : AllRecover [] := fun _ h => absurd h List.not_mem_nil
    have hl := (runChain_spec (label .cfilter cfg.cfilters) ⟨.plain 0, cfg.plainScript⟩ {} s).1
    generalize runChain (label .cfilter cfg.cfilters) ⟨.plain 0, cfg.plainScript⟩ {} s = rr at hl
    obtain ⟨cx1, s1, p⟩ := rr
    simp only at hl ⊢
    cases p with
    | none => exact ⟨[], nil, by simp only [hl]; rfl⟩
    | some v =>
      simp only
      split
      · obtain ⟨r, hr, h⟩ := runRecover_log cfg s1
        exact ⟨r, hr, by rw [h, hl, List.append_assoc]⟩
      · exact ⟨[], nil, by simp only [hl]; rfl⟩

/-- what `serve` runs on the initial state, by entry point -/
def entryBody (E : ReEnv) (cfg : Cfg) (e : Entry) (sr : SReq) : St → St × Option Str × Nat :=
  match e with
  | .dispatch => dispatch E cfg sr
  | .serveDispatch => fun s0 => serveWrapper cfg sr s0 (dispatch E cfg sr)
  | .muxHandle => fun s0 => handleWrapper cfg sr s0 (plainBody cfg)
  | .serveHandle => fun s0 => serveWrapper cfg sr s0 (fun s => handleWrapper cfg sr s (plainBody cfg))
  | .muxHandleF => fun s0 => handleWrapper cfg sr s0 (plainFilteredBody cfg)
  | .serveHandleF => fun s0 => serveWrapper cfg sr s0 (fun s => handleWrapper cfg sr s (plainFilteredBody cfg))

theorem serve_eq_entryBody (E : ReEnv) (cfg : Cfg) (e : Entry) (w : World) (sr : SReq) :
    serve E cfg e w sr =
      { rc := (entryBody E cfg e sr (initial sr)).1.rc, log := (entryBody E cfg e sr (initial sr)).1.log.reverse,
        world := ledger w (entryBody E cfg e sr (initial sr)).1.rc,
        escaped := (entryBody E cfg e sr (initial sr)).2.1, recoverCalls := (entryBody E cfg e sr (initial sr)).2.2 } := by
  cases e <;> rfl

theorem entryBody_logsAs (E : ReEnv) (cfg : Cfg) (e : Entry) (sr : SReq) :
    LogsAs (entryBody E cfg e sr) (chainEvents E cfg e sr) := by
  cases e with
  | dispatch => exact dispatch_logsAs E cfg sr
  | serveDispatch => exact serveWrapper_logsAs cfg sr _ _ (dispatch_logsAs E cfg sr)
  | muxHandle => exact handleWrapper_logsAs cfg sr _ _ (plainBody_logsAs cfg)
  | serveHandle => exact serveWrapper_logsAs cfg sr _ _ (handleWrapper_logsAs cfg sr _ _ (plainBody_logsAs cfg))
  | muxHandleF => exact handleWrapper_logsAs cfg sr _ _ (plainFilteredBody_logsAs cfg)
  | serveHandleF => exact serveWrapper_logsAs cfg sr _ _ (handleWrapper_logsAs cfg sr _ _ (plainFilteredBody_logsAs cfg))

/-- the model's whole log: the specified chain events, then nothing but recover-handler events -/
theorem serve_log (E : ReEnv) (cfg : Cfg) (e : Entry) (w : World) (sr : SReq) :
    ∃ r, AllRecover r ∧ (serve E cfg e w sr).log = chainEvents E cfg e sr ++ r := by
  obtain ⟨r, hr1, hr2⟩ := entryBody_logsAs E cfg e sr (initial sr)
  refine ⟨r.reverse, fun ev hev => hr1 ev (List.mem_reverse.mp hev), ?_⟩
  have h0 : (initial sr).log = [] := rfl
  rw [serve_eq_entryBody]
  show (entryBody E cfg e sr (initial sr)).1.log.reverse = _
  rw [hr2, h0]
  simp

theorem userEvents_append_recover (k : Bool) (X r : List Event) (h : AllRecover r) : userEvents k (X ++ r) = userEvents k X := by
  have h1 : userEvents k (X ++ r) = userEvents k X ++ userEvents k r := by
    unfold userEvents
    exact List.filter_append ..
  have h2 : userEvents k r = [] := by
    unfold userEvents
    rw [List.filter_eq_nil_iff]
    intro ev hev
    rw [h ev hev]
    simp
  rw [h1, h2, List.append_nil]

/-- the user-code events of the model's log are those of the specified chain -/
theorem serve_userEvents (k : Bool) (E : ReEnv) (cfg : Cfg) (e : Entry) (w : World) (sr : SReq) :
    userEvents k (serve E cfg e w sr).log = userEvents k (chainEvents E cfg e sr) := by
  obtain ⟨r, hr1, hr2⟩ := serve_log E cfg e w sr
  rw [hr2, userEvents_append_recover k _ _ hr1]

/-! ### the shape of `chainLog` -/

/-- the stage that runs first in a chain -/
def nextStage (fs : List (Stage × Filter)) (t : Target) : Stage :=
  match fs with
  | [] => t.stage
  | (st, _) :: _ => st

/-- a filter's events: its start, whatever ran inside (nothing, or the rest of the chain on some
    context), and at most one post event -/
theorem chainLog_cons_shape (st : Stage) (f : Filter) (fs : List (Stage × Filter)) (t : Target) (cx : Ctx) :
    ∃ inner post, (chainLog ((st, f) :: fs) t cx).1 = evOf st false cx :: (inner ++ post) ∧
      (inner = [] ∨ ∃ cx', inner = (chainLog fs t cx').1) ∧ (post = [] ∨ ∃ cxp, post = [evOf st true cxp]) := by
  rw [chainLog_cons]
  simp only
  split
  · exact ⟨[], [], rfl, .inl rfl, .inl rfl⟩
  · cases f.kind with
    | stop => exact ⟨[], [evOf st true _], rfl, .inl rfl, .inr ⟨_, rfl⟩⟩
    | pass =>
      simp only [after]
      split
      · exact ⟨_, [], by rw [List.append_nil], .inr ⟨_, rfl⟩, .inl rfl⟩
      · exact ⟨_, _, rfl, .inr ⟨_, rfl⟩, .inr ⟨_, rfl⟩⟩
    | replace =>
      simp only [after]
      split
      · exact ⟨_, [], by rw [List.append_nil], .inr ⟨_, rfl⟩, .inl rfl⟩
      · exact ⟨_, _, rfl, .inr ⟨_, rfl⟩, .inr ⟨_, rfl⟩⟩
    | middle =>
      simp only [after]
      split
      · exact ⟨_, [], by rw [List.append_nil], .inr ⟨_, rfl⟩, .inl rfl⟩
      · exact ⟨_, _, rfl, .inr ⟨_, rfl⟩, .inr ⟨_, rfl⟩⟩

/-- the first event of a chain is the start of its first stage, with the context handed in -/
theorem chainLog_head (fs : List (Stage × Filter)) (t : Target) (cx : Ctx) :
    ∃ rest, (chainLog fs t cx).1 = evOf (nextStage fs t) false cx :: rest := by
  cases fs with
  | nil => exact ⟨[], by rw [chainLog_nil]; rfl⟩
  | cons sf fs =>
    obtain ⟨st, f⟩ := sf
    obtain ⟨inner, post, h, _, _⟩ := chainLog_cons_shape st f fs t cx
    exact ⟨inner ++ post, h⟩

/-- every event belongs to a filter of the chain or to the target -/
theorem chainLog_stage_mem (fs : List (Stage × Filter)) (t : Target) (cx : Ctx) :
    ∀ ev ∈ (chainLog fs t cx).1, ev.stage ∈ fs.map (·.1) ∨ ev.stage = t.stage := by
  induction fs generalizing cx with
  | nil =>
    intro ev hev
    rw [chainLog_nil] at hev
    simp only [List.mem_singleton] at hev
    exact .inr (by rw [hev]; rfl)
  | cons sf fs ih =>
    obtain ⟨st, f⟩ := sf
    obtain ⟨inner, post, h, hi, hpo⟩ := chainLog_cons_shape st f fs t cx
    intro ev hev
    rw [h] at hev
    simp only [List.mem_cons, List.mem_append, List.map_cons] at hev ⊢
    rcases hev with rfl | hev | hev
    · exact .inl (.inl rfl)
    · rcases hi with rfl | ⟨cx', rfl⟩
      · cases hev
      · rcases ih cx' ev hev with h1 | h1
        · exact .inl (.inr h1)
        · exact .inr h1
    · rcases hpo with rfl | ⟨cxp, rfl⟩
      · cases hev
      · simp only [List.mem_singleton] at hev
        exact .inl (.inl (by rw [hev]; rfl))

/-- each filter starts at most once and comes back at most once, the target runs at most once -/
theorem chainLog_nodup (fs : List (Stage × Filter)) (t : Target) (cx : Ctx)
    (hn : (fs.map (·.1)).Nodup) (ht : t.stage ∉ fs.map (·.1)) :
    ((chainLog fs t cx).1.map (fun ev => (ev.stage, ev.post))).Nodup := by
  induction fs generalizing cx with
  | nil => rw [chainLog_nil]; simp
  | cons sf fs ih =>
    obtain ⟨st, f⟩ := sf
    simp only [List.map_cons, List.nodup_cons, List.mem_cons, not_or] at hn ht
    obtain ⟨inner, post, h, hi, hpo⟩ := chainLog_cons_shape st f fs t cx
    have hinner : ∀ ev ∈ inner, ev.stage ≠ st := by
      intro ev hev
      rcases hi with rfl | ⟨cx', rfl⟩
      · cases hev
      · rcases chainLog_stage_mem fs t cx' ev hev with h1 | h1
        · intro he; exact hn.1 (he ▸ h1)
        · intro he; exact ht.1 (by rw [← h1, he])
    have hpost : ∀ ev ∈ post, ev.stage = st ∧ ev.post = true := by
      intro ev hev
      rcases hpo with rfl | ⟨cxp, rfl⟩
      · cases hev
      · simp only [List.mem_singleton] at hev
        rw [hev]; exact ⟨rfl, rfl⟩
    rw [h]
    simp only [List.map_cons, List.map_append, List.nodup_cons, List.mem_append, List.mem_map, not_or, not_exists, not_and,
      List.nodup_append]
    refine ⟨⟨?_, ?_⟩, ?_, ?_, ?_⟩
    · intro ev hev he
      exact hinner ev hev (by simpa [evOf] using (Prod.mk.inj he).1)
    · intro ev hev he
      have := (hpost ev hev).2
      simp [evOf, this] at he
    · rcases hi with rfl | ⟨cx', rfl⟩
      · exact List.nodup_nil
      · exact ih cx' hn.2 ht.2
    · rcases hpo with rfl | ⟨cxp, rfl⟩
      · exact List.nodup_nil
      · simp
    · rintro a ⟨ev, hev, rfl⟩ b ⟨ev', hev', rfl⟩ hab
      exact hinner ev hev (by rw [(Prod.mk.inj hab).1, (hpost ev' hev').1])

/-! ### the closed form: filters that pass or stop, scripts that do not panic -/

theorem chainLog_closed (fs : List (Stage × Filter)) (t : Target) (cx : Ctx)
    (hk : ∀ sf ∈ fs, sf.2.kind = .pass ∨ sf.2.kind = .stop)
    (hp : ∀ sf ∈ fs, noPanic sf.2.pre = true ∧ noPanic sf.2.post = true)
    (ht : noPanic t.script = true) :
    (chainLog fs t cx).2.2 = false ∧
    (chainLog fs t cx).1.map (fun ev => (ev.stage, ev.post)) =
      ((fs.take (fs.findIdx (fun sf => sf.2.kind == .stop) + 1)).map (fun sf => (sf.1, false))) ++
      (if fs.findIdx (fun sf => sf.2.kind == .stop) = fs.length then [(t.stage, false)] else []) ++
      ((fs.take (fs.findIdx (fun sf => sf.2.kind == .stop) + 1)).reverse.map (fun sf => (sf.1, true))) := by
  induction fs generalizing cx with
  | nil =>
    rw [chainLog_nil]
    exact ⟨attrsAfter_noPanic _ _ ht, by simp [evOf]⟩
  | cons sf fs ih =>
    obtain ⟨st, f⟩ := sf
    have hpf := hp (st, f) List.mem_cons_self
    have hpre := attrsAfter_noPanic f.pre cx.attrs hpf.1
    have hpost := fun a => attrsAfter_noPanic f.post a hpf.2
    rw [chainLog_cons]
    simp only [hpre, Bool.false_eq_true, if_false]
    rcases hk (st, f) List.mem_cons_self with hkind | hkind
    · simp only at hkind
      obtain ⟨ih1, ih2⟩ := ih { cx with attrs := (attrsAfter f.pre cx.attrs).1 }
        (fun sf h => hk sf (List.mem_cons_of_mem _ h)) (fun sf h => hp sf (List.mem_cons_of_mem _ h))
      have hne : (FKind.pass == FKind.stop) = false := by decide
      simp only [hkind, after, ih1, Bool.false_eq_true, if_false, postPart, hpost, List.findIdx_cons, hne, cond_false]
      refine ⟨trivial, ?_⟩
      simp only [List.map_cons, List.map_append, ih2]
      simp only [evOf, List.take_succ_cons, List.map_cons, List.reverse_cons, List.map_append, List.length_cons,
        Nat.add_right_cancel_iff, List.cons_append, List.append_assoc, List.map_nil]
    · simp only at hkind
      simp [hkind, after, postPart, hpost, List.findIdx_cons, evOf]

/-! ### what a filter hands to the rest of the chain -/

/-- the Request/Response context the rest of the chain receives from filter `f` entered with `cx` -/
def innerCtx (f : Filter) (cx : Ctx) : Ctx :=
  match f.kind with
  | .replace => { attrs := [("who".toList, (toString f.id).toList)], params := [], selPath := [], wrappers := f.id :: cx.wrappers }
  | .middle => { cx with attrs := (attrsAfter f.pre cx.attrs).1, wrappers := f.id :: cx.wrappers }
  | _ => { cx with attrs := (attrsAfter f.pre cx.attrs).1 }

theorem chainLog_cons_inner (st : Stage) (f : Filter) (fs : List (Stage × Filter)) (t : Target) (cx : Ctx)
    (hp : (attrsAfter f.pre cx.attrs).2 = false) (hk : f.kind ≠ .stop) :
    ∃ post, (chainLog ((st, f) :: fs) t cx).1 = evOf st false cx :: ((chainLog fs t (innerCtx f cx)).1 ++ post) := by
  rw [chainLog_cons]
  simp only [hp, Bool.false_eq_true, if_false, innerCtx]
  cases hkind : f.kind with
  | stop => exact absurd hkind hk
  | pass => simp only [after]; split; exact ⟨[], by rw [List.append_nil]⟩; exact ⟨_, rfl⟩
  | replace => simp only [after]; split; exact ⟨[], by rw [List.append_nil]⟩; exact ⟨_, rfl⟩
  | middle => simp only [after]; split; exact ⟨[], by rw [List.append_nil]⟩; exact ⟨_, rfl⟩

/-- the second event of a chain whose first filter passes control on: the next stage starts with
    the context that filter handed on -/
theorem chainLog_second (st : Stage) (f : Filter) (fs : List (Stage × Filter)) (t : Target) (cx : Ctx)
    (hp : (attrsAfter f.pre cx.attrs).2 = false) (hk : f.kind ≠ .stop) :
    ∃ rest, (chainLog ((st, f) :: fs) t cx).1 = evOf st false cx :: evOf (nextStage fs t) false (innerCtx f cx) :: rest := by
  obtain ⟨post, h⟩ := chainLog_cons_inner st f fs t cx hp hk
  obtain ⟨rest, h2⟩ := chainLog_head fs t (innerCtx f cx)
  exact ⟨rest ++ post, by rw [h, h2]; rfl⟩

/-! ### the ledger does not reach the log -/

theorem serve_log_world (E : ReEnv) (cfg : Cfg) (e : Entry) (w w' : World) (sr : SReq) :
    (serve E cfg e w sr).log = (serve E cfg e w' sr).log := by
  rw [serve_eq_entryBody, serve_eq_entryBody]

theorem serveSeq_log (E : ReEnv) (cfg : Cfg) (e : Entry) (w : World) (reqs : List SReq) :
    (serveSeq E cfg e w reqs).map (·.log) = reqs.map (fun r => (serve E cfg e {} r).log) := by
  induction reqs generalizing w with
  | nil => rfl
  | cons r rs ih =>
    simp only [serveSeq, List.map_cons]
    rw [ih, serve_log_world E cfg e w {} r]

/-! ### stage labels -/

theorem label_stages (mk : Nat → Stage) (fs : List Filter) : (label mk fs).map (·.1) = fs.map (fun f => mk f.id) := by
  simp [label, Function.comp_def]

theorem allFilters_stages (cfg : Cfg) (svc rid : Nat) :
    (allFilters cfg svc rid).map (·.1) =
      cfg.cfilters.map (fun f => Stage.cfilter f.id) ++ (svcX cfg svc).filters.map (fun f => Stage.sfilter f.id) ++
        (routeX cfg rid).filters.map (fun f => Stage.rfilter f.id) := by
  simp only [allFilters, List.map_append, label_stages]

theorem nodup_map_of_inj {α β : Type} (g : α → β) (hg : ∀ a b, g a = g b → a = b) (l : List α) (h : l.Nodup) :
    (l.map g).Nodup :=
  List.Pairwise.map g (fun a b hab hgab => hab (hg a b hgab)) h

/-- the filter ids are distinct within each level -/
def DistinctIds (cfg : Cfg) : Prop :=
  (cfg.cfilters.map (·.id)).Nodup ∧ (∀ svc, ((svcX cfg svc).filters.map (·.id)).Nodup) ∧
    (∀ rid, ((routeX cfg rid).filters.map (·.id)).Nodup)

theorem label_nodup (mk : Nat → Stage) (hmk : ∀ a b, mk a = mk b → a = b) (fs : List Filter)
    (h : (fs.map (·.id)).Nodup) : ((label mk fs).map (·.1)).Nodup := by
  rw [label_stages]
  have := nodup_map_of_inj mk hmk _ h
  rwa [List.map_map] at this

theorem allFilters_nodup (cfg : Cfg) (h : DistinctIds cfg) (svc rid : Nat) : ((allFilters cfg svc rid).map (·.1)).Nodup := by
  have h1 := label_nodup .cfilter (fun a b h => Stage.cfilter.inj h) _ h.1
  have h2 := label_nodup .sfilter (fun a b h => Stage.sfilter.inj h) _ (h.2.1 svc)
  have h3 := label_nodup .rfilter (fun a b h => Stage.rfilter.inj h) _ (h.2.2 rid)
  simp only [allFilters, List.map_append, List.nodup_append, List.mem_append]
  refine ⟨⟨h1, h2, ?_⟩, h3, ?_⟩
  · intro a ha b hb
    rw [label_stages, List.mem_map] at ha hb
    obtain ⟨_, _, rfl⟩ := ha
    obtain ⟨_, _, rfl⟩ := hb
    exact Stage.noConfusion
  · intro a ha b hb
    rw [label_stages, List.mem_map] at hb
    obtain ⟨_, _, rfl⟩ := hb
    rcases ha with ha | ha <;>
    · rw [label_stages, List.mem_map] at ha
      obtain ⟨_, _, rfl⟩ := ha
      exact Stage.noConfusion

/-- a filter stage -/
def _root_.Restful.Serve.Stage.isFilter : Stage → Bool
  | .cfilter _ => true
  | .sfilter _ => true
  | .rfilter _ => true
  | _ => false

theorem label_isFilter (mk : Nat → Stage) (hmk : ∀ i, (mk i).isFilter = true) (fs : List Filter) :
    ∀ st ∈ (label mk fs).map (·.1), st.isFilter = true := by
  intro st h
  rw [label_stages, List.mem_map] at h
  obtain ⟨f, _, rfl⟩ := h
  exact hmk f.id

theorem allFilters_isFilter (cfg : Cfg) (svc rid : Nat) : ∀ st ∈ (allFilters cfg svc rid).map (·.1), st.isFilter = true := by
  intro st h
  simp only [allFilters, List.map_append, List.mem_append] at h
  rcases h with (h | h) | h
  · exact label_isFilter .cfilter (fun _ => rfl) _ st h
  · exact label_isFilter .sfilter (fun _ => rfl) _ st h
  · exact label_isFilter .rfilter (fun _ => rfl) _ st h

/-- the chains requests go through: labels are filter stages, distinct when the ids are, and the
    target is not a filter stage -/
theorem chainOf_labels (E : ReEnv) (cfg : Cfg) (e : Entry) (sr : SReq) (fs : List (Stage × Filter)) (t : Target) (cx : Ctx)
    (h : chainOf E cfg e sr = some (fs, t, cx)) :
    (∀ st ∈ fs.map (·.1), st.isFilter = true) ∧ t.stage.isFilter = false ∧ (DistinctIds cfg → (fs.map (·.1)).Nodup) := by
  have hl : (∀ st ∈ (label .cfilter cfg.cfilters).map (·.1), st.isFilter = true) ∧
      (DistinctIds cfg → ((label .cfilter cfg.cfilters).map (·.1)).Nodup) :=
    ⟨label_isFilter .cfilter (fun _ => rfl) _, fun hd => label_nodup .cfilter (fun a b h => Stage.cfilter.inj h) _ hd.1⟩
  have routed : ∀ e', (e' = .dispatch ∨ e' = .serveDispatch) → chainOf E cfg e' sr = some (fs, t, cx) →
      (∀ st ∈ fs.map (·.1), st.isFilter = true) ∧ t.stage.isFilter = false ∧ (DistinctIds cfg → (fs.map (·.1)).Nodup) := by
    intro e' he' h
    have h' : chainOf E cfg .dispatch sr = some (fs, t, cx) := by
      rcases he' with rfl | rfl <;> exact h
    unfold chainOf at h'
    simp only at h'
    split at h'
    · cases h'
    · generalize routeTagged E cfg.routing sr.req = o at h'
      obtain ⟨o, tag⟩ := o
      cases o with
      | panic w => cases h'
      | error c a =>
        simp only [Option.some.injEq, Prod.mk.injEq] at h'
        obtain ⟨rfl, rfl, rfl⟩ := h'
        exact ⟨hl.1, rfl, hl.2⟩
      | selected svc rid ps =>
        simp only [Option.some.injEq, Prod.mk.injEq] at h'
        obtain ⟨rfl, rfl, rfl⟩ := h'
        exact ⟨allFilters_isFilter cfg svc rid, rfl, fun hd => allFilters_nodup cfg hd svc rid⟩
  cases e with
  | dispatch => exact routed _ (.inl rfl) h
  | serveDispatch => exact routed _ (.inr rfl) h
  | muxHandle =>
    simp only [chainOf, Option.some.injEq, Prod.mk.injEq] at h
    obtain ⟨rfl, rfl, rfl⟩ := h
    exact ⟨fun _ h => absurd h List.not_mem_nil, rfl, fun _ => List.nodup_nil⟩
  | serveHandle =>
    simp only [chainOf, Option.some.injEq, Prod.mk.injEq] at h
    obtain ⟨rfl, rfl, rfl⟩ := h
    exact ⟨fun _ h => absurd h List.not_mem_nil, rfl, fun _ => List.nodup_nil⟩
  | muxHandleF =>
    simp only [chainOf, Option.some.injEq, Prod.mk.injEq] at h
    obtain ⟨rfl, rfl, rfl⟩ := h
    exact ⟨hl.1, rfl, hl.2⟩
  | serveHandleF =>
    simp only [chainOf, Option.some.injEq, Prod.mk.injEq] at h
    obtain ⟨rfl, rfl, rfl⟩ := h
    exact ⟨hl.1, rfl, hl.2⟩

/-- on the model's log: with distinct filter ids per level, no stage of user code starts twice or
    comes back twice -/
theorem serve_nodup (k : Bool) (E : ReEnv) (cfg : Cfg) (hd : DistinctIds cfg) (e : Entry) (w : World) (sr : SReq) :
    ((userEvents k (serve E cfg e w sr).log).map (fun ev => (ev.stage, ev.post))).Nodup := by
  rw [serve_userEvents, chainEvents]
  cases h : chainOf E cfg e sr with
  | none => exact List.nodup_nil
  | some c =>
    obtain ⟨fs, t, cx⟩ := c
    obtain ⟨h1, h2, h3⟩ := chainOf_labels E cfg e sr fs t cx h
    have hn := chainLog_nodup fs t cx (h3 hd) (fun hm => by rw [h1 _ hm] at h2; cases h2)
    exact List.Nodup.sublist (List.Sublist.map _ List.filter_sublist) hn

end Chain
end Serve
end Restful
