import Restful.Lemmas.TieImpVocab
import Restful.Lemmas.TieImpTemplate
import Restful.Lemmas.TieImpPath
namespace Restful
namespace TieImp
open Imp

namespace T16

/-- `templateToRegularExpression` reads only three fields of `X` -/
theorem template_ext (X : ImpGen.Ext) (quote : Str → Str)
    (hT : X.TrimRightSlashEnabled = true) (hq : X.regexp_QuoteMeta = quote)
    (hts : X.strings_TrimSpace = Jsr.trimSpace) (tmpl : Str) :
    ImpGen.templateToRegularExpression X tmpl
      = ImpGen.templateToRegularExpression (extOfQ (fun _ _ => (false, none)) (fun a _ => a) quote) tmpl := by
  unfold ImpGen.templateToRegularExpression ImpGen.tokenizePath
  rw [hT, hq, hts]
  rfl

/-- `xs[0]` of a slice of length one does not panic -/
theorem at_zero_of_len_one {α : Type} (xs : List α) (h : (len xs == 1) = true) : ∃ w, at? xs 0 = some w := by
  cases xs with
  | nil => simp [len] at h
  | cons a t => exact ⟨a, rfl⟩

/-- `len(xs) == 0` is the emptiness test -/
theorem len_eq_zero {α : Type} (xs : List α) : (len xs == 0) = xs.isEmpty := by
  cases xs with
  | nil => rfl
  | cons a t =>
    rw [List.isEmpty_cons, beq_eq_false_iff_ne]
    simp only [len, List.length_cons]
    omega

end T16

/-- what the routers read of a built Route (the documentation fields, the function and the filters are
    copied through: `Option Opaque` values nobody translated looks into) -/
def routeView (g : ImpGen.GoRoute) :=
  (g.Method, g.Path, g.Produces, g.Consumes, g.relativePath, g.pathParts, g.hasCustomVerb,
   g.allowedMethodsWithoutContentType,
   g.pathExpr.map (fun pe => (pe.LiteralCount, pe.VarNames, pe.VarCount, pe.Source, pe.tokens)))

/-- route_builder.go `RouteBuilder.Build` (with `newPathExpression`, `Route.postBuild`, `concatPath`,
    `tokenizePath`, `templateToRegularExpression`): the Route a builder yields IS the model's
    `Service.build` — method, full path `concatPath(root, sub)`, its tokens and custom-verb flag, the media
    lists as they stand in the builder (after `copyDefaults`), the relative path and its compiled
    expression (text, literal count, variable names and count, tokens) — for a builder that has a function
    and a template whose expression `regexp.Compile` accepts (`hc`; otherwise the library exits).  A slice
    panic while reading the template is `none` on both sides. -/
theorem build_route (X : ImpGen.Ext) (quote : Str → Str) (m : Str → Regexp)
    (hT : X.TrimRightSlashEnabled = true) (hcv : X.hasCustomVerb = Restful.hasCustomVerb)
    (hq : X.regexp_QuoteMeta = quote) (hts : X.strings_TrimSpace = Jsr.trimSpace)
    (hc : ∀ e : Str, X.regexp_Compile e = (m e, none))
    (s : Service) (r : RouteDecl) (b : ImpGen.GoRouteBuilder)
    (hb : b.rootPath = s.rootPath ∧ b.currentPath = r.relPath ∧ b.produces = s.producesOf r ∧
          b.consumes = s.consumesOf r ∧ b.httpMethod = r.method ∧ b.function.isSome = true ∧
          b.allowedMethodsWithoutContentType = r.noct) :
    (ImpGen.RouteBuilder_Build X (some b)).map routeView
      = (Jsr.compile r.relPath).map (fun ex =>
          ((s.build r).method, (s.build r).path, (s.build r).produces, (s.build r).consumes, (s.build r).relPath,
           (s.build r).pathParts, (s.build r).hasCustomVerb, (s.build r).noct,
           some (((ex.literalCount : Nat) : Int), ex.varNames, ((ex.varCount : Nat) : Int), exprText quote ex.toks, tokenize r.relPath))) := by
  obtain ⟨h1, h2, h3, h4, h5, h6, h7⟩ := hb
  have h6' : b.function.isNone = false := by
    cases hf : b.function with
    | none => rw [hf] at h6; exact absurd h6 (by decide)
    | some f => rfl
  unfold ImpGen.RouteBuilder_Build ImpGen.newPathExpression ImpGen.Route_postBuild
  simp only [hc, deref, Option.bind_eq_bind, Option.bind_some, Option.pure_def]
  rw [h2, T16.template_ext X quote hT hq hts, template_to_regex]
  cases Jsr.compile r.relPath with
  | none => rfl
  | some ex =>
    simp only [Option.map_some, Option.bind_some, Option.isSome_none, Bool.false_eq_true, if_false, h6', h6,
      T2.concat_path X hT, T2.tokenize_path X hT, hcv]
    rw [h1, h3, h4, h5, h7]
    by_cases ho : (len b.operation == 0) = true <;> by_cases hw : (len b.writeSamples == 1) = true
    all_goals simp only [ho, hw, if_true, if_false, Bool.false_eq_true, Option.bind_some]
    all_goals first
      | rfl
      | (obtain ⟨w, hw'⟩ := T16.at_zero_of_len_one _ hw
         rw [hw']; rfl)

/-- route_builder.go `RouteBuilder.copyDefaults`: the WebService's media lists stand in for empty ones -/
theorem copy_defaults (X : ImpGen.Ext) (b : ImpGen.GoRouteBuilder) (rp rc : List Str) :
    ImpGen.RouteBuilder_copyDefaults X (some b) rp rc
      = some (some { b with produces := if b.produces.isEmpty then rp else b.produces,
                            consumes := if b.consumes.isEmpty then rc else b.consumes }) := by
  unfold ImpGen.RouteBuilder_copyDefaults
  simp only [deref, Option.bind_eq_bind, Option.bind_some, Option.pure_def, T16.len_eq_zero]
  by_cases hp : b.produces.isEmpty = true <;> by_cases hc : b.consumes.isEmpty = true
  all_goals simp only [hp, hc, if_true, if_false, Bool.false_eq_true]

#print axioms build_route
#print axioms copy_defaults

end TieImp
end Restful

namespace Restful
namespace TieImp
open Imp

/-- `Build` on a builder without a function: the library logs and exits — no Route, whatever the template -/
theorem build_route_no_function (X : ImpGen.Ext) (b : ImpGen.GoRouteBuilder) (hf : b.function = none) :
    ImpGen.RouteBuilder_Build X (some b) = none := by
  unfold ImpGen.RouteBuilder_Build
  simp only [deref, bind, Option.bind, hf]
  cases ImpGen.newPathExpression X b.currentPath with
  | none => rfl
  | some p =>
    obtain ⟨pe, err⟩ := p
    cases err <;> simp [failure, Alternative.failure]

end TieImp
end Restful
