/- what the checked reading `readTemplate` of a built route's path gives the proofs -/
import Restful.Spec.Admits
namespace Restful

theorem readTemplate_facts {path : Str} {ts : List TTok} (h : readTemplate path = some ts) :
    ts.map TTok.render = tokenize path ∧ (∀ t ∈ ts, t.wf = true) ∧ shapeOK ts = true ∧
      hasCustomVerb path = lastHasVerb ts ∧ (varNames ts).Nodup := by
  unfold readTemplate at h
  split at h
  · rename_i ts' hr
    split at h
    · rename_i hc
      simp only [Option.some.injEq] at h
      subst h
      simp only [Bool.and_eq_true, beq_iff_eq, decide_eq_true_eq] at hc
      obtain ⟨hr1, hr2⟩ := readToks_render hr
      exact ⟨hr1, hr2, hc.1.1, hc.1.2, hc.2⟩
    · simp at h
  · simp at h

theorem built_pathParts (svc : Service) {rt : Route} (h : rt ∈ svc.built) :
    rt.pathParts = tokenize rt.path ∧ rt.hasCustomVerb = hasCustomVerb rt.path := by
  unfold Service.built at h
  simp only [List.mem_map] at h
  obtain ⟨r, _, rfl⟩ := h
  exact ⟨rfl, rfl⟩

end Restful
