/- curly.go `computeWebserviceScore` as translated on this run IS the model's (`Curly.wsScoreE`) -/
import Restful.Lemmas.TieImpCurlyTok
namespace Restful
namespace TieImp
namespace T2
open Imp

abbrev WsState := Option (Bool × Int) × Int

def wsPost (s : WsState) : Option Int :=
  match s.1 with
  | some r => scoreProj r
  | none => some s.2

def wsBody (X : ImpGen.Ext) (qs toks : List Str) (i : Int) (s : WsState) : Option (ForInStep WsState) := do
  let each ← at? qs i
  let other ← at? toks i
  if (len each == 0 && len other == 0) then pure (.yield ⟨none, s.2 + 1⟩)
  else if (decide (len other > 0) && Str.hasPrefix ['{'] other) then
    if len each == 0 then pure (.done ⟨some (false, s.2), s.2⟩)
    else if index other [':'] != -1 then do
        let x ← ImpGen.CurlyRouter_regularMatchesPathToken X other (index other [':']) each
        if !x.1 then pure (.done ⟨some (false, s.2), s.2⟩) else pure (.yield ⟨none, s.2 + 1⟩)
      else pure (.yield ⟨none, s.2 + 1⟩)
  else if each != other then pure (.done ⟨some (false, s.2), s.2⟩)
  else pure (.yield ⟨none, s.2 + (len toks - i) * 10⟩)

theorem len_beq_zero {α : Type} (xs : List α) : (len xs == 0) = xs.isEmpty := by
  cases xs <;> simp [len] <;> omega

theorem len_pos {α : Type} (xs : List α) : decide (len xs > 0) = !xs.isEmpty := by
  cases xs <;> simp [len] <;> omega

theorem ws_loop (rx : Str → Str → Bool × GoErr) (full : Str → Str → Bool) (join : Str → Str → Str)
    (qs toks : List Str) (f : Int → WsState → Option (ForInStep WsState))
    (hf : ∀ i s, f i s = wsBody (extOf rx join) qs toks i s)
    (hq : toks.length ≤ qs.length)
    (n k : Nat) (hk : k + n = toks.length) (acc : Nat) (sc : Int) (hsc : sc = (acc : Int)) :
    (forIn (m := Option) ((List.range' k n).map (fun k : Nat => (k : Int))) ⟨none, sc⟩ f).map wsPost
      = ofScore (Curly.scoreWalkE (envOf rx full) (toks.drop k) (qs.drop k) acc) := by
  induction n generalizing k acc sc with
  | zero =>
    have : toks.drop k = [] := by simp; omega
    simp [this, Curly.scoreWalkE, ofScore, wsPost, hsc]
  | succ n ih =>
    have hlt : k < toks.length := by omega
    have hlq : k < qs.length := by omega
    have hts : (toks.drop (k + 1)).length = n := by simp; omega
    rw [List.drop_eq_getElem_cons hlt, List.drop_eq_getElem_cons hlq]
    simp only [List.range'_succ, List.map_cons, List.forIn_cons, hf, wsBody, at?_nat,
      List.getElem?_eq_getElem hlt, List.getElem?_eq_getElem hlq, Option.bind_eq_bind, Option.bind_some,
      Curly.scoreWalkE, len_beq_zero, len_pos, index_single, hts]
    have hsc' : (len toks - (k : Int)) * 10 = (((n + 1) * 10 : Nat) : Int) := by
      simp only [len]; omega
    rw [hsc']
    generalize toks[k] = other
    generalize qs[k] = each
    have ih1 := ih (k + 1) (by omega) (acc + 1) (sc + 1) (by omega)
    have ih2 := ih (k + 1) (by omega) (acc + (n + 1) * 10) (sc + (((n + 1) * 10 : Nat) : Int))
      (by rw [hsc]; simp)
    by_cases c1 : (each.isEmpty && other.isEmpty) = true
    · simp [-List.forIn_map, c1, ih1]
    · simp only [c1]
      by_cases c2 : (!other.isEmpty && Str.hasPrefix ['{'] other) = true
      · simp only [c2]
        by_cases c3 : each.isEmpty = true
        · simp [c3, wsPost, scoreProj, ofScore]
        · simp only [c3]
          cases hi : Str.index ':' other with
          | none => simp [-List.forIn_map, ih1]
          | some colon =>
            have hne : ((colon : Int) != -1) = true := by simp
            simp only [hne]
            rw [regular_matches rx full join other colon each]
            cases Curly.regularMatches (envOf rx full) other colon each <;>
              simp [-List.forIn_map, ofStep, ofScore, wsPost, scoreProj, ih1]
      · simp only [c2]
        by_cases c3 : (each != other) = true
        · simp [c3, wsPost, scoreProj, ofScore]
        · simp [-List.forIn_map, c3, ← ih2]

theorem ws_post_eq (x : Option WsState) (g : WsState → Option (Bool × Int))
    (hg : ∀ s, (g s).map scoreProj = some (wsPost s)) :
    Option.map scoreProj (x >>= g) = x.map wsPost := by
  cases x with
  | none => rfl
  | some s => simpa using hg s

theorem range_zero_len {α : Type} (xs : List α) :
    Imp.range 0 (len xs) = (List.range' 0 xs.length).map (fun k : Nat => (k : Int)) :=
  range_nat_len 0 xs

theorem webservice_score (rx : Str → Str → Bool × GoErr) (full : Str → Str → Bool) (join : Str → Str → Str)
    (qs toks : List Str) :
    (ImpGen.CurlyRouter_computeWebserviceScore (extOf rx join) qs toks).map scoreProj
      = ofScore (Curly.wsScoreE (envOf rx full) qs toks) := by
  unfold ImpGen.CurlyRouter_computeWebserviceScore Curly.wsScoreE
  simp only [String.reduceToList, range_zero_len]
  by_cases h : toks.length > qs.length
  · have : len toks > len qs := by simp only [len]; omega
    simp [h, this, ofScore, scoreProj]
  · have h' : ¬ (len toks > len qs) := by simp only [len]; omega
    simp only [h', h, decide_false, if_false, Bool.false_eq_true]
    have key := fun f hf => ws_loop rx full join qs toks f hf (by omega) toks.length 0 (by omega) 0 0 rfl
    simp only [List.drop_zero] at key
    refine (ws_post_eq _ _ ?_).trans (key _ (fun _ _ => rfl))
    rintro ⟨a, b⟩
    cases a <;> rfl

end T2
end TieImp
end Restful
