/- curly.go `computeWebserviceScore` as translated on this run IS the model's (`Curly.wsScoreE`) -/
import Restful.Lemmas.TieImpCurlyTok
import Restful.Lemmas.TieImpTactic
namespace Restful
namespace TieImp
namespace T2
open Imp
set_option linter.unusedSimpArgs false

abbrev WsState := Option (Bool × Int) × Int

def wsPost (s : WsState) : Option Int :=
  match s.1 with
  | some r => scoreProj r
  | none => some s.2

/-- one iteration of the loop after the two tokens have been read, written by hand with the emptiness tests in
    normal form (`tie_norm`) -/
def wsStep (X : ImpGen.Ext) (toks : List Str) (i : Int) (each other : Str) (s : WsState) :
    Option (ForInStep WsState) :=
  if (each.isEmpty && other.isEmpty) then pure (.yield ⟨none, s.2 + 1⟩)
  else if Str.hasPrefix ['{'] other then
    if each.isEmpty then pure (.done ⟨some (false, s.2), s.2⟩)
    else if index other [':'] != -1 then do
        let x ← ImpGen.CurlyRouter_regularMatchesPathToken X other (index other [':']) each
        if !x.1 then pure (.done ⟨some (false, s.2), s.2⟩) else pure (.yield ⟨none, s.2 + 1⟩)
      else pure (.yield ⟨none, s.2 + 1⟩)
  else if each != other then pure (.done ⟨some (false, s.2), s.2⟩)
  else pure (.yield ⟨none, s.2 + (len toks - i) * 10⟩)

theorem len_beq_zero {α : Type} (xs : List α) : (len xs == 0) = xs.isEmpty := by
  cases xs <;> simp [len] <;> omega

theorem len_pos {α : Type} (xs : List α) : decide (len xs > 0) = !xs.isEmpty := by
  cases xs <;> simp [len] <;> omega

/-- the loop over the positions `k, k+1, …` of the tokens, in whatever form the code enumerates them (`mk`: the
    index alone for `for i := 0; i < len(tokens); i++`, the index with the token for `for i, other := range tokens`);
    the body is abstract: at position `j` it does what `wsStep` does with the two tokens at `j` -/
theorem ws_loop {ι : Type} (mk : Nat → ι) (rx : Str → Str → Bool × GoErr) (full : Str → Str → Bool)
    (join : Str → Str → Str)
    (qs toks : List Str) (f : ι → WsState → Option (ForInStep WsState))
    (hf : ∀ (j : Nat) (each other : Str) (s : WsState), qs[j]? = some each → toks[j]? = some other →
      f (mk j) s = wsStep (extOf rx join) toks (j : Int) each other s)
    (hq : toks.length ≤ qs.length)
    (n k : Nat) (hk : k + n = toks.length) (acc : Nat) (sc : Int) (hsc : sc = (acc : Int)) :
    (forIn (m := Option) ((List.range' k n).map mk) ⟨none, sc⟩ f).map wsPost
      = ofScore (Curly.scoreWalkE (envOf rx full) (toks.drop k) (qs.drop k) acc) := by
  induction n generalizing k acc sc with
  | zero =>
    have : toks.drop k = [] := by simp; omega
    simp [this, Curly.scoreWalkE, ofScore, wsPost, hsc]
  | succ n ih =>
    have hlt : k < toks.length := by omega
    have hlq : k < qs.length := by omega
    have hts : (toks.drop (k + 1)).length = n := by simp; omega
    rw [List.drop_eq_getElem_cons hlt, List.drop_eq_getElem_cons hlq]
    simp only [List.range'_succ, List.map_cons, List.forIn_cons,
      hf k qs[k] toks[k] _ (List.getElem?_eq_getElem hlq) (List.getElem?_eq_getElem hlt), wsStep,
      Option.bind_eq_bind, Option.bind_some,
      Curly.scoreWalkE, index_single, hts, nonempty_and_hasPrefix]
    have hsc' : (len toks - (k : Int)) * 10 = (((n + 1) * 10 : Nat) : Int) := by
      simp only [len]; omega
    rw [hsc']
    generalize toks[k] = other
    generalize qs[k] = each
    have ih1 := ih (k + 1) (by omega) (acc + 1) (sc + 1) (by omega)
    have ih2 := ih (k + 1) (by omega) (acc + (n + 1) * 10) (sc + (((n + 1) * 10 : Nat) : Int))
      (by rw [hsc]; simp)
    by_cases c1 : (each.isEmpty && other.isEmpty) = true
    · simp [-List.forIn_map, c1, ih1]
    · simp only [c1]
      by_cases c2 : (Str.hasPrefix ['{'] other) = true
      · simp only [c2]
        by_cases c3 : each.isEmpty = true
        · simp [c3, wsPost, scoreProj, ofScore]
        · simp only [c3]
          cases hi : Str.index ':' other with
          | none => simp [-List.forIn_map, ih1]
          | some colon =>
            have hne : ((colon : Int) != -1) = true := by simp
            simp only [hne]
            rw [regular_matches rx full join other colon each]
            cases Curly.regularMatches (envOf rx full) other colon each <;>
              simp [-List.forIn_map, ofStep, ofScore, wsPost, scoreProj, ih1]
      · simp only [c2]
        by_cases c3 : (each != other) = true
        · simp [c3, wsPost, scoreProj, ofScore]
        · simp [-List.forIn_map, c3, ← ih2]

theorem ws_post_eq (x : Option WsState) (g : WsState → Option (Bool × Int))
    (hg : ∀ s, (g s).map scoreProj = some (wsPost s)) :
    Option.map scoreProj (x >>= g) = x.map wsPost := by
  cases x with
  | none => rfl
  | some s => simpa using hg s

theorem range_zero_len {α : Type} (xs : List α) :
    Imp.range 0 (len xs) = (List.range' 0 xs.length).map (fun k : Nat => (k : Int)) :=
  range_nat_len 0 xs

/-- `for i, x := range xs` enumerates the positions `0 … len(xs)-1`, each with its element -/
theorem enum_eq_range_map (xs : List Str) :
    Imp.enum xs = (List.range' 0 xs.length).map (fun k : Nat => ((k : Int), xs.getD k [])) := by
  unfold Imp.enum
  apply List.ext_getElem
  · simp
  · intro i h1 h2
    simp at h1
    simp [h1]

theorem webservice_score (rx : Str → Str → Bool × GoErr) (full : Str → Str → Bool) (join : Str → Str → Str)
    (qs toks : List Str) :
    (ImpGen.CurlyRouter_computeWebserviceScore (extOf rx join) qs toks).map scoreProj
      = ofScore (Curly.wsScoreE (envOf rx full) qs toks) := by
  unfold ImpGen.CurlyRouter_computeWebserviceScore Curly.wsScoreE
  simp only [String.reduceToList, range_zero_len, enum_eq_range_map]
  by_cases h : toks.length > qs.length
  · have : len toks > len qs := by simp only [len]; omega
    simp [h, this, ofScore, scoreProj]
  · have h' : ¬ (len toks > len qs) := by simp only [len]; omega
    simp only [h', h, decide_false, if_false, Bool.false_eq_true]
    have key := fun {ι : Type} (mk : Nat → ι) f hf =>
      ws_loop mk rx full join qs toks f hf (by omega) toks.length 0 (by omega) 0 0 rfl
    simp only [List.drop_zero] at key
    refine (ws_post_eq _ _ ?_).trans (key _ _ ?hf)
    case hf =>
      intro j each other s h1 h2
      have h3 : toks.getD j [] = other := by simp [h2]
      simp only [at?_nat, h1, h2, h3, Option.bind_eq_bind, Option.bind_some]
      tie_norm
      tie_step [wsStep]
    rintro ⟨a, b⟩
    cases a <;> rfl

end T2
end TieImp
end Restful
