import Restful.Lemmas.TieImpTactic
import Restful.Lemmas.TieImpVocab
import Restful.Lemmas.TieImpAllowed
import Restful.Lemmas.TieImpLoop
import Restful.Model.Options
namespace Restful
namespace TieImp
namespace T11
open Imp
set_option linter.unusedSimpArgs false

/-- a `for … range` whose body is `if f x { return true }` -/
theorem any_loop {α : Type} (f : α → Bool) (l : List α) :
    forIn l ((none : Option Bool), ()) (fun p _ =>
      if f p = true then (some (ForInStep.done (some true, ())) : Option _)
      else some (ForInStep.yield (none, ()))) = some (if l.any f then some true else none, ()) := by
  induction l with
  | nil => simp
  | cons a t ih =>
    rw [List.forIn_cons]
    by_cases h : f a = true
    · simp [h]
    · simp only [h, List.any_cons, Bool.false_or]
      simpa using ih

/-- a `for … range` whose body is `if f x { return true }; if g x { return true }` -/
theorem any_loop2 {α : Type} (f g : α → Bool) (l : List α) :
    forIn l ((none : Option Bool), ()) (fun p _ =>
      if f p = true then (some (ForInStep.done (some true, ())) : Option _)
      else if g p = true then some (ForInStep.done (some true, ()))
      else some (ForInStep.yield (none, ()))) = some (if l.any (fun x => f x || g x) then some true else none, ()) := by
  induction l with
  | nil => simp
  | cons a t ih =>
    rw [List.forIn_cons]
    by_cases h : f a = true
    · simp [h]
    · by_cases h2 : g a = true
      · simp [h, h2]
      · simp only [h, h2, List.any_cons, Bool.false_or]
        simpa using ih

/-- a `for … range` that ends at the first element passing the test `t`, with an abstract body: all it has to do
    is to end the loop with the state `d` on such an element and to go on unchanged on the others -/
theorem any_loop_gen {α σ : Type} (t : α → Bool) (f : α → σ → Option (ForInStep σ)) (l : List α) (init d : σ)
    (hf : ∀ x, f x init = some (if t x = true then ForInStep.done d else ForInStep.yield init)) :
    forIn l init f = some (if l.any t = true then d else init) := by
  induction l with
  | nil => simp
  | cons a t' ih =>
    rw [List.forIn_cons, hf]
    cases h : t a <;> simp [ih, h]

/-- the fields of the filter value the model reads -/
def cfgOf (c : ImpGen.GoCrossOriginResourceSharing) : Cors.CorsCfg :=
  { exposeHeaders := c.ExposeHeaders, allowedHeaders := c.AllowedHeaders, allowedDomains := c.AllowedDomains,
    pred := c.AllowedDomainFunc, allowedMethods := c.AllowedMethods, maxAge := c.MaxAge, cookies := c.CookiesAllowed }

theorem domainLoop_eq (lower : Str → Str) (lo : Str) (l : List Str) :
    Cors.domainLoop lower lo l = l.any (fun d => d == ".*".toList || lower d == lo) := by
  induction l with
  | nil => rfl
  | cons a t ih =>
    simp only [Cors.domainLoop, ih, List.any_cons, Cors.sDotStar]
    by_cases h1 : a = ['.', '*'] <;> by_cases h2 : lower a = lo <;> simp [h1, h2]

theorem isOriginAllowed_tie (X : ImpGen.Ext) (c : ImpGen.GoCrossOriginResourceSharing) (origin : Str) :
    ImpGen.CrossOriginResourceSharing_isOriginAllowed X c origin
      = some (Cors.isOriginAllowed X.strings_ToLower (cfgOf c) origin) := by
  unfold ImpGen.CrossOriginResourceSharing_isOriginAllowed Cors.isOriginAllowed
  simp only [deref, Option.bind_eq_bind, Option.pure_def, any_loop, T5.len_beq_zero, cfgOf,
    Option.bind_some, domainLoop_eq, List.length_eq_zero_iff, List.isEmpty_iff]
  generalize (c.AllowedDomains.any _) = b
  cases c.AllowedDomainFunc <;> cases b <;> (repeat' split) <;> simp_all

theorem isValidMethod_eq (m : Str) (l : List Str) :
    Cors.isValidAccessControlRequestMethod m l = l.any (fun e => e == m) := by
  induction l with
  | nil => rfl
  | cons a t ih =>
    simp only [Cors.isValidAccessControlRequestMethod, ih, List.any_cons]
    by_cases h1 : a = m <;> simp [h1]

theorem isValidMethod_tie (X : ImpGen.Ext) (c : ImpGen.GoCrossOriginResourceSharing) (m : Str) (l : List Str) :
    ImpGen.CrossOriginResourceSharing_isValidAccessControlRequestMethod X c m l
      = some (Cors.isValidAccessControlRequestMethod m l) := by
  unfold ImpGen.CrossOriginResourceSharing_isValidAccessControlRequestMethod
  simp only [Option.bind_eq_bind, Option.pure_def, any_loop, Option.bind_some, isValidMethod_eq]
  generalize (l.any _) = b
  cases b <;> rfl

theorem isValidHeader_eq (lower : Str → Str) (h : Str) (l : List Str) :
    Cors.isValidAccessControlRequestHeader lower h l = l.any (fun e => lower e == lower h || e == "*".toList) := by
  induction l with
  | nil => rfl
  | cons a t ih =>
    simp only [Cors.isValidAccessControlRequestHeader, ih, List.any_cons, Cors.sStar]
    by_cases h1 : lower a = lower h <;> by_cases h2 : a = ['*'] <;> simp [h1, h2]

theorem isValidHeader_tie (X : ImpGen.Ext) (c : ImpGen.GoCrossOriginResourceSharing) (h : Str) :
    ImpGen.CrossOriginResourceSharing_isValidAccessControlRequestHeader X c h
      = some (Cors.isValidAccessControlRequestHeader X.strings_ToLower h (cfgOf c).allowedHeaders) := by
  unfold ImpGen.CrossOriginResourceSharing_isValidAccessControlRequestHeader
  simp only [Option.bind_eq_bind, Option.pure_def]
  -- the loop returns at the first element that passes the test, however the body spells the test (two `if`s,
  -- one `||`, the lower-cased header computed once before the loop)
  rw [any_loop_gen (fun e => X.strings_ToLower e == X.strings_ToLower h || e == "*".toList)]
  case hf =>
    intro x
    cases (X.strings_ToLower x == X.strings_ToLower h) <;> cases (x == "*".toList) <;> rfl
  simp only [Option.bind_some, isValidHeader_eq, cfgOf]
  generalize (c.AllowedHeaders.any _) = b
  cases b <;> rfl

theorem exposeHeaders_tie (X : ImpGen.Ext) (c : ImpGen.GoCrossOriginResourceSharing) (resp : RespLog) :
    ImpGen.CrossOriginResourceSharing_checkAndSetExposeHeaders X c resp
      = some (resp ++ Cors.checkAndSetExposeHeaders (cfgOf c)) := by
  unfold ImpGen.CrossOriginResourceSharing_checkAndSetExposeHeaders Cors.checkAndSetExposeHeaders
  simp only [Option.pure_def, T5.len_pos_decide]
  show _ = some (resp ++ if c.ExposeHeaders.length > 0 then [("Access-Control-Expose-Headers".toList, Str.join ",".toList c.ExposeHeaders)] else [])
  cases c.ExposeHeaders <;> simp [push]

theorem allowCredentials_tie (X : ImpGen.Ext) (c : ImpGen.GoCrossOriginResourceSharing) (resp : RespLog) :
    ImpGen.CrossOriginResourceSharing_checkAndSetAllowCredentials X c resp
      = some (resp ++ Cors.checkAndSetAllowCredentials (cfgOf c)) := by
  unfold ImpGen.CrossOriginResourceSharing_checkAndSetAllowCredentials Cors.checkAndSetAllowCredentials
  simp only [Option.pure_def]
  show _ = some (resp ++ if c.CookiesAllowed then [("Access-Control-Allow-Credentials".toList, "true".toList)] else [])
  cases c.CookiesAllowed <;> simp [push]

/-- what the filter reads of a request -/
def reqOf (hr : HttpRequest) : Cors.CorsReq :=
  { method := hr.method, path := hr.path, origin := hr.header "Origin".toList,
    acrm := hr.header "Access-Control-Request-Method".toList,
    acrh := hr.header "Access-Control-Request-Headers".toList }

theorem setAllowOrigin_tie (X : ImpGen.Ext) (c : ImpGen.GoCrossOriginResourceSharing) (hr : HttpRequest) (resp : RespLog) :
    ImpGen.CrossOriginResourceSharing_setAllowOriginHeader X c (some { Request := hr }) resp
      = some (resp ++ Cors.setAllowOriginHeader X.strings_ToLower (cfgOf c) (reqOf hr)) := by
  unfold ImpGen.CrossOriginResourceSharing_setAllowOriginHeader Cors.setAllowOriginHeader
  simp only [Option.pure_def, deref, Option.bind_eq_bind, Option.bind_some, isOriginAllowed_tie]
  show _ = some (resp ++ if Cors.isOriginAllowed X.strings_ToLower (cfgOf c) (hr.header "Origin".toList) then
    [("Access-Control-Allow-Origin".toList, hr.header "Origin".toList)] else [])
  cases Cors.isOriginAllowed X.strings_ToLower (cfgOf c) (hr.header "Origin".toList) <;> simp [push]

theorem setOptionsHeaders_tie (X : ImpGen.Ext) (hitoa : X.strconv_Itoa = Cors.itoa)
    (c : ImpGen.GoCrossOriginResourceSharing) (hr : HttpRequest) (resp : RespLog) :
    ImpGen.CrossOriginResourceSharing_setOptionsHeaders X c (some { Request := hr }) resp
      = some (resp ++ Cors.setOptionsHeaders X.strings_ToLower (cfgOf c) (reqOf hr)) := by
  unfold ImpGen.CrossOriginResourceSharing_setOptionsHeaders Cors.setOptionsHeaders
  simp only [Option.pure_def, Option.bind_eq_bind, Option.bind_some, exposeHeaders_tie, setAllowOrigin_tie,
    allowCredentials_tie, hitoa]
  show _ = some (resp ++ (_ ++ _ ++ _ ++ if c.MaxAge > 0 then [("Access-Control-Max-Age".toList, Cors.itoa c.MaxAge)] else []))
  by_cases h : c.MaxAge > 0 <;> simp [push, h]

theorem doActualRequest_tie (X : ImpGen.Ext) (hitoa : X.strconv_Itoa = Cors.itoa)
    (c : ImpGen.GoCrossOriginResourceSharing) (hr : HttpRequest) (resp : RespLog) :
    ImpGen.CrossOriginResourceSharing_doActualRequest X c (some { Request := hr }) resp
      = some (resp ++ Cors.doActualRequest X.strings_ToLower (cfgOf c) (reqOf hr)) := by
  unfold ImpGen.CrossOriginResourceSharing_doActualRequest Cors.doActualRequest
  simp only [Option.pure_def, Option.bind_eq_bind, Option.bind_some, setOptionsHeaders_tie X hitoa]


/-- a `for … range` whose body is `if !f x { return v }` -/
theorem all_loop {α β : Type} (f : α → Bool) (v : β) (l : List α) :
    forIn l ((none : Option β), ()) (fun p _ =>
      if (!f p) = true then (some (ForInStep.done (some v, ())) : Option _)
      else some (ForInStep.yield (none, ()))) = some (if l.all f then none else some v, ()) := by
  induction l with
  | nil => simp
  | cons a t ih =>
    rw [List.forIn_cons]
    by_cases h : f a = true
    · simp only [h, List.all_cons, Bool.true_and]
      simpa using ih
    · simp [h]

theorem requestHeadersLoop_eq (lower : Str → Str) (ah : List Str) (l : List Str) :
    Cors.requestHeadersLoop lower ah l
      = l.all (fun each => Cors.isValidAccessControlRequestHeader lower (Str.trim ' ' each) ah) := by
  induction l with
  | nil => rfl
  | cons a t ih =>
    simp only [Cors.requestHeadersLoop, ih, List.all_cons]
    cases Cors.isValidAccessControlRequestHeader lower (Str.trim ' ' a) ah <;> simp

/-- the container the methods are computed on is the filter's own (`c.Container`) when it has one, else the
    package variable `DefaultContainer` -/
def OnContainer (X : ImpGen.Ext) (c : ImpGen.GoCrossOriginResourceSharing) (k : ImpGen.GoContainer) : Prop :=
  c.Container = some k ∨ (c.Container = none ∧ X.DefaultContainer = some k)

theorem doPreflight_tie_gen (X : ImpGen.Ext) (hitoa : X.strconv_Itoa = Cors.itoa) (E : ReEnv)
    (mk : RouteDecl → Option ImpGen.GoPathExpression → ImpGen.GoRoute)
    (hmk : ∀ rt pe, (mk rt pe).Method = rt.method ∧ (mk rt pe).pathExpr = pe)
    (c : ImpGen.GoCrossOriginResourceSharing) (tbl : Config)
    (hc : OnContainer X c { webServices := tbl.services.map (fun ws => some (genWS E mk ws)) })
    (hr : HttpRequest) (rq : Cors.CorsReq) (hreq : reqOf hr = rq) (resp : RespLog) :
    ImpGen.CrossOriginResourceSharing_doPreflightRequest X (some c) (some { Request := hr }) resp
      = (Cors.doPreflightRequest X.strings_ToLower E (cfgOf c) tbl rq).map
          (fun r => (some { c with AllowedMethods := r.1.allowedMethods }, resp ++ r.2)) := by
  have h2 : hr.header "Access-Control-Request-Method".toList = rq.acrm := congrArg Cors.CorsReq.acrm hreq
  have h3 : hr.header "Access-Control-Request-Headers".toList = rq.acrh := congrArg Cors.CorsReq.acrh hreq
  have h4 : hr.path = rq.path := congrArg Cors.CorsReq.path hreq
  obtain ⟨eh, ah, ad, adf, am, ma, ca, ct⟩ := c
  unfold ImpGen.CrossOriginResourceSharing_doPreflightRequest
  -- whichever of the two containers is read, it is the table's
  rcases hc with hc | ⟨hc, hdc⟩
  case' inr => rw [hdc]
  all_goals
    dsimp only at hc
    subst hc
    simp only [Option.pure_def, deref, Option.bind_eq_bind, Option.bind_some, Option.isNone_some, Option.isNone_none,
      Bool.false_eq_true, if_true, if_false,
      compute_allowed_methods E X mk hmk, isValidMethod_tie, isValidHeader_tie, all_loop,
      setOptionsHeaders_tie X hitoa, T5.len_beq_zero, T5.len_pos_decide, h2, h3, h4, hreq]
    unfold Cors.doPreflightRequest
    simp only [requestHeadersLoop_eq]
    simp only [cfgOf]
    rw [show Cors.sComma = ",".toList from rfl, show Cors.hAllowMethods = "Access-Control-Allow-Methods".toList from rfl,
      show Cors.hAllowHeaders = "Access-Control-Allow-Headers".toList from rfl]
    by_cases hm : am = []
    · simp only [hm, List.isEmpty_nil, if_true, Bool.false_eq_true, if_false, List.length_nil]
      cases Cors.computeAllowedMethods E tbl.services rq.path with
      | none => rfl
      | some ams =>
        simp only [Option.bind_some, Option.map_some]
        by_cases hb1 : Cors.isValidAccessControlRequestMethod rq.acrm ams = true
        · simp only [hb1, Bool.not_true, Bool.false_eq_true, if_false]
          by_cases hb0 : rq.acrh = []
          · simp only [hb0, push, List.isEmpty_nil, Bool.not_true, Bool.false_eq_true, if_false, List.length_nil, gt_iff_lt, Nat.lt_irrefl, decide_false, Bool.false_and, Option.map_some, List.append_assoc, List.cons_append, List.nil_append]
          · have h3 : rq.acrh.isEmpty = false := by simpa using hb0
            have h4 : rq.acrh.length > 0 := List.length_pos_iff.mpr hb0
            simp only [h3, h4, Bool.not_false, if_true, decide_true, Bool.true_and]
            by_cases hb2 : ((Str.split ',' rq.acrh).all fun p =>
              Cors.isValidAccessControlRequestHeader X.strings_ToLower (Str.trim ' ' p) ah) = true
            all_goals simp only [hb2, push, Bool.not_true, Bool.false_eq_true, if_false, Option.map_some, List.append_assoc, List.cons_append, List.nil_append, List.append_nil, Bool.not_eq_true, Bool.not_false, if_true]
        · simp only [hb1, Bool.not_false, if_true, Option.map_some, List.append_nil]
    · have h1 : am.isEmpty = false := by simpa using hm
      have h2 : ¬ am.length = 0 := by simpa using hm
      simp only [h1, h2, Bool.false_eq_true, if_false, Option.map_some]
      by_cases hb1 : Cors.isValidAccessControlRequestMethod rq.acrm am = true
      · simp only [hb1, Bool.not_true, Bool.false_eq_true, if_false]
        by_cases hb0 : rq.acrh = []
        · simp only [hb0, push, List.isEmpty_nil, Bool.not_true, Bool.false_eq_true, if_false, List.length_nil, gt_iff_lt, Nat.lt_irrefl, decide_false, Bool.false_and, Option.map_some, List.append_assoc, List.cons_append, List.nil_append]
        · have h3 : rq.acrh.isEmpty = false := by simpa using hb0
          have h4 : rq.acrh.length > 0 := List.length_pos_iff.mpr hb0
          simp only [h3, h4, Bool.not_false, if_true, decide_true, Bool.true_and]
          by_cases hb2 : ((Str.split ',' rq.acrh).all fun p =>
            Cors.isValidAccessControlRequestHeader X.strings_ToLower (Str.trim ' ' p) ah) = true
          all_goals simp only [hb2, push, Bool.not_true, Bool.false_eq_true, if_false, Option.map_some, List.append_assoc, List.cons_append, List.nil_append, List.append_nil, Bool.not_eq_true, Bool.not_false, if_true]
      · simp only [hb1, Bool.not_false, if_true, Option.map_some, List.append_nil]

theorem doPreflight_tie' (X : ImpGen.Ext) (hitoa : X.strconv_Itoa = Cors.itoa) (E : ReEnv)
    (mk : RouteDecl → Option ImpGen.GoPathExpression → ImpGen.GoRoute)
    (hmk : ∀ rt pe, (mk rt pe).Method = rt.method ∧ (mk rt pe).pathExpr = pe)
    (c : ImpGen.GoCrossOriginResourceSharing) (tbl : Config)
    (hc : c.Container = some { webServices := tbl.services.map (fun ws => some (genWS E mk ws)) })
    (hr : HttpRequest) (rq : Cors.CorsReq) (hreq : reqOf hr = rq) (resp : RespLog) :
    ImpGen.CrossOriginResourceSharing_doPreflightRequest X (some c) (some { Request := hr }) resp
      = (Cors.doPreflightRequest X.strings_ToLower E (cfgOf c) tbl rq).map
          (fun r => (some { c with AllowedMethods := r.1.allowedMethods }, resp ++ r.2)) :=
  doPreflight_tie_gen X hitoa E mk hmk c tbl (Or.inl hc) hr rq hreq resp

theorem filter_tie_gen (X : ImpGen.Ext) (hitoa : X.strconv_Itoa = Cors.itoa) (E : ReEnv)
    (mk : RouteDecl → Option ImpGen.GoPathExpression → ImpGen.GoRoute)
    (hmk : ∀ rt pe, (mk rt pe).Method = rt.method ∧ (mk rt pe).pathExpr = pe)
    (c : ImpGen.GoCrossOriginResourceSharing) (tbl : Config)
    (hc : OnContainer X c { webServices := tbl.services.map (fun ws => some (genWS E mk ws)) })
    (hr : HttpRequest) (rq : Cors.CorsReq) (hreq : reqOf hr = rq) (resp : RespLog) (chain : ChainLog) :
    ImpGen.CrossOriginResourceSharing_Filter X c (some { Request := hr }) resp chain
      = (Cors.corsOut X.strings_ToLower E (cfgOf c) tbl rq).map
          (fun o => (resp ++ o.added, if o.passOn then chain ++ [resp ++ o.added] else chain)) := by
  have h1 : hr.header "Origin".toList = rq.origin := congrArg Cors.CorsReq.origin hreq
  have h2 : hr.header "Access-Control-Request-Method".toList = rq.acrm := congrArg Cors.CorsReq.acrm hreq
  have h4 : hr.method = rq.method := congrArg Cors.CorsReq.method hreq
  unfold ImpGen.CrossOriginResourceSharing_Filter
  simp only [Option.pure_def, deref, Option.bind_eq_bind, Option.bind_some, isOriginAllowed_tie,
    doActualRequest_tie X hitoa, doPreflight_tie_gen X hitoa E mk hmk c tbl hc hr rq hreq,
    T5.len_beq_zero, h1, h2, h4, hreq]
  unfold Cors.corsOut
  rw [show Cors.sOPTIONS = "OPTIONS".toList from rfl, show "".toList = ([] : List Char) from rfl]
  by_cases ho : rq.origin = []
  · simp only [ho, List.isEmpty_nil, if_true, List.length_nil, Option.map_some, List.append_nil, push]
  · have ho1 : rq.origin.isEmpty = false := by simpa using ho
    have ho2 : ¬ rq.origin.length = 0 := by simpa using ho
    simp only [ho1, ho2, Bool.false_eq_true, if_false]
    by_cases ha : Cors.isOriginAllowed X.strings_ToLower (cfgOf c) rq.origin = true
    · simp only [ha, Bool.not_true, Bool.false_eq_true, if_false]
      -- "is it OPTIONS" and "is there an Access-Control-Request-Method", in whichever order, nesting and polarity the
      -- code tests them (two guards, or one `||` / `&&` condition): all four cases, each closed by evaluation
      simp only [str_beq_decide, str_bne_decide, str_isEmpty_decide]
      by_cases hm : rq.method = "OPTIONS".toList <;> by_cases hq : rq.acrm = [] <;>
        cases hp : Cors.doPreflightRequest X.strings_ToLower E (cfgOf c) tbl rq <;>
        simp [hm, hq, push, Function.comp, -String.reduceToList]
    · simp only [ha, Bool.not_false, if_true, Option.map_some, List.append_nil, push]

theorem filter_tie' (X : ImpGen.Ext) (hitoa : X.strconv_Itoa = Cors.itoa) (E : ReEnv)
    (mk : RouteDecl → Option ImpGen.GoPathExpression → ImpGen.GoRoute)
    (hmk : ∀ rt pe, (mk rt pe).Method = rt.method ∧ (mk rt pe).pathExpr = pe)
    (c : ImpGen.GoCrossOriginResourceSharing) (tbl : Config)
    (hc : c.Container = some { webServices := tbl.services.map (fun ws => some (genWS E mk ws)) })
    (hr : HttpRequest) (rq : Cors.CorsReq) (hreq : reqOf hr = rq) (resp : RespLog) (chain : ChainLog) :
    ImpGen.CrossOriginResourceSharing_Filter X c (some { Request := hr }) resp chain
      = (Cors.corsOut X.strings_ToLower E (cfgOf c) tbl rq).map
          (fun o => (resp ++ o.added, if o.passOn then chain ++ [resp ++ o.added] else chain)) :=
  filter_tie_gen X hitoa E mk hmk c tbl (Or.inl hc) hr rq hreq resp chain

/-- a header function made of three distinct keys returns what it was made of -/
theorem hdr3 (k1 k2 k3 a b c : Str) (h21 : k2 ≠ k1) (h31 : k3 ≠ k1) (h32 : k3 ≠ k2) :
    (fun k : Str => if k = k1 then a else if k = k2 then b else if k = k3 then c else []) k1 = a ∧
    (fun k : Str => if k = k1 then a else if k = k2 then b else if k = k3 then c else []) k2 = b ∧
    (fun k : Str => if k = k1 then a else if k = k2 then b else if k = k3 then c else []) k3 = c := by
  simp [h21, h31, h32]

theorem acrm_ne_origin : "Access-Control-Request-Method".toList ≠ "Origin".toList := by decide
theorem acrh_ne_origin : "Access-Control-Request-Headers".toList ≠ "Origin".toList := by decide
theorem acrh_ne_acrm : "Access-Control-Request-Headers".toList ≠ "Access-Control-Request-Method".toList := by decide

theorem options_tie' (X : ImpGen.Ext) (E : ReEnv)
    (mk : RouteDecl → Option ImpGen.GoPathExpression → ImpGen.GoRoute)
    (hmk : ∀ rt pe, (mk rt pe).Method = rt.method ∧ (mk rt pe).pathExpr = pe)
    (tbl : Config) (hr : HttpRequest) (rq : Options.OptReq)
    (h1 : hr.header "Origin".toList = rq.origin)
    (h2 : hr.header "Access-Control-Request-Headers".toList = rq.acrh)
    (h3 : hr.method = rq.method) (h4 : hr.path = rq.path) (resp : RespLog) (chain : ChainLog) :
    ImpGen.Container_OPTIONSFilter X (some { webServices := tbl.services.map (fun ws => some (genWS E mk ws)) })
        (some { Request := hr }) resp chain
      = (Options.optionsOut E tbl rq).map
          (fun o => (resp ++ o.added, if o.passOn then chain ++ [resp ++ o.added] else chain)) := by
  unfold ImpGen.Container_OPTIONSFilter
  simp only [Option.pure_def, deref, Option.bind_eq_bind, Option.bind_some,
    compute_allowed_methods E X mk hmk, h1, h2, h3, h4]
  unfold Options.optionsOut
  rw [show Cors.sOPTIONS = "OPTIONS".toList from rfl, show Cors.sComma = ",".toList from rfl,
    show Cors.hAllowMethods = "Access-Control-Allow-Methods".toList from rfl,
    show Cors.hAllowHeaders = "Access-Control-Allow-Headers".toList from rfl,
    show Cors.hAllowOrigin = "Access-Control-Allow-Origin".toList from rfl]
  rw [show ("OPTIONS".toList != rq.method) = (rq.method != "OPTIONS".toList) from bne_comm]
  by_cases hm : (rq.method != "OPTIONS".toList) = true
  · simp only [hm, if_true, Option.map_some, List.append_nil, push]
  · simp only [hm, Bool.false_eq_true, if_false]
    cases Cors.computeAllowedMethods E tbl.services rq.path with
    | none => rfl
    | some ms =>
      simp only [Option.bind_some, Option.map_some, push, List.append_assoc, List.cons_append, List.nil_append,
        Bool.false_eq_true, if_false]

end T11
end TieImp
end Restful
