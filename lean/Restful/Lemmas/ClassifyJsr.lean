/-
C02 for RouterJSR311: totality and exact classification.

  * `compile` succeeds on every root and route path of a checked table (`Jsr.compile_some`); for a
    WebService WITHOUT routes `Config.wfTemplates` says nothing about the root path, hence the
    explicit hypothesis `Jsr.rootsRead`;
  * the route candidates of the dispatcher's service are, as a set, the built routes whose template
    admits the path (`Jsr.match_sound` / `Jsr.match_complete`, the latter for newline-free paths);
  * WHICH service is the dispatcher is specified independently of the router model:
    `Spec.bestServices` goes through `Spec.jsrBestService` (the first registered among the matching
    roots with a maximal key), and `Jsr.detectDispatcher_eq_spec` (Lemmas/JsrBest.lean) shows that
    the model's sort-and-take-first computes it.
-/
import Restful.Lemmas.ClassifyCurly
import Restful.Lemmas.JsrMatch
import Restful.Lemmas.JsrBest
namespace Restful
open Str
variable (E : ReEnv)

namespace Jsr

/-- `compile` succeeds on a path whose non-empty tokens read as documented tokens -/
theorem compile_some {p : Str} {a : List TTok} (hr : readToks (Spec.nonEmptyToks p) = some a)
    (hj : ∀ t ∈ a, Spec.tokJsrOK t = true) : ∃ ex, compile p = some ex := by
  have ⟨hrender, hwf⟩ := readToks_render hr
  unfold compile
  rw [parseToks_filter]
  have : (tokenize p).filter (fun t => !t.isEmpty) = a.map TTok.render := by
    rw [hrender]; rfl
  rw [this, parseToks_render a hwf hj]
  exact ⟨_, rfl⟩

theorem compile_of_template {root rel : Str} {ts : List TTok} (hts : Spec.readTemplateJ root rel = some ts) :
    (∃ ex, compile root = some ex) ∧ ∃ ex, compile rel = some ex := by
  obtain ⟨a, b, ha, hb, _, _, hjsr, _⟩ := readTemplateJ_spec hts
  exact ⟨compile_some ha (fun t ht => hjsr t (List.mem_append_left _ ht)),
    compile_some hb (fun t ht => hjsr t (List.mem_append_right _ ht))⟩

theorem template_of_wf {cfg : Config} (hk : cfg.router = .jsr) (hwf : cfg.wfTemplates = true) {svc : Service}
    (hsvc : svc ∈ cfg.services) {rt : Route} (hrt : rt ∈ svc.built) :
    ∃ ts, Spec.readTemplateJ svc.rootPath rt.relPath = some ts := by
  obtain ⟨ts, hts⟩ := C02.wf_template hwf hsvc hrt
  rw [hk] at hts
  simp only [Spec.templateOf] at hts
  rw [Service.built_root svc hrt] at hts
  exact ⟨ts, hts⟩

/-- every root path of a checked table compiles -/
theorem roots_compile {cfg : Config} (hk : cfg.router = .jsr) (hwf : cfg.wfTemplates = true)
    (hroots : rootsRead cfg = true) : ∀ s ∈ cfg.services, ∃ ex, compile s.rootPath = some ex := by
  intro s hs
  unfold rootsRead at hroots
  simp only [List.all_eq_true, Bool.or_eq_true, Bool.not_eq_true', List.isEmpty_eq_false_iff] at hroots
  cases hrs : s.routes with
  | nil =>
    rcases hroots s hs with h | h
    · exact absurd hrs h
    · obtain ⟨ts, hts⟩ := Option.isSome_iff_exists.mp h
      exact (compile_of_template hts).1
  | cons r rs =>
    have hrt : s.build r ∈ s.built := by
      unfold Service.built
      rw [hrs]; exact List.mem_cons_self
    obtain ⟨ts, hts⟩ := template_of_wf hk hwf hs hrt
    exact (compile_of_template hts).1

theorem routes_compile {cfg : Config} (hk : cfg.router = .jsr) (hwf : cfg.wfTemplates = true) {svc : Service}
    (hsvc : svc ∈ cfg.services) : ∀ rt ∈ svc.built, ∃ ex, compile rt.relPath = some ex := by
  intro rt hrt
  obtain ⟨ts, hts⟩ := template_of_wf hk hwf hsvc hrt
  exact (compile_of_template hts).2

theorem dispCandidates_some : ∀ (svcs : List Service) (path : Str),
    (∀ s ∈ svcs, ∃ ex, compile s.rootPath = some ex) → ∃ cs, dispCandidates E svcs path = some cs
  | [], _, _ => ⟨[], rfl⟩
  | s :: ss, path, h => by
    obtain ⟨ex, hex⟩ := h s List.mem_cons_self
    obtain ⟨cs, hcs⟩ := dispCandidates_some ss path (fun x hx => h x (List.mem_cons_of_mem _ hx))
    rw [dispCandidates]
    simp only [hex]
    split
    · rw [hcs]; exact ⟨_, rfl⟩
    · exact ⟨cs, hcs⟩

/-- the route expression matches the remainder, leaving nothing or one slash -/
def Matched (r : Route) (rem : Str) : Prop :=
  ∃ ex caps f, compile r.relPath = some ex ∧ matchExpr E ex.toks rem = some (caps, f) ∧ (f = [] ∨ f = ['/'])

/-- the candidate loop succeeds when every route path compiles, and misses no matching route -/
theorem routeCandidates_complete : ∀ (routes : List Route) (rem : Str),
    (∀ r ∈ routes, ∃ ex, compile r.relPath = some ex) →
    ∃ cs, routeCandidates E routes rem = some cs ∧ ∀ r ∈ routes, Matched E r rem → ∃ c ∈ cs, c.route = r
  | [], _, _ => ⟨[], rfl, by simp⟩
  | r :: rs, rem, h => by
    obtain ⟨ex, hex⟩ := h r List.mem_cons_self
    obtain ⟨cs, hcs, hall⟩ := routeCandidates_complete rs rem (fun x hx => h x (List.mem_cons_of_mem _ hx))
    rw [routeCandidates]
    simp only [hex]
    cases hm : matchExpr E ex.toks rem with
    | none =>
      simp only
      refine ⟨cs, hcs, ?_⟩
      intro r' hr' hmat
      simp only [List.mem_cons] at hr'
      rcases hr' with rfl | hr'
      · obtain ⟨ex', caps, f, hex', hm', _⟩ := hmat
        rw [hex] at hex'
        simp only [Option.some.injEq] at hex'
        subst hex'
        rw [hm] at hm'; simp at hm'
      · exact hall r' hr' hmat
    | some cf =>
      obtain ⟨caps, f⟩ := cf
      simp only
      by_cases hf : (f.isEmpty || decide (f = ['/'])) = true
      · rw [if_pos hf, hcs]
        refine ⟨_, rfl, ?_⟩
        intro r' hr' hmat
        simp only [List.mem_cons] at hr'
        rcases hr' with rfl | hr'
        · exact ⟨_, List.mem_cons_self, rfl⟩
        · obtain ⟨c, hc, hcr⟩ := hall r' hr' hmat
          exact ⟨c, List.mem_cons_of_mem _ hc, hcr⟩
      · rw [if_neg hf]
        refine ⟨cs, hcs, ?_⟩
        intro r' hr' hmat
        simp only [List.mem_cons] at hr'
        rcases hr' with rfl | hr'
        · exfalso
          obtain ⟨ex', caps', f', hex', hm', hf'⟩ := hmat
          rw [hex] at hex'
          simp only [Option.some.injEq] at hex'
          subst hex'
          rw [hm] at hm'
          simp only [Option.some.injEq, Prod.mk.injEq] at hm'
          apply hf
          rw [hm'.2]
          rcases hf' with rfl | rfl <;> simp
        · exact hall r' hr' hmat

/-- the sorted candidate list is, as a set, the routes that match -/
theorem selectRoutes_spec (routes : List Route) (rem : Str)
    (h : ∀ r ∈ routes, ∃ ex, compile r.relPath = some ex) :
    ∃ cands, selectRoutes E routes rem = some cands ∧ ∀ r, r ∈ cands ↔ r ∈ routes ∧ Matched E r rem := by
  obtain ⟨cs, hcs, hall⟩ := routeCandidates_complete E routes rem h
  have hsel : selectRoutes E routes rem = some ((Sort.insertionSort routeCandLess cs).map (·.route)) := by
    unfold selectRoutes
    rw [hcs]; rfl
  refine ⟨_, hsel, ?_⟩
  intro r
  constructor
  · intro hr
    exact selectRoutes_mem E hsel hr
  · rintro ⟨hr, hmat⟩
    obtain ⟨c, hc, hcr⟩ := hall r hr hmat
    rw [List.mem_map]
    exact ⟨c, (Sort.insertionSort_perm routeCandLess cs).mem_iff.2 hc, hcr⟩

/-- in the dispatcher's service, "the route expression matches the remainder" is declarative admission -/
theorem matched_iff_pathAdmits {svc : Service} {rt : Route} (hrt : rt ∈ svc.built) {ts : List TTok}
    (hts : Spec.readTemplateJ svc.rootPath rt.relPath = some ts) {path : Str} (hn : '\n' ∉ path)
    {wex : Expr} {wc : List Str} {final : Str} (hwex : compile svc.rootPath = some wex)
    (hwm : matchExpr E wex.toks path = some (wc, final)) :
    Matched E rt final ↔ Spec.pathAdmits E .jsr rt path = true := by
  unfold Spec.pathAdmits
  simp only [Spec.templateOf, Service.built_root svc hrt, hts]
  constructor
  · rintro ⟨rex, rc, f, hrex, hrm, hf⟩
    obtain ⟨segs, hseg, _⟩ := match_sound E svc.rootPath rt.relPath path ts hts wex rex hwex hrex wc rc final f hwm hrm hf
    rw [hseg]; rfl
  · intro ha
    obtain ⟨segs, hseg⟩ := Option.isSome_iff_exists.mp ha
    obtain ⟨rex, hrex⟩ := (compile_of_template hts).2
    obtain ⟨wc', final', rc, f, h1, h2, hf⟩ :=
      match_complete E svc.rootPath rt.relPath path ts hts wex rex hwex hrex hn segs hseg
    rw [hwm] at h1
    simp only [Option.some.injEq, Prod.mk.injEq] at h1
    obtain ⟨_, rfl⟩ := h1
    exact ⟨rex, rc, f, hrex, h2, hf⟩

/-- `routeJsr` is: find the dispatcher, run `detectRoute` on the matching routes, bind parameters
    (which cannot fail) -/
theorem routeJsr_cases {cfg : Config} (hk : cfg.router = .jsr) (hwf : cfg.wfTemplates = true)
    (hroots : rootsRead cfg = true) (req : Req) :
    match detectDispatcher E cfg.services req.path with
    | none => False
    | some none => (routeJsr E cfg req).1 = .error 404 none
    | some (some (svc, final)) =>
      svc ∈ cfg.services ∧ (∃ wex wc, compile svc.rootPath = some wex ∧ matchExpr E wex.toks req.path = some (wc, final)) ∧
      ∃ cands, (∀ r, r ∈ cands ↔ r ∈ svc.built ∧ Matched E r final) ∧
        match detectRoute cands req with
        | .error (c, a) => (routeJsr E cfg req).1 = .error c a
        | .ok r => ∃ ps, (routeJsr E cfg req).1 = .selected svc.id r.id ps := by
  cases hd : detectDispatcher E cfg.services req.path with
  | none =>
    simp only
    obtain ⟨cs, hcs⟩ := dispCandidates_some E cfg.services req.path (roots_compile hk hwf hroots)
    unfold detectDispatcher at hd
    rw [hcs] at hd
    simp at hd
  | some x =>
    cases x with
    | none =>
      simp only
      unfold routeJsr
      rw [hd]
    | some y =>
      obtain ⟨svc, final⟩ := y
      simp only
      obtain ⟨hsvc, wex, wc, hwex, hwm⟩ := detectDispatcher_mem E hd
      refine ⟨hsvc, ⟨wex, wc, hwex, hwm⟩, ?_⟩
      obtain ⟨cands, hsel, hmem⟩ := selectRoutes_spec E svc.built final (routes_compile hk hwf hsvc)
      refine ⟨cands, hmem, ?_⟩
      unfold routeJsr
      rw [hd]
      simp only [hsel]
      cases cands with
      | nil => simp [detectRoute]
      | cons c cs =>
        simp only
        cases hdr : detectRoute (c :: cs) req with
        | error e => obtain ⟨c, a⟩ := e; simp
        | ok r =>
          simp only
          obtain ⟨hr, _⟩ := detectRoute_ok hdr
          obtain ⟨hrt, rex, rc, f, hrex, hrm, _⟩ := (hmem r).1 hr
          unfold extract
          simp only [hwex, hrex, hwm, hrm]
          exact ⟨_, by rw [Service.built_svc svc hrt]⟩

end Jsr

/-- RouterJSR311 never panics on a table of checked templates whose route-less services have
    readable roots -/
theorem C02_total_jsr (cfg : Config) (hk : cfg.router = .jsr) (hwf : cfg.wfTemplates = true)
    (hroots : Jsr.rootsRead cfg = true) (req : Req) : ∀ w, route E cfg req ≠ .panic w := by
  intro w
  unfold route routeTagged
  rw [hk]
  simp only
  have hc := Jsr.routeJsr_cases E hk hwf hroots req
  cases hd : Jsr.detectDispatcher E cfg.services req.path with
  | none => rw [hd] at hc; exact hc.elim
  | some x =>
    cases x with
    | none =>
      rw [hd] at hc
      simp only at hc
      rw [hc]; simp
    | some y =>
      obtain ⟨svc, final⟩ := y
      rw [hd] at hc
      simp only at hc
      obtain ⟨_, _, cands, _, hcase⟩ := hc
      cases hdr : detectRoute cands req with
      | error e =>
        obtain ⟨c, a⟩ := e
        rw [hdr] at hcase
        simp only at hcase
        rw [hcase]; simp
      | ok r =>
        rw [hdr] at hcase
        simp only at hcase
        obtain ⟨ps, hps⟩ := hcase
        rw [hps]; simp

/-- **C02, RouterJSR311**: on checked templates (route-less services included), hygienic media lists
    and newline-free paths, the outcome is exactly what the decision table says for the service
    that `Spec.jsrBestService` names (the router's dispatcher IS that service:
    `Jsr.detectDispatcher_eq_spec`) -/
theorem C02_classify_jsr_partial (E : ReEnv) (cfg : Config) (hk : cfg.router = .jsr) (hwf : cfg.wfTemplates = true)
    (hroots : Jsr.rootsRead cfg = true) (hh : Spec.mediaHygiene cfg = true) (req : Req) (hn : '\n' ∉ req.path) :
    Spec.c02Holds E cfg req (route E cfg req)
      (match route E cfg req with | .selected _ _ _ => 1 | _ => 0) = true := by
  unfold route routeTagged
  rw [hk]
  simp only
  have hc := Jsr.routeJsr_cases E hk hwf hroots req
  cases hd : Jsr.detectDispatcher E cfg.services req.path with
  | none => rw [hd] at hc; exact hc.elim
  | some x =>
    cases x with
    | none =>
      rw [hd] at hc
      simp only at hc
      rw [hc]
      simp only
      apply Spec.c02Holds_nosvc
      unfold Spec.bestServices
      rw [hk]
      simp only [← Jsr.detectDispatcher_eq_spec, hd]
    | some y =>
      obtain ⟨svc, final⟩ := y
      rw [hd] at hc
      simp only at hc
      obtain ⟨hsvc, ⟨wex, wc, hwex, hwm⟩, cands, hmem, hcase⟩ := hc
      have hbest : svc ∈ Spec.bestServices E cfg req := by
        unfold Spec.bestServices
        rw [hk]
        simp only [← Jsr.detectDispatcher_eq_spec, hd, List.mem_singleton]
      have hmem' : ∀ r, r ∈ cands ↔ r ∈ svc.built ∧ Spec.pathAdmits E .jsr r req.path = true := by
        intro r
        rw [hmem r]
        constructor
        · rintro ⟨hrt, hmat⟩
          obtain ⟨ts, hts⟩ := Jsr.template_of_wf hk hwf hsvc hrt
          exact ⟨hrt, (Jsr.matched_iff_pathAdmits E hrt hts hn hwex hwm).1 hmat⟩
        · rintro ⟨hrt, ha⟩
          obtain ⟨ts, hts⟩ := Jsr.template_of_wf hk hwf hsvc hrt
          exact ⟨hrt, (Jsr.matched_iff_pathAdmits E hrt hts hn hwex hwm).2 ha⟩
      have hdc := detect_classify E .jsr svc.built cands req hmem' (fun r hr => C02.hygiene_route hh hsvc hr)
      cases hdr : detectRoute cands req with
      | error e =>
        obtain ⟨c, a⟩ := e
        rw [hdr] at hcase hdc
        simp only at hcase hdc
        rw [hcase]
        simp only
        apply Spec.c02Holds_of E hbest (by simp) (by simp)
        rw [hk]; exact hdc
      | ok r =>
        rw [hdr] at hcase hdc
        simp only at hcase hdc
        obtain ⟨ps, hps⟩ := hcase
        obtain ⟨_, ids, hids, hrid⟩ := hdc
        rw [hps]
        simp only
        apply Spec.c02Holds_of E hbest (by simp)
        · intro s r' ps' h
          simp only [Outcome.selected.injEq] at h
          exact h.1
        · rw [hk, hids]
          simp [Spec.verdictMatches, hrid]

end Restful
