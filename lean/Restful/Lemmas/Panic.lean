/-
Lemmas for C10 (panic handling in the serve model).  Everything lives in `Restful.Serve.Panic`
(except `Spec.recoverPanicsEarly`).

* `firstPanic`, `chainPanic`: which panic a script / a filter chain raises — functions of the scripts
  and filter kinds only; `runActs_panic`, `runChain_panic`: that is what the model returns, whatever
  the writer state and the context.
* `ActStable`, `runChain_rel`: a generic simulation principle — a relation between two recorders that
  every writer operation preserves is preserved by running the same chain on both (any contexts).
  Instances: `Sim` (real run vs. run without coding: status lock state), `status_stable`.
* `runRecover_status`: on an unlocked, unclosed writer the recover handler decides the status.
* `Plan`, `planD`, `dispatch_eq`: `dispatch` as "panic before the chain, or one chain with or without
  a compressor"; `planD_raw`: switching coding and recovery off does not change the chain.
* `plainFilteredBody_eq`, `plainFilteredBody_snd`, `plainFilteredBody_status`: the chain
  `HandleWithFilter` builds, with the deferred recover it has since a0e838d (F18 repaired): the same
  three facts as for `dispatch`, when there are container filters.
* `covered`: the entry points recovery covers — `dispatch` (routed), and `HandleWithFilter` with at
  least one container filter; the same Boolean as `covered` inside `Spec.c10Holds` (`c10Holds_eq`).
* `raised`, `serveCore`, `serve_eq`, `serve_escaped`, `serve_recoverCalls`, `raw_escaped`,
  `serve_closed`, `serveCore_status`: the facts about `serve` the C10 theorems are assembled from.
* `ActStableEq`, `runChain_relEq`: the same principle for two runs of one chain in the SAME context
  (they see the same bytes; the contexts handed back are equal).  Instance: `Vis` (what the client of
  the real run sees after decoding, `visBody`, is what the recorder of the run without coding holds).
* `runRecover_visBody`, `runPlan_body`, `plainFilteredBody_body`, `handleFiltered_body`,
  `serveCore_body`: after a recovered panic the visible body is the body of the run without coding and
  recovery followed by `recoverWrites cfg`; `c10Body_of_eq`: such a body meets `Spec.c10Body`.
* `chainLog_panic`, `chainOf_routed`, `raised_of_panicFromFilter`, `panicFromFilter_plain`: bridge to
  the specification's `chainLog`/`panicFromFilter`.
* (for C13) `Clean`, `After`, `clean_stable`, `closeComp_clean`, `closeComp_again`, `secondClose`,
  `serveCore_after`/`serve_after`, `secondClose_coded`: no `Write` reaches a compressing writer after
  its `Close`, and a `Close` is refused exactly when `ServeHTTP`'s deferred `Close` follows `dispatch`'s.
-/
import Restful.Spec.Serve
namespace Restful
open Str
namespace Serve.Panic

/-! ### which panic a script raises -/

/-- the value of the first `.panic` of a script -/
def firstPanic : List Act → Option Str
  | [] => none
  | .panic v :: _ => some v
  | _ :: as => firstPanic as

theorem runActs_panic (as : List Act) (cx : Ctx) (s : St) : (runActs as cx s).2.2 = firstPanic as := by
  induction as generalizing cx s with
  | nil => rfl
  | cons a as ih => cases a <;> simp [runActs, firstPanic, ih]

theorem runStage_panic (st : Stage) (post : Bool) (as : List Act) (cx : Ctx) (s : St) :
    (runStage st post as cx s).2.2 = firstPanic as := runActs_panic _ _ _

/-- the panic with which a chain ends: the first one raised in execution order (a filter's `post`
    part runs only if neither its `pre` part nor anything further in panicked) -/
def chainPanic : List (Stage × Filter) → List Act → Option Str
  | [], t => firstPanic t
  | (_, f) :: fs, t =>
    match firstPanic f.pre with
    | some v => some v
    | none =>
      match f.kind with
      | .stop => firstPanic f.post
      | _ =>
        match chainPanic fs t with
        | some v => some v
        | none => firstPanic f.post

/-- `runChain` with the intermediate results named by projections -/
theorem runChain_cons (st : Stage) (f : Filter) (fs : List (Stage × Filter)) (t : Target) (cx : Ctx) (s : St) :
    runChain ((st, f) :: fs) t cx s =
      (let r1 := runStage st false f.pre cx s
       match r1.2.2 with
       | some v => (r1.1, r1.2.1, some v)
       | none =>
         match f.kind with
         | .stop => runStage st true f.post r1.1 r1.2.1
         | .pass =>
           let r2 := runChain fs t r1.1 r1.2.1
           match r2.2.2 with
           | some v => (r2.1, r2.2.1, some v)
           | none => runStage st true f.post r2.1 r2.2.1
         | .replace =>
           let r2 := runChain fs t { attrs := [("who".toList, (toString f.id).toList)], params := [], selPath := [], wrappers := f.id :: r1.1.wrappers } r1.2.1
           match r2.2.2 with
           | some v => (r1.1, r2.2.1, some v)
           | none => runStage st true f.post r1.1 r2.2.1
         | .middle =>
           let r2 := runChain fs t { r1.1 with wrappers := f.id :: r1.1.wrappers } r1.2.1
           match r2.2.2 with
           | some v => (r2.1, r2.2.1, some v)
           | none =>
             let r3 := runStage st true f.post { r2.1 with wrappers := r1.1.wrappers } r2.2.1
             ({ r3.1 with wrappers := r2.1.wrappers }, r3.2.1, r3.2.2)) := by
  rw [runChain]
  generalize runStage st false f.pre cx s = r1
  obtain ⟨cx1, s1, p1⟩ := r1
  cases p1 with
  | some v => rfl
  | none =>
    cases f.kind with
    | stop => rfl
    | pass =>
      simp only []
      generalize runChain fs t cx1 s1 = r2
      obtain ⟨cx2, s2, p2⟩ := r2
      cases p2 <;> rfl
    | replace =>
      simp only []
      generalize runChain fs t _ s1 = r2
      obtain ⟨cx2, s2, p2⟩ := r2
      cases p2 <;> rfl
    | middle =>
      simp only []
      generalize runChain fs t _ s1 = r2
      obtain ⟨cx2, s2, p2⟩ := r2
      cases p2 <;> rfl

/-- ingredient (a): the panic result of a chain is `chainPanic` — independent of the writer state,
    of the context, hence of coding and of the recovery switch -/
theorem runChain_panic (fs : List (Stage × Filter)) (t : Target) (cx : Ctx) (s : St) :
    (runChain fs t cx s).2.2 = chainPanic fs t.script := by
  induction fs generalizing cx s with
  | nil => simp [runChain, chainPanic, runStage_panic]
  | cons sf fs ih =>
    obtain ⟨st, f⟩ := sf
    rw [runChain_cons]
    simp only [runStage_panic, ih, chainPanic]
    cases firstPanic f.pre with
    | some v => rfl
    | none =>
      cases f.kind with
      | stop => simp [runStage_panic]
      | pass => cases chainPanic fs t.script <;> first | rfl | simp [runStage_panic]
      | replace => cases chainPanic fs t.script <;> first | rfl | simp [runStage_panic]
      | middle => cases chainPanic fs t.script <;> first | rfl | simp [runStage_panic]

/-! ### simulation: relations every writer operation preserves -/

/-- a relation between two recorders preserved by each writer operation (the bytes may differ:
    the two runs need not see the same wrappers) -/
structure ActStable (R : Rec → Rec → Prop) : Prop where
  write : ∀ r r' b b', R r r' → R (baseWrite r b) (baseWrite r' b')
  writeHeader : ∀ r r' c, R r r' → R (baseWriteHeader r c) (baseWriteHeader r' c)
  addHeader : ∀ r r' k v, R r r' → R (addHeader r k v) (addHeader r' k v)

theorem runActs_rel {R : Rec → Rec → Prop} (hR : ActStable R) (as : List Act) (cx cx' : Ctx) (s s' : St)
    (h : R s.rc s'.rc) : R (runActs as cx s).2.1.rc (runActs as cx' s').2.1.rc := by
  induction as generalizing cx cx' s s' with
  | nil => exact h
  | cons a as ih =>
    cases a with
    | write b => exact ih _ _ _ _ (hR.write _ _ _ _ h)
    | writeHeader c => exact ih _ _ _ _ (hR.writeHeader _ _ _ h)
    | addHeader k v => exact ih _ _ _ _ (hR.addHeader _ _ _ _ h)
    | setAttr k v => exact ih _ _ _ _ h
    | panic v => exact h

theorem runStage_rel {R : Rec → Rec → Prop} (hR : ActStable R) (st st' : Stage) (post post' : Bool) (as : List Act)
    (cx cx' : Ctx) (s s' : St) (h : R s.rc s'.rc) :
    R (runStage st post as cx s).2.1.rc (runStage st' post' as cx' s').2.1.rc :=
  runActs_rel hR as cx cx' _ _ h

/-- two runs of the same chain, from related recorders (any contexts): the recorders stay related -/
theorem runChain_rel {R : Rec → Rec → Prop} (hR : ActStable R) (fs : List (Stage × Filter)) (t : Target)
    (cx cx' : Ctx) (s s' : St) (h : R s.rc s'.rc) :
    R (runChain fs t cx s).2.1.rc (runChain fs t cx' s').2.1.rc := by
  induction fs generalizing cx cx' s s' with
  | nil => exact runStage_rel hR _ _ _ _ _ _ _ _ _ h
  | cons sf fs ih =>
    obtain ⟨st, f⟩ := sf
    rw [runChain_cons, runChain_cons]
    simp only [runStage_panic, runChain_panic]
    have h1 := runStage_rel hR st st false false f.pre cx cx' s s' h
    cases firstPanic f.pre with
    | some v => exact h1
    | none =>
      cases f.kind with
      | stop => exact runStage_rel hR _ _ _ _ _ _ _ _ _ h1
      | pass =>
        have h2 := ih (runStage st false f.pre cx s).1 (runStage st false f.pre cx' s').1 _ _ h1
        cases chainPanic fs t.script with
        | some v => exact h2
        | none => exact runStage_rel hR _ _ _ _ _ _ _ _ _ h2
      | replace =>
        have h2 := ih { attrs := [("who".toList, (toString f.id).toList)], params := [], selPath := [], wrappers := f.id :: (runStage st false f.pre cx s).1.wrappers }
          { attrs := [("who".toList, (toString f.id).toList)], params := [], selPath := [], wrappers := f.id :: (runStage st false f.pre cx' s').1.wrappers } _ _ h1
        cases chainPanic fs t.script with
        | some v => exact h2
        | none => exact runStage_rel hR _ _ _ _ _ _ _ _ _ h2
      | middle =>
        have h2 := ih { (runStage st false f.pre cx s).1 with wrappers := f.id :: (runStage st false f.pre cx s).1.wrappers }
          { (runStage st false f.pre cx' s').1 with wrappers := f.id :: (runStage st false f.pre cx' s').1.wrappers } _ _ h1
        cases chainPanic fs t.script with
        | some v => exact h2
        | none => exact runStage_rel hR _ _ _ _ _ _ _ _ _ h2

/-- the same for two runs that see the same bytes: a relation preserved by each writer operation
    applied to BOTH recorders with the same arguments -/
structure ActStableEq (R : Rec → Rec → Prop) : Prop where
  write : ∀ r r' b, R r r' → R (baseWrite r b) (baseWrite r' b)
  writeHeader : ∀ r r' c, R r r' → R (baseWriteHeader r c) (baseWriteHeader r' c)
  addHeader : ∀ r r' k v, R r r' → R (addHeader r k v) (addHeader r' k v)

/-- the same script in the same context on related recorders: the contexts handed back are equal
    (a context never depends on the writer) and the recorders stay related -/
theorem runActs_relEq {R : Rec → Rec → Prop} (hR : ActStableEq R) (as : List Act) (cx : Ctx) (s s' : St)
    (h : R s.rc s'.rc) :
    (runActs as cx s).1 = (runActs as cx s').1 ∧ R (runActs as cx s).2.1.rc (runActs as cx s').2.1.rc := by
  induction as generalizing cx s s' with
  | nil => exact ⟨rfl, h⟩
  | cons a as ih =>
    cases a with
    | write b => exact ih _ _ _ (hR.write _ _ _ h)
    | writeHeader c => exact ih _ _ _ (hR.writeHeader _ _ _ h)
    | addHeader k v => exact ih _ _ _ (hR.addHeader _ _ _ _ h)
    | setAttr k v => exact ih _ _ _ h
    | panic v => exact ⟨rfl, h⟩

theorem runStage_relEq {R : Rec → Rec → Prop} (hR : ActStableEq R) (st : Stage) (post : Bool) (as : List Act)
    (cx : Ctx) (s s' : St) (h : R s.rc s'.rc) :
    (runStage st post as cx s).1 = (runStage st post as cx s').1 ∧
      R (runStage st post as cx s).2.1.rc (runStage st post as cx s').2.1.rc :=
  runActs_relEq hR as cx _ _ h

/-- two runs of the same chain in the same context, from related recorders: equal contexts, related
    recorders -/
theorem runChain_relEq {R : Rec → Rec → Prop} (hR : ActStableEq R) (fs : List (Stage × Filter)) (t : Target)
    (cx : Ctx) (s s' : St) (h : R s.rc s'.rc) :
    (runChain fs t cx s).1 = (runChain fs t cx s').1 ∧ R (runChain fs t cx s).2.1.rc (runChain fs t cx s').2.1.rc := by
  induction fs generalizing cx s s' with
  | nil => exact runStage_relEq hR _ _ _ _ _ _ h
  | cons sf fs ih =>
    obtain ⟨st, f⟩ := sf
    rw [runChain_cons, runChain_cons]
    simp only [runStage_panic, runChain_panic]
    obtain ⟨hc1, h1⟩ := runStage_relEq hR st false f.pre cx s s' h
    cases firstPanic f.pre with
    | some v => exact ⟨hc1, h1⟩
    | none =>
      cases f.kind with
      | stop =>
        simp only [hc1]
        exact runStage_relEq hR _ _ _ _ _ _ h1
      | pass =>
        simp only [hc1]
        obtain ⟨hc2, h2⟩ := ih (runStage st false f.pre cx s').1 _ _ h1
        cases chainPanic fs t.script with
        | some v => exact ⟨hc2, h2⟩
        | none =>
          simp only [hc2]
          exact runStage_relEq hR _ _ _ _ _ _ h2
      | replace =>
        simp only [hc1]
        obtain ⟨_, h2⟩ := ih { attrs := [("who".toList, (toString f.id).toList)], params := [], selPath := [], wrappers := f.id :: (runStage st false f.pre cx s').1.wrappers } _ _ h1
        cases chainPanic fs t.script with
        | some v => exact ⟨rfl, h2⟩
        | none => exact runStage_relEq hR _ _ _ _ _ _ h2
      | middle =>
        simp only [hc1]
        obtain ⟨hc2, h2⟩ := ih { (runStage st false f.pre cx s').1 with wrappers := f.id :: (runStage st false f.pre cx s').1.wrappers } _ _ h1
        cases chainPanic fs t.script with
        | some v => exact ⟨hc2, h2⟩
        | none =>
          simp only [hc2]
          obtain ⟨hc3, h3⟩ := runStage_relEq hR st true f.post
            { (runChain fs t { (runStage st false f.pre cx s').1 with wrappers := f.id :: (runStage st false f.pre cx s').1.wrappers } (runStage st false f.pre cx s').2.1).1 with wrappers := (runStage st false f.pre cx s').1.wrappers } _ _ h2
          exact ⟨by rw [hc3], h3⟩

/-! ### recorder facts -/

theorem lockStatus_comp (r : Rec) (c : Nat) : (lockStatus r c).comp = r.comp := by
  unfold lockStatus; split <;> rfl

theorem lockStatus_of_none {r : Rec} {c : Nat} (h : r.status = none) : (lockStatus r c).status = some c := by
  simp [lockStatus, h]

theorem lockStatus_of_some {r : Rec} {c d : Nat} (h : r.status = some d) : (lockStatus r c).status = some d := by
  simp [lockStatus, h]

theorem lockStatus_ne_none (r : Rec) (c : Nat) : (lockStatus r c).status ≠ none := by
  cases h : r.status with
  | none => simp [lockStatus_of_none h]
  | some d => simp [lockStatus_of_some h]

theorem lockStatus_getD (r : Rec) : (lockStatus r 200).status.getD 200 = r.status.getD 200 := by
  cases h : r.status with
  | none => simp [lockStatus_of_none h]
  | some d => simp [lockStatus_of_some h]

/-- no compressing writer has been closed yet -/
def Open (r : Rec) : Prop := ∀ c, r.comp = some c → c.closed = false

/-- the compressing writer, if there is one, has been closed -/
def Closed (r : Rec) : Prop := ∀ c, r.comp = some c → c.closed = true

theorem closeComp_closed (s : St) : Closed (closeComp s).rc := by
  intro c
  unfold closeComp
  cases h : s.rc.comp with
  | none => simp [h]
  | some c0 =>
    by_cases hc : c0.closed = true
    · simp only [hc, if_true]
      intro h'
      rw [h] at h'
      cases h'
      exact hc
    · simp only [hc]
      intro h'
      simp at h'
      rw [← h']

theorem closeComp_of_none {s : St} (h : s.rc.comp = none) : closeComp s = s := by
  simp [closeComp, h]

/-- closing never changes the status the client sees -/
theorem closeComp_status_getD (s : St) : (closeComp s).rc.status.getD 200 = s.rc.status.getD 200 := by
  unfold closeComp
  cases h : s.rc.comp with
  | none => rfl
  | some c0 =>
    by_cases hc : c0.closed = true
    · simp [hc]
    · simp only [hc]
      exact lockStatus_getD _

theorem closeComp_status_none {s : St} (h : (closeComp s).rc.status = none) : s.rc.status = none := by
  revert h
  unfold closeComp
  cases h : s.rc.comp with
  | none => exact id
  | some c0 =>
    by_cases hc : c0.closed = true
    · simp [hc]
    · simp only [hc]
      intro h'
      exact absurd h' (lockStatus_ne_none _ _)

theorem open_baseWrite {r : Rec} (b : Str) (h : Open r) : Open (baseWrite r b) := by
  intro c
  unfold baseWrite
  cases hc : r.comp with
  | none => simp [lockStatus_comp, hc]
  | some c0 =>
    have := h c0 hc
    simp only [this]
    intro h'
    simp at h'
    rw [← h']

theorem baseWrite_status_of_open {r : Rec} (b : Str) (h : Open r) : (baseWrite r b).status = (lockStatus r 200).status := by
  unfold baseWrite
  cases hc : r.comp with
  | none => rfl
  | some c0 =>
    have := h c0 hc
    simp [this]

theorem baseWrite_status_of_some {r : Rec} (b : Str) {d : Nat} (h : r.status = some d) : (baseWrite r b).status = some d := by
  unfold baseWrite
  cases hc : r.comp with
  | none => exact lockStatus_of_some h
  | some c0 =>
    by_cases hcl : c0.closed = true
    · simp [hcl, h]
    · simp only [hcl]
      exact lockStatus_of_some h

/-- the relation between the real run `r` and the run without coding `r'`: the real compressor is
    not closed, the other run has none, and the real status is locked only if the other one is -/
def Sim (r r' : Rec) : Prop := Open r ∧ r'.comp = none ∧ (r'.status = none → r.status = none)

theorem sim_stable : ActStable Sim := by
  refine ⟨?_, ?_, ?_⟩
  · rintro r r' b b' ⟨ho, hn, _⟩
    refine ⟨open_baseWrite b ho, ?_, ?_⟩
    · simp [baseWrite, hn, lockStatus_comp]
    · intro h'
      have : (baseWrite r' b').status = (lockStatus r' 200).status := by simp [baseWrite, hn]
      rw [this] at h'
      exact absurd h' (lockStatus_ne_none _ _)
  · rintro r r' c ⟨ho, hn, _⟩
    refine ⟨?_, ?_, ?_⟩
    · intro c0
      rw [baseWriteHeader, lockStatus_comp]
      exact ho c0
    · rw [baseWriteHeader, lockStatus_comp]
      exact hn
    · intro h'
      exact absurd h' (lockStatus_ne_none _ _)
  · rintro r r' k v ⟨ho, hn, hs⟩
    exact ⟨ho, hn, hs⟩

/-- a locked status stays what it is -/
theorem status_stable (d : Nat) : ActStable (fun r _ => r.status = some d) := by
  refine ⟨?_, ?_, ?_⟩
  · intro r _ b _ h
    exact baseWrite_status_of_some b h
  · intro r _ c h
    exact lockStatus_of_some h
  · intro r _ k v h
    exact h

theorem runActs_status_some {d : Nat} (as : List Act) (cx : Ctx) (s : St) (h : s.rc.status = some d) :
    (runActs as cx s).2.1.rc.status = some d :=
  runActs_rel (status_stable d) as cx cx s s h

/-! ### the body the client sees -/

/-- the body as the client sees it after decoding: the bytes handed to the compressing writer when
    there is one, the recorder's bytes otherwise (what `Spec.obsOf` calls `body`) -/
def visBody (r : Rec) : Str :=
  match r.comp with
  | none => r.body
  | some c => c.payload

theorem obsOf_body (r : Result) : (Spec.obsOf r).body = visBody r.rc := rfl

theorem lockStatus_body (r : Rec) (c : Nat) : (lockStatus r c).body = r.body := by
  unfold lockStatus; split <;> rfl

theorem visBody_lockStatus (r : Rec) (c : Nat) : visBody (lockStatus r c) = visBody r := by
  unfold lockStatus; split <;> rfl

theorem open_lockStatus {r : Rec} (c : Nat) (h : Open r) : Open (lockStatus r c) := by
  intro c0
  rw [lockStatus_comp]
  exact h c0

/-- a write on a writer that is not closed appends to what the client will see -/
theorem visBody_baseWrite {r : Rec} (b : Str) (h : Open r) : visBody (baseWrite r b) = visBody r ++ b := by
  unfold baseWrite visBody
  cases hc : r.comp with
  | none => simp [lockStatus_comp, hc]
  | some c0 =>
    have := h c0 hc
    simp [this]

theorem closeComp_visBody (s : St) : visBody (closeComp s).rc = visBody s.rc := by
  unfold closeComp
  cases h : s.rc.comp with
  | none => rfl
  | some c0 =>
    by_cases hc : c0.closed = true
    · simp [hc, visBody, h]
    · simp [hc, visBody, h]

theorem closeComp_body (s : St) : (closeComp s).rc.body = s.rc.body := by
  unfold closeComp
  cases h : s.rc.comp with
  | none => rfl
  | some c0 =>
    by_cases hc : c0.closed = true
    · simp [hc]
    · simp [hc, lockStatus_body]

/-- the relation between the real run `r` and the run without coding `r'` as to the body: the real
    compressor is not closed, the other run has none, and the client of the real run will see
    (after decoding) exactly the bytes the other run's recorder holds -/
def Vis (r r' : Rec) : Prop := Open r ∧ r'.comp = none ∧ visBody r = r'.body

theorem vis_stable : ActStableEq Vis := by
  refine ⟨?_, ?_, ?_⟩
  · rintro r r' b ⟨ho, hn, hb⟩
    refine ⟨open_baseWrite b ho, ?_, ?_⟩
    · simp [baseWrite, hn, lockStatus_comp]
    · rw [visBody_baseWrite b ho, hb]
      simp [baseWrite, hn]
  · rintro r r' c ⟨ho, hn, hb⟩
    refine ⟨open_lockStatus c ho, ?_, ?_⟩
    · rw [baseWriteHeader, lockStatus_comp]
      exact hn
    · rw [baseWriteHeader, baseWriteHeader, visBody_lockStatus, lockStatus_body]
      exact hb
  · rintro r r' k v ⟨ho, hn, hb⟩
    exact ⟨ho, hn, hb⟩

/-- `Open` is kept by every writer operation -/
theorem open_stable : ActStableEq (fun r _ => Open r) := by
  refine ⟨?_, ?_, ?_⟩
  · intro r _ b h
    exact open_baseWrite b h
  · intro r _ c h
    exact open_lockStatus c h
  · intro r _ k v h
    exact h

/-- a script run directly on the base writer (no wrappers, as the recover handler is) appends its
    writes to what the client sees -/
theorem runActs_visBody (sc : List Act) (cx : Ctx) (s : St) (hw : cx.wrappers = []) (ho : Open s.rc) :
    visBody (runActs sc cx s).2.1.rc = visBody s.rc ++ Spec.scriptWrites sc := by
  induction sc generalizing cx s with
  | nil => simp [runActs, Spec.scriptWrites]
  | cons a as ih =>
    cases a with
    | write b =>
      simp only [runActs, Spec.scriptWrites]
      rw [ih cx _ hw (open_baseWrite _ ho)]
      simp only [hw, throughWrappers, List.foldl_nil]
      rw [visBody_baseWrite b ho, List.append_assoc]
    | writeHeader c =>
      simp only [runActs, Spec.scriptWrites]
      rw [ih cx _ hw (open_lockStatus c ho)]
      simp only [baseWriteHeader, visBody_lockStatus]
    | addHeader k v =>
      simp only [runActs, Spec.scriptWrites]
      rw [ih cx { s with rc := addHeader s.rc k v } hw ho]
      rfl
    | setAttr k v =>
      simp only [runActs, Spec.scriptWrites]
      exact ih _ s hw ho
    | panic v => simp [runActs, Spec.scriptWrites]

/-! ### the recover handler -/

/-- the status a script produces on an unlocked, unclosed writer: its first `writeHeader`, or 200 -/
def scriptStatus (sc : List Act) : Nat :=
  match sc.find? (fun a => match a with | .writeHeader _ => true | .write _ => true | _ => false) with
  | some (.writeHeader c) => c
  | _ => 200

theorem recoverStatus_eq (cfg : Cfg) :
    Spec.recoverStatus cfg = (match cfg.recoverScript with
      | none => 500
      | some sc => scriptStatus sc) := by
  unfold Spec.recoverStatus scriptStatus
  cases cfg.recoverScript <;> rfl

/-- the script panics before its first `write`/`writeHeader` -/
def panicsBeforeWrite : List Act → Bool
  | [] => false
  | .panic _ :: _ => true
  | .write _ :: _ => false
  | .writeHeader _ :: _ => false
  | _ :: as => panicsBeforeWrite as

theorem runActs_scriptStatus (sc : List Act) (cx : Ctx) (s : St) (hs : s.rc.status = none) (ho : Open s.rc)
    (hp : panicsBeforeWrite sc = false) : (runActs sc cx s).2.1.rc.status.getD 200 = scriptStatus sc := by
  induction sc generalizing cx s with
  | nil => simp [runActs, hs, scriptStatus]
  | cons a as ih =>
    cases a with
    | write b =>
      have h1 : (baseWrite s.rc (throughWrappers cx.wrappers b)).status = some 200 := by
        rw [baseWrite_status_of_open _ ho]
        exact lockStatus_of_none hs
      simp only [runActs]
      rw [runActs_status_some as cx _ h1]
      simp [scriptStatus]
    | writeHeader c =>
      have h1 : (baseWriteHeader s.rc c).status = some c := lockStatus_of_none hs
      simp only [runActs]
      rw [runActs_status_some as cx _ h1]
      simp [scriptStatus]
    | addHeader k v =>
      simp only [runActs]
      rw [ih cx { s with rc := addHeader s.rc k v } hs ho hp]
      simp [scriptStatus]
    | setAttr k v =>
      simp only [runActs]
      rw [ih _ s hs ho hp]
      simp [scriptStatus]
    | panic v => simp [panicsBeforeWrite] at hp

end Serve.Panic

namespace Spec
open Serve Serve.Panic

/-- the custom recover handler itself panics before it wrote anything (the model drops a panic of the
    recover handler; `recoverStatus` looks past it) -/
def recoverPanicsEarly (cfg : Cfg) : Bool :=
  match cfg.recoverScript with
  | none => false
  | some sc => panicsBeforeWrite sc

end Spec

namespace Serve.Panic

/-- ingredient (c), second half: on a writer whose status is not locked (compressing or not, not
    closed) the recover handler decides the status -/
theorem runRecover_status (cfg : Cfg) (s : St) (hs : s.rc.status = none) (ho : Open s.rc)
    (he : Spec.recoverPanicsEarly cfg = false) :
    (runRecover cfg s).rc.status.getD 200 = Spec.recoverStatus cfg := by
  rw [recoverStatus_eq]
  unfold runRecover
  unfold Spec.recoverPanicsEarly at he
  cases hsc : cfg.recoverScript with
  | none =>
    have h1 : (baseWriteHeader s.rc 500).status = some 500 := lockStatus_of_none hs
    simp [baseWrite_status_of_some _ h1]
  | some sc =>
    rw [hsc] at he
    exact runActs_scriptStatus sc {} _ hs ho he

/-- what the recover handler writes: the script's writes, or the library's stack text -/
def recoverWrites (cfg : Cfg) : Str :=
  match cfg.recoverScript with
  | some sc => Spec.scriptWrites sc
  | none => "<stack>".toList

theorem stack_ne_nil : "<stack>".toList ≠ [] := by decide

/-- on a writer that is not closed (compressing or not) the recover handler's writes are appended to
    what the client sees -/
theorem runRecover_visBody (cfg : Cfg) (s : St) (ho : Open s.rc) :
    visBody (runRecover cfg s).rc = visBody s.rc ++ recoverWrites cfg := by
  unfold runRecover recoverWrites
  cases hsc : cfg.recoverScript with
  | none =>
    simp only []
    have ho' : Open (baseWriteHeader s.rc 500) := open_lockStatus 500 ho
    rw [visBody_baseWrite _ ho', baseWriteHeader, visBody_lockStatus]
  | some sc => exact runActs_visBody sc {} _ rfl ho

/-! ### `finishDispatch` -/

theorem finishDispatch_closed (cfg : Cfg) (s : St) (p : Option Str) : Closed (finishDispatch cfg s p).1.rc := by
  unfold finishDispatch
  cases p with
  | none => exact closeComp_closed _
  | some v => cases cfg.recover <;> exact closeComp_closed _

/-- ingredient (b): with recovery on nothing leaves `dispatch` and the recover handler is called once
    iff there was a panic; with recovery off the panic value is handed on unchanged -/
theorem finishDispatch_snd (cfg : Cfg) (s : St) (p : Option Str) :
    (finishDispatch cfg s p).2 = if cfg.recover then (none, if p.isSome then 1 else 0) else (p, 0) := by
  unfold finishDispatch
  cases p with
  | none => cases cfg.recover <;> rfl
  | some v => cases cfg.recover <;> rfl

theorem finishDispatch_status (cfg : Cfg) (s : St) (v : Str) (hr : cfg.recover = true) (hs : s.rc.status = none)
    (ho : Open s.rc) (he : Spec.recoverPanicsEarly cfg = false) :
    (finishDispatch cfg s (some v)).1.rc.status.getD 200 = Spec.recoverStatus cfg := by
  simp only [finishDispatch, hr, if_true]
  rw [closeComp_status_getD]
  exact runRecover_status cfg s hs ho he

/-! ### `dispatch` as a plan -/

/-- what `dispatch` is going to do with a request: a panic before any chain is built (If-condition,
    router), or one chain run with (`enc = true`) or without the attempt to install a compressor -/
inductive Plan where
  | early (v : Str)
  | chain (fs : List (Stage × Filter)) (t : Target) (cx : Ctx) (enc : Bool)

def planD (E : ReEnv) (cfg : Cfg) (sr : SReq) : Plan :=
  match sr.condPanic with
  | some v => .early v
  | none =>
    match routeTagged E cfg.routing sr.req with
    | (.panic w, _) => .early w.toList
    | (.error code allow, tag) =>
      .chain (label .cfilter cfg.cfilters) ⟨.errorWriter, errorScript code allow (errMsg E cfg sr code tag)⟩ {} false
    | (.selected svc rid ps, _) =>
      .chain (allFilters cfg svc rid) ⟨.handler rid, (routeX cfg rid).script⟩
        { params := ps, selPath :=
            match (cfg.routing.services.flatMap (·.built)).find? (fun r => r.id == rid && r.svc == svc) with
            | some r => r.path
            | none => [] }
        (match (routeX cfg rid).enc with
          | some b => b
          | none => cfg.encoding)

def runPlan (cfg : Cfg) (sr : SReq) (s0 : St) : Plan → St × Option Str × Nat
  | .early v => finishDispatch cfg s0 (some v)
  | .chain fs t cx enc =>
    finishDispatch cfg (runChain fs t cx (maybeInstall enc s0 sr.acceptEncoding)).2.1
      (runChain fs t cx (maybeInstall enc s0 sr.acceptEncoding)).2.2

theorem dispatch_eq (E : ReEnv) (cfg : Cfg) (sr : SReq) (s0 : St) :
    dispatch E cfg sr s0 = runPlan cfg sr s0 (planD E cfg sr) := by
  unfold dispatch planD
  cases sr.condPanic with
  | some v => rfl
  | none =>
    simp only []
    generalize routeTagged E cfg.routing sr.req = o
    obtain ⟨o, tag⟩ := o
    cases o <;> rfl

/-- the panic a routed request raises -/
def Plan.raised : Plan → Option Str
  | .early v => some v
  | .chain fs t _ _ => chainPanic fs t.script

/-- the same plan with the compressor switched off -/
def Plan.raw : Plan → Plan
  | .early v => .early v
  | .chain fs t cx _ => .chain fs t cx false

/-- the configuration `c10Holds` (and `c07Holds`) compare with: no coding, no recovery -/
abbrev rawCfg (cfg : Cfg) : Cfg := { Spec.noCoding cfg with recover := false }
abbrev rawReq (sr : SReq) : SReq := { sr with acceptEncoding := [] }

theorem routeX_noCoding (cfg : Cfg) (rid : Nat) : routeX (Spec.noCoding cfg) rid = { routeX cfg rid with enc := none } := by
  unfold routeX Spec.noCoding
  simp only []
  induction cfg.routes with
  | nil => rfl
  | cons r rs ih =>
    simp only [List.map_cons, List.find?_cons]
    cases h : r.id == rid with
    | true => rfl
    | false => exact ih

theorem allFilters_rawCfg (cfg : Cfg) (svc rid : Nat) : allFilters (rawCfg cfg) svc rid = allFilters cfg svc rid := by
  have : routeX (rawCfg cfg) rid = routeX (Spec.noCoding cfg) rid := rfl
  unfold allFilters
  rw [this, routeX_noCoding]
  rfl

/-- routing, the filters and the scripts are the same with coding and recovery switched off -/
theorem planD_raw (E : ReEnv) (cfg : Cfg) (sr : SReq) : planD E (rawCfg cfg) (rawReq sr) = (planD E cfg sr).raw := by
  have hc : (rawReq sr).condPanic = sr.condPanic := rfl
  have hq : (rawReq sr).req = sr.req := rfl
  have hrt : (rawCfg cfg).routing = cfg.routing := rfl
  have hcf : (rawCfg cfg).cfilters = cfg.cfilters := rfl
  have henc : (rawCfg cfg).encoding = false := rfl
  unfold planD
  rw [hc, hq, hrt, hcf, henc]
  cases sr.condPanic with
  | some v => rfl
  | none =>
    simp only []
    generalize routeTagged E cfg.routing sr.req = o
    obtain ⟨o, tag⟩ := o
    cases o with
    | panic w => rfl
    | error code allow => rfl
    | selected svc rid ps =>
      have h1 : routeX (rawCfg cfg) rid = { routeX cfg rid with enc := none } := routeX_noCoding cfg rid
      simp only [Plan.raw, allFilters_rawCfg, h1]

theorem maybeInstall_false (s : St) (ae : Str) : maybeInstall false s ae = s := by simp [maybeInstall]

theorem runPlan_snd (cfg : Cfg) (sr : SReq) (s0 : St) (pl : Plan) :
    (runPlan cfg sr s0 pl).2 =
      if cfg.recover then (none, if pl.raised.isSome then 1 else 0) else (pl.raised, 0) := by
  cases pl with
  | early v => rw [runPlan, finishDispatch_snd]; rfl
  | chain fs t cx enc => rw [runPlan, finishDispatch_snd, runChain_panic]; rfl

theorem runPlan_closed (cfg : Cfg) (sr : SReq) (s0 : St) (pl : Plan) : Closed (runPlan cfg sr s0 pl).1.rc := by
  cases pl <;> exact finishDispatch_closed _ _ _

/-- a request state nothing has been written to: status open, compressor (if any) not closed -/
def Fresh (s : St) : Prop := s.rc.status = none ∧ Open s.rc

theorem fresh_initial (sr : SReq) : Fresh (initial sr) := ⟨rfl, fun _ h => by cases h⟩

theorem fresh_install {s : St} (c : Coding) (h : Fresh s) : Fresh (install s c) := by
  refine ⟨h.1, ?_⟩
  intro c0 h0
  simp only [install, addHeader] at h0
  cases h0
  rfl

theorem fresh_maybeInstall {s : St} (b : Bool) (ae : Str) (h : Fresh s) : Fresh (maybeInstall b s ae) := by
  unfold maybeInstall
  split
  · exact h
  · split
    · exact fresh_install _ h
    · exact h

/-- ingredient (c): if the run without coding and recovery ends in a panic with the status still
    open, the real run (recovery on) ends with the recover handler's status -/
theorem runPlan_status (cfg cfg' : Cfg) (sr sr' : SReq) (s0 s0' : St) (pl : Plan)
    (hr : cfg.recover = true) (hr' : cfg'.recover = false) (he : Spec.recoverPanicsEarly cfg = false)
    (h0 : Fresh s0) (h0' : s0'.rc.comp = none)
    (hp : pl.raised.isSome = true) (hraw : (runPlan cfg' sr' s0' pl.raw).1.rc.status = none) :
    (runPlan cfg sr s0 pl).1.rc.status.getD 200 = Spec.recoverStatus cfg := by
  cases pl with
  | early v => exact finishDispatch_status cfg s0 v hr h0.1 h0.2 he
  | chain fs t cx enc =>
    simp only [Plan.raised, Option.isSome_iff_exists] at hp
    obtain ⟨v, hv⟩ := hp
    simp only [Plan.raw, runPlan, maybeInstall_false, runChain_panic, hv, finishDispatch, hr'] at hraw
    have hraw' := closeComp_status_none hraw
    simp only [runPlan]
    have hf := fresh_maybeInstall enc sr.acceptEncoding h0
    have hsim : Sim (maybeInstall enc s0 sr.acceptEncoding).rc s0'.rc := ⟨hf.2, h0', fun _ => hf.1⟩
    have hsim' := runChain_rel sim_stable fs t cx cx _ _ hsim
    rw [runChain_panic, hv]
    exact finishDispatch_status cfg _ v hr (hsim'.2.2 hraw') hsim'.1 he

theorem Plan.raised_raw (pl : Plan) : pl.raw.raised = pl.raised := by cases pl <;> rfl

/-! ### the wrappers -/

theorem handleWrapper_snd (cfg : Cfg) (sr : SReq) (s0 : St) (body : St → St × Option Str × Nat) :
    ∃ s1, (handleWrapper cfg sr s0 body).2 = (body s1).2 := by
  unfold handleWrapper
  split
  · exact ⟨s0, rfl⟩
  · exact ⟨_, rfl⟩

/-- ingredient (d) for `Handle`: whoever installed the compressing writer closes it — also when a
    panic propagates (the `Close` is deferred) -/
theorem handleWrapper_closed (cfg : Cfg) (sr : SReq) (s0 : St) (body : St → St × Option Str × Nat)
    (h : s0.rc.comp = none) : Closed (handleWrapper cfg sr s0 body).1.rc := by
  unfold handleWrapper
  simp only [h, Option.isSome_none, Bool.false_eq_true, if_false]
  exact closeComp_closed _

theorem serveWrapper_cases (cfg : Cfg) (sr : SReq) (s0 : St) (inner : St → St × Option Str × Nat) :
    serveWrapper cfg sr s0 inner = inner s0 ∨
      ∃ s1, (s1 = s0 ∨ ∃ c, s1 = install s0 c) ∧
        serveWrapper cfg sr s0 inner = (closeComp (inner s1).1, (inner s1).2.1, (inner s1).2.2) := by
  unfold serveWrapper
  split
  · exact Or.inl rfl
  · right
    cases wants s0.rc sr.acceptEncoding with
    | none => exact ⟨s0, Or.inl rfl, rfl⟩
    | some c => exact ⟨install s0 c, Or.inr ⟨c, rfl⟩, rfl⟩

theorem serveWrapper_snd (cfg : Cfg) (sr : SReq) (s0 : St) (inner : St → St × Option Str × Nat) :
    ∃ s1, (serveWrapper cfg sr s0 inner).2 = (inner s1).2 := by
  rcases serveWrapper_cases cfg sr s0 inner with h | ⟨s1, _, h⟩
  · exact ⟨s0, by rw [h]⟩
  · exact ⟨s1, by rw [h]⟩

theorem serveWrapper_off (cfg : Cfg) (sr : SReq) (s0 : St) (inner : St → St × Option Str × Nat)
    (h : cfg.encoding = false) : serveWrapper cfg sr s0 inner = inner s0 := by
  simp [serveWrapper, h]

/-- ingredient (d) for `ServeHTTP` -/
theorem serveWrapper_closed (cfg : Cfg) (sr : SReq) (s0 : St) (inner : St → St × Option Str × Nat)
    (h : Closed (inner s0).1.rc) : Closed (serveWrapper cfg sr s0 inner).1.rc := by
  rcases serveWrapper_cases cfg sr s0 inner with h' | ⟨s1, _, h'⟩
  · rw [h']; exact h
  · rw [h']; exact closeComp_closed _

theorem plainBody_snd (cfg : Cfg) (s : St) : (plainBody cfg s).2 = (firstPanic cfg.plainScript, 0) := by
  show ((runStage (.plain 0) false cfg.plainScript {} s).2.2, 0) = _
  rw [runStage_panic]

/-- `HandleWithFilter` with container filters, the chain's results named by projections and its
    panic by `chainPanic` -/
theorem plainFilteredBody_eq (cfg : Cfg) (s : St) (hne : cfg.cfilters.isEmpty = false) :
    plainFilteredBody cfg s =
      (match chainPanic (label .cfilter cfg.cfilters) cfg.plainScript with
       | none => ((runChain (label .cfilter cfg.cfilters) ⟨.plain 0, cfg.plainScript⟩ {} s).2.1, none, 0)
       | some v =>
         if cfg.recover then
           (runRecover cfg (runChain (label .cfilter cfg.cfilters) ⟨.plain 0, cfg.plainScript⟩ {} s).2.1, none, 1)
         else ((runChain (label .cfilter cfg.cfilters) ⟨.plain 0, cfg.plainScript⟩ {} s).2.1, some v, 0)) := by
  unfold plainFilteredBody
  simp only [hne, Bool.false_eq_true, if_false]
  have hp := runChain_panic (label .cfilter cfg.cfilters) ⟨.plain 0, cfg.plainScript⟩ {} s
  generalize runChain (label .cfilter cfg.cfilters) ⟨.plain 0, cfg.plainScript⟩ {} s = Q at hp ⊢
  obtain ⟨cx1, s1, p⟩ := Q
  simp only at hp
  subst hp
  rfl

/-- ingredient (b) for `HandleWithFilter` (container.go:393): with container filters and recovery on
    nothing leaves the chain and the recover handler is called once iff there was a panic; without
    container filters (the handler is called directly) or with recovery off the panic is handed on -/
theorem plainFilteredBody_snd (cfg : Cfg) (s : St) :
    (plainFilteredBody cfg s).2 =
      if cfg.recover && !cfg.cfilters.isEmpty then
        (none, if (chainPanic (label .cfilter cfg.cfilters) cfg.plainScript).isSome then 1 else 0)
      else (chainPanic (label .cfilter cfg.cfilters) cfg.plainScript, 0) := by
  cases hne : cfg.cfilters.isEmpty with
  | true =>
    have h : cfg.cfilters = [] := List.isEmpty_iff.mp hne
    unfold plainFilteredBody
    simp only [hne, if_true, plainBody_snd, Bool.not_true, Bool.and_false, Bool.false_eq_true, if_false]
    rw [h]
    rfl
  | false =>
    rw [plainFilteredBody_eq cfg s hne]
    cases chainPanic (label .cfilter cfg.cfilters) cfg.plainScript <;> cases cfg.recover <;> rfl

/-- ingredient (c) for `HandleWithFilter`: if the chain run without coding and recovery ends in a
    panic with the status still open, the real run (recovery on) ends with the recover handler's
    status — through a compressing writer as well -/
theorem plainFilteredBody_status (cfg : Cfg) (s s' : St)
    (hr : cfg.recover = true) (hne : cfg.cfilters.isEmpty = false) (he : Spec.recoverPanicsEarly cfg = false)
    (h0 : Fresh s) (h0' : s'.rc.comp = none)
    (hp : (chainPanic (label .cfilter cfg.cfilters) cfg.plainScript).isSome = true)
    (hraw : (plainFilteredBody (rawCfg cfg) s').1.rc.status = none) :
    (plainFilteredBody cfg s).1.rc.status.getD 200 = Spec.recoverStatus cfg := by
  obtain ⟨v, hv⟩ := Option.isSome_iff_exists.mp hp
  have hne' : (rawCfg cfg).cfilters.isEmpty = false := hne
  have hcf : (rawCfg cfg).cfilters = cfg.cfilters := rfl
  have hps : (rawCfg cfg).plainScript = cfg.plainScript := rfl
  have hrr : (rawCfg cfg).recover = false := rfl
  rw [plainFilteredBody_eq _ _ hne', hcf, hps, hv, hrr] at hraw
  simp only [Bool.false_eq_true, if_false] at hraw
  rw [plainFilteredBody_eq _ _ hne, hv]
  simp only [hr, if_true]
  have hsim : Sim s.rc s'.rc := ⟨h0.2, h0', fun _ => h0.1⟩
  have hsim' := runChain_rel sim_stable (label .cfilter cfg.cfilters) ⟨.plain 0, cfg.plainScript⟩ {} {} _ _ hsim
  exact runRecover_status cfg _ (hsim'.2.2 hraw) hsim'.1 he

/-- the same around the closure `Handle` registers -/
theorem handleFiltered_status (cfg : Cfg) (sr : SReq) (s0 s0' : St)
    (hr : cfg.recover = true) (hne : cfg.cfilters.isEmpty = false) (he : Spec.recoverPanicsEarly cfg = false)
    (h0 : Fresh s0) (h0' : s0'.rc.comp = none)
    (hp : (chainPanic (label .cfilter cfg.cfilters) cfg.plainScript).isSome = true)
    (hraw : (handleWrapper (rawCfg cfg) (rawReq sr) s0' (plainFilteredBody (rawCfg cfg))).1.rc.status = none) :
    (handleWrapper cfg sr s0 (plainFilteredBody cfg)).1.rc.status.getD 200 = Spec.recoverStatus cfg := by
  have hraw' : (plainFilteredBody (rawCfg cfg) s0').1.rc.status = none := by
    unfold handleWrapper at hraw
    simp only [h0', Option.isSome_none, Bool.false_eq_true, if_false] at hraw
    exact closeComp_status_none hraw
  unfold handleWrapper
  split
  · exact plainFilteredBody_status cfg s0 s0' hr hne he h0 h0' hp hraw'
  · show (closeComp (plainFilteredBody cfg (maybeInstall cfg.encoding s0 sr.acceptEncoding)).1).rc.status.getD 200 = _
    rw [closeComp_status_getD]
    exact plainFilteredBody_status cfg _ s0' hr hne he (fresh_maybeInstall _ _ h0) h0' hp hraw'

/-! ### `serve` -/

/-- the entry points whose chain goes through `dispatch` -/
def routed : Entry → Bool
  | .dispatch | .serveDispatch => true
  | _ => false

/-- the entry points recovery covers (with recovery on): the chains the framework builds — routed
    requests, and `HandleWithFilter` when there are container filters (container.go:393; without
    filters the handler is called directly, like one registered with `Handle`) -/
def covered (cfg : Cfg) (e : Entry) : Bool :=
  routed e || ((e == .muxHandleF || e == .serveHandleF) && !cfg.cfilters.isEmpty)

@[simp] theorem covered_dispatch (cfg : Cfg) : covered cfg .dispatch = true := rfl
@[simp] theorem covered_serveDispatch (cfg : Cfg) : covered cfg .serveDispatch = true := rfl
@[simp] theorem covered_muxHandle (cfg : Cfg) : covered cfg .muxHandle = false := rfl
@[simp] theorem covered_serveHandle (cfg : Cfg) : covered cfg .serveHandle = false := rfl
@[simp] theorem covered_muxHandleF (cfg : Cfg) : covered cfg .muxHandleF = !cfg.cfilters.isEmpty := by
  simp [covered, routed]
@[simp] theorem covered_serveHandleF (cfg : Cfg) : covered cfg .serveHandleF = !cfg.cfilters.isEmpty := by
  simp [covered, routed]

theorem covered_of_routed {cfg : Cfg} {e : Entry} (h : routed e = true) : covered cfg e = true := by
  simp [covered, h]

/-- `covered`, spelled out -/
theorem covered_iff (cfg : Cfg) (e : Entry) :
    covered cfg e = true ↔
      (e = .dispatch ∨ e = .serveDispatch ∨ ((e = .muxHandleF ∨ e = .serveHandleF) ∧ cfg.cfilters ≠ [])) := by
  cases e <;> simp

/-- the panic a request raises: a function of routing, the filters on its chain and the scripts;
    independent of the writer, of content coding and of the recovery switch -/
def raised (E : ReEnv) (cfg : Cfg) (e : Entry) (sr : SReq) : Option Str :=
  match e with
  | .dispatch | .serveDispatch => (planD E cfg sr).raised
  | .muxHandle | .serveHandle => firstPanic cfg.plainScript
  | .muxHandleF | .serveHandleF => chainPanic (label .cfilter cfg.cfilters) cfg.plainScript

theorem raised_raw (E : ReEnv) (cfg : Cfg) (e : Entry) (sr : SReq) :
    raised E (rawCfg cfg) e (rawReq sr) = raised E cfg e sr := by
  cases e <;> first | rfl | (simp only [raised]; rw [planD_raw, Plan.raised_raw])

/-- state, propagating panic and recover-handler calls at the end of `serve` -/
def serveCore (E : ReEnv) (cfg : Cfg) (e : Entry) (sr : SReq) : St × Option Str × Nat :=
  match e with
  | .dispatch => dispatch E cfg sr (initial sr)
  | .serveDispatch => serveWrapper cfg sr (initial sr) (dispatch E cfg sr)
  | .muxHandle => handleWrapper cfg sr (initial sr) (plainBody cfg)
  | .serveHandle => serveWrapper cfg sr (initial sr) (fun s => handleWrapper cfg sr s (plainBody cfg))
  | .muxHandleF => handleWrapper cfg sr (initial sr) (plainFilteredBody cfg)
  | .serveHandleF => serveWrapper cfg sr (initial sr) (fun s => handleWrapper cfg sr s (plainFilteredBody cfg))

theorem serve_eq (E : ReEnv) (cfg : Cfg) (e : Entry) (w : World) (sr : SReq) :
    serve E cfg e w sr =
      { rc := (serveCore E cfg e sr).1.rc, log := (serveCore E cfg e sr).1.log.reverse,
        world := ledger w (serveCore E cfg e sr).1.rc,
        escaped := (serveCore E cfg e sr).2.1, recoverCalls := (serveCore E cfg e sr).2.2 } := by
  cases e <;> rfl

theorem dispatch_snd (E : ReEnv) (cfg : Cfg) (sr : SReq) (s : St) :
    (dispatch E cfg sr s).2 =
      if cfg.recover then (none, if (planD E cfg sr).raised.isSome then 1 else 0) else ((planD E cfg sr).raised, 0) := by
  rw [dispatch_eq, runPlan_snd]

theorem serveCore_snd (E : ReEnv) (cfg : Cfg) (e : Entry) (sr : SReq) :
    (serveCore E cfg e sr).2 =
      if cfg.recover && covered cfg e then (none, if (raised E cfg e sr).isSome then 1 else 0)
      else (raised E cfg e sr, 0) := by
  cases e with
  | dispatch => simp only [serveCore, dispatch_snd, covered_dispatch, raised, Bool.and_true]; rfl
  | serveDispatch =>
    obtain ⟨s1, h⟩ := serveWrapper_snd cfg sr (initial sr) (dispatch E cfg sr)
    simp only [serveCore, h, dispatch_snd, covered_serveDispatch, raised, Bool.and_true]; rfl
  | muxHandle =>
    obtain ⟨s1, h⟩ := handleWrapper_snd cfg sr (initial sr) (plainBody cfg)
    simp [serveCore, h, plainBody_snd, raised]
  | serveHandle =>
    obtain ⟨s1, h⟩ := serveWrapper_snd cfg sr (initial sr) (fun s => handleWrapper cfg sr s (plainBody cfg))
    obtain ⟨s2, h2⟩ := handleWrapper_snd cfg sr s1 (plainBody cfg)
    simp [serveCore, h, h2, plainBody_snd, raised]
  | muxHandleF =>
    obtain ⟨s1, h⟩ := handleWrapper_snd cfg sr (initial sr) (plainFilteredBody cfg)
    simp only [serveCore, h, plainFilteredBody_snd, covered_muxHandleF, raised]; rfl
  | serveHandleF =>
    obtain ⟨s1, h⟩ := serveWrapper_snd cfg sr (initial sr) (fun s => handleWrapper cfg sr s (plainFilteredBody cfg))
    obtain ⟨s2, h2⟩ := handleWrapper_snd cfg sr s1 (plainFilteredBody cfg)
    simp only [serveCore, h, h2, plainFilteredBody_snd, covered_serveHandleF, raised]; rfl

/-- the panic that leaves the entry point -/
theorem serve_escaped (E : ReEnv) (cfg : Cfg) (e : Entry) (w : World) (sr : SReq) :
    (serve E cfg e w sr).escaped = if cfg.recover && covered cfg e then none else raised E cfg e sr := by
  rw [serve_eq]
  simp only [serveCore_snd]
  split <;> rfl

/-- the number of recover-handler calls -/
theorem serve_recoverCalls (E : ReEnv) (cfg : Cfg) (e : Entry) (w : World) (sr : SReq) :
    (serve E cfg e w sr).recoverCalls =
      if cfg.recover && covered cfg e then (if (raised E cfg e sr).isSome then 1 else 0) else 0 := by
  rw [serve_eq]
  simp only [serveCore_snd]
  split <;> rfl

/-- `raw.escaped` of `c10Holds` is the panic the request raises -/
theorem raw_escaped (E : ReEnv) (cfg : Cfg) (e : Entry) (w : World) (sr : SReq) :
    (serve E (rawCfg cfg) e w (rawReq sr)).escaped = raised E cfg e sr := by
  rw [serve_escaped, raised_raw]
  rfl

theorem dispatch_closed (E : ReEnv) (cfg : Cfg) (sr : SReq) (s : St) : Closed (dispatch E cfg sr s).1.rc := by
  rw [dispatch_eq]; exact runPlan_closed _ _ _ _

/-- ingredient (d): on every path through every entry point the compressing writer installed for the
    request has been closed when the entry point is left -/
theorem serveCore_closed (E : ReEnv) (cfg : Cfg) (e : Entry) (sr : SReq) : Closed (serveCore E cfg e sr).1.rc := by
  cases e with
  | dispatch => exact dispatch_closed _ _ _ _
  | serveDispatch => exact serveWrapper_closed _ _ _ _ (dispatch_closed _ _ _ _)
  | muxHandle => exact handleWrapper_closed _ _ _ _ rfl
  | serveHandle => exact serveWrapper_closed _ _ _ _ (handleWrapper_closed _ _ _ _ rfl)
  | muxHandleF => exact handleWrapper_closed _ _ _ _ rfl
  | serveHandleF => exact serveWrapper_closed _ _ _ _ (handleWrapper_closed _ _ _ _ rfl)

theorem serve_closed (E : ReEnv) (cfg : Cfg) (e : Entry) (w : World) (sr : SReq) : Closed (serve E cfg e w sr).rc := by
  rw [serve_eq]; exact serveCore_closed E cfg e sr

/-- the ledger after a request whose compressor (if any) was closed: one more of each -/
theorem ledger_closed (w : World) (r : Rec) (h : Closed r) :
    (ledger w r).acquired - w.acquired = (ledger w r).released - w.released ∧
      ((ledger w r).acquired = w.acquired + (if r.comp.isSome then 1 else 0)) ∧
      ((ledger w r).released = w.released + (if r.comp.isSome then 1 else 0)) := by
  unfold ledger
  cases hc : r.comp with
  | none => simp
  | some c => simp [h c hc]

theorem dispatch_status (E : ReEnv) (cfg : Cfg) (sr : SReq) (s0 : St)
    (hr : cfg.recover = true) (he : Spec.recoverPanicsEarly cfg = false) (h0 : Fresh s0)
    (hp : (planD E cfg sr).raised.isSome = true)
    (hraw : (dispatch E (rawCfg cfg) (rawReq sr) (initial (rawReq sr))).1.rc.status = none) :
    (dispatch E cfg sr s0).1.rc.status.getD 200 = Spec.recoverStatus cfg := by
  rw [dispatch_eq, planD_raw] at hraw
  rw [dispatch_eq]
  exact runPlan_status cfg (rawCfg cfg) sr (rawReq sr) s0 _ _ hr rfl he h0 rfl hp hraw

/-- ingredient (c) on `serve`, every covered entry point -/
theorem serveCore_status (E : ReEnv) (cfg : Cfg) (e : Entry) (sr : SReq)
    (hr : cfg.recover = true) (hco : covered cfg e = true) (he : Spec.recoverPanicsEarly cfg = false)
    (hp : (raised E cfg e sr).isSome = true)
    (hraw : (serveCore E (rawCfg cfg) e (rawReq sr)).1.rc.status = none) :
    (serveCore E cfg e sr).1.rc.status.getD 200 = Spec.recoverStatus cfg := by
  cases e with
  | dispatch => exact dispatch_status E cfg sr _ hr he (fresh_initial sr) hp hraw
  | serveDispatch =>
    simp only [serveCore] at hraw
    rw [serveWrapper_off _ _ _ _ rfl] at hraw
    simp only [serveCore]
    rcases serveWrapper_cases cfg sr (initial sr) (dispatch E cfg sr) with h | ⟨s1, hs1, h⟩
    · rw [h]
      exact dispatch_status E cfg sr _ hr he (fresh_initial sr) hp hraw
    · rw [h]
      simp only [closeComp_status_getD]
      refine dispatch_status E cfg sr _ hr he ?_ hp hraw
      rcases hs1 with rfl | ⟨c, rfl⟩
      · exact fresh_initial sr
      · exact fresh_install c (fresh_initial sr)
  | muxHandle => simp at hco
  | serveHandle => simp at hco
  | muxHandleF =>
    have hne : cfg.cfilters.isEmpty = false := by simpa using hco
    exact handleFiltered_status cfg sr _ _ hr hne he (fresh_initial sr) rfl hp hraw
  | serveHandleF =>
    have hne : cfg.cfilters.isEmpty = false := by simpa using hco
    simp only [serveCore] at hraw
    rw [serveWrapper_off _ _ _ _ rfl] at hraw
    simp only [serveCore]
    rcases serveWrapper_cases cfg sr (initial sr) (fun s => handleWrapper cfg sr s (plainFilteredBody cfg)) with h | ⟨s1, hs1, h⟩
    · rw [h]
      exact handleFiltered_status cfg sr _ _ hr hne he (fresh_initial sr) rfl hp hraw
    · rw [h]
      simp only [closeComp_status_getD]
      refine handleFiltered_status cfg sr _ _ hr hne he ?_ rfl hp hraw
      rcases hs1 with rfl | ⟨c, rfl⟩
      · exact fresh_initial sr
      · exact fresh_install c (fresh_initial sr)

/-! ### the body after a recovered panic -/

/-- a request state nothing has been written to, as to the body: the compressor (if any) is not
    closed and there is nothing for the client to see yet -/
def Blank (s : St) : Prop := Open s.rc ∧ visBody s.rc = []

theorem blank_initial (sr : SReq) : Blank (initial sr) := ⟨fun _ h => (by cases h), rfl⟩

theorem blank_install (s : St) (c : Coding) : Blank (install s c) := by
  refine ⟨?_, rfl⟩
  intro c0 h0
  simp only [install, addHeader] at h0
  cases h0
  rfl

theorem blank_maybeInstall {s : St} (b : Bool) (ae : Str) (h : Blank s) : Blank (maybeInstall b s ae) := by
  unfold maybeInstall
  split
  · exact h
  · split
    · exact blank_install _ _
    · exact h

theorem finishDispatch_visBody (cfg : Cfg) (s : St) (v : Str) (hr : cfg.recover = true) (ho : Open s.rc) :
    visBody (finishDispatch cfg s (some v)).1.rc = visBody s.rc ++ recoverWrites cfg := by
  simp only [finishDispatch, hr, if_true]
  rw [closeComp_visBody]
  exact runRecover_visBody cfg s ho

theorem finishDispatch_body_off (cfg : Cfg) (s : St) (p : Option Str) (hr : cfg.recover = false) :
    (finishDispatch cfg s p).1.rc.body = s.rc.body := by
  unfold finishDispatch
  cases p with
  | none => exact closeComp_body s
  | some v =>
    simp only [hr, Bool.false_eq_true, if_false]
    exact closeComp_body s

/-- the body after a recovered panic on a routed request: what the run without coding and recovery
    had written when the panic was raised, followed by the recover handler's writes — through a
    compressing writer as well -/
theorem runPlan_body (cfg cfg' : Cfg) (sr sr' : SReq) (s0 s0' : St) (pl : Plan)
    (hr : cfg.recover = true) (hr' : cfg'.recover = false)
    (h0 : Blank s0) (h0' : s0'.rc.comp = none) (hb' : s0'.rc.body = [])
    (hp : pl.raised.isSome = true) :
    visBody (runPlan cfg sr s0 pl).1.rc = (runPlan cfg' sr' s0' pl.raw).1.rc.body ++ recoverWrites cfg := by
  cases pl with
  | early v =>
    simp only [Plan.raw, runPlan]
    rw [finishDispatch_visBody cfg s0 v hr h0.1, finishDispatch_body_off cfg' s0' _ hr', h0.2, hb']
  | chain fs t cx enc =>
    simp only [Plan.raised, Option.isSome_iff_exists] at hp
    obtain ⟨v, hv⟩ := hp
    simp only [Plan.raw, runPlan, maybeInstall_false, runChain_panic, hv]
    have hf := blank_maybeInstall enc sr.acceptEncoding h0
    have hsim : Vis (maybeInstall enc s0 sr.acceptEncoding).rc s0'.rc := ⟨hf.1, h0', by rw [hf.2, hb']⟩
    have hsim' := (runChain_relEq vis_stable fs t cx _ _ hsim).2
    rw [finishDispatch_visBody cfg _ v hr hsim'.1, finishDispatch_body_off cfg' _ _ hr', hsim'.2.2]

theorem dispatch_body (E : ReEnv) (cfg : Cfg) (sr : SReq) (s0 : St)
    (hr : cfg.recover = true) (h0 : Blank s0)
    (hp : (planD E cfg sr).raised.isSome = true) :
    visBody (dispatch E cfg sr s0).1.rc =
      (dispatch E (rawCfg cfg) (rawReq sr) (initial (rawReq sr))).1.rc.body ++ recoverWrites cfg := by
  rw [dispatch_eq, dispatch_eq E (rawCfg cfg), planD_raw]
  exact runPlan_body cfg (rawCfg cfg) sr (rawReq sr) s0 _ _ hr rfl h0 rfl rfl hp

/-- the same for the chain `HandleWithFilter` builds -/
theorem plainFilteredBody_body (cfg : Cfg) (s s' : St)
    (hr : cfg.recover = true) (hne : cfg.cfilters.isEmpty = false)
    (h0 : Blank s) (h0' : s'.rc.comp = none) (hb' : s'.rc.body = [])
    (hp : (chainPanic (label .cfilter cfg.cfilters) cfg.plainScript).isSome = true) :
    visBody (plainFilteredBody cfg s).1.rc =
      (plainFilteredBody (rawCfg cfg) s').1.rc.body ++ recoverWrites cfg := by
  obtain ⟨v, hv⟩ := Option.isSome_iff_exists.mp hp
  have hne' : (rawCfg cfg).cfilters.isEmpty = false := hne
  have hcf : (rawCfg cfg).cfilters = cfg.cfilters := rfl
  have hps : (rawCfg cfg).plainScript = cfg.plainScript := rfl
  have hrr : (rawCfg cfg).recover = false := rfl
  rw [plainFilteredBody_eq _ _ hne', hcf, hps, hv, hrr, plainFilteredBody_eq _ _ hne, hv]
  simp only [hr, if_true, Bool.false_eq_true, if_false]
  have hsim : Vis s.rc s'.rc := ⟨h0.1, h0', by rw [h0.2, hb']⟩
  have hsim' := (runChain_relEq vis_stable (label .cfilter cfg.cfilters) ⟨.plain 0, cfg.plainScript⟩ {} _ _ hsim).2
  rw [runRecover_visBody cfg _ hsim'.1, hsim'.2.2]

theorem handleWrapper_raw_body (cfg : Cfg) (sr : SReq) (s0' : St) (body : St → St × Option Str × Nat)
    (h0' : s0'.rc.comp = none) :
    (handleWrapper (rawCfg cfg) (rawReq sr) s0' body).1.rc.body = (body s0').1.rc.body := by
  unfold handleWrapper
  simp only [h0', Option.isSome_none, Bool.false_eq_true, if_false]
  show (closeComp (body (maybeInstall false s0' [])).1).rc.body = _
  rw [closeComp_body, maybeInstall_false]

theorem handleFiltered_body (cfg : Cfg) (sr : SReq) (s0 s0' : St)
    (hr : cfg.recover = true) (hne : cfg.cfilters.isEmpty = false)
    (h0 : Blank s0) (h0' : s0'.rc.comp = none) (hb' : s0'.rc.body = [])
    (hp : (chainPanic (label .cfilter cfg.cfilters) cfg.plainScript).isSome = true) :
    visBody (handleWrapper cfg sr s0 (plainFilteredBody cfg)).1.rc =
      (handleWrapper (rawCfg cfg) (rawReq sr) s0' (plainFilteredBody (rawCfg cfg))).1.rc.body ++ recoverWrites cfg := by
  rw [handleWrapper_raw_body cfg sr s0' _ h0']
  unfold handleWrapper
  split
  · exact plainFilteredBody_body cfg s0 s0' hr hne h0 h0' hb' hp
  · show visBody (closeComp (plainFilteredBody cfg (maybeInstall cfg.encoding s0 sr.acceptEncoding)).1).rc = _
    rw [closeComp_visBody]
    exact plainFilteredBody_body cfg _ s0' hr hne (blank_maybeInstall _ _ h0) h0' hb' hp

/-- the body clause on `serve`, every covered entry point: after a recovered panic the client sees
    (decoded) what the run without coding and recovery had written when the panic was raised,
    followed by what the recover handler writes -/
theorem serveCore_body (E : ReEnv) (cfg : Cfg) (e : Entry) (sr : SReq)
    (hr : cfg.recover = true) (hco : covered cfg e = true)
    (hp : (raised E cfg e sr).isSome = true) :
    visBody (serveCore E cfg e sr).1.rc =
      (serveCore E (rawCfg cfg) e (rawReq sr)).1.rc.body ++ recoverWrites cfg := by
  cases e with
  | dispatch => exact dispatch_body E cfg sr _ hr (blank_initial sr) hp
  | serveDispatch =>
    simp only [serveCore]
    rw [serveWrapper_off (rawCfg cfg) _ _ _ rfl]
    rcases serveWrapper_cases cfg sr (initial sr) (dispatch E cfg sr) with h | ⟨s1, hs1, h⟩
    · rw [h]
      exact dispatch_body E cfg sr _ hr (blank_initial sr) hp
    · rw [h]
      simp only [closeComp_visBody]
      refine dispatch_body E cfg sr _ hr ?_ hp
      rcases hs1 with rfl | ⟨c, rfl⟩
      · exact blank_initial sr
      · exact blank_install _ c
  | muxHandle => simp at hco
  | serveHandle => simp at hco
  | muxHandleF =>
    have hne : cfg.cfilters.isEmpty = false := by simpa using hco
    exact handleFiltered_body cfg sr _ _ hr hne (blank_initial sr) rfl rfl hp
  | serveHandleF =>
    have hne : cfg.cfilters.isEmpty = false := by simpa using hco
    simp only [serveCore]
    rw [serveWrapper_off (rawCfg cfg) _ _ _ rfl]
    rcases serveWrapper_cases cfg sr (initial sr) (fun s => handleWrapper cfg sr s (plainFilteredBody cfg)) with h | ⟨s1, hs1, h⟩
    · rw [h]
      exact handleFiltered_body cfg sr _ _ hr hne (blank_initial sr) rfl rfl hp
    · rw [h]
      simp only [closeComp_visBody]
      refine handleFiltered_body cfg sr _ _ hr hne ?_ rfl rfl hp
      rcases hs1 with rfl | ⟨c, rfl⟩
      · exact blank_initial sr
      · exact blank_install _ c

/-- an observed body that is what had been written before followed by the recover handler's writes
    meets the body clause of `c10Holds`, whichever handler is installed and whether or not part of
    what had been written is a text of the library's own -/
theorem c10Body_of_eq (cfg : Cfg) (lib : Bool) (before : Str) (o : Spec.Obs)
    (h : o.body = before ++ recoverWrites cfg) : Spec.c10Body cfg lib before o = true := by
  unfold Spec.c10Body
  unfold recoverWrites at h
  cases hsc : cfg.recoverScript with
  | some sc =>
    rw [hsc] at h
    simp only [h]
    cases lib
    · simp
    · simp [List.suffix_append]
  | none =>
    rw [hsc] at h
    have hpos : 0 < "<stack>".toList.length := List.length_pos_iff.mpr stack_ne_nil
    simp only [h]
    cases lib
    · simp only [Bool.false_eq_true, if_false, Bool.and_eq_true, decide_eq_true_eq, List.length_append]
      exact ⟨List.isPrefixOf_iff_prefix.mpr (List.prefix_append _ _), by omega⟩
    · simp

/-! ### bridge to the specification's `chainLog` / `panicFromFilter` -/

theorem attrsAfter_panic (as : List Act) (attrs : List (Str × Str)) :
    (Spec.attrsAfter as attrs).2 = (firstPanic as).isSome := by
  induction as generalizing attrs with
  | nil => rfl
  | cons a as ih => cases a <;> simp [Spec.attrsAfter, firstPanic, ih]

/-- the specification's "a panic is unwinding" flag is the model's panic result -/
theorem chainLog_panic (fs : List (Stage × Filter)) (t : Target) (cx : Ctx) :
    (Spec.chainLog fs t cx).2.2 = (chainPanic fs t.script).isSome := by
  induction fs generalizing cx with
  | nil => simp [Spec.chainLog, chainPanic, attrsAfter_panic]
  | cons sf fs ih =>
    obtain ⟨st, f⟩ := sf
    rw [Spec.chainLog, chainPanic]
    have hpre := attrsAfter_panic f.pre cx.attrs
    generalize Spec.attrsAfter f.pre cx.attrs = r1 at hpre ⊢
    obtain ⟨a1, p1⟩ := r1
    simp only at hpre
    subst hpre
    cases firstPanic f.pre with
    | some v => rfl
    | none =>
      simp only [Option.isSome_none, Bool.false_eq_true, if_false]
      have hpost : ∀ attrs, (Spec.attrsAfter f.post attrs).2 = (firstPanic f.post).isSome := attrsAfter_panic f.post
      cases f.kind with
      | stop =>
        simp only []
        exact hpost a1
      | pass =>
        simp only []
        have h2 := ih { attrs := a1, params := cx.params, selPath := cx.selPath, wrappers := cx.wrappers }
        generalize Spec.chainLog fs t _ = r2 at h2 ⊢
        obtain ⟨inner, cx2, p⟩ := r2
        simp only at h2
        subst h2
        cases chainPanic fs t.script with
        | some v => rfl
        | none =>
          simp only [Option.isSome_none, Bool.false_eq_true, if_false]
          exact hpost _
      | replace =>
        simp only []
        have h2 := ih { attrs := [("who".toList, (toString f.id).toList)], wrappers := f.id :: cx.wrappers }
        generalize Spec.chainLog fs t _ = r2 at h2 ⊢
        obtain ⟨inner, cx2, p⟩ := r2
        simp only at h2
        subst h2
        cases chainPanic fs t.script with
        | some v => rfl
        | none =>
          simp only [Option.isSome_none, Bool.false_eq_true, if_false]
          exact hpost _
      | middle =>
        simp only []
        have h2 := ih { attrs := a1, params := cx.params, selPath := cx.selPath, wrappers := f.id :: cx.wrappers }
        generalize Spec.chainLog fs t _ = r2 at h2 ⊢
        obtain ⟨inner, cx2, p⟩ := r2
        simp only at h2
        subst h2
        cases chainPanic fs t.script with
        | some v => rfl
        | none =>
          simp only [Option.isSome_none, Bool.false_eq_true, if_false]
          exact hpost _

/-- the chain the specification assigns to a request is the one the model runs -/
def Plan.chain? : Plan → Option (List (Stage × Filter) × Target × Ctx)
  | .early _ => none
  | .chain fs t cx _ => some (fs, t, cx)

theorem chainOf_routed (E : ReEnv) (cfg : Cfg) (e : Entry) (sr : SReq) (h : routed e = true) :
    Spec.chainOf E cfg e sr = (planD E cfg sr).chain? := by
  have : Spec.chainOf E cfg e sr = Spec.chainOf E cfg .dispatch sr := by
    cases e <;> first | rfl | cases h
  rw [this]
  unfold Spec.chainOf planD
  cases sr.condPanic with
  | some v => rfl
  | none =>
    simp only [Option.isSome_none, Bool.false_eq_true, if_false]
    generalize routeTagged E cfg.routing sr.req = o
    obtain ⟨o, tag⟩ := o
    cases o <;> rfl

theorem panicFromFilter_of_chain {fs : List (Stage × Filter)} {t : Target} {cx : Ctx}
    (h : (match Spec.chainLog fs t cx with
      | (evs, _, p) => p && (match evs.getLast? with
        | some ev => (match ev.stage with
          | .cfilter _ => true
          | .sfilter _ => true
          | .rfilter _ => true
          | _ => false)
        | none => false)) = true) : (chainPanic fs t.script).isSome = true := by
  rw [← chainLog_panic fs t cx]
  revert h
  generalize Spec.chainLog fs t cx = r
  obtain ⟨evs, cx', p⟩ := r
  cases p <;> simp

/-- `panicFromFilter` implies that the request raises a panic -/
theorem raised_of_panicFromFilter (E : ReEnv) (cfg : Cfg) (e : Entry) (sr : SReq)
    (h : Spec.panicFromFilter E cfg e sr = true) : (raised E cfg e sr).isSome = true := by
  unfold Spec.panicFromFilter at h
  cases e with
  | dispatch =>
    rw [chainOf_routed E cfg _ sr rfl] at h
    simp only [raised]
    cases hp : planD E cfg sr with
    | early v => rfl
    | chain fs t cx enc =>
      rw [hp] at h
      exact panicFromFilter_of_chain h
  | serveDispatch =>
    rw [chainOf_routed E cfg _ sr rfl] at h
    simp only [raised]
    cases hp : planD E cfg sr with
    | early v => rfl
    | chain fs t cx enc =>
      rw [hp] at h
      exact panicFromFilter_of_chain h
  | muxHandle => exact panicFromFilter_of_chain (fs := []) (t := ⟨.plain 0, cfg.plainScript⟩) h
  | serveHandle => exact panicFromFilter_of_chain (fs := []) (t := ⟨.plain 0, cfg.plainScript⟩) h
  | muxHandleF => exact panicFromFilter_of_chain (t := ⟨.plain 0, cfg.plainScript⟩) h
  | serveHandleF => exact panicFromFilter_of_chain (t := ⟨.plain 0, cfg.plainScript⟩) h

/-- a plain handler registered with `Handle` has no filters: its panic is never a filter's -/
theorem panicFromFilter_plain (E : ReEnv) (cfg : Cfg) (e : Entry) (sr : SReq)
    (h : e = .muxHandle ∨ e = .serveHandle) : Spec.panicFromFilter E cfg e sr = false := by
  rcases h with rfl | rfl <;> simp [Spec.panicFromFilter, Spec.chainOf, Spec.chainLog]

/-! ### sequences of requests -/

/-- everything a result says about the request itself (all but the ledger counters) -/
def answer (r : Result) : Rec × List Event × Option Str × Nat := (r.rc, r.log, r.escaped, r.recoverCalls)

/-- the ledger is the only thing `serve` reads from or writes to the world -/
theorem serve_answer (E : ReEnv) (cfg : Cfg) (e : Entry) (w : World) (sr : SReq) :
    answer (serve E cfg e w sr) = answer (serve E cfg e {} sr) := by
  rw [serve_eq, serve_eq]; rfl

theorem serve_world (E : ReEnv) (cfg : Cfg) (e : Entry) (w : World) (sr : SReq) :
    (serve E cfg e w sr).world = ledger w (serve E cfg e w sr).rc := by
  rw [serve_eq]

theorem serve_balanced (E : ReEnv) (cfg : Cfg) (e : Entry) (w : World) (sr : SReq)
    (hw : w.acquired = w.released) :
    (serve E cfg e w sr).world.acquired = (serve E cfg e w sr).world.released := by
  rw [serve_world]
  have := ledger_closed w _ (serve_closed E cfg e w sr)
  rw [this.2.1, this.2.2, hw]

/-! ### `c10Holds` on the model's observation -/

/-- `c10Holds` with the comparison run and the entry-point class named -/
theorem c10Holds_eq (E : ReEnv) (cfg : Cfg) (e : Entry) (sr : SReq) (o : Spec.Obs) :
    Spec.c10Holds E cfg e sr o =
      (if cfg.recover && covered cfg e then
        o.escaped.isNone && (o.acq == o.rel && o.dbl == 0 && o.complete) &&
          (o.recov + o.recovDefault ==
            (if (serve E (rawCfg cfg) e {} (rawReq sr)).escaped.isSome then 1 else 0)) &&
          (cfg.recoverScript.isNone || o.recovDefault == 0) &&
          (!((serve E (rawCfg cfg) e {} (rawReq sr)).escaped.isSome &&
              (serve E (rawCfg cfg) e {} (rawReq sr)).rc.status.isNone) ||
            o.status == Spec.recoverStatus cfg) &&
          (!(serve E (rawCfg cfg) e {} (rawReq sr)).escaped.isSome ||
            Spec.c10Body cfg
              (Spec.libraryErrorText E cfg e sr &&
                (serve E (rawCfg cfg) e {} (rawReq sr)).log.any (fun ev => ev.stage == Stage.errorWriter))
              (serve E (rawCfg cfg) e {} (rawReq sr)).rc.body o)
      else o.escaped == (serve E (rawCfg cfg) e {} (rawReq sr)).escaped &&
        (o.acq == o.rel && o.dbl == 0 && o.complete)) := by
  cases e <;> rfl

/-- the ledger clause of `c10Holds` on the model's own observation -/
theorem ledgerOK_serve (E : ReEnv) (cfg : Cfg) (e : Entry) (sr : SReq) :
    ((Spec.obsOf (serve E cfg e {} sr)).acq == (Spec.obsOf (serve E cfg e {} sr)).rel &&
      (Spec.obsOf (serve E cfg e {} sr)).dbl == 0 && (Spec.obsOf (serve E cfg e {} sr)).complete) = true := by
  have hc := serve_closed E cfg e {} sr
  rw [serve_eq] at hc ⊢
  simp only [Spec.obsOf, ledger] at hc ⊢
  cases h : (serveCore E cfg e sr).1.rc.comp with
  | none => rfl
  | some c => simp [hc c h]

/-! ### C13: no use after release, a second `Close` is an error

`Rec.writeAfterClose` counts the `Write` calls that reached a closed compressing writer
(compress.go:41), `Rec.closeErrors` the `Close` calls that found it closed (compress.go:64).  A
compressing writer is released by the `Close` that closes it (compress.go:68-76), so "closed" is
"released".  `Clean`: nothing of the kind has happened and the writer (if any) is still open;
`After n`: the writer (if any) has been closed, no `Write` reached it afterwards, and `n` further
`Close` calls were refused. -/

def Clean (r : Rec) : Prop := Open r ∧ r.writeAfterClose = 0 ∧ r.closeErrors = 0

def After (n : Nat) (r : Rec) : Prop := Closed r ∧ r.writeAfterClose = 0 ∧ r.closeErrors = n

theorem lockStatus_writeAfterClose (r : Rec) (c : Nat) : (lockStatus r c).writeAfterClose = r.writeAfterClose := by
  unfold lockStatus; split <;> rfl

theorem lockStatus_closeErrors (r : Rec) (c : Nat) : (lockStatus r c).closeErrors = r.closeErrors := by
  unfold lockStatus; split <;> rfl

theorem clean_lockStatus {r : Rec} (c : Nat) (h : Clean r) : Clean (lockStatus r c) :=
  ⟨open_lockStatus c h.1, by rw [lockStatus_writeAfterClose]; exact h.2.1, by rw [lockStatus_closeErrors]; exact h.2.2⟩

theorem clean_baseWrite {r : Rec} (b : Str) (h : Clean r) : Clean (baseWrite r b) := by
  refine ⟨open_baseWrite b h.1, ?_, ?_⟩
  · unfold baseWrite
    cases hc : r.comp with
    | none => simpa [lockStatus_writeAfterClose] using h.2.1
    | some c0 => simpa [h.1 c0 hc, lockStatus_writeAfterClose] using h.2.1
  · unfold baseWrite
    cases hc : r.comp with
    | none => simpa [lockStatus_closeErrors] using h.2.2
    | some c0 => simpa [h.1 c0 hc, lockStatus_closeErrors] using h.2.2

/-- user scripts (writes, statuses, headers — through any wrappers) keep the writer clean: an open
    compressing writer accepts every `Write` -/
theorem clean_stable : ActStable (fun r _ => Clean r) :=
  ⟨fun _ _ b _ h => clean_baseWrite b h, fun _ _ c h => clean_lockStatus c h, fun _ _ _ _ h => h⟩

theorem baseWrite_isSome (r : Rec) (b : Str) : (baseWrite r b).comp.isSome = r.comp.isSome := by
  unfold baseWrite
  cases hc : r.comp with
  | none => simp [lockStatus_comp, hc]
  | some c0 => by_cases hcl : c0.closed = true <;> simp [hcl]

/-- nothing a script does installs or removes a compressing writer -/
theorem isSome_stable (b : Bool) : ActStable (fun r _ => r.comp.isSome = b) :=
  ⟨fun r _ x _ h => by rw [baseWrite_isSome]; exact h,
   fun r _ c h => by show (lockStatus r c).comp.isSome = b; rw [lockStatus_comp]; exact h,
   fun _ _ _ _ h => h⟩

/-- a property of the recorder that every writer operation preserves is preserved by a chain … -/
theorem runChain_pres {P : Rec → Prop} (hP : ActStable (fun r _ => P r)) (fs : List (Stage × Filter)) (t : Target)
    (cx : Ctx) (s : St) (h : P s.rc) : P (runChain fs t cx s).2.1.rc :=
  runChain_rel hP fs t cx cx s s h

theorem runStage_pres {P : Rec → Prop} (hP : ActStable (fun r _ => P r)) (st : Stage) (post : Bool) (as : List Act)
    (cx : Ctx) (s : St) (h : P s.rc) : P (runStage st post as cx s).2.1.rc :=
  runStage_rel hP st st post post as cx cx s s h

/-- … and by the recover handler -/
theorem runRecover_pres {P : Rec → Prop} (hP : ActStable (fun r _ => P r)) (cfg : Cfg) (s : St) (h : P s.rc) :
    P (runRecover cfg s).rc := by
  unfold runRecover
  cases cfg.recoverScript with
  | some sc => exact runStage_pres hP _ _ sc {} s h
  | none => exact hP.write _ s.rc _ [] (hP.writeHeader _ s.rc 500 h)

theorem closeComp_isSome (s : St) : (closeComp s).rc.comp.isSome = s.rc.comp.isSome := by
  unfold closeComp
  cases hc : s.rc.comp with
  | none => simp [hc]
  | some c0 => by_cases hcl : c0.closed = true <;> simp [hcl, hc]

/-- the `Close` that finds the writer open closes (and thereby releases) it; nothing is counted -/
theorem closeComp_clean {s : St} (h : Clean s.rc) : After 0 (closeComp s).rc := by
  refine ⟨closeComp_closed s, ?_, ?_⟩
  · unfold closeComp
    cases hc : s.rc.comp with
    | none => exact h.2.1
    | some c0 => simpa [h.1 c0 hc, lockStatus_writeAfterClose] using h.2.1
  · unfold closeComp
    cases hc : s.rc.comp with
    | none => exact h.2.2
    | some c0 => simpa [h.1 c0 hc, lockStatus_closeErrors] using h.2.2

/-- **a second `Close` changes nothing but the error count**: same compressor record (payload,
    closed flag — hence the same ledger), same status, headers and body -/
theorem closeComp_again {s : St} {c : Comp} (hc : s.rc.comp = some c) (hcl : c.closed = true) :
    closeComp s = { s with rc := { s.rc with closeErrors := s.rc.closeErrors + 1 } } := by
  unfold closeComp; rw [hc]; simp [hcl]

/-- a `Close` after the closing one: refused and counted when there is a compressing writer at all -/
theorem closeComp_after {s : St} {n : Nat} (h : After n s.rc) :
    After (n + if s.rc.comp.isSome then 1 else 0) (closeComp s).rc := by
  cases hc : s.rc.comp with
  | none => rw [closeComp_of_none hc]; simpa [hc] using h
  | some c0 =>
    rw [closeComp_again hc (h.1 c0 hc)]
    refine ⟨?_, h.2.1, by simp [h.2.2]⟩
    intro c1 h1
    exact h.1 c1 h1

theorem clean_install {s : St} (c : Coding) (h : Clean s.rc) : Clean (install s c).rc := by
  refine ⟨?_, h.2.1, h.2.2⟩
  intro c0 h0
  simp only [install, addHeader] at h0
  cases h0
  rfl

theorem install_isSome (s : St) (c : Coding) : (install s c).rc.comp.isSome = true := rfl

theorem clean_maybeInstall {s : St} (b : Bool) (ae : Str) (h : Clean s.rc) : Clean (maybeInstall b s ae).rc := by
  unfold maybeInstall
  split
  · exact h
  · split
    · exact clean_install _ h
    · exact h

theorem maybeInstall_of_isSome {s : St} (b : Bool) (ae : Str) (h : s.rc.comp.isSome = true) :
    maybeInstall b s ae = s := by
  simp [maybeInstall, h]

theorem maybeInstall_of_wants_none {s : St} (b : Bool) (ae : Str) (h : wants s.rc ae = none) :
    maybeInstall b s ae = s := by
  unfold maybeInstall
  split
  · rfl
  · rw [h]

theorem finishDispatch_clean (cfg : Cfg) {s : St} (p : Option Str) (h : Clean s.rc) :
    After 0 (finishDispatch cfg s p).1.rc := by
  unfold finishDispatch
  cases p with
  | none => exact closeComp_clean h
  | some v =>
    cases cfg.recover with
    | true => exact closeComp_clean (runRecover_pres clean_stable cfg s h)
    | false => exact closeComp_clean h

theorem finishDispatch_isSome (cfg : Cfg) (s : St) (p : Option Str) :
    (finishDispatch cfg s p).1.rc.comp.isSome = s.rc.comp.isSome := by
  unfold finishDispatch
  cases p with
  | none => exact closeComp_isSome s
  | some v =>
    cases cfg.recover with
    | true =>
      show (closeComp (runRecover cfg s)).rc.comp.isSome = _
      rw [closeComp_isSome]
      exact runRecover_pres (isSome_stable _) cfg s rfl
    | false => exact closeComp_isSome s

/-- `dispatch` on a clean writer: its deferred `Close` is the first one — no `Write` after it, no
    refused `Close` -/
theorem dispatch_clean (E : ReEnv) (cfg : Cfg) (sr : SReq) {s : St} (h : Clean s.rc) :
    After 0 (dispatch E cfg sr s).1.rc := by
  rw [dispatch_eq]
  cases planD E cfg sr with
  | early v => exact finishDispatch_clean cfg _ h
  | chain fs t cx enc =>
    exact finishDispatch_clean cfg _ (runChain_pres clean_stable fs t cx _ (clean_maybeInstall enc _ h))

/-- `dispatch` keeps a compressing writer it was handed (ServeHTTP's) … -/
theorem dispatch_isSome (E : ReEnv) (cfg : Cfg) (sr : SReq) {s : St} (h : s.rc.comp.isSome = true) :
    (dispatch E cfg sr s).1.rc.comp.isSome = true := by
  rw [dispatch_eq]
  cases planD E cfg sr with
  | early v => show (finishDispatch cfg s (some v)).1.rc.comp.isSome = true; rw [finishDispatch_isSome]; exact h
  | chain fs t cx enc =>
    show (finishDispatch cfg _ _).1.rc.comp.isSome = true
    rw [finishDispatch_isSome, maybeInstall_of_isSome enc _ h]
    exact runChain_pres (isSome_stable true) fs t cx s h

/-- … and installs none when the request does not ask for a coding -/
theorem dispatch_isNone (E : ReEnv) (cfg : Cfg) (sr : SReq) {s : St} (h : s.rc.comp.isSome = false)
    (hw : wants s.rc sr.acceptEncoding = none) : (dispatch E cfg sr s).1.rc.comp.isSome = false := by
  rw [dispatch_eq]
  cases planD E cfg sr with
  | early v => show (finishDispatch cfg s (some v)).1.rc.comp.isSome = false; rw [finishDispatch_isSome]; exact h
  | chain fs t cx enc =>
    show (finishDispatch cfg _ _).1.rc.comp.isSome = false
    rw [finishDispatch_isSome, maybeInstall_of_wants_none enc _ hw]
    exact runChain_pres (isSome_stable false) fs t cx s h

theorem plainBody_pres {P : Rec → Prop} (hP : ActStable (fun r _ => P r)) (cfg : Cfg) (s : St) (h : P s.rc) :
    P (plainBody cfg s).1.rc :=
  runStage_pres hP (.plain 0) false cfg.plainScript {} s h

theorem plainFilteredBody_pres {P : Rec → Prop} (hP : ActStable (fun r _ => P r)) (cfg : Cfg) (s : St) (h : P s.rc) :
    P (plainFilteredBody cfg s).1.rc := by
  cases hne : cfg.cfilters.isEmpty with
  | true =>
    unfold plainFilteredBody
    simp only [hne, if_true]
    exact plainBody_pres hP cfg s h
  | false =>
    rw [plainFilteredBody_eq cfg s hne]
    have hc := runChain_pres hP (label .cfilter cfg.cfilters) ⟨.plain 0, cfg.plainScript⟩ {} s h
    cases chainPanic (label .cfilter cfg.cfilters) cfg.plainScript with
    | none => exact hc
    | some v =>
      cases cfg.recover with
      | true => exact runRecover_pres hP cfg _ hc
      | false => exact hc

/-- the closure `Handle` registers, around a body that only runs scripts (`hb`): handed a compressing
    writer it leaves it open and clean (its owner closes it); otherwise its own deferred `Close` is
    the first and only one -/
theorem handleWrapper_clean (cfg : Cfg) (sr : SReq) {s0 : St} {body : St → St × Option Str × Nat}
    (hb : ∀ {P : Rec → Prop}, ActStable (fun r _ => P r) → ∀ s, P s.rc → P (body s).1.rc) (h : Clean s0.rc) :
    (s0.rc.comp.isSome = true → Clean (handleWrapper cfg sr s0 body).1.rc ∧
        (handleWrapper cfg sr s0 body).1.rc.comp.isSome = true) ∧
      (s0.rc.comp.isSome = false → After 0 (handleWrapper cfg sr s0 body).1.rc ∧
        (wants s0.rc sr.acceptEncoding = none → (handleWrapper cfg sr s0 body).1.rc.comp.isSome = false)) := by
  constructor
  · intro hs
    unfold handleWrapper
    simp only [hs, if_true]
    exact ⟨hb clean_stable s0 h, hb (isSome_stable true) s0 hs⟩
  · intro hs
    unfold handleWrapper
    simp only [hs, Bool.false_eq_true, if_false]
    refine ⟨closeComp_clean (hb clean_stable _ (clean_maybeInstall _ _ h)), ?_⟩
    intro hw
    show (closeComp _).rc.comp.isSome = false
    rw [closeComp_isSome, maybeInstall_of_wants_none _ _ hw]
    exact hb (isSome_stable false) s0 hs

theorem clean_initial (sr : SReq) : Clean (initial sr).rc := ⟨fun _ h => (by cases h), rfl, rfl⟩

/-- the one situation in which a compressing writer is closed twice: `ServeHTTP` installed it
    (container switch on, the request asks for a coding), the mux handed the request to `dispatch`,
    whose deferred `Close` (container.go:215) runs before `ServeHTTP`'s (container.go:336) -/
def secondClose (cfg : Cfg) (e : Entry) (sr : SReq) : Bool :=
  e == .serveDispatch && cfg.encoding && (wants (initial sr).rc sr.acceptEncoding).isSome

/-- `ServeHTTP` around an inner function that (a) closes what it installs itself, (b) leaves a
    writer it is handed open when `closes = false` (the `Handle` closure) or closes it when
    `closes = true` (`dispatch`) -/
theorem serveWrapper_after (cfg : Cfg) (sr : SReq) {inner : St → St × Option Str × Nat} (closes : Bool)
    (h0 : After 0 (inner (initial sr)).1.rc)
    (h0n : wants (initial sr).rc sr.acceptEncoding = none → (inner (initial sr)).1.rc.comp.isSome = false)
    (h1 : ∀ c, (if closes then After 0 (inner (install (initial sr) c)).1.rc
                else Clean (inner (install (initial sr) c)).1.rc) ∧
              (inner (install (initial sr) c)).1.rc.comp.isSome = true) :
    After (if closes && cfg.encoding && (wants (initial sr).rc sr.acceptEncoding).isSome then 1 else 0)
      (serveWrapper cfg sr (initial sr) inner).1.rc := by
  unfold serveWrapper
  cases henc : cfg.encoding with
  | false => simpa using h0
  | true =>
    have hin : (initial sr).rc.comp.isSome = false := rfl
    simp only [hin, Bool.not_true, Bool.or_self, Bool.false_eq_true, if_false]
    cases hw : wants (initial sr).rc sr.acceptEncoding with
    | none =>
      have := closeComp_after h0
      simpa [h0n hw] using this
    | some c =>
      obtain ⟨ha, hs⟩ := h1 c
      cases closes with
      | true =>
        simp only [if_true] at ha
        have := closeComp_after ha
        simpa [hs] using this
      | false =>
        simp only [Bool.false_eq_true, if_false] at ha
        simpa using closeComp_clean ha

/-- for every configuration, entry point and request: when the entry point is left the compressing
    writer (if any) is closed, no `Write` reached it after its `Close`, and a `Close` was refused
    exactly in the situation `secondClose` -/
theorem serveCore_after (E : ReEnv) (cfg : Cfg) (e : Entry) (sr : SReq) :
    After (if secondClose cfg e sr then 1 else 0) (serveCore E cfg e sr).1.rc := by
  have hi := clean_initial sr
  have hin : (initial sr).rc.comp.isSome = false := rfl
  have hci : ∀ c, Clean (install (initial sr) c).rc := fun c => clean_install c hi
  cases e with
  | dispatch => simpa [secondClose, serveCore] using dispatch_clean E cfg sr hi
  | serveDispatch =>
    have := serveWrapper_after cfg sr (inner := dispatch E cfg sr) true (dispatch_clean E cfg sr hi)
      (fun hw => dispatch_isNone E cfg sr hin hw)
      (fun c => ⟨by simpa using dispatch_clean E cfg sr (hci c), dispatch_isSome E cfg sr (install_isSome _ c)⟩)
    simpa [secondClose, serveCore] using this
  | muxHandle =>
    have := (handleWrapper_clean cfg sr (body := plainBody cfg) (fun hP s h => plainBody_pres hP cfg s h) hi).2 hin
    simpa [secondClose, serveCore] using this.1
  | muxHandleF =>
    have := (handleWrapper_clean cfg sr (body := plainFilteredBody cfg) (fun hP s h => plainFilteredBody_pres hP cfg s h) hi).2 hin
    simpa [secondClose, serveCore] using this.1
  | serveHandle =>
    have hb : ∀ {P : Rec → Prop}, ActStable (fun r _ => P r) → ∀ s, P s.rc → P (plainBody cfg s).1.rc :=
      fun hP s h => plainBody_pres hP cfg s h
    have h0 := (handleWrapper_clean cfg sr (body := plainBody cfg) hb hi).2 hin
    have := serveWrapper_after cfg sr (inner := fun s => handleWrapper cfg sr s (plainBody cfg)) false h0.1 h0.2
      (fun c => by simpa using (handleWrapper_clean cfg sr (body := plainBody cfg) hb (hci c)).1 (install_isSome _ c))
    simpa [secondClose, serveCore] using this
  | serveHandleF =>
    have hb : ∀ {P : Rec → Prop}, ActStable (fun r _ => P r) → ∀ s, P s.rc → P (plainFilteredBody cfg s).1.rc :=
      fun hP s h => plainFilteredBody_pres hP cfg s h
    have h0 := (handleWrapper_clean cfg sr (body := plainFilteredBody cfg) hb hi).2 hin
    have := serveWrapper_after cfg sr (inner := fun s => handleWrapper cfg sr s (plainFilteredBody cfg)) false h0.1 h0.2
      (fun c => by simpa using (handleWrapper_clean cfg sr (body := plainFilteredBody cfg) hb (hci c)).1 (install_isSome _ c))
    simpa [secondClose, serveCore] using this

theorem serve_after (E : ReEnv) (cfg : Cfg) (e : Entry) (w : World) (sr : SReq) :
    After (if secondClose cfg e sr then 1 else 0) (serve E cfg e w sr).rc := by
  rw [serve_eq]; exact serveCore_after E cfg e sr

/-- in the situation `secondClose` a compressing writer was indeed installed -/
theorem secondClose_coded (E : ReEnv) (cfg : Cfg) (e : Entry) (w : World) (sr : SReq)
    (h : secondClose cfg e sr = true) : (serve E cfg e w sr).rc.comp.isSome = true := by
  simp only [secondClose, Bool.and_eq_true, beq_iff_eq] at h
  obtain ⟨⟨rfl, henc⟩, hw⟩ := h
  obtain ⟨c, hc⟩ := Option.isSome_iff_exists.mp hw
  rw [serve_eq]
  show (serveWrapper cfg sr (initial sr) (dispatch E cfg sr)).1.rc.comp.isSome = true
  unfold serveWrapper
  have hin : (initial sr).rc.comp.isSome = false := rfl
  simp only [henc, hin, Bool.not_true, Bool.or_self, Bool.false_eq_true, if_false, hc]
  show (closeComp _).rc.comp.isSome = true
  rw [closeComp_isSome]
  exact dispatch_isSome E cfg sr (install_isSome _ c)

end Serve.Panic
end Restful
