/-
C03 for RouterJSR311, part 2: the two candidate loops are `filterMap`s guarded by "every template
compiles"; what the sorted dispatcher list's head is; and the router-independent tail of route
selection (`detectRoute` + parameter extraction) under a permutation of the candidates.
-/
import Restful.Lemmas.OrderJsrSort
import Restful.Lemmas.Order
import Restful.Lemmas.JsrSelect
import Restful.Lemmas.JsrMatch
namespace Restful
open Str

/-! ### the router-independent part -/

/-- for candidate lists sorted by a strict weak order whose ties (among eligible candidates) are
    equalities, the eligible part of the sorted route list does not depend on the order of the input -/
theorem sorted_eligible_eq {C : Type} (route : C → Route) (less : C → C → Bool)
    (htrans : ∀ a b c, less b a = false → less c b = false → less c a = false)
    (hasym : ∀ a b, less a b = true → less b a = false)
    {cs cs' : List C} (hp : cs.Perm cs') (req : Req)
    (hanti : ∀ a ∈ cs, ∀ b ∈ cs', less a b = false → less b a = false →
      Spec.eligible (route a) req = true → Spec.eligible (route b) req = true → a = b) :
    ((Sort.insertionSort less cs).map route).Perm ((Sort.insertionSort less cs').map route) ∧
    stage4 ((Sort.insertionSort less cs).map route) req = stage4 ((Sort.insertionSort less cs').map route) req := by
  have hL := Sort.insertionSort_perm less cs
  have hL' := Sort.insertionSort_perm less cs'
  have hLL' : (Sort.insertionSort less cs).Perm (Sort.insertionSort less cs') := hL.trans (hp.trans hL'.symm)
  have hS := Sort.insertionSort_sorted_partial less htrans hasym cs
  have hS' := Sort.insertionSort_sorted_partial less htrans hasym cs'
  refine ⟨hLL'.map _, ?_⟩
  have hfilt : (Sort.insertionSort less cs).filter ((Spec.eligible · req) ∘ route) =
      (Sort.insertionSort less cs').filter ((Spec.eligible · req) ∘ route) := by
    refine List.Perm.eq_of_pairwise (le := fun a b => less b a = false) ?_
      (hS.filter _) (hS'.filter _) (hLL'.filter _)
    intro a b ha hb hab hba
    rw [List.mem_filter] at ha hb
    exact hanti a (hL.subset ha.1) b (hL'.subset hb.1) hba hab (by simpa using ha.2) (by simpa using hb.2)
  rw [stage4_eq_filter, stage4_eq_filter, List.filter_map, List.filter_map, hfilt]

/-- `detectRoute` on the sorted candidates followed by parameter extraction -/
def finishWith (extract : Route → Option Params) (cands : List Route) (req : Req) : Outcome :=
  match cands with
  | [] => .error 404 none
  | cands =>
    match detectRoute cands req with
    | .error (c, a) => .error c a
    | .ok r =>
      match extract r with
      | none => .panic "params"
      | some ps => .selected r.svc r.id ps

theorem finishWith_perm (extract : Route → Option Params) {cands cands' : List Route}
    (hmp : cands.Perm cands') (req : Req) (h4 : stage4 cands req = stage4 cands' req) :
    Spec.sameOutcome (finishWith extract cands req) (finishWith extract cands' req) := by
  have hdet := detectRoute_perm hmp req h4
  unfold finishWith
  cases cands with
  | nil =>
    have := hmp.nil_eq
    subst this
    simp [Spec.sameOutcome]
  | cons x xs =>
    cases cands' with
    | nil => exact absurd hmp.eq_nil (by simp)
    | cons y ys =>
      simp only
      generalize detectRoute (x :: xs) req = d at hdet
      generalize detectRoute (y :: ys) req = d' at hdet
      match d, d', hdet with
      | .ok r, .ok r', hdet =>
        simp only [detectRel] at hdet
        subst hdet
        exact Spec.sameOutcome_refl _
      | .error (c, some al), .error (c', some al'), hdet => exact hdet
      | .error (c, none), .error (c', none), hdet => exact hdet
      | .ok _, .error _, hdet => simp [detectRel] at hdet
      | .error (_, none), .ok _, hdet => simp [detectRel] at hdet
      | .error (_, some _), .ok _, hdet => simp [detectRel] at hdet
      | .error (_, none), .error (_, some _), hdet => simp [detectRel] at hdet
      | .error (_, some _), .error (_, none), hdet => simp [detectRel] at hdet

/-- a `selected` outcome of `finishWith` on a sorted candidate list: the route is that of the first
    eligible candidate, so every eligible candidate is not ranked before it -/
theorem finishWith_selected_max {C : Type} (route : C → Route) (less : C → C → Bool)
    (htrans : ∀ a b c, less b a = false → less c b = false → less c a = false)
    (hasym : ∀ a b, less a b = true → less b a = false)
    (extract : Route → Option Params) (cs : List C) (req : Req) {s r : Nat} {ps : Params}
    (h : finishWith extract ((Sort.insertionSort less cs).map route) req = .selected s r ps) :
    ∃ c ∈ cs, (route c).svc = s ∧ (route c).id = r ∧ extract (route c) = some ps ∧
      Spec.eligible (route c) req = true ∧
      ∀ c' ∈ cs, Spec.eligible (route c') req = true → less c' c = false := by
  unfold finishWith at h
  split at h
  · simp at h
  · split at h
    · simp at h
    · rename_i rt hdet
      split at h
      · simp at h
      · rename_i ps' hext
        simp only [Outcome.selected.injEq] at h
        obtain ⟨h1, h2, h3⟩ := h
        subst h3
        obtain ⟨rest, h4⟩ := detectRoute_ok_head hdet
        rw [stage4_eq_filter] at h4
        have helig : Spec.eligible rt req = true := by
          have : rt ∈ List.filter (fun x => Spec.eligible x req) (List.map route (Sort.insertionSort less cs)) := by
            rw [h4]; exact List.mem_cons_self
          exact (List.mem_filter.mp this).2
        obtain ⟨l1, c, l2, hL, hcr, hl1⟩ := filter_map_head _ _ _ h4
        have hperm := Sort.insertionSort_perm less cs
        have hsorted := Sort.insertionSort_sorted_partial less htrans hasym cs
        rw [hL] at hperm hsorted
        have hcmem : c ∈ cs := hperm.subset (by simp)
        subst hcr
        refine ⟨c, hcmem, h1, h2, hext, helig, ?_⟩
        intro c' hc' hel'
        have hc'' : c' ∈ l1 ++ c :: l2 := hperm.symm.subset hc'
        rw [List.mem_append, List.mem_cons] at hc''
        rcases hc'' with hc'' | hc'' | hc''
        · have := hl1 _ hc''
          rw [hel'] at this
          exact absurd this (by simp)
        · subst hc''
          cases hcc : less c' c' with
          | false => rfl
          | true => have := hasym _ _ hcc; rw [hcc] at this; exact this
        · rw [List.pairwise_append] at hsorted
          exact (List.pairwise_cons.mp hsorted.2.1).1 _ hc''

namespace Jsr
variable (E : ReEnv)

/-! ### route candidates -/

def rcandOf (rem : Str) (r : Route) : Option RouteCand :=
  match compile r.relPath with
  | none => none
  | some ex =>
    match matchExpr E ex.toks rem with
    | some (caps, final) =>
      if final.isEmpty || final = ['/'] then some ⟨r, caps.length + 1, ex.literalCount, ex.varCount⟩ else none
    | none => none

def rfails (r : Route) : Bool := (compile r.relPath).isNone

theorem routeCandidates_eq (rem : Str) : ∀ (routes : List Route),
    routeCandidates E routes rem = if routes.any rfails then none else some (routes.filterMap (rcandOf E rem))
  | [] => by simp [routeCandidates]
  | r :: rs => by
    rw [routeCandidates, routeCandidates_eq rem rs, List.any_cons, List.filterMap_cons]
    unfold rfails rcandOf
    cases hc : compile r.relPath with
    | none => simp
    | some ex =>
      simp only [Option.isNone_some, Bool.false_or]
      cases hm : matchExpr E ex.toks rem with
      | none => rfl
      | some cf =>
        obtain ⟨caps, final⟩ := cf
        simp only
        split
        · split <;> simp
        · rfl

theorem rcandOf_some {rem : Str} {r : Route} {c : RouteCand} (h : rcandOf E rem r = some c) :
    c.route = r ∧ ∃ ex caps final, compile r.relPath = some ex ∧ matchExpr E ex.toks rem = some (caps, final) ∧
      (final = [] ∨ final = ['/']) ∧ c.literalCount = ex.literalCount := by
  unfold rcandOf at h
  split at h
  · simp at h
  · rename_i ex hex
    split at h
    · rename_i caps final hm
      split at h
      · rename_i hf
        simp only [Option.some.injEq] at h
        subst h
        simp only [Bool.or_eq_true, List.isEmpty_iff, decide_eq_true_eq] at hf
        exact ⟨rfl, ex, caps, final, hex, hm, hf, rfl⟩
      · simp at h
    · simp at h

theorem rcandOf_of {rem : Str} {r : Route} {ex : Expr} {caps : List Str} {final : Str}
    (hex : compile r.relPath = some ex) (hm : matchExpr E ex.toks rem = some (caps, final))
    (hf : final = [] ∨ final = ['/']) :
    rcandOf E rem r = some ⟨r, caps.length + 1, ex.literalCount, ex.varCount⟩ := by
  unfold rcandOf
  simp only [hex, hm]
  rw [if_pos]
  rcases hf with rfl | rfl <;> simp

theorem routeCandidates_some {routes : List Route} {rem : Str} {cs : List RouteCand}
    (h : routeCandidates E routes rem = some cs) : cs = routes.filterMap (rcandOf E rem) := by
  rw [routeCandidates_eq] at h
  split at h
  · simp at h
  · exact (Option.some.inj h).symm

/-- permuting the routes permutes the candidates (and a compile failure stays one) -/
theorem routeCandidates_perm {routes routes' : List Route} (hp : routes.Perm routes') (rem : Str) :
    match routeCandidates E routes rem, routeCandidates E routes' rem with
    | none, none => True
    | some cs, some cs' => cs.Perm cs'
    | _, _ => False := by
  have hany : routes.any rfails = routes'.any rfails := by
    rw [Bool.eq_iff_iff, List.any_eq_true, List.any_eq_true]
    constructor
    · rintro ⟨x, hx, h⟩; exact ⟨x, hp.mem_iff.mp hx, h⟩
    · rintro ⟨x, hx, h⟩; exact ⟨x, hp.mem_iff.mpr hx, h⟩
  rw [routeCandidates_eq, routeCandidates_eq, ← hany]
  by_cases h : routes.any rfails = true
  · simp [h]
  · simp only [h]
    exact hp.filterMap _

/-! ### dispatcher candidates -/

def dcandOf (path : Str) (s : Service) : Option DispCand :=
  match compile s.rootPath with
  | none => none
  | some ex =>
    match matchExpr E ex.toks path with
    | some (caps, final) => some ⟨s, final, caps.length + 2, ex.literalCount, ex.varCount⟩
    | none => none

def dfails (s : Service) : Bool := (compile s.rootPath).isNone

theorem dispCandidates_eq (path : Str) : ∀ (svcs : List Service),
    dispCandidates E svcs path = if svcs.any dfails then none else some (svcs.filterMap (dcandOf E path))
  | [] => by simp [dispCandidates]
  | s :: ss => by
    rw [dispCandidates, dispCandidates_eq path ss, List.any_cons, List.filterMap_cons]
    unfold dfails dcandOf
    cases hc : compile s.rootPath with
    | none => simp
    | some ex =>
      simp only [Option.isNone_some, Bool.false_or]
      cases hm : matchExpr E ex.toks path with
      | none => rfl
      | some cf =>
        obtain ⟨caps, final⟩ := cf
        simp only
        split <;> simp

theorem dcandOf_some {path : Str} {s : Service} {c : DispCand} (h : dcandOf E path s = some c) :
    ∃ ex caps, compile s.rootPath = some ex ∧ matchExpr E ex.toks path = some (caps, c.finalMatch) ∧
      c = ⟨s, c.finalMatch, caps.length + 2, ex.literalCount, ex.varCount⟩ := by
  unfold dcandOf at h
  split at h
  · simp at h
  · rename_i ex hex
    split at h
    · rename_i caps final hm
      simp only [Option.some.injEq] at h
      subst h
      exact ⟨ex, caps, hex, hm, rfl⟩
    · simp at h

theorem dcandOf_of {path : Str} {s : Service} {ex : Expr} {caps : List Str} {final : Str}
    (hex : compile s.rootPath = some ex) (hm : matchExpr E ex.toks path = some (caps, final)) :
    dcandOf E path s = some ⟨s, final, caps.length + 2, ex.literalCount, ex.varCount⟩ := by
  unfold dcandOf
  simp only [hex, hm]

/-- a WebService whose root does not compile makes `detectDispatcher` fail -/
theorem detectDispatcher_none {svcs : List Service} {path : Str}
    (h : ∃ s ∈ svcs, compile s.rootPath = none) : detectDispatcher E svcs path = none := by
  unfold detectDispatcher
  rw [dispCandidates_eq, if_pos]
  · rfl
  · rw [List.any_eq_true]
    obtain ⟨s, hs, hc⟩ := h
    exact ⟨s, hs, by simp [dfails, hc]⟩

theorem detectDispatcher_eq {svcs : List Service} {path : Str}
    (h : ¬ ∃ s ∈ svcs, compile s.rootPath = none) :
    detectDispatcher E svcs path = some
      (match Sort.insertionSort dispCandLess (svcs.filterMap (dcandOf E path)) with
       | [] => none
       | c :: _ => some (c.svc, c.finalMatch)) := by
  unfold detectDispatcher
  rw [dispCandidates_eq, if_neg]
  · rfl
  · rw [List.any_eq_true]
    rintro ⟨s, hs, hc⟩
    exact h ⟨s, hs, by simpa [dfails] using hc⟩

/-- all roots compile and none matches: "not found" -/
theorem detectDispatcher_some_none {svcs : List Service} {path : Str}
    (h : ¬ ∃ s ∈ svcs, compile s.rootPath = none) (hm : ∀ s ∈ svcs, dcandOf E path s = none) :
    detectDispatcher E svcs path = some none := by
  rw [detectDispatcher_eq E h]
  have : svcs.filterMap (dcandOf E path) = [] := by
    rw [List.filterMap_eq_nil_iff]
    exact hm
  rw [this]
  rfl

/-- what a detected dispatcher is: its candidate is ranked first among all candidates -/
theorem detectDispatcher_some_some {svcs : List Service} {path : Str} {svc : Service} {final : Str}
    (h : detectDispatcher E svcs path = some (some (svc, final))) :
    (¬ ∃ s ∈ svcs, compile s.rootPath = none) ∧ svc ∈ svcs ∧
    ∃ c, dcandOf E path svc = some c ∧ c.finalMatch = final ∧
      ∀ s' ∈ svcs, ∀ c', dcandOf E path s' = some c' → dispCandLess c' c = false := by
  by_cases hf : ∃ s ∈ svcs, compile s.rootPath = none
  · rw [detectDispatcher_none E hf] at h
    simp at h
  · refine ⟨hf, ?_⟩
    rw [detectDispatcher_eq E hf] at h
    simp only [Option.some.injEq] at h
    have hperm := Sort.insertionSort_perm dispCandLess (svcs.filterMap (dcandOf E path))
    have hsorted := sort_dispCandLess_sorted (svcs.filterMap (dcandOf E path))
    split at h
    · simp at h
    · rename_i c rest heq
      simp only [Option.some.injEq, Prod.mk.injEq] at h
      obtain ⟨rfl, rfl⟩ := h
      rw [heq] at hperm hsorted
      have hcm : c ∈ svcs.filterMap (dcandOf E path) := hperm.subset List.mem_cons_self
      rw [List.mem_filterMap] at hcm
      obtain ⟨s, hs, hcs⟩ := hcm
      obtain ⟨ex, caps, _, _, hc⟩ := dcandOf_some E hcs
      have hsvc : c.svc = s := by rw [hc]
      rw [← hsvc] at hs hcs
      refine ⟨hs, c, hcs, rfl, ?_⟩
      intro s' hs' c' hc'
      have hm : c' ∈ c :: rest := hperm.symm.subset (List.mem_filterMap.mpr ⟨s', hs', hc'⟩)
      simp only [List.mem_cons] at hm
      rcases hm with rfl | hm
      · cases hcc : dispCandLess c' c' with
        | false => rfl
        | true => have := dispCandLess_asymm _ _ hcc; rw [hcc] at this; exact this
      · exact (List.pairwise_cons.mp hsorted).1 _ hm

/-- all roots compile and some root matches: a dispatcher is detected -/
theorem detectDispatcher_isSome {svcs : List Service} {path : Str}
    (h : ¬ ∃ s ∈ svcs, compile s.rootPath = none) {s : Service} (hs : s ∈ svcs) {c : DispCand}
    (hc : dcandOf E path s = some c) :
    ∃ svc final, detectDispatcher E svcs path = some (some (svc, final)) := by
  rw [detectDispatcher_eq E h]
  have hperm := Sort.insertionSort_perm dispCandLess (svcs.filterMap (dcandOf E path))
  have hcm : c ∈ svcs.filterMap (dcandOf E path) := List.mem_filterMap.mpr ⟨s, hs, hc⟩
  cases hL : Sort.insertionSort dispCandLess (svcs.filterMap (dcandOf E path)) with
  | nil =>
    rw [hL] at hperm
    have := hperm.symm.subset hcm
    simp at this
  | cons c0 rest => exact ⟨c0.svc, c0.finalMatch, rfl⟩

/-- an all-literal root has no captures and no variables -/
theorem allLit_counts {template : Str} {ex : Expr} (hc : compile template = some ex)
    (hlit : ∀ t ∈ ex.toks, ∃ l, t = .lit l) :
    ex.varCount = 0 ∧ ∀ path caps f, matchExpr E ex.toks path = some (caps, f) → caps = [] := by
  have hz : ex.toks.filterMap varNameOf = [] := by
    rw [List.filterMap_eq_nil_iff]
    intro t ht
    obtain ⟨l, rfl⟩ := hlit t ht
    rfl
  constructor
  · unfold compile at hc
    cases hp : parseToks (tokenize template) with
    | none => simp [hp] at hc
    | some ts =>
      simp only [hp, Option.map_some, Option.some.injEq] at hc
      subst hc
      simp only at hz ⊢
      rw [hz]; rfl
  · intro path caps f hm
    have := matchExpr_caps_length E hm
    rw [hz] at this
    exact List.eq_nil_of_length_eq_zero this

end Jsr
end Restful
