/-
C17: `Spec.c17Holds` — the predicate the driver evaluates on every real observation — holds of the
observation the MODEL produces (`Spec.modelObs`, Spec/Options.lean).

  * what `route` can answer at all (`route_shape`): a route function runs, a model panic, 404, 405
    WITH an Allow list, 415, 406 — so a 405 never comes without its list (`route_405_some`) and,
    where dispatch cannot panic (`C02_total`), "routable" means "a route function runs, or 415, or
    406" (`routable_iff_served`): `Spec.routable` never sees a panic there;
  * what the OPTIONS filter model returns (`filtered_options`, `filtered_other`) and hence what the
    model's observation is, field by field (`modelObs_eq`);
  * the predicate on that observation from "listed ⇔ routable" (`c17Holds_modelObs`);
  * `computeAllowedMethods` answers on every table whose templates compile
    (`computeAllowedMethods_isSome`), lists only declared methods (`computed_declared`);
  * the common fragment is inside the hypotheses of `C02_total` for both routers
    (`wfCommon_wfTemplates_*`, `wfCommon_rootsRead_*`);
  * the harness's decoding of the comma-joined header gives the list back on method TOKENS
    (`headerList_join`, `modelObsWire_eq`).
-/
import Restful.Lemmas.Allow
import Restful.Lemmas.Classify
namespace Restful
open Str

namespace Allow
variable (E : ReEnv)

/-! ### what `route` can answer -/

theorem finishWith_shape (ex : Route → Option Params) (cands : List Route) (req : Req) :
    (∃ s r ps, finishWith ex cands req = .selected s r ps) ∨ (∃ w, finishWith ex cands req = .panic w) ∨
    finishWith ex cands req = .error 404 none ∨ (∃ al, finishWith ex cands req = .error 405 (some al)) ∨
    finishWith ex cands req = .error 415 none ∨ finishWith ex cands req = .error 406 none := by
  unfold finishWith
  cases cands with
  | nil => right; right; left; rfl
  | cons x xs =>
    simp only
    rcases detectRoute_cases (x :: xs) req with ⟨_, hd⟩ | ⟨_, _, hd⟩ | ⟨_, ⟨r, hd⟩ | hd | hd⟩
    · rw [hd]; right; right; left; rfl
    · rw [hd]; right; right; right; left; exact ⟨_, rfl⟩
    · rw [hd]
      simp only
      cases ex r with
      | none => right; left; exact ⟨_, rfl⟩
      | some ps => left; exact ⟨_, _, _, rfl⟩
    · rw [hd]; right; right; right; right; left; rfl
    · rw [hd]; right; right; right; right; right; rfl

/-- everything dispatch can come to, both routers, every table, every request -/
theorem route_shape (cfg : Config) (req : Req) :
    (∃ s r ps, route E cfg req = .selected s r ps) ∨ (∃ w, route E cfg req = .panic w) ∨
    route E cfg req = .error 404 none ∨ (∃ al, route E cfg req = .error 405 (some al)) ∨
    route E cfg req = .error 415 none ∨ route E cfg req = .error 406 none := by
  rw [route_staged]
  cases staged E cfg req.path with
  | notFound => right; right; left; rfl
  | panic w => right; left; exact ⟨w, rfl⟩
  | detect ex cands => exact finishWith_shape ex cands req

/-- a 405 always carries its Allow list -/
theorem route_405_some (cfg : Config) (req : Req) (a : Option (List Str))
    (h : route E cfg req = .error 405 a) : ∃ al, a = some al := by
  rcases route_shape E cfg req with ⟨s, r, ps, h'⟩ | ⟨w, h'⟩ | h' | ⟨al, h'⟩ | h' | h' <;> rw [h'] at h
  · cases h
  · cases h
  · simp at h
  · simp only [Outcome.error.injEq, true_and] at h
    exact ⟨al, h.symm⟩
  · simp at h
  · simp at h

/-- where dispatch does not panic, "not answered 404 or 405" is: a route function runs, or the
    answer is 415 or 406.  No status-500 panic hides among the routable methods. -/
theorem routable_iff_served (cfg : Config) (req : Req) (m : Str)
    (hnp : ∀ w, route E cfg { req with method := m } ≠ .panic w) :
    Spec.routable E cfg req m = true ↔
      ((∃ s r ps, route E cfg { req with method := m } = .selected s r ps) ∨
        route E cfg { req with method := m } = .error 415 none ∨
        route E cfg { req with method := m } = .error 406 none) := by
  unfold Spec.routable
  rcases route_shape E cfg { req with method := m } with ⟨s, r, ps, h'⟩ | ⟨w, h'⟩ | h' | ⟨al, h'⟩ | h' | h'
  · rw [h']; simp [Spec.statusOf]
  · exact absurd h' (hnp w)
  · rw [h']; simp [Spec.statusOf]
  · rw [h']; simp [Spec.statusOf]
  · rw [h']; simp [Spec.statusOf]
  · rw [h']; simp [Spec.statusOf]

/-- … and the statuses the harness can then record for a probe are 200, 404, 405, 415, 406 -/
theorem probe_status (cfg : Config) (req : Req) (m : Str)
    (hnp : ∀ w, route E cfg { req with method := m } ≠ .panic w) :
    (Spec.probeOf E cfg req m).2.1 ∈ [200, 404, 405, 415, 406] := by
  unfold Spec.probeOf
  rcases route_shape E cfg { req with method := m } with ⟨s, r, ps, h'⟩ | ⟨w, h'⟩ | h' | ⟨al, h'⟩ | h' | h'
  · simp [h', Spec.statusOf]
  · exact absurd h' (hnp w)
  · simp [h', Spec.statusOf]
  · simp [h', Spec.statusOf]
  · simp [h', Spec.statusOf]
  · simp [h', Spec.statusOf]

/-- `Spec.probeOf` is the item `Driver/Options.lean` (`handleAllow`) computes for a probed method -/
theorem probeOf_eq_driver (cfg : Config) (req : Req) (m : Str) :
    Spec.probeOf E cfg req m =
      (match route E cfg { req with method := m } with
       | .error 405 (some al) => (m, 405, some al)
       | out => (m, Spec.statusOf out, none)) := by
  unfold Spec.probeOf
  simp only
  split
  · rename_i al h; rw [h]; rfl
  · rename_i out hne
    cases h : route E cfg { req with method := m } with
    | selected s r ps => rfl
    | panic w => rfl
    | error c a =>
      by_cases hc : c = 405
      · subst hc
        cases a with
        | none => rfl
        | some al => exact absurd h (hne al)
      · simp [Spec.allowOf, hc]

/-! ### the OPTIONS filter model, and the model's observation field by field -/

/-- the filter on OPTIONS: Allow, Access-Control-Allow-Origin, Access-Control-Allow-Headers,
    Access-Control-Allow-Methods are added and the request is NOT passed on -/
theorem filtered_options (cfg : Config) (req : Req) (ms : List Str)
    (hc : Cors.computeAllowedMethods E cfg.services req.path = some ms) :
    Spec.filtered E cfg req Cors.sOPTIONS = some
      ⟨[("Allow".toList, Str.join Cors.sComma ms), (Cors.hAllowOrigin, []), (Cors.hAllowHeaders, []),
        (Cors.hAllowMethods, Str.join Cors.sComma ms)], false⟩ := by
  unfold Spec.filtered Options.optionsOut Spec.optReqOf
  simp only [bne_self_eq_false, Bool.false_eq_true, if_false, hc]

/-- the filter on any other method: nothing added, passed on -/
theorem filtered_other (cfg : Config) (req : Req) (m : Str) (h : m ≠ Cors.sOPTIONS) :
    Spec.filtered E cfg req m = some ⟨[], true⟩ := by
  unfold Spec.filtered Options.optionsOut Spec.optReqOf
  rw [if_pos]
  simpa using h

theorem modelObs_eq (cfg : Config) (req : Req) (methods ms : List Str) (hO : Cors.sOPTIONS ∈ methods)
    (hc : Cors.computeAllowedMethods E cfg.services req.path = some ms) :
    Spec.modelObs E cfg req methods =
      { probes := methods.map (Spec.probeOf E cfg req), optAllow := ms, optACAM := ms,
        optHandlerRan := false, othersUntouched := true } := by
  have hcont : methods.contains Cors.sOPTIONS = true := List.contains_iff_mem.mpr hO
  unfold Spec.modelObs
  simp only [hcont, if_true, hc, Option.getD_some, filtered_options E cfg req ms hc, Bool.false_and, Bool.and_false,
    Spec.AllowObs.mk.injEq, true_and]
  rw [List.all_eq_true]
  intro m hm
  rw [List.mem_filter] at hm
  rw [filtered_other E cfg req m (by simpa using hm.2)]
  simp

/-! ### the predicate -/

theorem sameSet_iff {a b : List Str} : Spec.sameSet a b = true ↔ ∀ x, x ∈ a ↔ x ∈ b := by
  unfold Spec.sameSet
  simp only [Bool.and_eq_true, List.all_eq_true, List.contains_iff_mem]
  constructor
  · rintro ⟨h1, h2⟩ x; exact ⟨h1 x, h2 x⟩
  · intro h; exact ⟨fun x => (h x).mp, fun x => (h x).mpr⟩

theorem probes_methods (cfg : Config) (req : Req) (methods : List Str) :
    (methods.map (Spec.probeOf E cfg req)).map (·.1) = methods := by
  rw [List.map_map]
  conv => rhs; rw [← List.map_id methods]
  rfl

theorem probes_routable (cfg : Config) (req : Req) (methods : List Str) :
    ((methods.map (Spec.probeOf E cfg req)).filter (fun p => p.2.1 != 404 && p.2.1 != 405)).map (·.1) =
      methods.filter (Spec.routable E cfg req ·) := by
  rw [List.filter_map, List.map_map]
  conv => rhs; rw [← List.map_id (methods.filter _)]
  rfl

/-- overriding the method twice -/
theorem routable_setMethod (cfg : Config) (req : Req) (m x : Str) :
    Spec.routable E cfg { req with method := m } x = Spec.routable E cfg req x := rfl

/-- **`c17Holds` of the model's observation**, from "the computed list is exactly the routable
    methods" and "every listed method is probed" -/
theorem c17Holds_modelObs (cfg : Config) (req : Req) (methods ms : List Str)
    (hO : Cors.sOPTIONS ∈ methods)
    (hc : Cors.computeAllowedMethods E cfg.services req.path = some ms)
    (hiff : ∀ m, m ∈ ms ↔ Spec.routable E cfg req m = true)
    (hcover : ∀ m ∈ ms, m ∈ methods) :
    Spec.c17Holds (Spec.modelObs E cfg req methods) = true := by
  rw [modelObs_eq E cfg req methods ms hO hc]
  unfold Spec.c17Holds
  simp only [probes_methods, probes_routable, Bool.and_eq_true, Bool.not_false, and_true]
  have hset : ∀ l : List Str, (∀ x, x ∈ l ↔ Spec.routable E cfg req x = true) →
      Spec.sameSet (l.filter (methods.contains ·)) (methods.filter (Spec.routable E cfg req ·)) = true := by
    intro l hl
    rw [sameSet_iff]
    intro x
    simp only [List.mem_filter, List.contains_iff_mem, hl x]
    exact And.comm
  refine ⟨⟨⟨?_, hset ms hiff⟩, ?_⟩, ?_⟩
  · rw [List.all_eq_true]
    intro p hp
    rw [List.mem_map] at hp
    obtain ⟨m, _, rfl⟩ := hp
    unfold Spec.probeOf
    simp only
    cases hr : route E cfg { req with method := m } with
    | selected s r ps => simp [Spec.allowOf, Spec.statusOf]
    | panic w => simp [Spec.allowOf, Spec.statusOf]
    | error c a =>
      by_cases hc405 : c = 405
      · subst hc405
        obtain ⟨al, rfl⟩ := route_405_some E cfg _ a hr
        have hal : ∀ x, x ∈ al ↔ Spec.routable E cfg req x = true := fun x =>
          allow_405_exact E cfg { req with method := m } al hr x
        simp only [Spec.allowOf, if_true, Spec.statusOf, bne_self_eq_false, Bool.false_or, Bool.and_eq_true]
        refine ⟨hset al hal, ?_⟩
        rw [List.all_eq_true]
        intro x hx
        exact List.contains_iff_mem.mpr (hcover x ((hiff x).mpr ((hal x).mp hx)))
      · simp [Spec.allowOf, Spec.statusOf, hc405]
  · rw [List.all_eq_true]
    intro x hx
    exact List.contains_iff_mem.mpr (hcover x hx)
  · rw [sameSet_iff]; intro x; exact Iff.rfl

/-! ### `computeAllowedMethods` answers where the templates compile, and lists declared methods only -/

theorem routeMethods_isSome : ∀ (rts : List RouteDecl) (final : Str),
    (∀ rd ∈ rts, ∃ ex, Jsr.compile rd.relPath = some ex) → ∃ a, Cors.routeMethods E rts final = some a
  | [], _, _ => ⟨[], rfl⟩
  | rd :: rest, final, h => by
    obtain ⟨ex, hex⟩ := h rd List.mem_cons_self
    obtain ⟨a, ha⟩ := routeMethods_isSome rest final (fun x hx => h x (List.mem_cons_of_mem _ hx))
    unfold Cors.routeMethods
    simp only [hex, ha]
    split
    · split
      · exact ⟨_, rfl⟩
      · exact ⟨_, rfl⟩
    · exact ⟨_, rfl⟩

theorem computeAllowedMethods_isSome : ∀ (svcs : List Service) (path : Str),
    (∀ s ∈ svcs, ∃ ex, Jsr.compile s.rootPath = some ex) →
    (∀ s ∈ svcs, ∀ rd ∈ s.routes, ∃ ex, Jsr.compile rd.relPath = some ex) →
    ∃ ms, Cors.computeAllowedMethods E svcs path = some ms
  | [], _, _, _ => ⟨[], rfl⟩
  | s :: rest, path, h1, h2 => by
    obtain ⟨ex, hex⟩ := h1 s List.mem_cons_self
    obtain ⟨b, hb⟩ := computeAllowedMethods_isSome rest path (fun x hx => h1 x (List.mem_cons_of_mem _ hx))
      (fun x hx => h2 x (List.mem_cons_of_mem _ hx))
    unfold Cors.computeAllowedMethods
    simp only [hex, hb]
    split
    · rename_i caps final _
      obtain ⟨a, ha⟩ := routeMethods_isSome E s.routes final (h2 s List.mem_cons_self)
      simp only [ha]
      exact ⟨_, rfl⟩
    · exact ⟨_, rfl⟩

/-- routes of the declarations compile when the built routes do -/
theorem decl_compiles {svc : Service} (h : ∀ rt ∈ svc.built, ∃ ex, Jsr.compile rt.relPath = some ex) :
    ∀ rd ∈ svc.routes, ∃ ex, Jsr.compile rd.relPath = some ex := by
  intro rd hrd
  exact h (svc.build rd) (List.mem_map.mpr ⟨rd, hrd, rfl⟩)

/-- RouterJSR311 inside the hypotheses of `C02_total`: the OPTIONS filter has an answer -/
theorem computed_of_wf_jsr (cfg : Config) (hk : cfg.router = .jsr) (hwf : cfg.wfTemplates = true)
    (hroots : Jsr.rootsRead cfg = true) (path : Str) :
    ∃ ms, Cors.computeAllowedMethods E cfg.services path = some ms :=
  computeAllowedMethods_isSome E cfg.services path (Jsr.roots_compile hk hwf hroots)
    (fun _ hs => decl_compiles (Jsr.routes_compile hk hwf hs))

/-- the common fragment: the OPTIONS filter has an answer -/
theorem computed_of_wfCommon (cfg : Config) (hwf : Spec.wfCommon cfg = true) (hclean : Spec.rootsClean cfg = true)
    (path : Str) : ∃ ms, Cors.computeAllowedMethods E cfg.services path = some ms := by
  apply computeAllowedMethods_isSome
  · intro s hs
    obtain ⟨_, _, _, _, ex, hex, _⟩ := wfCommon_root hwf hclean hs
    exact ⟨ex, hex⟩
  · intro s hs
    apply decl_compiles
    intro rt hrt
    obtain ⟨ts, _, hj, _⟩ := wfCommon_route hwf hs hrt
    exact (Jsr.compile_of_template hj).2

/-- every method `computeAllowedMethods` lists is the method of a declared route -/
theorem computed_declared (svcs : List Service) (path : Str) (ms : List Str)
    (hc : Cors.computeAllowedMethods E svcs path = some ms) (m : Str) (hm : m ∈ ms) :
    ∃ s ∈ svcs, ∃ rd ∈ s.routes, rd.method = m := by
  rw [Cors.computeAllowedMethods_some E svcs path ms hc] at hm
  simp only [List.mem_flatMap, List.mem_map, List.mem_filter] at hm
  obtain ⟨s, hs, rd, ⟨hrd, _⟩, rfl⟩ := hm
  exact ⟨s, hs, rd, hrd, rfl⟩

/-! ### the common fragment is inside the hypotheses of `C02_total` (CurlyRouter) -/

theorem wfCommon_wfTemplates_curly (cfg : Config) (hwf : Spec.wfCommon cfg = true) :
    (Spec.withRouter cfg .curly).wfTemplates = true := by
  unfold Config.wfTemplates
  simp only [List.all_eq_true]
  intro s hs rt hrt
  obtain ⟨ts, hts, _, _⟩ := wfCommon_route (cfg := cfg) hwf hs hrt
  show (Spec.templateOf .curly rt).isSome = true
  simp [Spec.templateOf, hts]

theorem wfCommon_rootsRead_curly (cfg : Config) (hwf : Spec.wfCommon cfg = true) (hclean : Spec.rootsClean cfg = true) :
    Curly.rootsRead (Spec.withRouter cfg .curly) = true := by
  unfold Curly.rootsRead
  simp only [List.all_eq_true, Bool.or_eq_true]
  intro s hs
  right
  have hs' : s ∈ cfg.services := hs
  unfold Spec.wfCommon at hwf
  unfold Spec.rootsClean at hclean
  simp only [List.all_eq_true, Bool.and_eq_true] at hwf hclean
  have h := (hwf s hs').1
  have hne : Spec.nonEmptyToks s.rootPath = tokenize s.rootPath := by
    unfold Spec.nonEmptyToks
    rw [List.filter_eq_self]
    exact hclean s hs'
  rw [hne] at h
  split at h
  · rename_i ts hts
    simp only [hts, List.all_eq_true] at h ⊢
    intro t ht
    have := h t ht
    unfold Spec.tokLiteral at this
    simp only [Bool.and_eq_true] at this
    exact this.1
  · simp at h

/-- CurlyRouter never panics on the common fragment -/
theorem no_panic_wfCommon_curly (cfg : Config) (hwf : Spec.wfCommon cfg = true) (hclean : Spec.rootsClean cfg = true)
    (req : Req) : ∀ w, route E (Spec.withRouter cfg .curly) req ≠ .panic w :=
  C02_total E (Spec.withRouter cfg .curly) (wfCommon_wfTemplates_curly cfg hwf) (fun h => by cases h)
    (fun _ => wfCommon_rootsRead_curly cfg hwf hclean) req

/-! ### the wire: the comma-joined header decodes to the list on method tokens -/

theorem isWS_false {c : Char} (h : 33 ≤ c.toNat) : Spec.isWS c = false := by
  unfold Spec.isWS
  have h1 : c ≠ ' ' := by intro hc; subst hc; revert h; decide
  have h2 : c ≠ '\t' := by intro hc; subst hc; revert h; decide
  have h3 : c ≠ '\n' := by intro hc; subst hc; revert h; decide
  have h4 : c ≠ '\r' := by intro hc; subst hc; revert h; decide
  have h5 : c.toNat ≠ 11 := by omega
  have h6 : c.toNat ≠ 12 := by omega
  simp [h1, h2, h3, h4, h5, h6]

theorem trimWS_token {m : Str} (h : Spec.methodToken m = true) : Spec.trimWS m = m ∧ m.isEmpty = false ∧ ',' ∉ m := by
  unfold Spec.methodToken at h
  simp only [Bool.and_eq_true, Bool.not_eq_true', List.all_eq_true, decide_eq_true_eq, bne_iff_ne, ne_eq] at h
  obtain ⟨hne, hall⟩ := h
  refine ⟨?_, hne, fun hc => (hall ',' hc).2 rfl⟩
  have hws : ∀ c ∈ m, Spec.isWS c = false := fun c hc => isWS_false (hall c hc).1.1
  unfold Spec.trimWS
  have h1 : m.dropWhile Spec.isWS = m := by
    apply dropWhile_eq_self_of_head
    intro x hx
    exact hws x (List.mem_of_mem_head? hx)
  rw [h1]
  have h2 : m.reverse.dropWhile Spec.isWS = m.reverse := by
    apply dropWhile_eq_self_of_head
    intro x hx
    exact hws x (List.mem_reverse.mp (List.mem_of_mem_head? hx))
  rw [h2, List.reverse_reverse]

/-- allow.go `splitList` gives the joined list back -/
theorem decode_join (ms : List Str) (htok : ∀ m ∈ ms, Spec.methodToken m = true) :
    ((Str.split ',' (Str.join Cors.sComma ms)).map Spec.trimWS).filter (fun p => !p.isEmpty) = ms := by
  have hcomma : Cors.sComma = [','] := by decide
  rw [hcomma]
  cases hms : ms with
  | nil => decide
  | cons x xs =>
    rw [← hms]
    have hne : ms ≠ [] := by rw [hms]; simp
    have hsj : Str.split ',' (Str.join [','] ms) = ms :=
      List.splitOn_intercalate ',' (fun x hx => (trimWS_token (htok x hx)).2.2) hne
    rw [hsj]
    have hmap : ms.map Spec.trimWS = ms := by
      conv => rhs; rw [← List.map_id ms]
      apply List.map_congr_left
      intro m hm
      exact (trimWS_token (htok m hm)).1
    rw [hmap, List.filter_eq_self]
    intro m hm
    simp [(trimWS_token (htok m hm)).2.1]

/-- on method tokens the lists the harness decodes from the filter's headers are the lists of `modelObs` -/
theorem modelObsWire_eq (cfg : Config) (req : Req) (methods ms : List Str) (hO : Cors.sOPTIONS ∈ methods)
    (hc : Cors.computeAllowedMethods E cfg.services req.path = some ms)
    (htok : ∀ m ∈ ms, Spec.methodToken m = true) :
    Spec.modelObsWire E cfg req methods = Spec.modelObs E cfg req methods := by
  have hcont : methods.contains Cors.sOPTIONS = true := List.contains_iff_mem.mpr hO
  have hn1 : ("Allow".toList == Cors.hAllowMethods) = false ∧ (Cors.hAllowOrigin == Cors.hAllowMethods) = false ∧
      (Cors.hAllowHeaders == Cors.hAllowMethods) = false ∧ (Cors.hAllowOrigin == "Allow".toList) = false ∧
      (Cors.hAllowHeaders == "Allow".toList) = false ∧ (Cors.hAllowMethods == "Allow".toList) = false := by decide
  obtain ⟨a3, a4, a5, a6, a7, a8⟩ := hn1
  have hj : ∀ v : Str, Str.join [','] [v] = v := fun v => by simp [Str.join]
  unfold Spec.modelObsWire
  rw [modelObs_eq E cfg req methods ms hO hc]
  simp only [hcont, if_true, filtered_options E cfg req ms hc, Spec.headerList, List.filter_cons, List.filter_nil,
    beq_self_eq_true, a3, a4, a5, a6, a7, a8, Bool.false_eq_true, if_false, List.map_cons, List.map_nil, hj,
    Spec.AllowObs.mk.injEq, true_and, and_true]
  exact ⟨decode_join ms htok, decode_join ms htok⟩

/-! ### OPTIONS probes that carry Access-Control-Request-Method -/

/-- the filter on a preflight: exactly its answer to a bare OPTIONS request, whatever method the
    preflight names -/
theorem filtered_preflight (cfg : Config) (req : Req) (ms : List Str) (a : Str)
    (hc : Cors.computeAllowedMethods E cfg.services req.path = some ms) :
    Options.optionsOut E cfg (Spec.optReqPf req a) = some
      ⟨[("Allow".toList, Str.join Cors.sComma ms), (Cors.hAllowOrigin, []), (Cors.hAllowHeaders, []),
        (Cors.hAllowMethods, Str.join Cors.sComma ms)], false⟩ := by
  unfold Options.optionsOut Spec.optReqPf
  simp only [bne_self_eq_false, Bool.false_eq_true, if_false, hc]

theorem modelPreflight_eq (cfg : Config) (req : Req) (ms : List Str) (a : Str)
    (hc : Cors.computeAllowedMethods E cfg.services req.path = some ms) :
    Spec.modelPreflight E cfg req a = { acrm := a, allow := ms, acam := ms, handlerRan := false } := by
  unfold Spec.modelPreflight
  simp only [hc, Option.getD_some, filtered_preflight E cfg req ms a hc, Bool.false_and]

/-- the preflight clause follows from `c17Holds` when the probe's lists are the ones of the bare
    OPTIONS probe and no route function ran -/
theorem pfHolds_of_c17Holds (o : Spec.AllowObs) (h : Spec.c17Holds o = true) (a : Str) :
    Spec.pfHolds o { acrm := a, allow := o.optAllow, acam := o.optACAM, handlerRan := false } = true := by
  unfold Spec.c17Holds at h
  unfold Spec.pfHolds
  simp only [Bool.and_eq_true, Bool.not_false, and_true] at h ⊢
  exact ⟨⟨h.1.1.1.1.2, h.1.1.1.2⟩, h.1.1.2⟩

/-- **`c17HoldsAll` of the model's observation and the model's preflight answers**, for every list of
    requested-method values -/
theorem c17HoldsAll_model (cfg : Config) (req : Req) (methods ms : List Str)
    (hO : Cors.sOPTIONS ∈ methods)
    (hc : Cors.computeAllowedMethods E cfg.services req.path = some ms)
    (h : Spec.c17Holds (Spec.modelObs E cfg req methods) = true) (acrms : List Str) :
    Spec.c17HoldsAll (Spec.modelObs E cfg req methods) (acrms.map (Spec.modelPreflight E cfg req)) = true := by
  unfold Spec.c17HoldsAll
  rw [h, Bool.true_and, List.all_eq_true]
  intro p hp
  obtain ⟨a, _, rfl⟩ := List.mem_map.mp hp
  rw [modelPreflight_eq E cfg req ms a hc]
  have := pfHolds_of_c17Holds (Spec.modelObs E cfg req methods) h a
  rw [modelObs_eq E cfg req methods ms hO hc] at this ⊢
  exact this

end Allow
end Restful
