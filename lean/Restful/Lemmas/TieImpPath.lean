/- route.go `tokenizePath`, route_builder.go `concatPath` as translated on this run ARE the model's (default path strategy) -/
import Restful.Lemmas.TieImpBase
namespace Restful
namespace TieImp
namespace T2
open Imp
set_option linter.unusedSimpArgs false

theorem tokenize_path (X : ImpGen.Ext) (h : X.TrimRightSlashEnabled = true) (p : Str) :
    ImpGen.tokenizePath X p = some (tokenize p) := by
  unfold ImpGen.tokenizePath tokenize
  simp only [h]
  by_cases hp : p = ['/']
  · simp [hp]
  · have : ¬ ['/'] = p := fun h => hp h.symm
    simp [hp, this, trim_eq]

theorem concat_path (X : ImpGen.Ext) (h : X.TrimRightSlashEnabled = true) (a b : Str) :
    ImpGen.concatPath X a b = some (Restful.concatPath a b) := by
  unfold ImpGen.concatPath Restful.concatPath
  simp [h, HAdd.hAdd]

end T2
end TieImp
end Restful
