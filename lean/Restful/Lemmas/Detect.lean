/- `detectRoute` characterised: what a returned route satisfies, and when each error is returned. -/
import Restful.Model.Detect
import Restful.Spec.Admits
namespace Restful
open Str

theorem acceptLoop_sound (produces : List Str) (pieces : List Str) (h : acceptLoop produces pieces = true) :
    pieces.any (fun piece => mediaOf piece == starStar || produces.any (fun p => p == starStar || p == mediaOf piece)) = true := by
  induction pieces with
  | nil => simp [acceptLoop] at h
  | cons piece rest ih =>
    unfold acceptLoop at h
    simp only [List.any_cons, Bool.or_eq_true]
    by_cases h1 : mediaOf piece = starStar
    · left; left; simp [h1]
    · by_cases h2 : produces.any (fun p => decide (p = starStar) || decide (p = mediaOf piece)) = true
      · left; right
        simpa [beq_iff_eq] using h2
      · simp only [h1, if_false, h2] at h
        by_cases h3 : remainingEmpty rest = true
        · simp [h3] at h
        · simp only [h3] at h
          right
          exact ih (by simpa using h)

theorem consumeLoop_sound (consumes : List Str) (pieces : List Str) (h : consumeLoop consumes pieces = true) :
    pieces.any (fun piece => consumes.any (fun c => c == starStar || c == mediaOf piece)) = true := by
  induction pieces with
  | nil => simp [consumeLoop] at h
  | cons piece rest ih =>
    unfold consumeLoop at h
    simp only [List.any_cons, Bool.or_eq_true]
    by_cases h2 : consumes.any (fun c => decide (c = starStar) || decide (c = mediaOf piece)) = true
    · left
      simpa [beq_iff_eq] using h2
    · simp only [h2] at h
      by_cases h3 : remainingEmpty rest = true
      · simp [h3] at h
      · simp only [h3] at h
        right
        exact ih (by simpa using h)

theorem matchesAccept_sound (r : Route) (accept : Str)
    (h : matchesAccept r (if accept.isEmpty then starStar else accept) = true) :
    Spec.acceptOK r.produces accept = true := by
  unfold matchesAccept at h
  unfold Spec.acceptOK
  exact acceptLoop_sound _ _ h

theorem matchesContentType_sound (r : Route) (ct : Str) (h : matchesContentType r ct = true) :
    Spec.consumesOK r ct = true := by
  unfold matchesContentType at h
  unfold Spec.consumesOK
  by_cases h0 : r.consumes.isEmpty = true
  · simp [h0]
  · simp only [h0, Bool.false_or] at h ⊢
    by_cases h1 : ct.isEmpty = true
    · simp only [h1, if_true] at h ⊢
      simp only [Bool.or_eq_true]
      by_cases hc : (if (!r.noct.isEmpty) = true then r.noct.contains r.method else idempotentMethods.contains r.method) = true
      · left; exact hc
      · right
        rw [if_neg hc] at h
        exact consumeLoop_sound _ _ h
    · simp only [h1] at h ⊢
      exact consumeLoop_sound _ _ h

/-- what `detectRoute` guarantees about the route it returns -/
theorem detectRoute_ok {routes : List Route} {req : Req} {r : Route} (h : detectRoute routes req = .ok r) :
    r ∈ routes ∧ passesConds r req = true ∧ req.method = r.method ∧
      matchesContentType r req.contentType = true ∧
      matchesAccept r (if req.accept.isEmpty then starStar else req.accept) = true := by
  unfold detectRoute at h
  simp only at h
  split at h
  · simp at h
  split at h
  · simp at h
  split at h
  · simp at h
  split at h
  · split at h <;> simp at h
  · rename_i r' rest heq
    simp only [Except.ok.injEq] at h
    subst h
    have hm : r' ∈ List.filter (fun x => matchesAccept x (if req.accept.isEmpty = true then starStar else req.accept))
        (List.filter (fun x => matchesContentType x req.contentType)
          (List.filter (fun r => decide (req.method = r.method)) (List.filter (fun x => passesConds x req) routes))) := by
      rw [heq]; exact List.mem_cons_self
    simp only [List.mem_filter, decide_eq_true_eq] at hm
    obtain ⟨⟨⟨⟨h1, h2⟩, h3⟩, h4⟩, h5⟩ := hm
    exact ⟨h1, h2, h3, h4, h5⟩

end Restful
