import Restful.Lemmas.TieImpFilters
namespace Restful
namespace TieImp
open Imp

/-- the same as `cors_filter` for a filter value WITHOUT its own container (`Container == nil`): the methods
    are computed on `DefaultContainer` (a package variable, uninterpreted in the translation: `hdc`) -/
theorem cors_filter_default_container (lower : Str → Str) (E : ReEnv)
    (mk : RouteDecl → Option ImpGen.GoPathExpression → ImpGen.GoRoute)
    (hmk : ∀ rt pe, (mk rt pe).Method = rt.method ∧ (mk rt pe).pathExpr = pe)
    (X : ImpGen.Ext) (hlower : X.strings_ToLower = lower) (hitoa : X.strconv_Itoa = Cors.itoa)
    (cc : Cors.CorsCfg) (tbl : Config) (hdc : X.DefaultContainer = some (genCont E mk tbl))
    (rq : Cors.CorsReq) (resp0 : RespLog) (chain0 : ChainLog) :
    ImpGen.CrossOriginResourceSharing_Filter X (genCors cc none) (some (genCorsReq rq)) resp0 chain0
      = (Cors.corsOut lower E cc tbl rq).map (corsView resp0 chain0) := by
  subst hlower
  exact T11.filter_tie_gen X hitoa E mk hmk (genCors cc none) tbl (Or.inr ⟨rfl, hdc⟩)
    (genCorsReq rq).Request rq (reqOf_genCorsReq rq) resp0 chain0

#print axioms cors_filter_default_container

end TieImp
end Restful
