/- web_service.go `WebService.Path` / `compilePathExpression` as translated on this run: the root path as
   given ("/" for the empty string) and its compiled expression -/
import Restful.Lemmas.TieImpBuild
namespace Restful
namespace TieImp
open Imp

/-- `ws.Path(root)`: the root path becomes `root`, "/" when `root` is empty, and `pathExpr` its compiled
    expression (text, literal count, variable names and count, tokens: `Jsr.compile` + `exprText`), for a
    root whose expression `regexp.Compile` accepts (`hc`; otherwise the library exits); the other fields are
    untouched; a slice panic while reading the template is `none` on both sides -/
theorem web_service_path (X : ImpGen.Ext) (quote : Str → Str) (m : Str → Regexp)
    (hT : X.TrimRightSlashEnabled = true) (hq : X.regexp_QuoteMeta = quote) (hts : X.strings_TrimSpace = Jsr.trimSpace)
    (hc : ∀ e : Str, X.regexp_Compile e = (m e, none))
    (w : ImpGen.GoWebService) (root : Str) :
    (ImpGen.WebService_Path X (some w) root).map (fun p => p.2)
      = (Jsr.compile (if root.isEmpty then ['/'] else root)).map (fun ex =>
          some { w with
            rootPath := (if root.isEmpty then ['/'] else root),
            pathExpr := some { LiteralCount := ((ex.literalCount : Nat) : Int), VarNames := ex.varNames,
                               VarCount := ((ex.varCount : Nat) : Int),
                               Matcher := m (exprText quote ex.toks), Source := exprText quote ex.toks,
                               tokens := tokenize (if root.isEmpty then ['/'] else root) } }) := by
  have hs : ("/".toList : Str) = ['/'] := rfl
  unfold ImpGen.WebService_Path ImpGen.WebService_compilePathExpression ImpGen.newPathExpression
  simp only [hc, deref, Option.bind_eq_bind, Option.bind_some, Option.pure_def, T16.len_eq_zero, hs]
  cases hr : root.isEmpty with
  | true =>
    simp only [if_true]
    rw [T16.template_ext X quote hT hq hts, template_to_regex]
    cases Jsr.compile ['/'] with
    | none => rfl
    | some ex => rfl
  | false =>
    simp only [Bool.false_eq_true, if_false]
    rw [T16.template_ext X quote hT hq hts, template_to_regex]
    cases Jsr.compile root with
    | none => rfl
    | some ex => rfl

end TieImp
end Restful
