/-
`unfold_gen_helpers`: inlines, in the goal, every translated function (a definition directly in the namespace
`Restful.ImpGen`) that still occurs there.  Used after `unfold ImpGen.F` in the tie of a function `F` that
calls no other tied function: when a piece of `F` is extracted into a helper (which tools/goimp then
translates on demand, before `F`), the call is replaced by the helper's body and the tie goes on as
before.  Does nothing when no such call occurs.
-/
import Lean
import Restful.Gen.Imp
namespace Restful
namespace TieImp
open Lean Elab Tactic Meta

/-- the translated functions (definitions directly in `Restful.ImpGen`, no instances) occurring in `e` -/
def genHelpersOf (e : Expr) : MetaM (Array Name) := do
  let env ← getEnv
  return e.getUsedConstants.filter fun n =>
    n.getPrefix == `Restful.ImpGen &&
      !(n.getString!.startsWith "inst") &&
      (match env.find? n with | some (.defnInfo _) => true | _ => false)

elab "unfold_gen_helpers" : tactic => do
  for _ in [0:8] do
    let g ← getMainGoal
    let tgt ← instantiateMVars (← g.getType)
    let ns ← genHelpersOf tgt
    if ns.isEmpty then return
    for n in ns do
      evalTactic (← `(tactic| try unfold $(mkIdent n):ident))

end TieImp
end Restful
