/-
`unfold_gen_helpers`: inlines, in the goal, every translated function (a definition directly in the namespace
`Restful.ImpGen`) that still occurs there.  Used after `unfold ImpGen.F` in the tie of a function `F` that
calls no other tied function: when a piece of `F` is extracted into a helper (which tools/goimp then
translates on demand, before `F`), the call is replaced by the helper's body and the tie goes on as
before.  Does nothing when no such call occurs.
-/
import Lean
import Restful.Gen.Imp
namespace Restful
namespace TieImp
open Lean Elab Tactic Meta

/-- the translated functions (definitions directly in `Restful.ImpGen`, no instances) occurring in `e` -/
def genHelpersOf (e : Expr) : MetaM (Array Name) := do
  let env ← getEnv
  return e.getUsedConstants.filter fun n =>
    n.getPrefix == `Restful.ImpGen &&
      !(n.getString!.startsWith "inst") &&
      (match env.find? n with | some (.defnInfo _) => true | _ => false)

/-- `unfold_gen_helpers keeping F G`: the same, except that the calls of the tied functions `F`, `G` (about which
    the proof uses their own tie theorems) stay folded -/
syntax "unfold_gen_helpers" (" keeping" (ppSpace colGt ident)+)? : tactic

def unfoldGenHelpers (keep : Array Name) : TacticM Unit := do
  for _ in [0:8] do
    let g ← getMainGoal
    let tgt ← instantiateMVars (← g.getType)
    let ns := (← genHelpersOf tgt).filter fun n => !keep.contains n
    if ns.isEmpty then return
    for n in ns do
      evalTactic (← `(tactic| try unfold $(mkIdent n):ident))

elab_rules : tactic
  | `(tactic| unfold_gen_helpers) => unfoldGenHelpers #[]
  | `(tactic| unfold_gen_helpers keeping $ids*) => do
      let ns ← ids.mapM fun i => realizeGlobalConstNoOverloadWithInfo i
      unfoldGenHelpers ns

/-- two runs of the same call followed by continuations that agree on every result -/
theorem bind_congr_fun {α β : Type} (x : Option α) (k1 k2 : α → Option β) (h : ∀ a, k1 a = k2 a) :
    x.bind k1 = x.bind k2 := by
  cases x with
  | none => rfl
  | some a => exact h a

theorem len_beq_zero' {α : Type} (xs : List α) : (Imp.len xs == 0) = xs.isEmpty := by
  cases xs <;> simp [Imp.len] <;> omega
theorem zero_beq_len' {α : Type} (xs : List α) : ((0 : Int) == Imp.len xs) = xs.isEmpty := by
  cases xs <;> simp [Imp.len] <;> omega
theorem len_bne_zero' {α : Type} (xs : List α) : (Imp.len xs != 0) = !xs.isEmpty := by
  cases xs <;> simp [Imp.len] <;> omega
theorem len_pos' {α : Type} (xs : List α) : decide (Imp.len xs > 0) = !xs.isEmpty := by
  cases xs <;> simp [Imp.len] <;> omega
theorem len_pos'' {α : Type} (xs : List α) : decide (0 < Imp.len xs) = !xs.isEmpty := by
  cases xs <;> simp [Imp.len] <;> omega
theorem str_beq_nil (x : Str) : (x == ([] : Str)) = x.isEmpty := by cases x <;> rfl
theorem str_nil_beq (x : Str) : (([] : Str) == x) = x.isEmpty := by cases x <;> rfl
theorem str_bne_nil (x : Str) : (x != ([] : Str)) = !x.isEmpty := by cases x <;> rfl
theorem str_nil_bne (x : Str) : (([] : Str) != x) = !x.isEmpty := by cases x <;> rfl

/-- Go's `+` on strings (the prelude's `HAdd Str Str Str`) is `++`: `"(" + e + ")"` for `fmt.Sprintf("(%s)", e)` -/
theorem str_add (a b : Str) : (a + b : Str) = a ++ b := rfl

/-- `x == y` / `x != y` on strings as the decision of `x = y`: a proof then splits on the proposition once, whichever
    polarity the code tests -/
theorem str_beq_decide (a b : Str) : (a == b) = decide (a = b) := by by_cases h : a = b <;> simp [h]
theorem str_bne_decide (a b : Str) : (a != b) = !decide (a = b) := by by_cases h : a = b <;> simp [h]
theorem str_isEmpty_decide (a : Str) : a.isEmpty = decide (a = []) := by cases a <;> simp

/-- a string with a non-empty prefix is not empty: `len(s) > 0 && strings.HasPrefix(s, "{")` is `strings.HasPrefix(s, "{")` -/
theorem nonempty_and_hasPrefix (c : Char) (p s : Str) :
    (!s.isEmpty && Str.hasPrefix (c :: p) s) = Str.hasPrefix (c :: p) s := by
  cases s <;> simp [Str.hasPrefix, List.isPrefixOf]

/-- `tie_norm`: the ways Go code asks "is this string / slice empty" (`len(x) == 0`, `x == ""`, `len(x) > 0`,
    `x != ""`, …) all become `x.isEmpty` / `!x.isEmpty`; string literals become lists of characters; a redundant
    emptiness test in front of a `HasPrefix` with a non-empty prefix is dropped -/
macro "tie_norm" : tactic => `(tactic|
  try simp only [String.reduceToList, Restful.TieImp.nonempty_and_hasPrefix, Restful.TieImp.len_beq_zero', Restful.TieImp.zero_beq_len',
    Restful.TieImp.len_bne_zero', Restful.TieImp.len_pos', Restful.TieImp.len_pos'',
    Restful.TieImp.str_beq_nil, Restful.TieImp.str_nil_beq,
    Restful.TieImp.str_bne_nil, Restful.TieImp.str_nil_bne])

/-- `tie_step [defs]` closes "one iteration of the translated loop is the hand-written step": the two sides are
    `do`-blocks of `Option` that make the same calls in the same order and may differ in how the branches are
    associated (an early `continue` for a nested block, a guard clause, De Morgan, `!=` for a negated `==`).
    `rfl` when the texts agree; otherwise the listed definitions are unfolded, the calls are matched one by one
    (`bind_congr_fun`), tuples are destructured, every `if` / `match` is split and the leaves are closed by
    `simp_all` — nothing about the particular loop is used. -/
syntax "tie_step" (" [" Lean.Parser.Tactic.simpLemma,* "]")? : tactic
macro_rules
  | `(tactic| tie_step) => `(tactic| tie_step [])
  | `(tactic| tie_step [$ls,*]) => `(tactic|
      first
      | rfl
      | (simp only [$ls,*, bind, Option.bind_eq_bind, Option.pure_def, Option.bind_some, bne, Imp.deref]
         repeat' (first
           | rfl
           | (apply Restful.TieImp.bind_congr_fun; intro _)
           | split
           | (rename_i x; rcases x with ⟨_, _⟩))
         all_goals (first | rfl | simp_all)))

end TieImp
end Restful
