/-
Vocabulary of the ties of the struct-level functions (Gen/Imp.lean: `RouterJSR311.detectRoute`,
`CurlyRouter.detectWebService`, `CurlyRouter.selectRoutes`, `Container.computeAllowedMethods`): how a
model request / route / compiled template is seen as the generated structures.
-/
import Restful.Lemmas.TieImp
import Restful.Model.Detect
import Restful.Model.Cors
namespace Restful
namespace TieImp
open Imp

/-- a model request as the package reads an `*http.Request` -/
def genReq (req : Req) : HttpRequest :=
  { method := req.method, path := req.path, contentLength := req.contentLength,
    header := fun k =>
      if k = "Content-Type".toList then req.contentType
      else if k = "Accept".toList then req.accept
      else if k = "Content-Length".toList then req.clenHeader
      else [] }

/-- a built route of the model as a `Route` value; its If-conditions are user functions: on the request
    under consideration they return what the model's request says they return -/
def genRoute (req : Req) (r : Route) : ImpGen.GoRoute :=
  { Method := r.method, Produces := r.produces, Consumes := r.consumes,
    Path := r.path, relativePath := r.relPath,
    If := r.conds.map (fun i _ => req.conds.getD i false),
    pathParts := r.pathParts, pathExpr := none, hasCustomVerb := r.hasCustomVerb,
    allowedMethodsWithoutContentType := r.noct }

/-- what callers read of a returned error: status code and headers (never the message text) -/
def errView (e : GoErr) : Option (Int × List (Str × List Str)) := e.map (fun v => (v.code, v.header))

/-- the model's verdict of `detectRoute` as the pair the Go function returns -/
def ofDetect (req : Req) : Except (Nat × Option (List Str)) Route → Option ImpGen.GoRoute × Option (Int × List (Str × List Str))
  | .ok r => (some (genRoute req r), none)
  | .error (c, allow) =>
    (none, some (((c : Nat) : Int),
      match allow with
      | some ms => [("Allow".toList, [Str.join ", ".toList ms])]
      | none => []))

/-- a compiled template expression as its `FindStringSubmatch` function, by the closed form of the
    model: the whole match, the variable captures, the final group; `[]` = no match -/
def reOf (E : ReEnv) (toks : List Jsr.JTok) : Regexp := fun s =>
  match Jsr.matchExpr E toks s with
  | some (caps, fin) => s :: (caps ++ [fin])
  | none => []

/-- `newPathExpression(template)`; `none` = the template does not compile -/
def genPE (E : ReEnv) (tmpl : Str) : Option ImpGen.GoPathExpression :=
  (Jsr.compile tmpl).map (fun ex =>
    { LiteralCount := ((ex.literalCount : Nat) : Int), VarNames := ex.varNames, VarCount := ((ex.varCount : Nat) : Int),
      Matcher := reOf E ex.toks, tokens := tokenize tmpl })

end TieImp
end Restful
