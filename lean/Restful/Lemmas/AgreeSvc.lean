/-
C18, part 3 (A2): with literal, pairwise different root paths and a normal request path, both
routers pick the same WebService: the longest root that is a token-prefix of the path.
-/
import Restful.Lemmas.AgreePath
import Restful.Lemmas.OrderScore
import Restful.Lemmas.CurlyScore
import Restful.Lemmas.OrderJsr
namespace Restful
open Str

namespace Spec

end Spec

/-! ### what the hypotheses say about one root path -/

/-- a literal root: its tokens are non-empty literal texts, and RouterJSR311 compiles it to them -/
theorem wfCommon_root {cfg : Config} (hwf : Spec.wfCommon cfg = true) (hclean : Spec.rootsClean cfg = true)
    {svc : Service} (hsvc : svc ∈ cfg.services) :
    ∃ ls : List Str, tokenize svc.rootPath = ls ∧ Spec.nonEmptyToks svc.rootPath = ls ∧
      (∀ l ∈ ls, litOK l = true) ∧
      ∃ ex, Jsr.compile svc.rootPath = some ex ∧ ex.toks = ls.map Jsr.JTok.lit ∧
        ex.literalCount = (ls.map List.length).sum := by
  unfold Spec.wfCommon at hwf
  unfold Spec.rootsClean at hclean
  simp only [List.all_eq_true, Bool.and_eq_true] at hwf hclean
  have h := (hwf svc hsvc).1
  have hcl := hclean svc hsvc
  have hne : Spec.nonEmptyToks svc.rootPath = tokenize svc.rootPath := by
    unfold Spec.nonEmptyToks
    rw [List.filter_eq_self]
    exact hcl
  split at h
  · rename_i ts hts
    simp only [List.all_eq_true] at h
    obtain ⟨hrender, hwft⟩ := readToks_render hts
    have hform : ∀ t ∈ ts, t.verb = none ∧ ∃ l, t.base = .lit l ∧ litOK l = true := by
      intro t ht
      have hl := h t ht
      have hw := hwft t ht
      obtain ⟨base, verb⟩ := t
      cases base <;> cases verb <;> simp_all [Spec.tokLiteral, TTok.wf, Tok.wf]
    have hj : ∀ t ∈ ts, Spec.tokJsrOK t = true := by
      intro t ht
      obtain ⟨hv, l, hb, _⟩ := hform t ht
      simp [Spec.tokJsrOK, hv, hb]
    have hrl : ∀ t ∈ ts, Jsr.ofTTok t = .lit t.render ∧ litOK t.render = true := by
      intro t ht
      obtain ⟨hv, l, hb, hl⟩ := hform t ht
      simp [Jsr.ofTTok, Jsr.ofTok, TTok.render, Tok.render, hv, hb, hl]
    obtain ⟨ex, hex, htoks, hlc⟩ := Jsr.compile_of_readToks' hts hj
    have hmap : ts.map Jsr.ofTTok = (ts.map TTok.render).map Jsr.JTok.lit := by
      rw [List.map_map]
      apply List.map_congr_left
      intro t ht
      exact (hrl t ht).1
    refine ⟨ts.map TTok.render, ?_, hrender.symm, ?_, ex, hex, ?_, ?_⟩
    · rw [hrender, hne]
    · intro l hl
      rw [List.mem_map] at hl
      obtain ⟨t, ht, rfl⟩ := hl
      exact (hrl t ht).2
    · rw [htoks, hmap]
    · rw [hlc, Jsr.jlit, hmap]
      simp only [List.map_map]
      rfl
  · simp at h

/-! ### CurlyRouter's score of a literal root -/
namespace Curly

/-- the score of a matching all-literal root of `n` tokens: 10·(n + (n-1) + … + 1) -/
def litScore : Nat → Nat
  | 0 => 0
  | n + 1 => (n + 1) * 10 + litScore n

theorem litScore_lt : ∀ {a b : Nat}, a < b → litScore a < litScore b := by
  intro a b h
  induction b with
  | zero => omega
  | succ n ih =>
    rw [litScore]
    by_cases hn : a = n
    · subst hn; omega
    · have := ih (by omega); omega

theorem litScore_le_iff {a b : Nat} (h : litScore a ≤ litScore b) : a ≤ b := by
  apply Classical.byContradiction
  intro hn
  have := litScore_lt (show b < a by omega)
  omega

theorem stepD_lit {l : Str} (hl : litOK l = true) (q : Str) (n : Nat) :
    stepD l q n = if q = l then some ((n + 1) * 10) else none := by
  unfold litOK at hl
  simp only [Bool.and_eq_true, Bool.not_eq_true', List.all_eq_true] at hl
  cases l with
  | nil => simp at hl
  | cons c cs =>
    have hc : c ≠ '{' := by
      have := hl.2 c List.mem_cons_self
      intro e
      subst e
      simp [litChar] at this
    have hv : Spec.rootTokIsVar (c :: cs) = false := by
      simp [Spec.rootTokIsVar, hasPrefix, List.isPrefixOf]
      exact fun e => hc e.symm
    unfold stepD
    simp only [List.isEmpty_cons, Bool.and_false, Bool.false_eq_true, if_false, hv]
    by_cases hq : q = c :: cs
    · simp [hq]
    · simp [hq]

theorem scoreWalk_lit : ∀ (ls qs : List Str) (acc : Nat), (∀ l ∈ ls, litOK l = true) →
    scoreWalk ls qs acc = if ls.isPrefixOf qs then some (acc + litScore ls.length) else none
  | [], qs, acc, _ => by simp [scoreWalk, litScore]
  | _ :: _, [], _, _ => by simp [scoreWalk]
  | l :: ls, q :: qs, acc, h => by
    rw [scoreWalk_cons, stepD_lit (h l List.mem_cons_self), List.isPrefixOf_cons_cons]
    by_cases hq : q = l
    · subst hq
      simp only [if_true, Option.bind_some, beq_self_eq_true, Bool.true_and]
      rw [scoreWalk_lit ls qs _ (fun x hx => h x (List.mem_cons_of_mem _ hx))]
      simp only [List.length_cons, litScore]
      split
      · congr 1; omega
      · rfl
    · have : (l == q) = false := by simpa using fun e => hq e.symm
      simp [hq, this]

theorem wsScore_lit (ls qs : List Str) (h : ∀ l ∈ ls, litOK l = true) :
    wsScore qs ls = if ls.isPrefixOf qs then some (litScore ls.length) else none := by
  unfold wsScore
  split
  · rename_i hlen
    have : ls.isPrefixOf qs = false := by
      cases hp : ls.isPrefixOf qs with
      | false => rfl
      | true =>
        have := (List.isPrefixOf_iff_prefix.mp hp).length_le
        omega
    simp [this]
  · rw [scoreWalk_lit ls qs 0 h]
    simp

theorem rootTokIsVar_lit {l : Str} (hl : litOK l = true) : Spec.rootTokIsVar l = false := by
  rw [rootTokIsVar_eq]
  exact Tok.hasPrefix_render_lit (s := l) (by simpa [Tok.wf] using hl)

/-- the score `computeWebserviceScore` gives a literal root: no `{` token, so no expression is
    evaluated (fix 19aa57d changes nothing on the common fragment) -/
theorem wsScoreE_lit (E : ReEnv) (ls qs : List Str) (h : ∀ l ∈ ls, litOK l = true) :
    wsScoreE E qs ls = if ls.isPrefixOf qs then .yes (litScore ls.length) else .no := by
  rw [wsScoreE_of_noVar E qs ls (fun l hl => rootTokIsVar_lit (h l hl)), wsScore_lit ls qs h]
  cases ls.isPrefixOf qs <;> rfl

end Curly

/-! ### RouterJSR311's match of a literal root -/
namespace Jsr
variable (E : ReEnv)

theorem takeWhile_eq_iff_starts {l r1 : Str} (hl : '/' ∉ l) :
    (l = (l ++ r1).takeWhile (· != '/') ↔ Starts r1) ∧
      (Starts r1 → (l ++ r1).dropWhile (· != '/') = r1) := by
  refine ⟨⟨?_, fun h => (takeWhile_ne_append hl h).1.symm⟩, fun h => (takeWhile_ne_append hl h).2⟩
  intro h
  have hcat : (l ++ r1).takeWhile (· != '/') ++ (l ++ r1).dropWhile (· != '/') = l ++ r1 :=
    List.takeWhile_append_dropWhile
  rw [← h] at hcat
  have : (l ++ r1).dropWhile (· != '/') = r1 := List.append_cancel_left hcat
  rw [← this]
  exact dropWhile_ne_cases '/' _

theorem matchExpr_not_starts {t : JTok} {ts : List JTok} {p : Str} (h : ¬ ∃ r, p = '/' :: r) :
    matchExpr E (t :: ts) p = none := by
  cases hm : matchExpr E (t :: ts) p with
  | none => rfl
  | some x => exact absurd (matchExpr_cons_some E hm) h

/-- an all-literal expression matches `/r` exactly when its literals are the leading raw segments -/
theorem matchExpr_lits_isSome : ∀ (ls : List Str) (r : Str), (∀ l ∈ ls, litOK l = true) → '\n' ∉ r →
    (matchExpr E (ls.map JTok.lit) ('/' :: r)).isSome = ls.isPrefixOf (split '/' r)
  | [], r, _, hn => by
    simp [matchExpr, hn]
  | l :: ls, r, h, hn => by
    have hl := litOK_spec (h l List.mem_cons_self)
    have hrest : ∀ x ∈ ls, litOK x = true := fun x hx => h x (List.mem_cons_of_mem _ hx)
    rw [split_eq, List.isPrefixOf_cons_cons]
    simp only [List.map_cons, matchExpr]
    by_cases hpre : l.isPrefixOf r = true
    · rw [if_pos hpre]
      obtain ⟨r1, rfl⟩ := List.isPrefixOf_iff_prefix.mp hpre
      rw [List.drop_left]
      have hn1 : '\n' ∉ r1 := fun hm => hn (List.mem_append_right _ hm)
      obtain ⟨hiff, hdrop⟩ := takeWhile_eq_iff_starts (r1 := r1) hl.2.1
      by_cases hst : Starts r1
      · have htw := hiff.mpr hst
        rw [← htw, hdrop hst]
        simp only [beq_self_eq_true, Bool.true_and]
        rcases hst with rfl | ⟨r2, rfl⟩
        · cases ls with
          | nil => simp [matchExpr]
          | cons l2 ls2 => simp [matchExpr]
        · have hn2 : '\n' ∉ r2 := fun hm => hn1 (List.mem_cons_of_mem _ hm)
          exact matchExpr_lits_isSome ls r2 hrest hn2
      · have hne : (l == (l ++ r1).takeWhile (· != '/')) = false := by
          simp only [beq_eq_false_iff_ne, ne_eq]
          exact fun e => hst (hiff.mp e)
        rw [hne, Bool.false_and]
        have hns : ¬ ∃ r, r1 = '/' :: r := fun ⟨r, e⟩ => hst (Or.inr ⟨r, e⟩)
        cases ls with
        | nil =>
          cases r1 with
          | nil => exact absurd (Or.inl rfl) hst
          | cons c r' =>
            have hc : c ≠ '/' := fun e => hns ⟨r', by rw [e]⟩
            simp [matchExpr, hc]
        | cons l2 ls2 =>
          simp only [List.map_cons]
          rw [matchExpr_not_starts E hns]
          rfl
    · rw [if_neg hpre]
      have hne : (l == r.takeWhile (· != '/')) = false := by
        simp only [beq_eq_false_iff_ne, ne_eq]
        intro e
        apply hpre
        rw [List.isPrefixOf_iff_prefix]
        exact ⟨r.dropWhile (· != '/'), by rw [e]; exact List.takeWhile_append_dropWhile⟩
      rw [hne]
      rfl

end Jsr

/-! ### the two routers' service choice -/

theorem isPrefixOf_snoc_nil : ∀ (ls body : List Str), (∀ l ∈ ls, l ≠ []) →
    ls.isPrefixOf (body ++ [[]]) = ls.isPrefixOf body
  | [], _, _ => by simp
  | l :: ls, [], h => by
    have : (l == ([] : Str)) = false := by simpa using h l List.mem_cons_self
    simp [List.isPrefixOf, this]
  | l :: ls, b :: bs, h => by
    simp only [List.cons_append, List.isPrefixOf_cons_cons]
    rw [isPrefixOf_snoc_nil ls bs (fun x hx => h x (List.mem_cons_of_mem _ hx))]

theorem sum_length_pos_of_ne_nil : ∀ (ext : List Str), (∀ l ∈ ext, l ≠ []) → ext ≠ [] →
    0 < (ext.map List.length).sum
  | [], _, h => absurd rfl h
  | l :: ls, h, _ => by
    have : 0 < l.length := List.length_pos_iff.mpr (h l List.mem_cons_self)
    simp only [List.map_cons, List.sum_cons]
    omega

variable (E : ReEnv)

/-- both routers' test "this root claims the request" is: the root's tokens are a prefix of the
    path's tokens; with CurlyRouter's score and RouterJSR311's candidate -/
theorem root_claims {cfg : Config} (hwf : Spec.wfCommon cfg = true) (hclean : Spec.rootsClean cfg = true)
    {svc : Service} (hsvc : svc ∈ cfg.services) {p : Str} (hp : Spec.normalPath p = true) :
    ∃ ls ex, Spec.nonEmptyToks svc.rootPath = ls ∧ (∀ l ∈ ls, l ≠ []) ∧
      Jsr.compile svc.rootPath = some ex ∧ (∀ t ∈ ex.toks, ∃ l, t = .lit l) ∧
      ex.literalCount = (ls.map List.length).sum ∧
      Curly.svcScoreE E (tokenize p) svc =
        (if ls.isPrefixOf (tokenize p) then .yes (Curly.litScore ls.length) else .no) ∧
      (Jsr.dcandOf E p svc).isSome = ls.isPrefixOf (tokenize p) := by
  obtain ⟨ls, htok, hnet, hlit, ex, hex, htoks, hlc⟩ := wfCommon_root hwf hclean hsvc
  obtain ⟨r, body, rfl, hnl, hbody, hbne, hsplit⟩ := Spec.normalPath_spec hp
  have hlne : ∀ l ∈ ls, l ≠ [] := fun l hl => (Jsr.litOK_spec (hlit l hl)).1
  refine ⟨ls, ex, hnet, hlne, hex, ?_, hlc, ?_, ?_⟩
  · intro t ht
    rw [htoks, List.mem_map] at ht
    obtain ⟨l, _, rfl⟩ := ht
    exact ⟨l, rfl⟩
  · rw [Curly.svcScoreE, htok]
    exact Curly.wsScoreE_lit E ls _ hlit
  · have hm := Jsr.matchExpr_lits_isSome E ls r hlit hnl
    have hpre : ls.isPrefixOf (split '/' r) = ls.isPrefixOf body := by
      rcases hsplit with hs | hs
      · rw [hs]
      · rw [hs, isPrefixOf_snoc_nil ls body hlne]
    rw [hbody, ← hpre, ← hm]
    unfold Jsr.dcandOf
    rw [hex]
    simp only [htoks]
    cases Jsr.matchExpr E (ls.map Jsr.JTok.lit) ('/' :: r) with
    | none => rfl
    | some cf => rfl

/-- **C18 (A2), service selection coincides**: with literal, clean, pairwise different roots and a
    normal path, CurlyRouter's `detectWebService` and RouterJSR311's `detectDispatcher` pick the
    same WebService, or neither finds one (CurlyRouter's scoring does not panic, and RouterJSR311
    never fails to compile a root) -/
theorem C18_service_agrees (E : ReEnv) (cfg : Config) (hwf : Spec.wfCommon cfg = true)
    (hroots : Spec.rootsDistinct cfg = true) (hclean : Spec.rootsClean cfg = true)
    (p : Str) (hp : Spec.normalPath p = true) :
    match Curly.detectWebService E (tokenize p) cfg.services none, Jsr.detectDispatcher E cfg.services p with
    | some none, some none => True
    | some (some (s, _)), some (some (s', _)) => s = s'
    | _, _ => False := by
  have hfail : ¬ ∃ s ∈ cfg.services, Jsr.compile s.rootPath = none := by
    rintro ⟨s, hs, hc⟩
    obtain ⟨_, ex, _, _, hex, _⟩ := root_claims E hwf hclean hs hp
    rw [hex] at hc
    cases hc
  cases h1 : Curly.detectWebService E (tokenize p) cfg.services none with
  | none =>
    -- no `{` token in a literal root: nothing to slice, no panic
    exfalso
    obtain ⟨s, hs, hpanic⟩ := (Curly.detectWebService_panic E _ _ _).mp h1
    obtain ⟨ls, ex, _, _, _, _, _, hsc, _⟩ := root_claims E hwf hclean hs hp
    rw [hsc] at hpanic
    split at hpanic <;> cases hpanic
  | some d1 =>
  cases d1 with
  | none =>
    have hnone := ((Curly.detectWebService_none E _ _ _).mp h1).2
    have hj : ∀ s ∈ cfg.services, Jsr.dcandOf E p s = none := by
      intro s hs
      obtain ⟨ls, ex, _, _, _, _, _, hsc, hd⟩ := root_claims E hwf hclean hs hp
      have := hnone s hs
      rw [hsc] at this
      have hpf : ls.isPrefixOf (tokenize p) = false := by
        cases hpre : ls.isPrefixOf (tokenize p) with
        | false => rfl
        | true => rw [hpre] at this; simp at this
      rw [hpf] at hd
      cases hdc : Jsr.dcandOf E p s with
      | none => rfl
      | some c => rw [hdc] at hd; simp at hd
    rw [Jsr.detectDispatcher_some_none E hfail hj]
    trivial
  | some x =>
    obtain ⟨s, sc⟩ := x
    have hmem : s ∈ cfg.services := Curly.detectWebService_mem_none E h1
    obtain ⟨hscore, hmax⟩ := Curly.detectWebService_max E _ _ _ _ h1
    obtain ⟨ls, ex, hnet, hlne, hex, hallit, hlc, hsc, hd⟩ := root_claims E hwf hclean hmem hp
    have hscore' : Curly.svcScoreE E (tokenize p) s = .yes sc := hscore
    rw [hsc] at hscore'
    have hpre : ls.isPrefixOf (tokenize p) = true := by
      cases hpre : ls.isPrefixOf (tokenize p) with
      | true => rfl
      | false => rw [hpre] at hscore'; simp at hscore'
    rw [hpre] at hd hscore'
    simp only [if_true, Curly.Score.yes.injEq] at hscore'
    obtain ⟨c, hc⟩ := Option.isSome_iff_exists.mp hd
    obtain ⟨s', f', hdd⟩ := Jsr.detectDispatcher_isSome E hfail hmem hc
    rw [hdd]
    simp only
    -- `s'` claims the request as well, with at least as many literal characters
    obtain ⟨_, hmem', c', hc', _, _⟩ := Jsr.detectDispatcher_some_some E hdd
    obtain ⟨ls', ex', hnet', hlne', hex', hallit', hlc', hsc', hd'⟩ := root_claims E hwf hclean hmem' hp
    have hpre' : ls'.isPrefixOf (tokenize p) = true := by rw [← hd', hc']; rfl
    rw [hpre'] at hsc'
    simp only [if_true] at hsc'
    -- CurlyRouter: `s` has at least as many tokens
    have hlen : ls'.length ≤ ls.length := by
      have := hmax s' hmem' _ hsc'
      rw [← hscore'] at this
      exact Curly.litScore_le_iff this
    -- RouterJSR311: `s'` has at least as many literal characters
    have hlit : ∀ t ∈ cfg.services, ∀ ex, Jsr.compile t.rootPath = some ex → ∀ x ∈ ex.toks, ∃ l, x = .lit l := by
      intro t ht ext hext
      obtain ⟨_, ex0, _, _, hex0, hall0, _⟩ := root_claims E hwf hclean ht hp
      rw [hex0] at hext
      cases hext
      exact hall0
    obtain ⟨exc, capsc, hexc, hmc, _⟩ := Jsr.dcandOf_some E hc
    have hchars := C03_jsr_literal_root_longest E cfg.services p s' f' hlit hdd s hmem exc capsc _ hexc hmc ex' hex'
    rw [hex] at hexc
    cases hexc
    rw [hlc, hlc'] at hchars
    -- both are prefixes of the same token list
    obtain ⟨ext, hext⟩ := List.prefix_of_prefix_length_le (List.isPrefixOf_iff_prefix.mp hpre')
      (List.isPrefixOf_iff_prefix.mp hpre) hlen
    have hextnil : ext = [] := by
      apply Classical.byContradiction
      intro hne
      have hpos := sum_length_pos_of_ne_nil ext (fun l hl => hlne l (by rw [← hext]; exact List.mem_append_right _ hl)) hne
      rw [← hext, List.map_append, List.sum_append_nat] at hchars
      omega
    rw [hextnil, List.append_nil] at hext
    -- different services have different root token lists
    have hdist := (Spec.pairwiseB_iff _ _).mp hroots
    apply pairwise_eq_of_not hdist hmem hmem'
    · rw [hnet, hnet', hext]; simp
    · rw [hnet, hnet', hext]; simp

end Restful
