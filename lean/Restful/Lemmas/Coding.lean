/-
C07 — helpers.  The heart is a simulation between a run of the serve model WITH a compressing writer
and the run of the same request with every content-coding switch off (`Spec.noCoding cfg`, empty
Accept-Encoding):

  `Sim K strict r₁ r₂`   r₂ has no compressor; if r₁ has none either the two recorders are EQUAL;
                         if r₁ has one (`c`), the uncoded body is `c.payload`, the coding satisfies
                         `K` (where it came from), `Content-Encoding: c.coding.name` is the first
                         such entry of the live header map and of the snapshot that was sent, and
                         (`strict`) the compressor is still open.

The strict relation is preserved by `baseWrite`, `baseWriteHeader`, `addHeader` (`Sim.stable`), hence
by `runActs`, `runChain` (same context and same panic on both sides: `runChain_rel`, stated for any
`Stable` relation), `runRecover`; `closeComp` turns it into the lax one; `install` on the state the
request arrived with establishes it (`Sim.install` — every installation site checks `comp.isSome`
first, so that is the only state a compressor is ever installed on: `Pristine`).  `dispatch`,
`handleWrapper`, `serveWrapper` are walked through once (`*_sim`), and once more for "whoever
installed the compressor closes it on every path" (`*_done`).  Results: `coded_facts`,
`uncoded_facts`, `c07Holds_iff`.

A second pass with the same chain lemma (`Inv`, `*_inv`) follows the first `Content-Encoding` entry
through the run without codings: it stays what it was on arrival when the writer carried one, or
when no script adds one (`userCE`).  Results: `plain_ce`, `uncoded_ce`.

Proof-engineering note: `"…".toList` must never be unfolded by `whnf`/`isDefEq` in the elaborator
(seconds per literal); `decide_eq_true rfl`, `simp` (simproc `String.reduceToList`) and
`simp [-String.reduceToList]` are used instead.
-/
import Restful.Spec.Serve
namespace Restful
namespace Serve.Enc
open Str

/-! ### the `Content-Encoding` entry -/

/-- the header name -/
abbrev ceKey : Str := "Content-Encoding".toList

/-- `kv` is a `Content-Encoding` entry -/
abbrev isCE : Str × Str → Bool := fun kv => decide (kv.1 = "Content-Encoding".toList)

/-- `x` is the first `Content-Encoding` entry of the live header map and of the snapshot taken when
    the status was locked (if it was) -/
def CeIs (x : Option (Str × Str)) (r : Rec) : Prop :=
  r.headers.find? isCE = x ∧ ∀ h, r.sent = some h → h.find? isCE = x

@[simp] theorem lockStatus_comp (r : Rec) (c : Nat) : (lockStatus r c).comp = r.comp := by
  unfold lockStatus; split <;> rfl
@[simp] theorem lockStatus_body (r : Rec) (c : Nat) : (lockStatus r c).body = r.body := by
  unfold lockStatus; split <;> rfl
@[simp] theorem lockStatus_headers (r : Rec) (c : Nat) : (lockStatus r c).headers = r.headers := by
  unfold lockStatus; split <;> rfl

theorem CeIs.lockStatus {x : Option (Str × Str)} {r : Rec} (h : CeIs x r) (c : Nat) : CeIs x (lockStatus r c) := by
  unfold Serve.lockStatus
  split
  · exact h
  · refine ⟨h.1, ?_⟩
    intro hs hh
    simp only [Option.some.injEq] at hh
    subst hh
    exact h.1

theorem CeIs.addHeader {x : Option (Str × Str)} {r : Rec} (h : CeIs x r) (k v : Str)
    (hk : x.isSome = true ∨ k ≠ ceKey) : CeIs x (addHeader r k v) := by
  refine ⟨?_, h.2⟩
  show (r.headers ++ [(k, v)]).find? isCE = x
  rw [List.find?_append, h.1]
  cases x with
  | some y => rfl
  | none =>
    have hk' : k ≠ ceKey := by
      rcases hk with hk | hk
      · simp at hk
      · exact hk
    have hf : isCE (k, v) = false := decide_eq_false hk'
    simp only [List.find?_cons, hf, List.find?_nil, Option.or_none]

/-- changes that touch neither the header map nor the snapshot -/
theorem CeIs.congr {x : Option (Str × Str)} {r r' : Rec} (h : CeIs x r) (hh : r'.headers = r.headers)
    (hs : r'.sent = r.sent) : CeIs x r' := by
  unfold CeIs; rw [hh, hs]; exact h

theorem CeIs.baseWrite {x : Option (Str × Str)} {r : Rec} (h : CeIs x r) (b : Str) : CeIs x (baseWrite r b) := by
  unfold Serve.baseWrite
  split
  · exact (h.lockStatus 200).congr rfl rfl
  · split
    · exact h.congr rfl rfl
    · exact (h.lockStatus 200).congr rfl rfl

/-- the `Content-Encoding` the harness sees -/
theorem CeIs.sent {x : Option (Str × Str)} {r : Rec} (h : CeIs x r) :
    (r.sent.getD r.headers).find? isCE = x := by
  cases hs : r.sent with
  | none => exact h.1
  | some hd => exact h.2 hd hs

/-! ### `wantsCompressedResponse` -/

theorem wants_some {r : Rec} {ae : Str} {c : Coding} (h : wants r ae = some c) :
    containsSub c.name ae = true ∧ getHeader r ceKey = [] := by
  unfold wants at h
  split at h
  · exact absurd h (by simp)
  · rename_i hce
    have hce' : getHeader r ceKey = [] := by
      simpa [-String.reduceToList] using hce
    refine ⟨?_, hce'⟩
    unfold containsSub
    split at h
    · exact absurd h (by simp)
    · rename_i hz; cases h; show (indexSub "deflate".toList ae).isSome = true; rw [hz]; rfl
    · rename_i hg _; cases h; show (indexSub "gzip".toList ae).isSome = true; rw [hg]; rfl
    · rename_i gi zi hg hz
      split at h <;> cases h
      · show (indexSub "gzip".toList ae).isSome = true; rw [hg]; rfl
      · show (indexSub "deflate".toList ae).isSome = true; rw [hz]; rfl

/-- nothing is asked for when the request carries no Accept-Encoding -/
@[simp] theorem wants_nil (r : Rec) : wants r [] = none := by
  unfold wants
  split
  · rfl
  · rfl

theorem getHeader_initial (sr : SReq) : getHeader (initial sr).rc ceKey = sr.priorEncoding := by
  unfold getHeader initial
  cases hp : sr.priorEncoding with
  | nil => simp
  | cons a as => simp [-String.reduceToList]

theorem coding_name_cases (c : Coding) : c.name = "gzip".toList ∨ c.name = "deflate".toList := by
  cases c
  · exact Or.inl rfl
  · exact Or.inr rfl

/-! ### the simulation relation -/

/-- see the file header: `r₁` is the recorder of the run under scrutiny, `r₂` that of the run without codings -/
def Sim (K : Coding → Prop) (strict : Bool) (r₁ r₂ : Rec) : Prop :=
  r₂.comp = none ∧ (r₁.comp = none → r₁ = r₂) ∧
  ∀ c, r₁.comp = some c →
    (strict = true → c.closed = false) ∧ r₂.body = c.payload ∧ K c.coding ∧
      CeIs (some (ceKey, c.coding.name)) r₁

variable {K : Coding → Prop}

theorem Sim.lax {b : Bool} {r₁ r₂ : Rec} (h : Sim K b r₁ r₂) : Sim K false r₁ r₂ :=
  ⟨h.1, h.2.1, fun c hc => ⟨fun hh => absurd hh (by simp), ((h.2.2 c hc).2)⟩⟩

theorem Sim.same {b : Bool} {r : Rec} (h : r.comp = none) : Sim K b r r :=
  ⟨h, fun _ => rfl, fun c hc => absurd (h ▸ hc) (by simp)⟩

theorem baseWrite_none {r : Rec} (h : r.comp = none) (b : Str) :
    baseWrite r b = { lockStatus r 200 with body := r.body ++ b } := by
  unfold baseWrite; rw [h]

theorem baseWrite_open {r : Rec} {c : Comp} (h : r.comp = some c) (hc : c.closed = false) (b : Str) :
    baseWrite r b = { lockStatus r 200 with comp := some { c with payload := c.payload ++ b } } := by
  unfold baseWrite; rw [h]; simp [hc]

theorem Sim.baseWrite {r₁ r₂ : Rec} (h : Sim K true r₁ r₂) (b : Str) :
    Sim K true (baseWrite r₁ b) (baseWrite r₂ b) := by
  obtain ⟨h2, hn, hs⟩ := h
  cases hc : r₁.comp with
  | none =>
    have := hn hc; subst this
    exact Sim.same (by rw [baseWrite_none hc]; simpa using hc)
  | some c =>
    obtain ⟨hcl, hb, hk, hce⟩ := hs c hc
    have e₁ := baseWrite_open hc (hcl rfl) b
    have e₂ := baseWrite_none h2 b
    refine ⟨by rw [e₂]; simpa using h2, fun hh => absurd hh (by rw [e₁]; simp), ?_⟩
    intro c' hc'
    rw [e₁] at hc'
    simp only [Option.some.injEq] at hc'
    subst hc'
    refine ⟨fun _ => hcl rfl, ?_, hk, hce.baseWrite b⟩
    rw [e₂]; simp [hb]

theorem Sim.baseWriteHeader {r₁ r₂ : Rec} (h : Sim K true r₁ r₂) (c : Nat) :
    Sim K true (baseWriteHeader r₁ c) (baseWriteHeader r₂ c) := by
  obtain ⟨h2, hn, hs⟩ := h
  unfold Serve.baseWriteHeader
  refine ⟨by simpa using h2, fun hh => by rw [hn (by simpa using hh)], ?_⟩
  intro c' hc'
  rw [lockStatus_comp] at hc'
  obtain ⟨hcl, hb, hk, hce⟩ := hs c' hc'
  exact ⟨hcl, by simpa using hb, hk, hce.lockStatus c⟩

theorem Sim.addHeader {r₁ r₂ : Rec} (h : Sim K true r₁ r₂) (k v : Str) :
    Sim K true (addHeader r₁ k v) (addHeader r₂ k v) := by
  obtain ⟨h2, hn, hs⟩ := h
  refine ⟨h2, fun hh => by rw [hn hh], ?_⟩
  intro c' hc'
  obtain ⟨hcl, hb, hk, hce⟩ := hs c' hc'
  exact ⟨hcl, hb, hk, hce.addHeader k v (Or.inl rfl)⟩

theorem closeComp_none {s : St} (h : s.rc.comp = none) : closeComp s = s := by
  unfold closeComp; rw [h]

/-- `Close`: afterwards the relation holds in its lax form -/
theorem Sim.closeComp {b : Bool} {s₁ s₂ : St} (h : Sim K b s₁.rc s₂.rc) :
    Sim K false (closeComp s₁).rc (closeComp s₂).rc := by
  rw [closeComp_none h.1]
  obtain ⟨h2, hn, hs⟩ := h
  cases hc : s₁.rc.comp with
  | none => rw [closeComp_none hc]; exact ⟨h2, hn, fun c hc' => absurd (hc ▸ hc') (by simp)⟩
  | some c =>
    obtain ⟨_, hb, hk, hce⟩ := hs c hc
    unfold Serve.closeComp
    rw [hc]
    simp only
    split
    · refine ⟨h2, fun hh => absurd (hc ▸ hh) (by simp), ?_⟩
      intro c' hc'
      have : c' = c := by simpa [hc] using hc'.symm
      subst this
      exact ⟨fun hh => absurd hh (by simp), hb, hk, hce.congr rfl rfl⟩
    · refine ⟨h2, fun hh => absurd hh (by simp), ?_⟩
      intro c' hc'
      simp only [Option.some.injEq] at hc'
      subst hc'
      exact ⟨fun hh => absurd hh (by simp), hb, hk, (hce.lockStatus 200).congr rfl rfl⟩

/-- `NewCompressingResponseWriter` on the writer as it arrived -/
theorem Sim.install (sr : SReq) {c : Coding} (hK : K c) :
    Sim K true (install (initial sr) c).rc (initial sr).rc := by
  have e : (Serve.install (initial sr) c).rc.comp = some { coding := c } := rfl
  refine ⟨rfl, fun hh => (by rw [e] at hh; cases hh), ?_⟩
  intro c' hc'
  rw [e, Option.some.injEq] at hc'
  subst hc'
  have e' : (Serve.install (initial sr) c).rc.sent = none := rfl
  refine ⟨fun _ => rfl, rfl, hK, ?_, fun h hh => (by rw [e'] at hh; cases hh)⟩
  show (List.filter _ _ ++ [(ceKey, c.name)]).find? isCE = _
  rw [List.find?_append]
  have : (List.filter (fun kv : Str × Str => decide (kv.1 ≠ "Content-Encoding".toList)) (initial sr).rc.headers).find? isCE = none := by
    rw [List.find?_eq_none]
    intro x hx
    have := (List.mem_filter.mp hx).2
    simpa [-String.reduceToList] using this
  have hf : isCE (ceKey, c.name) = true := decide_eq_true rfl
  rw [this]
  simp only [List.find?_cons, hf, Option.none_or]

/-! ### scripts and chains -/

/-- a relation between two recorders that every operation on the base writer preserves when done on
    both sides; `ok k`: a header named `k` may be added -/
structure Stable (R : Rec → Rec → Prop) (ok : Str → Prop) : Prop where
  write : ∀ {r₁ r₂ : Rec} (b : Str), R r₁ r₂ → R (baseWrite r₁ b) (baseWrite r₂ b)
  writeHeader : ∀ {r₁ r₂ : Rec} (c : Nat), R r₁ r₂ → R (baseWriteHeader r₁ c) (baseWriteHeader r₂ c)
  addHeader : ∀ {r₁ r₂ : Rec} (k v : Str), ok k → R r₁ r₂ → R (Serve.addHeader r₁ k v) (Serve.addHeader r₂ k v)

/-- every header the script adds is allowed -/
def ScriptOk (ok : Str → Prop) (acts : List Act) : Prop := ∀ k v, Act.addHeader k v ∈ acts → ok k
def FilterOk (ok : Str → Prop) (f : Filter) : Prop := ScriptOk ok f.pre ∧ ScriptOk ok f.post
def ChainOk (ok : Str → Prop) (fs : List (Stage × Filter)) (t : Target) : Prop :=
  (∀ sf ∈ fs, FilterOk ok sf.2) ∧ ScriptOk ok t.script

theorem ScriptOk.tail {ok : Str → Prop} {a : Act} {as : List Act} (h : ScriptOk ok (a :: as)) : ScriptOk ok as :=
  fun k v hm => h k v (List.mem_cons_of_mem _ hm)

theorem ChainOk.tail {ok : Str → Prop} {sf : Stage × Filter} {fs : List (Stage × Filter)} {t : Target}
    (h : ChainOk ok (sf :: fs) t) : ChainOk ok fs t :=
  ⟨fun x hx => h.1 x (List.mem_cons_of_mem _ hx), h.2⟩

theorem ChainOk.trivial (fs : List (Stage × Filter)) (t : Target) : ChainOk (fun _ => True) fs t :=
  ⟨fun _ _ => ⟨fun _ _ _ => True.intro, fun _ _ _ => True.intro⟩, fun _ _ _ => True.intro⟩

/-- results of a script or chain on the two sides: same context, related recorders, same panic -/
def TRel (R : Rec → Rec → Prop) (Q₁ Q₂ : Ctx × St × Option Str) : Prop :=
  Q₁.1 = Q₂.1 ∧ R Q₁.2.1.rc Q₂.2.1.rc ∧ Q₁.2.2 = Q₂.2.2

section rel
variable {R : Rec → Rec → Prop} {ok : Str → Prop} (hR : Stable R ok)
include hR

theorem runActs_rel (acts : List Act) : ∀ (cx : Ctx) {s₁ s₂ : St}, ScriptOk ok acts → R s₁.rc s₂.rc →
    TRel R (runActs acts cx s₁) (runActs acts cx s₂) := by
  induction acts with
  | nil => intro cx s₁ s₂ _ h; exact ⟨rfl, h, rfl⟩
  | cons a as ih =>
    intro cx s₁ s₂ hok h
    cases a <;> simp only [runActs]
    · exact ih cx hok.tail (hR.write _ h)
    · exact ih cx hok.tail (hR.writeHeader _ h)
    · exact ih cx hok.tail (hR.addHeader _ _ (hok _ _ List.mem_cons_self) h)
    · exact ih _ hok.tail h
    · exact ⟨rfl, h, rfl⟩

theorem runStage_rel (st : Stage) (post : Bool) (acts : List Act) (cx : Ctx) {s₁ s₂ : St}
    (hok : ScriptOk ok acts) (h : R s₁.rc s₂.rc) :
    TRel R (runStage st post acts cx s₁) (runStage st post acts cx s₂) :=
  runActs_rel hR acts cx (s₁ := logStart st post cx s₁) (s₂ := logStart st post cx s₂) hok h

theorem runChain_rel (fs : List (Stage × Filter)) : ∀ (t : Target) (cx : Ctx) {s₁ s₂ : St},
    ChainOk ok fs t → R s₁.rc s₂.rc → TRel R (runChain fs t cx s₁) (runChain fs t cx s₂) := by
  induction fs with
  | nil => intro t cx s₁ s₂ hok h; simp only [runChain]; exact runStage_rel hR _ _ _ _ hok.2 h
  | cons sf fs ih =>
    intro t cx s₁ s₂ hok h
    have hpre : ScriptOk ok sf.2.pre := (hok.1 sf List.mem_cons_self).1
    have hpost : ScriptOk ok sf.2.post := (hok.1 sf List.mem_cons_self).2
    have hok' := hok.tail
    obtain ⟨st, f⟩ := sf
    simp only [runChain]
    have h1 := runStage_rel hR st false f.pre cx hpre h
    generalize runStage st false f.pre cx s₁ = R₁ at h1 ⊢
    generalize runStage st false f.pre cx s₂ = R₂ at h1 ⊢
    obtain ⟨cx1, s1, p1⟩ := R₁
    obtain ⟨cx1', s1', p1'⟩ := R₂
    obtain ⟨hcx, hs, hp⟩ := h1
    simp only at hcx hs hp
    subst hcx hp
    cases p1 with
    | some v => exact ⟨rfl, hs, rfl⟩
    | none =>
      simp only
      cases f.kind with
      | stop => exact runStage_rel hR _ _ _ _ hpost hs
      | pass =>
        simp only
        have h2 := ih t cx1 hok' hs
        generalize runChain fs t cx1 s1 = Q₁ at h2 ⊢
        generalize runChain fs t cx1 s1' = Q₂ at h2 ⊢
        obtain ⟨cx2, s2, p2⟩ := Q₁
        obtain ⟨cx2', s2', p2'⟩ := Q₂
        obtain ⟨hcx, hs2, hp⟩ := h2
        simp only at hcx hs2 hp
        subst hcx hp
        cases p2 with
        | some v => exact ⟨rfl, hs2, rfl⟩
        | none => exact runStage_rel hR _ _ _ _ hpost hs2
      | replace =>
        simp only
        have h2 := ih t { attrs := [("who".toList, (toString f.id).toList)], params := [], selPath := [], wrappers := f.id :: cx1.wrappers } hok' hs
        generalize runChain fs t _ s1 = Q₁ at h2 ⊢
        generalize runChain fs t _ s1' = Q₂ at h2 ⊢
        obtain ⟨cx2, s2, p2⟩ := Q₁
        obtain ⟨cx2', s2', p2'⟩ := Q₂
        obtain ⟨hcx, hs2, hp⟩ := h2
        simp only at hcx hs2 hp
        subst hcx hp
        cases p2 with
        | some v => exact ⟨rfl, hs2, rfl⟩
        | none => exact runStage_rel hR _ _ _ _ hpost hs2
      | middle =>
        simp only
        have h2 := ih t { cx1 with wrappers := f.id :: cx1.wrappers } hok' hs
        generalize runChain fs t _ s1 = Q₁ at h2 ⊢
        generalize runChain fs t _ s1' = Q₂ at h2 ⊢
        obtain ⟨cx2, s2, p2⟩ := Q₁
        obtain ⟨cx2', s2', p2'⟩ := Q₂
        obtain ⟨hcx, hs2, hp⟩ := h2
        simp only at hcx hs2 hp
        subst hcx hp
        cases p2 with
        | some v => exact ⟨rfl, hs2, rfl⟩
        | none =>
          simp only
          have h3 := runStage_rel hR st true f.post { cx2 with wrappers := cx1.wrappers } hpost hs2
          generalize runStage st true f.post _ s2 = P₁ at h3 ⊢
          generalize runStage st true f.post _ s2' = P₂ at h3 ⊢
          obtain ⟨cx3, s3, p3⟩ := P₁
          obtain ⟨cx3', s3', p3'⟩ := P₂
          obtain ⟨hcx, hs3, hp⟩ := h3
          simp only at hcx hs3 hp
          subst hcx hp
          exact ⟨rfl, hs3, rfl⟩

end rel

theorem Sim.stable : Stable (Sim K true) (fun _ => True) :=
  ⟨fun b h => h.baseWrite b, fun c h => h.baseWriteHeader c, fun k v _ h => h.addHeader k v⟩

abbrev TSim (K : Coding → Prop) := TRel (Sim K true)

theorem runStage_sim (st : Stage) (post : Bool) (acts : List Act) (cx : Ctx) {s₁ s₂ : St}
    (h : Sim K true s₁.rc s₂.rc) : TSim K (runStage st post acts cx s₁) (runStage st post acts cx s₂) :=
  runStage_rel Sim.stable st post acts cx (fun _ _ _ => True.intro) h

theorem runChain_sim (fs : List (Stage × Filter)) (t : Target) (cx : Ctx) {s₁ s₂ : St}
    (h : Sim K true s₁.rc s₂.rc) : TSim K (runChain fs t cx s₁) (runChain fs t cx s₂) :=
  runChain_rel Sim.stable fs t cx (ChainOk.trivial fs t) h

/-- the recover handler (it runs on the base writer) -/
theorem runRecover_sim (cfg : Cfg) {s₁ s₂ : St} (h : Sim K true s₁.rc s₂.rc) :
    Sim K true (runRecover cfg s₁).rc (runRecover cfg s₂).rc := by
  unfold runRecover
  split
  · exact (runStage_sim _ _ _ _ h).2.1
  · exact (h.baseWriteHeader 500).baseWrite _

/-! ### the run without codings -/

/-- the same request without Accept-Encoding -/
abbrev plainReq (sr : SReq) : SReq := { sr with acceptEncoding := [] }

theorem routeX_noCoding (cfg : Cfg) (rid : Nat) :
    routeX (Spec.noCoding cfg) rid = { routeX cfg rid with enc := none } := by
  unfold routeX Spec.noCoding
  simp only [List.find?_map]
  have : ((fun x : RouteX => x.id == rid) ∘ fun r : RouteX => { r with enc := none }) = fun x : RouteX => x.id == rid := rfl
  rw [this]
  cases cfg.routes.find? (fun x => x.id == rid) <;> rfl

theorem allFilters_noCoding (cfg : Cfg) (svc rid : Nat) :
    allFilters (Spec.noCoding cfg) svc rid = allFilters cfg svc rid := by
  unfold allFilters
  rw [routeX_noCoding]
  rfl

@[simp] theorem maybeInstall_nil (en : Bool) (s : St) : maybeInstall en s [] = s := by
  unfold maybeInstall
  split
  · rfl
  · rw [wants_nil]

/-- the state is the one the request arrived with, unless a compressing writer was installed -/
def Pristine (sr : SReq) (s : St) : Prop := s.rc.comp = none → s = initial sr

theorem maybeInstall_sim (sr : SReq) (en : Bool) {s₁ s₂ : St}
    (hK : ∀ c, en = true → wants (initial sr).rc sr.acceptEncoding = some c → K c)
    (h : Sim K true s₁.rc s₂.rc) (hp : Pristine sr s₁) :
    Sim K true (maybeInstall en s₁ sr.acceptEncoding).rc s₂.rc ∧
      Pristine sr (maybeInstall en s₁ sr.acceptEncoding) := by
  unfold maybeInstall
  split
  · exact ⟨h, hp⟩
  · rename_i hcond
    have hen : en = true := by
      cases en
      · simp at hcond
      · rfl
    have hnone : s₁.rc.comp = none := by
      cases hc : s₁.rc.comp
      · rfl
      · simp [hc] at hcond
    have hs₁ := hp hnone
    have hs₂ : s₂.rc = (initial sr).rc := by rw [← h.2.1 hnone, hs₁]
    split
    · rename_i c hw
      rw [hs₁] at hw ⊢
      rw [hs₂]
      exact ⟨Sim.install sr (hK c hen hw), fun hh => by cases hh⟩
    · exact ⟨h, hp⟩

theorem finishDispatch_sim (cfg : Cfg) (p : Option Str) {s₁ s₂ : St} (h : Sim K true s₁.rc s₂.rc) :
    Sim K false (finishDispatch cfg s₁ p).1.rc (finishDispatch (Spec.noCoding cfg) s₂ p).1.rc := by
  unfold finishDispatch
  cases p with
  | none => exact h.closeComp
  | some v =>
    have e₁ : (Spec.noCoding cfg).recover = cfg.recover := rfl
    have e₂ : runRecover (Spec.noCoding cfg) s₂ = runRecover cfg s₂ := rfl
    simp only [e₁, e₂]
    cases cfg.recover
    · exact h.closeComp
    · exact (runRecover_sim cfg h).closeComp

/-- the switch `dispatch` consults: the selected route's own setting, else the container's; nothing
    is installed when no route is selected -/
def dispEnabled (E : ReEnv) (cfg : Cfg) (sr : SReq) : Bool :=
  match Spec.selectedRoute E cfg sr with
  | some rid => (match (routeX cfg rid).enc with
    | some b => b
    | none => cfg.encoding)
  | none => false

theorem finish_of_TSim (cfg : Cfg) {R₁ R₂ : Ctx × St × Option Str} (h : TSim K R₁ R₂) :
    Sim K false (finishDispatch cfg R₁.2.1 R₁.2.2).1.rc
      (finishDispatch (Spec.noCoding cfg) R₂.2.1 R₂.2.2).1.rc := by
  rw [h.2.2]; exact finishDispatch_sim cfg _ h.2.1

theorem dispEnabled_selected {E : ReEnv} {cfg : Cfg} {sr : SReq} {svc rid : Nat} {ps : List (Str × Str)}
    {tag : String} (hc : sr.condPanic = none)
    (hr : routeTagged E cfg.routing sr.req = (Outcome.selected svc rid ps, tag)) :
    Spec.selectedRoute E cfg sr = some rid := by
  unfold Spec.selectedRoute
  rw [hc, hr]
  rfl

theorem dispatch_sim (E : ReEnv) (cfg : Cfg) (sr : SReq) {s₁ s₂ : St}
    (hK : ∀ c, dispEnabled E cfg sr = true → wants (initial sr).rc sr.acceptEncoding = some c → K c)
    (h : Sim K true s₁.rc s₂.rc) (hp : Pristine sr s₁) :
    Sim K false (dispatch E cfg sr s₁).1.rc (dispatch E (Spec.noCoding cfg) (plainReq sr) s₂).1.rc := by
  unfold dispatch
  simp only
  cases hc : sr.condPanic with
  | some v => exact finishDispatch_sim cfg _ h
  | none =>
    simp only
    have er : (Spec.noCoding cfg).routing = cfg.routing := rfl
    rw [er]
    rcases hr : routeTagged E cfg.routing sr.req with ⟨o, tag⟩
    cases o with
    | panic w => exact finishDispatch_sim cfg _ h
    | error code allow =>
      exact finish_of_TSim cfg (runChain_sim _ _ _ h)
    | selected svc rid ps =>
      simp only
      rw [allFilters_noCoding, routeX_noCoding, maybeInstall_nil]
      have hen : dispEnabled E cfg sr = (match (routeX cfg rid).enc with
          | some b => b
          | none => cfg.encoding) := by
        unfold dispEnabled
        rw [dispEnabled_selected hc hr]
      have hmi := maybeInstall_sim sr _ (fun c he hw => hK c (hen ▸ he) hw) h hp
      exact finish_of_TSim cfg (runChain_sim _ _ _ hmi.1)

/-- `Close` on the side under scrutiny only -/
theorem Sim.closeLeft {b : Bool} {s₁ : St} {r₂ : Rec} (h : Sim K b s₁.rc r₂) :
    Sim K false (Serve.closeComp s₁).rc r₂ := by
  have := Sim.closeComp (s₁ := s₁) (s₂ := { rc := r₂ }) h
  rwa [closeComp_none (s := { rc := r₂ }) h.1] at this

theorem plainBody_sim (cfg : Cfg) {s₁ s₂ : St} (h : Sim K true s₁.rc s₂.rc) :
    Sim K true (plainBody cfg s₁).1.rc (plainBody (Spec.noCoding cfg) s₂).1.rc :=
  (runStage_sim (.plain 0) false cfg.plainScript {} h).2.1

theorem plainFilteredBody_sim (cfg : Cfg) {s₁ s₂ : St} (h : Sim K true s₁.rc s₂.rc) :
    Sim K true (plainFilteredBody cfg s₁).1.rc (plainFilteredBody (Spec.noCoding cfg) s₂).1.rc := by
  unfold plainFilteredBody
  have e : (Spec.noCoding cfg).cfilters = cfg.cfilters := rfl
  rw [e]
  split
  · exact plainBody_sim cfg h
  · -- the same panic unwinds on both sides; with recovery on the recover handler runs on both
    have e₁ : (Spec.noCoding cfg).recover = cfg.recover := rfl
    have e₂ : ∀ s, runRecover (Spec.noCoding cfg) s = runRecover cfg s := fun _ => rfl
    have e₃ : (Spec.noCoding cfg).plainScript = cfg.plainScript := rfl
    rw [e₁, e₃]
    simp only [e₂]
    have hc := runChain_sim (label .cfilter cfg.cfilters) ⟨.plain 0, cfg.plainScript⟩ {} h
    generalize runChain (label .cfilter cfg.cfilters) ⟨.plain 0, cfg.plainScript⟩ {} s₁ = Q₁ at hc ⊢
    generalize runChain (label .cfilter cfg.cfilters) ⟨.plain 0, cfg.plainScript⟩ {} s₂ = Q₂ at hc ⊢
    obtain ⟨cx1, t1, p1⟩ := Q₁
    obtain ⟨cx2, t2, p2⟩ := Q₂
    obtain ⟨_, hs, hp⟩ := hc
    simp only at hs hp
    subst hp
    cases p1 with
    | none => exact hs
    | some v =>
      simp only
      cases cfg.recover
      · exact hs
      · exact runRecover_sim cfg hs

/-- the closure `Handle` registers, around a body that installs nothing -/
theorem handleWrapper_sim (cfg : Cfg) (sr : SReq) {b₁ b₂ : St → St × Option Str × Nat}
    (hb : ∀ {s₁ s₂ : St}, Sim K true s₁.rc s₂.rc → Sim K true (b₁ s₁).1.rc (b₂ s₂).1.rc)
    (hK : ∀ c, cfg.encoding = true → wants (initial sr).rc sr.acceptEncoding = some c → K c)
    {s₁ s₂ : St} (h : Sim K true s₁.rc s₂.rc) (hp : Pristine sr s₁) :
    Sim K false (handleWrapper cfg sr s₁ b₁).1.rc
      (handleWrapper (Spec.noCoding cfg) (plainReq sr) s₂ b₂).1.rc := by
  have e₂ : (handleWrapper (Spec.noCoding cfg) (plainReq sr) s₂ b₂).1 = closeComp (b₂ s₂).1 := by
    unfold handleWrapper
    rw [h.1]
    simp only [maybeInstall_nil]
    rfl
  rw [e₂]
  unfold handleWrapper
  split
  · have := hb h
    rw [closeComp_none this.1]
    exact this.lax
  · exact (hb (maybeInstall_sim sr cfg.encoding hK h hp).1).closeComp

/-- `ServeHTTP` around whatever the mux selects -/
theorem serveWrapper_sim (cfg : Cfg) (sr : SReq) {i₁ i₂ : St → St × Option Str × Nat}
    (hi : ∀ {s₁ s₂ : St}, Sim K true s₁.rc s₂.rc → Pristine sr s₁ → Sim K false (i₁ s₁).1.rc (i₂ s₂).1.rc)
    (hK : ∀ c, cfg.encoding = true → wants (initial sr).rc sr.acceptEncoding = some c → K c)
    {s₁ s₂ : St} (h : Sim K true s₁.rc s₂.rc) (hp : Pristine sr s₁) :
    Sim K false (serveWrapper cfg sr s₁ i₁).1.rc
      (serveWrapper (Spec.noCoding cfg) (plainReq sr) s₂ i₂).1.rc := by
  have e₂ : serveWrapper (Spec.noCoding cfg) (plainReq sr) s₂ i₂ = i₂ s₂ := rfl
  rw [e₂]
  unfold serveWrapper
  split
  · exact hi h hp
  · rename_i hcond
    have hmi := maybeInstall_sim sr cfg.encoding hK h hp
    unfold maybeInstall at hmi
    rw [if_neg hcond] at hmi
    exact (hi hmi.1 hmi.2).closeLeft

/-! ### every compressor is closed -/

/-- a compressor, if there is one, has been closed -/
def Done (r : Rec) : Prop := ∀ c, r.comp = some c → c.closed = true

theorem closeComp_done (s : St) : Done (closeComp s).rc := by
  intro c hc
  unfold closeComp at hc
  split at hc
  · rename_i hn; rw [hn] at hc; cases hc
  · rename_i c' hc'
    split at hc
    · rename_i hcl
      have : c = c' := by simpa [hc'] using hc.symm
      rw [this]; exact hcl
    · simp only [Option.some.injEq] at hc
      rw [← hc]

theorem finishDispatch_done (cfg : Cfg) (s : St) (p : Option Str) : Done (finishDispatch cfg s p).1.rc := by
  unfold finishDispatch
  cases p with
  | none => exact closeComp_done _
  | some v =>
    simp only
    split <;> exact closeComp_done _

theorem dispatch_done (E : ReEnv) (cfg : Cfg) (sr : SReq) (s : St) : Done (dispatch E cfg sr s).1.rc := by
  unfold dispatch
  split
  · exact finishDispatch_done _ _ _
  · split <;> exact finishDispatch_done _ _ _

theorem handleWrapper_done (cfg : Cfg) (sr : SReq) (b : St → St × Option Str × Nat) {s : St}
    (h : s.rc.comp = none) : Done (handleWrapper cfg sr s b).1.rc := by
  unfold handleWrapper
  rw [h]
  exact closeComp_done _

theorem serveWrapper_done (cfg : Cfg) (sr : SReq) {i : St → St × Option Str × Nat}
    (hi : ∀ s : St, s.rc.comp = none → Done (i s).1.rc) {s : St} (h : s.rc.comp = none) :
    Done (serveWrapper cfg sr s i).1.rc := by
  unfold serveWrapper
  split
  · exact hi s h
  · exact closeComp_done _

/-! ### one request through one entry point -/

/-- what the entry point does to the state -/
def serveCore (E : ReEnv) (cfg : Cfg) (e : Entry) (sr : SReq) : St × Option Str × Nat :=
  match e with
  | .dispatch => dispatch E cfg sr (initial sr)
  | .serveDispatch => serveWrapper cfg sr (initial sr) (dispatch E cfg sr)
  | .muxHandle => handleWrapper cfg sr (initial sr) (plainBody cfg)
  | .serveHandle => serveWrapper cfg sr (initial sr) (fun s => handleWrapper cfg sr s (plainBody cfg))
  | .muxHandleF => handleWrapper cfg sr (initial sr) (plainFilteredBody cfg)
  | .serveHandleF => serveWrapper cfg sr (initial sr) (fun s => handleWrapper cfg sr s (plainFilteredBody cfg))

theorem serve_rc (E : ReEnv) (cfg : Cfg) (e : Entry) (w : World) (sr : SReq) :
    (serve E cfg e w sr).rc = (serveCore E cfg e sr).1.rc := by
  cases e <;> rfl

theorem serve_world (E : ReEnv) (cfg : Cfg) (e : Entry) (w : World) (sr : SReq) :
    (serve E cfg e w sr).world = ledger w (serve E cfg e w sr).rc := by
  cases e <;> rfl

theorem serveCore_done (E : ReEnv) (cfg : Cfg) (e : Entry) (sr : SReq) : Done (serveCore E cfg e sr).1.rc := by
  cases e
  · exact dispatch_done _ _ _ _
  · exact serveWrapper_done cfg sr (fun s _ => dispatch_done E cfg sr s) rfl
  · exact handleWrapper_done cfg sr _ rfl
  · exact serveWrapper_done cfg sr (fun s hs => handleWrapper_done cfg sr _ hs) rfl
  · exact handleWrapper_done cfg sr _ rfl
  · exact serveWrapper_done cfg sr (fun s hs => handleWrapper_done cfg sr _ hs) rfl

/-- where the coding of a response comes from: it is what `wantsCompressedResponse` says about the
    request as it arrived, and encoding is enabled for the request -/
def Origin (E : ReEnv) (cfg : Cfg) (e : Entry) (sr : SReq) (c : Coding) : Prop :=
  wants (initial sr).rc sr.acceptEncoding = some c ∧
    (Spec.f09Class E cfg e sr = false → Spec.enabledFor E cfg e sr = true)

theorem dispEnabled_enabledFor {E : ReEnv} {cfg : Cfg} {sr : SReq} (h : dispEnabled E cfg sr = true) :
    Spec.enabledFor E cfg .dispatch sr = true ∧ Spec.enabledFor E cfg .serveDispatch sr = true := by
  unfold dispEnabled at h
  unfold Spec.enabledFor
  cases hs : Spec.selectedRoute E cfg sr with
  | none => rw [hs] at h; cases h
  | some rid => rw [hs] at h; exact ⟨h, h⟩

theorem enabledFor_serveDispatch {E : ReEnv} {cfg : Cfg} {sr : SReq}
    (h09 : Spec.f09Class E cfg .serveDispatch sr = false) (he : cfg.encoding = true) :
    Spec.enabledFor E cfg .serveDispatch sr = true := by
  unfold Spec.f09Class at h09
  unfold Spec.enabledFor
  cases hs : Spec.selectedRoute E cfg sr with
  | none => exact he
  | some rid =>
    rw [hs, he] at h09
    simp only
    cases hx : (routeX cfg rid).enc with
    | none => exact he
    | some b =>
      cases b
      · simp [hx] at h09
      · rfl

theorem initial_same {b : Bool} (sr : SReq) : Sim K b (initial sr).rc (initial (plainReq sr)).rc :=
  Sim.same rfl

theorem serveCore_sim (E : ReEnv) (cfg : Cfg) (e : Entry) (sr : SReq) :
    Sim (Origin E cfg e sr) false (serveCore E cfg e sr).1.rc
      (serveCore E (Spec.noCoding cfg) e (plainReq sr)).1.rc := by
  have hp : Pristine sr (initial sr) := fun _ => rfl
  cases e with
  | dispatch =>
    exact dispatch_sim E cfg sr (fun c he hw => ⟨hw, fun _ => (dispEnabled_enabledFor he).1⟩) (initial_same sr) hp
  | serveDispatch =>
    exact serveWrapper_sim cfg sr
      (fun h hp => dispatch_sim E cfg sr (fun c he hw => ⟨hw, fun _ => (dispEnabled_enabledFor he).2⟩) h hp)
      (fun c he hw => ⟨hw, fun h09 => enabledFor_serveDispatch h09 he⟩) (initial_same sr) hp
  | muxHandle =>
    exact handleWrapper_sim cfg sr (plainBody_sim cfg) (fun c he hw => ⟨hw, fun _ => he⟩) (initial_same sr) hp
  | serveHandle =>
    exact serveWrapper_sim cfg sr
      (fun h hp => handleWrapper_sim cfg sr (plainBody_sim cfg) (fun c he hw => ⟨hw, fun _ => he⟩) h hp)
      (fun c he hw => ⟨hw, fun _ => he⟩) (initial_same sr) hp
  | muxHandleF =>
    exact handleWrapper_sim cfg sr (plainFilteredBody_sim cfg) (fun c he hw => ⟨hw, fun _ => he⟩) (initial_same sr) hp
  | serveHandleF =>
    exact serveWrapper_sim cfg sr
      (fun h hp => handleWrapper_sim cfg sr (plainFilteredBody_sim cfg) (fun c he hw => ⟨hw, fun _ => he⟩) h hp)
      (fun c he hw => ⟨hw, fun _ => he⟩) (initial_same sr) hp

/-- the relation between the response and the response of the same request without codings -/
theorem serve_sim (E : ReEnv) (cfg : Cfg) (e : Entry) (sr : SReq) (w w' : World) :
    Sim (Origin E cfg e sr) false (serve E cfg e w sr).rc
      (serve E (Spec.noCoding cfg) e w' (plainReq sr)).rc := by
  rw [serve_rc, serve_rc]; exact serveCore_sim E cfg e sr

theorem serve_done (E : ReEnv) (cfg : Cfg) (e : Entry) (sr : SReq) (w : World) :
    Done (serve E cfg e w sr).rc := by
  rw [serve_rc]; exact serveCore_done E cfg e sr

/-! ### the observation -/

/-- the `Content-Encoding` sent -/
def ceOf (r : Rec) : Str :=
  match (r.sent.getD r.headers).find? isCE with
  | some kv => kv.2
  | none => []

theorem obsOf_ce (R : Result) : (Spec.obsOf R).ce = ceOf R.rc := rfl

theorem CeIs.ceOf {x : Option (Str × Str)} {r : Rec} (h : CeIs x r) :
    ceOf r = (x.map (·.2)).getD [] := by
  unfold Enc.ceOf; rw [h.sent]; cases x <;> rfl

/-- what is known about a response that was encoded: the stream is complete, it decodes to the body
    of the same request without codings, the coding is the one `wantsCompressedResponse` names for
    the request as it arrived, encoding was enabled (outside F09), the label sent is the coding's -/
theorem coded_facts {E : ReEnv} {cfg : Cfg} {e : Entry} {sr : SReq} {w : World} (w' : World) {c : Comp}
    (hc : (serve E cfg e w sr).rc.comp = some c) :
    c.closed = true ∧ (serve E (Spec.noCoding cfg) e w' (plainReq sr)).rc.body = c.payload ∧
      wants (initial sr).rc sr.acceptEncoding = some c.coding ∧
      (Spec.f09Class E cfg e sr = false → Spec.enabledFor E cfg e sr = true) ∧
      ceOf (serve E cfg e w sr).rc = c.coding.name := by
  obtain ⟨_, hb, ⟨hw, hen⟩, hce⟩ := (serve_sim E cfg e sr w w').2.2 c hc
  exact ⟨serve_done E cfg e sr w c hc, hb, hw, hen, hce.ceOf⟩

/-- a response that was not encoded is the response of the same request without codings -/
theorem uncoded_facts {E : ReEnv} {cfg : Cfg} {e : Entry} {sr : SReq} {w : World} (w' : World)
    (hc : (serve E cfg e w sr).rc.comp = none) :
    (serve E cfg e w sr).rc = (serve E (Spec.noCoding cfg) e w' (plainReq sr)).rc :=
  (serve_sim E cfg e sr w w').2.1 hc

theorem obsOf_coded (R : Result) : (Spec.obsOf R).coded = R.rc.comp.isSome := rfl
theorem obsOf_body (R : Result) : (Spec.obsOf R).body = (match R.rc.comp with
    | none => R.rc.body
    | some c => c.payload) := rfl
theorem obsOf_complete (R : Result) : (Spec.obsOf R).complete = (match R.rc.comp with
    | none => true
    | some c => c.closed) := rfl
theorem obsOf_acq (R : Result) : (Spec.obsOf R).acq = R.world.acquired := rfl
theorem obsOf_rel (R : Result) : (Spec.obsOf R).rel = R.world.released := rfl

/-- `Spec.c07Holds` spelled out -/
theorem c07Holds_def (E : ReEnv) (cfg : Cfg) (e : Entry) (sr : SReq) (o : Spec.Obs) :
    Spec.c07Holds E cfg e sr o =
      (if o.coded then
        (o.ce == "gzip".toList || o.ce == "deflate".toList) && containsSub o.ce sr.acceptEncoding &&
          Spec.enabledFor E cfg e sr && sr.priorEncoding.isEmpty && o.complete &&
          (Spec.opaqueBody cfg o (serve E { Spec.noCoding cfg with recover := false } e {} (plainReq sr)).escaped.isSome ||
            Spec.libraryErrorText E cfg e sr ||
            o.body == (serve E (Spec.noCoding cfg) e {} (plainReq sr)).rc.body) && o.acq == 1
      else
        (Spec.opaqueBody cfg o (serve E { Spec.noCoding cfg with recover := false } e {} (plainReq sr)).escaped.isSome ||
            Spec.libraryErrorText E cfg e sr ||
            o.body == (serve E (Spec.noCoding cfg) e {} (plainReq sr)).rc.body) &&
          o.ce == sr.priorEncoding && o.acq == 0) := rfl

theorem ledger_acquired (r : Rec) : (ledger {} r).acquired = if r.comp.isSome then 1 else 0 := by
  unfold ledger; cases r.comp <;> rfl

/-- **C07**, exact form outside F09: the property holds iff the response is encoded or leaves with
    the `Content-Encoding` the writer had on arrival -/
theorem c07Holds_iff (E : ReEnv) (cfg : Cfg) (e : Entry) (sr : SReq)
    (h09 : Spec.f09Class E cfg e sr = false) :
    Spec.c07Holds E cfg e sr (Spec.obsOf (serve E cfg e {} sr)) = true ↔
      ((serve E cfg e {} sr).rc.comp.isSome = true ∨ ceOf (serve E cfg e {} sr).rc = sr.priorEncoding) := by
  rw [c07Holds_def]
  generalize Spec.opaqueBody cfg _ _ = q
  generalize Spec.libraryErrorText E cfg e sr = q2
  rw [obsOf_coded, obsOf_body, obsOf_complete, obsOf_acq, obsOf_ce, serve_world, ledger_acquired]
  cases hc : (serve E cfg e {} sr).rc.comp with
  | none =>
    have hu := uncoded_facts {} hc
    rw [← hu]
    simp
  | some c =>
    obtain ⟨hcl, hb, hw, hen, hlab⟩ := coded_facts {} hc
    obtain ⟨hsub, hprior⟩ := wants_some hw
    rw [getHeader_initial] at hprior
    rw [hlab, hb]
    simp only [Option.isSome_some, if_true, hcl, hen h09, hsub, hprior, List.isEmpty_nil, Bool.and_true,
      Bool.true_and, BEq.rfl, Bool.or_true, true_or, iff_true]
    rcases coding_name_cases c.coding with hn | hn <;> rw [hn] <;> simp

/-! ### the `Content-Encoding` of a response that is not encoded

Without Accept-Encoding nothing is ever installed; the first `Content-Encoding` entry of the header
map stays what it was on arrival as long as no script adds one to a map that has none. -/

/-- the script step adds a `Content-Encoding` header -/
def setsCE : Act → Bool
  | .addHeader k _ => decide (k = "Content-Encoding".toList)
  | _ => false

def scriptCE (l : List Act) : Bool := l.any setsCE
def filterCE (f : Filter) : Bool := scriptCE f.pre || scriptCE f.post

/-- some user code of the configuration (filter, route function, recover handler, plain handler)
    sets a `Content-Encoding` header itself -/
def userCE (cfg : Cfg) : Bool :=
  cfg.cfilters.any filterCE || cfg.svcs.any (fun sv => sv.filters.any filterCE) ||
    cfg.routes.any (fun r => r.filters.any filterCE || scriptCE r.script) ||
    (match cfg.recoverScript with
     | some sc => scriptCE sc
     | none => false) || scriptCE cfg.plainScript

/-- the `Content-Encoding` entry the writer carries on arrival -/
def arrived (sr : SReq) : Option (Str × Str) :=
  if sr.priorEncoding.isEmpty then none else some (ceKey, sr.priorEncoding)

/-- a header named `k` may be added without changing the first `Content-Encoding` entry `x` -/
def okKey (x : Option (Str × Str)) (k : Str) : Prop := x.isSome = true ∨ k ≠ ceKey

/-- no compressor, and the first `Content-Encoding` entry is `x` -/
def Inv (x : Option (Str × Str)) (r : Rec) : Prop := r.comp = none ∧ CeIs x r

theorem Inv.stable (x : Option (Str × Str)) : Stable (fun r _ => Inv x r) (okKey x) := by
  refine ⟨?_, ?_, ?_⟩
  · intro r _ b h
    exact ⟨by rw [baseWrite_none h.1]; simpa using h.1, h.2.baseWrite b⟩
  · intro r _ c h
    exact ⟨by unfold baseWriteHeader; simpa using h.1, h.2.lockStatus c⟩
  · intro r _ k v hk h
    exact ⟨h.1, h.2.addHeader k v hk⟩

theorem ScriptOk.of_all {ok : Str → Prop} (h : ∀ k, ok k) (acts : List Act) : ScriptOk ok acts :=
  fun k _ _ => h k

theorem scriptOk_of {x : Option (Str × Str)} {acts : List Act} (h : x.isSome = true ∨ scriptCE acts = false) :
    ScriptOk (okKey x) acts := by
  intro k v hm
  rcases h with h | h
  · exact Or.inl h
  · refine Or.inr (fun hk => ?_)
    unfold scriptCE at h
    rw [List.any_eq_false] at h
    exact h _ hm (decide_eq_true hk)

theorem filterOk_of {x : Option (Str × Str)} {f : Filter} (h : x.isSome = true ∨ filterCE f = false) :
    FilterOk (okKey x) f := by
  rcases h with h | h
  · exact ⟨scriptOk_of (Or.inl h), scriptOk_of (Or.inl h)⟩
  · unfold filterCE at h
    rw [Bool.or_eq_false_iff] at h
    exact ⟨scriptOk_of (Or.inr h.1), scriptOk_of (Or.inr h.2)⟩

/-- every script of the configuration only adds allowed headers -/
structure CfgOk (ok : Str → Prop) (cfg : Cfg) : Prop where
  cfilters : ∀ f ∈ cfg.cfilters, FilterOk ok f
  svcs : ∀ sv ∈ cfg.svcs, ∀ f ∈ sv.filters, FilterOk ok f
  routes : ∀ r ∈ cfg.routes, (∀ f ∈ r.filters, FilterOk ok f) ∧ ScriptOk ok r.script
  recover : ∀ sc, cfg.recoverScript = some sc → ScriptOk ok sc
  plain : ScriptOk ok cfg.plainScript

theorem cfgOk_of {x : Option (Str × Str)} {cfg : Cfg} (h : x.isSome = true ∨ userCE cfg = false) :
    CfgOk (okKey x) cfg := by
  rcases h with h | h
  · have hs : ∀ acts, ScriptOk (okKey x) acts := fun acts => scriptOk_of (Or.inl h)
    have hf : ∀ f, FilterOk (okKey x) f := fun f => ⟨hs _, hs _⟩
    exact ⟨fun f _ => hf f, fun _ _ f _ => hf f, fun r _ => ⟨fun f _ => hf f, hs _⟩, fun sc _ => hs sc, hs _⟩
  · unfold userCE at h
    simp only [Bool.or_eq_false_iff, List.any_eq_false, Bool.not_eq_true] at h
    obtain ⟨⟨⟨⟨h1, h2⟩, h3⟩, h4⟩, h5⟩ := h
    refine ⟨fun f hf => filterOk_of (Or.inr (h1 f hf)), fun sv hsv f hf => filterOk_of (Or.inr (h2 sv hsv f hf)),
      fun r hr => ⟨fun f hf => filterOk_of (Or.inr ((h3 r hr).1 f hf)), scriptOk_of (Or.inr (h3 r hr).2)⟩,
      ?_, scriptOk_of (Or.inr h5)⟩
    intro sc hsc
    rw [hsc] at h4
    exact scriptOk_of (Or.inr h4)

theorem cfgOk_noCoding {ok : Str → Prop} {cfg : Cfg} (h : CfgOk ok cfg) : CfgOk ok (Spec.noCoding cfg) := by
  refine ⟨h.cfilters, h.svcs, ?_, h.recover, h.plain⟩
  intro r hr
  obtain ⟨r', hr', rfl⟩ := List.mem_map.mp hr
  exact h.routes r' hr'

theorem mem_label {mk : Nat → Stage} {fs : List Filter} {sf : Stage × Filter} (h : sf ∈ label mk fs) :
    sf.2 ∈ fs := by
  obtain ⟨f, hf, rfl⟩ := List.mem_map.mp h
  exact hf

theorem chainOk_allFilters {ok : Str → Prop} {cfg : Cfg} (h : CfgOk ok cfg) (svc rid : Nat) :
    ChainOk ok (allFilters cfg svc rid) ⟨.handler rid, (routeX cfg rid).script⟩ := by
  have hr : (∀ f ∈ (routeX cfg rid).filters, FilterOk ok f) ∧ ScriptOk ok (routeX cfg rid).script := by
    unfold routeX
    cases hf : cfg.routes.find? (fun x => x.id == rid) with
    | none => exact ⟨fun f hf => (by cases hf), fun k v hm => (by cases hm)⟩
    | some r => exact h.routes r (List.mem_of_find?_eq_some hf)
  have hs : ∀ f ∈ (svcX cfg svc).filters, FilterOk ok f := by
    unfold svcX
    cases hf : cfg.svcs.find? (fun x => x.id == svc) with
    | none => exact fun f hf => (by cases hf)
    | some sv => exact h.svcs sv (List.mem_of_find?_eq_some hf)
  refine ⟨?_, hr.2⟩
  intro sf hsf
  unfold allFilters at hsf
  rcases List.mem_append.mp hsf with hsf | hsf
  · rcases List.mem_append.mp hsf with hsf | hsf
    · exact h.cfilters _ (mem_label hsf)
    · exact hs _ (mem_label hsf)
  · exact hr.1 _ (mem_label hsf)

theorem chainOk_cfilters {ok : Str → Prop} {cfg : Cfg} (h : CfgOk ok cfg) {t : Target} (ht : ScriptOk ok t.script) :
    ChainOk ok (label .cfilter cfg.cfilters) t :=
  ⟨fun _ hsf => h.cfilters _ (mem_label hsf), ht⟩

theorem allow_ne_ce : "Allow".toList ≠ ceKey := by
  show "Allow".toList ≠ "Content-Encoding".toList
  simp

theorem scriptOk_errorScript (x : Option (Str × Str)) (code : Nat) (allow : Option (List Str)) (msg : Str) :
    ScriptOk (okKey x) (errorScript code allow msg) := by
  intro k v hm
  unfold errorScript at hm
  cases allow with
  | none => simp at hm
  | some al =>
    simp only [List.cons_append, List.nil_append, List.mem_cons, Act.addHeader.injEq, reduceCtorEq,
      List.not_mem_nil, or_false] at hm
    rw [hm.1]
    exact Or.inr allow_ne_ce

section inv
variable {x : Option (Str × Str)}

theorem runStage_inv (st : Stage) (post : Bool) {acts : List Act} (cx : Ctx) {s : St}
    (hok : ScriptOk (okKey x) acts) (h : Inv x s.rc) : Inv x (runStage st post acts cx s).2.1.rc :=
  (runStage_rel (Inv.stable x) st post acts cx (s₁ := s) (s₂ := s) hok h).2.1

theorem runChain_inv {fs : List (Stage × Filter)} {t : Target} (cx : Ctx) {s : St}
    (hok : ChainOk (okKey x) fs t) (h : Inv x s.rc) : Inv x (runChain fs t cx s).2.1.rc :=
  (runChain_rel (Inv.stable x) fs t cx (s₁ := s) (s₂ := s) hok h).2.1

theorem runRecover_inv {cfg : Cfg} (hc : CfgOk (okKey x) cfg) {s : St} (h : Inv x s.rc) :
    Inv x (runRecover cfg s).rc := by
  unfold runRecover
  split
  · rename_i sc hsc
    exact runStage_inv _ _ _ (hc.recover sc hsc) h
  · exact (Inv.stable x).write (r₂ := s.rc) _ ((Inv.stable x).writeHeader (r₂ := s.rc) 500 h)

theorem finishDispatch_inv {cfg : Cfg} (hc : CfgOk (okKey x) cfg) (p : Option Str) {s : St} (h : Inv x s.rc) :
    Inv x (finishDispatch cfg s p).1.rc := by
  unfold finishDispatch
  cases p with
  | none => rw [closeComp_none h.1]; exact h
  | some v =>
    simp only
    split
    · have := runRecover_inv hc h
      rw [closeComp_none this.1]; exact this
    · rw [closeComp_none h.1]; exact h

theorem dispatch_inv (E : ReEnv) {cfg : Cfg} (hc : CfgOk (okKey x) cfg) (sr : SReq) {s : St} (h : Inv x s.rc) :
    Inv x (dispatch E cfg (plainReq sr) s).1.rc := by
  unfold dispatch
  simp only [maybeInstall_nil]
  split
  · exact finishDispatch_inv hc _ h
  · split
    · exact finishDispatch_inv hc _ h
    · exact finishDispatch_inv hc _ (runChain_inv _ (chainOk_cfilters hc (scriptOk_errorScript x _ _ _)) h)
    · exact finishDispatch_inv hc _ (runChain_inv _ (chainOk_allFilters hc _ _) h)

theorem plainBody_inv {cfg : Cfg} (hc : CfgOk (okKey x) cfg) {s : St} (h : Inv x s.rc) :
    Inv x (plainBody cfg s).1.rc :=
  runStage_inv _ _ _ hc.plain h

theorem plainFilteredBody_inv {cfg : Cfg} (hc : CfgOk (okKey x) cfg) {s : St} (h : Inv x s.rc) :
    Inv x (plainFilteredBody cfg s).1.rc := by
  unfold plainFilteredBody
  split
  · exact plainBody_inv hc h
  · have hi := runChain_inv (fs := label .cfilter cfg.cfilters) (t := ⟨.plain 0, cfg.plainScript⟩) {}
      (chainOk_cfilters hc hc.plain) h
    generalize runChain (label .cfilter cfg.cfilters) ⟨.plain 0, cfg.plainScript⟩ {} s = Q at hi ⊢
    obtain ⟨cx1, s1, p⟩ := Q
    cases p with
    | none => exact hi
    | some v =>
      simp only
      split
      · exact runRecover_inv hc hi
      · exact hi

theorem handleWrapper_inv (cfg : Cfg) (sr : SReq) {b : St → St × Option Str × Nat}
    (hb : ∀ {s : St}, Inv x s.rc → Inv x (b s).1.rc) {s : St} (h : Inv x s.rc) :
    Inv x (handleWrapper cfg (plainReq sr) s b).1.rc := by
  unfold handleWrapper
  rw [h.1]
  simp only [maybeInstall_nil]
  have := hb h
  show Inv x (closeComp (b s).1).rc
  rw [closeComp_none this.1]; exact this

theorem serveWrapper_inv (cfg : Cfg) (sr : SReq) {i : St → St × Option Str × Nat}
    (hi : ∀ {s : St}, Inv x s.rc → Inv x (i s).1.rc) {s : St} (h : Inv x s.rc) :
    Inv x (serveWrapper cfg (plainReq sr) s i).1.rc := by
  unfold serveWrapper
  simp only [wants_nil]
  have := hi h
  split
  · exact this
  · show Inv x (closeComp (i s).1).rc
    rw [closeComp_none this.1]; exact this

theorem initial_inv (sr : SReq) : Inv (arrived sr) (initial sr).rc := by
  refine ⟨rfl, ?_, fun h hh => by cases hh⟩
  unfold arrived initial
  cases sr.priorEncoding with
  | nil => rfl
  | cons a as =>
    have hf : isCE (ceKey, a :: as) = true := decide_eq_true rfl
    simp only [List.isEmpty_cons, Bool.false_eq_true, if_false, List.find?_cons, hf]

theorem serveCore_inv (E : ReEnv) {cfg : Cfg} (e : Entry) (sr : SReq) (hc : CfgOk (okKey (arrived sr)) cfg) :
    Inv (arrived sr) (serveCore E cfg e (plainReq sr)).1.rc := by
  have h0 : Inv (arrived sr) (initial (plainReq sr)).rc := initial_inv sr
  cases e with
  | dispatch => exact dispatch_inv E hc sr h0
  | serveDispatch => exact serveWrapper_inv cfg sr (fun h => dispatch_inv E hc sr h) h0
  | muxHandle => exact handleWrapper_inv cfg sr (plainBody_inv hc) h0
  | serveHandle => exact serveWrapper_inv cfg sr (fun h => handleWrapper_inv cfg sr (plainBody_inv hc) h) h0
  | muxHandleF => exact handleWrapper_inv cfg sr (plainFilteredBody_inv hc) h0
  | serveHandleF =>
    exact serveWrapper_inv cfg sr (fun h => handleWrapper_inv cfg sr (plainFilteredBody_inv hc) h) h0

end inv

theorem arrived_value (sr : SReq) : ((arrived sr).map (·.2)).getD [] = sr.priorEncoding := by
  unfold arrived
  cases h : sr.priorEncoding <;> rfl

theorem arrived_isSome (sr : SReq) : (arrived sr).isSome = !sr.priorEncoding.isEmpty := by
  unfold arrived
  cases h : sr.priorEncoding <;> rfl

/-- without codings the response leaves with the `Content-Encoding` it arrived with, provided the
    writer carried one or no user code sets one -/
theorem plain_ce (E : ReEnv) (cfg : Cfg) (e : Entry) (w : World) (sr : SReq)
    (h : sr.priorEncoding.isEmpty = false ∨ userCE cfg = false) :
    ceOf (serve E (Spec.noCoding cfg) e w (plainReq sr)).rc = sr.priorEncoding := by
  have hc : CfgOk (okKey (arrived sr)) (Spec.noCoding cfg) := by
    refine cfgOk_noCoding (cfgOk_of ?_)
    rcases h with h | h
    · left; rw [arrived_isSome, h]; rfl
    · exact Or.inr h
  rw [serve_rc, (serveCore_inv E e sr hc).2.ceOf, arrived_value]

/-- the same for the run under scrutiny when it is not encoded -/
theorem uncoded_ce {E : ReEnv} {cfg : Cfg} {e : Entry} {w : World} {sr : SReq}
    (h : sr.priorEncoding.isEmpty = false ∨ userCE cfg = false)
    (hc : (serve E cfg e w sr).rc.comp = none) :
    ceOf (serve E cfg e w sr).rc = sr.priorEncoding := by
  rw [uncoded_facts {} hc]; exact plain_ce E cfg e {} sr h

end Serve.Enc
end Restful
