/-
C03, part 3: how the stages of route selection behave under a permutation of their input list:
`Curly.candidates` (a filterMap-like loop), the `allowedLoop`, the filter stages of `detectRoute`.
-/
import Restful.Spec.Order
import Restful.Lemmas.OrderSort
import Restful.Lemmas.CurlySelect
import Restful.Lemmas.Detect
namespace Restful
open Str

/-! ### lists -/

/-- in a list that is pairwise `R`, two members not related either way are the same -/
theorem pairwise_eq_of_not {α : Type} {R : α → α → Prop} : ∀ {l : List α}, l.Pairwise R →
    ∀ {a b : α}, a ∈ l → b ∈ l → ¬ R a b → ¬ R b a → a = b
  | [], _, _, _, ha, _, _, _ => by simp at ha
  | x :: xs, h, a, b, ha, hb, n1, n2 => by
    rw [List.pairwise_cons] at h
    simp only [List.mem_cons] at ha hb
    rcases ha with rfl | ha
    · rcases hb with rfl | hb
      · rfl
      · exact absurd (h.1 b hb) n1
    · rcases hb with rfl | hb
      · exact absurd (h.1 a ha) n2
      · exact pairwise_eq_of_not h.2 ha hb n1 n2

/-- the head of `filter P (map f L)` comes from an element of `L` before which nothing passes `P` -/
theorem filter_map_head {α β : Type} (f : α → β) (P : β → Bool) : ∀ (L : List α) {r : β} {rest : List β},
    (L.map f).filter P = r :: rest →
    ∃ l1 c l2, L = l1 ++ c :: l2 ∧ f c = r ∧ ∀ x ∈ l1, P (f x) = false
  | [], _, _, h => by simp at h
  | x :: xs, r, rest, h => by
    rw [List.map_cons, List.filter_cons] at h
    split at h
    · simp only [List.cons.injEq] at h
      exact ⟨[], x, xs, rfl, h.1, by simp⟩
    · rename_i hx
      obtain ⟨l1, c, l2, e, hc, hl⟩ := filter_map_head f P xs h
      refine ⟨x :: l1, c, l2, by simp [e], hc, ?_⟩
      intro y hy
      simp only [List.mem_cons] at hy
      rcases hy with rfl | hy
      · simpa using hx
      · exact hl y hy

theorem Spec.Forall2.left {α β : Type} {R : α → β → Prop} : ∀ {as : List α} {bs : List β},
    Spec.Forall2 R as bs → ∀ a ∈ as, ∃ b ∈ bs, R a b
  | _, _, .nil, a, ha => by simp at ha
  | _, _, .cons h t, a, ha => by
    simp only [List.mem_cons] at ha
    rcases ha with rfl | ha
    · exact ⟨_, List.mem_cons_self, h⟩
    · obtain ⟨b, hb, hr⟩ := Spec.Forall2.left t a ha
      exact ⟨b, List.mem_cons_of_mem _ hb, hr⟩

theorem Spec.Forall2.right {α β : Type} {R : α → β → Prop} : ∀ {as : List α} {bs : List β},
    Spec.Forall2 R as bs → ∀ b ∈ bs, ∃ a ∈ as, R a b
  | _, _, .nil, b, hb => by simp at hb
  | _, _, .cons h t, b, hb => by
    simp only [List.mem_cons] at hb
    rcases hb with rfl | hb
    · exact ⟨_, List.mem_cons_self, h⟩
    · obtain ⟨a, ha, hr⟩ := Spec.Forall2.right t b hb
      exact ⟨a, List.mem_cons_of_mem _ ha, hr⟩

/-! ### the candidate loop is a `filterMap` guarded by "no route panics" -/
namespace Curly
variable (E : ReEnv)

def candOf (qs : List Str) (r : Route) : Option Cand :=
  match matchTokens E r.pathParts qs r.hasCustomVerb with
  | .yes p s => some ⟨r, p, s⟩
  | _ => none

def panics (qs : List Str) (r : Route) : Bool :=
  match matchTokens E r.pathParts qs r.hasCustomVerb with
  | .panic => true
  | _ => false

theorem candidates_eq (qs : List Str) : ∀ (routes : List Route),
    candidates E routes qs = if routes.any (panics E qs) then none else some (routes.filterMap (candOf E qs))
  | [] => by simp [candidates]
  | r :: rs => by
    rw [candidates, candidates_eq qs rs, List.any_cons, List.filterMap_cons]
    unfold panics candOf
    split <;> rename_i hm
    · simp [hm]
    · simp only [hm, Bool.false_or]
    · simp only [hm, Bool.false_or]
      split <;> simp

theorem candOf_some {qs : List Str} {r : Route} {c : Cand} (h : candOf E qs r = some c) :
    c.route = r ∧ matchTokens E r.pathParts qs r.hasCustomVerb = .yes c.paramCount c.staticCount := by
  unfold candOf at h
  split at h
  · rename_i p s hm
    simp only [Option.some.injEq] at h
    subst h
    exact ⟨rfl, hm⟩
  · simp at h

/-- every route that matches is among the candidates -/
theorem candidates_complete {routes : List Route} {qs : List Str} {cs : List Cand}
    (h : candidates E routes qs = some cs) {r : Route} (hr : r ∈ routes) {p s : Nat}
    (hm : matchTokens E r.pathParts qs r.hasCustomVerb = .yes p s) : (⟨r, p, s⟩ : Cand) ∈ cs := by
  rw [candidates_eq] at h
  split at h
  · simp at h
  · simp only [Option.some.injEq] at h
    subst h
    rw [List.mem_filterMap]
    exact ⟨r, hr, by simp [candOf, hm]⟩

/-- a candidate is determined by its route -/
theorem cand_ext_of_mem {routes : List Route} {qs : List Str} {cs cs' : List Cand} {routes' : List Route}
    (h : candidates E routes qs = some cs) (h' : candidates E routes' qs = some cs')
    {a b : Cand} (ha : a ∈ cs) (hb : b ∈ cs') (hr : a.route = b.route) : a = b := by
  have h1 := (candidates_mem E h a ha).2
  have h2 := (candidates_mem E h' b hb).2
  rw [hr, h2] at h1
  simp only [MatchResult.yes.injEq] at h1
  cases a; cases b
  simp_all

/-- permuting the routes permutes the candidates (and a panic stays a panic) -/
theorem candidates_perm {routes routes' : List Route} (hp : routes.Perm routes') (qs : List Str) :
    match candidates E routes qs, candidates E routes' qs with
    | none, none => True
    | some cs, some cs' => cs.Perm cs'
    | _, _ => False := by
  have hany : routes.any (panics E qs) = routes'.any (panics E qs) := by
    rw [Bool.eq_iff_iff, List.any_eq_true, List.any_eq_true]
    constructor
    · rintro ⟨x, hx, h⟩; exact ⟨x, hp.mem_iff.mp hx, h⟩
    · rintro ⟨x, hx, h⟩; exact ⟨x, hp.mem_iff.mpr hx, h⟩
  rw [candidates_eq, candidates_eq, ← hany]
  by_cases h : routes.any (panics E qs) = true
  · simp [h]
  · simp only [h]
    exact hp.filterMap _

end Curly

/-! ### `detectRoute` under a permutation -/

theorem mem_allowedMethods (m : Str) : ∀ (l : List Route) (acc : List Str),
    m ∈ allowedMethods l acc ↔ m ∈ acc ∨ ∃ r ∈ l, r.method = m
  | [], acc => by simp [allowedMethods]
  | r :: rs, acc => by
    rw [allowedMethods]
    split
    · rename_i hc
      rw [mem_allowedMethods m rs acc]
      have hc' : r.method ∈ acc := by simpa using hc
      constructor
      · rintro (h | ⟨x, hx, hxm⟩)
        · exact Or.inl h
        · exact Or.inr ⟨x, List.mem_cons_of_mem _ hx, hxm⟩
      · rintro (h | ⟨x, hx, hxm⟩)
        · exact Or.inl h
        · simp only [List.mem_cons] at hx
          rcases hx with rfl | hx
          · exact Or.inl (hxm ▸ hc')
          · exact Or.inr ⟨x, hx, hxm⟩
    · rw [mem_allowedMethods m rs (r.method :: acc)]
      simp only [List.mem_cons]
      constructor
      · rintro ((h | h) | ⟨x, hx, hxm⟩)
        · exact Or.inr ⟨r, Or.inl rfl, h.symm⟩
        · exact Or.inl h
        · exact Or.inr ⟨x, Or.inr hx, hxm⟩
      · rintro (h | ⟨x, hx, hxm⟩)
        · exact Or.inl (Or.inr h)
        · rcases hx with rfl | hx
          · exact Or.inl (Or.inl hxm.symm)
          · exact Or.inr ⟨x, hx, hxm⟩

/-- the routes that survive all four stages of `detectRoute`, in order -/
def stage4 (l : List Route) (req : Req) : List Route :=
  (((l.filter (passesConds · req)).filter (fun r => req.method = r.method)).filter
    (matchesContentType · req.contentType)).filter
    (matchesAccept · (if req.accept.isEmpty then starStar else req.accept))

theorem stage4_eq_filter (l : List Route) (req : Req) : stage4 l req = l.filter (Spec.eligible · req) := by
  unfold stage4
  rw [List.filter_filter, List.filter_filter, List.filter_filter]
  apply List.filter_congr
  intro r _
  unfold Spec.eligible
  cases passesConds r req <;> cases decide (req.method = r.method) <;>
    cases matchesContentType r req.contentType <;> simp

/-- what `sameOutcome` asks of two `detectRoute` results -/
def detectRel (a b : Except (Nat × Option (List Str)) Route) : Prop :=
  match a, b with
  | .ok r, .ok r' => r = r'
  | .error (c, some al), .error (c', some al') => c = c' ∧ ∀ m, m ∈ al ↔ m ∈ al'
  | .error (c, none), .error (c', none) => c = c'
  | _, _ => False

/-- `detectRoute` on two permutations of a list whose eligible routes come in the same order -/
theorem detectRoute_perm {l l' : List Route} (hp : l.Perm l') (req : Req)
    (h4 : stage4 l req = stage4 l' req) : detectRel (detectRoute l req) (detectRoute l' req) := by
  have p1 := hp.filter (passesConds · req)
  have p2 := p1.filter (fun r => decide (req.method = r.method))
  have p3 := p2.filter (matchesContentType · req.contentType)
  have e1 := p1.isEmpty_eq
  have e2 := p2.isEmpty_eq
  have e3 := p3.isEmpty_eq
  unfold stage4 at h4
  unfold detectRoute
  simp only
  rw [← e1, ← e2, ← e3, ← h4]
  split
  · simp [detectRel]
  split
  · simp only [detectRel, true_and]
    intro m
    rw [mem_allowedMethods, mem_allowedMethods]
    simp only [List.not_mem_nil, false_or]
    constructor
    · rintro ⟨x, hx, h⟩; exact ⟨x, p1.mem_iff.mp hx, h⟩
    · rintro ⟨x, hx, h⟩; exact ⟨x, p1.mem_iff.mpr hx, h⟩
  split
  · simp [detectRel]
  split
  · split <;> simp [detectRel]
  · simp [detectRel]

end Restful
