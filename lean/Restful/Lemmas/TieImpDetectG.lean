/-
`RouterJSR311.detectRoute` against the model for ANY image `g` of the model's routes that agrees with
`genRoute req` on the fields the function reads (the proof of `detect_route` with `genRoute req`
abstracted; `detect_route` is the instance `g := genRoute req`). RouterJSR311 hands over routes that
carry their compiled path expression, which `genRoute` does not.
-/
import Restful.Lemmas.TieImpDetect
namespace Restful
namespace TieImp
open Imp

/-- the fields `detectRoute` reads -/
structure ReadsAs (req : Req) (g : Route → ImpGen.GoRoute) : Prop where
  method : ∀ r, (g r).Method = r.method
  produces : ∀ r, (g r).Produces = r.produces
  consumes : ∀ r, (g r).Consumes = r.consumes
  conds : ∀ r, (g r).If = r.conds.map (fun i _ => req.conds.getD i false)
  noct : ∀ r, (g r).allowedMethodsWithoutContentType = r.noct

theorem readsAs_genRoute (req : Req) : ReadsAs req (genRoute req) := ⟨fun _ => rfl, fun _ => rfl, fun _ => rfl, fun _ => rfl, fun _ => rfl⟩

/-- `ofDetect` with the image of the selected route abstracted -/
def ofDetectG (g : Route → ImpGen.GoRoute) : Except (Nat × Option (List Str)) Route → Option ImpGen.GoRoute × Option (Int × List (Str × List Str))
  | .ok r => (some (g r), none)
  | .error (c, allow) =>
    (none, some (((c : Nat) : Int),
      match allow with
      | some ms => [("Allow".toList, [Str.join ", ".toList ms])]
      | none => []))

theorem detect_route_g (X : ImpGen.Ext) (req : Req) (g : Route → ImpGen.GoRoute) (hg : ReadsAs req g) (routes : List Route) :
    (ImpGen.RouterJSR311_detectRoute X (routes.map g) (genReq req)).map (fun p => (p.1, errView p.2))
      = some (ofDetectG g (detectRoute routes req)) := by
  have hCT : (genReq req).header "Content-Type".toList = req.contentType := by
    rw [T7.header_eq, if_pos rfl]
  have hAc : (genReq req).header "Accept".toList = req.accept := by
    rw [T7.header_eq, if_neg (by decide), if_pos rfl]
  have hmc : ∀ r ct, ImpGen.Route_matchesContentType X ct (g r).Consumes (g r).Method
      (g r).allowedMethodsWithoutContentType = some (matchesContentType r ct) :=
    fun r ct => by rw [hg.consumes, hg.method, hg.noct]; exact T5.matches_content_type X r ct
  have hma : ∀ r a, ImpGen.Route_matchesAccept X a (g r).Produces = some (matchesAccept r a) :=
    fun r a => by rw [hg.produces]; exact T5.matches_accept X r a
  have hme : ∀ r, ((genReq req).method == (g r).Method) = decide (req.method = r.method) := by
    intro r; rw [hg.method]; show (req.method == r.method) = decide _
    by_cases h : req.method = r.method <;> simp [h]
  unfold ImpGen.RouterJSR311_detectRoute
  unfold_gen_helpers keeping ImpGen.Route_matchesContentType ImpGen.Route_matchesAccept
  dsimp only
  rw [T7.enum_filter_loop g (passesConds · req)]
  case hf =>
    intro k r acc hk
    dsimp only
    have hp : (g r).If.all (fun fn => fn (genReq req)) = passesConds r req := by
      rw [hg.conds]; simp only [passesConds, List.all_map]; rfl
    -- the If-conditions: all of them must hold (a flag and `break`, or a helper returning early)
    rw [T7.all_loop_gen (fun (fn : HttpRequest → Bool) => fn (genReq req))]
    case hf =>
      intro fn
      cases fn (genReq req) <;> rfl
    simp only [hp, at?_nat, List.getElem?_map, hk, Option.map_some, Option.bind_eq_bind, Option.bind_some]
    cases passesConds r req <;> rfl
  simp only [Option.bind_eq_bind, Option.bind_some]
  rw [T7.filter_loop (fun r => some (g r)) (fun r => decide (req.method = r.method))]
  case hf =>
    intro r acc
    simp only [deref, Option.bind_some, hme]
    cases decide (req.method = r.method) <;> rfl
  simp only [Option.bind_some, List.nil_append]
  rw [T7.allowed_loop0 (fun r => some (g r))]
  case hf =>
    intro r acc
    have hM : (g r).Method = r.method := hg.method r
    simp only [deref, Option.bind_some, hM]
    -- "the method is listed already": a flag set in an inner loop, in whatever form the body sets it
    rw [T7.any_loop_gen (fun m => m == r.method)]
    case hf =>
      intro m
      cases (m == r.method) <;> rfl
    simp only [List.any_beq', Option.bind_some]
    cases acc.contains r.method <;> rfl
  rw [T7.filter_loop (fun r => some (g r)) (matchesContentType · req.contentType)]
  case hf =>
    intro r acc
    simp only [deref, Option.bind_some, hCT, hmc]
    cases matchesContentType r req.contentType <;> rfl
  simp only [Option.bind_some, List.nil_append, hAc, T5.len_beq_zero, List.isEmpty_map]
  unfold detectRoute
  dsimp only
  generalize routes.filter (fun x => passesConds x req) = c1
  generalize c1.filter (fun r => decide (req.method = r.method)) = c2
  generalize c2.filter (fun x => matchesContentType x req.contentType) = c3
  have hcl : (genReq req).contentLength = req.contentLength := rfl
  have hm : (genReq req).method = req.method := rfl
  have hss : "*/*".toList = starStar := rfl
  simp only [hcl, hm, hss]
  have hne : (req.contentLength != 0) = decide (req.contentLength ≠ 0) := by
    by_cases h : req.contentLength = 0 <;> simp [h]
  have hb : (bodylessMethods.contains req.method && decide (req.contentLength = 0)) =
      ((req.method == "POST".toList || req.method == "PUT".toList || req.method == "PATCH".toList) &&
        req.contentLength == 0) := by
    simp only [bodylessMethods, List.map_cons, List.map_nil, List.contains_cons, List.contains_nil,
      Bool.or_false, Bool.or_assoc]
    rfl
  cases ha : req.accept.isEmpty <;> simp only [if_true, Bool.false_eq_true, if_false]
  case' false => generalize req.accept = a
  case' true => generalize starStar = a
  all_goals
    rw [T7.filter_loop (fun r => some (g r)) (matchesAccept · a)]
    case hf =>
      intro r acc
      simp only [deref, Option.bind_some, hma]
      cases matchesAccept r a <;> rfl
    simp only [Option.bind_some, List.nil_append, List.isEmpty_map,
      apply_ite (Option.map (fun (p : Option ImpGen.GoRoute × GoErr) => (p.1, errView p.2)))]
    generalize c3.filter (fun x => matchesAccept x a) = c4
    rw [T7.total_loop_map (fun r => some (g r)) _ c3 [] _
      (fun (p : Option ImpGen.GoRoute × GoErr) => (p.1, errView p.2))
      (some (none, some (if (bodylessMethods.contains req.method && decide (req.contentLength = 0)) = true
        then (415, []) else (406, []))))]
    case hf => intro r acc; exact ⟨_, rfl⟩
    case hk =>
      intro res
      rw [hb]
      cases ((req.method == "POST".toList || req.method == "PUT".toList || req.method == "PATCH".toList) &&
        req.contentLength == 0) <;> rfl
    rw [hne]
    generalize (bodylessMethods.contains req.method && decide (req.contentLength = 0)) = bb
    generalize decide (req.contentLength ≠ 0) = nz
    generalize c1.isEmpty = e1
    generalize c2.isEmpty = e2
    generalize c3.isEmpty = e3
    cases e1 <;> cases e2 <;> cases e3 <;> cases nz <;> cases c4 <;> cases bb <;> rfl


end TieImp
end Restful
#print axioms Restful.TieImp.detect_route_g
