/-
Lock discipline ⇒ no two conflicting accesses are ever simultaneously enabled;
acyclic lock order ⇒ no deadlock.

Interleaving semantics of threads that acquire/release reader-writer locks (`sync.RWMutex`) and
read/write shared variables.  No bound on the number of threads, the length of their programs or
the number of locks and variables.

Self-contained: core library only.
-/
namespace Restful.Lockset

inductive Mode | R | W
  deriving DecidableEq, Repr

inductive Action
  | acq (l : Nat) (m : Mode)
  | rel (l : Nat) (m : Mode)
  | read (x : Nat)
  | write (x : Nat)
  | other
  deriving DecidableEq, Repr

/-- what a thread still has to do -/
abbrev Prog := List Action

/-- `writer`: the thread holding the lock exclusively; `readers`: the threads holding it shared
    (with multiplicity) -/
structure LockSt where
  writer : Option Nat
  readers : List Nat

/-- thread id = index in `threads` -/
structure State where
  threads : List Prog
  locks : Nat → LockSt

/-! ### semantics -/

def upd {α : Type} (f : Nat → α) (i : Nat) (v : α) : Nat → α := fun j => if j = i then v else f j

@[simp] theorem upd_same {α : Type} (f : Nat → α) (i : Nat) (v : α) : upd f i v i = v := by
  simp [upd]

@[simp] theorem upd_ne {α : Type} (f : Nat → α) {i j : Nat} (v : α) (h : j ≠ i) :
    upd f i v j = f j := by
  simp [upd, h]

/-- `Lock()` succeeds iff nobody holds the lock; `RLock()` iff no writer holds it.
    (Go additionally lets a *pending* `Lock()` hold back new `RLock()`s.  That is a fairness device:
    it removes behaviours, so every safety statement proved here is unaffected.  For deadlocks see
    the remark at `no_deadlock`.) -/
def canAcq (ls : LockSt) : Mode → Bool
  | .W => ls.writer.isNone && ls.readers.isEmpty
  | .R => ls.writer.isNone

def doAcq (ls : LockSt) (t : Nat) : Mode → LockSt
  | .W => ⟨some t, ls.readers⟩
  | .R => ⟨ls.writer, t :: ls.readers⟩

/-- a thread can release only what it holds -/
def canRel (ls : LockSt) (t : Nat) : Mode → Bool
  | .W => decide (ls.writer = some t)
  | .R => decide (t ∈ ls.readers)

def doRel (ls : LockSt) (t : Nat) : Mode → LockSt
  | .W => ⟨none, ls.readers⟩
  | .R => ⟨ls.writer, ls.readers.erase t⟩

def enabled (locks : Nat → LockSt) (t : Nat) : Action → Bool
  | .acq l m => canAcq (locks l) m
  | .rel l m => canRel (locks l) t m
  | _ => true

def effect (locks : Nat → LockSt) (t : Nat) : Action → (Nat → LockSt)
  | .acq l m => upd locks l (doAcq (locks l) t m)
  | .rel l m => upd locks l (doRel (locks l) t m)
  | _ => locks

/-- thread `t` executes its next action, if it has one and it is enabled -/
def step (σ : State) (t : Nat) : Option State :=
  match σ.threads[t]? with
  | some (a :: rest) =>
    if enabled σ.locks t a then some ⟨σ.threads.set t rest, effect σ.locks t a⟩ else none
  | _ => none

def init (progs : List Prog) : State := ⟨progs, fun _ => ⟨none, []⟩⟩

inductive Reachable : State → State → Prop
  | refl (σ : State) : Reachable σ σ
  | tail {σ σ' σ'' : State} {t : Nat} : Reachable σ σ' → step σ' t = some σ'' → Reachable σ σ''

/-- the next action of thread `t` is `a` -/
def nextIs (σ : State) (t : Nat) (a : Action) : Prop := ∃ rest, σ.threads[t]? = some (a :: rest)

inductive Kind | read | write
  deriving DecidableEq, Repr

def access (x : Nat) : Kind → Action
  | .read => .read x
  | .write => .write x

/-! ### the discipline -/

/-- the locks a thread holds, as a multiset -/
abbrev Held := List (Nat × Mode)

/-- held-set after an action -/
def after (held : Held) : Action → Held
  | .acq l m => (l, m) :: held
  | .rel l m => held.erase (l, m)
  | _ => held

/-- is action `a` allowed while holding `held`? -/
def okNow (guard : Nat → Nat) (held : Held) : Action → Bool
  | .acq l _ => !decide ((l, Mode.R) ∈ held) && !decide ((l, Mode.W) ∈ held)   -- no re-entrancy
  | .rel l m => decide ((l, m) ∈ held)
  | .read x => decide ((guard x, Mode.R) ∈ held) || decide ((guard x, Mode.W) ∈ held)
  | .write x => decide ((guard x, Mode.W) ∈ held)
  | .other => true

/-- every read of `x` happens while `guard x` is held (shared or exclusively), every write while it
    is held exclusively, only held locks are released, no lock is re-acquired while held, and the
    program ends holding nothing -/
def Disciplined (guard : Nat → Nat) : Held → Prog → Bool
  | held, [] => held.isEmpty
  | held, a :: p => okNow guard held a && Disciplined guard (after held a) p

def ordNow (rank : Nat → Nat) (held : Held) : Action → Bool
  | .acq l _ => held.all (fun h => decide (rank h.1 < rank l))
  | _ => true

/-- every acquisition of `l` happens while all held locks have rank strictly below `rank l` -/
def Ordered (rank : Nat → Nat) : Held → Prog → Bool
  | _, [] => true
  | held, a :: p => ordNow rank held a && Ordered rank (after held a) p

theorem Disciplined_cons {guard : Nat → Nat} {held : Held} {a : Action} {p : Prog}
    (h : Disciplined guard held (a :: p) = true) :
    okNow guard held a = true ∧ Disciplined guard (after held a) p = true := by
  simpa [Disciplined] using h

theorem Ordered_cons {rank : Nat → Nat} {held : Held} {a : Action} {p : Prog}
    (h : Ordered rank held (a :: p) = true) :
    ordNow rank held a = true ∧ Ordered rank (after held a) p = true := by
  simpa [Ordered] using h

/-! ### the invariant: the lock state is exactly what the threads' held-sets say -/

/-- lock `l` in state `ls` agrees with the held-sets `H` -/
structure LockOK (ls : LockSt) (l : Nat) (H : Nat → Held) : Prop where
  wr1 : ∀ t, ls.writer = some t → (H t).count (l, Mode.W) = 1
  wr0 : ∀ t, ls.writer ≠ some t → (H t).count (l, Mode.W) = 0
  rd : ∀ t, (H t).count (l, Mode.R) = ls.readers.count t
  excl : ls.writer ≠ none → ls.readers = []

theorem LockOK.frame {ls : LockSt} {l : Nat} {H H' : Nat → Held} (h : LockOK ls l H)
    (hc : ∀ t m, (H' t).count (l, m) = (H t).count (l, m)) : LockOK ls l H' :=
  ⟨fun t ht => by rw [hc]; exact h.wr1 t ht, fun t ht => by rw [hc]; exact h.wr0 t ht,
    fun t => by rw [hc]; exact h.rd t, h.excl⟩

theorem LockOK.mem_W {ls : LockSt} {l : Nat} {H : Nat → Held} (h : LockOK ls l H) (t : Nat) :
    (l, Mode.W) ∈ H t ↔ ls.writer = some t := by
  rw [← List.count_pos_iff]
  constructor
  · intro hpos
    apply Classical.byContradiction
    intro hne
    have := h.wr0 t hne
    omega
  · intro hw
    have := h.wr1 t hw
    omega

theorem LockOK.mem_R {ls : LockSt} {l : Nat} {H : Nat → Held} (h : LockOK ls l H) (t : Nat) :
    (l, Mode.R) ∈ H t ↔ t ∈ ls.readers := by
  rw [← List.count_pos_iff, h.rd t, List.count_pos_iff]

theorem LockOK.acq {ls : LockSt} {l : Nat} {H : Nat → Held} (h : LockOK ls l H) (t : Nat)
    (m : Mode) (hen : canAcq ls m = true) :
    LockOK (doAcq ls t m) l (upd H t ((l, m) :: H t)) := by
  cases m with
  | W =>
    simp only [canAcq, Bool.and_eq_true, Option.isNone_iff_eq_none, List.isEmpty_iff] at hen
    obtain ⟨hw, hr⟩ := hen
    have hw0 : ∀ t', (H t').count (l, Mode.W) = 0 := fun t' => h.wr0 t' (by rw [hw]; simp)
    show LockOK ⟨some t, ls.readers⟩ l _
    refine ⟨?_, ?_, ?_, fun _ => hr⟩
    · intro t' ht'
      simp only [Option.some.injEq] at ht'
      subst ht'
      simp [hw0]
    · intro t' ht'
      have hne : t' ≠ t := fun e => ht' (by simp [e])
      simp [hne, hw0]
    · intro t'
      by_cases ht : t' = t
      · subst ht; simpa using h.rd t'
      · simpa [ht] using h.rd t'
  | R =>
    simp only [canAcq, Option.isNone_iff_eq_none] at hen
    show LockOK ⟨ls.writer, t :: ls.readers⟩ l _
    refine ⟨?_, ?_, ?_, fun hw => absurd hen hw⟩
    · intro t' ht'
      by_cases ht : t' = t
      · subst ht; simpa using h.wr1 t' ht'
      · simpa [ht] using h.wr1 t' ht'
    · intro t' ht'
      by_cases ht : t' = t
      · subst ht; simpa using h.wr0 t' ht'
      · simpa [ht] using h.wr0 t' ht'
    · intro t'
      by_cases ht : t' = t
      · subst ht; simpa [List.count_cons] using h.rd t'
      · have hne : ¬ (t = t') := fun e => ht e.symm
        simpa [ht, List.count_cons, hne] using h.rd t'

theorem LockOK.rel {ls : LockSt} {l : Nat} {H : Nat → Held} (h : LockOK ls l H) (t : Nat)
    (m : Mode) (hm : (l, m) ∈ H t) :
    LockOK (doRel ls t m) l (upd H t ((H t).erase (l, m))) := by
  cases m with
  | W =>
    have hw : ls.writer = some t := (h.mem_W t).mp hm
    show LockOK ⟨none, ls.readers⟩ l _
    refine ⟨fun t' ht' => (by cases ht'), ?_, ?_, fun hc => absurd rfl hc⟩
    · intro t' _
      by_cases ht : t' = t
      · subst ht
        have := h.wr1 t' hw
        simp [this]
      · have hne : ls.writer ≠ some t' := by
          rw [hw]; intro e; exact ht (Option.some.inj e).symm
        simpa [ht] using h.wr0 t' hne
    · intro t'
      by_cases ht : t' = t
      · subst ht; simpa using h.rd t'
      · simpa [ht] using h.rd t'
  | R =>
    show LockOK ⟨ls.writer, ls.readers.erase t⟩ l _
    refine ⟨?_, ?_, ?_, ?_⟩
    · intro t' ht'
      by_cases ht : t' = t
      · subst ht; simpa using h.wr1 t' ht'
      · simpa [ht] using h.wr1 t' ht'
    · intro t' ht'
      by_cases ht : t' = t
      · subst ht; simpa using h.wr0 t' ht'
      · simpa [ht] using h.wr0 t' ht'
    · intro t'
      by_cases ht : t' = t
      · subst ht
        have := h.rd t'
        simp [List.count_erase_self, this]
      · have := h.rd t'
        simp [ht, List.count_erase_of_ne ht, this]
    · intro hw
      have hr : ls.readers = [] := h.excl hw
      simp [hr]

/-- the lock an action operates on -/
def lockOf : Action → Option Nat
  | .acq l _ => some l
  | .rel l _ => some l
  | _ => none

theorem count_after_ne (held : Held) (a : Action) (l : Nat) (m : Mode) (h : lockOf a ≠ some l) :
    (after held a).count (l, m) = held.count (l, m) := by
  cases a with
  | acq l' m' =>
    have : l' ≠ l := fun e => h (by simp [lockOf, e])
    simp [after, this]
  | rel l' m' =>
    have : l' ≠ l := fun e => h (by simp [lockOf, e])
    simp only [after]
    apply List.count_erase_of_ne
    intro e
    exact this (Prod.mk.inj e).1.symm
  | read x => rfl
  | write x => rfl
  | other => rfl

/-- `ok` is any additional property of (held-set, remaining program) that is passed on along
    execution – `fun _ _ => true` for `lockset_sound`, `Ordered rank` for `no_deadlock` -/
structure Inv (guard : Nat → Nat) (ok : Held → Prog → Bool) (σ : State) (H : Nat → Held) :
    Prop where
  disc : ∀ t p, σ.threads[t]? = some p → Disciplined guard (H t) p = true
  extra : ∀ t p, σ.threads[t]? = some p → ok (H t) p = true
  out : ∀ t, σ.threads.length ≤ t → H t = []
  lock : ∀ l, LockOK (σ.locks l) l H

theorem step_eq_some {σ σ' : State} {t : Nat} (h : step σ t = some σ') :
    ∃ a rest, σ.threads[t]? = some (a :: rest) ∧ enabled σ.locks t a = true ∧
      σ' = ⟨σ.threads.set t rest, effect σ.locks t a⟩ := by
  unfold step at h
  split at h
  · rename_i a rest heq
    split at h
    · rename_i hen
      exact ⟨a, rest, heq, hen, by cases h; rfl⟩
    · cases h
  · cases h

theorem init_inv (guard : Nat → Nat) (ok : Held → Prog → Bool) (progs : List Prog)
    (hd : ∀ p ∈ progs, Disciplined guard [] p = true) (ho : ∀ p ∈ progs, ok [] p = true) :
    Inv guard ok (init progs) (fun _ => []) := by
  refine ⟨?_, ?_, fun _ _ => rfl, ?_⟩
  · intro t p h; exact hd p (List.mem_of_getElem? h)
  · intro t p h; exact ho p (List.mem_of_getElem? h)
  · intro l
    exact ⟨fun t ht => by simp [init] at ht, fun t _ => by simp, fun t => by simp [init],
      fun _ => rfl⟩

theorem step_inv {guard : Nat → Nat} {ok : Held → Prog → Bool}
    (hok : ∀ held a p, ok held (a :: p) = true → ok (after held a) p = true)
    {σ σ' : State} {H : Nat → Held} {t : Nat} (hi : Inv guard ok σ H)
    (hs : step σ t = some σ') : ∃ H', Inv guard ok σ' H' := by
  obtain ⟨a, rest, hth, hen, rfl⟩ := step_eq_some hs
  have htlt : t < σ.threads.length := by
    rcases Nat.lt_or_ge t σ.threads.length with h | h
    · exact h
    · rw [List.getElem?_eq_none h] at hth; cases hth
  have hdisc := Disciplined_cons (hi.disc t _ hth)
  refine ⟨upd H t (after (H t) a), ?_, ?_, ?_, ?_⟩
  · intro t' p hp
    simp only [List.getElem?_set] at hp
    by_cases ht : t = t'
    · subst ht
      simp only [if_true, htlt] at hp
      cases hp
      simpa using hdisc.2
    · simp only [ht, if_false] at hp
      have : t' ≠ t := fun e => ht e.symm
      simpa [this] using hi.disc t' p hp
  · intro t' p hp
    simp only [List.getElem?_set] at hp
    by_cases ht : t = t'
    · subst ht
      simp only [if_true, htlt] at hp
      cases hp
      simpa using hok _ _ _ (hi.extra t _ hth)
    · simp only [ht, if_false] at hp
      have : t' ≠ t := fun e => ht e.symm
      simpa [this] using hi.extra t' p hp
  · intro t' hlen
    simp only [List.length_set] at hlen
    have : t' ≠ t := by omega
    simpa [this] using hi.out t' hlen
  · intro l
    by_cases hl : lockOf a = some l
    · cases a with
      | acq l' m =>
        simp only [lockOf, Option.some.injEq] at hl
        subst hl
        simpa [effect, after] using (hi.lock l').acq t m hen
      | rel l' m =>
        simp only [lockOf, Option.some.injEq] at hl
        subst hl
        have hm : (l', m) ∈ H t := by simpa [okNow] using hdisc.1
        simpa [effect, after] using (hi.lock l').rel t m hm
      | read x => cases hl
      | write x => cases hl
      | other => cases hl
    · have hlocks : effect σ.locks t a l = σ.locks l := by
        cases a with
        | acq l' m =>
          have : l ≠ l' := fun e => hl (by simp [lockOf, e])
          simp [effect, this]
        | rel l' m =>
          have : l ≠ l' := fun e => hl (by simp [lockOf, e])
          simp [effect, this]
        | read x => rfl
        | write x => rfl
        | other => rfl
      show LockOK (effect σ.locks t a l) l _
      rw [hlocks]
      apply (hi.lock l).frame
      intro t' m
      by_cases ht : t' = t
      · subst ht
        simpa using count_after_ne (H t') a l m hl
      · simp [ht]

theorem reachable_inv {guard : Nat → Nat} {ok : Held → Prog → Bool}
    (hok : ∀ held a p, ok held (a :: p) = true → ok (after held a) p = true)
    (progs : List Prog)
    (hd : ∀ p ∈ progs, Disciplined guard [] p = true) (ho : ∀ p ∈ progs, ok [] p = true)
    {σ : State} (hreach : Reachable (init progs) σ) : ∃ H, Inv guard ok σ H := by
  induction hreach with
  | refl => exact ⟨_, init_inv guard ok progs hd ho⟩
  | tail _ hs ih =>
    obtain ⟨H, hi⟩ := ih
    exact step_inv hok hi hs

/-! ### lockset soundness -/

/-- a thread about to access `x` holds `guard x`; exclusively if the access is a write -/
theorem Inv.holds_guard {guard : Nat → Nat} {ok : Held → Prog → Bool} {σ : State}
    {H : Nat → Held} (hi : Inv guard ok σ H) {t x : Nat} {k : Kind}
    (hn : nextIs σ t (access x k)) :
    (guard x, Mode.W) ∈ H t ∨ (k = Kind.read ∧ (guard x, Mode.R) ∈ H t) := by
  obtain ⟨rest, hth⟩ := hn
  have h := (Disciplined_cons (hi.disc t _ hth)).1
  cases k with
  | read =>
    simp only [access, okNow, Bool.or_eq_true, decide_eq_true_eq] at h
    rcases h with h | h
    · exact Or.inr ⟨rfl, h⟩
    · exact Or.inl h
  | write =>
    simp only [access, okNow, decide_eq_true_eq] at h
    exact Or.inl h

/-- **Lockset soundness.**  If every thread's program is disciplined w.r.t. the guard assignment,
    then in no reachable state do two different threads have conflicting accesses (same variable,
    at least one write) as their next actions. -/
theorem lockset_sound (guard : Nat → Nat) (progs : List Prog)
    (hd : ∀ p ∈ progs, Disciplined guard [] p = true)
    (σ : State) (hreach : Reachable (init progs) σ) (k k' : Kind) :
    ¬ ∃ t t' x, t ≠ t' ∧ nextIs σ t (access x k) ∧ nextIs σ t' (access x k') ∧
        (k = Kind.write ∨ k' = Kind.write) := by
  rintro ⟨t, t', x, hne, hn, hn', hk⟩
  obtain ⟨H, hi⟩ := reachable_inv (guard := guard) (ok := fun _ _ => true)
    (fun _ _ _ _ => rfl) progs hd (fun _ _ => rfl) hreach
  have hl := hi.lock (guard x)
  -- whoever holds the guard exclusively excludes the other one
  have excl : ∀ s s' : Nat, s ≠ s' → (guard x, Mode.W) ∈ H s →
      ((guard x, Mode.W) ∈ H s' ∨ (guard x, Mode.R) ∈ H s') → False := by
    intro s s' hss hW h'
    have hw : (σ.locks (guard x)).writer = some s := (hl.mem_W s).mp hW
    rcases h' with h' | h'
    · have hw' := (hl.mem_W s').mp h'
      rw [hw] at hw'
      exact hss (Option.some.inj hw')
    · have hr := (hl.mem_R s').mp h'
      have : (σ.locks (guard x)).readers = [] := hl.excl (by rw [hw]; simp)
      rw [this] at hr
      cases hr
  have h1 := hi.holds_guard hn
  have h2 := hi.holds_guard hn'
  rcases hk with rfl | rfl
  · rcases h1 with h1 | ⟨hc, _⟩
    · exact excl t t' hne h1 (h2.elim Or.inl (fun h => Or.inr h.2))
    · cases hc
  · rcases h2 with h2 | ⟨hc, _⟩
    · exact excl t' t (Ne.symm hne) h2 (h1.elim Or.inl (fun h => Or.inr h.2))
    · cases hc

/-! ### deadlock freedom -/

theorem ok_Ordered (rank : Nat → Nat) :
    ∀ held a p, Ordered rank held (a :: p) = true → Ordered rank (after held a) p = true :=
  fun _ _ _ h => (Ordered_cons h).2

/-- rank of the lock a program wants next (0 if its next action is no acquisition) -/
def headRank (rank : Nat → Nat) : Prog → Nat
  | .acq l _ :: _ => rank l
  | _ => 0

def bound (rank : Nat → Nat) : List Prog → Nat
  | [] => 0
  | p :: ps => max (headRank rank p) (bound rank ps)

theorem headRank_le_bound (rank : Nat → Nat) (ps : List Prog) (p : Prog) (h : p ∈ ps) :
    headRank rank p ≤ bound rank ps := by
  induction ps with
  | nil => cases h
  | cons q qs ih =>
    simp only [bound]
    rcases List.mem_cons.mp h with rfl | h
    · exact Nat.le_max_left _ _
    · exact Nat.le_trans (ih h) (Nat.le_max_right _ _)

/-- whoever holds a lock has not finished -/
theorem Inv.holder_unfinished {guard : Nat → Nat} {ok : Held → Prog → Bool} {σ : State}
    {H : Nat → Held} (hi : Inv guard ok σ H) {t : Nat} {e : Nat × Mode} (he : e ∈ H t) :
    ∃ a rest, σ.threads[t]? = some (a :: rest) := by
  rcases Nat.lt_or_ge t σ.threads.length with hlt | hge
  · have hth : σ.threads[t]? = some σ.threads[t] := List.getElem?_eq_getElem hlt
    cases hp : σ.threads[t] with
    | nil =>
      rw [hp] at hth
      have := hi.disc t _ hth
      simp only [Disciplined, List.isEmpty_iff] at this
      rw [this] at he; cases he
    | cons a rest => rw [hp] at hth; exact ⟨a, rest, hth⟩
  · rw [hi.out t hge] at he; cases he

/-- an unfinished thread that cannot step is waiting for a lock held by somebody -/
theorem Inv.stuck {guard : Nat → Nat} {ok : Held → Prog → Bool} {σ : State}
    {H : Nat → Held} (hi : Inv guard ok σ H) {t : Nat} {a : Action} {rest : Prog}
    (hth : σ.threads[t]? = some (a :: rest)) (hstuck : step σ t = none) :
    ∃ l m, a = .acq l m ∧ ∃ t' m', (l, m') ∈ H t' := by
  have hen : enabled σ.locks t a = false := by
    cases h : enabled σ.locks t a with
    | false => rfl
    | true => simp [step, hth, h] at hstuck
  have hdisc := (Disciplined_cons (hi.disc t _ hth)).1
  cases a with
  | acq l m =>
    refine ⟨l, m, rfl, ?_⟩
    have hl := hi.lock l
    cases m with
    | W =>
      simp only [enabled, canAcq, Bool.and_eq_false_iff] at hen
      rcases hen with hen | hen
      · cases hw : (σ.locks l).writer with
        | none => simp [hw] at hen
        | some t' => exact ⟨t', .W, (hl.mem_W t').mpr hw⟩
      · cases hr : (σ.locks l).readers with
        | nil => simp [hr] at hen
        | cons t' r => exact ⟨t', .R, (hl.mem_R t').mpr (by rw [hr]; exact List.mem_cons_self)⟩
    | R =>
      simp only [enabled, canAcq] at hen
      cases hw : (σ.locks l).writer with
      | none => simp [hw] at hen
      | some t' => exact ⟨t', .W, (hl.mem_W t').mpr hw⟩
  | rel l m =>
    exfalso
    have hm : (l, m) ∈ H t := by simpa [okNow] using hdisc
    have hl := hi.lock l
    cases m with
    | W => simp [enabled, canRel, (hl.mem_W t).mp hm] at hen
    | R => simp [enabled, canRel, (hl.mem_R t).mp hm] at hen
  | read x => simp [enabled] at hen
  | write x => simp [enabled] at hen
  | other => simp [enabled] at hen

/-- **No deadlock.**  If all programs are disciplined (in particular: they release what they
    acquire) and acquire locks in strictly increasing rank, then in every reachable state in which
    some thread has not finished, some thread can make a step.

    Go's writer preference (a pending `Lock()` holds back NEW `RLock()`s) is not modelled.  It
    cannot introduce a deadlock here.  A writer is pending on `l` only while some other thread
    holds `l`; so a reader held back by a pending writer waits, in effect, for a current holder of
    that same lock – a thread different from the reader, because no thread re-acquires a lock it
    holds.  That is the waits-for edge followed in the proof below (blocked on `l` ⟶ a holder of
    `l`, which is unfinished and either can move or wants a lock of strictly greater rank), and
    the same bounded-rank argument ends the chain at a thread that can move under writer
    preference too.  The one way writer preference does create a cycle is a thread re-acquiring a
    read lock it already holds (it waits for the pending writer, which waits for it); that is
    excluded by `Ordered` (the held lock would need rank strictly below itself) and by
    `Disciplined`. -/
theorem no_deadlock (guard : Nat → Nat) (rank : Nat → Nat) (progs : List Prog)
    (hd : ∀ p ∈ progs, Disciplined guard [] p = true)
    (ho : ∀ p ∈ progs, Ordered rank [] p = true)
    (σ : State) (hreach : Reachable (init progs) σ)
    (hunfinished : ∃ (t : Nat) (a : Action) (rest : Prog), σ.threads[t]? = some (a :: rest)) :
    ∃ t σ', step σ t = some σ' := by
  obtain ⟨H, hi⟩ := reachable_inv (guard := guard) (ok := Ordered rank)
    (ok_Ordered rank) progs hd ho hreach
  -- follow the waits-for chain; the rank of the wanted lock strictly increases and is bounded
  have chain : ∀ (fuel : Nat) (t l : Nat) (m : Mode) (rest : Prog),
      σ.threads[t]? = some (.acq l m :: rest) → bound rank σ.threads < rank l + fuel →
      ∃ t σ', step σ t = some σ' := by
    intro fuel
    induction fuel with
    | zero =>
      intro t l m rest hth hb
      have := headRank_le_bound rank σ.threads _ (List.mem_of_getElem? hth)
      simp only [headRank] at this
      omega
    | succ fuel ih =>
      intro t l m rest hth hb
      cases hst : step σ t with
      | some σ' => exact ⟨t, σ', hst⟩
      | none =>
        obtain ⟨l₁, m₁, heq, t', m', hheld⟩ := hi.stuck hth hst
        cases heq
        obtain ⟨a', rest', hth'⟩ := hi.holder_unfinished hheld
        cases hst' : step σ t' with
        | some σ' => exact ⟨t', σ', hst'⟩
        | none =>
          obtain ⟨l', m'', heq', _⟩ := hi.stuck hth' hst'
          subst heq'
          have hord := (Ordered_cons (hi.extra t' _ hth')).1
          simp only [ordNow, List.all_eq_true, decide_eq_true_eq] at hord
          have hlt : rank l < rank l' := hord _ hheld
          exact ih t' l' m'' rest' hth' (by omega)
  obtain ⟨t, a, rest, hth⟩ := hunfinished
  cases hst : step σ t with
  | some σ' => exact ⟨t, σ', hst⟩
  | none =>
    obtain ⟨l, m, heq, _⟩ := hi.stuck hth hst
    subst heq
    exact chain (bound rank σ.threads + 1) t l m rest hth (by omega)

/-! ### non-vacuity -/

/-- a reader taking locks 0 then 1 (variables 0 and 3), and a writer on lock 0 -/
def exReader : Prog := [.acq 0 .R, .read 0, .acq 1 .R, .read 3, .rel 1 .R, .rel 0 .R]
def exWriter : Prog := [.acq 0 .W, .read 0, .write 0, .rel 0 .W]
/-- variable 3 is guarded by lock 1, everything else by lock 0 -/
def exGuard (x : Nat) : Nat := if x = 3 then 1 else 0

example : ∀ p ∈ [exReader, exWriter], Disciplined exGuard [] p = true := by decide
example : ∀ p ∈ [exReader, exWriter], Ordered id [] p = true := by decide
/-- an undisciplined program is rejected: writing under a read lock -/
example : Disciplined exGuard [] [.acq 0 .R, .write 0, .rel 0 .R] = false := by decide
/-- a wrongly ordered program is rejected -/
example : Ordered id [] [.acq 1 .R, .acq 0 .R, .rel 0 .R, .rel 1 .R] = false := by decide

/-- the two theorems apply to the example system -/
example (σ : State) (h : Reachable (init [exReader, exWriter]) σ) (k k' : Kind) :
    ¬ ∃ t t' x, t ≠ t' ∧ nextIs σ t (access x k) ∧ nextIs σ t' (access x k') ∧
        (k = Kind.write ∨ k' = Kind.write) :=
  lockset_sound exGuard _ (by decide) σ h k k'

example (σ : State) (h : Reachable (init [exReader, exWriter]) σ)
    (hu : ∃ (t : Nat) (a : Action) (rest : Prog), σ.threads[t]? = some (a :: rest)) : ∃ t σ', step σ t = some σ' :=
  no_deadlock exGuard id _ (by decide) (by decide) σ h hu

/-- run a schedule (a list of thread ids); `none` if some step is not enabled -/
def runSched (σ : State) : List Nat → Option State
  | [] => some σ
  | t :: ts => (step σ t).bind (fun σ' => runSched σ' ts)

theorem Reachable.head {σ σ' σ'' : State} {t : Nat} (hs : step σ t = some σ')
    (h : Reachable σ' σ'') : Reachable σ σ'' := by
  induction h with
  | refl => exact .tail (.refl σ) hs
  | tail _ hs' ih => exact .tail ih hs'

theorem runSched_reachable {σ σ' : State} {ts : List Nat} (h : runSched σ ts = some σ') :
    Reachable σ σ' := by
  induction ts generalizing σ with
  | nil => simp only [runSched, Option.some.injEq] at h; subst h; exact .refl σ
  | cons t ts ih =>
    simp only [runSched] at h
    cases hs : step σ t with
    | none => simp [hs] at h
    | some σ₁ =>
      simp only [hs, Option.bind_some] at h
      exact Reachable.head hs (ih h)

theorem Reachable.trans {σ σ' σ'' : State} (h₁ : Reachable σ σ') (h₂ : Reachable σ' σ'') :
    Reachable σ σ'' := by
  induction h₂ with
  | refl => exact h₁
  | tail _ hs ih => exact .tail ih hs

/-- thread `t` runs until it is blocked or has finished (at most `fuel` steps) -/
def runThread (σ : State) (t : Nat) : Nat → State
  | 0 => σ
  | fuel + 1 =>
    match step σ t with
    | some σ' => runThread σ' t fuel
    | none => σ

theorem runThread_reachable (σ : State) (t fuel : Nat) : Reachable σ (runThread σ t fuel) := by
  induction fuel generalizing σ with
  | zero => exact .refl σ
  | succ n ih =>
    simp only [runThread]
    cases hs : step σ t with
    | none => exact .refl σ
    | some σ' => exact Reachable.head hs (ih σ')

/-- the example system really runs, interleaved, to completion … -/
example : ((runSched (init [exReader, exWriter]) [0, 0, 0, 0, 0, 0, 1, 1, 1, 1]).map
    (·.threads)) = some [[], []] := by decide
example : ((runSched (init [exReader, exWriter]) [1, 1, 1, 1, 0, 0, 0, 0, 0, 0]).map
    (·.threads)) = some [[], []] := by decide
/-- … and locks do block: once the reader holds lock 0 the writer cannot take it, and vice versa -/
example : (runSched (init [exReader, exWriter]) [0, 1]).isNone = true := by decide
example : (runSched (init [exReader, exWriter]) [1, 0]).isNone = true := by decide
/-- two readers share a lock -/
example : ((runSched (init [exReader, exReader]) [0, 1, 0, 1]).map (·.threads.map List.length)) =
    some [4, 4] := by decide

end Restful.Lockset
