/-
C03 for RouterJSR311, part 1: `Jsr.routeCandLess` (lexicographic on literalCount, matchesCount,
nonDefaultCount, Path) and `Jsr.dispCandLess` (lexicographic on matchesCount, literalCount,
nonDefaultCount — no Path tie-break) are strict weak orders, so the model's insertion sort
returns sorted candidate lists.
-/
import Restful.Model.Jsr
import Restful.Lemmas.OrderSort
namespace Restful
namespace Jsr

/-! ### route candidates -/

theorem routeCandLess_eq_false_iff (x y : RouteCand) :
    routeCandLess x y = false ↔
      x.literalCount < y.literalCount ∨ x.literalCount = y.literalCount ∧
        (x.matchesCount < y.matchesCount ∨ x.matchesCount = y.matchesCount ∧
          (x.nonDefaultCount < y.nonDefaultCount ∨ x.nonDefaultCount = y.nonDefaultCount ∧
            Str.lt y.route.path x.route.path = false)) := by
  unfold routeCandLess
  by_cases h1 : y.literalCount < x.literalCount
  · simp [h1]; omega
  · by_cases h2 : y.literalCount > x.literalCount
    · simp [h1, h2]
    · have e1 : x.literalCount = y.literalCount := by omega
      by_cases h3 : y.matchesCount < x.matchesCount
      · simp [e1, h3]; omega
      · by_cases h4 : y.matchesCount > x.matchesCount
        · simp [e1, h3, h4]
        · have e2 : x.matchesCount = y.matchesCount := by omega
          by_cases h5 : y.nonDefaultCount < x.nonDefaultCount
          · simp [e1, e2, h5]; omega
          · by_cases h6 : y.nonDefaultCount > x.nonDefaultCount
            · simp [e1, e2, h5, h6]
            · have e3 : x.nonDefaultCount = y.nonDefaultCount := by omega
              simp [e1, e2, e3]

/-- `htrans` for `routeCandLess` -/
theorem routeCandLess_trans (a b c : RouteCand) (h1 : routeCandLess b a = false)
    (h2 : routeCandLess c b = false) : routeCandLess c a = false := by
  rw [routeCandLess_eq_false_iff] at h1 h2 ⊢
  rcases h1 with h1 | ⟨e1, h1⟩
  · rcases h2 with h2 | ⟨e2, _⟩ <;> exact Or.inl (by omega)
  · rcases h2 with h2 | ⟨e2, h2⟩
    · exact Or.inl (by omega)
    · refine Or.inr ⟨by omega, ?_⟩
      rcases h1 with h1 | ⟨f1, h1⟩
      · rcases h2 with h2 | ⟨f2, _⟩ <;> exact Or.inl (by omega)
      · rcases h2 with h2 | ⟨f2, h2⟩
        · exact Or.inl (by omega)
        · refine Or.inr ⟨by omega, ?_⟩
          rcases h1 with h1 | ⟨g1, h1⟩
          · rcases h2 with h2 | ⟨g2, _⟩ <;> exact Or.inl (by omega)
          · rcases h2 with h2 | ⟨g2, h2⟩
            · exact Or.inl (by omega)
            · exact Or.inr ⟨by omega, Str.not_lt_trans h1 h2⟩

theorem routeCandLess_eq_true_iff (x y : RouteCand) :
    routeCandLess x y = true ↔
      y.literalCount < x.literalCount ∨ x.literalCount = y.literalCount ∧
        (y.matchesCount < x.matchesCount ∨ x.matchesCount = y.matchesCount ∧
          (y.nonDefaultCount < x.nonDefaultCount ∨ x.nonDefaultCount = y.nonDefaultCount ∧
            Str.lt y.route.path x.route.path = true)) := by
  have h := routeCandLess_eq_false_iff x y
  cases hv : routeCandLess x y with
  | false =>
    rw [hv] at h
    have h' := h.mp rfl
    simp only [Bool.false_eq_true, false_iff]
    intro hn
    rcases hn with hn | ⟨e1, hn⟩
    · omega
    · rcases hn with hn | ⟨e2, hn⟩
      · omega
      · rcases hn with hn | ⟨e3, hn⟩
        · omega
        · rcases h' with h' | ⟨_, h' | ⟨_, h' | ⟨_, h'⟩⟩⟩
          · omega
          · omega
          · omega
          · rw [hn] at h'; exact absurd h' (by simp)
  | true =>
    rw [hv] at h
    simp only [true_iff]
    have h' : ¬ _ := fun hc => absurd (h.mpr hc) (by simp)
    by_cases c1 : y.literalCount < x.literalCount
    · exact Or.inl c1
    · by_cases e1 : x.literalCount = y.literalCount
      · refine Or.inr ⟨e1, ?_⟩
        by_cases c2 : y.matchesCount < x.matchesCount
        · exact Or.inl c2
        · by_cases e2 : x.matchesCount = y.matchesCount
          · refine Or.inr ⟨e2, ?_⟩
            by_cases c3 : y.nonDefaultCount < x.nonDefaultCount
            · exact Or.inl c3
            · by_cases e3 : x.nonDefaultCount = y.nonDefaultCount
              · refine Or.inr ⟨e3, ?_⟩
                cases hl : Str.lt y.route.path x.route.path with
                | true => rfl
                | false => exact absurd (Or.inr ⟨e1, Or.inr ⟨e2, Or.inr ⟨e3, hl⟩⟩⟩) h'
              · exact absurd (Or.inr ⟨e1, Or.inr ⟨e2, Or.inl (by omega)⟩⟩) h'
          · exact absurd (Or.inr ⟨e1, Or.inl (by omega)⟩) h'
      · exact absurd (Or.inl (by omega)) h'

/-- `hasym` for `routeCandLess` -/
theorem routeCandLess_asymm (a b : RouteCand) (h : routeCandLess a b = true) : routeCandLess b a = false := by
  rw [routeCandLess_eq_true_iff] at h
  rw [routeCandLess_eq_false_iff]
  rcases h with h | ⟨e1, h⟩
  · exact Or.inl h
  · refine Or.inr ⟨e1.symm, ?_⟩
    rcases h with h | ⟨e2, h⟩
    · exact Or.inl h
    · refine Or.inr ⟨e2.symm, ?_⟩
      rcases h with h | ⟨e3, h⟩
      · exact Or.inl h
      · exact Or.inr ⟨e3.symm, Str.lt_asymm h⟩

/-- route candidates that `routeCandLess` does not separate in either direction have the same key -/
theorem routeCandLess_antisymm (a b : RouteCand) (h1 : routeCandLess a b = false) (h2 : routeCandLess b a = false) :
    a.literalCount = b.literalCount ∧ a.matchesCount = b.matchesCount ∧
      a.nonDefaultCount = b.nonDefaultCount ∧ a.route.path = b.route.path := by
  rw [routeCandLess_eq_false_iff] at h1 h2
  rcases h1 with h1 | ⟨e1, h1⟩
  · rcases h2 with h2 | ⟨e2, _⟩ <;> omega
  · rcases h2 with h2 | ⟨_, h2⟩
    · omega
    · rcases h1 with h1 | ⟨f1, h1⟩
      · rcases h2 with h2 | ⟨f2, _⟩ <;> omega
      · rcases h2 with h2 | ⟨_, h2⟩
        · omega
        · rcases h1 with h1 | ⟨g1, h1⟩
          · rcases h2 with h2 | ⟨g2, _⟩ <;> omega
          · rcases h2 with h2 | ⟨_, h2⟩
            · omega
            · exact ⟨e1, f1, g1, Str.eq_of_not_lt h2 h1⟩

/-- the route list RouterJSR311 hands to `detectRoute` is sorted: best key first -/
theorem sort_routeCandLess_sorted (cs : List RouteCand) :
    (Sort.insertionSort routeCandLess cs).Pairwise (fun a b => routeCandLess b a = false) :=
  Sort.insertionSort_sorted_partial routeCandLess routeCandLess_trans routeCandLess_asymm cs

/-! ### dispatcher candidates -/

theorem dispCandLess_eq_false_iff (x y : DispCand) :
    dispCandLess x y = false ↔
      x.matchesCount < y.matchesCount ∨ x.matchesCount = y.matchesCount ∧
        (x.literalCount < y.literalCount ∨ x.literalCount = y.literalCount ∧
          x.nonDefaultCount ≤ y.nonDefaultCount) := by
  unfold dispCandLess
  by_cases h1 : y.matchesCount < x.matchesCount
  · simp [h1]; omega
  · by_cases h2 : y.matchesCount > x.matchesCount
    · simp [h1, h2]
    · have e1 : x.matchesCount = y.matchesCount := by omega
      by_cases h3 : y.literalCount < x.literalCount
      · simp [e1, h3]; omega
      · by_cases h4 : y.literalCount > x.literalCount
        · simp [e1, h3, h4]
        · have e2 : x.literalCount = y.literalCount := by omega
          simp [e1, e2]

/-- `htrans` for `dispCandLess` -/
theorem dispCandLess_trans (a b c : DispCand) (h1 : dispCandLess b a = false)
    (h2 : dispCandLess c b = false) : dispCandLess c a = false := by
  rw [dispCandLess_eq_false_iff] at h1 h2 ⊢
  omega

/-- `hasym` for `dispCandLess` -/
theorem dispCandLess_asymm (a b : DispCand) (h : dispCandLess a b = true) : dispCandLess b a = false := by
  cases h' : dispCandLess a b with
  | false => rw [h'] at h; exact absurd h (by simp)
  | true =>
    have hn : ¬ _ := fun hc => absurd ((dispCandLess_eq_false_iff a b).mpr hc) (by simp [h'])
    rw [dispCandLess_eq_false_iff]
    omega

/-- the dispatcher candidates are sorted: best key first -/
theorem sort_dispCandLess_sorted (cs : List DispCand) :
    (Sort.insertionSort dispCandLess cs).Pairwise (fun a b => dispCandLess b a = false) :=
  Sort.insertionSort_sorted_partial dispCandLess dispCandLess_trans dispCandLess_asymm cs

end Jsr
end Restful
