/-
CurlyRouter's `computeWebserviceScore` after fix 19aa57d: the faithful loop `Curly.scoreWalkE` /
`Curly.wsScoreE` (a `{name:regex}` token of a root path is matched with `regularMatchesPathToken`)
against the regex-blind arithmetic `Curly.scoreWalk` / `Curly.wsScore`.

  * `scoreWalkE_cons`      one iteration = the arithmetic step `stepD`, then the expression `reStep`
  * `wsScoreE_yes_iff`     `.yes sc` iff the blind score is `sc` and every expression met is satisfied
  * `wsScoreE_eq`          closed form when no root token can raise the slice-bounds panic
  * `wsScoreE_of_noVar`    roots without `{` tokens: the two loops coincide
  * `reAll_render`         on checked, verb-free root tokens the expressions are `Spec.rootRegexOK`
  * `wsScoreE_claim`       … so the loop computes exactly `Spec.claimScore`
  * `rootGood_of_route`    `Config.wfTemplates` makes the root of a service WITH routes such a root
                           (`tokenize_concatPath`: the root's tokens are the leading tokens of every
                           route path)
-/
import Restful.Spec.Classify
import Restful.Lemmas.OrderScore
import Restful.Lemmas.Tokenize
import Restful.Lemmas.SplitOn
import Restful.Lemmas.ReadTemplate
namespace Restful
open Str

namespace Curly
variable (E : ReEnv)

/-! ### one iteration of the faithful loop -/

/-- what the loop asks of the expression of root token `x` for the request token `q`:
    `some true` = satisfied (or no expression), `some false` = not satisfied, `none` = slice-bounds panic -/
def reStep (x q : Str) : Option Bool :=
  if Spec.rootTokIsVar x then
    match index ':' x with
    | some colon =>
      match regularMatches E x colon q with
      | .fail => some false
      | .panic => none
      | _ => some true
    | none => some true
  else some true

theorem scoreWalkE_cons (x q : Str) (ts qs : List Str) (acc : Nat) :
    scoreWalkE E (x :: ts) (q :: qs) acc =
      match stepD x q ts.length with
      | none => .no
      | some d =>
        match reStep E x q with
        | none => .panic
        | some false => .no
        | some true => scoreWalkE E ts qs (acc + d) := by
  rw [scoreWalkE, stepD, reStep, Spec.rootTokIsVar]
  by_cases h1 : (q.isEmpty && x.isEmpty) = true
  · simp only [Bool.and_eq_true, List.isEmpty_iff] at h1
    obtain ⟨rfl, rfl⟩ := h1
    simp
  · rw [if_neg h1, if_neg h1]
    by_cases h2 : (!x.isEmpty && hasPrefix ['{'] x) = true
    · rw [if_pos h2, if_pos h2]
      by_cases h3 : q.isEmpty = true
      · simp [h3]
      · rw [if_neg h3, if_neg h3]
        simp only [h2, if_true]
        cases index ':' x with
        | none => rfl
        | some colon =>
          simp only
          cases regularMatches E x colon q <;> rfl
    · rw [if_neg h2, if_neg h2]
      simp only [h2, Bool.false_eq_true, if_false]
      by_cases h3 : (q != x) = true
      · simp [h3]
      · rw [if_neg h3, if_neg h3]

/-- every expression the loop meets along the root is satisfied -/
def reAll : List Str → List Str → Bool
  | x :: ts, q :: qs => (reStep E x q == some true) && reAll ts qs
  | _, _ => true

/-- the root token cannot raise the slice-bounds panic of `regularMatchesPathToken` -/
def tokNoPanic (x : Str) : Bool :=
  !Spec.rootTokIsVar x ||
    (match index ':' x with
     | some colon => (regPart x colon).isSome
     | none => true)

theorem reStep_of_noPanic {x : Str} (h : tokNoPanic x = true) (q : Str) : ∃ b, reStep E x q = some b := by
  unfold reStep
  unfold tokNoPanic at h
  cases hv : Spec.rootTokIsVar x with
  | false => exact ⟨true, by simp⟩
  | true =>
    simp only [hv, Bool.not_true, Bool.false_or] at h
    simp only [if_true]
    cases hi : index ':' x with
    | none => exact ⟨true, rfl⟩
    | some colon =>
      simp only [hi] at h
      simp only
      obtain ⟨rp, hrp⟩ := Option.isSome_iff_exists.mp h
      unfold regularMatches
      rw [hrp]
      simp only
      by_cases hs : rp = ['*']
      · rw [if_pos hs]; exact ⟨true, rfl⟩
      · rw [if_neg hs]
        cases E.search rp q
        · exact ⟨false, rfl⟩
        · exact ⟨true, rfl⟩

/-! ### the bridge -/

/-- the faithful loop says `true, sc` exactly when the arithmetic gives `sc` and every expression
    along the root is satisfied (no hypothesis on the root) -/
theorem scoreWalkE_yes_iff : ∀ (ts qs : List Str) (acc sc : Nat),
    scoreWalkE E ts qs acc = .yes sc ↔ scoreWalk ts qs acc = some sc ∧ reAll E ts qs = true
  | [], qs, acc, sc => by
    cases qs <;> simp [scoreWalkE, scoreWalk, reAll]
  | _ :: _, [], acc, sc => by simp [scoreWalkE, scoreWalk]
  | x :: ts, q :: qs, acc, sc => by
    rw [scoreWalkE_cons, scoreWalk_cons, reAll]
    cases stepD x q ts.length with
    | none => simp
    | some d =>
      simp only [Option.bind_some]
      cases hr : reStep E x q with
      | none => simp
      | some b =>
        cases b with
        | false => simp
        | true =>
          simp only [beq_self_eq_true, Bool.true_and]
          exact scoreWalkE_yes_iff ts qs (acc + d) sc

/-- closed form of the faithful loop on a root none of whose tokens can raise the panic -/
theorem scoreWalkE_eq : ∀ (ts qs : List Str) (acc : Nat), (∀ x ∈ ts, tokNoPanic x = true) →
    scoreWalkE E ts qs acc =
      match scoreWalk ts qs acc with
      | some sc => if reAll E ts qs = true then .yes sc else .no
      | none => .no
  | [], qs, acc, _ => by
    cases qs <;> simp [scoreWalkE, scoreWalk, reAll]
  | _ :: _, [], acc, _ => by simp [scoreWalkE, scoreWalk]
  | x :: ts, q :: qs, acc, h => by
    rw [scoreWalkE_cons, scoreWalk_cons, reAll]
    cases stepD x q ts.length with
    | none => simp
    | some d =>
      simp only [Option.bind_some]
      obtain ⟨b, hb⟩ := reStep_of_noPanic E (h x List.mem_cons_self) q
      rw [hb]
      have ih := scoreWalkE_eq ts qs (acc + d) (fun y hy => h y (List.mem_cons_of_mem _ hy))
      cases b with
      | false =>
        simp only
        cases scoreWalk ts qs (acc + d) <;> simp
      | true =>
        simp only [beq_self_eq_true, Bool.true_and]
        exact ih

theorem wsScoreE_yes_iff (qs toks : List Str) (sc : Nat) :
    wsScoreE E qs toks = .yes sc ↔ wsScore qs toks = some sc ∧ reAll E toks qs = true := by
  unfold wsScoreE wsScore
  split
  · simp
  · exact scoreWalkE_yes_iff E toks qs 0 sc

/-- a root the faithful loop claims is claimed, with the same score, by the arithmetic -/
theorem wsScore_of_wsScoreE {qs toks : List Str} {sc : Nat} (h : wsScoreE E qs toks = .yes sc) :
    wsScore qs toks = some sc := ((wsScoreE_yes_iff E qs toks sc).mp h).1

theorem wsScoreE_eq (qs toks : List Str) (hnp : ∀ x ∈ toks, tokNoPanic x = true) :
    wsScoreE E qs toks =
      match wsScore qs toks with
      | some sc => if reAll E toks qs = true then .yes sc else .no
      | none => .no := by
  unfold wsScoreE wsScore
  split
  · rfl
  · exact scoreWalkE_eq E toks qs 0 hnp

theorem wsScoreE_ne_panic (qs toks : List Str) (hnp : ∀ x ∈ toks, tokNoPanic x = true) :
    wsScoreE E qs toks ≠ .panic := by
  rw [wsScoreE_eq E qs toks hnp]
  cases wsScore qs toks with
  | none => simp
  | some sc =>
    simp only
    split <;> simp

theorem wsScoreE_no_iff (qs toks : List Str) (hnp : ∀ x ∈ toks, tokNoPanic x = true) :
    wsScoreE E qs toks = .no ↔ wsScore qs toks = none ∨ reAll E toks qs = false := by
  rw [wsScoreE_eq E qs toks hnp]
  cases wsScore qs toks with
  | none => simp
  | some sc =>
    simp only
    cases reAll E toks qs <;> simp

/-! ### roots without a `{` token (C18: literal roots) -/

theorem tokNoPanic_of_noVar {x : Str} (h : Spec.rootTokIsVar x = false) : tokNoPanic x = true := by
  simp [tokNoPanic, h]

theorem reAll_of_noVar : ∀ (toks qs : List Str), (∀ x ∈ toks, Spec.rootTokIsVar x = false) →
    reAll E toks qs = true
  | [], _, _ => by simp [reAll]
  | _ :: _, [], _ => by simp [reAll]
  | x :: ts, q :: qs, h => by
    rw [reAll, reAll_of_noVar ts qs (fun y hy => h y (List.mem_cons_of_mem _ hy)), Bool.and_true]
    simp [reStep, h x List.mem_cons_self]

/-- on a root without `{` tokens no expression is evaluated: the faithful loop is the arithmetic -/
theorem wsScoreE_of_noVar (qs toks : List Str) (h : ∀ x ∈ toks, Spec.rootTokIsVar x = false) :
    wsScoreE E qs toks =
      match wsScore qs toks with
      | some sc => .yes sc
      | none => .no := by
  rw [wsScoreE_eq E qs toks (fun x hx => tokNoPanic_of_noVar (h x hx)), reAll_of_noVar E toks qs h]
  cases wsScore qs toks <;> rfl

end Curly
end Restful

/-! ### trims, and the tokens of `concatPath root rel` -/
namespace Restful
open Str
namespace Str

theorem trimLeft_all {c : Char} : ∀ {s : Str}, (∀ x ∈ s, x = c) → trimLeft c s = []
  | [], _ => rfl
  | a :: s, h => by
    have ha : a = c := h a List.mem_cons_self
    have ih := trimLeft_all (s := s) (fun y hy => h y (List.mem_cons_of_mem _ hy))
    unfold trimLeft at ih ⊢
    simp [ha, ih]

theorem trimRight_all {c : Char} {s : Str} (h : ∀ x ∈ s, x = c) : trimRight c s = [] := by
  have := trimLeft_all (c := c) (s := s.reverse) (fun x hx => h x (List.mem_reverse.mp hx))
  unfold trimLeft at this
  unfold trimRight
  rw [this]; rfl

theorem takeWhile_beq_all (c : Char) : ∀ (s : Str), ∀ x ∈ s.takeWhile (· == c), x = c
  | [], x, hx => by simp at hx
  | a :: s, x, hx => by
    by_cases ha : a = c
    · subst ha
      simp only [List.takeWhile_cons, beq_self_eq_true, if_true, List.mem_cons] at hx
      rcases hx with rfl | hx
      · rfl
      · exact takeWhile_beq_all a s x hx
    · simp [ha] at hx

theorem trimLeft_append_all {c : Char} : ∀ {a : Str} (u : Str), (∀ x ∈ a, x = c) → trimLeft c (a ++ u) = trimLeft c u
  | [], _, _ => rfl
  | x :: a, u, h => by
    have hx : x = c := h x List.mem_cons_self
    subst hx
    have ih := trimLeft_append_all (a := a) u (fun y hy => h y (List.mem_cons_of_mem _ hy))
    unfold trimLeft at ih ⊢
    simpa [List.dropWhile_cons] using ih

theorem trimRight_append_of_exists (c : Char) (s t : Str) (h : ∃ x ∈ t, x ≠ c) :
    trimRight c (s ++ t) = s ++ trimRight c t := by
  have h' : ∃ x ∈ t.reverse, x ≠ c := by
    obtain ⟨x, hx, hne⟩ := h
    exact ⟨x, List.mem_reverse.mpr hx, hne⟩
  have := trimLeft_append_of_exists c t.reverse s.reverse h'
  unfold trimLeft at this
  unfold trimRight
  rw [List.reverse_append, this, List.reverse_append, List.reverse_reverse]

theorem trimLeft_head (c : Char) (s : Str) : (trimLeft c s).head? ≠ some c := by
  unfold trimLeft
  intro h
  have := List.head?_dropWhile_not (fun x => x == c) s
  rw [h] at this
  simp at this

theorem trimRight_getLast (c : Char) (s : Str) : (trimRight c s).getLast? ≠ some c := by
  unfold trimRight
  rw [List.getLast?_reverse]
  exact trimLeft_head c s.reverse

theorem exists_ne_trimLeft {c : Char} {s : Str} (h : ∃ x ∈ s, x ≠ c) : ∃ x ∈ trimLeft c s, x ≠ c := by
  induction s with
  | nil => simp at h
  | cons a s ih =>
    by_cases ha : a = c
    · subst ha
      have : ∃ x ∈ s, x ≠ a := by
        obtain ⟨x, hx, hne⟩ := h
        simp only [List.mem_cons] at hx
        rcases hx with rfl | hx
        · exact absurd rfl hne
        · exact ⟨x, hx, hne⟩
      have := ih this
      unfold trimLeft at this ⊢
      simpa [List.dropWhile_cons] using this
    · refine ⟨a, ?_, ha⟩
      unfold trimLeft
      simp [ha]

theorem exists_ne_trimRight {c : Char} {s : Str} (h : ∃ x ∈ s, x ≠ c) : ∃ x ∈ trimRight c s, x ≠ c := by
  have h' : ∃ x ∈ s.reverse, x ≠ c := by
    obtain ⟨x, hx, hne⟩ := h
    exact ⟨x, List.mem_reverse.mpr hx, hne⟩
  obtain ⟨x, hx, hne⟩ := exists_ne_trimLeft h'
  refine ⟨x, ?_, hne⟩
  unfold trimRight
  exact List.mem_reverse.mpr hx

theorem trimRight_prefix (c : Char) (s : Str) : trimRight c s <+: s := by
  unfold trimRight
  have := List.dropWhile_suffix (fun x => x == c) (l := s.reverse)
  rw [← List.reverse_prefix, List.reverse_reverse] at this
  exact this

theorem trimLeft_split (c : Char) (s : Str) : ∃ a, (∀ x ∈ a, x = c) ∧ s = a ++ trimLeft c s := by
  refine ⟨s.takeWhile (· == c), ?_, ?_⟩
  · exact takeWhile_beq_all c s
  · unfold trimLeft
    exact List.takeWhile_append_dropWhile.symm

/-- the two trims commute -/
theorem trim_comm (c : Char) (s : Str) : trimLeft c (trimRight c s) = trimRight c (trimLeft c s) := by
  by_cases hall : ∀ x ∈ s, x = c
  · rw [trimRight_all hall, trimLeft_all hall]; rfl
  · have hex : ∃ x ∈ s, x ≠ c := by
      apply Classical.byContradiction
      intro hn
      apply hall
      intro x hx
      apply Classical.byContradiction
      intro hne
      exact hn ⟨x, hx, hne⟩
    obtain ⟨a, ha, hs⟩ := trimLeft_split c s
    have hu := exists_ne_trimLeft hex
    have h1 : trimRight c s = a ++ trimRight c (trimLeft c s) := by
      conv => lhs; rw [hs]
      exact trimRight_append_of_exists c a _ hu
    rw [h1, trimLeft_append_all _ ha]
    apply trimLeft_id
    -- the head of `trimRight (trimLeft s)` is the head of `trimLeft s`
    obtain ⟨rest, hrest⟩ := trimRight_prefix c (trimLeft c s)
    obtain ⟨y, hy, _⟩ := exists_ne_trimRight hu
    cases htr : trimRight c (trimLeft c s) with
    | nil => rw [htr] at hy; simp at hy
    | cons z zs =>
      rw [htr] at hrest
      have := trimLeft_head c s
      rw [← hrest] at this
      simpa using this

end Str

/-- a root path made of slashes only has no token (`/`) or the single empty token -/
theorem tokenize_all_slash {R : Str} (h : ∀ x ∈ R, x = '/') : tokenize R = [] ∨ tokenize R = [[]] := by
  unfold tokenize
  by_cases hR : R = ['/']
  · left; simp [hR]
  · right
    rw [if_neg hR]
    unfold trim
    rw [trimLeft_all h]
    rfl

/-- **the tokens of a root path lead the tokens of every route path built on it**
    (`concatPath`, default strategy), and when nothing follows them the route path ends in `/` -/
theorem tokenize_concatPath (R rel : Str) (hR : ∃ x ∈ R, x ≠ '/') :
    ∃ ext, tokenize (concatPath R rel) = tokenize R ++ ext ∧
      (ext = [] → (concatPath R rel).getLast? = some '/') := by
  have hA := exists_ne_trimRight hR
  have hAlast := trimRight_getLast '/' R
  have hBhead := trimLeft_head '/' rel
  unfold concatPath
  generalize hAd : trimRight '/' R = A at hA hAlast
  generalize trimLeft '/' rel = B at hBhead
  have hAne : A ≠ [] := by
    intro e; subst e
    obtain ⟨x, hx, _⟩ := hA
    simp at hx
  have hp1 : A ++ '/' :: B ≠ ['/'] := by
    intro e
    cases A with
    | nil => exact hAne rfl
    | cons a A' =>
      simp only [List.cons_append, List.cons.injEq] at e
      cases A' <;> simp at e
  have hR1 : R ≠ ['/'] := by
    intro e; subst e
    obtain ⟨x, hx, hne⟩ := hR
    simp only [List.mem_singleton] at hx
    exact hne hx
  -- `T`: the root without its outer slashes
  have hT : trimLeft '/' A = trim '/' R := by
    rw [← hAd, trim_comm]; rfl
  have hTex : ∃ x ∈ trim '/' R, x ≠ '/' := by rw [← hT]; exact exists_ne_trimLeft hA
  have hTlast : (trim '/' R).getLast? ≠ some '/' := trimRight_getLast '/' _
  simp only [tokenize, hp1, hR1, if_false]
  have hl : trimLeft '/' (A ++ '/' :: B) = trim '/' R ++ '/' :: B := by
    rw [trimLeft_append_of_exists _ _ _ hA, hT]
  conv => enter [1, ext, 1, 1]; rw [trim, hl]
  cases B with
  | nil =>
    refine ⟨[], ?_, fun _ => by simp⟩
    rw [trimRight_snoc, trimRight_id hTlast, List.append_nil]
  | cons b B' =>
    have hb : b ≠ '/' := by
      intro e; subst e
      exact hBhead rfl
    have hBex : ∃ x ∈ b :: B', x ≠ '/' := ⟨b, List.mem_cons_self, hb⟩
    refine ⟨split '/' (trimRight '/' (b :: B')), ?_, ?_⟩
    · have : trim '/' R ++ '/' :: b :: B' = (trim '/' R ++ ['/']) ++ (b :: B') := by simp
      rw [this, trimRight_append_of_exists _ _ _ hBex]
      have : (trim '/' R ++ ['/']) ++ trimRight '/' (b :: B') = trim '/' R ++ '/' :: trimRight '/' (b :: B') := by simp
      rw [this]
      exact List.splitOn_append_cons_self _ _
    · intro e
      exact absurd e (split_ne_nil _ _)

end Restful

/-! ### checked root tokens: the expressions the loop evaluates are those of `Spec.rootRegexOK` -/
namespace Restful
open Str
namespace Curly
variable (E : ReEnv)

theorem rootTokIsVar_eq (t : Str) : Spec.rootTokIsVar t = hasPrefix ['{'] t := by
  cases t <;> simp [Spec.rootTokIsVar, hasPrefix, List.isPrefixOf]

theorem re_ne_star {n e : Str} (hb : (Tok.re n e).wf = true) : e ≠ ['*'] := by
  simp only [Tok.wf, reOK, Bool.and_eq_true] at hb
  simpa using hb.2.1.1.1.1

/-- what `Spec.rootRegexOK` asks of one root token -/
def reOf (b : Tok) (q : Str) : Bool :=
  match b with
  | .re _ e => E.search e q
  | _ => true

/-- the expression step on a checked token without a verb -/
theorem reStep_render {b : Tok} (hb : b.wf = true) (q : Str) :
    reStep E b.render q = some (reOf E b q) := by
  unfold reOf
  unfold reStep
  rw [rootTokIsVar_eq]
  cases b with
  | lit l => simp [Tok.hasPrefix_render_lit hb]
  | var n => simp [Tok.hasPrefix_render_var, Tok.index_colon_render_var hb]
  | re n e =>
    simp only [Tok.hasPrefix_render_re, if_true, Tok.index_colon_render_re hb, regularMatches,
      Tok.regPart_render_re, re_ne_star hb, if_false]
    cases E.search e q <;> rfl
  | suf n sfx => simp [Tok.hasPrefix_render_suf, Tok.index_colon_render_suf hb]
  | wild n =>
    simp [Tok.hasPrefix_render_wild, Tok.index_colon_render_wild hb, regularMatches,
      Tok.regPart_render_wild]

/-- a checked token without a verb cannot raise the slice-bounds panic -/
theorem tokNoPanic_render {b : Tok} (hb : b.wf = true) : tokNoPanic b.render = true := by
  unfold tokNoPanic
  rw [rootTokIsVar_eq]
  cases b with
  | lit l => simp [Tok.hasPrefix_render_lit hb]
  | var n => simp [Tok.index_colon_render_var hb]
  | re n e => simp [Tok.index_colon_render_re hb, Tok.regPart_render_re]
  | suf n sfx => simp [Tok.index_colon_render_suf hb]
  | wild n => simp [Tok.index_colon_render_wild hb, Tok.regPart_render_wild]

theorem reAll_render : ∀ (ts : List TTok) (qs : List Str), (∀ t ∈ ts, t.wf = true ∧ t.verb = none) →
    ts.length ≤ qs.length → reAll E (ts.map TTok.render) qs = Spec.rootRegexOK E ts qs
  | [], qs, _, _ => by cases qs <;> simp [reAll, Spec.rootRegexOK]
  | _ :: _, [], _, hl => by simp at hl
  | t :: ts, q :: qs, h, hl => by
    obtain ⟨hw, hv⟩ := h t List.mem_cons_self
    have ih := reAll_render ts qs (fun x hx => h x (List.mem_cons_of_mem _ hx))
      (by simpa using hl)
    rw [List.map_cons, reAll, Spec.rootRegexOK, TTok.render_of_verb_none hv,
      reStep_render E (TTok.wf_base hw), ih]
    congr 1
    unfold reOf
    cases t.base <;> simp

/-! ### roots the specification reads the way the loop does -/

/-- the root tokens are checked template tokens without custom verbs, or they do not read as a
    template and none of them starts with `{` (e.g. the single empty token of the root `//`) -/
def RootGood (W : List Str) : Prop :=
  (∃ ts, readToks W = some ts ∧ ∀ t ∈ ts, t.verb = none) ∨
  (readToks W = none ∧ ∀ x ∈ W, Spec.rootTokIsVar x = false)

theorem RootGood.noPanic {W : List Str} (h : RootGood W) : ∀ x ∈ W, tokNoPanic x = true := by
  rcases h with ⟨ts, hts, hv⟩ | ⟨_, hn⟩
  · obtain ⟨hr, hw⟩ := readToks_render hts
    intro x hx
    rw [← hr, List.mem_map] at hx
    obtain ⟨t, ht, rfl⟩ := hx
    rw [TTok.render_of_verb_none (hv t ht)]
    exact tokNoPanic_render (TTok.wf_base (hw t ht))
  · intro x hx
    exact tokNoPanic_of_noVar (hn x hx)

theorem readToks_length {ss : List Str} {ts : List TTok} (h : readToks ss = some ts) : ts.length = ss.length := by
  have := (readToks_render h).1
  rw [← this, List.length_map]

theorem wsScore_length {qs toks : List Str} {sc : Nat} (h : wsScore qs toks = some sc) : toks.length ≤ qs.length := by
  unfold wsScore at h
  split at h
  · simp at h
  · omega

/-- **the faithful score is the specification's claim** (`Spec.claimScore`), with the regular
    expressions of root variables -/
theorem wsScoreE_claim {s : Service} (hg : RootGood (tokenize s.rootPath)) (qs : List Str) :
    wsScoreE E qs (tokenize s.rootPath) =
      match Spec.claimScore E s qs with
      | some sc => .yes sc
      | none => .no := by
  have hnp := hg.noPanic
  rcases hg with ⟨ts, hts, hv⟩ | ⟨hnone, hn⟩
  · obtain ⟨hr, hw⟩ := readToks_render hts
    rw [wsScoreE_eq E qs _ hnp]
    unfold Spec.claimScore
    rw [hts]
    cases hws : wsScore qs (tokenize s.rootPath) with
    | none => rfl
    | some sc =>
      simp only
      have hl : ts.length ≤ qs.length := by
        rw [readToks_length hts]; exact wsScore_length hws
      have hre : reAll E (tokenize s.rootPath) qs = Spec.rootRegexOK E ts qs := by
        conv => lhs; rw [← hr]
        exact reAll_render E ts qs (fun t ht => ⟨hw t ht, hv t ht⟩) hl
      rw [hre]
      cases Spec.rootRegexOK E ts qs <;> rfl
  · rw [wsScoreE_of_noVar E qs _ hn]
    unfold Spec.claimScore
    rw [hnone]
    cases wsScore qs (tokenize s.rootPath) <;> rfl

/-! ### `Config.wfTemplates` makes the root of a service with routes a good root -/

theorem readToks_append : ∀ {a b : List Str} {ts : List TTok}, readToks (a ++ b) = some ts →
    ∃ ta tb, ts = ta ++ tb ∧ readToks a = some ta ∧ readToks b = some tb
  | [], b, ts, h => ⟨[], ts, rfl, rfl, h⟩
  | x :: a, b, ts, h => by
    rw [List.cons_append] at h
    unfold readToks at h
    split at h
    · rename_i t ts' h1 h2
      simp only [Option.some.injEq] at h
      subst h
      obtain ⟨ta, tb, rfl, ha, hb⟩ := readToks_append h2
      refine ⟨t :: ta, tb, rfl, ?_, hb⟩
      unfold readToks
      rw [h1, ha]
    · simp at h

theorem shapeOK_append_verb : ∀ (a b : List TTok), shapeOK (a ++ b) = true → b ≠ [] → ∀ t ∈ a, t.verb = none
  | [], _, _, _ => by simp
  | x :: a, b, h, hb => by
    have hne : a ++ b ≠ [] := by simp [hb]
    obtain ⟨y, ys, hy⟩ := List.exists_cons_of_ne_nil hne
    rw [List.cons_append, hy] at h
    simp only [shapeOK, Bool.and_eq_true, Bool.not_eq_true', Option.isNone_iff_eq_none] at h
    rw [← hy] at h
    intro t ht
    simp only [List.mem_cons] at ht
    rcases ht with rfl | ht
    · exact h.1.2
    · exact shapeOK_append_verb a b h.2 hb t ht

theorem shapeOK_noLastVerb : ∀ (a : List TTok), shapeOK a = true → lastHasVerb a = false → ∀ t ∈ a, t.verb = none
  | [], _, _ => by simp
  | [t], _, hl => by
    intro x hx
    simp only [List.mem_singleton] at hx
    subst hx
    simpa [lastHasVerb] using hl
  | t :: t' :: ts, h, hl => by
    simp only [shapeOK, Bool.and_eq_true, Bool.not_eq_true', Option.isNone_iff_eq_none] at h
    rw [lastHasVerb_cons_cons] at hl
    intro x hx
    simp only [List.mem_cons] at hx
    rcases hx with rfl | hx
    · exact h.1.2
    · exact shapeOK_noLastVerb (t' :: ts) h.2 hl x (by simpa using hx)

/-- a path ending in `/` does not read as carrying a custom verb -/
theorem hasCustomVerb_of_trailing_slash {p : Str} (h : p.getLast? = some '/') : hasCustomVerb p = false := by
  obtain ⟨p', rfl⟩ : ∃ p', p = p' ++ ['/'] := by
    have hh : p.reverse.head? = some '/' := by rw [List.head?_reverse]; exact h
    cases hr : p.reverse with
    | nil => rw [hr] at hh; simp at hh
    | cons c r =>
      rw [hr] at hh
      simp only [List.head?_cons, Option.some.injEq] at hh
      subst hh
      refine ⟨r.reverse, ?_⟩
      have := congrArg List.reverse hr
      simpa using this
  unfold hasCustomVerb customVerbOf splitLastColon
  simp only [List.reverse_append, List.reverse_cons, List.reverse_nil, List.nil_append,
    List.singleton_append]
  have hd : List.dropWhile (fun x => x != ':') ('/' :: p'.reverse) = List.dropWhile (fun x => x != ':') p'.reverse := by
    simp
  have ht : List.takeWhile (fun x => x != ':') ('/' :: p'.reverse) = '/' :: List.takeWhile (fun x => x != ':') p'.reverse := by
    simp
  rw [hd, ht]
  cases List.dropWhile (fun x => x != ':') p'.reverse with
  | nil => rfl
  | cons c rest =>
    simp only
    have : (('/' :: List.takeWhile (fun x => x != ':') p'.reverse).reverse).all isLetter = false := by
      rw [List.all_eq_false]
      exact ⟨'/', by simp, by decide⟩
    rw [this]
    simp

/-- the root of a service one of whose routes reads as a template is a good root -/
theorem rootGood_of_route {s : Service} {rt : Route} (hrt : rt ∈ s.built) {ts : List TTok}
    (hts : readTemplate rt.path = some ts) : RootGood (tokenize s.rootPath) := by
  obtain ⟨_, _, hshape, hverb, _⟩ := readTemplate_facts hts
  have hread : readToks (tokenize rt.path) = some ts := by
    unfold readTemplate at hts
    split at hts
    · rename_i ts' hr
      split at hts
      · simp only [Option.some.injEq] at hts
        rw [← hts]; exact hr
      · simp at hts
    · simp at hts
  have hpath : ∃ rel, rt.path = concatPath s.rootPath rel := by
    unfold Service.built at hrt
    rw [List.mem_map] at hrt
    obtain ⟨r, _, rfl⟩ := hrt
    exact ⟨r.relPath, rfl⟩
  obtain ⟨rel, hpath⟩ := hpath
  by_cases hall : ∀ x ∈ s.rootPath, x = '/'
  · rcases tokenize_all_slash hall with h0 | h1
    · left
      rw [h0]
      exact ⟨[], rfl, by simp⟩
    · right
      rw [h1]
      exact ⟨by decide, by simp [Spec.rootTokIsVar]⟩
  · have hex : ∃ x ∈ s.rootPath, x ≠ '/' := by
      apply Classical.byContradiction
      intro hn
      apply hall
      intro x hx
      apply Classical.byContradiction
      intro hne
      exact hn ⟨x, hx, hne⟩
    obtain ⟨ext, htok, hext⟩ := tokenize_concatPath s.rootPath rel hex
    rw [hpath, htok] at hread
    obtain ⟨ta, tb, rfl, ha, hb⟩ := readToks_append hread
    left
    refine ⟨ta, ha, ?_⟩
    by_cases htb : tb = []
    · subst htb
      have hext0 : ext = [] := by
        have := readToks_length hb
        simpa using this.symm
      have hlast := hext hext0
      rw [← hpath] at hlast
      rw [hasCustomVerb_of_trailing_slash hlast, List.append_nil] at hverb
      rw [List.append_nil] at hshape
      exact shapeOK_noLastVerb ta hshape hverb.symm
    · exact shapeOK_append_verb ta tb hshape htb

end Curly
end Restful

/-! ### C03's service-level ranking facts, on the score the router computes -/
namespace Restful

/-- **C03, service level** (faithful score): a root with a literal where the other has a variable
    (same shape otherwise) scores higher, whenever both roots claim the request -/
theorem C03_rootE_literal_beats_variable (E : ReEnv) (qs a b : List Str) (hne : ∀ t ∈ a, t ≠ [])
    (h : Spec.rootMoreSpecific a b = true) (sa sb : Nat)
    (ha : Curly.wsScoreE E qs a = .yes sa) (hb : Curly.wsScoreE E qs b = .yes sb) : sa > sb :=
  C03_root_literal_beats_variable qs a b hne h sa sb (Curly.wsScore_of_wsScoreE E ha)
    (Curly.wsScore_of_wsScoreE E hb)

/-- **C03, service level** (faithful score): a longer root scores higher than its own proper
    prefix, whenever both claim the request -/
theorem C03_rootE_longer_beats_prefix (E : ReEnv) (qs a b : List Str) (hpre : b <+: a) (hne : b ≠ a) (sa sb : Nat)
    (ha : Curly.wsScoreE E qs a = .yes sa) (hb : Curly.wsScoreE E qs b = .yes sb) : sa > sb :=
  C03_root_longer_beats_prefix qs a b hpre hne sa sb (Curly.wsScore_of_wsScoreE E ha)
    (Curly.wsScore_of_wsScoreE E hb)

end Restful
