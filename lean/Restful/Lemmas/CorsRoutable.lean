/-
C09, strict reading of "the methods routable at that URL": the link between
`computeAllowedMethods` (container.go:426) and RouterJSR311's own candidate selection
(jsr311.go:181, 213), outside the class of finding F14 (several roots match the URL).
-/
import Restful.Lemmas.Cors
import Restful.Lemmas.JsrSelect
import Restful.Model.Route
namespace Restful
open Str Cors

namespace Cors
variable (E : ReEnv)

/-- every candidate the dispatcher loop could produce is produced (all roots compile) -/
theorem dispCandidates_complete : ∀ (svcs : List Service) (path : Str),
    (∀ s ∈ svcs, (Jsr.compile s.rootPath).isSome = true) →
    ∃ cs, Jsr.dispCandidates E svcs path = some cs ∧
      ∀ s ∈ svcs, ∀ ex caps final, Jsr.compile s.rootPath = some ex →
        Jsr.matchExpr E ex.toks path = some (caps, final) → ∃ c ∈ cs, c.svc = s ∧ c.finalMatch = final
  | [], path, _ => ⟨[], rfl, by simp⟩
  | s :: ss, path, hc => by
    obtain ⟨cs, hcs, hall⟩ := dispCandidates_complete ss path (fun x hx => hc x (List.mem_cons_of_mem _ hx))
    obtain ⟨ex, hex⟩ := Option.isSome_iff_exists.mp (hc s List.mem_cons_self)
    unfold Jsr.dispCandidates
    simp only [hex]
    cases hm : Jsr.matchExpr E ex.toks path with
    | none =>
      refine ⟨cs, hcs, ?_⟩
      intro x hx ex' caps final hex' hm'
      rcases List.mem_cons.mp hx with rfl | hx
      · rw [hex] at hex'; cases hex'; rw [hm] at hm'; cases hm'
      · exact hall x hx ex' caps final hex' hm'
    | some cf =>
      obtain ⟨caps0, final0⟩ := cf
      simp only [hcs, Option.map_some]
      refine ⟨_, rfl, ?_⟩
      intro x hx ex' caps final hex' hm'
      rcases List.mem_cons.mp hx with rfl | hx
      · rw [hex] at hex'; cases hex'; rw [hm] at hm'; cases hm'
        exact ⟨_, List.mem_cons_self, rfl, rfl⟩
      · obtain ⟨c, hcm, h1, h2⟩ := hall x hx ex' caps final hex' hm'
        exact ⟨c, List.mem_cons_of_mem _ hcm, h1, h2⟩

/-- every candidate the route loop could produce is produced (all route templates compile) -/
theorem routeCandidates_complete : ∀ (routes : List Route) (rem : Str),
    (∀ r ∈ routes, (Jsr.compile r.relPath).isSome = true) →
    ∃ cs, Jsr.routeCandidates E routes rem = some cs ∧
      ∀ r ∈ routes, ∀ ex caps final, Jsr.compile r.relPath = some ex →
        Jsr.matchExpr E ex.toks rem = some (caps, final) → (final = [] ∨ final = ['/']) → ∃ c ∈ cs, c.route = r
  | [], rem, _ => ⟨[], rfl, by simp⟩
  | r :: rs, rem, hc => by
    obtain ⟨cs, hcs, hall⟩ := routeCandidates_complete rs rem (fun x hx => hc x (List.mem_cons_of_mem _ hx))
    obtain ⟨ex, hex⟩ := Option.isSome_iff_exists.mp (hc r List.mem_cons_self)
    unfold Jsr.routeCandidates
    simp only [hex]
    cases hm : Jsr.matchExpr E ex.toks rem with
    | none =>
      refine ⟨cs, hcs, ?_⟩
      intro x hx ex' caps final hex' hm' hf
      rcases List.mem_cons.mp hx with rfl | hx
      · rw [hex] at hex'; cases hex'; rw [hm] at hm'; cases hm'
      · exact hall x hx ex' caps final hex' hm' hf
    | some cf =>
      obtain ⟨caps0, final0⟩ := cf
      by_cases hfin : (final0.isEmpty || final0 = ['/']) = true
      · simp only [hfin, if_true, hcs, Option.map_some]
        refine ⟨_, rfl, ?_⟩
        intro x hx ex' caps final hex' hm' hf
        rcases List.mem_cons.mp hx with rfl | hx
        · exact ⟨_, List.mem_cons_self, rfl⟩
        · obtain ⟨c, hcm, h1⟩ := hall x hx ex' caps final hex' hm' hf
          exact ⟨c, List.mem_cons_of_mem _ hcm, h1⟩
      · simp only [hfin]
        refine ⟨cs, hcs, ?_⟩
        intro x hx ex' caps final hex' hm' hf
        rcases List.mem_cons.mp hx with rfl | hx
        · rw [hex] at hex'; cases hex'; rw [hm] at hm'; cases hm'
          exfalso; apply hfin
          rcases hf with rfl | rfl <;> simp
        · exact hall x hx ex' caps final hex' hm' hf

/-- if `computeAllowedMethods` answers, every root compiles, and every route of every service whose
    root matches the URL compiles -/
theorem computeAllowedMethods_compiles : ∀ (svcs : List Service) (path : Str) (ms : List Str),
    computeAllowedMethods E svcs path = some ms →
    (∀ s ∈ svcs, (Jsr.compile s.rootPath).isSome = true) ∧
    (∀ s ∈ svcs, Spec.rootMatches E s path = true → ∀ r ∈ s.routes, (Jsr.compile r.relPath).isSome = true)
  | [], _, _, _ => by simp
  | s :: ss, path, ms, h => by
    unfold computeAllowedMethods at h
    cases hc : Jsr.compile s.rootPath with
    | none => simp [hc] at h
    | some ex =>
      simp only [hc] at h
      cases hm : Jsr.matchExpr E ex.toks path with
      | none =>
        simp only [hm] at h
        obtain ⟨h1, h2⟩ := computeAllowedMethods_compiles ss path ms h
        refine ⟨?_, ?_⟩
        · intro x hx
          rcases List.mem_cons.mp hx with rfl | hx
          · simp [hc]
          · exact h1 x hx
        · intro x hx hxm
          rcases List.mem_cons.mp hx with rfl | hx
          · simp [Spec.rootMatches, hc, hm] at hxm
          · exact h2 x hx hxm
      | some cf =>
        obtain ⟨caps, final⟩ := cf
        simp only [hm] at h
        cases ha : routeMethods E s.routes final with
        | none => simp [ha] at h
        | some a =>
          cases hb : computeAllowedMethods E ss path with
          | none => simp [ha, hb] at h
          | some b =>
            obtain ⟨h1, h2⟩ := computeAllowedMethods_compiles ss path b hb
            refine ⟨?_, ?_⟩
            · intro x hx
              rcases List.mem_cons.mp hx with rfl | hx
              · simp [hc]
              · exact h1 x hx
            · intro x hx hxm
              rcases List.mem_cons.mp hx with rfl | hx
              · -- routeMethods answered: every route template compiled
                clear h hb h1 h2 hxm hx
                have : ∀ (rts : List RouteDecl) (a : List Str), routeMethods E rts final = some a →
                    ∀ r ∈ rts, (Jsr.compile r.relPath).isSome = true := by
                  intro rts
                  induction rts with
                  | nil => simp
                  | cons r rs ih =>
                    intro a ha r' hr'
                    unfold routeMethods at ha
                    cases hcr : Jsr.compile r.relPath with
                    | none => simp [hcr] at ha
                    | some rex =>
                      simp only [hcr] at ha
                      rcases List.mem_cons.mp hr' with rfl | hr'
                      · simp [hcr]
                      · cases hmr : Jsr.matchExpr E rex.toks final with
                        | none => simp only [hmr] at ha; exact ih a ha r' hr'
                        | some cf' =>
                          simp only [hmr] at ha
                          split at ha
                          · cases hrest : routeMethods E rs final with
                            | none => simp [hrest] at ha
                            | some b' => exact ih b' hrest r' hr'
                          · exact ih a ha r' hr'
                exact this x.routes a ha
              · exact h2 x hx hxm

/-- a method among the methods routable at the URL comes from a route of a service -/
theorem mem_methodsAt {tbl : Config} {path : Str} {m : Str} (h : m ∈ Spec.methodsAt E tbl path) :
    ∃ s ∈ tbl.services, ∃ r ∈ s.routes, Spec.routableAt E s r path = true ∧ r.method = m := by
  simp only [Spec.methodsAt, List.mem_flatMap, List.mem_map, List.mem_filter] at h
  obtain ⟨s, hs, r, ⟨hr, hro⟩, hm⟩ := h
  exact ⟨s, hs, r, hr, hro, hm⟩

theorem eq_of_mem_short {α : Type} : ∀ {l : List α}, l.length < 2 → ∀ {a b : α}, a ∈ l → b ∈ l → a = b
  | [], _, _, _, ha, _ => by simp at ha
  | [x], _, a, b, ha, hb => by
    simp only [List.mem_singleton] at ha hb
    rw [ha, hb]
  | _ :: _ :: _, h, _, _, _, _ => by simp only [List.length_cons] at h; omega

/-- with at most one matching root, two matching services are the same -/
theorem matching_unique {tbl : Config} {path : Str} (h : Spec.severalRootsMatch E tbl path = false)
    {s₁ s₂ : Service} (h1 : s₁ ∈ tbl.services) (h2 : s₂ ∈ tbl.services)
    (m1 : Spec.rootMatches E s₁ path = true) (m2 : Spec.rootMatches E s₂ path = true) : s₁ = s₂ := by
  have hl : (tbl.services.filter (fun s => Spec.rootMatches E s path)).length < 2 := by
    unfold Spec.severalRootsMatch Spec.rootsMatching at h
    have := of_decide_eq_false h
    omega
  exact eq_of_mem_short hl (List.mem_filter.mpr ⟨h1, m1⟩) (List.mem_filter.mpr ⟨h2, m2⟩)

end Cors
end Restful

namespace Restful
open Str Cors
namespace Cors
variable (lower : Str → Str) (E : ReEnv)

/-- a preflight from an allowed origin on COMPUTED methods that got an answer: the table compiled -/
theorem corsOut_preflight_computed (cc : CorsCfg) (tbl : Config) (rq : CorsReq) (out : Out)
    (h : Spec.originAllowed lower cc rq.origin = true) (hp : Spec.isPreflight rq = true)
    (hcomp : cc.allowedMethods = []) (ho : corsOut lower E cc tbl rq = some out) :
    ∃ ms, computeAllowedMethods E tbl.services rq.path = some ms := by
  have h0 := origin_ne_of_allowed lower cc rq.origin h
  have ha : isOriginAllowed lower cc rq.origin = true := by rw [isOriginAllowed_eq]; exact h
  simp only [Spec.isPreflight, Bool.and_eq_true, beq_iff_eq, Bool.not_eq_true', List.isEmpty_eq_false_iff] at hp
  obtain ⟨hm, hacrm⟩ := hp
  unfold corsOut at ho
  simp only [h0, if_false, ha, Bool.not_true, Bool.false_eq_true, hm, ne_eq, not_true_eq_false, hacrm,
    not_false_eq_true, if_true] at ho
  unfold doPreflightRequest at ho
  simp only [hcomp, List.length_nil, if_true] at ho
  cases hc : computeAllowedMethods E tbl.services rq.path with
  | none => simp [hc] at ho
  | some ms => exact ⟨ms, rfl⟩

/-- Outside the class of F14 (at most one root matches the URL): a method that
    `computeAllowedMethods` lists is the method of a route RouterJSR311 itself finds for that URL —
    its dispatcher picks the one matching service and its candidate list contains such a route. -/
theorem computed_method_routable_jsr (tbl : Config) (path : Str) (ms : List Str) (m : Str)
    (hc : computeAllowedMethods E tbl.services path = some ms) (hm : m ∈ ms)
    (hF14 : Spec.severalRootsMatch E tbl path = false) :
    ∃ svc final cands, Jsr.detectDispatcher E tbl.services path = some (some (svc, final)) ∧
      Jsr.selectRoutes E svc.built final = some cands ∧ ∃ r ∈ cands, r.method = m := by
  obtain ⟨hroots, hroutes⟩ := computeAllowedMethods_compiles E tbl.services path ms hc
  rw [computeAllowedMethods_eq_methodsAt E tbl path ms hc] at hm
  obtain ⟨s, hs, r, hr, hro, hmeth⟩ := mem_methodsAt E hm
  -- the service's root matches, the route's expression matches the rest
  unfold Spec.routableAt at hro
  cases hwex : Jsr.compile s.rootPath with
  | none => simp [hwex] at hro
  | some wex =>
    simp only [hwex] at hro
    cases hwm : Jsr.matchExpr E wex.toks path with
    | none => simp [hwm] at hro
    | some cf =>
      obtain ⟨wcaps, final⟩ := cf
      simp only [hwm] at hro
      have hsm : Spec.rootMatches E s path = true := by simp [Spec.rootMatches, hwex, hwm]
      -- the dispatcher
      obtain ⟨cs, hcs, hall⟩ := dispCandidates_complete E tbl.services path hroots
      obtain ⟨c, hcm, hcsvc, hcfin⟩ := hall s hs wex wcaps final hwex hwm
      have hdisp : Jsr.detectDispatcher E tbl.services path = some (some (s, final)) := by
        unfold Jsr.detectDispatcher
        simp only [hcs, Option.map_some, Option.some.injEq]
        have hperm := Sort.insertionSort_perm Jsr.dispCandLess cs
        cases hsort : Sort.insertionSort Jsr.dispCandLess cs with
        | nil =>
          rw [hsort] at hperm
          have := hperm.symm.subset hcm
          simp at this
        | cons c' rest =>
          have hc'm : c' ∈ cs := hperm.subset (hsort ▸ List.mem_cons_self)
          obtain ⟨hc's, ex', caps', hex', hm'⟩ := Jsr.dispCandidates_mem E hcs c' hc'm
          have hc'match : Spec.rootMatches E c'.svc path = true := by simp [Spec.rootMatches, hex', hm']
          have heq : c'.svc = s := matching_unique E hF14 hc's hs hc'match hsm
          rw [heq, hwex] at hex'
          cases hex'
          rw [hwm] at hm'
          simp only [Option.some.injEq, Prod.mk.injEq] at hm'
          simp [heq, ← hm'.2]
      -- the route candidates of that service
      have hbuilt : ∀ x ∈ s.built, (Jsr.compile x.relPath).isSome = true := by
        intro x hx
        simp only [Service.built, List.mem_map] at hx
        obtain ⟨rd, hrd, rfl⟩ := hx
        exact hroutes s hs hsm rd hrd
      obtain ⟨cs2, hcs2, hall2⟩ := routeCandidates_complete E s.built final hbuilt
      unfold Spec.routeOK at hro
      cases hrex : Jsr.compile r.relPath with
      | none => simp [hrex] at hro
      | some rex =>
        simp only [hrex] at hro
        cases hrm : Jsr.matchExpr E rex.toks final with
        | none => simp [hrm] at hro
        | some cf2 =>
          obtain ⟨rcaps, last⟩ := cf2
          simp only [hrm, Bool.or_eq_true, beq_iff_eq] at hro
          have hbr : s.build r ∈ s.built := List.mem_map.mpr ⟨r, hr, rfl⟩
          obtain ⟨c2, hc2m, hc2r⟩ := hall2 (s.build r) hbr rex rcaps last hrex hrm hro
          refine ⟨s, final, (Sort.insertionSort Jsr.routeCandLess cs2).map (·.route), hdisp, ?_, s.build r, ?_, hmeth⟩
          · unfold Jsr.selectRoutes
            rw [hcs2]
            rfl
          · simp only [List.mem_map]
            exact ⟨c2, (Sort.insertionSort_perm Jsr.routeCandLess cs2).symm.subset hc2m, hc2r⟩

end Cors
end Restful

namespace Restful
open Str Cors
namespace Cors
variable (E : ReEnv)

/-- … and therefore a request with that method to that URL is not answered 404 or 405 by
    RouterJSR311 (provided the If-conditions of the service's routes hold for it: user code). -/
theorem computed_method_not_404_405_jsr (tbl : Config) (path : Str) (ms : List Str) (m : Str)
    (hc : computeAllowedMethods E tbl.services path = some ms) (hm : m ∈ ms)
    (hF14 : Spec.severalRootsMatch E tbl path = false)
    (req : Req) (hmeth : req.method = m) (hpath : req.path = path)
    (hconds : ∀ s ∈ tbl.services, ∀ r ∈ s.built, passesConds r req = true) (a : Option (List Str)) :
    (routeJsr E tbl req).1 ≠ .error 404 a ∧ (routeJsr E tbl req).1 ≠ .error 405 a := by
  obtain ⟨svc, final, cands, hdisp, hsel, r, hr, hrm⟩ := computed_method_routable_jsr E tbl path ms m hc hm hF14
  have hsvc := (Jsr.detectDispatcher_mem E hdisp).1
  unfold routeJsr
  rw [hpath, hdisp]
  simp only [hsel]
  cases hcands : cands with
  | nil => rw [hcands] at hr; simp at hr
  | cons c0 crest =>
    simp only
    rw [← hcands]
    -- every candidate passes its conditions; `r` has the method
    have hc1 : cands.filter (passesConds · req) = cands := by
      apply List.filter_eq_self.mpr
      intro x hx
      exact hconds svc hsvc x (Jsr.selectRoutes_mem E hsel hx).1
    have hc2 : r ∈ (cands.filter (passesConds · req)).filter (fun x => req.method = x.method) := by
      rw [hc1]
      exact List.mem_filter.mpr ⟨hr, by simp [hmeth, hrm]⟩
    have hne1 : (cands.filter (passesConds · req)).isEmpty = false := by
      rw [hc1, hcands]; rfl
    have hne2 : ((cands.filter (passesConds · req)).filter (fun x => req.method = x.method)).isEmpty = false := by
      cases hl : (cands.filter (passesConds · req)).filter (fun x => req.method = x.method) with
      | nil => rw [hl] at hc2; simp at hc2
      | cons _ _ => rfl
    cases hd : detectRoute cands req with
    | error ca =>
      obtain ⟨code, al⟩ := ca
      have hcode : code ≠ 404 ∧ code ≠ 405 := by
        unfold detectRoute at hd
        simp only [hne1, hne2, Bool.false_eq_true, if_false] at hd
        split at hd
        · cases hd; simp
        · split at hd
          · split at hd <;> · cases hd; simp
          · cases hd
      simp only [ne_eq, Outcome.error.injEq, not_and]
      exact ⟨fun h => absurd h hcode.1, fun h => absurd h hcode.2⟩
    | ok r' =>
      simp only
      cases Jsr.extract E svc r' path <;> simp

end Cors
end Restful
