/-
The tie between the translated decision functions (Gen/Translated.lean, regenerated from the Go
sources by tools/gotrans on every run) and the hand-written models: the model's definitions ARE
the translated ones, for all arguments.  A change to one of these Go functions changes the
generated definition and breaks the corresponding theorem here at compile time.  One file per
group of properties, so that a change breaks the obligations of the properties it concerns only.
This file: the three orderings and the sort call sites (C03, C18).
-/
import Restful.Gen.Translated
import Restful.Model.Curly
import Restful.Model.Jsr
namespace Restful
namespace Tie
open Translated

/-- a leaf of a comparison function after all its `if`s are split: a Boolean combination of integer
    comparisons (`<`, `>`, `==` joined by `||` / `&&` when the cascade is written as one expression) against
    the model's; as propositions both sides are linear arithmetic -/
local macro "order_leaf" : tactic => `(tactic|
  first
  | rfl
  | (simp_all <;> omega)
  | (simp_all; omega)
  | (simp_all; done)
  | (rw [Bool.eq_iff_iff]
     simp only [Bool.or_eq_true, Bool.and_eq_true, Bool.not_eq_true', decide_eq_true_eq, decide_eq_false_iff_not,
       beq_iff_eq, bne_iff_ne, ne_eq]
     omega))

/-- curly_route.go `sortableCurlyRoutes.Less(i, j)` with `x = s[i]`, `y = s[j]` is `Curly.candLess x y` -/
theorem curly_less (x y : Curly.Cand) :
    sortableCurlyRoutes_Less y.staticCount x.staticCount y.paramCount x.paramCount y.route.path x.route.path
      = Curly.candLess x y := by
  unfold sortableCurlyRoutes_Less Curly.candLess
  repeat' split
  all_goals order_leaf

/-- jsr311.go `sortableRouteCandidates.Less` under `sort.Reverse` (`Less(i, j) = orig.Less(j, i)`):
    with `x` at `i` and `y` at `j` the original is called with `ci = y`, `cj = x` -/
theorem jsr_route_less (x y : Jsr.RouteCand) :
    sortableRouteCandidates_Less y.literalCount x.literalCount y.matchesCount x.matchesCount
      y.nonDefaultCount x.nonDefaultCount y.route.path x.route.path = Jsr.routeCandLess x y := by
  unfold sortableRouteCandidates_Less Jsr.routeCandLess
  repeat' split
  all_goals order_leaf

/-- jsr311.go `sortableDispatcherCandidates.Less` under `sort.Reverse` -/
theorem jsr_dispatcher_less (x y : Jsr.DispCand) :
    sortableDispatcherCandidates_Less y.matchesCount x.matchesCount y.literalCount x.literalCount
      y.nonDefaultCount x.nonDefaultCount = Jsr.dispCandLess x y := by
  unfold sortableDispatcherCandidates_Less Jsr.dispCandLess
  repeat' split
  all_goals order_leaf

/-- which ordering is applied where, and by which algorithm: `sort.Sort` (insertion sort up to 12
    elements, which is stable) or `sort.Stable` (stable at every size: what the model's insertion
    sort is) on the curly candidates, the same under `sort.Reverse` on both JSR311 candidate lists;
    no other use of package sort on the request path (mime.go inserts by hand) -/
def sortSiteOK (p : String × String) : Bool :=
  match p.1 with
  | "CurlyRouter.selectRoutes" => p.2 == "sort.Sort(candidates)" || p.2 == "sort.Stable(candidates)"
  | "RouterJSR311.selectRoutes" | "RouterJSR311.detectDispatcher" =>
      p.2 == "sort.Sort(sort.Reverse(filtered))" || p.2 == "sort.Stable(sort.Reverse(filtered))"
  | "Parameter.AllowableValues" => true
  | _ => false

theorem sort_call_sites :
    sortCalls.map Prod.fst = ["CurlyRouter.selectRoutes", "RouterJSR311.selectRoutes",
      "RouterJSR311.detectDispatcher", "Parameter.AllowableValues"] ∧ sortCalls.all sortSiteOK = true := by
  decide

end Tie
end Restful
