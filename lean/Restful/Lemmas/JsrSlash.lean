/-
C14 for RouterJSR311 (default path strategy): a request for a path `p` that does not end in `/`
and the request for `p ++ "/"` have the same outcome (status, selected route, path parameters,
Allow header), on tables without a tail wildcard whose regex variables do not match the empty
segment (`Jsr.slashSafe`).

Shape of the proof: `matchExpr` on `p ++ "/"` is `matchExpr` on `p` with the final group extended
by `/` (`matchExpr_append_slash`); the final group is a suffix of the path, so it is again empty or
does not end in `/` (`matchExpr_suffix`, `NoTS.of_suffix`); the dispatcher candidates keep their
sort keys, so the insertion sort picks the corresponding head (`insertionSort_map`); at route level
the candidate test `final = "" ∨ final = "/"` is preserved, so `routeCandidates`, `selectRoutes`,
`detectRoute` (which does not look at the path) and `extract` agree.
-/
import Restful.Model.Route
import Restful.Lemmas.JsrSelect
namespace Restful
namespace Jsr

/-- a token that cannot be satisfied by the empty last segment a trailing `/` adds, and is not the
    tail wildcard -/
def tokSlashSafe (E : ReEnv) : JTok → Prop
  | .lit s => s ≠ []
  | .var _ => True
  | .re _ e => E.full e [] = false
  | .wild _ => False

/-- no compiled template of the table contains the tail wildcard, and no regex variable of the
    table matches the empty segment -/
def slashSafe (E : ReEnv) (cfg : Config) : Prop :=
  ∀ svc ∈ cfg.services,
    (∀ ex, compile svc.rootPath = some ex → ∀ t ∈ ex.toks, tokSlashSafe E t) ∧
    (∀ rt ∈ svc.built, ∀ ex, compile rt.relPath = some ex → ∀ t ∈ ex.toks, tokSlashSafe E t)

/-- `tokSlashSafe` plus "a literal contains no `/`", which holds of every compiled template
    (`compile_tokOK`) and is what the matching lemma needs of an arbitrary token list -/
def tokOK (E : ReEnv) : JTok → Prop
  | .lit s => s ≠ [] ∧ '/' ∉ s
  | .var _ => True
  | .re _ e => E.full e [] = false
  | .wild _ => False

/-- the path is empty or does not end in `/` -/
def NoTS (p : Str) : Prop := p.getLast? ≠ some '/'

theorem takeWhile_append_slash (r : Str) :
    (r ++ ['/']).takeWhile (· != '/') = r.takeWhile (· != '/') := by
  induction r with
  | nil => simp
  | cons c r ih =>
    simp only [List.cons_append, List.takeWhile_cons]
    split <;> simp [ih]

theorem dropWhile_append_slash (r : Str) :
    (r ++ ['/']).dropWhile (· != '/') = r.dropWhile (· != '/') ++ ['/'] := by
  induction r with
  | nil => simp
  | cons c r ih =>
    simp only [List.cons_append, List.dropWhile_cons]
    split <;> simp [ih]

theorem NoTS.of_suffix {s p : Str} (h : s <:+ p) (hp : NoTS p) : NoTS s := by
  obtain ⟨t, rfl⟩ := h
  unfold NoTS at *
  cases s with
  | nil => simp
  | cons c s => 
    rw [List.getLast?_append] at hp
    simpa using hp

private theorem matchExpr_nil (E : ReEnv) (rest : Str) :
    matchExpr E [] rest =
      if (rest.isEmpty || rest.head? == some '/') && !List.contains rest '\n' then some ([], rest) else none := by
  simp only [matchExpr]

private theorem matchExpr_cons_nil (E : ReEnv) (t : JTok) (ts : List JTok) : matchExpr E (t :: ts) [] = none := by
  simp only [matchExpr]

private theorem matchExpr_cons_ne (E : ReEnv) (t : JTok) (ts : List JTok) (c : Char) (r : Str) (hc : c ≠ '/') :
    matchExpr E (t :: ts) (c :: r) = none := by
  unfold matchExpr
  split
  · rename_i r' heq
    simp only [List.cons.injEq] at heq
    exact absurd heq.1 hc
  · rfl

private theorem matchExpr_lit (E : ReEnv) (l : Str) (ts : List JTok) (r : Str) :
    matchExpr E (.lit l :: ts) ('/' :: r) =
      if l.isPrefixOf r then matchExpr E ts (r.drop l.length) else none := by
  simp only [matchExpr]

private theorem matchExpr_var (E : ReEnv) (n : Str) (ts : List JTok) (r : Str) :
    matchExpr E (.var n :: ts) ('/' :: r) =
      if (r.takeWhile (· != '/')).isEmpty then none
      else (matchExpr E ts (r.dropWhile (· != '/'))).map (fun cf => (r.takeWhile (· != '/') :: cf.1, cf.2)) := by
  simp only [matchExpr]

private theorem matchExpr_re (E : ReEnv) (n e : Str) (ts : List JTok) (r : Str) :
    matchExpr E (.re n e :: ts) ('/' :: r) =
      if E.full e (r.takeWhile (· != '/')) then
        (matchExpr E ts (r.dropWhile (· != '/'))).map (fun cf => (r.takeWhile (· != '/') :: cf.1, cf.2))
      else none := by
  simp only [matchExpr]

theorem matchExpr_suffix (E : ReEnv) (ts : List JTok) :
    ∀ (p : Str) (caps : List Str) (f : Str), matchExpr E ts p = some (caps, f) → f <:+ p := by
  induction ts with
  | nil =>
    intro p caps f h
    rw [matchExpr_nil] at h
    split at h
    · simp only [Option.some.injEq, Prod.mk.injEq] at h
      rw [h.2]; exact List.suffix_refl _
    · cases h
  | cons t ts ih =>
    intro p caps f h
    have hmap : ∀ (r : Str) (seg : Str),
        (matchExpr E ts (r.dropWhile (· != '/'))).map (fun cf => (seg :: cf.1, cf.2)) = some (caps, f) →
        f <:+ '/' :: r := by
      intro r seg h
      cases hm : matchExpr E ts (List.dropWhile (· != '/') r) with
      | none => simp [hm] at h
      | some cf =>
        simp only [hm, Option.map_some, Option.some.injEq, Prod.mk.injEq] at h
        have := ih _ cf.1 cf.2 hm
        rw [h.2] at this
        exact (this.trans (List.dropWhile_suffix _)).trans (List.suffix_cons _ _)
    cases p with
    | nil => rw [matchExpr_cons_nil] at h; cases h
    | cons c r =>
      by_cases hc : c = '/'
      · subst hc
        cases t with
        | lit l =>
          rw [matchExpr_lit] at h
          split at h
          · exact ((ih _ _ _ h).trans (List.drop_suffix _ _)).trans (List.suffix_cons _ _)
          · cases h
        | var n =>
          rw [matchExpr_var] at h
          split at h
          · cases h
          · exact hmap _ _ h
        | re n e =>
          rw [matchExpr_re] at h
          split at h
          · exact hmap _ _ h
          · cases h
        | wild n =>
          simp only [matchExpr] at h
          split at h
          · split at h
            · cases h
            · simp only [Option.some.injEq, Prod.mk.injEq] at h
              rw [← h.2]; exact List.nil_suffix
          · cases h
      · rw [matchExpr_cons_ne E t ts c r hc] at h; cases h

theorem isPrefixOf_append_slash (l r : Str) (hl : '/' ∉ l) :
    l.isPrefixOf (r ++ ['/']) = l.isPrefixOf r := by
  induction l generalizing r with
  | nil => simp
  | cons a l ih =>
    have ha : a ≠ '/' := fun h => hl (h ▸ List.mem_cons_self)
    have hl' : '/' ∉ l := fun h => hl (List.mem_cons_of_mem _ h)
    cases r with
    | nil =>
      simp only [List.nil_append, List.isPrefixOf]
      simp [ha]
    | cons b r =>
      simp only [List.cons_append, List.isPrefixOf, ih r hl']

theorem NoTS.nil : NoTS [] := by simp [NoTS]

theorem NoTS.tail {c : Char} {r : Str} (h : NoTS (c :: r)) : NoTS r :=
  NoTS.of_suffix (List.suffix_cons _ _) h

/-- KEY LEMMA: appending `/` to a path that does not end in `/` extends the final group of the
    match by `/` and changes nothing else -/
theorem matchExpr_append_slash (E : ReEnv) (ts : List JTok) (hts : ∀ t ∈ ts, tokOK E t) :
    ∀ (p : Str), NoTS p →
      matchExpr E ts (p ++ ['/']) = (matchExpr E ts p).map (fun cf => (cf.1, cf.2 ++ ['/'])) := by
  induction ts with
  | nil =>
    intro p hp
    rw [matchExpr_nil, matchExpr_nil]
    cases p with
    | nil => simp
    | cons c r =>
      simp only [List.cons_append, List.isEmpty_cons, List.head?_cons, Bool.false_or]
      have : List.contains (c :: (r ++ ['/'])) '\n' = List.contains (c :: r) '\n' := by
        simp
      rw [this]
      split <;> simp
  | cons t ts ih =>
    intro p hp
    have ht : tokOK E t := hts t List.mem_cons_self
    have ih' := ih (fun t h => hts t (List.mem_cons_of_mem _ h))
    cases p with
    | nil =>
      rw [matchExpr_cons_nil]
      simp only [List.nil_append, Option.map_none]
      cases t with
      | lit l =>
        rw [matchExpr_lit]
        obtain ⟨hne, _⟩ := ht
        cases l with
        | nil => exact absurd rfl hne
        | cons a l => simp [List.isPrefixOf]
      | var n => rw [matchExpr_var]; simp
      | re n e =>
        rw [matchExpr_re]
        have : E.full e [] = false := ht
        simp [this]
      | wild n => exact absurd ht id
    | cons c r =>
      by_cases hc : c = '/'
      · subst hc
        have hr : NoTS r := hp.tail
        have hd : NoTS (r.dropWhile (· != '/')) := hr.of_suffix (List.dropWhile_suffix _)
        simp only [List.cons_append]
        cases t with
        | lit l =>
          obtain ⟨hne, hsl⟩ := ht
          rw [matchExpr_lit, matchExpr_lit, isPrefixOf_append_slash l r hsl]
          by_cases hpre : l.isPrefixOf r = true
          · simp only [hpre, if_true]
            have hle : l.length ≤ r.length := (List.isPrefixOf_iff_prefix.mp hpre).length_le
            rw [List.drop_append_of_le_length hle]
            exact ih' _ (hr.of_suffix (List.drop_suffix _ _))
          · simp [hpre]
        | var n =>
          rw [matchExpr_var, matchExpr_var, takeWhile_append_slash, dropWhile_append_slash]
          split
          · rfl
          · rw [ih' _ hd, Option.map_map, Option.map_map]; rfl
        | re n e =>
          rw [matchExpr_re, matchExpr_re, takeWhile_append_slash, dropWhile_append_slash]
          split
          · rw [ih' _ hd, Option.map_map, Option.map_map]; rfl
          · rfl
        | wild n => exact absurd ht id
      · simp only [List.cons_append]
        rw [matchExpr_cons_ne E t ts c _ hc, matchExpr_cons_ne E t ts c _ hc]; rfl

/-! ### the sort commutes with a key-preserving map -/

private theorem insRev_map {α β : Type} (lessA : α → α → Bool) (lessB : β → β → Bool) (g : α → β)
    (hg : ∀ x y, lessB (g x) (g y) = lessA x y) (x : α) (l : List α) :
    Sort.insRev lessB (g x) (l.map g) = (Sort.insRev lessA x l).map g := by
  induction l with
  | nil => rfl
  | cons y ys ih =>
    simp only [List.map_cons, Sort.insRev, hg]
    split <;> simp [ih]

private theorem sortRev_map {α β : Type} (lessA : α → α → Bool) (lessB : β → β → Bool) (g : α → β)
    (hg : ∀ x y, lessB (g x) (g y) = lessA x y) (acc l : List α) :
    Sort.sortRev lessB (acc.map g) (l.map g) = (Sort.sortRev lessA acc l).map g := by
  induction l generalizing acc with
  | nil => rfl
  | cons x xs ih =>
    simp only [List.map_cons, Sort.sortRev, insRev_map lessA lessB g hg, ih]

theorem insertionSort_map {α β : Type} (lessA : α → α → Bool) (lessB : β → β → Bool) (g : α → β)
    (hg : ∀ x y, lessB (g x) (g y) = lessA x y) (l : List α) :
    Sort.insertionSort lessB (l.map g) = (Sort.insertionSort lessA l).map g := by
  unfold Sort.insertionSort
  have := sortRev_map lessA lessB g hg [] l
  simp only [List.map_nil] at this
  rw [this, List.map_reverse]

/-! ### dispatcher level -/

/-- a dispatcher candidate whose final match got the extra `/` -/
def DispCand.slash (c : DispCand) : DispCand := { c with finalMatch := c.finalMatch ++ ['/'] }

theorem dispCandLess_slash (x y : DispCand) : dispCandLess x.slash y.slash = dispCandLess x y := rfl

theorem dispCandidates_append_slash (E : ReEnv) (svcs : List Service)
    (hs : ∀ svc ∈ svcs, ∀ ex, compile svc.rootPath = some ex → ∀ t ∈ ex.toks, tokOK E t)
    (p : Str) (hp : NoTS p) :
    dispCandidates E svcs (p ++ ['/']) = (dispCandidates E svcs p).map (fun cs => cs.map DispCand.slash) := by
  induction svcs with
  | nil => rfl
  | cons s ss ih =>
    have ih' := ih (fun svc h => hs svc (List.mem_cons_of_mem _ h))
    unfold dispCandidates
    cases hex : compile s.rootPath with
    | none => rfl
    | some ex =>
      simp only
      rw [matchExpr_append_slash E ex.toks (hs s List.mem_cons_self ex hex) p hp]
      cases hm : matchExpr E ex.toks p with
      | none => simpa using ih'
      | some cf =>
        obtain ⟨caps, f⟩ := cf
        simp only [Option.map_some, ih', Option.map_map]
        cases dispCandidates E ss p <;> simp [DispCand.slash]

theorem detectDispatcher_append_slash (E : ReEnv) (svcs : List Service)
    (hs : ∀ svc ∈ svcs, ∀ ex, compile svc.rootPath = some ex → ∀ t ∈ ex.toks, tokOK E t)
    (p : Str) (hp : NoTS p) :
    detectDispatcher E svcs (p ++ ['/']) =
      (detectDispatcher E svcs p).map (fun o => o.map (fun sf => (sf.1, sf.2 ++ ['/']))) := by
  unfold detectDispatcher
  rw [dispCandidates_append_slash E svcs hs p hp, Option.map_map, Option.map_map]
  congr 1
  funext cs
  simp only [Function.comp]
  rw [insertionSort_map dispCandLess dispCandLess DispCand.slash dispCandLess_slash]
  cases Sort.insertionSort dispCandLess cs with
  | nil => rfl
  | cons c _ => rfl

/-! ### route level -/

theorem final_test_append_slash (f : Str) (hf : NoTS f) :
    ((f ++ ['/']).isEmpty || decide (f ++ ['/'] = ['/'])) = (f.isEmpty || decide (f = ['/'])) := by
  cases f with
  | nil => rfl
  | cons c r =>
    have h1 : ¬ (c :: r = ['/']) := by
      intro h; rw [h] at hf; exact hf rfl
    have h2 : ¬ (c :: r ++ ['/'] = ['/']) := by
      intro h
      have := congrArg List.length h
      simp at this
    simp [h1]

theorem routeCandidates_append_slash (E : ReEnv) (routes : List Route)
    (hs : ∀ rt ∈ routes, ∀ ex, compile rt.relPath = some ex → ∀ t ∈ ex.toks, tokOK E t)
    (p : Str) (hp : NoTS p) :
    routeCandidates E routes (p ++ ['/']) = routeCandidates E routes p := by
  induction routes with
  | nil => rfl
  | cons r rs ih =>
    have ih' := ih (fun rt h => hs rt (List.mem_cons_of_mem _ h))
    unfold routeCandidates
    cases hex : compile r.relPath with
    | none => rfl
    | some ex =>
      simp only
      rw [matchExpr_append_slash E ex.toks (hs r List.mem_cons_self ex hex) p hp]
      cases hm : matchExpr E ex.toks p with
      | none => simpa using ih'
      | some cf =>
        obtain ⟨caps, f⟩ := cf
        have hf : NoTS f := hp.of_suffix (matchExpr_suffix E _ _ _ _ hm)
        simp only [Option.map_some, ih', final_test_append_slash f hf]

theorem selectRoutes_append_slash (E : ReEnv) (routes : List Route)
    (hs : ∀ rt ∈ routes, ∀ ex, compile rt.relPath = some ex → ∀ t ∈ ex.toks, tokOK E t)
    (p : Str) (hp : NoTS p) :
    selectRoutes E routes (p ++ ['/']) = selectRoutes E routes p := by
  unfold selectRoutes
  rw [routeCandidates_append_slash E routes hs p hp]

/-! ### compiled literals contain no `/` -/

theorem not_mem_of_mem_splitOn (a : Char) (s : Str) : ∀ l ∈ s.splitOn a, a ∉ l := by
  induction s with
  | nil => simp
  | cons c s ih =>
    rw [List.splitOn_cons_eq_if_modifyHead]
    split
    · intro l hl
      simp only [List.mem_cons] at hl
      rcases hl with rfl | hl
      · simp
      · exact ih l hl
    · rename_i hca
      have hne := List.splitOn_ne_nil a s
      cases hsp : s.splitOn a with
      | nil => exact absurd hsp hne
      | cons h t =>
        rw [hsp] at ih
        intro l hl
        simp only [List.modifyHead_cons, List.mem_cons] at hl
        rcases hl with rfl | hl
        · intro hmem
          simp only [List.mem_cons] at hmem
          rcases hmem with rfl | hmem
          · simp at hca
          · exact ih h List.mem_cons_self hmem
        · exact ih l (List.mem_cons_of_mem _ hl)

theorem not_mem_of_mem_tokenize (p : Str) : ∀ l ∈ tokenize p, '/' ∉ l := by
  unfold tokenize
  split
  · simp
  · exact not_mem_of_mem_splitOn '/' _

private theorem parseTok_lit {each s : Str} (h : parseTok each = some (.lit s)) : s = each := by
  unfold parseTok at h
  split at h
  · split at h
    · split at h
      · simp only at h
        split at h <;> cases h
      · cases h
    · split at h <;> cases h
  · cases h; rfl

private theorem parseToks_lit : ∀ (toks : List Str) (ts : List JTok), parseToks toks = some ts →
    (∀ l ∈ toks, '/' ∉ l) → ∀ s, JTok.lit s ∈ ts → s ≠ [] ∧ '/' ∉ s
  | [], ts, h, _, s, hs => by
    simp only [parseToks, Option.some.injEq] at h
    subst h; simp at hs
  | t :: toks, ts, h, hno, s, hs => by
    unfold parseToks at h
    split at h
    · exact parseToks_lit toks ts h (fun l hl => hno l (List.mem_cons_of_mem _ hl)) s hs
    · rename_i hne
      split at h
      · rename_i j js hj hjs
        simp only [Option.some.injEq] at h
        subst h
        simp only [List.mem_cons] at hs
        rcases hs with hs | hs
        · have := parseTok_lit (hs ▸ hj)
          subst this
          refine ⟨?_, hno _ List.mem_cons_self⟩
          intro h0; subst h0; simp at hne
        · exact parseToks_lit toks js hjs (fun l hl => hno l (List.mem_cons_of_mem _ hl)) s hs
      · cases h

theorem compile_tokOK (E : ReEnv) {template : Str} {ex : Expr} (h : compile template = some ex)
    (hsafe : ∀ t ∈ ex.toks, tokSlashSafe E t) : ∀ t ∈ ex.toks, tokOK E t := by
  unfold compile at h
  cases hp : parseToks (tokenize template) with
  | none => simp [hp] at h
  | some ts =>
    simp only [hp, Option.map_some, Option.some.injEq] at h
    subst h
    intro t ht
    have hsf := hsafe t ht
    cases t with
    | lit s => exact parseToks_lit _ _ hp (not_mem_of_mem_tokenize template) s ht
    | var n => trivial
    | re n e => exact hsf
    | wild n => exact hsf

/-! ### parameters -/

theorem extract_append_slash (E : ReEnv) (s : Service) (r : Route)
    (hroot : ∀ ex, compile s.rootPath = some ex → ∀ t ∈ ex.toks, tokOK E t)
    (hrel : ∀ ex, compile r.relPath = some ex → ∀ t ∈ ex.toks, tokOK E t)
    (p : Str) (hp : NoTS p) :
    extract E s r (p ++ ['/']) = extract E s r p := by
  unfold extract
  cases hw : compile s.rootPath with
  | none => rfl
  | some wex =>
    cases hr : compile r.relPath with
    | none => rfl
    | some rex =>
      simp only
      rw [matchExpr_append_slash E wex.toks (hroot wex hw) p hp]
      cases hm : matchExpr E wex.toks p with
      | none => rfl
      | some cf =>
        obtain ⟨wcaps, f⟩ := cf
        have hf : NoTS f := hp.of_suffix (matchExpr_suffix E _ _ _ _ hm)
        simp only [Option.map_some]
        rw [matchExpr_append_slash E rex.toks (hrel rex hr) f hf]
        cases hm2 : matchExpr E rex.toks f with
        | none => rfl
        | some cf2 => rfl

private theorem detectRoute_path (routes : List Route) (req : Req) (p : Str) :
    detectRoute routes { req with path := p } = detectRoute routes req := rfl

private theorem detectRoute_mem {routes : List Route} {req : Req} {r : Route}
    (h : detectRoute routes req = .ok r) : r ∈ routes := by
  unfold detectRoute at h
  simp only at h
  split at h
  · cases h
  split at h
  · cases h
  split at h
  · cases h
  split at h
  · split at h <;> cases h
  · rename_i r' rest heq
    simp only [Except.ok.injEq] at h
    subst h
    have hm : r' ∈ r' :: rest := List.mem_cons_self
    rw [← heq] at hm
    exact (List.mem_filter.mp (List.mem_filter.mp (List.mem_filter.mp (List.mem_filter.mp hm).1).1).1).1

/-! ### C14 for RouterJSR311 -/

theorem route_trailing_slash (E : ReEnv) (cfg : Config) (hs : slashSafe E cfg) (req : Req) (p : Str)
    (hp : p = [] ∨ p.getLast? ≠ some '/') (hreq : req.path = p) :
    (routeJsr E cfg { req with path := p ++ ['/'] }).1 = (routeJsr E cfg req).1 := by
  have hp' : NoTS p := by
    rcases hp with rfl | h
    · exact NoTS.nil
    · exact h
  have hroot : ∀ svc ∈ cfg.services, ∀ ex, compile svc.rootPath = some ex → ∀ t ∈ ex.toks, tokOK E t :=
    fun svc h ex hex => compile_tokOK E hex ((hs svc h).1 ex hex)
  unfold routeJsr
  simp only [hreq]
  rw [detectDispatcher_append_slash E _ hroot p hp']
  cases hd : detectDispatcher E cfg.services p with
  | none => rfl
  | some o =>
    cases o with
    | none => rfl
    | some sf =>
      obtain ⟨svc, final⟩ := sf
      simp only [Option.map_some]
      obtain ⟨hsvc, wex, wcaps, hwex, hwm⟩ := detectDispatcher_mem E hd
      have hf : NoTS final := hp'.of_suffix (matchExpr_suffix E _ _ _ _ hwm)
      have hrel : ∀ rt ∈ svc.built, ∀ ex, compile rt.relPath = some ex → ∀ t ∈ ex.toks, tokOK E t :=
        fun rt h ex hex => compile_tokOK E hex ((hs svc hsvc).2 rt h ex hex)
      rw [selectRoutes_append_slash E svc.built hrel final hf]
      cases hsel : selectRoutes E svc.built final with
      | none => rfl
      | some cands =>
        cases cands with
        | nil => rfl
        | cons c cs =>
          simp only
          rw [detectRoute_path]
          cases hdr : detectRoute (c :: cs) req with
          | error e => rfl
          | ok r =>
            simp only
            have hr : r ∈ svc.built := (selectRoutes_mem E hsel (detectRoute_mem hdr)).1
            rw [extract_append_slash E svc r (hroot svc hsvc) (hrel r hr) p hp']

/-- the reason for the regex hypothesis of `slashSafe`: a regex variable that matches the empty
    segment makes `/a/` select a route that `/a` does not reach -/
theorem trailing_slash_empty_regex_witness :
    let cfg : Config := { router := .jsr, services := [{ id := 0, root := "/a".toList, routes :=
      [{ id := 1, method := "GET".toList, relPath := "/{v:[a-z]*}".toList, consumes := [], produces := [],
         conds := [], noct := [] }] }] }
    let E : ReEnv := ⟨fun _ _ => true, fun _ s => s.isEmpty⟩
    (routeJsr E cfg { method := "GET".toList, path := "/a".toList }).1 = .error 404 none ∧
    (routeJsr E cfg { method := "GET".toList, path := "/a/".toList }).1 = .selected 0 1 [("v".toList, [])] := by
  decide

/-- the same through `route` when RouterJSR311 is the configured router -/
theorem route_trailing_slash_route (E : ReEnv) (cfg : Config) (hk : cfg.router = .jsr)
    (hs : slashSafe E cfg) (req : Req) (p : Str)
    (hp : p = [] ∨ p.getLast? ≠ some '/') (hreq : req.path = p) :
    route E cfg { req with path := p ++ ['/'] } = route E cfg req := by
  unfold route routeTagged
  rw [hk]
  exact route_trailing_slash E cfg hs req p hp hreq

/-- the reason for the wildcard hypothesis of `slashSafe`: a tail wildcard captures the extra `/` -/
theorem trailing_slash_wildcard_witness :
    let cfg : Config := { router := .jsr, services := [{ id := 0, root := "/a".toList, routes :=
      [{ id := 1, method := "GET".toList, relPath := "/{t:*}".toList, consumes := [], produces := [],
         conds := [], noct := [] }] }] }
    let E : ReEnv := ⟨fun _ _ => true, fun _ _ => false⟩
    (routeJsr E cfg { method := "GET".toList, path := "/a/x".toList }).1 = .selected 0 1 [("t".toList, "x".toList)] ∧
    (routeJsr E cfg { method := "GET".toList, path := "/a/x/".toList }).1 = .selected 0 1 [("t".toList, "x/".toList)] := by
  decide

end Jsr
end Restful
