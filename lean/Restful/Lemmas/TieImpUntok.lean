/- path_processor.go `untokenizePath` as translated on this run IS the model's -/
import Restful.Lemmas.TieImpBase
import Restful.Lemmas.TieImpBridge
namespace Restful
namespace TieImp
namespace T2
open Imp
set_option linter.unusedSimpArgs false

theorem untok_loop (parts : List Str) (f : Int → Str → Option (ForInStep Str))
    (hf : ∀ (p : Int) (s : Str), f p s = (do
            let x ← at? parts p
            if decide (p < len parts - 1) = true then pure (ForInStep.yield (s ++ x ++ ['/']))
              else pure (ForInStep.yield (s ++ x))))
    (n k : Nat) (hk : k + n = parts.length) (buf : Str) :
    forIn (m := Option) ((List.range' k n).map (fun k : Nat => (k : Int))) buf f
      = some (buf ++ untokenize (parts.drop k)) := by
  induction n generalizing k buf with
  | zero =>
    have : parts.drop k = [] := by simp; omega
    simp [this, untokenize, Str.join]
  | succ n ih =>
    have hlt : k < parts.length := by omega
    have hd : parts.drop k = parts[k] :: parts.drop (k + 1) := List.drop_eq_getElem_cons hlt
    simp only [List.range'_succ, List.map_cons, List.forIn_cons, hf, at?_nat, List.getElem?_eq_getElem hlt]
    by_cases hn : n = 0
    · subst hn
      have : parts.drop (k + 1) = [] := by simp; omega
      have h2 : ¬ ((k : Int) < len parts - 1) := by simp only [len]; omega
      simp [h2, hd, this, untokenize, Str.join]
    · have h2 : ((k : Int) < len parts - 1) := by simp only [len]; omega
      have hlt' : k + 1 < parts.length := by omega
      have hd' : parts.drop (k + 1) = parts[k + 1] :: parts.drop (k + 1 + 1) := List.drop_eq_getElem_cons hlt'
      simp only [h2, decide_true, if_true, Option.pure_def, Option.bind_eq_bind, Option.bind_some]
      rw [ih (k + 1) (by omega), hd, hd']
      simp only [untokenize, Str.join, List.intercalate_cons_cons, List.append_assoc]

/-- two general ways to get there: the buffer loop over `parts[offset:]` (`untok_loop`, body abstract), or
    the closed form `strings.Join(parts[offset:], "/")` behind a guard that returns "" when `offset ≥ len(parts)`
    (written either way round) -/
theorem untokenize_path (X : ImpGen.Ext) (offset : Nat) (parts : List Str) :
    ImpGen.untokenizePath X ((offset : Nat) : Int) parts = some (untokenize (parts.drop offset)) := by
  unfold ImpGen.untokenizePath
  first
  | (simp only [String.reduceToList, range_nat_len]
     by_cases h : offset ≤ parts.length
     · rw [untok_loop parts _ (fun _ _ => rfl) _ _ (by omega)]
       simp
     · have h1 : parts.length - offset = 0 := by omega
       have h2 : parts.drop offset = [] := by simp; omega
       simp [h1, h2, untokenize, Str.join])
  | (by_cases h : offset < parts.length
     · have h1 : ((offset : Int) < len parts) = True := eq_true (by simp only [len]; omega)
       have h2 : (len parts ≤ (offset : Int)) = False := eq_false (by simp only [len]; omega)
       simp [h1, h2, sliceFrom_nat parts offset (by omega), untokenize]
     · have h1 : ((offset : Int) < len parts) = False := eq_false (by simp only [len]; omega)
       have h2 : (len parts ≤ (offset : Int)) = True := eq_true (by simp only [len]; omega)
       have h3 : parts.drop offset = [] := by simp; omega
       simp [h1, h2, h3, untokenize, Str.join])

end T2
end TieImp
end Restful
