/-
CurlyRouter's token walk (`Curly.matchTokens`, curly.go:60) agrees with declarative
admission (`Spec.admits`) on every well-formed template, and reports the template's
parameter / static counts.
-/
import Restful.Lemmas.Render
namespace Restful
open Str

namespace Curly
variable (E : ReEnv)

/-- the part of one loop iteration after the custom verb has been dealt with:
    `rt'`, `q'` are the route / request token without their verbs -/
def stepBody (hv : Bool) (rts qs : List Str) (rt' q' : Str) (p s : Nat) : MatchResult :=
  if hasPrefix ['{'] rt' then
    match index ':' rt' with
    | some colon =>
      match regularMatches E rt' colon q' with
      | .fail => .no
      | .panic => .panic
      | .stop => .yes (p + 1) s
      | .next => walk E hv rts qs (p + 1) s
    | none =>
      match index '}' rt' with
      | some e => if !hasSuffix (rt'.drop (e + 1)) q' then .no else walk E hv rts qs (p + 1) s
      | none => walk E hv rts qs (p + 1) s
  else if q' != rt' then .no
  else walk E hv rts qs p (s + 1)

theorem walk_nil (hv : Bool) (qs : List Str) (p s : Nat) : walk E hv [] qs p s = .yes p s := by
  cases qs <;> rfl

theorem walk_cons_nil (hv : Bool) (rt : Str) (rts : List Str) (p s : Nat) :
    walk E hv (rt :: rts) [] p s = .no := rfl

/-- an iteration on a route token that is not treated as carrying a verb -/
theorem walk_cons_noverb {hv : Bool} {rt : Str} (h : (hv && hasCustomVerb rt) = false)
    (rts : List Str) (q : Str) (qs : List Str) (p s : Nat) :
    walk E hv (rt :: rts) (q :: qs) p s = stepBody E hv rts qs rt q p s := by
  rw [walk]
  simp only [h, Bool.false_and, Bool.false_eq_true, if_false, stepBody]
  rfl

/-- an iteration on a route token that is treated as carrying a verb -/
theorem walk_cons_verb {hv : Bool} {rt : Str} (h : (hv && hasCustomVerb rt) = true)
    (rts : List Str) (q : Str) (qs : List Str) (p s : Nat) :
    walk E hv (rt :: rts) (q :: qs) p s =
      if isMatchCustomVerb rt q = true then
        stepBody E hv rts qs (removeCustomVerb rt) (removeCustomVerb q) p (s + 1)
      else .no := by
  rw [walk]
  simp only [h, Bool.true_and, if_true, stepBody]
  cases isMatchCustomVerb rt q
  · simp
  · simp only [Bool.not_true, Bool.false_eq_true, if_false, if_true]
    rfl

/-- how many parameters / static segments one base token contributes -/
def pc (b : Tok) : Nat := if b.name?.isSome then 1 else 0
def sc (b : Tok) : Nat := if b.name?.isNone then 1 else 0

/-- the verb-free part of an iteration, read off the structured token -/
theorem stepBody_render {b : Tok} (hb : b.wf = true) (hv : Bool) (rts qs : List Str) (q : Str)
    (p s : Nat) :
    stepBody E hv rts qs b.render q p s =
      if b.isWild = true then .yes (p + 1) s
      else if Spec.tokOK E .curly b q = true then walk E hv rts qs (p + pc b) (s + sc b)
      else .no := by
  cases b with
  | lit l =>
    have hne : (q != (Tok.lit l).render) = !(q == l) := by simp [Tok.render, bne]
    simp only [stepBody, Tok.hasPrefix_render_lit hb, Bool.false_eq_true, if_false, hne,
      Tok.isWild, Spec.tokOK, pc, sc, Tok.name?, Option.isSome_none, Option.isNone_none,
      if_true, Nat.add_zero]
    cases q == l <;> simp
  | var n =>
    simp only [stepBody, Tok.hasPrefix_render_var, if_true, Tok.index_colon_render_var hb,
      Tok.index_rbrace_render_var hb, Tok.drop_render_var, hasSuffix, List.isSuffixOf_nil_left,
      Bool.not_true, Bool.false_eq_true, if_false, Tok.isWild, Spec.tokOK, pc, sc, Tok.name?,
      Option.isSome_some, Option.isNone_some, Nat.add_zero]
  | re n e =>
    have hne : e ≠ ['*'] := by
      simp only [Tok.wf, reOK, Bool.and_eq_true] at hb
      simpa using hb.2.1.1.1.1
    simp only [stepBody, Tok.hasPrefix_render_re, if_true, Tok.index_colon_render_re hb,
      regularMatches, Tok.regPart_render_re, hne, if_false, Tok.isWild, Bool.false_eq_true,
      Spec.tokOK, Spec.reOKFor, pc, sc, Tok.name?, Option.isSome_some, Option.isNone_some,
      Nat.add_zero]
    cases E.search e q <;> simp
  | suf n suffix =>
    simp only [stepBody, Tok.hasPrefix_render_suf, if_true, Tok.index_colon_render_suf hb,
      Tok.index_rbrace_render_suf hb, Tok.drop_render_suf, Tok.isWild, Bool.false_eq_true,
      if_false, Spec.tokOK, pc, sc, Tok.name?, Option.isSome_some, Option.isNone_some,
      Nat.add_zero]
    cases hasSuffix suffix q <;> simp
  | wild n =>
    simp only [stepBody, Tok.hasPrefix_render_wild, if_true, Tok.index_colon_render_wild hb,
      regularMatches, Tok.regPart_render_wild, Tok.isWild]

/-- one full iteration, read off the structured token -/
theorem walk_cons_render {t : TTok} (ht : t.wf = true) {hv : Bool}
    (hhv : t.verb.isSome = true → hv = true) (rts : List Str) (q : Str) (qs : List Str)
    (p s : Nat) :
    walk E hv (t.render :: rts) (q :: qs) p s =
      if t.base.isWild = true then .yes (p + 1) s
      else if Spec.segOK E .curly t q = true then
        walk E hv rts qs (p + pc t.base) (s + sc t.base + (if t.verb.isSome then 1 else 0))
      else .no := by
  have hb := TTok.wf_base ht
  cases hverb : t.verb with
  | none =>
    have h : (hv && hasCustomVerb t.render) = false := by
      simp [TTok.hasCustomVerb_render ht, hverb]
    rw [walk_cons_noverb E h, TTok.render_of_verb_none hverb, stepBody_render E hb]
    simp only [Spec.segOK, hverb, Option.isSome_none, Bool.false_eq_true, if_false, Nat.add_zero]
  | some v =>
    obtain ⟨hvo, hw⟩ := TTok.wf_verb ht hverb
    have hhv' : hv = true := hhv (by simp [hverb])
    have h : (hv && hasCustomVerb t.render) = true := by
      simp [TTok.hasCustomVerb_render ht, hverb, hhv']
    rw [walk_cons_verb E h, TTok.isMatchCustomVerb_render ht hverb, TTok.removeCustomVerb_render ht]
    simp only [Spec.segOK, hverb, hw, Bool.false_eq_true, if_false, Option.isSome_some, if_true,
      Bool.and_eq_true]
    cases hs : hasSuffix (':' :: v) q with
    | false => simp
    | true =>
      rw [removeCustomVerb_eq_stripVerb hvo hs, stepBody_render E hb]
      simp only [hw, Bool.false_eq_true, if_false, true_and, if_true]
      cases Spec.tokOK E RouterKind.curly t.base (Spec.stripVerb v q)
      · simp
      · simp only [if_true]
        rw [Nat.add_right_comm]

end Curly

/-! ### template-level bookkeeping -/

/-- the template ends in the tail wildcard -/
def lastWild (ts : List TTok) : Bool :=
  match ts.getLast? with
  | some t => t.base.isWild
  | none => false

theorem lastWild_cons_cons (t t' : TTok) (ts : List TTok) :
    lastWild (t :: t' :: ts) = lastWild (t' :: ts) := by
  simp [lastWild, List.getLast?_cons_cons]

theorem lastHasVerb_cons_cons (t t' : TTok) (ts : List TTok) :
    lastHasVerb (t :: t' :: ts) = lastHasVerb (t' :: ts) := by
  simp [lastHasVerb, List.getLast?_cons_cons]

theorem paramCount_cons (t : TTok) (ts : List TTok) :
    paramCount (t :: ts) = Curly.pc t.base + paramCount ts := by
  simp only [paramCount, List.filter_cons, Curly.pc]
  split <;> simp <;> omega

theorem staticCount_singleton (t : TTok) :
    staticCount [t] = Curly.sc t.base + (if t.verb.isSome then 1 else 0) := by
  have hl : lastHasVerb [t] = t.verb.isSome := by simp [lastHasVerb]
  rw [staticCount, hl, Curly.sc, List.filter_cons]
  cases t.base.name?.isNone <;> rfl

theorem staticCount_cons_cons (t t' : TTok) (ts : List TTok) :
    staticCount (t :: t' :: ts) = Curly.sc t.base + staticCount (t' :: ts) := by
  simp only [staticCount, lastHasVerb_cons_cons, Curly.sc]
  rw [List.filter_cons]
  split <;> simp <;> omega

theorem lastIsStar_render {ts : List TTok} (hwf : ∀ t ∈ ts, t.wf = true) :
    Curly.lastIsStar (ts.map TTok.render) = lastWild ts := by
  simp only [Curly.lastIsStar, lastWild, List.getLast?_map]
  cases h : ts.getLast? with
  | none => rfl
  | some t =>
    have : t ∈ ts := List.mem_of_getLast? h
    simpa using TTok.isTailWildcard_render (hwf t this)

/-- a request with more segments than the template is only admitted through a tail wildcard -/
theorem admits_eq_false_of_length_lt (E : ReEnv) :
    ∀ (ts : List TTok) (qs : List Str), ts.length < qs.length → lastWild ts = false →
      Spec.admits E .curly ts qs = false
  | [], [], h, _ => by simp at h
  | [], _ :: _, _, _ => by simp [Spec.admits]
  | _ :: _, [], h, _ => by simp at h
  | [t], q :: qs, h, hw => by
    have hq : qs ≠ [] := by intro e; simp [e] at h
    have : t.base.isWild = false := by simpa [lastWild] using hw
    cases qs with
    | nil => exact absurd rfl hq
    | cons q' qs => simp [Spec.admits, this]
  | t :: t' :: ts, q :: qs, h, hw => by
    have ih := admits_eq_false_of_length_lt E (t' :: ts) qs (by simpa using h)
      (by simpa [lastWild_cons_cons] using hw)
    rw [Spec.admits, ih]
    simp

/-- The walk, started anywhere inside a template: `ts` is the part of the template still to be
    read, `p`/`s` the counts so far.  `hv` is the route's (fixed) verb flag; all that is needed
    of it is that it is set when the last token carries a verb.  The walk does not look at the
    number of request tokens left once it runs out of template tokens, hence `hlen`. -/
theorem Curly.walk_spec (E : ReEnv) (hv : Bool) :
    ∀ (ts : List TTok), (∀ t ∈ ts, t.wf = true) → shapeOK ts = true →
      (lastHasVerb ts = true → hv = true) →
      ∀ (qs : List Str) (p s : Nat), (qs.length ≤ ts.length ∨ lastWild ts = true) →
      Curly.walk E hv (ts.map TTok.render) qs p s =
        if Spec.admits E .curly ts qs = true then .yes (p + paramCount ts) (s + staticCount ts)
        else .no
  | [], _, _, _, qs, p, s, hlen => by
    have : qs = [] := by
      rcases hlen with h | h
      · simpa using h
      · simp [lastWild] at h
    subst this
    simp [Curly.walk, Spec.admits, paramCount, staticCount, lastHasVerb]
  | t :: ts, _, _, _, [], p, s, _ => by
    simp [Curly.walk, Spec.admits]
  | [t], hwf, _, hhv, q :: qs, p, s, hlen => by
    have ht : t.wf = true := hwf t (by simp)
    have hhv' : t.verb.isSome = true → hv = true := by
      intro h; apply hhv; simpa [lastHasVerb] using h
    rw [List.map_singleton, Curly.walk_cons_render E ht hhv', Curly.walk_nil]
    simp only [Spec.admits, List.isEmpty_nil, Bool.and_true, paramCount_cons,
      staticCount_singleton]
    cases hw : t.base.isWild with
    | true =>
      have : t.verb = none := TTok.wf_wild_verb ht hw
      have hpc : Curly.pc t.base = 1 := by
        cases hb : t.base <;> simp [hb, Tok.isWild] at hw; simp [Curly.pc, Tok.name?]
      have hsc : Curly.sc t.base = 0 := by
        cases hb : t.base <;> simp [hb, Tok.isWild] at hw; simp [Curly.sc, Tok.name?]
      simp [this, hpc, hsc, paramCount]
    | false =>
      have : qs = [] := by
        rcases hlen with h | h
        · simpa using h
        · simp [lastWild, hw] at h
      subst this
      simp only [Bool.false_eq_true, if_false, List.isEmpty_nil, Bool.and_true, paramCount,
        List.filter_nil, List.length_nil, Nat.add_zero, Nat.add_assoc]
  | t :: t' :: ts, hwf, hshape, hhv, q :: qs, p, s, hlen => by
    have ht : t.wf = true := hwf t (by simp)
    simp only [shapeOK, Bool.and_eq_true, Bool.not_eq_true', Option.isNone_iff_eq_none] at hshape
    obtain ⟨⟨hw, hverb⟩, hshape'⟩ := hshape
    have hhv' : t.verb.isSome = true → hv = true := by simp [hverb]
    have ih := Curly.walk_spec E hv (t' :: ts) (fun x hx => hwf x (by simp [hx])) hshape'
      (by simpa [lastHasVerb_cons_cons] using hhv) qs (p + Curly.pc t.base) (s + Curly.sc t.base)
      (by
        rcases hlen with h | h
        · left; simpa using h
        · right; simpa [lastWild_cons_cons] using h)
    rw [List.map_cons, Curly.walk_cons_render E ht hhv']
    simp only [hverb, Option.isSome_none, Bool.false_eq_true, if_false, Nat.add_zero]
    rw [ih]
    simp only [hw, Bool.false_eq_true, if_false, Spec.admits, Bool.false_and, Bool.and_eq_true,
      paramCount_cons, staticCount_cons_cons, Nat.add_assoc]
    cases Spec.segOK E RouterKind.curly t q <;> simp

/-- **CurlyRouter token matching is exactly declarative admission** (C01/C02/C04 for one route),
    and the counts it ranks candidates by are the template's parameter and static counts. -/
theorem Curly.matchTokens_spec (E : ReEnv) (ts : List TTok) (hwf : ∀ t ∈ ts, t.wf = true)
    (hshape : shapeOK ts = true) (qs : List Str) :
    Curly.matchTokens E (ts.map TTok.render) qs (lastHasVerb ts) =
      if Spec.admits E .curly ts qs = true then .yes (paramCount ts) (staticCount ts) else .no := by
  unfold Curly.matchTokens
  rw [lastIsStar_render hwf, List.length_map]
  by_cases hlt : ts.length < qs.length
  · cases hw : lastWild ts with
    | false =>
      simp [hlt, admits_eq_false_of_length_lt E ts qs hlt hw]
    | true =>
      have := Curly.walk_spec E (lastHasVerb ts) ts hwf hshape id qs 0 0 (Or.inr hw)
      simpa [hlt] using this
  · have := Curly.walk_spec E (lastHasVerb ts) ts hwf hshape id qs 0 0 (Or.inl (by omega))
    simpa [hlt] using this

/-- non-vacuity: `/users/{id}/{n:[0-9]+}/{file}.json:export` admits `/users/u1/42/report.json:export` -/
example :
    let ts : List TTok :=
      [ { base := .lit "users".toList },
        { base := .var "id".toList },
        { base := .re "n".toList "[0-9]+".toList },
        { base := .suf "file".toList ".json".toList, verb := some "export".toList } ]
    let E : ReEnv := ⟨fun _ _ => true, fun _ _ => true⟩
    let qs : List Str := ["users", "u1", "42", "report.json:export"].map String.toList
    (∀ t ∈ ts, t.wf = true) ∧ shapeOK ts = true ∧ lastHasVerb ts = true ∧
      Spec.admits E .curly ts qs = true ∧
      Curly.matchTokens E (ts.map TTok.render) qs (lastHasVerb ts) = .yes 3 2 := by
  decide

end Restful

