/-
`templateToRegularExpression` reads a well-formed, JSR-documented structured token back as the
corresponding `JTok`; hence `Jsr.compile` of a path whose non-empty tokens read as `a : List TTok`
has `toks = a.map Jsr.ofTTok` and `varNames = varNames a`.
-/
import Restful.Lemmas.SplitOn
import Restful.Model.Jsr
import Restful.Spec.Admits
namespace Restful
open Str

namespace Jsr

/-- the `JTok` a structured token compiles to (`.suf` is not a JSR token; the value there is junk) -/
def ofTok : Tok → JTok
  | .lit s => .lit s
  | .var n => .var n
  | .re n e => .re n e
  | .suf n _ => .var n
  | .wild n => .wild n

def ofTTok (t : TTok) : JTok := ofTok t.base

theorem slice?_of (s : Str) (i j : Int) (a b : Nat) (hi : i = a) (hj : j = b)
    (h : a ≤ b) (h2 : b ≤ s.length) : slice? s i j = some ((s.drop a).take (b - a)) := by
  subst hi hj
  unfold slice?
  rw [if_pos (by omega)]
  simp

theorem nameOK_not_mem {n : Str} (h : nameOK n = true) :
    ':' ∉ n ∧ ' ' ∉ n := by
  unfold nameOK at h
  rw [List.all_eq_true] at h
  constructor <;> intro hm <;> have := h _ hm <;> simp [nameChar] at this

theorem litOK_spec {s : Str} (h : litOK s = true) :
    s ≠ [] ∧ '/' ∉ s ∧ '{' ∉ s := by
  unfold litOK at h
  simp only [Bool.and_eq_true, Bool.not_eq_true', List.all_eq_true] at h
  refine ⟨?_, ?_, ?_⟩
  · intro hs; subst hs; simp at h
  · intro hm; have := h.2 _ hm; simp [litChar] at this
  · intro hm; have := h.2 _ hm; simp [litChar] at this

theorem trimSpace_name {n : Str} (h : nameOK n = true) : trimSpace n = n :=
  trim_id_of_not_mem (nameOK_not_mem h).2

theorem parseTok_lit {s : Str} (h : litOK s = true) : parseTok s = some (.lit s) := by
  obtain ⟨hne, _, hb⟩ := litOK_spec h
  unfold parseTok
  cases s with
  | nil => exact absurd rfl hne
  | cons c cs =>
    have hc : c ≠ '{' := fun hc => hb (by simp [hc])
    have : hasPrefix ['{'] (c :: cs) = false := by
      simp [hasPrefix, List.isPrefixOf, hc.symm]
    simp [this]

theorem parseTok_var {n : Str} (h : nameOK n = true) :
    parseTok ('{' :: n ++ ['}']) = some (.var n) := by
  have hc := (nameOK_not_mem h).1
  unfold parseTok
  have hp : hasPrefix ['{'] ('{' :: n ++ ['}']) = true := by simp [hasPrefix, List.isPrefixOf]
  have hi : index ':' ('{' :: n ++ ['}']) = none := by
    unfold index
    apply idxOf?_none
    simp [hc]
  have hs : slice? ('{' :: n ++ ['}']) 1 ((('{' :: n ++ ['}']).length : Int) - 1) = some n := by
    rw [slice?_of ('{' :: n ++ ['}']) 1 _ 1 (n.length + 1) (by omega) (by simp) (by omega) (by simp)]
    simp
  rw [if_pos hp, hi]
  simp only [hs, trimSpace_name h]

theorem parseTok_colon {n e : Str} (h : nameOK n = true) (he : e.head? ≠ some ' ') (he' : e.getLast? ≠ some ' ') :
    parseTok ('{' :: n ++ ':' :: e ++ ['}']) =
      if e = ['*'] then some (.wild n) else some (.re n e) := by
  have hc := (nameOK_not_mem h).1
  unfold parseTok
  have hp : hasPrefix ['{'] ('{' :: n ++ ':' :: e ++ ['}']) = true := by simp [hasPrefix, List.isPrefixOf]
  have hi : index ':' ('{' :: n ++ ':' :: e ++ ['}']) = some (n.length + 1) := by
    unfold index
    have : '{' :: n ++ ':' :: e ++ ['}'] = ('{' :: n) ++ ':' :: (e ++ ['}']) := by simp
    rw [this, idxOf?_append_cons (by simp [hc])]
    simp
  have hs1 : slice? ('{' :: n ++ ':' :: e ++ ['}']) 1 ((n.length + 1 : Nat) : Int) = some n := by
    rw [slice?_of ('{' :: n ++ ':' :: e ++ ['}']) 1 _ 1 (n.length + 1) (by omega) rfl (by omega) (by simp)]
    simp
  have hs2 : slice? ('{' :: n ++ ':' :: e ++ ['}']) ((n.length + 1 + 1 : Nat) : Int)
      ((('{' :: n ++ ':' :: e ++ ['}']).length : Int) - 1) = some e := by
    rw [slice?_of ('{' :: n ++ ':' :: e ++ ['}']) _ _ (n.length + 2) (n.length + e.length + 2) rfl (by simp; omega) (by omega) (by simp; omega)]
    have : '{' :: n ++ ':' :: e ++ ['}'] = ('{' :: n ++ [':']) ++ (e ++ ['}']) := by simp
    rw [this, List.drop_left' (by simp)]
    simp
  rw [if_pos hp, hi]
  simp only [hs1, hs2, trimSpace_name h]
  have : trimSpace e = e := trim_id he he'
  rw [this]

theorem reOK_spec {e : Str} (h : reOK e = true) :
    e ≠ ['*'] ∧ e.head? ≠ some ' ' ∧ e.getLast? ≠ some ' ' := by
  unfold reOK at h
  simp only [Bool.and_eq_true, bne_iff_ne, ne_eq] at h
  exact ⟨h.1.1.1.1, h.1.2, h.2⟩

/-- hint (1): a well-formed JSR-documented token compiles to the corresponding `JTok` -/
theorem parseTok_render {t : TTok} (hw : t.wf = true) (hj : Spec.tokJsrOK t = true) :
    parseTok t.render = some (ofTTok t) ∧ t.render.isEmpty = false := by
  obtain ⟨base, verb⟩ := t
  unfold Spec.tokJsrOK at hj
  simp only [Bool.and_eq_true, Option.isNone_iff_eq_none] at hj
  obtain ⟨hv, hb⟩ := hj
  subst hv
  unfold TTok.wf at hw
  simp only [Bool.and_true] at hw
  simp only [TTok.render, ofTTok]
  cases base with
  | lit s =>
    simp only [Tok.wf] at hw
    refine ⟨parseTok_lit hw, ?_⟩
    have := (litOK_spec hw).1
    cases s <;> simp_all [Tok.render]
  | var n =>
    simp only [Tok.wf] at hw
    exact ⟨parseTok_var hw, by simp [Tok.render]⟩
  | re n e =>
    simp only [Tok.wf, Bool.and_eq_true] at hw
    obtain ⟨h1, h2, h3⟩ := reOK_spec hw.2
    refine ⟨?_, by simp [Tok.render]⟩
    have := parseTok_colon (e := e) hw.1 h2 h3
    rw [if_neg h1] at this
    exact this
  | suf n s => simp at hb
  | wild n =>
    simp only [Tok.wf] at hw
    refine ⟨?_, by simp [Tok.render]⟩
    have := parseTok_colon (e := ['*']) hw (by decide) (by decide)
    simpa [Tok.render, ofTok] using this

theorem parseToks_cons (t : Str) (ts : List Str) : parseToks (t :: ts) =
    if t.isEmpty then parseToks ts
    else match parseTok t, parseToks ts with
      | some j, some js => some (j :: js)
      | _, _ => none := by
  rw [parseToks]; rfl

theorem parseToks_filter : ∀ (l : List Str), parseToks l = parseToks (l.filter (fun t => !t.isEmpty))
  | [] => rfl
  | t :: ts => by
    by_cases h : t.isEmpty = true
    · rw [List.filter_cons_of_neg (by simp [h])]
      rw [parseToks_cons, if_pos h]
      exact parseToks_filter ts
    · rw [List.filter_cons_of_pos (by simp [h])]
      rw [parseToks_cons, parseToks_cons, if_neg h, if_neg h, parseToks_filter ts]

theorem parseToks_render : ∀ (a : List TTok), (∀ t ∈ a, t.wf = true) → (∀ t ∈ a, Spec.tokJsrOK t = true) →
    parseToks (a.map TTok.render) = some (a.map ofTTok)
  | [], _, _ => rfl
  | t :: ts, hw, hj => by
    have ⟨h1, h2⟩ := parseTok_render (hw t List.mem_cons_self) (hj t List.mem_cons_self)
    have ih := parseToks_render ts (fun x hx => hw x (List.mem_cons_of_mem _ hx))
      (fun x hx => hj x (List.mem_cons_of_mem _ hx))
    simp only [List.map_cons]
    rw [parseToks_cons, if_neg (by simp [h2]), h1, ih]

theorem varNameOf_ofTTok {t : TTok} (hj : Spec.tokJsrOK t = true) : varNameOf (ofTTok t) = t.base.name? := by
  obtain ⟨base, verb⟩ := t
  cases base <;> simp_all [ofTTok, ofTok, varNameOf, Tok.name?, Spec.tokJsrOK]

theorem filterMap_varNameOf : ∀ (a : List TTok), (∀ t ∈ a, Spec.tokJsrOK t = true) →
    (a.map ofTTok).filterMap varNameOf = varNames a
  | [], _ => rfl
  | t :: ts, hj => by
    have ih := filterMap_varNameOf ts (fun x hx => hj x (List.mem_cons_of_mem _ hx))
    have h := varNameOf_ofTTok (hj t List.mem_cons_self)
    unfold varNames at ih ⊢
    simp only [List.map_cons, List.filterMap_cons, h, ih]

/-- hint (1), whole path: what `compile` yields on a path whose non-empty tokens read as `a` -/
theorem compile_of_readToks {p : Str} {a : List TTok} {ex : Expr}
    (hr : readToks (Spec.nonEmptyToks p) = some a) (hj : ∀ t ∈ a, Spec.tokJsrOK t = true)
    (hc : compile p = some ex) : ex.toks = a.map ofTTok ∧ ex.varNames = varNames a := by
  have ⟨hrender, hwf⟩ := readToks_render hr
  unfold compile at hc
  rw [parseToks_filter] at hc
  have : (tokenize p).filter (fun t => !t.isEmpty) = a.map TTok.render := by
    rw [hrender]; rfl
  rw [this, parseToks_render a hwf hj] at hc
  simp only [Option.map_some, Option.some.injEq] at hc
  subst hc
  exact ⟨rfl, filterMap_varNameOf a hj⟩

end Jsr
end Restful
