/-
Helpers of the tie for the two comma-separated-header loops of route.go (`matchesAccept`,
`matchesContentType`): `Imp.index` / `sliceTo` / `sliceFrom` on a text cut at a character, the
model's two loops as one generic `pieceLoop`, and the fuelled `for {…}` loop (`fuel_loop`):
it returns before the fuel runs out because every iteration that does not return strictly
shortens `remaining`.
-/
import Restful.Lemmas.TieImp
import Restful.Model.Detect
import Restful.Lemmas.SplitOn
namespace Restful
namespace TieImp
namespace T5
open Imp

/-! ### bridging facts: `Imp.index`, `sliceTo`, `sliceFrom` on a string cut at a character -/

theorem indexSub_single (c : Char) (s : Str) : Str.indexSub [c] s = s.idxOf? c := by
  induction s with
  | nil => simp [Str.indexSub]
  | cons x xs ih =>
    simp only [Str.indexSub, List.idxOf?_cons, ih]
    by_cases h : x = c
    · subst h; simp [List.isPrefixOf]
    · have h' : ¬ c = x := fun e => h e.symm
      simp [List.isPrefixOf, h, h']

theorem index_of_not_mem {c : Char} {s : Str} (h : c ∉ s) : index s [c] = -1 := by
  simp [index, indexSub_single, Str.idxOf?_none h]

theorem index_of_mem {c : Char} {l r : Str} (h : c ∉ l) : index (l ++ c :: r) [c] = (l.length : Int) := by
  simp [index, indexSub_single, Str.idxOf?_append_cons h]

theorem sliceTo_append {α : Type} (l r : List α) : sliceTo (l ++ r) (l.length : Int) = some l := by
  simp [sliceTo, slice]
  omega

theorem sliceFrom_append_cons {α : Type} (l r : List α) (c : α) :
    sliceFrom (l ++ c :: r) ((l.length : Int) + 1) = some r := by
  have h : ((l.length : Int) + 1).toNat = l.length + 1 := by omega
  simp [sliceFrom, slice, len, h]
  refine ⟨by omega, ?_⟩
  apply List.take_of_length_le
  omega

theorem len_beq_zero {α : Type} (l : List α) : (len l == 0) = l.isEmpty := by
  cases l <;> simp [len]
  omega

theorem len_pos_decide {α : Type} (l : List α) : decide (len l > 0) = !l.isEmpty := by
  cases l <;> simp [len]

theorem natCast_beq_neg_one (n : Nat) : ((n : Int) == -1) = false := by
  simp

theorem natCast_bne_neg_one (n : Nat) : ((n : Int) != -1) = true := by
  simp

/-- a string either contains `c` (and is cut at the first one) or does not -/
theorem cut_cases (c : Char) (s : Str) : (∃ l r, s = l ++ c :: r ∧ c ∉ l) ∨ c ∉ s := by
  have hr : s.takeWhile (· != c) ++ s.dropWhile (· != c) = s := List.takeWhile_append_dropWhile
  have hn := Str.not_mem_takeWhile_ne c s
  rcases Str.dropWhile_ne_cases c s with h | ⟨r', h⟩
  · right; rw [h, List.append_nil] at hr; rwa [hr] at hn
  · left; exact ⟨_, r', by rw [← h, hr], hn⟩

/-! ### the model's loops over the pieces of `split ','`, as one generic loop -/

/-- `acceptLoop` / `consumeLoop` with the test on the normalised media type abstracted -/
def pieceLoop (test : Str → Bool) : List Str → Bool
  | [] => false
  | piece :: rest =>
    if test (mediaOf piece) then true
    else if remainingEmpty rest then false
    else pieceLoop test rest

theorem acceptLoop_eq (produces : List Str) (l : List Str) :
    acceptLoop produces l =
      pieceLoop (fun mt => mt == starStar || produces.any (fun p => p == starStar || p == mt)) l := by
  induction l with
  | nil => rfl
  | cons p rest ih =>
    simp only [acceptLoop, pieceLoop, ih]
    by_cases h1 : mediaOf p = starStar <;> simp [h1]

theorem consumeLoop_eq (consumes : List Str) (l : List Str) :
    consumeLoop consumes l =
      pieceLoop (fun mt => consumes.any (fun p => p == starStar || p == mt)) l := by
  induction l with
  | nil => rfl
  | cons p rest ih =>
    simp [consumeLoop, pieceLoop, ih]

theorem split_of_not_mem {c : Char} {s : Str} (h : c ∉ s) : Str.split c s = [s] :=
  List.splitOn_eq_singleton h

theorem split_append_cons {c : Char} {l : Str} (h : c ∉ l) (r : Str) :
    Str.split c (l ++ c :: r) = l :: Str.split c r :=
  List.splitOn_append_cons_self_of_not_mem h r

theorem remainingEmpty_split (c : Char) (s : Str) : remainingEmpty (Str.split c s) = s.isEmpty := by
  rcases cut_cases c s with ⟨l, r, rfl, hl⟩ | h
  · rw [split_append_cons hl]
    rcases hs : Str.split c r with _ | ⟨a, t⟩
    · exact absurd hs (Str.split_ne_nil c r)
    · simp [remainingEmpty]
  · rw [split_of_not_mem h]; simp [remainingEmpty]

/-! ### the fuelled loop: it returns before the fuel runs out -/

/-- the outer loop of `matchesAccept` / `matchesContentType`: `body` is characterised by what one
iteration does on a remaining text without a comma (`h1`) and on one cut at its first comma (`h2`);
the fuel (the length of the list iterated over) only has to exceed the length of the remaining text -/
theorem fuel_loop (test : Str → Bool)
    (body : Int → Option Bool × Str → Option (ForInStep (Option Bool × Str)))
    (h1 : ∀ x s, ',' ∉ s → body x (none, s) = some (.done (some (test (mediaOf s)), [])))
    (h2 : ∀ x l r, ',' ∉ l → body x (none, l ++ ',' :: r) =
      some (if test (mediaOf l) then .done (some true, r)
            else if r.isEmpty then .done (some false, r) else .yield (none, r)))
    (fuel : List Int) (s : Str) (h : s.length < fuel.length) :
    ∃ s', forIn fuel (none, s) body = some (some (pieceLoop test (Str.split ',' s)), s') := by
  induction fuel generalizing s with
  | nil => simp at h
  | cons x xs ih =>
    rw [List.forIn_cons]
    rcases cut_cases ',' s with ⟨l, r, rfl, hl⟩ | hs
    · rw [h2 x l r hl, split_append_cons hl]
      simp only [pieceLoop, remainingEmpty_split]
      by_cases ht : test (mediaOf l) = true
      · exact ⟨r, by simp [ht]⟩
      · by_cases hr : r.isEmpty = true
        · exact ⟨r, by simp [ht, hr]⟩
        · have hlen : r.length < xs.length := by
            simp only [List.length_append, List.length_cons] at h; omega
          obtain ⟨s', hs'⟩ := ih r hlen
          exact ⟨s', by simp [ht, hr, hs']⟩
    · rw [h1 x s hs, split_of_not_mem hs]
      exact ⟨[], by simp [pieceLoop, remainingEmpty]⟩

theorem mediaOf_of_not_mem {s : Str} (h : ';' ∉ s) : mediaOf s = Str.trim ' ' s := by
  have : s.takeWhile (· != ';') = s := by
    have := (Str.takeWhile_ne_append (rest := []) h (Or.inl rfl)).1
    simpa using this
  simp [mediaOf, trimSpaces, cutAtSemi, this]

theorem mediaOf_append_cons {l : Str} (h : ';' ∉ l) (r : Str) : mediaOf (l ++ ';' :: r) = Str.trim ' ' l := by
  simp [mediaOf, trimSpaces, cutAtSemi, (Str.takeWhile_ne_append h (Or.inr ⟨r, rfl⟩)).1]

/-- the inner `for … range` with an early `return true` -/
theorem any_loop {α : Type} (f : α → Bool) (l : List α) :
    forIn l ((none : Option Bool), ()) (fun p _ =>
      if f p = true then (pure (ForInStep.done (some true, ())) : Option _)
      else pure (ForInStep.yield (none, ()))) = some (if l.any f then some true else none, ()) := by
  induction l with
  | nil => simp
  | cons a t ih =>
    rw [List.forIn_cons]
    by_cases h : f a = true
    · simp [h]
    · simp only [h, List.any_cons, Bool.false_or]
      simpa using ih

/-- `fuel_loop` in the shape the translation produces: the loop, then a continuation reading the result -/
theorem fuel_loop_bind {γ : Type} (test : Str → Bool)
    {body : Int → Option Bool × Str → Option (ForInStep (Option Bool × Str))}
    {fuel : List Int} {s : Str} {k : Option Bool × Str → Option γ} {v : γ}
    (hl : s.length < fuel.length)
    (hk : ∀ s', k (some (pieceLoop test (Str.split ',' s)), s') = some v)
    (h1 : ∀ x s, ',' ∉ s → body x (none, s) = some (.done (some (test (mediaOf s)), [])))
    (h2 : ∀ x l r, ',' ∉ l → body x (none, l ++ ',' :: r) =
      some (if test (mediaOf l) then .done (some true, r)
            else if r.isEmpty then .done (some false, r) else .yield (none, r))) :
    (forIn fuel (none, s) body >>= k) = some v := by
  obtain ⟨s', hs'⟩ := fuel_loop test body h1 h2 fuel s hl
  rw [hs']
  exact hk s'

end T5
end TieImp
end Restful
