/- shared bridging lemmas of the imperative ties (prelude operations vs the string library) -/
import Restful.Lemmas.TieImp
import Restful.Model.Detect
namespace Restful
namespace TieImp
namespace T2
open Imp

theorem indexSub_single (c : Char) (s : Str) : Str.indexSub [c] s = s.idxOf? c := by
  induction s with
  | nil => simp [Str.indexSub]
  | cons d ds ih =>
    simp only [Str.indexSub, List.idxOf?_cons, ih]
    by_cases hd : d = c
    · simp [hd, List.isPrefixOf]
    · have : ¬ c = d := fun h => hd h.symm
      simp [hd, this, List.isPrefixOf]

theorem index_single (c : Char) (s : Str) :
    Imp.index s [c] = match Str.index c s with | some k => ((k : Nat) : Int) | none => -1 := by
  simp only [Imp.index, indexSub_single, Str.index]
  rfl

/-- `strings.Contains(s, string(c))` is `strings.Index(s, string(c)) != -1` -/
theorem containsSub_single (c : Char) (s : Str) : Str.containsSub [c] s = (Str.index c s).isSome := by
  simp only [Str.containsSub, indexSub_single, Str.index]

/-- `strings.Trim` is `strings.TrimRight` of `strings.TrimLeft` (one-character cutset) -/
theorem trim_eq (c : Char) (s : Str) : Str.trim c s = Str.trimRight c (Str.trimLeft c s) := rfl

theorem idxOf?_lt {c : Char} {s : Str} {k : Nat} (h : s.idxOf? c = some k) : k < s.length := by
  induction s generalizing k with
  | nil => simp at h
  | cons d ds ih =>
    rw [List.idxOf?_cons] at h
    by_cases hd : d = c
    · simp [hd] at h; subst h; simp
    · simp [hd] at h
      obtain ⟨a, ha, rfl⟩ := h
      have := ih ha
      simp; omega

theorem slice_eq (s : Str) (i j : Int) : Imp.slice s i j = Str.slice? s i j := rfl

theorem range_nat (a b : Nat) :
    Imp.range (a : Int) (b : Int) = (List.range' a (b - a)).map (fun k : Nat => (k : Int)) := by
  unfold Imp.range
  have h1 : ((b : Int) - (a : Int)).toNat = b - a := by omega
  rw [h1, List.range_eq_range']
  generalize b - a = n
  have : ∀ s, List.map (fun k : Nat => (a : Int) + (k : Int)) (List.range' s n)
      = List.map (fun k : Nat => (k : Int)) (List.range' (a + s) n) := by
    induction n with
    | zero => simp
    | succ n ih => intro s; simp [List.range'_succ, ih, Nat.add_assoc]
  simpa using this 0

theorem range_nat_len {α : Type} (a : Nat) (xs : List α) :
    Imp.range (a : Int) (len xs) = (List.range' a (xs.length - a)).map (fun k : Nat => (k : Int)) :=
  range_nat a xs.length

theorem at?_nat {α : Type} (xs : List α) (k : Nat) : Imp.at? xs (k : Int) = xs[k]? := by
  simp [Imp.at?]

end T2
end TieImp
end Restful
