/-
C03, part 2: the ranking keys.  A more specific template has the greater static count
(CurlyRouter's first sort key); among WebService root paths a literal scores above a variable,
a longer matching root above its own prefix, and `detectWebService` returns, among the roots that
claim the request (faithful score `Curly.wsScoreE`, fix 19aa57d), one of greatest score.
-/
import Restful.Spec.Order
import Restful.Lemmas.CurlyMatch
import Restful.Lemmas.CurlySelect
namespace Restful
open Str

/-! ### route level: `moreSpecific` raises the static count -/

def litCount (ts : List TTok) : Nat := (ts.filter (fun t => t.base.name?.isNone)).length

theorem litCount_cons (t : TTok) (ts : List TTok) :
    litCount (t :: ts) = (if t.base.name?.isNone then 1 else 0) + litCount ts := by
  simp only [litCount, List.filter_cons]
  split <;> simp <;> omega

theorem atLeast_lastHasVerb : ∀ (a b : List TTok), Spec.atLeastAsSpecific a b = true →
    lastHasVerb a = lastHasVerb b
  | [], [], _ => rfl
  | [], _ :: _, h => by simp [Spec.atLeastAsSpecific] at h
  | _ :: _, [], h => by simp [Spec.atLeastAsSpecific] at h
  | [a], [b], h => by
    simp only [Spec.atLeastAsSpecific, Spec.tokAtLeast, Bool.and_eq_true, beq_iff_eq] at h
    simp [lastHasVerb, h.1.1.1]
  | _ :: _ :: _, [_], h => by simp [Spec.atLeastAsSpecific] at h
  | [_], _ :: _ :: _, h => by simp [Spec.atLeastAsSpecific] at h
  | a :: a' :: as, b :: b' :: bs, h => by
    rw [lastHasVerb_cons_cons, lastHasVerb_cons_cons]
    rw [Spec.atLeastAsSpecific, Bool.and_eq_true] at h
    exact atLeast_lastHasVerb (a' :: as) (b' :: bs) h.2

theorem atLeast_litCount : ∀ (a b : List TTok), Spec.atLeastAsSpecific a b = true →
    litCount b ≤ litCount a ∧ (Spec.someStrict a b = true → litCount b < litCount a)
  | [], [], _ => by simp [Spec.someStrict]
  | [], _ :: _, h => by simp [Spec.atLeastAsSpecific] at h
  | _ :: _, [], h => by simp [Spec.atLeastAsSpecific] at h
  | a :: as, b :: bs, h => by
    rw [Spec.atLeastAsSpecific, Bool.and_eq_true] at h
    have ih := atLeast_litCount as bs h.2
    have h1 := h.1
    simp only [Spec.tokAtLeast, Spec.TTok.isLit, Bool.and_eq_true, Bool.or_eq_true,
      Bool.not_eq_true'] at h1
    rw [litCount_cons, litCount_cons]
    simp only [Spec.someStrict, Spec.tokStrict, Spec.TTok.isLit, Bool.or_eq_true, Bool.and_eq_true,
      Bool.not_eq_true']
    cases ha : a.base.name?.isNone <;> cases hb : b.base.name?.isNone <;>
      simp [ha, hb] at h1 ⊢ <;> omega

/-- **C03, CurlyRouter ranking key**: a template that is more specific than another has the
    strictly greater static count -/
theorem C03_curly_key (ts' ts : List TTok) (h : Spec.moreSpecific ts' ts = true) :
    staticCount ts' > staticCount ts := by
  rw [Spec.moreSpecific, Bool.and_eq_true] at h
  have h1 := atLeast_lastHasVerb ts' ts h.1
  have h2 := (atLeast_litCount ts' ts h.1).2 h.2
  unfold staticCount
  rw [h1]
  unfold litCount at h2
  omega

/-! ### service level: `computeWebserviceScore` -/
namespace Curly

/-- what one root token adds to the score; `n` = number of root tokens after it -/
def stepD (x q : Str) (n : Nat) : Option Nat :=
  if q.isEmpty && x.isEmpty then some 1
  else if Spec.rootTokIsVar x then (if q.isEmpty then none else some 1)
  else if q != x then none else some ((n + 1) * 10)

theorem scoreWalk_cons (x q : Str) (ts qs : List Str) (acc : Nat) :
    scoreWalk (x :: ts) (q :: qs) acc = (stepD x q ts.length).bind (fun d => scoreWalk ts qs (acc + d)) := by
  rw [scoreWalk, stepD, Spec.rootTokIsVar]
  split
  · rfl
  · split
    · split <;> rfl
    · split <;> rfl

theorem stepD_pos {x q : Str} {n d : Nat} (h : stepD x q n = some d) : 1 ≤ d := by
  unfold stepD at h
  split at h
  · simp at h; omega
  · split at h
    · split at h <;> simp at h; omega
    · split at h <;> simp at h; omega

theorem stepD_mono {x q : Str} {n m d d' : Nat} (h : stepD x q n = some d) (h' : stepD x q m = some d')
    (hnm : n ≤ m) : d ≤ d' := by
  unfold stepD at h h'
  by_cases c1 : (q.isEmpty && x.isEmpty) = true
  · rw [if_pos c1, Option.some.injEq] at h h'
    omega
  · rw [if_neg c1] at h h'
    by_cases c2 : Spec.rootTokIsVar x = true
    · rw [if_pos c2] at h h'
      by_cases c3 : q.isEmpty = true
      · rw [if_pos c3] at h; simp at h
      · rw [if_neg c3, Option.some.injEq] at h h'
        omega
    · rw [if_neg c2] at h h'
      by_cases c3 : (q != x) = true
      · rw [if_pos c3] at h; simp at h
      · rw [if_neg c3, Option.some.injEq] at h h'
        subst h h'
        exact Nat.mul_le_mul_right 10 (by omega)

/-- at one position: a non-empty literal token scores at least what any token scores, and more
    than a variable -/
theorem stepD_lit_var {x y q : Str} {n dx dy : Nat} (hx : x ≠ [])
    (hxy : (!Spec.rootTokIsVar x || Spec.rootTokIsVar y) = true)
    (h : stepD x q n = some dx) (h' : stepD y q n = some dy) :
    dy ≤ dx ∧ ((!Spec.rootTokIsVar x && Spec.rootTokIsVar y) = true → dy < dx) := by
  have hxe : x.isEmpty = false := by cases x <;> simp_all
  unfold stepD at h h'
  simp only [hxe, Bool.and_false, Bool.false_eq_true, if_false] at h
  cases hvx : Spec.rootTokIsVar x with
  | true =>
    have hvy : Spec.rootTokIsVar y = true := by simpa [hvx] using hxy
    have hye : y.isEmpty = false := by
      cases y with
      | nil => simp [Spec.rootTokIsVar] at hvy
      | cons _ _ => rfl
    simp only [hvx, if_true] at h
    simp only [hvy, hye, Bool.and_false, Bool.false_eq_true, if_false, if_true] at h'
    split at h
    · simp at h
    · simp_all
  | false =>
    simp only [hvx, Bool.false_eq_true, if_false] at h
    split at h
    · simp at h
    · rename_i hq
      have hq' : q = x := by simpa using hq
      have hqe : q.isEmpty = false := by rw [hq']; exact hxe
      simp only [Option.some.injEq] at h
      simp only [hqe, Bool.false_and, Bool.false_eq_true, if_false] at h'
      split at h'
      · simp only [Option.some.injEq] at h'
        subst h h'
        simp
        omega
      · split at h'
        · simp at h'
        · simp only [Option.some.injEq] at h'
          subst h h'
          simp_all

theorem scoreWalk_ge : ∀ (ts qs : List Str) (acc s : Nat), scoreWalk ts qs acc = some s → acc + ts.length ≤ s
  | [], _, acc, s, h => by simp [scoreWalk] at h; simp; omega
  | _ :: _, [], _, _, h => by simp [scoreWalk] at h
  | x :: ts, q :: qs, acc, s, h => by
    rw [scoreWalk_cons] at h
    cases hd : stepD x q ts.length with
    | none => simp [hd] at h
    | some d =>
      simp only [hd, Option.bind_some] at h
      have := scoreWalk_ge ts qs _ s h
      have := stepD_pos hd
      simp only [List.length_cons]
      omega

theorem rootAtLeast_length : ∀ (a b : List Str), Spec.rootAtLeast a b = true → a.length = b.length
  | [], [], _ => rfl
  | [], _ :: _, h => by simp [Spec.rootAtLeast] at h
  | _ :: _, [], h => by simp [Spec.rootAtLeast] at h
  | _ :: as, _ :: bs, h => by
    rw [Spec.rootAtLeast, Bool.and_eq_true] at h
    simp [rootAtLeast_length as bs h.2]

theorem scoreWalk_lit_var : ∀ (a b qs : List Str) (acca accb sa sb : Nat), (∀ t ∈ a, t ≠ []) →
    Spec.rootAtLeast a b = true → scoreWalk a qs acca = some sa → scoreWalk b qs accb = some sb →
    accb ≤ acca → sb ≤ sa ∧ ((accb < acca ∨ Spec.rootSomeStrict a b = true) → sb < sa)
  | [], [], qs, acca, accb, sa, sb, _, _, ha, hb, hacc => by
    simp only [scoreWalk, Option.some.injEq] at ha hb
    subst ha hb
    simp [Spec.rootSomeStrict]
    exact hacc
  | [], _ :: _, _, _, _, _, _, _, h, _, _, _ => by simp [Spec.rootAtLeast] at h
  | _ :: _, [], _, _, _, _, _, _, h, _, _, _ => by simp [Spec.rootAtLeast] at h
  | _ :: _, _ :: _, [], _, _, _, _, _, _, ha, _, _ => by simp [scoreWalk] at ha
  | x :: as, y :: bs, q :: qs, acca, accb, sa, sb, hne, hal, ha, hb, hacc => by
    rw [Spec.rootAtLeast, Bool.and_eq_true] at hal
    have hlen := rootAtLeast_length as bs hal.2
    rw [scoreWalk_cons] at ha hb
    cases hdx : stepD x q as.length with
    | none => simp [hdx] at ha
    | some dx =>
      cases hdy : stepD y q bs.length with
      | none => simp [hdy] at hb
      | some dy =>
        simp only [hdx, hdy, Option.bind_some] at ha hb
        rw [← hlen] at hdy
        have hstep := stepD_lit_var (hne x List.mem_cons_self) hal.1 hdx hdy
        have ih := scoreWalk_lit_var as bs qs _ _ sa sb
          (fun t ht => hne t (List.mem_cons_of_mem _ ht)) hal.2 ha hb (by omega)
        refine ⟨ih.1, ?_⟩
        intro hs
        apply ih.2
        rcases hs with hs | hs
        · exact Or.inl (by omega)
        · rw [Spec.rootSomeStrict, Bool.or_eq_true] at hs
          rcases hs with hs | hs
          · exact Or.inl (by have := hstep.2 hs; omega)
          · exact Or.inr hs

theorem scoreWalk_prefix : ∀ (b c qs : List Str) (acca accb sa sb : Nat),
    scoreWalk (b ++ c) qs acca = some sa → scoreWalk b qs accb = some sb → accb ≤ acca →
    sb + c.length ≤ sa
  | [], c, qs, acca, accb, sa, sb, ha, hb, hacc => by
    simp only [scoreWalk, Option.some.injEq] at hb
    subst hb
    have := scoreWalk_ge c qs acca sa (by simpa using ha)
    omega
  | _ :: _, _, [], _, _, _, _, ha, _, _ => by simp [scoreWalk] at ha
  | y :: bs, c, q :: qs, acca, accb, sa, sb, ha, hb, hacc => by
    rw [List.cons_append, scoreWalk_cons] at ha
    rw [scoreWalk_cons] at hb
    cases hda : stepD y q (bs ++ c).length with
    | none => rw [hda] at ha; simp at ha
    | some da =>
      cases hdb : stepD y q bs.length with
      | none => simp [hdb] at hb
      | some db =>
        rw [hda] at ha
        rw [hdb] at hb
        simp only [Option.bind_some] at ha hb
        have := stepD_mono hdb hda (by simp)
        exact scoreWalk_prefix bs c qs _ _ sa sb ha hb (by omega)

theorem wsScore_some {qs toks : List Str} {s : Nat} (h : wsScore qs toks = some s) :
    scoreWalk toks qs 0 = some s := by
  unfold wsScore at h
  split at h
  · simp at h
  · exact h

end Curly

/-- **C03, service level**: a root with a literal where the other has a variable (same shape
    otherwise) scores higher, whenever both match the request.
    (`hne`: the tokens of the more specific root are not empty — an empty root token, as in `//`,
    scores like a variable.) -/
theorem C03_root_literal_beats_variable (qs a b : List Str) (hne : ∀ t ∈ a, t ≠ [])
    (h : Spec.rootMoreSpecific a b = true) (sa sb : Nat)
    (ha : Curly.wsScore qs a = some sa) (hb : Curly.wsScore qs b = some sb) : sa > sb := by
  rw [Spec.rootMoreSpecific, Bool.and_eq_true] at h
  exact (Curly.scoreWalk_lit_var a b qs 0 0 sa sb hne h.1 (Curly.wsScore_some ha) (Curly.wsScore_some hb)
    (Nat.le_refl _)).2 (Or.inr h.2)

/-- **C03, service level**: a longer matching root scores higher than its own proper prefix -/
theorem C03_root_longer_beats_prefix (qs a b : List Str) (hpre : b <+: a) (hne : b ≠ a) (sa sb : Nat)
    (ha : Curly.wsScore qs a = some sa) (hb : Curly.wsScore qs b = some sb) : sa > sb := by
  obtain ⟨c, rfl⟩ := hpre
  have hc : c ≠ [] := by intro e; subst e; simp at hne
  have := Curly.scoreWalk_prefix b c qs 0 0 sa sb (Curly.wsScore_some ha) (Curly.wsScore_some hb) (Nat.le_refl _)
  have : 0 < c.length := List.length_pos_iff.mpr hc
  omega

namespace Curly
variable (E : ReEnv)

/-- the arithmetic of the service's score for the request (no root expression is looked at) -/
abbrev svcScore (qs : List Str) (s : Service) : Option Nat := wsScore qs (tokenize s.rootPath)

/-- the service's score for the request, as `detectWebService` computes it -/
abbrev svcScoreE (qs : List Str) (s : Service) : Score := wsScoreE E qs (tokenize s.rootPath)

theorem detectWebService_inv (qs : List Str) : ∀ (svcs : List Service) (best : Option (Service × Nat)) (s : Service) (sc : Nat),
    detectWebService E qs svcs best = some (some (s, sc)) →
      ((s ∈ svcs ∧ svcScoreE E qs s = .yes sc) ∨ best = some (s, sc)) ∧
      (∀ s' ∈ svcs, ∀ sc', svcScoreE E qs s' = .yes sc' → sc' ≤ sc) ∧
      (∀ b bs, best = some (b, bs) → bs ≤ sc)
  | [], best, s, sc, h => by
    simp only [detectWebService, Option.some.injEq] at h
    subst h
    simp
  | x :: xs, best, s, sc, h => by
    unfold detectWebService at h
    split at h
    · simp at h
    · rename_i sc0 hx
      obtain ⟨h1, h2, h3⟩ := detectWebService_inv qs xs _ s sc h
      refine ⟨?_, ?_, by simp⟩
      · rcases h1 with ⟨hm, hs⟩ | h1
        · exact Or.inl ⟨List.mem_cons_of_mem _ hm, hs⟩
        · simp only [Option.some.injEq, Prod.mk.injEq] at h1
          obtain ⟨rfl, rfl⟩ := h1
          exact Or.inl ⟨List.mem_cons_self, hx⟩
      · intro s' hs' sc' hsc'
        simp only [List.mem_cons] at hs'
        rcases hs' with rfl | hs'
        · have : sc' = sc0 := by
            have : svcScoreE E qs s' = .yes sc0 := hx
            rw [this] at hsc'; exact (Score.yes.inj hsc').symm
          subst this
          exact h3 _ _ rfl
        · exact h2 s' hs' sc' hsc'
    · rename_i sc0 b bs hx
      split at h
      · rename_i hgt
        obtain ⟨h1, h2, h3⟩ := detectWebService_inv qs xs _ s sc h
        have h30 := h3 _ _ rfl
        refine ⟨?_, ?_, ?_⟩
        · rcases h1 with ⟨hm, hs⟩ | h1
          · exact Or.inl ⟨List.mem_cons_of_mem _ hm, hs⟩
          · simp only [Option.some.injEq, Prod.mk.injEq] at h1
            obtain ⟨rfl, rfl⟩ := h1
            exact Or.inl ⟨List.mem_cons_self, hx⟩
        · intro s' hs' sc' hsc'
          simp only [List.mem_cons] at hs'
          rcases hs' with rfl | hs'
          · have : sc' = sc0 := by
              have : svcScoreE E qs s' = .yes sc0 := hx
              rw [this] at hsc'; exact (Score.yes.inj hsc').symm
            subst this
            exact h30
          · exact h2 s' hs' sc' hsc'
        · intro b' bs' hb'
          simp only [Option.some.injEq, Prod.mk.injEq] at hb'
          obtain ⟨rfl, rfl⟩ := hb'
          omega
      · rename_i hgt
        obtain ⟨h1, h2, h3⟩ := detectWebService_inv qs xs _ s sc h
        have h30 := h3 _ _ rfl
        refine ⟨?_, ?_, ?_⟩
        · rcases h1 with ⟨hm, hs⟩ | h1
          · exact Or.inl ⟨List.mem_cons_of_mem _ hm, hs⟩
          · exact Or.inr h1
        · intro s' hs' sc' hsc'
          simp only [List.mem_cons] at hs'
          rcases hs' with rfl | hs'
          · have : sc' = sc0 := by
              have : svcScoreE E qs s' = .yes sc0 := hx
              rw [this] at hsc'; exact (Score.yes.inj hsc').symm
            subst this
            omega
          · exact h2 s' hs' sc' hsc'
        · intro b' bs' hb'
          simp only [Option.some.injEq, Prod.mk.injEq] at hb'
          obtain ⟨rfl, rfl⟩ := hb'
          exact h30
    · rename_i hx
      obtain ⟨h1, h2, h3⟩ := detectWebService_inv qs xs _ s sc h
      refine ⟨?_, ?_, h3⟩
      · rcases h1 with ⟨hm, hs⟩ | h1
        · exact Or.inl ⟨List.mem_cons_of_mem _ hm, hs⟩
        · exact Or.inr h1
      · intro s' hs' sc' hsc'
        simp only [List.mem_cons] at hs'
        rcases hs' with rfl | hs'
        · have : svcScoreE E qs s' = .no := hx
          rw [this] at hsc'; cases hsc'
        · exact h2 s' hs' sc' hsc'

/-- the detected service claims the request (its faithful score is `true, sc`) and has the greatest
    score among all services that claim it -/
theorem detectWebService_max (qs : List Str) (svcs : List Service) (s : Service) (sc : Nat)
    (h : detectWebService E qs svcs none = some (some (s, sc))) :
    wsScoreE E qs (tokenize s.rootPath) = .yes sc ∧
    ∀ s' ∈ svcs, ∀ sc', wsScoreE E qs (tokenize s'.rootPath) = .yes sc' → sc' ≤ sc := by
  obtain ⟨h1, h2, _⟩ := detectWebService_inv E qs svcs none s sc h
  refine ⟨?_, h2⟩
  rcases h1 with ⟨_, hs⟩ | h1
  · exact hs
  · simp at h1

/-- scoring panics exactly when the score of some service does -/
theorem detectWebService_panic (qs : List Str) : ∀ (svcs : List Service) (best : Option (Service × Nat)),
    detectWebService E qs svcs best = none ↔ ∃ s ∈ svcs, svcScoreE E qs s = .panic
  | [], best => by simp [detectWebService]
  | x :: xs, best => by
    unfold detectWebService
    split
    · rename_i hx
      have : svcScoreE E qs x = .panic := hx
      simp [this]
    · rename_i sc hx
      have : svcScoreE E qs x = .yes sc := hx
      rw [detectWebService_panic qs xs]
      simp [this]
    · rename_i sc b bs hx
      have : svcScoreE E qs x = .yes sc := hx
      split <;> rw [detectWebService_panic qs xs] <;> simp [this]
    · rename_i hx
      have : svcScoreE E qs x = .no := hx
      rw [detectWebService_panic qs xs]
      simp [this]

/-- no service is detected exactly when no root claims the request -/
theorem detectWebService_none (qs : List Str) : ∀ (svcs : List Service) (best : Option (Service × Nat)),
    detectWebService E qs svcs best = some none ↔ best = none ∧ ∀ s ∈ svcs, svcScoreE E qs s = .no
  | [], best => by simp [detectWebService]
  | x :: xs, best => by
    unfold detectWebService
    split
    · rename_i hx
      have : svcScoreE E qs x = .panic := hx
      simp [this]
    · rename_i sc hx
      rw [detectWebService_none qs xs]
      have : svcScoreE E qs x = .yes sc := hx
      simp [this]
    · rename_i sc b bs hx
      have : svcScoreE E qs x = .yes sc := hx
      split <;> rw [detectWebService_none qs xs] <;> simp
    · rename_i hx
      rw [detectWebService_none qs xs]
      have : svcScoreE E qs x = .no := hx
      simp [this]

end Curly
end Restful
