/-
C03 as a predicate on one outcome: `Spec.c03Holds` holds of what the model selects.

  * `Curly.scoreWalk_lit_var'` — "a literal root token beats a variable" without the hypothesis
    that the tokens of the more specific root are non-empty (`C03_root_literal_beats_variable`
    asks for it): an empty root token is matched by an empty URL segment only, which neither a
    variable nor a non-empty literal matches, so when BOTH roots match the same URL the other
    root has an empty token there too and the two positions score the same.
  * `routeCurly_selected_full`, `routeJsr_selected_full` — what a `selected` outcome rests on, with
    the detected WebService exposed (the existing `…_selected_max` lemmas hide it behind `∃`).
  * `c03Holds_curly`, `c03Holds_jsr`.
-/
import Restful.Lemmas.Order
import Restful.Lemmas.OrderJsr
namespace Restful
open Str

/-! ### service level, CurlyRouter: no side condition on empty tokens when both roots match -/
namespace Curly

/-- `stepD_lit_var` without `x ≠ []` -/
theorem stepD_lit_var' {x y q : Str} {n dx dy : Nat}
    (hxy : (!Spec.rootTokIsVar x || Spec.rootTokIsVar y) = true)
    (h : stepD x q n = some dx) (h' : stepD y q n = some dy) :
    dy ≤ dx ∧ ((!Spec.rootTokIsVar x && Spec.rootTokIsVar y) = true → dy < dx) := by
  cases x with
  | cons c cs => exact stepD_lit_var (by simp) hxy h h'
  | nil =>
    -- an empty root token: the segment is empty, so the other token is empty as well
    cases q with
    | cons d ds => simp [stepD, Spec.rootTokIsVar] at h
    | nil =>
      cases y with
      | nil =>
        simp only [stepD, List.isEmpty_nil, Bool.and_self, if_true, Option.some.injEq] at h h'
        subst h h'
        simp [Spec.rootTokIsVar]
      | cons e es =>
        unfold stepD at h'
        simp only [List.isEmpty_nil, List.isEmpty_cons, Bool.and_false, Bool.false_eq_true, if_false,
          if_true] at h'
        split at h'
        · simp at h'
        · simp at h'

/-- `scoreWalk_lit_var` without the non-emptiness hypothesis -/
theorem scoreWalk_lit_var' : ∀ (a b qs : List Str) (acca accb sa sb : Nat),
    Spec.rootAtLeast a b = true → scoreWalk a qs acca = some sa → scoreWalk b qs accb = some sb →
    accb ≤ acca → sb ≤ sa ∧ ((accb < acca ∨ Spec.rootSomeStrict a b = true) → sb < sa)
  | [], [], qs, acca, accb, sa, sb, _, ha, hb, hacc => by
    simp only [scoreWalk, Option.some.injEq] at ha hb
    subst ha hb
    simp [Spec.rootSomeStrict]
    exact hacc
  | [], _ :: _, _, _, _, _, _, h, _, _, _ => by simp [Spec.rootAtLeast] at h
  | _ :: _, [], _, _, _, _, _, h, _, _, _ => by simp [Spec.rootAtLeast] at h
  | _ :: _, _ :: _, [], _, _, _, _, _, ha, _, _ => by simp [scoreWalk] at ha
  | x :: as, y :: bs, q :: qs, acca, accb, sa, sb, hal, ha, hb, hacc => by
    rw [Spec.rootAtLeast, Bool.and_eq_true] at hal
    have hlen := rootAtLeast_length as bs hal.2
    rw [scoreWalk_cons] at ha hb
    cases hdx : stepD x q as.length with
    | none => simp [hdx] at ha
    | some dx =>
      cases hdy : stepD y q bs.length with
      | none => simp [hdy] at hb
      | some dy =>
        simp only [hdx, hdy, Option.bind_some] at ha hb
        rw [← hlen] at hdy
        have hstep := stepD_lit_var' hal.1 hdx hdy
        have ih := scoreWalk_lit_var' as bs qs _ _ sa sb hal.2 ha hb (by omega)
        refine ⟨ih.1, ?_⟩
        intro hs
        apply ih.2
        rcases hs with hs | hs
        · exact Or.inl (by omega)
        · rw [Spec.rootSomeStrict, Bool.or_eq_true] at hs
          rcases hs with hs | hs
          · exact Or.inl (by have := hstep.2 hs; omega)
          · exact Or.inr hs

end Curly

/-- **C03, service level**: a root with a literal where the other has a variable (same shape
    otherwise) scores higher whenever both match the request — no condition on empty tokens -/
theorem C03_root_literal_beats_variable' (qs a b : List Str)
    (h : Spec.rootMoreSpecific a b = true) (sa sb : Nat)
    (ha : Curly.wsScore qs a = some sa) (hb : Curly.wsScore qs b = some sb) : sa > sb := by
  rw [Spec.rootMoreSpecific, Bool.and_eq_true] at h
  exact (Curly.scoreWalk_lit_var' a b qs 0 0 sa sb h.1 (Curly.wsScore_some ha) (Curly.wsScore_some hb)
    (Nat.le_refl _)).2 (Or.inr h.2)

/-- the same on the score the router computes (root expressions evaluated) -/
theorem C03_rootE_literal_beats_variable' (E : ReEnv) (qs a b : List Str)
    (h : Spec.rootMoreSpecific a b = true) (sa sb : Nat)
    (ha : Curly.wsScoreE E qs a = .yes sa) (hb : Curly.wsScoreE E qs b = .yes sb) : sa > sb :=
  C03_root_literal_beats_variable' qs a b h sa sb (Curly.wsScore_of_wsScoreE E ha)
    (Curly.wsScore_of_wsScoreE E hb)

variable (E : ReEnv)

/-! ### well-formed tables: every built route has its structured reading -/

theorem wfTemplates_route {cfg : Config} (hwf : cfg.wfTemplates = true) {svc : Service}
    (hsvc : svc ∈ cfg.services) {rt : Route} (hrt : rt ∈ svc.built) :
    ∃ ts, Spec.templateOf cfg.router rt = some ts := by
  unfold Config.wfTemplates at hwf
  simp only [List.all_eq_true] at hwf
  exact Option.isSome_iff_exists.mp (hwf svc hsvc rt hrt)

/-! ### CurlyRouter -/

/-- the facts about a `selected` outcome of `routeCurly`: the detected WebService, and the route
    with the greatest static count among its matching eligible routes -/
theorem routeCurly_selected_full {cfg : Config} {req : Req} {s r : Nat} {ps : Params}
    (h : (routeCurly E cfg req).1 = .selected s r ps) :
    ∃ svc sc, Curly.detectWebService E (tokenize req.path) cfg.services none = some (some (svc, sc)) ∧
      ∃ rt ∈ svc.built, svc.id = s ∧ rt.id = r ∧
      ∃ p st, Curly.matchTokens E rt.pathParts (tokenize req.path) rt.hasCustomVerb = .yes p st ∧
        ∀ rt' ∈ svc.built, ∀ p' st', Curly.matchTokens E rt'.pathParts (tokenize req.path) rt'.hasCustomVerb = .yes p' st' →
          Spec.eligible rt' req = true → st' ≤ st := by
  rw [routeCurly_fst] at h
  split at h
  · simp at h
  · simp at h
  · rename_i svc sc hsvc
    obtain ⟨rt, hrt, h1, h2, _, p, st, hm, hmax⟩ := curlyAfterSvc_selected_max E h
    exact ⟨svc, sc, hsvc, rt, hrt, by rw [← Service.built_svc svc hrt]; exact h1, h2, p, st, hm, hmax⟩

/-- route level: no candidate route of the detected service is more specific than the selected one -/
theorem curlyRouteOK_of_max {svc : Service} {rt : Route} (hrt : rt ∈ svc.built) {req : Req} {ts : List TTok}
    (hts : readTemplate rt.path = some ts) {p st : Nat}
    (hm : Curly.matchTokens E rt.pathParts (tokenize req.path) rt.hasCustomVerb = .yes p st)
    (hmax : ∀ rt' ∈ svc.built, ∀ p' st', Curly.matchTokens E rt'.pathParts (tokenize req.path) rt'.hasCustomVerb = .yes p' st' →
      Spec.eligible rt' req = true → st' ≤ st) :
    Spec.curlyRouteOK E svc rt req = true := by
  unfold Spec.curlyRouteOK
  rw [hts]
  simp only [List.all_eq_true, Bool.not_eq_true']
  intro rt' hrt'
  unfold Spec.curlyRouteBeats
  cases hts' : readTemplate rt'.path with
  | none => rfl
  | some ts' =>
    simp only
    cases hadm : Spec.admits E .curly ts' (tokenize req.path) with
    | false => rfl
    | true =>
      cases hel : Spec.eligible rt' req with
      | false => rfl
      | true =>
        simp only [Bool.and_self, Bool.true_and]
        have hm' := matchTokens_of_template E svc hrt' hts' (tokenize req.path)
        rw [if_pos hadm] at hm'
        have hm0 := matchTokens_of_template E svc hrt hts (tokenize req.path)
        rw [hm] at hm0
        have hst : st = staticCount ts := by
          split at hm0
          · simp only [Curly.MatchResult.yes.injEq] at hm0
            exact hm0.2
          · simp at hm0
        have hle := hmax rt' hrt' _ _ hm' hel
        cases hms : Spec.moreSpecific ts' ts with
        | false => rfl
        | true =>
          have := C03_curly_key ts' ts hms
          omega

/-- root level: no WebService whose root claims the URL has a more specific root than the detected one -/
theorem curlyRootOK_of_detect {cfg : Config} {req : Req} {svc : Service} {sc : Nat}
    (h : Curly.detectWebService E (tokenize req.path) cfg.services none = some (some (svc, sc))) :
    Spec.curlyRootOK E cfg svc req = true := by
  obtain ⟨hsc, hmax⟩ := Curly.detectWebService_max E _ _ _ _ h
  unfold Spec.curlyRootOK
  simp only [List.all_eq_true, Bool.not_eq_true']
  intro s' hs'
  unfold Spec.curlyRootBeats Spec.rootClaims
  cases hsc' : Curly.wsScoreE E (tokenize req.path) (tokenize s'.rootPath) with
  | no => rfl
  | panic => rfl
  | yes sc' =>
    have hle := hmax s' hs' sc' hsc'
    simp only [Bool.true_and]
    cases hms : Spec.rootMoreSpecific (tokenize s'.rootPath) (tokenize svc.rootPath) with
    | true =>
      have := C03_rootE_literal_beats_variable' E _ _ _ hms sc' sc hsc' hsc
      omega
    | false =>
      cases hpe : Spec.rootProperExtension (tokenize s'.rootPath) (tokenize svc.rootPath) with
      | false => rfl
      | true =>
        unfold Spec.rootProperExtension at hpe
        simp only [Bool.and_eq_true, List.isPrefixOf_iff_prefix, bne_iff_ne, ne_eq] at hpe
        have := C03_rootE_longer_beats_prefix E _ _ _ hpe.1 (fun e => hpe.2 e.symm) sc' sc hsc' hsc
        omega

/-- **`Spec.c03Holds` holds of what CurlyRouter selects** -/
theorem c03Holds_curly (cfg : Config) (hwf : cfg.wfTemplates = true) (hk : cfg.router = .curly) (req : Req) :
    Spec.c03Holds E cfg req (routeCurly E cfg req).1 = true := by
  cases ho : (routeCurly E cfg req).1 with
  | error c a => rfl
  | panic w => rfl
  | selected s r ps =>
    obtain ⟨svc, sc, hdet, rt, hrt, h1, h2, p, st, hm, hmax⟩ := routeCurly_selected_full E ho
    have hsvc : svc ∈ cfg.services := Curly.detectWebService_mem_none E hdet
    obtain ⟨ts, hts⟩ := wfTemplates_route hwf hsvc hrt
    rw [hk] at hts
    simp only [Spec.templateOf] at hts
    unfold Spec.c03Holds
    simp only [List.any_eq_true, Bool.and_eq_true, beq_iff_eq]
    refine ⟨svc, hsvc, h1, rt, hrt, h2, ?_⟩
    rw [hk]
    simp only [Bool.and_eq_true]
    exact ⟨curlyRouteOK_of_max E hrt hts hm hmax, curlyRootOK_of_detect E hdet⟩

/-! ### RouterJSR311 -/

theorem Spec.jsrTok_eq : Spec.jsrTok = Jsr.ofTTok := by
  funext t
  obtain ⟨base, verb⟩ := t
  cases base <;> rfl

/-- the facts about a `selected` outcome of `routeJsr`: the dispatcher detected, what its root
    leaves of the URL, and the route with the most literal characters among the matching eligible
    routes (`routeJsr_selected_max` with the dispatcher exposed) -/
theorem routeJsr_selected_full {cfg : Config} {req : Req} {s r : Nat} {ps : Params}
    (h : (routeJsr E cfg req).1 = .selected s r ps) :
    ∃ svc final, Jsr.detectDispatcher E cfg.services req.path = some (some (svc, final)) ∧
      ∃ rt ∈ svc.built, svc.id = s ∧ rt.id = r ∧ ∃ wex wc,
      Jsr.compile svc.rootPath = some wex ∧ Jsr.matchExpr E wex.toks req.path = some (wc, final) ∧
      (∃ ex caps f, Jsr.compile rt.relPath = some ex ∧ Jsr.matchExpr E ex.toks final = some (caps, f) ∧
        (f = [] ∨ f = ['/']) ∧
        ∀ rt' ∈ svc.built, ∀ ex' caps' f', Jsr.compile rt'.relPath = some ex' →
          Jsr.matchExpr E ex'.toks final = some (caps', f') → (f' = [] ∨ f' = ['/']) →
          Spec.eligible rt' req = true → ex'.literalCount ≤ ex.literalCount) := by
  rw [routeJsr_fst] at h
  split at h
  · simp at h
  · simp at h
  · rename_i svc final hdisp
    obtain ⟨hsvc, wex, wc, hwex, hwm⟩ := Jsr.detectDispatcher_mem E hdisp
    unfold jsrAfterSvc at h
    cases hc : Jsr.routeCandidates E svc.built final with
    | none => simp [hc] at h
    | some cs =>
      simp only [hc] at h
      obtain ⟨c, hcm, h1, h2, _, _, hmax⟩ := finishWith_selected_max (·.route) Jsr.routeCandLess
        Jsr.routeCandLess_trans Jsr.routeCandLess_asymm _ cs req h
      have hcs := Jsr.routeCandidates_some E hc
      have hcm' := hcm
      rw [hcs, List.mem_filterMap] at hcm'
      obtain ⟨r0, hr0, hc0⟩ := hcm'
      obtain ⟨hroute, ex, caps, f, hex, hm, hf, hlc⟩ := Jsr.rcandOf_some E hc0
      subst hroute
      refine ⟨svc, final, hdisp, c.route, hr0, ?_, h2, wex, wc, hwex, hwm, ex, caps, f, hex, hm, hf, ?_⟩
      · rw [← Service.built_svc svc hr0]; exact h1
      · intro rt' hrt' ex' caps' f' hex' hm' hf' hel'
        have hc' : (⟨rt', caps'.length + 1, ex'.literalCount, ex'.varCount⟩ : Jsr.RouteCand) ∈ cs := by
          rw [hcs, List.mem_filterMap]
          exact ⟨rt', hrt', Jsr.rcandOf_of E hex' hm' hf'⟩
        have := hmax _ hc' hel'
        rw [Jsr.routeCandLess_eq_false_iff] at this
        simp only at this
        omega

theorem Spec.relTemplateJ_some {rel : Str} {ts : List TTok} (h : Spec.relTemplateJ rel = some ts) :
    readToks (Spec.nonEmptyToks rel) = some ts ∧ ∀ t ∈ ts, Spec.tokJsrOK t = true := by
  unfold Spec.relTemplateJ at h
  split at h
  · rename_i ts' hr
    split at h
    · rename_i hall
      simp only [Option.some.injEq] at h
      subst h
      exact ⟨hr, List.all_eq_true.mp hall⟩
    · simp at h
  · simp at h

/-- on a well-formed table the relative path of every built route has its reading -/
theorem relTemplateJ_of_wf {cfg : Config} (hwf : cfg.wfTemplates = true) (hk : cfg.router = .jsr) {svc : Service}
    (hsvc : svc ∈ cfg.services) {rt : Route} (hrt : rt ∈ svc.built) :
    ∃ ts, Spec.relTemplateJ rt.relPath = some ts := by
  obtain ⟨ts, hts⟩ := wfTemplates_route hwf hsvc hrt
  rw [hk] at hts
  simp only [Spec.templateOf] at hts
  obtain ⟨a, b, _, hb, _, _, hjsr, _⟩ := Jsr.readTemplateJ_spec hts
  refine ⟨b, ?_⟩
  unfold Spec.relTemplateJ
  rw [hb]
  simp only
  rw [if_pos]
  rw [List.all_eq_true]
  exact fun t ht => hjsr t (List.mem_append_right _ ht)

/-- route level: no candidate route of the dispatched service is more specific than the selected one -/
theorem jsrRouteOK_of_max {svc : Service} {rt : Route} {req : Req} {final : Str} {wex : Jsr.Expr} {wc : List Str}
    (hwex : Jsr.compile svc.rootPath = some wex) (hwm : Jsr.matchExpr E wex.toks req.path = some (wc, final))
    {ts : List TTok} (hts : Spec.relTemplateJ rt.relPath = some ts)
    {ex : Jsr.Expr} {caps : List Str} {f : Str} (hex : Jsr.compile rt.relPath = some ex)
    (hm : Jsr.matchExpr E ex.toks final = some (caps, f))
    (hmax : ∀ rt' ∈ svc.built, ∀ ex' caps' f', Jsr.compile rt'.relPath = some ex' →
      Jsr.matchExpr E ex'.toks final = some (caps', f') → (f' = [] ∨ f' = ['/']) →
      Spec.eligible rt' req = true → ex'.literalCount ≤ ex.literalCount) :
    Spec.jsrRouteOK E svc rt req = true := by
  have hfin : Spec.jsrFinalGroup E svc req.path = some final := by
    simp [Spec.jsrFinalGroup, hwex, hwm]
  unfold Spec.jsrRouteOK
  rw [hfin, hts]
  simp only [List.all_eq_true, Bool.not_eq_true']
  intro rt' hrt'
  unfold Spec.jsrRouteBeats
  cases hts' : Spec.relTemplateJ rt'.relPath with
  | none => rfl
  | some ts' =>
    simp only
    obtain ⟨hr, hj⟩ := Spec.relTemplateJ_some hts
    obtain ⟨hr', hj'⟩ := Spec.relTemplateJ_some hts'
    cases hmf : Spec.jsrMatchesFinal E ts' final with
    | false => rfl
    | true =>
      cases hel : Spec.eligible rt' req with
      | false => rfl
      | true =>
        simp only [Bool.and_self, Bool.true_and]
        -- what `jsrMatchesFinal` says
        unfold Spec.jsrMatchesFinal at hmf
        rw [Spec.jsrTok_eq] at hmf
        cases hm' : Jsr.matchExpr E (ts'.map Jsr.ofTTok) final with
        | none => simp [hm'] at hmf
        | some cf =>
          obtain ⟨caps', f'⟩ := cf
          simp only [hm', Bool.or_eq_true, List.isEmpty_iff, beq_iff_eq] at hmf
          obtain ⟨ex0, hex0, htoks, hlc⟩ := Jsr.compile_of_readToks' hr hj
          obtain ⟨ex', hex', htoks', hlc'⟩ := Jsr.compile_of_readToks' hr' hj'
          rw [hex] at hex0
          cases hex0
          have hle := hmax rt' hrt' ex' caps' f' hex' (by rw [htoks']; exact hm') hmf hel
          cases hms : Spec.moreSpecific ts' ts with
          | false => rfl
          | true =>
            rw [Spec.moreSpecific, Bool.and_eq_true] at hms
            have := (Jsr.jlit_align E ts' ts final (readToks_render hr').2 hj' (readToks_render hr).2 hj hms.1
              ⟨_, hm'⟩ ⟨_, by rw [← htoks]; exact hm⟩).2 hms.2
            omega

theorem Spec.jsrLiteralRoot_some {s : Service} {ex : Jsr.Expr} (h : Spec.jsrLiteralRoot s = some ex) :
    Jsr.compile s.rootPath = some ex ∧ ∀ t ∈ ex.toks, ∃ l, t = .lit l := by
  unfold Spec.jsrLiteralRoot at h
  split at h
  · rename_i ex' hc
    split at h
    · rename_i hall
      simp only [Option.some.injEq] at h
      subst h
      refine ⟨hc, ?_⟩
      intro t ht
      have := List.all_eq_true.mp hall t ht
      cases t with
      | lit l => exact ⟨l, rfl⟩
      | var n => simp at this
      | re n e => simp at this
      | wild n => simp at this
    · simp at h
  · simp at h

/-- root level: among literal roots, none that matches the URL has more literal characters than
    the one dispatched to (`C03_jsr_literal_root_longest`, needing only that the TWO roots compared
    are literal — a literal root is never ranked by its captures) -/
theorem jsrRootOK_of_detect {cfg : Config} {req : Req} {svc : Service} {final : Str}
    (h : Jsr.detectDispatcher E cfg.services req.path = some (some (svc, final))) :
    Spec.jsrRootOK E cfg svc req = true := by
  obtain ⟨_, hsvc, c, hc, _, hmax⟩ := Jsr.detectDispatcher_some_some E h
  unfold Spec.jsrRootOK
  cases hlr : Spec.jsrLiteralRoot svc with
  | none => rfl
  | some ex =>
    simp only [List.all_eq_true]
    intro s' hs'
    cases hlr' : Spec.jsrLiteralRoot s' with
    | none => rfl
    | some ex' =>
      simp only [Bool.not_eq_true', Bool.and_eq_false_iff, decide_eq_false_iff_not]
      obtain ⟨hex, hlit⟩ := Spec.jsrLiteralRoot_some hlr
      obtain ⟨hex', hlit'⟩ := Spec.jsrLiteralRoot_some hlr'
      cases hm' : Jsr.matchExpr E ex'.toks req.path with
      | none => left; rfl
      | some cf =>
        right
        obtain ⟨caps', f'⟩ := cf
        obtain ⟨ex0, caps, hex0, hm, hceq⟩ := Jsr.dcandOf_some E hc
        rw [hex] at hex0
        cases hex0
        have hl := Jsr.allLit_counts E hex hlit
        have hl' := Jsr.allLit_counts E hex' hlit'
        have hcaps := hl.2 _ _ _ hm
        have hcaps' := hl'.2 _ _ _ hm'
        have := hmax s' hs' _ (Jsr.dcandOf_of E hex' hm')
        rw [hceq, Jsr.dispCandLess_eq_false_iff] at this
        simp only [hcaps, hcaps', hl.1, hl'.1, List.length_nil] at this
        omega

/-- **`Spec.c03Holds` holds of what RouterJSR311 selects** -/
theorem c03Holds_jsr (cfg : Config) (hwf : cfg.wfTemplates = true) (hk : cfg.router = .jsr) (req : Req) :
    Spec.c03Holds E cfg req (routeJsr E cfg req).1 = true := by
  cases ho : (routeJsr E cfg req).1 with
  | error c a => rfl
  | panic w => rfl
  | selected s r ps =>
    obtain ⟨svc, final, hdisp, rt, hrt, h1, h2, wex, wc, hwex, hwm, ex, caps, f, hex, hm, _, hmax⟩ :=
      routeJsr_selected_full E ho
    have hsvc : svc ∈ cfg.services := (Jsr.detectDispatcher_mem E hdisp).1
    obtain ⟨ts, hts⟩ := relTemplateJ_of_wf hwf hk hsvc hrt
    unfold Spec.c03Holds
    simp only [List.any_eq_true, Bool.and_eq_true, beq_iff_eq]
    refine ⟨svc, hsvc, h1, rt, hrt, h2, ?_⟩
    rw [hk]
    simp only [Bool.and_eq_true]
    exact ⟨jsrRouteOK_of_max E hwex hwm hts hex hm hmax, jsrRootOK_of_detect E hdisp⟩

end Restful
