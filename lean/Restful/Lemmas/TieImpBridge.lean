/-
Reusable bridging lemmas between the Go operations of `Restful/Imp/Prelude.lean` (as used by the
generated translation `Restful/Gen/Imp.lean`) and the primitives of the hand-written model.
Proof recipe: /root/agents/T1/NOTES.md.
-/
import Restful.Imp.Prelude
namespace Restful
namespace TieImp
open Imp

theorem indexSub_singleton (c : Char) (s : Str) : Str.indexSub [c] s = s.idxOf? c := by
  induction s with
  | nil => simp [Str.indexSub]
  | cons d ds ih =>
    simp only [Str.indexSub, List.idxOf?_cons, ih]
    by_cases h : d = c
    · subst h; simp [List.isPrefixOf]
    · have h' : ¬ c = d := fun e => h e.symm
      simp [List.isPrefixOf, h, h']

theorem index_char (c : Char) (s : Str) :
    index s [c] = match Str.index c s with | some k => ((k : Nat) : Int) | none => -1 := by
  unfold index Str.index; rw [indexSub_singleton]; rfl

theorem index_lt {c : Char} {s : Str} {k : Nat} (h : Str.index c s = some k) : k < s.length := by
  unfold Str.index at h
  obtain ⟨h, _⟩ := List.idxOf?_eq_some_iff.mp h
  exact h

theorem sliceFrom_nat {α : Type} (xs : List α) (k : Nat) (h : k ≤ xs.length) :
    sliceFrom xs (k : Int) = some (xs.drop k) := by
  unfold sliceFrom slice len
  have : (0:Int) ≤ k ∧ (k:Int) ≤ (xs.length : Int) ∧ (xs.length : Int) ≤ (xs.length : Int) := by omega
  rw [if_pos this]
  simp only [Int.toNat_natCast]
  rw [List.take_of_length_le (by simp)]

theorem slice_eq (s : Str) (i j : Int) : slice s i j = Str.slice? s i j := rfl

theorem len_eq {α : Type} (xs : List α) : len xs = (xs.length : Int) := rfl

theorem at?_nat {α : Type} (xs : List α) (k : Nat) : at? xs (k : Int) = xs[k]? := by
  simp [at?]

/-- `xs[len(xs)-1]` of a non-empty slice -/
theorem at?_last {α : Type} (xs : List α) (h : xs.length ≠ 0) :
    at? xs (len xs - 1) = xs[xs.length - 1]? := by
  unfold len
  rw [show ((xs.length : Int) - 1) = ((xs.length - 1 : Nat) : Int) by omega, at?_nat]

theorem lt_of_getElem?_eq_some {α : Type} {xs : List α} {k : Nat} {x : α} (h : xs[k]? = some x) :
    k < xs.length := by
  rcases Nat.lt_or_ge k xs.length with h' | h'
  · exact h'
  · rw [List.getElem?_eq_none h'] at h; cases h

/-- `enum` with a start offset: the list a `for i, x := range xs` loop still has to visit -/
def enumFrom {α : Type} (k : Nat) (xs : List α) : List (Int × α) :=
  (xs.zipIdx k).map (fun p => (((p.2 : Nat) : Int), p.1))

theorem enum_eq {α : Type} (xs : List α) : enum xs = enumFrom 0 xs := rfl

theorem enumFrom_nil {α : Type} (k : Nat) : enumFrom k ([] : List α) = [] := rfl

theorem enumFrom_cons {α : Type} (k : Nat) (x : α) (xs : List α) :
    enumFrom k (x :: xs) = ((k : Int), x) :: enumFrom (k + 1) xs := by
  simp [enumFrom, List.zipIdx_cons]

/-- the join point after a `for` loop: `fin` is the post-loop code as a function of the loop result
    (`none` = panic inside the loop).  Use as `rw [jp_eq myFin rfl]`; `f` and `post` are found by
    unification, the side goal `hpost` is closed by `intro st; rcases st with …; rfl`. -/
theorem jp_eq {α σ ρ : Type} (fin : Option σ → Option ρ) (hnone : fin none = none)
    (f : α → σ → Option (ForInStep σ)) (post : σ → Option ρ) (l : List α) (init : σ)
    (hpost : ∀ st, post st = fin (some st)) :
    (forIn l init f >>= post) = fin (forIn l init f) := by
  cases h : forIn l init f with
  | none => exact hnone.symm
  | some st => exact hpost st

end TieImp
end Restful
