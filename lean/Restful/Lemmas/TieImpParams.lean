import Restful.Lemmas.TieImpPath
import Restful.Lemmas.TieImpUntok
/-
Tie of `defaultPathProcessor.ExtractParameters` (path_processor.go:22, translated in Gen/Imp.lean)
to the model `Params.extract`.  Recipe (see /root/agents/T4/NOTES.md):
  * bridging facts between the Prelude operations and `Str` (`index_char`, `slice_eq`, `at?_nat`,
    `range_step`, `mapSet_eq`);
  * every `forIn` is handled by a lemma GENERIC IN THE LOOP BODY: the body is a variable `f` with a
    one-step hypothesis `hf` (`untokenize_loop`, `extract_loop`); the generated body is only ever
    met as the instance of `f` found by unification, and `hf` is discharged by simp + case analysis
    on the MODEL's scrutinees, so no generated binder name occurs in this file.
-/
namespace Restful
namespace TieImp
namespace T4
open Imp
set_option linter.unusedSimpArgs false

/-! ### bridging facts: Prelude operations vs `Str` -/

theorem indexSub_single (c : Char) (s : Str) : Str.indexSub [c] s = s.idxOf? c := by
  induction s with
  | nil => simp [Str.indexSub]
  | cons d ds ih =>
    simp only [Str.indexSub, List.idxOf?_cons, ih]
    by_cases h : d = c
    · simp [h, List.isPrefixOf]
    · have h' : ¬ c = d := fun e => h e.symm
      simp [h, h', List.isPrefixOf]

theorem index_char (c : Char) (s : Str) :
    Imp.index s [c] = match Str.index c s with | some k => ((k : Nat) : Int) | none => -1 := by
  simp only [Imp.index, indexSub_single, Str.index]
  cases List.idxOf? c s <;> rfl

theorem slice_eq (s : Str) (i j : Int) : Imp.slice s i j = Str.slice? s i j := rfl

theorem intercalate_cons_cons (sep x y : Str) (r : List Str) :
  List.intercalate sep (x :: y :: r) = x ++ sep ++ List.intercalate sep (y :: r) := by
  simp [List.intercalate, List.intersperse]

theorem range_step (k n : Nat) (h : k < n) : range (k:Int) (n:Int) = (k:Int) :: range ((k+1 : Nat) : Int) n := by
  unfold range
  have : ((n:Int) - (k:Int)).toNat = ((n:Int) - ((k+1:Nat):Int)).toNat + 1 := by omega
  rw [this, List.range_succ_eq_map]
  simp only [List.map_cons, List.map_map, Int.natCast_zero, Int.add_zero, List.cons.injEq, true_and]
  apply List.map_congr_left
  intro a _
  simp only [Function.comp]
  omega

theorem range_empty (k n : Nat) (h : n ≤ k) : range (k:Int) (n:Int) = [] := by
  unfold range
  have : ((n:Int) - (k:Int)).toNat = 0 := by omega
  rw [this]; rfl


theorem at?_nat {α} (xs : List α) (k : Nat) : at? xs (k:Int) = xs[k]? := by
  simp [at?]

theorem len_eq {α} (xs : List α) : len xs = ((xs.length : Nat) : Int) := rfl

/-! ### `untokenizePath` -/

/-- generic loop of `untokenizePath`: any body that appends `parts[p]` and, when `p` is not the
last index, a slash -/
theorem untokenize_loop (parts : List Str)
    (f : Int → Str → Option (ForInStep Str))
    (hf : ∀ (k : Nat) (b : Str) (h : k < parts.length),
      f (k:Int) b = some (ForInStep.yield (if k + 1 < parts.length then b ++ parts[k] ++ ['/'] else b ++ parts[k]))) :
    ∀ (m k : Nat) (b : Str), parts.length = k + m →
      forIn (range (k:Int) (len parts)) b f = some (b ++ untokenize (parts.drop k)) := by
  intro m
  induction m with
  | zero =>
    intro k b h
    rw [len_eq, range_empty _ _ (by omega)]
    simp [untokenize, Str.join, List.drop_of_length_le (Nat.le_of_eq (by omega : parts.length = k)), List.intercalate]
  | succ m ih =>
    intro k b h
    have hk : k < parts.length := by omega
    rw [len_eq, range_step _ _ hk, List.forIn_cons, hf k b hk]
    rw [← len_eq]
    simp only [Option.bind_eq_bind, Option.bind_some]
    rw [ih (k+1) _ (by omega)]
    rw [List.drop_eq_getElem_cons hk]
    by_cases h1 : k + 1 < parts.length
    · rw [List.drop_eq_getElem_cons h1]
      simp only [h1, untokenize, Str.join, intercalate_cons_cons, if_true, List.append_assoc]
    · rw [List.drop_of_length_le (by omega)]
      simp [h1, untokenize, Str.join, List.intercalate]

theorem untokenizePath_eq (X : ImpGen.Ext) (k : Nat) (parts : List Str) :
    ImpGen.untokenizePath X (k:Int) parts = some (untokenize (parts.drop k)) :=
  T2.untokenize_path X k parts


/-! ### `ExtractParameters` -/

/-- generic loop of `ExtractParameters`: ANY body `f` whose single step, continued by the model on
the remaining keys, is the model on `key :: keys`, computes the model's walk.  (`urlParts[k:]` is
the model's `url`; the enumeration index starts at `k`.) -/
theorem extract_loop (hasVerb : Bool) (urlParts : List Str)
    (f : Int × Str → Params → Option (ForInStep Params))
    (hf : ∀ (k : Nat) (key : Str) (keys : List Str) (ps : Params),
       (f ((k:Int), key) ps).bind (fun s => match s with
          | .done b => some b
          | .yield b => Params.extractWalk hasVerb keys (urlParts.drop (k+1)) b)
       = Params.extractWalk hasVerb (key :: keys) (urlParts.drop k) ps) :
    ∀ (keys : List Str) (k : Nat) (ps : Params),
      forIn ((keys.zipIdx k).map (fun p => (((p.2 : Nat) : Int), p.1))) ps f
        = Params.extractWalk hasVerb keys (urlParts.drop k) ps := by
  intro keys
  induction keys with
  | nil => intro k ps; simp [Params.extractWalk]
  | cons key keys ih =>
    intro k ps
    simp only [List.zipIdx_cons, List.map_cons, List.forIn_cons]
    rw [← hf]
    simp only [Option.bind_eq_bind, Option.pure_def]
    congr 1
    funext s
    cases s with
    | done b => rfl
    | yield b => exact ih (k+1) b

theorem tokenizePath_eq (rx join) (p : Str) : ImpGen.tokenizePath (extOf rx join) p = some (tokenize p) :=
  T2.tokenize_path (extOf rx join) rfl p

theorem lit_brace : "{".toList = ['{'] := rfl
theorem lit_colon : ":".toList = [':'] := rfl
theorem lit_close : "}".toList = ['}'] := rfl
theorem lit_star : "*".toList = ['*'] := rfl

theorem mapSet_eq : mapSet = setParam := by
  funext m k v
  induction m with
  | nil => rfl
  | cons p rest ih => obtain ⟨k', v'⟩ := p; simp only [mapSet, setParam, ih]

theorem extract_parameters (rx : Str → Str → Bool × GoErr) (join : Str → Str → Str) (r : Route) (urlPath : Str) :
    ImpGen.defaultPathProcessor_ExtractParameters (extOf rx join) urlPath r.pathParts r.hasCustomVerb
      = Params.extract r urlPath := by
  unfold ImpGen.defaultPathProcessor_ExtractParameters Params.extract
  simp only [tokenizePath_eq, Option.bind_eq_bind, Option.bind_some, enum]
  rw [extract_loop r.hasCustomVerb (tokenize urlPath)]
  · simp
  · intro k key keys ps
    simp only [extOf, extOfQ, untokenizePath_eq, mapSet_eq]
    rw [← List.tail_drop, Params.extractWalk]
    -- the value read from the URL is the head of `urlParts[k:]` (or "" past the end); the comparison of the
    -- index with `len urlParts` is decided whichever way round the code writes it
    have hv : ((((k:Int) < len (tokenize urlPath)) = True ∧ (len (tokenize urlPath) ≤ (k:Int)) = False)
          ∧ at? (tokenize urlPath) (k:Int) = some ((List.drop k (tokenize urlPath)).headD []))
        ∨ ((((k:Int) < len (tokenize urlPath)) = False ∧ (len (tokenize urlPath) ≤ (k:Int)) = True)
          ∧ "".toList = (List.drop k (tokenize urlPath)).headD []) := by
      by_cases hk : k < (tokenize urlPath).length
      · refine Or.inl ⟨⟨eq_true (by rw [len_eq]; omega), eq_false (by rw [len_eq]; omega)⟩, ?_⟩
        rw [at?_nat, List.getElem?_eq_getElem hk, List.drop_eq_getElem_cons hk]; rfl
      · refine Or.inr ⟨⟨eq_false (by rw [len_eq]; omega), eq_true (by rw [len_eq]; omega)⟩, ?_⟩
        rw [List.drop_of_length_le (by omega)]; rfl
    rcases hv with ⟨⟨h1, h1'⟩, h2⟩ | ⟨⟨h1, h1'⟩, h2⟩
    all_goals
      simp only [ge_iff_le, gt_iff_lt, Int.not_lt, Int.not_le, h1, h1', h2, decide_true, decide_false,
        Option.bind_some, Bool.false_eq_true, ↓reduceIte]
      generalize List.drop k (tokenize urlPath) = url
      generalize url.headD [] = value
      clear h1 h1' h2
      -- the custom verb is cut from both the key and the value
      obtain ⟨key', hkey'⟩ : ∃ key', key' = (if (r.hasCustomVerb && hasCustomVerb key) = true then removeCustomVerb key else key) := ⟨_, rfl⟩
      obtain ⟨value', hvalue'⟩ : ∃ value', value' = (if (r.hasCustomVerb && hasCustomVerb key) = true then removeCustomVerb value else value) := ⟨_, rfl⟩
      simp only [← hkey', ← hvalue']
      by_cases hverb : (r.hasCustomVerb && hasCustomVerb key) = true
      all_goals
        simp only [hverb, Bool.false_eq_true, ↓reduceIte] at hkey' hvalue' ⊢
        simp only [← hkey', ← hvalue']
        clear hkey' hvalue' hverb
        simp only [lit_brace, lit_colon, lit_close, lit_star, T2.containsSub_single, index_char, slice_eq, len_eq]
        cases h1 : Str.index '{' key' with
        | none => simp
        | some a =>
          have ha : (-1:Int) < a := by omega
          cases h2 : Str.index ':' key' with
          | some c =>
            simp [ha]
            cases key'.slice? (↑c + 1) (↑(List.length key') - 1) with
            | none => simp
            | some regPart =>
              cases key'.slice? 1 ↑c with
              | none => simp
              | some keyPart => by_cases hr : regPart = ['*'] <;> simp [hr]
          | none =>
            simp [ha]
            cases key'.slice? (↑a + 1)
                (match Str.index '}' key' with
                | some k => ↑k
                | none => -1) with
            | none => simp
            | some name =>
              simp
              cases (value'.slice? (↑a)
                  (↑(List.length value') -
                    ((↑(List.length key') -
                        match Str.index '}' key' with
                        | some k => ↑k
                        | none => -1) -
                      1))) with
              | none => simp
              | some v => simp

end T4
end TieImp
end Restful
