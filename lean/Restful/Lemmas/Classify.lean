/-
C02 — dispatching never panics and yields exactly the outcome of the decision table.

  (1) header loops = declarative tests under hygiene        — `Restful.Lemmas.ClassifyHeaders`
        `acceptLoop_complete`, `consumeLoop_complete`, `matchesAccept_iff`, `matchesContentType_iff`
  (2) totality                                              — `C02_total` (below), `C02_total_curly`,
        `C02_total_jsr`
  (3) classification, CurlyRouter                           — `C02_classify_curly` (`ClassifyCurly`), full
  (4) classification, RouterJSR311                          — `C02_classify_jsr_partial` (`ClassifyJsr`)
  (5) why the hypotheses are there                          — `C02_roots_witness`,
        `C02_curly_roots_witness`, `C02_curly_rootverb_witness` (below),
        `matchesAccept_iff_needs_hygiene` (`ClassifyHeaders`)
  (6) the repaired F03 (the expression of a root variable)  — `C02_F03_fixed` (below): the former
        witness table and request now run the second service's route; `noRootRegex` is no hypothesis
        any more
  (7) the repaired F04 (one notion of "has a body")         — `C02_F04_fixed` (below): the former
        witness request now gets what the decision table says; `bodyCoherent` is no hypothesis any more

Deviation from the statements first written down: a WebService WITHOUT routes has a root path about
which `Config.wfTemplates` says nothing.
  * RouterJSR311: `compile` can fail on it (slice bounds in `{a:`), and the model panics on every
    request.  Totality and classification for RouterJSR311 therefore carry the hypothesis
    `Jsr.rootsRead cfg` (`C02_roots_witness` shows it cannot be dropped).
  * CurlyRouter, since fix 19aa57d: `computeWebserviceScore` cuts the expression out of every root
    token `{…:…` with `regularMatchesPathToken`, which panics on `{a:` (`C02_curly_roots_witness`) and
    which does not strip a custom verb first: on the root token `{id}:go` it evaluates the
    "expression" `g` (`C02_curly_rootverb_witness`).  Totality and classification for CurlyRouter
    therefore carry `Curly.rootsRead cfg`: the root of a route-less service reads as a template none
    of whose tokens carries a custom verb.  For a service WITH routes `wfTemplates` already gives
    this (`Curly.rootGood_of_route`).
-/
import Restful.Lemmas.ClassifyJsr
namespace Restful
open Str

/-- **C02, totality**: on a table of checked templates no request makes the router panic.
    (`hrootsJ` / `hrootsC`: root paths of services without routes read as templates, for the router
    in use.) -/
theorem C02_total (E : ReEnv) (cfg : Config) (hwf : cfg.wfTemplates = true)
    (hrootsJ : cfg.router = .jsr → Jsr.rootsRead cfg = true)
    (hrootsC : cfg.router = .curly → Curly.rootsRead cfg = true) (req : Req) :
    ∀ w, route E cfg req ≠ .panic w := by
  cases hk : cfg.router with
  | curly => exact C02_total_curly E cfg hk hwf (hrootsC hk) req
  | jsr => exact C02_total_jsr E cfg hk hwf (hrootsJ hk) req

namespace C02Witness

def rd (id : Nat) (m p : String) (cons prod : List String) : RouteDecl :=
  { id := id, method := m.toList, relPath := p.toList, consumes := cons.map String.toList,
    produces := prod.map String.toList, conds := [], noct := [] }

def Eany : ReEnv := ⟨fun _ _ => true, fun _ _ => true⟩

/-! ### F03: a regex variable in a root path -/

/-- an oracle that evaluates the two expressions of the F03 table faithfully on letters and digits -/
def E03 : ReEnv :=
  ⟨fun e s => if e = "[a-z]+".toList then s.any Char.isLower else s.any Char.isDigit,
   fun e s => !s.isEmpty && (if e = "[a-z]+".toList then s.all Char.isLower else s.all Char.isDigit)⟩

def cfg03 : Config := { router := .curly, services :=
  [ { id := 0, root := "/{name:[a-z]+}".toList, routes := [rd 0 "GET" "" ([]) ([])] },
    { id := 1, root := "/{id:[0-9]+}".toList, routes := [rd 1 "GET" "" ([]) ([])] } ] }

def req03 : Req := { method := "GET".toList, path := "/123".toList }

/-- F03, repaired: the former witness of the defect — roots `/{name:[a-z]+}` and `/{id:[0-9]+}`
    (so `noRootRegex` fails), request `/123` — used to be answered 404 (both roots scored alike, the
    expression was not looked at, the first service was picked and has no matching route);
    `computeWebserviceScore` now evaluates the expression, only the second root claims `/123`, its
    route 1 runs, which is what the decision table says -/
theorem _root_.Restful.C02_F03_fixed :
    cfg03.wfTemplates = true ∧ Spec.mediaHygiene cfg03 = true ∧ Curly.rootsRead cfg03 = true ∧
    Spec.noRootRegex cfg03 = false ∧
    route E03 cfg03 req03 = .selected 1 1 [("id".toList, "123".toList)] ∧
    (Spec.bestServices E03 cfg03 req03).map (·.id) = [1] ∧
    (Spec.bestServices E03 cfg03 req03).map (fun s => Spec.classifyIn E03 .curly s.built req03) = [.runs [1]] ∧
    Spec.c02Holds E03 cfg03 req03 (route E03 cfg03 req03) 1 = true := by
  decide

/-- the same fact as an instance of the general theorem, which no longer asks for `noRootRegex` -/
example : Spec.c02Holds E03 cfg03 req03 (route E03 cfg03 req03)
    (match route E03 cfg03 req03 with | .selected _ _ _ => 1 | _ => 0) = true :=
  C02_classify_curly E03 cfg03 rfl (by decide) (by decide) (by decide) req03

/-! ### F04: a chunked body -/

def cfg04 : Config := { router := .curly, services :=
  [ { id := 0, root := "/u".toList, routes := [rd 0 "POST" "" (["application/json"]) (["application/json"])] } ] }

def req04 : Req :=
  { method := "POST".toList, path := "/u".toList, contentType := "application/json".toList,
    accept := "text/plain".toList, clenHeader := [], contentLength := -1 }

/-- F04, repaired: the former witness of the defect — a chunked POST (`ContentLength = -1`, no
    `Content-Length` header, so `bodyCoherent` fails) whose Content-Type is consumed and whose Accept
    cannot be satisfied — used to be answered 415 (the Accept stage took the missing header for "no
    body"); `detectRoute` now asks `ContentLength` in both places and answers 406, as the decision
    table says -/
theorem _root_.Restful.C02_F04_fixed :
    cfg04.wfTemplates = true ∧ Spec.mediaHygiene cfg04 = true ∧ Curly.rootsRead cfg04 = true ∧
    Spec.bodyCoherent req04 = false ∧
    route Eany cfg04 req04 = .error 406 none ∧
    (Spec.bestServices Eany cfg04 req04).map (fun s => Spec.classifyIn Eany .curly s.built req04) = [.status 406 none] ∧
    Spec.c02Holds Eany cfg04 req04 (route Eany cfg04 req04) 0 = true := by
  decide

/-- the same fact as an instance of the general theorem, which no longer asks for `bodyCoherent` -/
example : Spec.c02Holds Eany cfg04 req04 (route Eany cfg04 req04)
    (match route Eany cfg04 req04 with | .selected _ _ _ => 1 | _ => 0) = true :=
  C02_classify_curly Eany cfg04 rfl (by decide) (by decide) (by decide) req04

/-! ### a route-less service with an unreadable root under RouterJSR311 -/

def cfgRoots : Config := { router := .jsr, services := [ { id := 0, root := "/{a:".toList, routes := [] } ] }

/-- without `Jsr.rootsRead` a checked table can make RouterJSR311 panic: `wfTemplates` is vacuous for
    a service without routes, `compile "/{a:"` fails (slice bounds), every request panics -/
theorem _root_.Restful.C02_roots_witness :
    cfgRoots.wfTemplates = true ∧ Spec.mediaHygiene cfgRoots = true ∧ Jsr.rootsRead cfgRoots = false ∧
    route Eany cfgRoots { method := "GET".toList, path := "/x".toList } = .panic "jsr.compile" ∧
    Spec.c02Holds Eany cfgRoots { method := "GET".toList, path := "/x".toList }
      (route Eany cfgRoots { method := "GET".toList, path := "/x".toList }) 0 = false := by
  decide

/-! ### a route-less service with an unreadable root, or a root token with a custom verb, under CurlyRouter -/

def cfgRootsC : Config := { router := .curly, services := [ { id := 0, root := "/{a:".toList, routes := [] } ] }

/-- without `Curly.rootsRead` a checked table can make CurlyRouter panic: `wfTemplates` is vacuous
    for a service without routes, `regularMatchesPathToken` slices `"{a:"[3:2]` when the root is scored -/
theorem _root_.Restful.C02_curly_roots_witness :
    cfgRootsC.wfTemplates = true ∧ Spec.mediaHygiene cfgRootsC = true ∧ Curly.rootsRead cfgRootsC = false ∧
    route Eany cfgRootsC { method := "GET".toList, path := "/x".toList } = .panic "curly.score" ∧
    Spec.c02Holds Eany cfgRootsC { method := "GET".toList, path := "/x".toList }
      (route Eany cfgRootsC { method := "GET".toList, path := "/x".toList }) 0 = false := by
  decide

/-- an oracle that evaluates the expression `g` faithfully -/
def Eg : ReEnv := ⟨fun e s => if e = "g".toList then s.contains 'g' else true, fun _ _ => true⟩

/-- a route-less service `/a/{id}:go` (the root reads as a template, its last token carries a custom
    verb) and a service `/{x}/{y}` with a route -/
def cfgVerb : Config := { router := .curly, services :=
  [ { id := 0, root := "/a/{id}:go".toList, routes := [] },
    { id := 1, root := "/{x}/{y}".toList, routes := [rd 1 "GET" "" ([]) ([])] } ] }

/-- the second clause of `Curly.rootsRead` (no custom verb on a root token of a route-less service)
    cannot be dropped: `computeWebserviceScore` does not strip `:go` before it cuts the expression
    out of `{id}:go`, evaluates `g` against the URL segment `5`, and lets the first root NOT claim
    `/a/5`, which `Spec.claimScore` says it does (score 21 against 2): the router runs route 1 of
    the second service where the decision table says 404 -/
theorem _root_.Restful.C02_curly_rootverb_witness :
    cfgVerb.wfTemplates = true ∧ Spec.mediaHygiene cfgVerb = true ∧ Curly.rootsRead cfgVerb = false ∧
    (cfgVerb.services.all (fun s => (readToks (tokenize s.rootPath)).isSome)) = true ∧
    route Eg cfgVerb { method := "GET".toList, path := "/a/5".toList } =
      .selected 1 1 [("x".toList, "a".toList), ("y".toList, "5".toList)] ∧
    (Spec.bestServices Eg cfgVerb { method := "GET".toList, path := "/a/5".toList }).map (·.id) = [0] ∧
    Spec.c02Holds Eg cfgVerb { method := "GET".toList, path := "/a/5".toList }
      (route Eg cfgVerb { method := "GET".toList, path := "/a/5".toList }) 1 = false := by
  decide

/-! ### non-vacuity -/

/-- two services (one with a variable root), routes with Consumes/Produces; a third, route-less
    one with a regex variable in its root (what `Curly.rootsRead` / `Jsr.rootsRead` speak about) -/
def services : List Service :=
  [ { id := 0, root := "/users".toList, routes :=
        [ rd 1 "POST" "" (["application/json"]) (["application/json"]),
          rd 2 "GET" "/{id}" ([]) (["application/json", "text/plain"]),
          rd 3 "PUT" "/{id}" (["application/xml"]) (["application/json"]) ] },
    { id := 1, root := "/orgs/{org}".toList, routes := [ rd 4 "GET" "/things" ([]) ([]) ] },
    { id := 2, root := "/v/{n:[0-9]+}".toList, routes := [] } ]

def cfgC : Config := { router := .curly, services := services }
def cfgJ : Config := { router := .jsr, services := services }

/-- a POST with a two-byte JSON body -/
def post : Req :=
  { method := "POST".toList, path := "/users".toList, contentType := "application/json; charset=utf-8".toList,
    accept := "text/html, application/json;q=0.9".toList, clenHeader := "2".toList, contentLength := 2 }

/-- the hypotheses of `C02_classify_curly` hold here, and a route runs -/
example :
    cfgC.wfTemplates = true ∧ Curly.rootsRead cfgC = true ∧ Spec.mediaHygiene cfgC = true ∧
      route Eany cfgC post = .selected 0 1 [] := by
  decide

example : Spec.c02Holds Eany cfgC post (route Eany cfgC post)
    (match route Eany cfgC post with | .selected _ _ _ => 1 | _ => 0) = true :=
  C02_classify_curly Eany cfgC rfl (by decide) (by decide) (by decide) post

/-- the other rows of the table on the same services: 405 with Allow, 415 (body, Content-Type not
    consumed), 406, 404 inside the best service, 404 without a service -/
example :
    route Eany cfgC { post with method := "DELETE".toList, path := "/users/7".toList } =
        .error 405 (some ["GET".toList, "PUT".toList]) ∧
      route Eany cfgC { post with method := "PUT".toList, path := "/users/7".toList } = .error 415 none ∧
      route Eany cfgC { post with accept := "text/html".toList } = .error 406 none ∧
      route Eany cfgC { post with path := "/users/7/x".toList } = .error 404 none ∧
      route Eany cfgC { post with path := "/".toList } = .error 404 none ∧
      route Eany cfgC { method := "GET".toList, path := "/orgs/acme/things".toList } =
        .selected 1 4 [("org".toList, "acme".toList)] ∧
      route Eany cfgJ { method := "GET".toList, path := "/orgs/acme/things".toList } =
        .selected 1 4 [("org".toList, "acme".toList)] := by
  decide

/-- the hypotheses of `C02_classify_jsr_partial` hold on the same table and request -/
example :
    cfgJ.wfTemplates = true ∧ Jsr.rootsRead cfgJ = true ∧ Spec.mediaHygiene cfgJ = true ∧
      '\n' ∉ post.path ∧ route Eany cfgJ post = .selected 0 1 [] := by
  decide

example : Spec.c02Holds Eany cfgJ post (route Eany cfgJ post)
    (match route Eany cfgJ post with | .selected _ _ _ => 1 | _ => 0) = true :=
  C02_classify_jsr_partial Eany cfgJ rfl (by decide) (by decide) (by decide) post (by decide)

end C02Witness
end Restful
