/- membership facts about CurlyRouter's candidate selection -/
import Restful.Model.Curly
namespace Restful
namespace Curly
variable (E : ReEnv)

theorem candidates_mem : ∀ {routes : List Route} {qs : List Str} {cs : List Cand},
    candidates E routes qs = some cs → ∀ c ∈ cs,
      c.route ∈ routes ∧ matchTokens E c.route.pathParts qs c.route.hasCustomVerb = .yes c.paramCount c.staticCount
  | [], qs, cs, h, c, hc => by
    simp only [candidates, Option.some.injEq] at h
    subst h; simp at hc
  | r :: rs, qs, cs, h, c, hc => by
    unfold candidates at h
    split at h
    · simp at h
    · have := candidates_mem h c hc
      exact ⟨List.mem_cons_of_mem _ this.1, this.2⟩
    · rename_i p s hm
      cases hrec : candidates E rs qs with
      | none => simp [hrec] at h
      | some cs' =>
        simp only [hrec, Option.map_some, Option.some.injEq] at h
        subst h
        simp only [List.mem_cons] at hc
        rcases hc with rfl | hc
        · exact ⟨List.mem_cons_self, hm⟩
        · have := candidates_mem hrec c hc
          exact ⟨List.mem_cons_of_mem _ this.1, this.2⟩

theorem selectRoutes_mem {routes : List Route} {qs : List Str} {l : List Route}
    (h : selectRoutes E routes qs = some l) {r : Route} (hr : r ∈ l) :
    r ∈ routes ∧ ∃ p s, matchTokens E r.pathParts qs r.hasCustomVerb = .yes p s := by
  unfold selectRoutes at h
  cases hc : candidates E routes qs with
  | none => simp [hc] at h
  | some cs =>
    simp only [hc, Option.map_some, Option.some.injEq] at h
    subst h
    simp only [List.mem_map] at hr
    obtain ⟨c, hcm, rfl⟩ := hr
    have hcm' : c ∈ cs := (Sort.insertionSort_perm candLess cs).subset hcm
    have := candidates_mem E hc c hcm'
    exact ⟨this.1, _, _, this.2⟩

theorem detectWebService_mem (qs : List Str) : ∀ (svcs : List Service) (best : Option (Service × Nat)) (s : Service) (sc : Nat),
    detectWebService E qs svcs best = some (some (s, sc)) → s ∈ svcs ∨ best = some (s, sc)
  | [], best, s, sc, h => by
    simp only [detectWebService, Option.some.injEq] at h; exact Or.inr h
  | x :: xs, best, s, sc, h => by
    unfold detectWebService at h
    split at h
    · simp at h
    · rcases detectWebService_mem qs xs _ s sc h with h' | h'
      · exact Or.inl (List.mem_cons_of_mem _ h')
      · simp only [Option.some.injEq, Prod.mk.injEq] at h'
        exact Or.inl (h'.1 ▸ List.mem_cons_self)
    · split at h
      · rcases detectWebService_mem qs xs _ s sc h with h' | h'
        · exact Or.inl (List.mem_cons_of_mem _ h')
        · simp only [Option.some.injEq, Prod.mk.injEq] at h'
          exact Or.inl (h'.1 ▸ List.mem_cons_self)
      · rcases detectWebService_mem qs xs _ s sc h with h' | h'
        · exact Or.inl (List.mem_cons_of_mem _ h')
        · exact Or.inr h'
    · rcases detectWebService_mem qs xs _ s sc h with h' | h'
      · exact Or.inl (List.mem_cons_of_mem _ h')
      · exact Or.inr h'

/-- with no best service so far, the detected service is one of the list -/
theorem detectWebService_mem_none {qs : List Str} {svcs : List Service} {s : Service} {sc : Nat}
    (h : detectWebService E qs svcs none = some (some (s, sc))) : s ∈ svcs := by
  rcases detectWebService_mem E qs svcs none s sc h with h' | h'
  · exact h'
  · simp at h'

end Curly
end Restful
