/-
RouterJSR311: a successful two-stage match (service root, then route path) is an admission by
the declared template (C01) binding every variable to exactly the URL text (C04) — `match_sound`;
conversely an admitted, newline-free path is matched (C02) — `match_complete`.
-/
import Restful.Lemmas.JsrParse
import Restful.Spec.Params
namespace Restful
open Str

namespace Jsr
variable (E : ReEnv)

/-! ### `matchExpr`: shape of the input, composition, decomposition -/

/-- a remaining path is empty or starts with a slash -/
def Starts (p : Str) : Prop := p = [] ∨ ∃ r, p = '/' :: r

theorem matchExpr_cons_some {t : JTok} {ts : List JTok} {p : Str} {x : List Str × Str}
    (h : matchExpr E (t :: ts) p = some x) : ∃ r, p = '/' :: r := by
  by_cases hp : ∃ r, p = '/' :: r
  · exact hp
  · rw [matchExpr.eq_7] at h
    · simp at h
    · intro r hr; exact hp ⟨r, hr⟩

theorem matchExpr_nil_some {p : Str} {c : List Str} {f : Str} (h : matchExpr E [] p = some (c, f)) :
    c = [] ∧ f = p ∧ Starts p ∧ '\n' ∉ p := by
  rw [matchExpr.eq_1] at h
  split at h
  · rename_i hc
    simp only [Option.some.injEq, Prod.mk.injEq] at h
    simp only [Bool.and_eq_true, Bool.or_eq_true, Bool.not_eq_true', List.contains_eq_mem,
      decide_eq_false_iff_not] at hc
    refine ⟨h.1.symm, h.2.symm, ?_, hc.2⟩
    cases p with
    | nil => left; rfl
    | cons x r =>
      right
      have := hc.1
      simp at this
      exact ⟨r, by rw [this]⟩
  · simp at h

theorem matchExpr_nil_of {p : Str} (hs : Starts p) (hn : '\n' ∉ p) : matchExpr E [] p = some ([], p) := by
  rw [matchExpr.eq_1, if_pos]
  rcases hs with rfl | ⟨r, rfl⟩
  · simp
  · simp at hn
    simp [hn]

theorem matchExpr_some_starts {A : List JTok} {p : Str} {x : List Str × Str}
    (h : matchExpr E A p = some x) : Starts p := by
  cases A with
  | nil => exact (matchExpr_nil_some E (c := x.1) (f := x.2) h).2.2.1
  | cons t ts => exact Or.inr (matchExpr_cons_some E h)

/-- hint (2): matching `A` and then `B` on what `A` left is matching `A ++ B` -/
theorem matchExpr_append {A : List JTok} (B : List JTok) (hA : ∀ t ∈ A, ∀ n, t ≠ .wild n) :
    ∀ {p : Str} {c1 : List Str} {final : Str} {c2 : List Str} {f : Str},
      matchExpr E A p = some (c1, final) → matchExpr E B final = some (c2, f) →
      matchExpr E (A ++ B) p = some (c1 ++ c2, f) := by
  induction A with
  | nil =>
    intro p c1 final c2 f h1 h2
    obtain ⟨rfl, rfl, _, _⟩ := matchExpr_nil_some E h1
    simpa using h2
  | cons t A ih =>
    intro p c1 final c2 f h1 h2
    obtain ⟨r, rfl⟩ := matchExpr_cons_some E h1
    have ih' := @ih (fun t ht => hA t (List.mem_cons_of_mem _ ht))
    rw [List.cons_append]
    cases t with
    | lit l =>
      rw [matchExpr.eq_2] at h1 ⊢
      split at h1
      · rename_i hp
        rw [if_pos hp]
        exact ih' h1 h2
      · simp at h1
    | var n =>
      rw [matchExpr.eq_3] at h1 ⊢
      split at h1
      · simp at h1
      · rename_i hp
        rw [if_neg hp]
        cases hm : matchExpr E A (List.dropWhile (fun x => x != '/') r) with
        | none => simp [hm] at h1
        | some cf =>
          obtain ⟨c, f'⟩ := cf
          simp only [hm, Option.map_some, Option.some.injEq, Prod.mk.injEq] at h1
          obtain ⟨rfl, rfl⟩ := h1
          rw [ih' hm h2]
          simp
    | re n e =>
      rw [matchExpr.eq_4] at h1 ⊢
      split at h1
      · rename_i hp
        rw [if_pos hp]
        cases hm : matchExpr E A (List.dropWhile (fun x => x != '/') r) with
        | none => simp [hm] at h1
        | some cf =>
          obtain ⟨c, f'⟩ := cf
          simp only [hm, Option.map_some, Option.some.injEq, Prod.mk.injEq] at h1
          obtain ⟨rfl, rfl⟩ := h1
          rw [ih' hm h2]
          simp
      · simp at h1
    | wild n => exact absurd rfl (hA _ List.mem_cons_self n)

/-- the converse: a newline-free match of `A ++ B` splits at the end of `A` -/
theorem matchExpr_split {A : List JTok} (B : List JTok) (hA : ∀ t ∈ A, ∀ n, t ≠ .wild n) :
    ∀ {p : Str} {c : List Str} {f : Str}, '\n' ∉ p → matchExpr E (A ++ B) p = some (c, f) →
      ∃ c1 final c2, matchExpr E A p = some (c1, final) ∧ matchExpr E B final = some (c2, f) := by
  induction A with
  | nil =>
    intro p c f hn h
    rw [List.nil_append] at h
    exact ⟨[], p, c, matchExpr_nil_of E (matchExpr_some_starts E h) hn, h⟩
  | cons t A ih =>
    intro p c f hn h
    rw [List.cons_append] at h
    obtain ⟨r, rfl⟩ := matchExpr_cons_some E h
    have ih' := @ih (fun t ht => hA t (List.mem_cons_of_mem _ ht))
    have hnr : '\n' ∉ r := fun hm => hn (List.mem_cons_of_mem _ hm)
    have hnd : '\n' ∉ List.dropWhile (fun x => x != '/') r :=
      fun hm => hnr ((List.dropWhile_sublist _).subset hm)
    cases t with
    | lit l =>
      rw [matchExpr.eq_2] at h ⊢
      split at h
      · rename_i hp
        rw [if_pos hp]
        exact ih' (fun hm => hnr (List.mem_of_mem_drop hm)) h
      · simp at h
    | var n =>
      rw [matchExpr.eq_3] at h ⊢
      split at h
      · simp at h
      · rename_i hp
        rw [if_neg hp]
        cases hm : matchExpr E (A ++ B) (List.dropWhile (fun x => x != '/') r) with
        | none => simp [hm] at h
        | some cf =>
          obtain ⟨c', f'⟩ := cf
          simp only [hm, Option.map_some, Option.some.injEq, Prod.mk.injEq] at h
          obtain ⟨rfl, rfl⟩ := h
          obtain ⟨c1, final, c2, h1, h2⟩ := ih' hnd hm
          exact ⟨_ :: c1, final, c2, by rw [h1]; rfl, h2⟩
    | re n e =>
      rw [matchExpr.eq_4] at h ⊢
      split at h
      · rename_i hp
        rw [if_pos hp]
        cases hm : matchExpr E (A ++ B) (List.dropWhile (fun x => x != '/') r) with
        | none => simp [hm] at h
        | some cf =>
          obtain ⟨c', f'⟩ := cf
          simp only [hm, Option.map_some, Option.some.injEq, Prod.mk.injEq] at h
          obtain ⟨rfl, rfl⟩ := h
          obtain ⟨c1, final, c2, h1, h2⟩ := ih' hnd hm
          exact ⟨_ :: c1, final, c2, by rw [h1]; rfl, h2⟩
      · simp at h
    | wild n => exact absurd rfl (hA _ List.mem_cons_self n)

/-- one capture per variable -/
theorem matchExpr_caps_length : ∀ {A : List JTok} {p : Str} {c : List Str} {f : Str},
    matchExpr E A p = some (c, f) → c.length = (A.filterMap varNameOf).length := by
  intro A
  induction A with
  | nil =>
    intro p c f h
    obtain ⟨rfl, _⟩ := matchExpr_nil_some E h
    rfl
  | cons t A ih =>
    intro p c f h
    obtain ⟨r, rfl⟩ := matchExpr_cons_some E h
    cases t with
    | lit l =>
      rw [matchExpr.eq_2] at h
      split at h
      · simpa [varNameOf, List.filterMap_cons] using ih h
      · simp at h
    | var n =>
      rw [matchExpr.eq_3] at h
      split at h
      · simp at h
      · cases hm : matchExpr E A (List.dropWhile (fun x => x != '/') r) with
        | none => simp [hm] at h
        | some cf =>
          obtain ⟨c', f'⟩ := cf
          simp only [hm, Option.map_some, Option.some.injEq, Prod.mk.injEq] at h
          obtain ⟨rfl, rfl⟩ := h
          simpa [varNameOf, List.filterMap_cons] using ih hm
    | re n e =>
      rw [matchExpr.eq_4] at h
      split at h
      · cases hm : matchExpr E A (List.dropWhile (fun x => x != '/') r) with
        | none => simp [hm] at h
        | some cf =>
          obtain ⟨c', f'⟩ := cf
          simp only [hm, Option.map_some, Option.some.injEq, Prod.mk.injEq] at h
          obtain ⟨rfl, rfl⟩ := h
          simpa [varNameOf, List.filterMap_cons] using ih hm
      · simp at h
    | wild n =>
      cases A with
      | nil =>
        rw [matchExpr.eq_5] at h
        split at h
        · simp at h
        · simp only [Option.some.injEq, Prod.mk.injEq] at h
          obtain ⟨rfl, rfl⟩ := h
          simp [varNameOf]
      | cons t' A' => simp [matchExpr.eq_6] at h

/-! ### `bindParams` on distinct names is `zip` -/

theorem setParam_not_mem : ∀ {ps : Params} {k v : Str}, k ∉ ps.map (·.1) → setParam ps k v = ps ++ [(k, v)]
  | [], _, _, _ => rfl
  | (k', v') :: rest, k, v, h => by
    simp only [List.map_cons, List.mem_cons, not_or] at h
    have hk : ¬ k' = k := fun hh => h.1 hh.symm
    simp only [setParam, if_neg hk, List.cons_append, setParam_not_mem h.2]

theorem bindParams_nil_left (ms : List Str) (ps : Params) : bindParams [] ms ps = ps := by
  rw [bindParams.eq_2]; intro n ns m ms' h; simp at h

theorem bindParams_nil_right (ns : List Str) (ps : Params) : bindParams ns [] ps = ps := by
  rw [bindParams.eq_2]; intro n ns' m ms' _ h; simp at h

theorem bindParams_zip : ∀ (ns ms : List Str) (ps : Params), ns.Nodup → (∀ n ∈ ns, n ∉ ps.map (·.1)) →
    bindParams ns ms ps = ps ++ ns.zip ms
  | [], ms, ps, _, _ => by simp [bindParams_nil_left]
  | n :: ns, [], ps, _, _ => by simp [bindParams_nil_right]
  | n :: ns, m :: ms, ps, hnd, hps => by
    rw [bindParams.eq_1, setParam_not_mem (hps n List.mem_cons_self)]
    rw [List.nodup_cons] at hnd
    rw [bindParams_zip ns ms _ hnd.2]
    · simp
    · intro n' hn'
      simp only [List.map_append, List.map_cons, List.map_nil, List.mem_append, List.mem_singleton, not_or]
      refine ⟨hps n' (List.mem_cons_of_mem _ hn'), ?_⟩
      rintro rfl
      exact hnd.1 hn'

/-- two-stage binding under globally distinct names -/
theorem bindParams_two {na nb wc rc : List Str} (hnd : (na ++ nb).Nodup) (hl : wc.length = na.length) :
    bindParams nb rc (bindParams na wc []) = (na ++ nb).zip (wc ++ rc) := by
  rw [List.nodup_append] at hnd
  obtain ⟨h1, h2, h3⟩ := hnd
  rw [bindParams_zip na wc [] h1 (by simp), List.nil_append]
  rw [bindParams_zip nb rc _ h2, List.zip_append hl.symm]
  intro n hn hm
  rw [List.map_fst_zip (by omega)] at hm
  exact h3 n hm n hn rfl

end Jsr

/-! ### template-level facts -/

namespace Spec
variable (E : ReEnv)

theorem rawSegments_cons (r : Str) : ∃ tl, rawSegments (r.dropWhile (· != '/')) = some tl ∧
    rawSegments ('/' :: r) = some (r.takeWhile (· != '/') :: tl) := by
  rw [rawSegments.eq_2, split_eq]
  rcases dropWhile_ne_cases '/' r with h | ⟨r', h⟩
  · rw [h]; exact ⟨[], rfl, rfl⟩
  · rw [h]; exact ⟨split '/' r', rfl, rfl⟩

theorem rawSegments_some {p : Str} {raw : List Str} (h : rawSegments p = some raw) :
    (p = [] ∧ raw = []) ∨ ∃ r, p = '/' :: r ∧ raw = split '/' r := by
  by_cases h1 : p = []
  · subst h1; left; simp [rawSegments] at h; exact ⟨rfl, h⟩
  · by_cases h2 : ∃ r, p = '/' :: r
    · obtain ⟨r, rfl⟩ := h2
      rw [rawSegments.eq_2] at h
      right; exact ⟨r, rfl, by simpa using h.symm⟩
    · rw [rawSegments.eq_3 p h1 (fun r hr => h2 ⟨r, hr⟩)] at h
      simp at h

end Spec

theorem shapeOK_tail {t : TTok} {ts : List TTok} (h : shapeOK (t :: ts) = true) : shapeOK ts = true := by
  cases ts with
  | nil => rfl
  | cons t' ts' =>
    rw [shapeOK.eq_3] at h
    simp only [Bool.and_eq_true] at h
    exact h.2

theorem shapeOK_wild_last {t : TTok} {ts : List TTok} (h : shapeOK (t :: ts) = true)
    (hw : t.base.isWild = true) : ts = [] := by
  cases ts with
  | nil => rfl
  | cons t' ts' =>
    rw [shapeOK.eq_3] at h
    simp [hw] at h

/-- `shapeOK (a ++ b)`: only the very last token may be the wildcard -/
theorem shapeOK_append : ∀ {a b : List TTok}, shapeOK (a ++ b) = true → b = [] ∨ ∀ t ∈ a, t.base.isWild = false
  | [], _, _ => Or.inr (by simp)
  | t :: a, b, h => by
    rw [List.cons_append] at h
    rcases shapeOK_append (shapeOK_tail h) with hb | ha
    · exact Or.inl hb
    · by_cases hb : b = []
      · exact Or.inl hb
      · right
        intro x hx
        rcases List.mem_cons.1 hx with rfl | hx
        · cases hw : x.base.isWild with
          | false => rfl
          | true =>
            have := shapeOK_wild_last h hw
            simp [hb] at this
        · exact ha x hx

theorem ofTTok_ne_wild {t : TTok} (h : t.base.isWild = false) (n : Str) : Jsr.ofTTok t ≠ .wild n := by
  obtain ⟨base, verb⟩ := t
  cases base <;> simp_all [Jsr.ofTTok, Jsr.ofTok, Tok.isWild]

theorem map_ofTTok_no_wild {a : List TTok} (h : ∀ t ∈ a, t.base.isWild = false) :
    ∀ t ∈ a.map Jsr.ofTTok, ∀ n, t ≠ .wild n := by
  intro t ht n
  obtain ⟨t', ht', rfl⟩ := List.mem_map.1 ht
  exact ofTTok_ne_wild (h t' ht') n

theorem getLast?_dropLast_eq {α} {l : List α} {a : α} (h : l.getLast? = some a) : l = l.dropLast ++ [a] := by
  obtain ⟨ys, rfl⟩ := List.getLast?_eq_some_iff.1 h
  simp

namespace Jsr
variable (E : ReEnv)

/-! ### soundness: a match is an admission with the expected bindings -/

/-- hints (3),(4): a match of the whole template that leaves `""` or `"/"` reads the path's raw
    segments (without the one tolerated trailing empty segment) position-wise -/
theorem match_segs : ∀ (ts : List TTok), (∀ t ∈ ts, t.wf = true) → (∀ t ∈ ts, Spec.tokJsrOK t = true) →
    ∀ (p : Str) (caps : List Str) (f : Str), matchExpr E (ts.map ofTTok) p = some (caps, f) →
      (f = [] ∨ f = ['/']) →
      ∃ segs, Spec.admits E .jsr ts segs = true ∧ (varNames ts).zip caps = Spec.expectedParams ts segs ∧
        ((f = [] ∧ Spec.rawSegments p = some segs) ∨
         (f = ['/'] ∧ Spec.rawSegments p = some (segs ++ [[]]) ∧ Spec.admits E .jsr ts (segs ++ [[]]) = false)) := by
  intro ts
  induction ts with
  | nil =>
    intro _ _ p caps f h hf
    obtain ⟨rfl, rfl, _, _⟩ := matchExpr_nil_some E h
    refine ⟨[], rfl, rfl, ?_⟩
    rcases hf with rfl | rfl
    · left; exact ⟨rfl, rfl⟩
    · right; exact ⟨rfl, rfl, rfl⟩
  | cons t ts ih =>
    intro hw hj p caps f h hf
    have ih' := ih (fun x hx => hw x (List.mem_cons_of_mem _ hx)) (fun x hx => hj x (List.mem_cons_of_mem _ hx))
    have hwt := hw t List.mem_cons_self
    have hjt := hj t List.mem_cons_self
    rw [List.map_cons] at h
    obtain ⟨r, rfl⟩ := matchExpr_cons_some E h
    obtain ⟨tl, htl, hraw⟩ := Spec.rawSegments_cons r
    obtain ⟨base, verb⟩ := t
    have hv : verb = none := by
      simp only [Spec.tokJsrOK, Bool.and_eq_true, Option.isNone_iff_eq_none] at hjt
      exact hjt.1
    subst hv
    -- the common continuation for a one-segment token
    have step : ∀ (caps' : List Str),
        matchExpr E (ts.map ofTTok) (List.dropWhile (fun x => x != '/') r) = some (caps', f) →
        base.isWild = false →
        Spec.tokOK E .jsr base (List.takeWhile (fun x => x != '/') r) = true →
        ∃ segs', Spec.admits E .jsr (⟨base, none⟩ :: ts) (List.takeWhile (fun x => x != '/') r :: segs') = true ∧
          (varNames ts).zip caps' = Spec.expectedParams ts segs' ∧
          ((f = [] ∧ Spec.rawSegments ('/' :: r) = some (List.takeWhile (fun x => x != '/') r :: segs')) ∨
           (f = ['/'] ∧ Spec.rawSegments ('/' :: r) = some ((List.takeWhile (fun x => x != '/') r :: segs') ++ [[]]) ∧
              Spec.admits E .jsr (⟨base, none⟩ :: ts) ((List.takeWhile (fun x => x != '/') r :: segs') ++ [[]]) = false)) := by
      intro caps' hm hnw hok
      obtain ⟨segs', ha, hz, hcase⟩ := ih' _ _ _ hm hf
      refine ⟨segs', ?_, hz, ?_⟩
      · rw [Spec.admits.eq_3]
        simp [hnw, Spec.segOK, hok, ha]
      · rcases hcase with ⟨rfl, hr⟩ | ⟨rfl, hr, hna⟩
        · left
          rw [hr] at htl
          simp only [Option.some.injEq] at htl
          subst htl
          exact ⟨rfl, hraw⟩
        · right
          rw [hr] at htl
          simp only [Option.some.injEq] at htl
          subst htl
          refine ⟨rfl, by simpa using hraw, ?_⟩
          rw [List.cons_append, Spec.admits.eq_3]
          simp [hnw, hna]
    cases base with
    | lit l =>
      simp only [ofTTok, ofTok] at h
      rw [matchExpr.eq_2] at h
      split at h
      · rename_i hp
        obtain ⟨rest, rfl⟩ := List.isPrefixOf_iff_prefix.1 hp
        rw [List.drop_left] at h
        have hl : '/' ∉ l := by
          simp only [TTok.wf, Tok.wf, Bool.and_true] at hwt
          exact (litOK_spec hwt).2.1
        have hrest : rest = [] ∨ ∃ r', rest = '/' :: r' := matchExpr_some_starts E h
        obtain ⟨e1, e2⟩ := takeWhile_ne_append hl hrest
        rw [e2] at step
        obtain ⟨segs', ha, hz, hcase⟩ := step caps h rfl (by rw [e1]; simp [Spec.tokOK])
        refine ⟨_ :: segs', ha, ?_, hcase⟩
        rw [Spec.expectedParams.eq_3]
        simpa [varNames, Tok.name?] using hz
      · simp at h
    | var n =>
      simp only [ofTTok, ofTok] at h
      rw [matchExpr.eq_3] at h
      split at h
      · simp at h
      · rename_i hp
        cases hm : matchExpr E (ts.map ofTTok) (List.dropWhile (fun x => x != '/') r) with
        | none => simp [hm] at h
        | some cf =>
          obtain ⟨c', f'⟩ := cf
          simp only [hm, Option.map_some, Option.some.injEq, Prod.mk.injEq] at h
          obtain ⟨rfl, rfl⟩ := h
          obtain ⟨segs', ha, hz, hcase⟩ := step c' hm rfl (by simpa [Spec.tokOK] using hp)
          refine ⟨_ :: segs', ha, ?_, hcase⟩
          rw [Spec.expectedParams.eq_3]
          simp only [varNames, List.filterMap_cons, Tok.name?, List.zip_cons_cons, Spec.unverb]
          rw [← hz]; rfl
    | re n e =>
      simp only [ofTTok, ofTok] at h
      rw [matchExpr.eq_4] at h
      split at h
      · rename_i hp
        cases hm : matchExpr E (ts.map ofTTok) (List.dropWhile (fun x => x != '/') r) with
        | none => simp [hm] at h
        | some cf =>
          obtain ⟨c', f'⟩ := cf
          simp only [hm, Option.map_some, Option.some.injEq, Prod.mk.injEq] at h
          obtain ⟨rfl, rfl⟩ := h
          obtain ⟨segs', ha, hz, hcase⟩ := step c' hm rfl (by simpa [Spec.tokOK, Spec.reOKFor] using hp)
          refine ⟨_ :: segs', ha, ?_, hcase⟩
          rw [Spec.expectedParams.eq_3]
          simp only [varNames, List.filterMap_cons, Tok.name?, List.zip_cons_cons, Spec.unverb]
          rw [← hz]; rfl
      · simp at h
    | suf n s => simp [Spec.tokJsrOK] at hjt
    | wild n =>
      simp only [ofTTok, ofTok] at h
      cases ts with
      | cons t' ts' => simp [matchExpr.eq_6] at h
      | nil =>
        simp only [List.map_nil] at h
        rw [matchExpr.eq_5] at h
        split at h
        · simp at h
        · simp only [Option.some.injEq, Prod.mk.injEq] at h
          obtain ⟨rfl, rfl⟩ := h
          have hsp : split '/' r = List.takeWhile (fun x => x != '/') r :: tl := by
            rw [Spec.rawSegments.eq_2] at hraw
            simpa using hraw
          refine ⟨List.takeWhile (fun x => x != '/') r :: tl, ?_, ?_, Or.inl ⟨rfl, hraw⟩⟩
          · rw [Spec.admits.eq_3]
            simp [Tok.isWild]
          · have hj := join_split '/' r
            rw [hsp] at hj
            rw [Spec.expectedParams.eq_3]
            simp [varNames, Tok.name?, untokenize, hj]

/-- what `readTemplateJ` guarantees -/
theorem readTemplateJ_spec {root rel : Str} {ts : List TTok} (hts : Spec.readTemplateJ root rel = some ts) :
    ∃ a b, readToks (Spec.nonEmptyToks root) = some a ∧ readToks (Spec.nonEmptyToks rel) = some b ∧ ts = a ++ b ∧
      shapeOK (a ++ b) = true ∧ (∀ t ∈ a ++ b, Spec.tokJsrOK t = true) ∧ (varNames (a ++ b)).Nodup := by
  unfold Spec.readTemplateJ at hts
  split at hts
  · rename_i a b ha hb
    split at hts
    · rename_i hc
      simp only [Bool.and_eq_true, List.all_eq_true, decide_eq_true_eq] at hc
      simp only [Option.some.injEq] at hts
      exact ⟨a, b, ha, hb, hts.symm, hc.1.1, hc.1.2, hc.2⟩
    · simp at hts
  · simp at hts

theorem varNames_append (a b : List TTok) : varNames (a ++ b) = varNames a ++ varNames b := by
  simp [varNames]

/-- C01 + C04 for RouterJSR311 -/
theorem match_sound (E : ReEnv) (root rel path : Str) (ts : List TTok)
    (hts : Spec.readTemplateJ root rel = some ts)
    (wex rex : Jsr.Expr) (hw : Jsr.compile root = some wex) (hr : Jsr.compile rel = some rex)
    (wc rc : List Str) (final f : Str)
    (h1 : Jsr.matchExpr E wex.toks path = some (wc, final))
    (h2 : Jsr.matchExpr E rex.toks final = some (rc, f)) (hf : f = [] ∨ f = ['/']) :
    ∃ segs, Spec.admittedSegments E .jsr ts path = some segs ∧
      Jsr.bindParams rex.varNames rc (Jsr.bindParams wex.varNames wc []) = Spec.expectedParams ts segs := by
  obtain ⟨a, b, ha, hb, rfl, hshape, hjsr, hnd⟩ := readTemplateJ_spec hts
  have hja : ∀ t ∈ a, Spec.tokJsrOK t = true := fun t ht => hjsr t (List.mem_append_left _ ht)
  have hjb : ∀ t ∈ b, Spec.tokJsrOK t = true := fun t ht => hjsr t (List.mem_append_right _ ht)
  obtain ⟨hwt, hwn⟩ := compile_of_readToks ha hja hw
  obtain ⟨hrt, hrn⟩ := compile_of_readToks hb hjb hr
  rw [hwt] at h1
  rw [hrt] at h2
  rw [hwn, hrn]
  have hwf : ∀ t ∈ a ++ b, t.wf = true := by
    intro t ht
    rcases List.mem_append.1 ht with h | h
    · exact (readToks_render ha).2 t h
    · exact (readToks_render hb).2 t h
  -- the two matches are one match of the whole template
  have hall : matchExpr E ((a ++ b).map ofTTok) path = some (wc ++ rc, f) := by
    rw [List.map_append]
    rcases shapeOK_append hshape with rfl | hnw
    · obtain ⟨rfl, rfl, _, _⟩ := matchExpr_nil_some E h2
      simpa using h1
    · exact matchExpr_append E _ (map_ofTTok_no_wild hnw) h1 h2
  have hlen : wc.length = (varNames a).length := by
    rw [matchExpr_caps_length E h1, filterMap_varNameOf a hja]
  rw [varNames_append] at hnd
  rw [bindParams_two hnd hlen, ← varNames_append]
  obtain ⟨segs, hadm, hz, hcase⟩ := match_segs E (a ++ b) hwf hjsr path _ f hall hf
  refine ⟨segs, ?_, hz⟩
  unfold Spec.admittedSegments
  rcases hcase with ⟨_, hraw⟩ | ⟨_, hraw, hna⟩
  · simp [hraw, hadm]
  · simp [hraw, hna, hadm]

/-- non-vacuity of `match_sound`: root `/users`, route `/{id:[0-9]+}/x/{rest:*}`, request
    `/users/42/x/a/b`, and an oracle that knows the one expression; every hypothesis is decided -/
example :
    let E : ReEnv := ⟨fun _ _ => false, fun e s => e == "[0-9]+".toList && !s.isEmpty && s.all Char.isDigit⟩
    let ts : List TTok := [⟨.lit "users".toList, none⟩, ⟨.re "id".toList "[0-9]+".toList, none⟩,
      ⟨.lit "x".toList, none⟩, ⟨.wild "rest".toList, none⟩]
    let wex : Jsr.Expr := ⟨[.lit "users".toList], 5, [], 0⟩
    let rex : Jsr.Expr := ⟨[.re "id".toList "[0-9]+".toList, .lit "x".toList, .wild "rest".toList], 1,
      ["id".toList, "rest".toList], 2⟩
    ∃ segs, Spec.admittedSegments E .jsr ts "/users/42/x/a/b".toList = some segs ∧
      Jsr.bindParams rex.varNames ["42".toList, "a/b".toList] (Jsr.bindParams wex.varNames [] []) =
        Spec.expectedParams ts segs :=
  match_sound _ "/users".toList "/{id:[0-9]+}/x/{rest:*}".toList "/users/42/x/a/b".toList _ (by decide)
    _ _ (by decide) (by decide) [] ["42".toList, "a/b".toList] "/42/x/a/b".toList [] (by decide) (by decide)
    (Or.inl rfl)

/-- … and what the theorem then delivers there -/
example :
    let E : ReEnv := ⟨fun _ _ => false, fun e s => e == "[0-9]+".toList && !s.isEmpty && s.all Char.isDigit⟩
    let ts : List TTok := [⟨.lit "users".toList, none⟩, ⟨.re "id".toList "[0-9]+".toList, none⟩,
      ⟨.lit "x".toList, none⟩, ⟨.wild "rest".toList, none⟩]
    Spec.admittedSegments E .jsr ts "/users/42/x/a/b".toList =
        some ["users".toList, "42".toList, "x".toList, "a".toList, "b".toList] ∧
      Spec.expectedParams ts ["users".toList, "42".toList, "x".toList, "a".toList, "b".toList] =
        [("id".toList, "42".toList), ("rest".toList, "a/b".toList)] := by
  decide

/-! ### completeness: an admitted newline-free path is matched -/

theorem segs_match : ∀ (ts : List TTok), (∀ t ∈ ts, t.wf = true) → (∀ t ∈ ts, Spec.tokJsrOK t = true) →
    shapeOK ts = true →
    ∀ (p : Str) (raw : List Str), '\n' ∉ p → Spec.rawSegments p = some raw →
      (Spec.admits E .jsr ts raw = true ∨ ∃ segs, raw = segs ++ [[]] ∧ Spec.admits E .jsr ts segs = true) →
      ∃ caps f, matchExpr E (ts.map ofTTok) p = some (caps, f) ∧ (f = [] ∨ f = ['/']) := by
  intro ts
  induction ts with
  | nil =>
    intro _ _ _ p raw hn hraw hadm
    rcases hadm with hadm | ⟨segs, rfl, hadm⟩
    · rw [Spec.admits.eq_1, List.isEmpty_iff] at hadm
      subst hadm
      rcases Spec.rawSegments_some hraw with ⟨rfl, _⟩ | ⟨r, _, h⟩
      · exact ⟨[], [], matchExpr_nil_of E (Or.inl rfl) (by simp), Or.inl rfl⟩
      · exact absurd h.symm (split_ne_nil _ _)
    · rw [Spec.admits.eq_1, List.isEmpty_iff] at hadm
      subst hadm
      rcases Spec.rawSegments_some hraw with ⟨_, h⟩ | ⟨r, rfl, h⟩
      · simp at h
      · have hj := join_split '/' r
        rw [← h] at hj
        have : r = [] := by simpa [join] using hj.symm
        subst this
        exact ⟨[], ['/'], matchExpr_nil_of E (Or.inr ⟨[], rfl⟩) (by decide), Or.inr rfl⟩
  | cons t ts ih =>
    intro hw hj hs p raw hn hraw hadm
    have ih' := ih (fun x hx => hw x (List.mem_cons_of_mem _ hx)) (fun x hx => hj x (List.mem_cons_of_mem _ hx))
      (shapeOK_tail hs)
    have hwt := hw t List.mem_cons_self
    have hjt := hj t List.mem_cons_self
    -- the path is `/` + first segment + rest, and `t` admits the first segment
    have hne : raw ≠ [] := by
      rcases hadm with hadm | ⟨segs, rfl, _⟩
      · intro h; subst h; simp [Spec.admits.eq_2] at hadm
      · simp
    rcases Spec.rawSegments_some hraw with ⟨_, h⟩ | ⟨r, rfl, _⟩
    · exact absurd h hne
    obtain ⟨tl, htl, hraw'⟩ := Spec.rawSegments_cons r
    rw [hraw'] at hraw
    simp only [Option.some.injEq] at hraw
    subst hraw
    have hnr : '\n' ∉ r := fun hm => hn (List.mem_cons_of_mem _ hm)
    have hnd : '\n' ∉ List.dropWhile (fun x => x != '/') r :=
      fun hm => hnr ((List.dropWhile_sublist _).subset hm)
    have hadm' : ∃ X, Spec.admits E .jsr (t :: ts) (List.takeWhile (fun x => x != '/') r :: X) = true ∧
        (Spec.admits E .jsr ts X = true → Spec.admits E .jsr ts tl = true ∨
          ∃ segs, tl = segs ++ [[]] ∧ Spec.admits E .jsr ts segs = true) := by
      rcases hadm with hadm | ⟨segs, he, hadm⟩
      · exact ⟨tl, hadm, Or.inl⟩
      · cases segs with
        | nil => simp [Spec.admits.eq_2] at hadm
        | cons q segs' =>
          rw [List.cons_append, List.cons.injEq] at he
          obtain ⟨rfl, rfl⟩ := he
          exact ⟨segs', hadm, fun h => Or.inr ⟨segs', rfl, h⟩⟩
    obtain ⟨X, hX, hcont⟩ := hadm'
    rw [Spec.admits.eq_3] at hX
    obtain ⟨base, verb⟩ := t
    have hv : verb = none := by
      simp only [Spec.tokJsrOK, Bool.and_eq_true, Option.isNone_iff_eq_none] at hjt
      exact hjt.1
    subst hv
    rw [List.map_cons]
    have hsplit : List.takeWhile (fun x => x != '/') r ++ List.dropWhile (fun x => x != '/') r = r :=
      List.takeWhile_append_dropWhile
    cases base with
    | wild n =>
      have := shapeOK_wild_last hs rfl
      subst this
      refine ⟨[r], [], ?_, Or.inl rfl⟩
      simp only [ofTTok, ofTok, List.map_nil]
      rw [matchExpr.eq_5, if_neg (by simpa using hnr)]
    | lit l =>
      simp only [Tok.isWild, Bool.false_and, Bool.false_eq_true, if_false, Bool.and_eq_true,
        Spec.segOK, Spec.tokOK, beq_iff_eq] at hX
      obtain ⟨caps, f, hm, hf⟩ := ih' _ tl hnd htl (hcont hX.2)
      refine ⟨caps, f, ?_, hf⟩
      simp only [ofTTok, ofTok]
      rw [matchExpr.eq_2]
      rw [hX.1] at hsplit
      have hp : l.isPrefixOf r = true := List.isPrefixOf_iff_prefix.2 ⟨_, hsplit⟩
      rw [if_pos hp]
      have : List.drop l.length r = List.dropWhile (fun x => x != '/') r := by
        conv => lhs; rw [← hsplit]
        exact List.drop_left
      rw [this]; exact hm
    | var n =>
      simp only [Tok.isWild, Bool.false_and, Bool.false_eq_true, if_false, Bool.and_eq_true,
        Spec.segOK, Spec.tokOK, Bool.not_eq_true'] at hX
      obtain ⟨caps, f, hm, hf⟩ := ih' _ tl hnd htl (hcont hX.2)
      refine ⟨List.takeWhile (fun x => x != '/') r :: caps, f, ?_, hf⟩
      simp only [ofTTok, ofTok]
      rw [matchExpr.eq_3, if_neg (by simp [hX.1]), hm]; rfl
    | re n e =>
      simp only [Tok.isWild, Bool.false_and, Bool.false_eq_true, if_false, Bool.and_eq_true,
        Spec.segOK, Spec.tokOK, Spec.reOKFor] at hX
      obtain ⟨caps, f, hm, hf⟩ := ih' _ tl hnd htl (hcont hX.2)
      refine ⟨List.takeWhile (fun x => x != '/') r :: caps, f, ?_, hf⟩
      simp only [ofTTok, ofTok]
      rw [matchExpr.eq_4, if_pos hX.1, hm]; rfl
    | suf n s => simp [Spec.tokJsrOK] at hjt

/-- C02 direction for RouterJSR311: an admitted path is matched by both stages -/
theorem match_complete (E : ReEnv) (root rel path : Str) (ts : List TTok)
    (hts : Spec.readTemplateJ root rel = some ts)
    (wex rex : Jsr.Expr) (hw : Jsr.compile root = some wex) (hr : Jsr.compile rel = some rex)
    (hn : ¬ ('\n' ∈ path))
    (segs : List Str) (ha : Spec.admittedSegments E .jsr ts path = some segs) :
    ∃ wc final rc f, Jsr.matchExpr E wex.toks path = some (wc, final) ∧
      Jsr.matchExpr E rex.toks final = some (rc, f) ∧ (f = [] ∨ f = ['/']) := by
  obtain ⟨a, b, hra, hrb, rfl, hshape, hjsr, hnd⟩ := readTemplateJ_spec hts
  have hja : ∀ t ∈ a, Spec.tokJsrOK t = true := fun t ht => hjsr t (List.mem_append_left _ ht)
  have hjb : ∀ t ∈ b, Spec.tokJsrOK t = true := fun t ht => hjsr t (List.mem_append_right _ ht)
  obtain ⟨hwt, _⟩ := compile_of_readToks hra hja hw
  obtain ⟨hrt, _⟩ := compile_of_readToks hrb hjb hr
  rw [hwt, hrt]
  have hwf : ∀ t ∈ a ++ b, t.wf = true := by
    intro t ht
    rcases List.mem_append.1 ht with h | h
    · exact (readToks_render hra).2 t h
    · exact (readToks_render hrb).2 t h
  -- the admission, in either of its two forms, gives a match of the whole template
  have hall : ∃ caps f, matchExpr E ((a ++ b).map ofTTok) path = some (caps, f) ∧ (f = [] ∨ f = ['/']) := by
    unfold Spec.admittedSegments at ha
    simp only at ha
    split at ha
    · simp at ha
    · rename_i raw hraw
      apply segs_match E (a ++ b) hwf hjsr hshape path raw hn hraw
      split at ha
      · rename_i h; exact Or.inl h
      · split at ha
        · rename_i h
          simp only [Bool.and_eq_true, beq_iff_eq] at h
          exact Or.inr ⟨raw.dropLast, getLast?_dropLast_eq h.1, h.2⟩
        · simp at ha
  obtain ⟨caps, f, hm, hf⟩ := hall
  rw [List.map_append] at hm
  rcases shapeOK_append hshape with rfl | hnw
  · simp only [List.map_nil, List.append_nil] at hm
    refine ⟨caps, f, [], f, hm, ?_, hf⟩
    rcases hf with rfl | rfl
    · exact matchExpr_nil_of E (Or.inl rfl) (by simp)
    · exact matchExpr_nil_of E (Or.inr ⟨[], rfl⟩) (by decide)
  · obtain ⟨c1, final, c2, h1, h2⟩ := matchExpr_split E _ (map_ofTTok_no_wild hnw) hn hm
    exact ⟨c1, final, c2, f, h1, h2, hf⟩

end Jsr
end Restful

