/- what a `selected` outcome of the top-level `route` function means, for each router -/
import Restful.Model.Route
import Restful.Lemmas.Detect
import Restful.Lemmas.CurlySelect
import Restful.Lemmas.JsrSelect
namespace Restful
variable (E : ReEnv)

theorem Service.built_svc (svc : Service) {rt : Route} (h : rt ∈ svc.built) : rt.svc = svc.id := by
  unfold Service.built at h
  simp only [List.mem_map] at h
  obtain ⟨r, _, rfl⟩ := h
  rfl

/-- CurlyRouter: a selected outcome names a built route of a declared service whose tokens matched
    and which passed every stage of `detectRoute`; the parameters are those of the path processor -/
theorem routeCurly_selected {cfg : Config} {req : Req} {s r : Nat} {ps : Params}
    (h : (routeCurly E cfg req).1 = .selected s r ps) :
    ∃ svc ∈ cfg.services, ∃ rt ∈ svc.built, svc.id = s ∧ rt.id = r ∧
      (∃ p st, Curly.matchTokens E rt.pathParts (tokenize req.path) rt.hasCustomVerb = .yes p st) ∧
      passesConds rt req = true ∧ req.method = rt.method ∧
      matchesContentType rt req.contentType = true ∧
      matchesAccept rt (if req.accept.isEmpty then starStar else req.accept) = true ∧
      Params.extract rt req.path = some ps := by
  unfold routeCurly at h
  simp only at h
  split at h
  · simp at h
  · simp at h
  · rename_i svc sc hsvc
    split at h
    · simp at h
    · simp at h
    · rename_i cands _ hsel
      split at h
      · simp at h
      · rename_i rt hdet
        split at h
        · simp at h
        · rename_i ps' hext
          simp only [Outcome.selected.injEq] at h
          obtain ⟨h1, h2, h3⟩ := h
          subst h3
          have hsvcmem : svc ∈ cfg.services := Curly.detectWebService_mem_none E hsvc
          obtain ⟨hmem, hc, hm, hct, hacc⟩ := detectRoute_ok hdet
          obtain ⟨hbuilt, hmatch⟩ := Curly.selectRoutes_mem E hsel hmem
          refine ⟨svc, hsvcmem, rt, hbuilt, ?_, h2, hmatch, hc, hm, hct, hacc, hext⟩
          rw [← Service.built_svc svc hbuilt]; exact h1

end Restful

namespace Restful
variable (E : ReEnv)

theorem Service.built_root (svc : Service) {rt : Route} (h : rt ∈ svc.built) : rt.root = svc.rootPath := by
  unfold Service.built at h
  simp only [List.mem_map] at h
  obtain ⟨r, _, rfl⟩ := h
  rfl

/-- RouterJSR311: a selected outcome names a built route of a declared service such that the root
    expression matched the path, the route expression matched the remainder with a final group that
    is empty or `/`, every stage of `detectRoute` passed, and the parameters are the captures -/
theorem routeJsr_selected {cfg : Config} {req : Req} {s r : Nat} {ps : Params}
    (h : (routeJsr E cfg req).1 = .selected s r ps) :
    ∃ svc ∈ cfg.services, ∃ rt ∈ svc.built, svc.id = s ∧ rt.id = r ∧
      (∃ wex wc final rex rc f, Jsr.compile svc.rootPath = some wex ∧ Jsr.matchExpr E wex.toks req.path = some (wc, final) ∧
        Jsr.compile rt.relPath = some rex ∧ Jsr.matchExpr E rex.toks final = some (rc, f) ∧ (f = [] ∨ f = ['/']) ∧
        ps = Jsr.bindParams rex.varNames rc (Jsr.bindParams wex.varNames wc [])) ∧
      passesConds rt req = true ∧ req.method = rt.method ∧
      matchesContentType rt req.contentType = true ∧
      matchesAccept rt (if req.accept.isEmpty then starStar else req.accept) = true := by
  unfold routeJsr at h
  split at h
  · simp at h
  · simp at h
  · rename_i svc final hdisp
    split at h
    · simp at h
    · simp at h
    · rename_i cands _ hsel
      split at h
      · simp at h
      · rename_i rt hdet
        split at h
        · simp at h
        · rename_i ps' hext
          simp only [Outcome.selected.injEq] at h
          obtain ⟨h1, h2, h3⟩ := h
          subst h3
          obtain ⟨hsvcmem, wex, wc, hwex, hwm⟩ := Jsr.detectDispatcher_mem E hdisp
          obtain ⟨hmem, hc, hm, hct, hacc⟩ := detectRoute_ok hdet
          obtain ⟨hbuilt, rex, rc, f, hrex, hrm, hf⟩ := Jsr.selectRoutes_mem E hsel hmem
          refine ⟨svc, hsvcmem, rt, hbuilt, ?_, h2, ⟨wex, wc, final, rex, rc, f, hwex, hwm, hrex, hrm, hf, ?_⟩, hc, hm, hct, hacc⟩
          · rw [← Service.built_svc svc hbuilt]; exact h1
          · unfold Jsr.extract at hext
            simp only [hwex, hrex, hwm, hrm, Option.some.injEq] at hext
            exact hext.symm

end Restful
