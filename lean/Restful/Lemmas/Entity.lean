/- helper lemmas for C16 (Props/C16.lean) -/
import Restful.Model.Entity
import Restful.Spec.Entity
namespace Restful
namespace Entity
open Str

/-! ### strings.Contains -/

theorem containsSub_append (m p : Str) : containsSub m (m ++ p) = true := by
  unfold containsSub
  cases h : m ++ p with
  | nil =>
    have hm : m = [] := (List.append_eq_nil_iff.mp h).1
    subst hm
    simp [indexSub]
  | cons c cs =>
    unfold indexSub
    have hp : m.isPrefixOf (c :: cs) = true := by
      rw [← h, List.isPrefixOf_iff_prefix]
      exact List.prefix_append m p
    simp [hp]

theorem containsSub_self (m : Str) : containsSub m m = true := by
  have := containsSub_append m []
  simpa using this

theorem containsSub_of_isPrefixOf {m s : Str} (h : m.isPrefixOf s = true) : containsSub m s = true := by
  obtain ⟨t, rfl⟩ := List.isPrefixOf_iff_prefix.mp h
  exact containsSub_append m t

theorem containsSub_nil_right {m : Str} (h : containsSub m [] = true) : m = [] := by
  unfold containsSub indexSub at h
  cases m with
  | nil => rfl
  | cons a as => simp at h

/-! ### dedup -/

theorem mem_dedup {k : Kind} : ∀ {l : List Kind}, k ∈ dedup l ↔ k ∈ l
  | [] => by simp [dedup]
  | x :: xs => by
    have ih := @mem_dedup k xs
    simp only [dedup, List.mem_cons, List.mem_filter, ih]
    constructor
    · rintro (h | ⟨h, _⟩)
      · exact Or.inl h
      · exact Or.inr h
    · intro h
      by_cases hk : k = x
      · exact Or.inl hk
      · rcases h with h | h
        · exact Or.inl h
        · exact Or.inr ⟨h, by simpa using hk⟩

theorem dedup_all_eq (k : Kind) : ∀ (l : List Kind), (∀ x ∈ l, x = k) → l ≠ [] → dedup l = [k]
  | [], _, hne => absurd rfl hne
  | x :: xs, hall, _ => by
    have hx : x = k := hall x (List.mem_cons_self ..)
    subst hx
    simp only [dedup, List.cons.injEq, true_and, List.filter_eq_nil_iff]
    intro y hy
    have : y = x := hall y (List.mem_cons_of_mem _ (mem_dedup.mp hy))
    simp [this]

theorem dedup_eq_nil {l : List Kind} (h : l = []) : dedup l = [] := by subst h; rfl

/-! ### the registry is a map -/

theorem key_unique : ∀ {reg : List (Str × Kind)} {a : Str} {x y : Kind},
    (reg.map (·.1)).Nodup → (a, x) ∈ reg → (a, y) ∈ reg → x = y
  | [], _, _, _, _, hx, _ => by cases hx
  | e :: es, a, x, y, hnd, hx, hy => by
    simp only [List.map_cons, List.nodup_cons, List.mem_map, not_exists, not_and] at hnd
    rcases List.mem_cons.mp hx with hx | hx <;> rcases List.mem_cons.mp hy with hy | hy
    · rw [← hx] at hy; cases hy; rfl
    · exact absurd (by rw [← hx]) (hnd.1 (a, y) hy)
    · exact absurd (by rw [← hy]) (hnd.1 (a, x) hx)
    · exact key_unique hnd.2 hx hy

theorem wf_nodup {cfg : Cfg} (h : cfg.wf = true) : (cfg.registry.map (·.1)).Nodup := by
  unfold Cfg.wf at h
  simp only [Bool.and_eq_true, decide_eq_true_eq] at h
  exact h.1

theorem wf_key {cfg : Cfg} (h : cfg.wf = true) {e : Str × Kind} (he : e ∈ cfg.registry) :
    e.1 ≠ [] ∧ ∀ c ∈ e.1, c ≠ ';' ∧ c ≠ ' ' := by
  unfold Cfg.wf at h
  simp only [Bool.and_eq_true, decide_eq_true_eq, List.all_eq_true, Bool.not_eq_true', bne_iff_ne, ne_eq] at h
  have := h.2 e he
  refine ⟨?_, this.2⟩
  intro hn
  rw [hn] at this
  simp at this

/-! ### accessorAt -/

/-- C16_select, the lemma form -/
theorem accessorAt_unique (reg : List (Str × Kind)) (m ct : Str) (k : Kind)
    (hnd : (reg.map (·.1)).Nodup) (hm : (m, k) ∈ reg) (hsub : containsSub m ct = true)
    (hu : ∀ e ∈ reg, containsSub e.1 ct = true → e.1 = m) :
    accessorAt reg ct = [k] := by
  unfold accessorAt
  cases hf : reg.find? (fun e => e.1 == ct) with
  | some e =>
    have hmem : e ∈ reg := List.mem_of_find?_eq_some hf
    have hkey : e.1 = ct := by simpa using List.find?_some hf
    have : e.1 = m := hu e hmem (by rw [hkey]; exact containsSub_self ct)
    have he : e = (m, e.2) := by rw [← this]
    rw [he] at hmem
    simp [key_unique hnd hmem hm]
  | none =>
    simp only
    apply dedup_all_eq
    · intro x hx
      simp only [List.mem_map, List.mem_filter] at hx
      obtain ⟨e, ⟨hmem, hc⟩, rfl⟩ := hx
      have : e.1 = m := hu e hmem hc
      have he : e = (m, e.2) := by rw [← this]
      rw [he] at hmem
      exact key_unique hnd hmem hm
    · intro hnil
      have : k ∈ (reg.filter (fun e => containsSub e.1 ct)).map (·.2) := by
        simp only [List.mem_map, List.mem_filter]
        exact ⟨(m, k), ⟨hm, hsub⟩, rfl⟩
      rw [hnil] at this
      cases this

/-- no key of a well-formed registry is found for an absent Content-Type -/
theorem accessorAt_nil {cfg : Cfg} (h : cfg.wf = true) : accessorAt cfg.registry [] = [] := by
  unfold accessorAt
  cases hf : cfg.registry.find? (fun e => e.1 == []) with
  | some e =>
    have hmem : e ∈ cfg.registry := List.mem_of_find?_eq_some hf
    have hkey : e.1 = [] := by simpa using List.find?_some hf
    exact absurd hkey (wf_key h hmem).1
  | none =>
    simp only
    apply dedup_eq_nil
    simp only [List.map_eq_nil_iff, List.filter_eq_nil_iff]
    intro e hmem hc
    exact (wf_key h hmem).1 (containsSub_nil_right hc)

open Spec.C16 in
/-- what the Content-Type's media type selects is among the readers the lookup can produce -/
theorem mem_accessorAt_of_mediaSelects {cfg : Cfg} (h : cfg.wf = true) {x : Str} {k : Kind}
    (hs : mediaSelects cfg.registry x k = true) : k ∈ accessorAt cfg.registry x := by
  unfold mediaSelects at hs
  simp only [List.any_eq_true, Bool.and_eq_true, beq_iff_eq] at hs
  obtain ⟨e, hmem, hk, hst⟩ := hs
  unfold startsMedia at hst
  simp only [Bool.and_eq_true] at hst
  obtain ⟨hpre, hrest⟩ := hst
  unfold accessorAt
  cases hf : cfg.registry.find? (fun e => e.1 == x) with
  | some e' =>
    have hmem' : e' ∈ cfg.registry := List.mem_of_find?_eq_some hf
    have hkey : e'.1 = x := by simpa using List.find?_some hf
    obtain ⟨t, ht⟩ := List.isPrefixOf_iff_prefix.mp hpre
    have hdrop : x.drop e.1.length = t := by rw [← ht]; simp
    rw [hdrop] at hrest
    cases t with
    | nil =>
      have hex : e.1 = e'.1 := by rw [hkey, ← ht]; simp
      have h1 : (e.1, e.2) ∈ cfg.registry := hmem
      have h2 : (e.1, e'.2) ∈ cfg.registry := by rw [hex]; exact hmem'
      have := key_unique (wf_nodup h) h1 h2
      simp [← this, hk]
    | cons c cs =>
      simp only [Bool.or_eq_true, beq_iff_eq] at hrest
      have hc : c ∈ e'.1 := by rw [hkey, ← ht]; simp
      have := (wf_key h hmem').2 c hc
      rcases hrest with hr | hr
      · exact absurd hr this.1
      · exact absurd hr this.2
  | none =>
    simp only
    rw [mem_dedup]
    simp only [List.mem_map, List.mem_filter]
    exact ⟨e, ⟨hmem, containsSub_of_isPrefixOf hpre⟩, hk⟩

theorem mediaSelects_ne_nil {cfg : Cfg} (h : cfg.wf = true) {x : Str} {k : Kind}
    (hs : Spec.C16.mediaSelects cfg.registry x k = true) : x ≠ [] := by
  intro hx
  have := mem_accessorAt_of_mediaSelects h hs
  rw [hx, accessorAt_nil h] at this
  cases this

open Spec.C16 in
/-- outside class F62, the reader the Content-Type selects is THE reader the lookup produces -/
theorem accessorsFor_of_selected {cfg : Cfg} (h : cfg.wf = true) {ct : Str} {k : Kind}
    (hs : selected cfg ct k = true) (hamb : f62 cfg ct = false) : accessorsFor cfg ct = [k] := by
  have hmem : k ∈ accessorsFor cfg ct := by
    unfold selected at hs
    simp only [Bool.or_eq_true, Bool.and_eq_true, List.isEmpty_iff] at hs
    unfold accessorsFor
    rcases hs with hs | ⟨hct, hs⟩
    · have := mem_accessorAt_of_mediaSelects h hs
      cases ha : accessorAt cfg.registry ct with
      | nil => rw [ha] at this; cases this
      | cons a as => simpa [ha] using this
    · subst hct
      rw [accessorAt_nil h]
      have hd : cfg.dflt ≠ [] := mediaSelects_ne_nil h hs
      simp only [List.isEmpty_iff, hd, if_false]
      exact mem_accessorAt_of_mediaSelects h hs
  unfold f62 at hamb
  simp only [decide_eq_false_iff_not, Nat.not_lt] at hamb
  cases hl : accessorsFor cfg ct with
  | nil => rw [hl] at hmem; cases hmem
  | cons a as =>
    rw [hl] at hmem hamb
    cases as with
    | nil =>
      simp only [List.mem_singleton] at hmem
      rw [hmem]
    | cons b bs => simp at hamb

/-! ### the result of `ReadEntity` as a function of the request alone -/

/-- `ReadEntity`'s possible results without any pool: the declared coding read by a fresh
    decompressor — by the entity reader first, then on to its end (`drain`; for an undeclared coding
    the stream is the body followed by a clean EOF, on which `drain` changes nothing) -/
def readPure {Value : Type} (C : Codec Value) (cfg : Cfg) (req : RequestIn) : List (Result Value) :=
  match declaredStream C req with
  | none => [.err .badEncoding]
  | some s => (lookupAndRead C cfg req.contentType s).map (drain s)

theorem drain_clean {Value : Type} {s : Stream} (h : s.clean = true) (r : Result Value) : drain s r = r := by
  cases r <;> simp [drain, h]

theorem drain_dirty {Value : Type} {s : Stream} (h : s.clean = false) (r : Result Value) : (drain s r).isErr = true := by
  cases r <;> simp [drain, h, Result.isErr]

theorem drain_err {Value : Type} (s : Stream) (k : ErrKind) : drain s (.err k : Result Value) = .err k := rfl

theorem map_drain_clean {Value : Type} {s : Stream} (h : s.clean = true) (rs : List (Result Value)) : rs.map (drain s) = rs := by
  induction rs with
  | nil => rfl
  | cons r rs ih => simp [drain_clean h, ih]

/-- under the `Reset` law the pool (which object is acquired, what it was used for before) is
    irrelevant to the result -/
theorem readEntity_results {Value : Type} (L : CodecLaws Value) (cfg : Cfg) (pool : Pool) (req : RequestIn) :
    (readEntity L.toCodec cfg pool req).results = readPure L.toCodec cfg req := by
  unfold readEntity readPure declaredStream
  by_cases hg : req.contentEncoding = ENCODING_GZIP
  · simp only [hg, if_true, L.reset_law]
  · simp only [hg, if_false]
    by_cases hd : req.contentEncoding = ENCODING_DEFLATE
    · simp only [hd, if_true]
      cases L.unzl req.body <;> rfl
    · simp only [hd, if_false]
      exact (map_drain_clean rfl _).symm

theorem readEntity_events {Value : Type} (C : Codec Value) (cfg : Cfg) (pool : Pool) (req : RequestIn) :
    (readEntity C cfg pool req).events = [] ∨ (readEntity C cfg pool req).events = [.acquire, .use, .release] := by
  unfold readEntity
  by_cases hg : req.contentEncoding = ENCODING_GZIP
  · simp [hg]
  · simp only [hg, if_false]
    by_cases hd : req.contentEncoding = ENCODING_DEFLATE
    · simp only [hd, if_true]
      cases C.unzl req.body <;> simp
    · simp [hd]

theorem lookupAndRead_ne_nil {Value : Type} (C : Codec Value) (cfg : Cfg) (ct : Str) (s : Stream) :
    lookupAndRead C cfg ct s ≠ [] := by
  unfold lookupAndRead
  cases accessorsFor cfg ct <;> simp

theorem readPure_ne_nil {Value : Type} (C : Codec Value) (cfg : Cfg) (req : RequestIn) : readPure C cfg req ≠ [] := by
  unfold readPure
  cases declaredStream C req with
  | none => simp
  | some s => simpa using lookupAndRead_ne_nil C cfg _ s

theorem nil_ne_gzip : ([] : Str) ≠ ENCODING_GZIP := by decide
theorem nil_ne_deflate : ([] : Str) ≠ ENCODING_DEFLATE := by decide
theorem deflate_ne_gzip : ENCODING_DEFLATE ≠ ENCODING_GZIP := by decide

end Entity

/-! ### a history of the model as the harness would observe it (statement of `C16_spec_partial`) -/

namespace Entity
open Str Spec.C16
variable {Value : Type}

/-- a read of a history: the request, and how its body came about -/
structure Item (Value : Type) where
  req : RequestIn
  kind : Kind
  v : Value
  faithful : Bool

/-- `faithful` means: the body is `kind`'s writer output for `v`, coded as `Content-Encoding` says -/
def Item.sound (C : Codec Value) (it : Item Value) : Prop :=
  it.faithful = true → ∃ pretty c, it.req = requestOf C it.kind pretty it.v it.req.contentType c

def toObs (canon : Value → Str) : Result Value → Obs
  | .ok v => .ok (canon v)
  | .err .noReader400 => .err400
  | .err _ => .err

def pick (canon : Value → Str) (rs : List (Result Value)) : Obs := (rs.head?.map (toObs canon)).getD .err

def factsOf (C : Codec Value) (cfg : Cfg) (req : RequestIn) : Facts :=
  match declaredStream C req with
  | none => ⟨false, false, false⟩
  | some s => ⟨s.clean, docFor C cfg .json s.data, docFor C cfg .xml s.data⟩

/-- what the harness would record if the real code were the model -/
def observe (C : Codec Value) (cfg : Cfg) (canon : Value → Str) (prov : Provider) : Pool → List (Item Value) → List ReadObs
  | _, [] => []
  | pool, it :: its =>
    { ct := it.req.contentType, ce := it.req.contentEncoding, kind := it.kind, written := canon it.v,
      faithful := it.faithful, facts := factsOf C cfg it.req,
      real := pick canon (readEntity C cfg pool it.req).results,
      alone := pick canon (readOne C cfg prov it.req),
      events := (readEntity C cfg pool it.req).events } :: observe C cfg canon prov (readEntity C cfg pool it.req).pool its

theorem pick_isErr (canon : Value → Str) (rs : List (Result Value)) (h : ∀ r ∈ rs, r.isErr = true) : (pick canon rs).isErr = true := by
  unfold pick
  cases rs with
  | nil => rfl
  | cons r rs =>
    have := h r (List.mem_cons_self ..)
    cases r with
    | ok v => simp [Result.isErr] at this
    | err k => cases k <;> rfl

theorem pick_ne_panic (canon : Value → Str) (rs : List (Result Value)) : pick canon rs ≠ .panic := by
  unfold pick
  cases rs with
  | nil => simp
  | cons r rs =>
    cases r with
    | ok v => simp [toObs]
    | err k => cases k <;> simp [toObs]

end Entity
end Restful
