/- helper lemmas for C16 (Props/C16.lean) -/
import Restful.Model.Entity
import Restful.Spec.Entity
namespace Restful
namespace Entity
open Str

/-! ### strings.Contains -/

theorem containsSub_append (m p : Str) : containsSub m (m ++ p) = true := by
  unfold containsSub
  cases h : m ++ p with
  | nil =>
    have hm : m = [] := (List.append_eq_nil_iff.mp h).1
    subst hm
    simp [indexSub]
  | cons c cs =>
    unfold indexSub
    have hp : m.isPrefixOf (c :: cs) = true := by
      rw [← h, List.isPrefixOf_iff_prefix]
      exact List.prefix_append m p
    simp [hp]

theorem containsSub_self (m : Str) : containsSub m m = true := by
  have := containsSub_append m []
  simpa using this

theorem containsSub_of_isPrefixOf {m s : Str} (h : m.isPrefixOf s = true) : containsSub m s = true := by
  obtain ⟨t, rfl⟩ := List.isPrefixOf_iff_prefix.mp h
  exact containsSub_append m t

theorem containsSub_nil_right {m : Str} (h : containsSub m [] = true) : m = [] := by
  unfold containsSub indexSub at h
  cases m with
  | nil => rfl
  | cons a as => simp at h

/-! ### strings.Index and the choice of the reverse lookup -/

theorem indexSub_prefix : ∀ {v k : Str} {i : Nat}, indexSub k v = some i → k.isPrefixOf (v.drop i) = true
  | [], k, i, h => by
    unfold indexSub at h
    cases k with
    | nil => simp
    | cons a as => simp at h
  | c :: cs, k, i, h => by
    unfold indexSub at h
    by_cases hp : k.isPrefixOf (c :: cs) = true
    · simp only [hp, if_true, Option.some.injEq] at h
      subst h
      simpa using hp
    · simp only [hp, Bool.false_eq_true, if_false, Option.map_eq_some_iff] at h
      obtain ⟨j, hj, rfl⟩ := h
      simpa using indexSub_prefix hj

theorem indexSub_of_isPrefixOf {k v : Str} (h : k.isPrefixOf v = true) : indexSub k v = some 0 := by
  cases v with
  | nil =>
    cases k with
    | nil => rfl
    | cons a as => simp at h
  | cons c cs => unfold indexSub; simp [h]

theorem eq_of_isPrefixOf_of_length {a b s : Str} (ha : a.isPrefixOf s = true) (hb : b.isPrefixOf s = true)
    (hl : a.length = b.length) : a = b := by
  rw [List.isPrefixOf_iff_prefix] at ha hb
  exact (List.prefix_of_prefix_length_le ha hb (by omega)).eq_of_length hl

/-- `k'` does not beat a key of length `n` whose first occurrence in `v` is at `i` -/
def NotBeaten (v : Str) (i n : Nat) (k' : Str) : Prop :=
  ∀ j, indexSub k' v = some j → i < j ∨ (i = j ∧ k'.length ≤ n)

theorem firstLongest_iff {keys : List Str} {v k : Str} :
    firstLongest keys v k = true ↔ ∃ i, indexSub k v = some i ∧ ∀ k' ∈ keys, NotBeaten v i k.length k' := by
  unfold firstLongest NotBeaten
  cases hi : indexSub k v with
  | none => simp
  | some i =>
    simp only [List.all_eq_true, Option.some.injEq, exists_eq_left']
    constructor
    · intro h k' hk' j hj
      have := h k' hk'
      rw [hj] at this
      simpa using this
    · intro h k' hk'
      cases hj : indexSub k' v with
      | none => rfl
      | some j => simpa using h k' hk' j hj

theorem containsSub_of_firstLongest {keys : List Str} {v k : Str} (h : firstLongest keys v k = true) :
    containsSub k v = true := by
  obtain ⟨i, hi, _⟩ := firstLongest_iff.mp h
  simp [containsSub, hi]

/-- two keys that both qualify are the same string: the choice does not depend on the order of `keys` -/
theorem firstLongest_unique {keys : List Str} {v k k' : Str} (hk : k ∈ keys) (hk' : k' ∈ keys)
    (h : firstLongest keys v k = true) (h' : firstLongest keys v k' = true) : k = k' := by
  obtain ⟨i, hi, hb⟩ := firstLongest_iff.mp h
  obtain ⟨j, hj, hb'⟩ := firstLongest_iff.mp h'
  have h1 := hb k' hk' j hj
  have h2 := hb' k hk i hi
  have hij : i = j := by omega
  subst hij
  exact eq_of_isPrefixOf_of_length (indexSub_prefix hi) (indexSub_prefix hj) (by omega)

/-- as soon as a key occurs in the value, one qualifies -/
theorem firstLongest_exists {keys : List Str} {v : Str} (h : ∃ k ∈ keys, containsSub k v = true) :
    ∃ k ∈ keys, firstLongest keys v k = true := by
  suffices hs : ∀ l : List Str, (∃ k ∈ l, containsSub k v = true) →
      ∃ k ∈ l, ∃ i, indexSub k v = some i ∧ ∀ k' ∈ l, NotBeaten v i k.length k' by
    obtain ⟨k, hk, i, hi, hb⟩ := hs keys h
    exact ⟨k, hk, firstLongest_iff.mpr ⟨i, hi, hb⟩⟩
  intro l
  induction l with
  | nil => rintro ⟨k, hk, _⟩; cases hk
  | cons x xs ih =>
    intro _
    by_cases hxs : ∃ k ∈ xs, containsSub k v = true
    · obtain ⟨b, hbm, i, hi, hb⟩ := ih hxs
      cases hx : indexSub x v with
      | none =>
        refine ⟨b, List.mem_cons_of_mem _ hbm, i, hi, ?_⟩
        intro k' hk' j hj
        rcases List.mem_cons.mp hk' with rfl | hk'
        · rw [hx] at hj; cases hj
        · exact hb k' hk' j hj
      | some jx =>
        by_cases hwin : jx < i ∨ (jx = i ∧ b.length ≤ x.length)
        · refine ⟨x, List.mem_cons_self, jx, hx, ?_⟩
          intro k' hk' j hj
          rcases List.mem_cons.mp hk' with rfl | hk'
          · rw [hx] at hj; cases hj; omega
          · have := hb k' hk' j hj
            omega
        · refine ⟨b, List.mem_cons_of_mem _ hbm, i, hi, ?_⟩
          intro k' hk' j hj
          rcases List.mem_cons.mp hk' with rfl | hk'
          · rw [hx] at hj; cases hj; omega
          · exact hb k' hk' j hj
    · have hx : containsSub x v = true := by
        rename_i h0
        obtain ⟨k, hk, hc⟩ := h0
        rcases List.mem_cons.mp hk with rfl | hk
        · exact hc
        · exact absurd ⟨k, hk, hc⟩ hxs
      unfold containsSub at hx
      obtain ⟨i, hi⟩ := Option.isSome_iff_exists.mp hx
      refine ⟨x, List.mem_cons_self, i, hi, ?_⟩
      intro k' hk' j hj
      rcases List.mem_cons.mp hk' with rfl | hk'
      · rw [hi] at hj; cases hj; omega
      · exact absurd ⟨k', hk', by simp [containsSub, hj]⟩ hxs

/-! ### dedup -/

theorem mem_dedup {k : Kind} : ∀ {l : List Kind}, k ∈ dedup l ↔ k ∈ l
  | [] => by simp [dedup]
  | x :: xs => by
    have ih := @mem_dedup k xs
    simp only [dedup, List.mem_cons, List.mem_filter, ih]
    constructor
    · rintro (h | ⟨h, _⟩)
      · exact Or.inl h
      · exact Or.inr h
    · intro h
      by_cases hk : k = x
      · exact Or.inl hk
      · rcases h with h | h
        · exact Or.inl h
        · exact Or.inr ⟨h, by simpa using hk⟩

theorem dedup_all_eq (k : Kind) : ∀ (l : List Kind), (∀ x ∈ l, x = k) → l ≠ [] → dedup l = [k]
  | [], _, hne => absurd rfl hne
  | x :: xs, hall, _ => by
    have hx : x = k := hall x (List.mem_cons_self ..)
    subst hx
    simp only [dedup, List.cons.injEq, true_and, List.filter_eq_nil_iff]
    intro y hy
    have : y = x := hall y (List.mem_cons_of_mem _ (mem_dedup.mp hy))
    simp [this]

theorem dedup_eq_nil {l : List Kind} (h : l = []) : dedup l = [] := by subst h; rfl

/-! ### the registry is a map -/

theorem key_unique : ∀ {reg : List (Str × Kind)} {a : Str} {x y : Kind},
    (reg.map (·.1)).Nodup → (a, x) ∈ reg → (a, y) ∈ reg → x = y
  | [], _, _, _, _, hx, _ => by cases hx
  | e :: es, a, x, y, hnd, hx, hy => by
    simp only [List.map_cons, List.nodup_cons, List.mem_map, not_exists, not_and] at hnd
    rcases List.mem_cons.mp hx with hx | hx <;> rcases List.mem_cons.mp hy with hy | hy
    · rw [← hx] at hy; cases hy; rfl
    · exact absurd (by rw [← hx]) (hnd.1 (a, y) hy)
    · exact absurd (by rw [← hy]) (hnd.1 (a, x) hx)
    · exact key_unique hnd.2 hx hy

theorem wf_nodup {cfg : Cfg} (h : cfg.wf = true) : (cfg.registry.map (·.1)).Nodup := by
  unfold Cfg.wf at h
  simp only [Bool.and_eq_true, decide_eq_true_eq] at h
  exact h.1

theorem wf_key {cfg : Cfg} (h : cfg.wf = true) {e : Str × Kind} (he : e ∈ cfg.registry) :
    e.1 ≠ [] ∧ ∀ c ∈ e.1, c ≠ ';' ∧ c ≠ ' ' := by
  unfold Cfg.wf at h
  simp only [Bool.and_eq_true, decide_eq_true_eq, List.all_eq_true, Bool.not_eq_true', bne_iff_ne, ne_eq] at h
  have := h.2 e he
  refine ⟨?_, this.2⟩
  intro hn
  rw [hn] at this
  simp at this

/-! ### accessorAt -/

theorem mem_keys {reg : List (Str × Kind)} {e : Str × Kind} (he : e ∈ reg) : e.1 ∈ reg.map (·.1) :=
  List.mem_map.mpr ⟨e, he, rfl⟩

/-- the readers of the keys that qualify: the reader of the one key that does -/
theorem dedup_winners {reg : List (Str × Kind)} (hnd : (reg.map (·.1)).Nodup) {ct m : Str} {k : Kind}
    (hm : (m, k) ∈ reg) (hw : firstLongest (reg.map (·.1)) ct m = true) :
    dedup ((reg.filter (fun e => firstLongest (reg.map (·.1)) ct e.1)).map (·.2)) = [k] := by
  apply dedup_all_eq
  · intro x hx
    simp only [List.mem_map, List.mem_filter] at hx
    obtain ⟨e, ⟨hmem, hc⟩, rfl⟩ := hx
    have : e.1 = m := firstLongest_unique (mem_keys hmem) (mem_keys hm) hc hw
    have he : e = (m, e.2) := by rw [← this]
    rw [he] at hmem
    exact key_unique hnd hmem hm
  · intro hnil
    have : k ∈ (reg.filter (fun e => firstLongest (reg.map (·.1)) ct e.1)).map (·.2) := by
      simp only [List.mem_map, List.mem_filter]
      exact ⟨(m, k), ⟨hm, hw⟩, rfl⟩
    rw [hnil] at this
    cases this

/-- the lookup answers with the reader of the key that `Str.firstLongest` singles out -/
theorem accessorAt_of_firstLongest {reg : List (Str × Kind)} (hnd : (reg.map (·.1)).Nodup) {ct m : Str} {k : Kind}
    (hm : (m, k) ∈ reg) (hw : firstLongest (reg.map (·.1)) ct m = true) : accessorAt reg ct = [k] := by
  unfold accessorAt
  cases hf : reg.find? (fun e => e.1 == ct) with
  | some e =>
    have hmem : e ∈ reg := List.mem_of_find?_eq_some hf
    have hkey : e.1 = ct := by simpa using List.find?_some hf
    -- the value itself is a key: it occurs at 0 and nothing that occurs in it is longer
    obtain ⟨i, hi, hb⟩ := firstLongest_iff.mp hw
    have h0 : indexSub e.1 ct = some 0 := indexSub_of_isPrefixOf (by rw [hkey]; simp)
    have := hb e.1 (mem_keys hmem) 0 h0
    have hi0 : i = 0 := by omega
    subst hi0
    have hpre : m <+: ct := List.isPrefixOf_iff_prefix.mp (by simpa using indexSub_prefix hi)
    have hmc : m = ct := hpre.eq_of_length (by have := hpre.length_le; rw [hkey] at *; omega)
    have he : e = (m, e.2) := by rw [hmc, ← hkey]
    rw [he] at hmem
    simp [key_unique hnd hmem hm]
  | none => exact dedup_winners hnd hm hw

/-- the answer is a function of the value: on a registry with distinct keys the list never has two
    elements, in whatever order the entries stand -/
theorem accessorAt_length_le_one {reg : List (Str × Kind)} (hnd : (reg.map (·.1)).Nodup) (ct : Str) :
    (accessorAt reg ct).length ≤ 1 := by
  by_cases h : ∃ e ∈ reg, firstLongest (reg.map (·.1)) ct e.1 = true
  · obtain ⟨e, he, hw⟩ := h
    rw [accessorAt_of_firstLongest hnd (m := e.1) (k := e.2) he hw]
    simp
  · unfold accessorAt
    cases hf : reg.find? (fun e => e.1 == ct) with
    | some e => simp
    | none =>
      have : reg.filter (fun e => firstLongest (reg.map (·.1)) ct e.1) = [] := by
        rw [List.filter_eq_nil_iff]
        intro e he hw
        exact h ⟨e, he, hw⟩
      simp [this, dedup]

/-- C16_select, the lemma form -/
theorem accessorAt_unique (reg : List (Str × Kind)) (m ct : Str) (k : Kind)
    (hnd : (reg.map (·.1)).Nodup) (hm : (m, k) ∈ reg) (hsub : containsSub m ct = true)
    (hu : ∀ e ∈ reg, containsSub e.1 ct = true → e.1 = m) :
    accessorAt reg ct = [k] := by
  obtain ⟨w, hw, hwin⟩ := firstLongest_exists (keys := reg.map (·.1)) (v := ct) ⟨m, mem_keys hm, hsub⟩
  obtain ⟨e, he, rfl⟩ := List.mem_map.mp hw
  have : e.1 = m := hu e he (containsSub_of_firstLongest hwin)
  rw [this] at hwin
  exact accessorAt_of_firstLongest hnd hm hwin

/-- no key of a well-formed registry is found for an absent Content-Type -/
theorem accessorAt_nil {cfg : Cfg} (h : cfg.wf = true) : accessorAt cfg.registry [] = [] := by
  unfold accessorAt
  cases hf : cfg.registry.find? (fun e => e.1 == []) with
  | some e =>
    have hmem : e ∈ cfg.registry := List.mem_of_find?_eq_some hf
    have hkey : e.1 = [] := by simpa using List.find?_some hf
    exact absurd hkey (wf_key h hmem).1
  | none =>
    simp only
    apply dedup_eq_nil
    simp only [List.map_eq_nil_iff, List.filter_eq_nil_iff]
    intro e hmem hc
    exact (wf_key h hmem).1 (containsSub_nil_right (containsSub_of_firstLongest hc))

open Spec.C16 in
/-- a registered key that is the media type of the value — the value starts with it, and what
    follows starts with `;` or a blank — is THE key the lookup answers with: it occurs at position
    0, and a key that also starts there cannot be longer, it would contain the `;` or the blank -/
theorem firstLongest_of_startsMedia {cfg : Cfg} (h : cfg.wf = true) {x : Str} {e : Str × Kind}
    (hst : startsMedia e.1 x = true) :
    firstLongest (cfg.registry.map (·.1)) x e.1 = true := by
  unfold startsMedia at hst
  simp only [Bool.and_eq_true] at hst
  obtain ⟨hpre, hrest⟩ := hst
  refine firstLongest_iff.mpr ⟨0, indexSub_of_isPrefixOf hpre, ?_⟩
  intro k' hk' j hj
  by_cases hj0 : j = 0
  · right
    refine ⟨hj0.symm, ?_⟩
    subst hj0
    obtain ⟨e', hmem', rfl⟩ := List.mem_map.mp hk'
    have hpre' : e'.1 <+: x := List.isPrefixOf_iff_prefix.mp (by simpa using indexSub_prefix hj)
    obtain ⟨t, ht⟩ := List.isPrefixOf_iff_prefix.mp hpre
    apply Classical.byContradiction
    intro hlt
    have hlen : e.1.length ≤ e'.1.length := by omega
    obtain ⟨u, hu⟩ := List.prefix_of_prefix_length_le ⟨t, ht⟩ hpre' hlen
    have hdrop : x.drop e.1.length = t := by rw [← ht]; simp
    rw [hdrop] at hrest
    have hut : u <+: t := by
      rw [← hu, ← ht] at hpre'
      exact (List.prefix_append_right_inj _).mp hpre'
    cases t with
    | nil =>
      have : u = [] := List.prefix_nil.mp hut
      rw [this] at hu
      simp only [List.append_nil] at hu
      rw [← hu] at hlt
      omega
    | cons c cs =>
      cases u with
      | nil =>
        simp only [List.append_nil] at hu
        rw [← hu] at hlt
        omega
      | cons c' us =>
        have hcc : c' = c := by
          obtain ⟨r, hr⟩ := hut
          simp only [List.cons_append, List.cons.injEq] at hr
          exact hr.1
        have hc : c ∈ e'.1 := by rw [← hu, hcc]; simp
        have := (wf_key h hmem').2 c hc
        simp only [Bool.or_eq_true, beq_iff_eq] at hrest
        rcases hrest with hr | hr
        · exact this.1 hr
        · exact this.2 hr
  · left; omega

open Spec.C16 in
/-- what the Content-Type's media type selects is THE reader the lookup produces -/
theorem accessorAt_of_mediaSelects {cfg : Cfg} (h : cfg.wf = true) {x : Str} {k : Kind}
    (hs : mediaSelects cfg.registry x k = true) : accessorAt cfg.registry x = [k] := by
  unfold mediaSelects at hs
  simp only [List.any_eq_true, Bool.and_eq_true, beq_iff_eq] at hs
  obtain ⟨e, hmem, hk, hst⟩ := hs
  have he : (e.1, k) ∈ cfg.registry := by rw [← hk]; exact hmem
  exact accessorAt_of_firstLongest (wf_nodup h) he (firstLongest_of_startsMedia h hst)

theorem mediaSelects_ne_nil {cfg : Cfg} (h : cfg.wf = true) {x : Str} {k : Kind}
    (hs : Spec.C16.mediaSelects cfg.registry x k = true) : x ≠ [] := by
  intro hx
  have := accessorAt_of_mediaSelects h hs
  rw [hx, accessorAt_nil h] at this
  cases this

open Spec.C16 in
/-- the reader the Content-Type selects is THE reader the lookup produces (until 8b400b4: outside
    class F62 only) -/
theorem accessorsFor_of_selected {cfg : Cfg} (h : cfg.wf = true) {ct : Str} {k : Kind}
    (hs : selected cfg ct k = true) : accessorsFor cfg ct = [k] := by
  unfold selected at hs
  simp only [Bool.or_eq_true, Bool.and_eq_true, List.isEmpty_iff] at hs
  unfold accessorsFor
  rcases hs with hs | ⟨hct, hs⟩
  · rw [accessorAt_of_mediaSelects h hs]
  · subst hct
    rw [accessorAt_nil h]
    have hd : cfg.dflt ≠ [] := mediaSelects_ne_nil h hs
    simp only [List.isEmpty_iff, hd, if_false]
    exact accessorAt_of_mediaSelects h hs

theorem accessorsFor_length_le_one {cfg : Cfg} (hnd : (cfg.registry.map (·.1)).Nodup) (ct : Str) :
    (accessorsFor cfg ct).length ≤ 1 := by
  unfold accessorsFor
  have h1 := accessorAt_length_le_one hnd ct
  cases ha : accessorAt cfg.registry ct with
  | nil =>
    simp only
    split
    · simp
    · exact accessorAt_length_le_one hnd _
  | cons a as => rw [ha] at h1; simpa using h1

/-! ### the result of `ReadEntity` as a function of the request alone -/

/-- `ReadEntity`'s possible results without any pool: the declared coding read by a fresh
    decompressor — by the entity reader first, then on to its end (`drain`; for an undeclared coding
    the stream is the body followed by a clean EOF, on which `drain` changes nothing) -/
def readPure {Value : Type} (C : Codec Value) (cfg : Cfg) (req : RequestIn) : List (Result Value) :=
  match declaredStream C req with
  | none => [.err .badEncoding]
  | some s => (lookupAndRead C cfg req.contentType s).map (drain s)

theorem drain_clean {Value : Type} {s : Stream} (h : s.clean = true) (r : Result Value) : drain s r = r := by
  cases r <;> simp [drain, h]

theorem drain_dirty {Value : Type} {s : Stream} (h : s.clean = false) (r : Result Value) : (drain s r).isErr = true := by
  cases r <;> simp [drain, h, Result.isErr]

theorem drain_err {Value : Type} (s : Stream) (k : ErrKind) : drain s (.err k : Result Value) = .err k := rfl

theorem map_drain_clean {Value : Type} {s : Stream} (h : s.clean = true) (rs : List (Result Value)) : rs.map (drain s) = rs := by
  induction rs with
  | nil => rfl
  | cons r rs ih => simp [drain_clean h, ih]

/-- under the `Reset` law the pool (which object is acquired, what it was used for before) is
    irrelevant to the result -/
theorem readEntity_results {Value : Type} (L : CodecLaws Value) (cfg : Cfg) (pool : Pool) (req : RequestIn) :
    (readEntity L.toCodec cfg pool req).results = readPure L.toCodec cfg req := by
  unfold readEntity readPure declaredStream
  by_cases hg : req.contentEncoding = ENCODING_GZIP
  · simp only [hg, if_true, L.reset_law]
  · simp only [hg, if_false]
    by_cases hd : req.contentEncoding = ENCODING_DEFLATE
    · simp only [hd, if_true]
      cases L.unzl req.body <;> rfl
    · simp only [hd, if_false]
      exact (map_drain_clean rfl _).symm

theorem readEntity_events {Value : Type} (C : Codec Value) (cfg : Cfg) (pool : Pool) (req : RequestIn) :
    (readEntity C cfg pool req).events = [] ∨ (readEntity C cfg pool req).events = [.acquire, .use, .release] := by
  unfold readEntity
  by_cases hg : req.contentEncoding = ENCODING_GZIP
  · simp [hg]
  · simp only [hg, if_false]
    by_cases hd : req.contentEncoding = ENCODING_DEFLATE
    · simp only [hd, if_true]
      cases C.unzl req.body <;> simp
    · simp [hd]

theorem lookupAndRead_length {Value : Type} (C : Codec Value) {cfg : Cfg} (hnd : (cfg.registry.map (·.1)).Nodup)
    (ct : Str) (s : Stream) : (lookupAndRead C cfg ct s).length = 1 := by
  unfold lookupAndRead
  have := accessorsFor_length_le_one hnd ct
  cases ha : accessorsFor cfg ct with
  | nil => rfl
  | cons a as =>
    rw [ha] at this
    simp only [List.length_cons] at this
    have : as = [] := List.length_eq_zero_iff.mp (by omega)
    simp [this]

/-- `ReadEntity` has ONE result on every registry that is a map (distinct keys): any codec, pool,
    request — the Content-Type may name as many registered keys as it likes -/
theorem readEntity_results_length {Value : Type} (C : Codec Value) {cfg : Cfg} (hnd : (cfg.registry.map (·.1)).Nodup)
    (pool : Pool) (req : RequestIn) : (readEntity C cfg pool req).results.length = 1 := by
  unfold readEntity
  by_cases hg : req.contentEncoding = ENCODING_GZIP
  · simp [hg, lookupAndRead_length C hnd]
  · simp only [hg, if_false]
    by_cases hd : req.contentEncoding = ENCODING_DEFLATE
    · simp only [hd, if_true]
      cases C.unzl req.body with
      | none => rfl
      | some s => simp [lookupAndRead_length C hnd]
    · simp [hd, lookupAndRead_length C hnd]

theorem lookupAndRead_ne_nil {Value : Type} (C : Codec Value) (cfg : Cfg) (ct : Str) (s : Stream) :
    lookupAndRead C cfg ct s ≠ [] := by
  unfold lookupAndRead
  cases accessorsFor cfg ct <;> simp

theorem readPure_ne_nil {Value : Type} (C : Codec Value) (cfg : Cfg) (req : RequestIn) : readPure C cfg req ≠ [] := by
  unfold readPure
  cases declaredStream C req with
  | none => simp
  | some s => simpa using lookupAndRead_ne_nil C cfg _ s

theorem nil_ne_gzip : ([] : Str) ≠ ENCODING_GZIP := by decide
theorem nil_ne_deflate : ([] : Str) ≠ ENCODING_DEFLATE := by decide
theorem deflate_ne_gzip : ENCODING_DEFLATE ≠ ENCODING_GZIP := by decide

end Entity

/-! ### a history of the model as the harness would observe it (statement of `C16_spec_partial`) -/

namespace Entity
open Str Spec.C16
variable {Value : Type}

/-- a read of a history: the request, and how its body came about -/
structure Item (Value : Type) where
  req : RequestIn
  kind : Kind
  v : Value
  faithful : Bool

/-- `faithful` means: the body is `kind`'s writer output for `v`, coded as `Content-Encoding` says -/
def Item.sound (C : Codec Value) (it : Item Value) : Prop :=
  it.faithful = true → ∃ pretty c, it.req = requestOf C it.kind pretty it.v it.req.contentType c

def toObs (canon : Value → Str) : Result Value → Obs
  | .ok v => .ok (canon v)
  | .err .noReader400 => .err400
  | .err _ => .err

def pick (canon : Value → Str) (rs : List (Result Value)) : Obs := (rs.head?.map (toObs canon)).getD .err

def factsOf (C : Codec Value) (cfg : Cfg) (req : RequestIn) : Facts :=
  match declaredStream C req with
  | none => ⟨false, false, false⟩
  | some s => ⟨s.clean, docFor C cfg .json s.data, docFor C cfg .xml s.data⟩

/-- what the harness would record if the real code were the model -/
def observe (C : Codec Value) (cfg : Cfg) (canon : Value → Str) (prov : Provider) : Pool → List (Item Value) → List ReadObs
  | _, [] => []
  | pool, it :: its =>
    { ct := it.req.contentType, ce := it.req.contentEncoding, kind := it.kind, written := canon it.v,
      faithful := it.faithful, facts := factsOf C cfg it.req,
      real := pick canon (readEntity C cfg pool it.req).results,
      alone := pick canon (readOne C cfg prov it.req),
      events := (readEntity C cfg pool it.req).events } :: observe C cfg canon prov (readEntity C cfg pool it.req).pool its

theorem pick_isErr (canon : Value → Str) (rs : List (Result Value)) (h : ∀ r ∈ rs, r.isErr = true) : (pick canon rs).isErr = true := by
  unfold pick
  cases rs with
  | nil => rfl
  | cons r rs =>
    have := h r (List.mem_cons_self ..)
    cases r with
    | ok v => simp [Result.isErr] at this
    | err k => cases k <;> rfl

theorem pick_ne_panic (canon : Value → Str) (rs : List (Result Value)) : pick canon rs ≠ .panic := by
  unfold pick
  cases rs with
  | nil => simp
  | cons r rs =>
    cases r with
    | ok v => simp [toObs]
    | err k => cases k <;> simp [toObs]

end Entity
end Restful
