import Restful.Lemmas.TieImp
import Restful.Model.Detect
import Restful.Lemmas.TieImpLoop
import Restful.Lemmas.TieImpTactic
namespace Restful
namespace TieImp
namespace T5
open Imp

set_option linter.unusedSimpArgs false

open Lean.Parser.Tactic in
/-- one iteration of the translated loop body, the cut positions given by the extra facts -/
local macro "imp_step" "[" ts:simpLemma,* "]" : tactic =>
  `(tactic| (
    simp only [String.reduceToList, $ts,*, beq_self_eq_true, bne_self_eq_false, natCast_beq_neg_one,
      natCast_bne_neg_one, sliceTo_append, sliceFrom_append_cons, if_true, Bool.false_eq_true, if_false,
      Option.bind_eq_bind, Option.bind_some, any_loop]
    simp only [starStar, len_beq_zero, List.isEmpty_nil, String.reduceToList]
    repeat' split
    all_goals simp_all [-List.any_eq_true, -List.any_eq_false]
    -- a second round for the conditionals that only surface after the first one
    all_goals (repeat' split)
    all_goals simp_all [-List.any_eq_true, -List.any_eq_false]))

theorem matches_accept (X : ImpGen.Ext) (r : Route) (accept : Str) :
    ImpGen.Route_matchesAccept X accept r.produces = some (matchesAccept r accept) := by
  unfold ImpGen.Route_matchesAccept matchesAccept
  unfold_gen_helpers
  rw [acceptLoop_eq]
  apply fuel_loop_bind (fun mt => mt == starStar || r.produces.any fun p => p == starStar || p == mt)
  case hl => simp [range, len]
  case hk => intro s'; rfl
  case h1 =>
    intro x s hs
    rcases cut_cases ';' s with ⟨l, r, rfl, hl⟩ | hs'
    · imp_step [index_of_not_mem hs, index_of_mem hl, mediaOf_append_cons hl]
    · imp_step [index_of_not_mem hs, index_of_not_mem hs', mediaOf_of_not_mem hs']
  case h2 =>
    intro x s t hs
    rcases cut_cases ';' s with ⟨l, r, rfl, hl⟩ | hs'
    · imp_step [index_of_mem hs, index_of_mem hl, mediaOf_append_cons hl]
    · imp_step [index_of_mem hs, index_of_not_mem hs', mediaOf_of_not_mem hs']

set_option hygiene false in
/-- the fuelled loop of `matchesContentType`, whatever text it starts from -/
local macro "content_loop" r:term : tactic =>
  `(tactic| (
    apply fuel_loop_bind (fun mt => (Route.consumes $r).any fun p => p == starStar || p == mt)
    case hl => simp [range, len]; try omega
    case hk => intro s'; rfl
    case h1 =>
      intro x s hs
      rcases cut_cases ';' s with ⟨l, r, rfl, hl⟩ | hs'
      · imp_step [index_of_not_mem hs, index_of_mem hl, mediaOf_append_cons hl]
      · imp_step [index_of_not_mem hs, index_of_not_mem hs', mediaOf_of_not_mem hs']
    case h2 =>
      intro x s t hs
      rcases cut_cases ';' s with ⟨l, r, rfl, hl⟩ | hs'
      · imp_step [index_of_mem hs, index_of_mem hl, mediaOf_append_cons hl]
      · imp_step [index_of_mem hs, index_of_not_mem hs', mediaOf_of_not_mem hs']))

theorem matches_content_type (X : ImpGen.Ext) (r : Route) (ct : Str) :
    ImpGen.Route_matchesContentType X ct r.consumes r.method r.noct = some (matchesContentType r ct) := by
  unfold ImpGen.Route_matchesContentType matchesContentType
  unfold_gen_helpers
  simp only [consumeLoop_eq, len_beq_zero]
  cases hc : r.consumes.isEmpty
  · cases hm : ct.isEmpty
    · simp only [Bool.false_eq_true, if_false]
      content_loop r
    · simp only [if_true, Bool.false_eq_true, if_false, len_pos_decide, any_loop, List.any_beq,
        Option.bind_eq_bind, Option.bind_some]
      cases hn : r.noct.isEmpty
      · cases ha : r.noct.contains r.method
        · simp only [Bool.not_false, if_true, Bool.false_eq_true, if_false]
          show _ = some (pieceLoop _ _)
          content_loop r
        · rfl
      · -- the default methods: a chain of `==` or a loop over a slice literal — both sides become the chain
        have hi : idempotentMethods.contains r.method =
            (r.method == "GET".toList || (r.method == "HEAD".toList || (r.method == "OPTIONS".toList ||
              (r.method == "DELETE".toList || r.method == "TRACE".toList)))) := by
          simp only [idempotentMethods, List.map_cons, List.map_nil, List.contains_cons, List.contains_nil,
            Bool.or_false, Bool.or_assoc]
        rw [hi]
        try simp only [Bool.not_true, Bool.false_eq_true, if_false, if_true, List.contains_cons, List.contains_nil,
          Bool.or_false, Bool.or_assoc]
        cases hb : (r.method == "GET".toList || (r.method == "HEAD".toList || (r.method == "OPTIONS".toList ||
              (r.method == "DELETE".toList || r.method == "TRACE".toList))))
        · try simp only [Bool.false_eq_true, if_false]
          show _ = some (pieceLoop _ _)
          content_loop r
        · first | rfl | simp only [if_true]; rfl
  · rfl

end T5
end TieImp
end Restful
