import Restful.Lemmas.TieImpVocab
import Restful.Lemmas.TieImpJsrSel
import Restful.Lemmas.JsrMatch
namespace Restful
namespace TieImp
open Imp

namespace T13

/-! ### `mapSet` / `mapMerge` on association lists with distinct keys -/

theorem setParam_eq_mapSet : ∀ (m : Params) (k v : Str), setParam m k v = mapSet m k v
  | [], _, _ => rfl
  | (k', v') :: rest, k, v => by
    unfold setParam mapSet
    rw [setParam_eq_mapSet rest k v]

/-- the keys of a map after a write -/
theorem keys_mapSet (m : List (Str × Str)) (k v : Str) :
    (mapSet m k v).map Prod.fst = if k ∈ m.map Prod.fst then m.map Prod.fst else m.map Prod.fst ++ [k] := by
  induction m with
  | nil => simp [mapSet]
  | cons kv rest ih =>
    obtain ⟨k', v'⟩ := kv
    unfold mapSet
    by_cases h : k' = k
    · subst h; simp
    · have h' : ¬ k = k' := fun e => h e.symm
      simp only [h, if_false, List.map_cons, ih, List.mem_cons, h', false_or]
      split <;> simp

theorem mem_keys_mapSet (m : List (Str × Str)) (k v : Str) : k ∈ (mapSet m k v).map Prod.fst := by
  rw [keys_mapSet]; split <;> simp [*]

theorem mem_keys_mapSet_of (m : List (Str × Str)) (a k v : Str) (h : a ∈ m.map Prod.fst) :
    a ∈ (mapSet m k v).map Prod.fst := by
  rw [keys_mapSet]; split <;> simp [*]

theorem nodup_mapSet (m : List (Str × Str)) (k v : Str) (h : (m.map Prod.fst).Nodup) :
    ((mapSet m k v).map Prod.fst).Nodup := by
  rw [keys_mapSet]
  split
  · exact h
  · rw [List.nodup_append]
    refine ⟨h, by simp, ?_⟩
    intro a ha b hb
    simp at hb; subst hb
    intro e; subst e; contradiction

/-- a second write to the same key replaces the first -/
theorem mapSet_mapSet (p : List (Str × Str)) (k v' v : Str) : mapSet (mapSet p k v') k v = mapSet p k v := by
  induction p with
  | nil => simp [mapSet]
  | cons kv rest ih =>
    obtain ⟨k0, v0⟩ := kv
    by_cases h : k0 = k
    · subst h; simp [mapSet]
    · simp [mapSet, h, ih]

/-- writes to different keys commute when one of the keys is already present -/
theorem mapSet_comm (p : List (Str × Str)) (a x k v : Str) (hk : k ∈ p.map Prod.fst) (hak : a ≠ k) :
    mapSet (mapSet p a x) k v = mapSet (mapSet p k v) a x := by
  induction p with
  | nil => simp at hk
  | cons kv rest ih =>
    obtain ⟨k0, v0⟩ := kv
    by_cases h1 : k0 = a
    · subst h1
      simp [mapSet, hak]
    · by_cases h2 : k0 = k
      · subst h2
        simp [mapSet, h1]
      · have hk' : k ∈ rest.map Prod.fst := by
          simp only [List.map_cons, List.mem_cons] at hk
          rcases hk with e | hk
          · exact absurd e.symm h2
          · exact hk
        simp [mapSet, h1, h2, ih hk']

theorem mapMerge_nil (p : List (Str × Str)) : mapMerge p [] = p := rfl

theorem mapMerge_cons (p : List (Str × Str)) (kv : Str × Str) (rest : List (Str × Str)) :
    mapMerge p (kv :: rest) = mapMerge (mapSet p kv.1 kv.2) rest := rfl

/-- a write to a key that is present and not written by the merge can be done before the merge -/
theorem mapSet_mapMerge (rest : List (Str × Str)) : ∀ (p : List (Str × Str)) (k v : Str),
    k ∈ p.map Prod.fst → k ∉ rest.map Prod.fst → mapSet (mapMerge p rest) k v = mapMerge (mapSet p k v) rest := by
  induction rest with
  | nil => intro p k v _ _; rfl
  | cons ax r ih =>
    intro p k v hk hn
    obtain ⟨a, x⟩ := ax
    simp only [List.map_cons, List.mem_cons, not_or] at hn
    rw [mapMerge_cons, mapMerge_cons, ih _ k v (mem_keys_mapSet_of p k a x hk) hn.2,
      mapSet_comm p a x k v hk (fun e => hn.1 e.symm)]

/-- merging a map after one more write to it = merging it, then the write -/
theorem mapMerge_mapSet (m : List (Str × Str)) : ∀ (ps : List (Str × Str)) (k v : Str),
    (m.map Prod.fst).Nodup → mapMerge ps (mapSet m k v) = mapSet (mapMerge ps m) k v := by
  induction m with
  | nil => intro ps k v _; rfl
  | cons kv rest ih =>
    intro ps k v hnd
    obtain ⟨k', v'⟩ := kv
    simp only [List.map_cons, List.nodup_cons] at hnd
    by_cases h : k' = k
    · subst h
      have : mapSet ((k', v') :: rest) k' v = (k', v) :: rest := by simp [mapSet]
      rw [this, mapMerge_cons, mapMerge_cons,
        mapSet_mapMerge rest _ k' v (mem_keys_mapSet ps k' v') hnd.1, mapSet_mapSet]
    · have : mapSet ((k', v') :: rest) k v = (k', v') :: mapSet rest k v := by simp [mapSet, h]
      rw [this, mapMerge_cons, mapMerge_cons, ih _ k v hnd.2]

/-! ### `bindParams` -/

theorem bindParams_nil_right (ns : List Str) (ps : Params) : Jsr.bindParams ns [] ps = ps := by
  cases ns <;> rfl

theorem bindParams_nil_left (ms : List Str) (ps : Params) : Jsr.bindParams [] ms ps = ps := rfl

theorem bindParams_cons (n : Str) (ns : List Str) (m : Str) (ms : List Str) (ps : Params) :
    Jsr.bindParams (n :: ns) (m :: ms) ps = Jsr.bindParams ns ms (mapSet ps n m) := by
  rw [← setParam_eq_mapSet]; rfl

/-- groups beyond the variable names are not bound -/
theorem bindParams_append (ns : List Str) : ∀ (ms extra : List Str) (ps : Params), ns.length ≤ ms.length →
    Jsr.bindParams ns (ms ++ extra) ps = Jsr.bindParams ns ms ps := by
  induction ns with
  | nil => intro ms extra ps _; rfl
  | cons n ns ih =>
    intro ms extra ps h
    cases ms with
    | nil => simp at h
    | cons m ms =>
      simp only [List.length_cons, Nat.add_le_add_iff_right] at h
      rw [List.cons_append, bindParams_cons, bindParams_cons, ih _ _ _ h]

/-- binding into a separate map and merging it = binding directly -/
theorem mapMerge_bindParams (ns : List Str) : ∀ (ms : List Str) (ps acc : Params), (acc.map Prod.fst).Nodup →
    mapMerge ps (Jsr.bindParams ns ms acc) = Jsr.bindParams ns ms (mapMerge ps acc) := by
  induction ns with
  | nil => intro ms ps acc _; rfl
  | cons n ns ih =>
    intro ms ps acc hnd
    cases ms with
    | nil => rfl
    | cons m ms =>
      rw [bindParams_cons, bindParams_cons, ih _ _ _ (nodup_mapSet acc n m hnd), mapMerge_mapSet acc ps n m hnd]

/-! ### the loop of `extractParams` -/

/-- the loop over the groups `k .. len(matches)-1` (body abstract: "when `VarNames` has an `i`-th name, write
    `VarNames[i-1] ↦ matches[i]`") binds the names from the `k-1`-th on to the groups from the `k`-th on -/
theorem extract_loop (ns M : List Str) (f : Int → List (Str × Str) → Option (ForInStep (List (Str × Str))))
    (hf : ∀ (k : Nat) (acc : List (Str × Str)), 1 ≤ k →
      f (k : Int) acc = if k ≤ ns.length then
          (ns[k - 1]?).bind fun n => (M[k]?).bind fun m => some (ForInStep.yield (mapSet acc n m))
        else some (ForInStep.yield acc)) :
    ∀ (n k : Nat) (acc : List (Str × Str)), 1 ≤ k → k + n = M.length →
      forIn ((List.range' k n).map (fun j : Nat => (j : Int))) acc f
        = some (Jsr.bindParams (ns.drop (k - 1)) (M.drop k) acc) := by
  intro n
  induction n with
  | zero =>
    intro k acc _ hk
    rw [List.drop_eq_nil_of_le (as := M) (i := k) (by omega), bindParams_nil_right]
    rfl
  | succ n ih =>
    intro k acc h1 hk
    rw [List.range'_succ, List.map_cons, List.forIn_cons, hf k acc h1]
    have hM : k < M.length := by omega
    rw [List.drop_eq_getElem_cons hM, List.getElem?_eq_getElem hM]
    by_cases hle : k ≤ ns.length
    · have hN : k - 1 < ns.length := by omega
      rw [if_pos hle, List.getElem?_eq_getElem hN, List.drop_eq_getElem_cons hN, bindParams_cons]
      simp only [Option.bind_some, Option.bind_eq_bind]
      rw [ih (k + 1) _ (by omega) (by omega)]
      rw [show k + 1 - 1 = k - 1 + 1 by omega]
    · rw [if_neg hle]
      simp only [Option.bind_some, Option.bind_eq_bind]
      rw [ih (k + 1) _ (by omega) (by omega), List.drop_eq_nil_of_le (as := ns) (i := k - 1) (by omega),
        List.drop_eq_nil_of_le (as := ns) (i := k + 1 - 1) (by omega)]
      rfl

/-- jsr311.go:58 `extractParams` on a non-nil expression: the names bound to the groups after the whole match -/
theorem extractParams_eq (X : ImpGen.Ext) (pe : ImpGen.GoPathExpression) (M : List Str) :
    ImpGen.RouterJSR311_extractParams X (some pe) M = some (Jsr.bindParams pe.VarNames (M.drop 1) []) := by
  unfold ImpGen.RouterJSR311_extractParams
  simp only [deref, Option.bind_eq_bind, Option.bind_some, Option.pure_def]
  rw [show range 1 (len M) = _ from T2.range_nat_len 1 M]
  by_cases hM : M.length = 0
  · have : M = [] := List.eq_nil_of_length_eq_zero hM
    subst this
    simp [bindParams_nil_right]
  · rw [extract_loop pe.VarNames M _ ?hf (M.length - 1) 1 [] (by omega) (by omega)]
    · rfl
    case hf =>
      intro k acc hk
      have e1 : ((k : Int) - 1) = ((k - 1 : Nat) : Int) := by omega
      rw [e1, T2.at?_nat, T2.at?_nat]
      by_cases hle : k ≤ pe.VarNames.length
      · have : len pe.VarNames ≥ (k : Int) := by unfold len; omega
        simp [this, hle]
      · have : ¬ len pe.VarNames ≥ (k : Int) := by unfold len; omega
        simp [this, hle]

end T13

/-- jsr311.go `RouterJSR311.ExtractParameters` (with `extractParams`): the variables of the service's root
    expression bound to its captures, then those of the route's expression matched against the final group
    of the service's match, written over them; a nil match of the root (index −1) is a panic where the
    model says `none`; a template that does not compile (`pathExpr` nil) likewise.  The Go code merges the
    route's parameters by ranging over a map: translated as `mapMerge` (§5a) -/
theorem jsr_extract_parameters (E : ReEnv) (X : ImpGen.Ext)
    (routesOf : Service → List ImpGen.GoRoute) (gr : ImpGen.GoRoute)
    (s : Service) (r : Route) (hgr : gr.pathExpr = genPE E r.relPath) (urlPath : Str) :
    ImpGen.RouterJSR311_ExtractParameters X (some gr) (some (genSvcJ E routesOf s)) urlPath
      = Jsr.extract E s r urlPath := by
  unfold ImpGen.RouterJSR311_ExtractParameters Jsr.extract
  simp only [deref, Option.bind_eq_bind, Option.bind_some, Option.pure_def]
  rw [show (genSvcJ E routesOf s).pathExpr = genPE E s.rootPath from rfl, hgr]
  unfold genPE
  cases hw : Jsr.compile s.rootPath with
  | none => rfl
  | some wex =>
    simp only [Option.map_some, Option.bind_some, T13.extractParams_eq]
    cases hr : Jsr.compile r.relPath with
    | none =>
      simp only [Option.map_none, Option.bind_none]
    | some rex =>
      simp only [Option.map_some, Option.bind_some, T13.extractParams_eq]
      have hwn : wex.varNames = wex.toks.filterMap Jsr.varNameOf := by
        unfold Jsr.compile at hw
        cases hp : Jsr.parseToks (tokenize s.rootPath) with
        | none => simp [hp] at hw
        | some ts => simp [hp] at hw; subst hw; rfl
      have hrn : rex.varNames = rex.toks.filterMap Jsr.varNameOf := by
        unfold Jsr.compile at hr
        cases hp : Jsr.parseToks (tokenize r.relPath) with
        | none => simp [hp] at hr
        | some ts => simp [hp] at hr; subst hr; rfl
      cases hm : Jsr.matchExpr E wex.toks urlPath with
      | none => simp [reOf, hm, at?]
      | some cf =>
        obtain ⟨wcaps, fin⟩ := cf
        have hwl := Jsr.matchExpr_caps_length E hm
        simp only [reOf, hm, T10.at?_last_match, Option.bind_some, List.drop_succ_cons, List.drop_zero]
        rw [T13.bindParams_append _ _ _ _ (by rw [hwn, hwl]; exact Nat.le_refl _)]
        cases hm2 : Jsr.matchExpr E rex.toks fin with
        | none => simp [T13.bindParams_nil_right, T13.mapMerge_nil]
        | some cf2 =>
          obtain ⟨rcaps, fin2⟩ := cf2
          have hrl := Jsr.matchExpr_caps_length E hm2
          simp only [List.drop_succ_cons, List.drop_zero]
          rw [T13.bindParams_append _ _ _ _ (by rw [hrn, hrl]; exact Nat.le_refl _),
            T13.mapMerge_bindParams _ _ _ _ (by simp), T13.mapMerge_nil]

#print axioms jsr_extract_parameters

end TieImp
end Restful
