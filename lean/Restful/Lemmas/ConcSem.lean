/-
An execution semantics of the generated synchronisation facts: which sequences of lock / access
events (`Lockset.Action`) a function of the fact table can produce.  This is the compilation of
the facts (`Gen.items`: per function a list of acq/rel/deferRel/read/write/call/… in source order)
into the programs of the interleaving semantics of Lemmas/Lockset.lean; Lemmas/ConcSound.lean
proves the analysis of Model/Conc.lean sound w.r.t. it.

What the semantics says (it is a semantics OF THE FACTS, it cannot be better than they are):
* the items of a function execute in source order;
* an access (`read`/`write`) or any other non-lock item may also NOT execute (a branch that is not
  taken) — every sub-selection of the non-lock items is a behaviour;
* a stretch of consecutive non-lock items of the same func-literal depth may be repeated any number
  of times (a loop whose body contains accesses and calls — `for _, ws := range c.webServices {…}`,
  `computeAllowedMethods` calling `ws.Routes()` for every service); the callees may take and give
  back locks, the loop body itself may not;
* a `call fns` is resolved by name: it runs a complete execution of ANY function `g ∈ fns` of the
  table, or of none of them (the callee is a function of that name outside the package, or the
  branch is not taken).  Calls are unfolded to any finite depth (the relation is inductive): a
  recursive call graph (`Container.ServeHTTP` calls `c.ServeMux.ServeHTTP`, which name resolution
  takes for itself) has all its finite unfoldings as behaviours.  The analysis bounds call chains
  by `rounds` and certifies with `Analysis.fixpoint` that more rounds change nothing; the soundness
  proof uses that fixpoint and nothing about `rounds`, so no unfolding depth is left out.  Unfinished
  executions are covered on the other side: `Lockset.Reachable` visits every prefix of every
  thread's program;
* `defer x.Unlock()` registers a release that runs when the enclosing function — or the enclosing
  func literal that runs on the spot (items of greater `depth`) — ends, last registered first;
  the facts do not tell two func literals of the same depth apart when nothing of smaller depth
  lies between them, and neither does the semantics (nor `Conc.annotate`);
* the facts mark a literal that is invoked where it stands (`func(){…}()`) and a deferred one
  (`defer func(){…}()`) alike (`inline`); the semantics — like `Conc.annotate` — runs the body of
  both where it is written.  For a deferred literal that is the wrong place (it runs at function
  exit, before the deferred releases registered earlier and after those registered later).  In the
  current sources the deferred literals are the `closeCompressor` / `recover` ones of
  `Handle`/`ServeHTTP`/`dispatch`/`HandleWithFilter`: registered before any lock is taken, they
  call `CompressingResponseWriter.Close`, which has no lock or tracked-field event;
* a read under `!w.dynamicRoutes` (`nonDynamic`) is not an event of the system C12 quantifies over
  (services with dynamic routes): it counts as `other`;
* an item of a func literal that does NOT run on the spot (`Conc.detached`: it runs at another
  time, in another goroutine) produces nothing here.  The soundness theorem asks (executable check
  `Conc.bracketed`) that no function reachable from the entry points contains such an item, so
  nothing is lost; `Container.Handle`'s literal, which calls `ServeHTTP`, is the reason why
  `Container.ServeHTTP` is an entry point in its own right;
* channel operations, `deferCall`, `assignNil`, `aliasAppend`, and the two kinds the analysis
  reports as `unknowns` (`goStmt`, `unknown`) are `other`: no lock, no tracked field.  For the
  latter two that is only an honest reading when there are none, which is part of what
  `C12_discipline` states (`unknowns = []`).
Not expressible with these facts, hence not in the semantics: a `return` or a panic between an
acquisition and its explicit (non-deferred) release; loops whose body itself acquires or releases
a lock (lexically, or in a func literal of the body).
`C12_panic_safe` is the separate syntactic statement about the former.
-/
import Restful.Model.Conc
import Restful.Lemmas.Lockset
namespace Restful.Conc
open Gen

def toL : Gen.Mode → Lockset.Mode
  | .R => .R
  | .W => .W

/-- the deferred releases run: most recently registered first -/
def relsOf (ds : List Held) : List Lockset.Action := ds.map (fun h => .rel h.lock (toL h.mode))

/-- the deferred releases of the func literals that have ended when `it` executes -/
def exitRels (ds : List Held) (it : Item) : List Lockset.Action :=
  relsOf (ds.filter (fun h => it.depth < h.depth))

/-- the events of an item that executes (a call: see `Exec.call`) -/
def primEv (it : Item) : List Lockset.Action :=
  if detached it then [] else
  match it.op with
  | .acq l m => [.acq l (toL m)]
  | .rel l m => [.rel l (toL m)]
  | .deferRel _ _ => []
  | .read x => if it.nonDynamic then [.other] else [.read x]
  | .write x => [.write x]
  | .call _ => []
  | _ => [.other]

def isLockOp : Op → Bool
  | .acq _ _ => true
  | .rel _ _ => true
  | .deferRel _ _ => true
  | _ => false

/-- `Exec n items ds its tr`: with the deferred releases `ds` pending, the remaining items `its` of
    a function body produce the events `tr` (and the function returns).  `n` = size of the function
    table, `items` = all facts. -/
inductive Exec (n : Nat) (items : List Item) : List Held → List Item → List Lockset.Action → Prop
  /-- end of the function: the pending deferred releases run -/
  | nil (ds : List Held) : Exec n items ds [] (relsOf ds)
  /-- the item executes -/
  | prim (ds : List Held) (it : Item) (rest : List Item) (tr : List Lockset.Action) :
      Exec n items (deferNext ds it) rest tr →
      Exec n items ds (it :: rest) (exitRels ds it ++ (primEv it ++ tr))
  /-- a non-lock item does not execute (branch not taken) -/
  | skip (ds : List Held) (it : Item) (rest : List Item) (tr : List Lockset.Action) :
      isLockOp it.op = false →
      Exec n items (deferNext ds it) rest tr →
      Exec n items ds (it :: rest) (exitRels ds it ++ tr)
  /-- a call runs a complete execution of one of the functions of that name -/
  | call (ds : List Held) (it : Item) (rest : List Item) (fns : List Nat) (g : Nat)
      (tr₁ tr₂ : List Lockset.Action) :
      it.op = .call fns → detached it = false → g ∈ fns → g < n →
      Exec n items [] (itemsOf items g) tr₁ →
      Exec n items (deferNext ds it) rest tr₂ →
      Exec n items ds (it :: rest) (exitRels ds it ++ (tr₁ ++ tr₂))

  /-- a loop: a stretch of non-lock items of one func-literal depth (accesses, calls, …) may run
      once more, any number of times (loops nest: a part of the stretch may be repeated again) -/
  | loop (ds : List Held) (blk rest : List Item) (d : Nat) (tr : List Lockset.Action) :
      (∀ it ∈ blk, isLockOp it.op = false ∧ it.depth = d) →
      Exec n items ds (blk ++ (blk ++ rest)) tr →
      Exec n items ds (blk ++ rest) tr

/-- the complete event traces of function `f` of the fact table -/
def Traces (names : List String) (items : List Item) (f : Nat) (tr : List Lockset.Action) : Prop :=
  Exec names.length items [] (itemsOf items f) tr

/-- the programs a thread of the derived system may run: a complete trace of one of the entry points -/
def EntryProg (names : List String) (items : List Item) (entries : List String) (p : Lockset.Prog) : Prop :=
  ∃ e, e ∈ entries ∧ e ∈ names ∧ Traces names items (fnId names e) p

/-! ### an executable trace generator (for concrete instances)

`genTrace n items fuel f`: the trace of `f` in which every item executes and a call goes to the
FIRST function of its name, unfolded `fuel - 1` calls deep (deeper calls: not taken).
`Conc.genTrace_traces` (Lemmas/ConcSound.lean): for `fuel ≥ 1` it is one of the `Traces` of `f`. -/

/-- the body `its` with callee traces given by `callee` -/
def genBody (n : Nat) (callee : Nat → List Lockset.Action) : List Held → List Item → List Lockset.Action
  | ds, [] => relsOf ds
  | ds, it :: rest =>
    exitRels ds it ++
      ((match it.op with
        | .call (g :: _) => if detached it = false ∧ g < n then callee g else []
        | _ => primEv it) ++ genBody n callee (deferNext ds it) rest)

def genTrace (n : Nat) (items : List Item) : Nat → Nat → List Lockset.Action
  | 0, _ => []
  | fuel + 1, f => genBody n (genTrace n items fuel) [] (itemsOf items f)

end Restful.Conc
