/-
The invariant of every history that does not panic: root paths pairwise different, no ServeMux
pattern registered twice, and the ServeMux holds exactly (up to order) the patterns a new container
registers for the current services (`Spec.regFrom`: every wanted pattern once, for the first service
that wants it), plus the plain handlers registered since the last `Remove`.
-/
import Restful.Lemmas.RegistryReg
namespace Restful
namespace Registry
open List Str

structure Inv (st : State) : Prop where
  rootsNodup : (roots st.services).Nodup
  keys : Mux.Keys st.mux
  flag : st.onRoot = Spec.flagFrom (roots st.services) false
  perm : st.mux.Perm ((Spec.regFrom (roots st.services) [] false).map dispE ++ st.live.map plainE)
  liveNe : ∀ h ∈ st.live, h.1 ≠ []

theorem init_inv (k : RouterKind) : Inv (init k) := by
  refine ⟨?_, ?_, ?_, ?_, ?_⟩ <;> simp [init, roots, Mux.Keys, Spec.flagFrom, Spec.regFrom]

/-! ### roots under the route operations -/

theorem addRoute_root (s : Svc) (r : RouteDecl) : (s.addRoute r).root = s.root := rfl

theorem dropRoute_root (s : Svc) (p m : Str) : (s.dropRoute p m).root = s.root := by
  unfold Svc.dropRoute
  split <;> rfl

theorem roots_onService (root : Str) (f : Svc → Svc) (hf : ∀ s, (f s).root = s.root) (l : List Svc) :
    roots (onService root f l) = roots l := by
  unfold roots onService
  rw [List.map_map]
  apply List.map_congr_left
  intro s _
  simp only [Function.comp]
  split
  · exact hf s
  · rfl

theorem not_mem_roots_of_any {all : List Svc} {s : Svc} (h : (all.any fun each => each.root == s.root) = false) :
    s.root ∉ roots all := by
  intro hm
  unfold roots at hm
  obtain ⟨each, he, hr⟩ := List.mem_map.mp hm
  have : (all.any fun each => each.root == s.root) = true := by
    simp only [List.any_eq_true, beq_iff_eq]
    exact ⟨each, he, hr⟩
  rw [h] at this
  cases this

theorem roots_append (l : List Svc) (s : Svc) : roots (l ++ [s]) = roots l ++ [s.root] := by
  simp [roots]

theorem keys_nodup_iff (t : Mux.Table) : Mux.Keys t ↔ (keys t).Nodup := Iff.rfl

/-! ### every operation keeps the invariant -/

theorem step_add_cases {st st' : State} {s : Svc} (h : step st (.add s) = .ok st') :
    (st.services.any fun each => each.root == s.root) = false ∧
    ((st.onRoot = true ∧ st' = { st with services := st.services ++ [s] }) ∨
     (st.onRoot = false ∧ ∃ t, regList st.mux (Spec.newPatterns (mapped st.services) s.root) = .ok t ∧
        st' = { st with mux := t, onRoot := Spec.isRootPattern s.root, services := st.services ++ [s] })) := by
  simp only [step] at h
  cases hd : (st.services.any fun each => each.root == s.root) with
  | true => simp [hd] at h
  | false =>
    refine ⟨rfl, ?_⟩
    simp only [hd, Bool.false_eq_true, if_false] at h
    cases ho : st.onRoot with
    | true =>
      simp only [ho, if_true, Except.ok.injEq] at h
      exact Or.inl ⟨rfl, h.symm⟩
    | false =>
      simp only [ho, Bool.false_eq_true, if_false] at h
      rw [addHandler_eq st.services s st.mux] at h
      cases hr : regList st.mux (Spec.newPatterns (mapped st.services) s.root) with
      | error e => rw [hr] at h; cases h
      | ok t =>
        rw [hr] at h
        simp only [Except.ok.injEq] at h
        exact Or.inr ⟨rfl, t, rfl, h.symm⟩

theorem step_remove_cases {st st' : State} {root : Str} (h : step st (.remove root) = .ok st') :
    ∃ t, regList [] (Spec.regFrom (roots (st.services.filter fun each => each.root != root)) [] false) = .ok t ∧
      st' = { st with services := st.services.filter (fun each => each.root != root), mux := t,
                      onRoot := Spec.flagFrom (roots (st.services.filter fun each => each.root != root)) false,
                      live := [] } := by
  simp only [step] at h
  rw [rebuild_eq root st.services [] [] false] at h
  have hm : mapped [] = [] := rfl
  rw [hm] at h
  unfold regAll at h
  cases hr : regList [] (Spec.regFrom (roots (st.services.filter fun each => each.root != root)) [] false) with
  | error e => rw [hr] at h; cases h
  | ok t =>
    rw [hr] at h
    simp only [Except.ok.injEq] at h
    exact ⟨t, rfl, h.symm⟩

theorem step_handle_cases {st st' : State} {p : Str} {id : Nat} (h : step st (.handle p id) = .ok st') :
    p ≠ [] ∧ p ∉ keys st.mux ∧
      st' = { st with mux := st.mux ++ [plainE (p, id)], live := st.live ++ [(p, id)], handlers := st.handlers ++ [(p, id)] } := by
  simp only [step] at h
  cases hr : reg st.mux p (.plain id) with
  | error e => rw [hr] at h; cases h
  | ok t =>
    rw [hr] at h
    simp only [Except.ok.injEq] at h
    obtain ⟨h1, h2, rfl⟩ := reg_ok hr
    exact ⟨h1, h2, h.symm⟩

theorem step_inv {st st' : State} {op : Op} (inv : Inv st) (h : step st op = .ok st') : Inv st' := by
  cases op with
  | add s =>
    obtain ⟨hd, hc⟩ := step_add_cases h
    have hnr := not_mem_roots_of_any hd
    have hroots : (roots (st.services ++ [s])).Nodup := by
      rw [roots_append, List.nodup_append]
      refine ⟨inv.rootsNodup, by simp, ?_⟩
      intro a ha b hb
      simp only [List.mem_singleton] at hb
      subst hb
      intro hab; subst hab; exact hnr ha
    rcases hc with ⟨ho, rfl⟩ | ⟨ho, t, hr, rfl⟩
    · have hf : Spec.flagFrom (roots st.services) false = true := by rw [← inv.flag]; exact ho
      refine ⟨hroots, inv.keys, ?_, ?_, inv.liveNe⟩
      · simp only [roots_append, flagFrom_append, hf, if_true]; exact ho
      · simp only [roots_append, regFrom_append, hf, if_true, List.append_nil]; exact inv.perm
    · have hf : Spec.flagFrom (roots st.services) false = false := by rw [← inv.flag]; exact ho
      obtain ⟨rfl, hnd, _⟩ := regList_ok inv.keys hr
      refine ⟨hroots, ?_, ?_, ?_, inv.liveNe⟩
      · show Mux.Keys (st.mux ++ (Spec.newPatterns (mapped st.services) s.root).map dispE)
        rw [keys_nodup_iff, keys_append, keys_dispE]; exact hnd
      · simp only [roots_append, flagFrom_append, hf, Bool.false_eq_true, if_false]
      · simp only [roots_append, regFrom_append, hf, Bool.false_eq_true, if_false, List.map_append, List.nil_append,
          ← mapped_eq]
        refine (inv.perm.append_right _).trans ?_
        rw [List.append_assoc, List.append_assoc]
        exact List.Perm.append_left _ List.perm_append_comm
  | remove root =>
    obtain ⟨t, hr, rfl⟩ := step_remove_cases h
    obtain ⟨rfl, hnd, _⟩ := regList_ok (t := []) (by simp [Mux.Keys]) hr
    refine ⟨?_, ?_, rfl, ?_, ?_⟩
    · exact inv.rootsNodup.sublist ((List.filter_sublist).map _)
    · rw [keys_nodup_iff, keys_append, keys_dispE]; exact hnd
    · simp
    · intro h hh; cases hh
  | route root r =>
    simp only [step, Except.ok.injEq] at h
    subst h
    have hr := roots_onService root (·.addRoute r) (fun s => addRoute_root s r) st.services
    exact ⟨by simpa only [hr] using inv.rootsNodup, inv.keys, by simpa only [hr] using inv.flag,
      by simpa only [hr] using inv.perm, inv.liveNe⟩
  | removeRoute root p m =>
    simp only [step, Except.ok.injEq] at h
    subst h
    have hr := roots_onService root (·.dropRoute p m) (fun s => dropRoute_root s p m) st.services
    exact ⟨by simpa only [hr] using inv.rootsNodup, inv.keys, by simpa only [hr] using inv.flag,
      by simpa only [hr] using inv.perm, inv.liveNe⟩
  | handle p id =>
    obtain ⟨hp, hn, rfl⟩ := step_handle_cases h
    refine ⟨inv.rootsNodup, ?_, inv.flag, ?_, ?_⟩
    · show Mux.Keys (st.mux ++ [plainE (p, id)])
      rw [keys_nodup_iff, keys_append]
      rw [List.nodup_append]
      refine ⟨inv.keys, by simp [keys], ?_⟩
      intro a ha b hb
      simp only [keys, plainE, List.map_cons, List.map_nil, List.mem_singleton] at hb
      subst hb
      intro hab; subst hab; exact hn ha
    · simp only [List.map_append, List.map_cons, List.map_nil]
      rw [← List.append_assoc]
      exact inv.perm.append_right _
    · intro x hx
      rcases List.mem_append.mp hx with hx | hx
      · exact inv.liveNe x hx
      · simp only [List.mem_singleton] at hx; subst hx; exact hp

theorem runFrom_inv {ops : List Op} {st st' : State} (inv : Inv st) (h : runFrom st ops = .ok st') : Inv st' := by
  induction ops generalizing st with
  | nil => simp only [runFrom, Except.ok.injEq] at h; subst h; exact inv
  | cons op ops ih =>
    simp only [runFrom] at h
    cases hs : step st op with
    | error e => rw [hs] at h; cases h
    | ok s1 => rw [hs] at h; exact ih (step_inv inv hs) h

theorem run_inv {k : RouterKind} {ops : List Op} {st : State} (h : run k ops = .ok st) : Inv st :=
  runFrom_inv (init_inv k) h

/-! ### the router never changes -/

theorem step_router {st st' : State} {op : Op} (h : step st op = .ok st') : st'.router = st.router := by
  cases op with
  | add s =>
    obtain ⟨_, hc⟩ := step_add_cases h
    rcases hc with ⟨_, rfl⟩ | ⟨_, t, _, rfl⟩ <;> rfl
  | remove root =>
    simp only [step] at h
    split at h
    · simp only [Except.ok.injEq] at h; subst h; rfl
    · cases h
  | route root r => simp only [step, Except.ok.injEq] at h; subst h; rfl
  | removeRoute root p m => simp only [step, Except.ok.injEq] at h; subst h; rfl
  | handle p id => obtain ⟨_, _, rfl⟩ := step_handle_cases h; rfl

theorem runFrom_router {ops : List Op} {st st' : State} (h : runFrom st ops = .ok st') : st'.router = st.router := by
  induction ops generalizing st with
  | nil => simp only [runFrom, Except.ok.injEq] at h; subst h; rfl
  | cons op ops ih =>
    simp only [runFrom] at h
    cases hs : step st op with
    | error e => rw [hs] at h; cases h
    | ok s1 => rw [hs] at h; rw [ih h, step_router hs]

end Registry
end Restful
