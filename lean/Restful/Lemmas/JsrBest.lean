/-
C02 for RouterJSR311: the model's choice of the WebService IS the independent specification.

  (1) `Sort.head?_insertionSort` — the element that Go's insertion sort leaves at index 0, for any
      strict weak order `less`: the FIRST element of the input that no element of the input is
      `less` than.  (Sortedness + permutation do not say this: they do not tell equal keys apart;
      what is needed in addition is that the sort is stable, which is what the invariant of
      `getLast?_sortRev` carries.)
  (2) `Jsr.detectDispatcher_eq_spec` — `Jsr.detectDispatcher` (candidates, `sort.Sort(sort.Reverse(…))`,
      take `[0]`) equals `Spec.jsrBestService` (the first registered among the matching services with
      a maximal key) on ALL inputs.  No bound on the number of candidates: the model's sort is the
      insertion sort for every length (that Go switches to pdqsort above 12 elements is the
      assumption of DESIGN 4.3, not of this theorem).
  (3) `decide`d instances: three matching roots with three different keys in all six registration
      orders; two matching roots with equal keys in both orders (the first registered one is chosen).
-/
import Restful.Lemmas.OrderJsrPerm
import Restful.Spec.Classify
namespace Restful.Sort
variable {α : Type}

/-- one step of "keep the running best": a later element replaces it only when strictly `less` -/
def keepBest (less : α → α → Bool) (m x : α) : α := if less x m then x else m

theorem insRev_ne_nil (less : α → α → Bool) (x : α) (l : List α) : insRev less x l ≠ [] := by
  cases l with
  | nil => simp [insRev]
  | cons y ys => unfold insRev; split <;> simp

/-- inserting `x` into a sorted (reversed) prefix whose leftmost element is `m`: the new leftmost
    element is `x` iff `x` is strictly `less` than `m` -/
theorem getLast?_insRev (less : α → α → Bool)
    (htrans : ∀ a b c, less b a = false → less c b = false → less c a = false)
    (x : α) : ∀ (acc : List α) (m : α), acc.Pairwise (fun a b => less a b = false) →
      acc.getLast? = some m → (insRev less x acc).getLast? = some (keepBest less m x)
  | [], _, _, hm => by simp at hm
  | [y], m, _, hm => by
    simp only [List.getLast?_singleton, Option.some.injEq] at hm
    subst hm
    unfold insRev keepBest
    cases h : less x y <;> simp [insRev]
  | y :: y' :: ys, m, hs, hm => by
    rw [List.getLast?_cons_cons] at hm
    rw [List.pairwise_cons] at hs
    have hmem : m ∈ y' :: ys := List.mem_of_getLast? hm
    have hym : less y m = false := hs.1 m hmem
    unfold insRev
    cases h : less x y with
    | true =>
      simp only [if_true]
      rw [List.getLast?_cons, getLast?_insRev less htrans x (y' :: ys) m hs.2 hm]
      rfl
    | false =>
      simp only [Bool.false_eq_true, if_false]
      rw [List.getLast?_cons_cons, List.getLast?_cons_cons, hm]
      have hxm : less x m = false := htrans m y x hym h
      simp [keepBest, hxm]

/-- the leftmost element after the whole loop: the running best, folded over the input -/
theorem getLast?_sortRev (less : α → α → Bool)
    (htrans : ∀ a b c, less b a = false → less c b = false → less c a = false)
    (hasym : ∀ a b, less a b = true → less b a = false) :
    ∀ (l acc : List α) (m : α), acc.Pairwise (fun a b => less a b = false) → acc.getLast? = some m →
      (sortRev less acc l).getLast? = some (l.foldl (keepBest less) m)
  | [], acc, m, _, hm => by simpa [sortRev] using hm
  | x :: xs, acc, m, hs, hm => by
    unfold sortRev
    rw [List.foldl_cons]
    exact getLast?_sortRev less htrans hasym xs _ _ (insRev_sorted less htrans hasym x acc hs)
      (getLast?_insRev less htrans x acc m hs hm)

/-- the running best of `pre ++ m :: post ++ l` splits the list: everything before it is strictly
    worse, nothing after it is strictly better -/
theorem foldl_keepBest_split (less : α → α → Bool)
    (htrans : ∀ a b c, less b a = false → less c b = false → less c a = false)
    (hasym : ∀ a b, less a b = true → less b a = false) :
    ∀ (l pre : List α) (m : α) (post : List α),
      (∀ z ∈ pre, less m z = true) → (∀ y ∈ post, less y m = false) →
      ∃ pre' post', pre ++ m :: post ++ l = pre' ++ l.foldl (keepBest less) m :: post' ∧
        (∀ z ∈ pre', less (l.foldl (keepBest less) m) z = true) ∧
        (∀ y ∈ post', less y (l.foldl (keepBest less) m) = false)
  | [], pre, m, post, hpre, hpost => ⟨pre, post, by simp, hpre, hpost⟩
  | x :: xs, pre, m, post, hpre, hpost => by
    rw [List.foldl_cons]
    cases h : less x m with
    | true =>
      have hk : keepBest less m x = x := by simp [keepBest, h]
      rw [hk]
      -- everything so far is strictly worse than `x`
      have hall : ∀ z ∈ pre ++ m :: post, less x z = true := by
        intro z hz
        have hzm : less z m = false ∨ z = m := by
          simp only [List.mem_append, List.mem_cons] at hz
          rcases hz with hz | rfl | hz
          · exact Or.inl (hasym _ _ (hpre z hz))
          · exact Or.inr rfl
          · exact Or.inl (hpost z hz)
        rcases hzm with hzm | rfl
        · cases hxz : less x z with
          | true => rfl
          | false => have := htrans m z x hzm hxz; rw [h] at this; exact absurd this (by simp)
        · exact h
      obtain ⟨pre', post', heq, h1, h2⟩ :=
        foldl_keepBest_split less htrans hasym xs (pre ++ m :: post) x [] hall (by simp)
      exact ⟨pre', post', by rw [← heq]; simp, h1, h2⟩
    | false =>
      have hk : keepBest less m x = m := by simp [keepBest, h]
      rw [hk]
      obtain ⟨pre', post', heq, h1, h2⟩ :=
        foldl_keepBest_split less htrans hasym xs pre m (post ++ [x]) hpre (by
          intro y hy
          simp only [List.mem_append, List.mem_singleton] at hy
          rcases hy with hy | rfl
          · exact hpost y hy
          · exact h)
      exact ⟨pre', post', by rw [← heq]; simp, h1, h2⟩

/-- **What Go's insertion sort leaves at index 0**, for a strict weak order `less` (asymmetric,
    negation transitive): the FIRST element of the input that no element of the input is `less`
    than.  In particular the sort is stable at the top: of several equally ranked best elements the
    earliest one wins. -/
theorem head?_insertionSort (less : α → α → Bool)
    (htrans : ∀ a b c, less b a = false → less c b = false → less c a = false)
    (hasym : ∀ a b, less a b = true → less b a = false) (l : List α) :
    (insertionSort less l).head? = l.find? (fun x => l.all (fun y => !less y x)) := by
  cases l with
  | nil => simp [insertionSort, sortRev]
  | cons a xs =>
    have hirr : ∀ a, less a a = false := fun a => by
      cases h : less a a with
      | false => rfl
      | true => have := hasym _ _ h; rw [h] at this; exact this
    have hhead : (insertionSort less (a :: xs)).head? = some (xs.foldl (keepBest less) a) := by
      unfold insertionSort
      rw [List.head?_reverse]
      show (sortRev less (insRev less a []) xs).getLast? = _
      exact getLast?_sortRev less htrans hasym xs [a] a (by simp) (by simp)
    rw [hhead]
    obtain ⟨pre, post, heq, h1, h2⟩ :=
      foldl_keepBest_split less htrans hasym xs [] a [] (by simp) (by simp)
    have heq' : a :: xs = pre ++ xs.foldl (keepBest less) a :: post := by simpa using heq
    clear heq
    symm
    rw [List.find?_eq_some_iff_append]
    refine ⟨?_, pre, post, heq', ?_⟩
    · rw [heq', List.all_eq_true]
      intro y hy
      simp only [List.mem_append, List.mem_cons] at hy
      rcases hy with hy | rfl | hy
      · simp [hasym _ _ (h1 y hy)]
      · simp [hirr]
      · simp [h2 y hy]
    · intro z hz
      simp only [Bool.not_eq_true', List.all_eq_false]
      refine ⟨xs.foldl (keepBest less) a, ?_, ?_⟩
      · rw [heq']; simp
      · simp [h1 z hz]

end Restful.Sort

namespace Restful
open Str
namespace Jsr
variable (E : ReEnv)

/-- the specification's view of a dispatcher candidate -/
def DispCand.claim (c : DispCand) : Service × Str × Spec.JsrKey :=
  (c.svc, c.finalMatch, ⟨c.matchesCount, c.literalCount, c.nonDefaultCount⟩)

/-- `Less` under `sort.Reverse`: `x` sorts before `y` iff the key of `y` is strictly below that of `x` -/
theorem dispCandLess_eq_keyLt (x y : DispCand) :
    dispCandLess x y = Spec.JsrKey.lt y.claim.2.2 x.claim.2.2 := by
  unfold dispCandLess Spec.JsrKey.lt DispCand.claim
  simp only
  by_cases h1 : y.matchesCount < x.matchesCount
  · simp [h1]
  · by_cases h2 : y.matchesCount > x.matchesCount
    · have : ¬ y.matchesCount = x.matchesCount := by omega
      simp [h1, h2, this]
    · have e1 : y.matchesCount = x.matchesCount := by omega
      by_cases h3 : y.literalCount < x.literalCount
      · simp [e1, h3]
      · by_cases h4 : y.literalCount > x.literalCount
        · have : ¬ y.literalCount = x.literalCount := by omega
          simp [e1, h3, h4, this]
        · have e2 : y.literalCount = x.literalCount := by omega
          simp [e1, e2]

theorem jsrClaim_eq (path : Str) (s : Service) :
    Spec.jsrClaim E path s = (dcandOf E path s).map DispCand.claim := by
  unfold Spec.jsrClaim dcandOf
  cases compile s.rootPath with
  | none => rfl
  | some ex =>
    simp only
    cases matchExpr E ex.toks path with
    | none => rfl
    | some cf => rfl

/-- **RouterJSR311's choice of the WebService is the specified one**: collecting the matching
    roots, sorting them with `sort.Sort(sort.Reverse(…))` and taking the first
    (`Jsr.detectDispatcher`, jsr311.go:214) yields — compile failure, "not found", or the service
    together with the final match — exactly `Spec.jsrBestService`: the first registered among the
    matching services whose key (matchesCount, literalCount, nonDefaultCount) is maximal.
    For all inputs. -/
theorem detectDispatcher_eq_spec (svcs : List Service) (path : Str) :
    detectDispatcher E svcs path = Spec.jsrBestService E svcs path := by
  unfold detectDispatcher Spec.jsrBestService
  rw [dispCandidates_eq]
  have hall : svcs.all (fun s => (compile s.rootPath).isSome) = !svcs.any dfails := by
    rw [List.all_eq_not_any_not]
    congr 1
    unfold dfails
    congr 1
    funext s
    cases compile s.rootPath <;> rfl
  rw [hall]
  cases hany : svcs.any dfails with
  | true => rfl
  | false =>
    simp only [Bool.false_eq_true, if_false, Bool.not_false, if_true, Option.map_some, Option.some.injEq]
    have hclaims : svcs.filterMap (Spec.jsrClaim E path) = (svcs.filterMap (dcandOf E path)).map DispCand.claim := by
      rw [List.map_filterMap]
      congr 1
      funext s
      exact jsrClaim_eq E path s
    rw [hclaims]
    generalize svcs.filterMap (dcandOf E path) = cs
    have hhead := Sort.head?_insertionSort dispCandLess dispCandLess_trans dispCandLess_asymm cs
    rw [List.find?_map, Option.map_map]
    have hp : ((fun c : Service × Str × Spec.JsrKey =>
          (cs.map DispCand.claim).all (fun d => !Spec.JsrKey.lt c.2.2 d.2.2)) ∘ DispCand.claim) =
        (fun x => cs.all (fun y => !dispCandLess y x)) := by
      funext x
      simp only [Function.comp, List.all_map]
      congr 1
      funext y
      simp only [Function.comp]
      rw [dispCandLess_eq_keyLt]
    rw [hp, ← hhead]
    cases Sort.insertionSort dispCandLess cs with
    | nil => rfl
    | cons c _ => rfl

end Jsr

/-! ### the specification on concrete tables (non-vacuity) -/
namespace JsrBestExample

def Eany : ReEnv := ⟨fun _ _ => true, fun _ _ => true⟩

def ws (id : Nat) (root : String) : Service := { id := id, root := root.toList, routes := [] }

/-- three roots that all match `/a/b/c`, with three different keys: `/a` (no variable:
    matchesCount 2, 1 literal character), `/a/b` (matchesCount 2, 2 literal characters), `/{x}/b`
    (one variable: matchesCount 3, 1 literal character, nonDefaultCount 1) -/
def wA : Service := ws 0 "/a"
def wAB : Service := ws 1 "/a/b"
def wXB : Service := ws 2 "/{x}/b"

def path : Str := "/a/b/c".toList

/-- their keys (and final matches): the root with a variable has the greatest primary key
    although it has fewer literal characters than `/a/b` — that is what RouterJSR311 documents -/
theorem three_keys :
    Spec.jsrClaim Eany path wA = some (wA, "/b/c".toList, ⟨2, 1, 0⟩) ∧
    Spec.jsrClaim Eany path wAB = some (wAB, "/c".toList, ⟨2, 2, 0⟩) ∧
    Spec.jsrClaim Eany path wXB = some (wXB, "/c".toList, ⟨3, 1, 1⟩) ∧
    Spec.JsrKey.lt ⟨2, 1, 0⟩ ⟨2, 2, 0⟩ = true ∧ Spec.JsrKey.lt ⟨2, 2, 0⟩ ⟨3, 1, 1⟩ = true := by
  decide

/-- three matching roots of different keys, all six registration orders: the specification picks
    the documented one (`/{x}/b`: most capture groups), with the final match `/c` -/
theorem three_roots :
    Spec.jsrBestService Eany [wA, wAB, wXB] path = some (some (wXB, "/c".toList)) ∧
    Spec.jsrBestService Eany [wA, wXB, wAB] path = some (some (wXB, "/c".toList)) ∧
    Spec.jsrBestService Eany [wAB, wA, wXB] path = some (some (wXB, "/c".toList)) ∧
    Spec.jsrBestService Eany [wAB, wXB, wA] path = some (some (wXB, "/c".toList)) ∧
    Spec.jsrBestService Eany [wXB, wA, wAB] path = some (some (wXB, "/c".toList)) ∧
    Spec.jsrBestService Eany [wXB, wAB, wA] path = some (some (wXB, "/c".toList)) := by
  decide

/-- without the root with a variable, the root with more literal characters (`/a/b`) is chosen; a
    non-matching root is ignored; no matching root: "not found"; a root that does not compile -/
theorem two_roots :
    Spec.jsrBestService Eany [wA, wAB] path = some (some (wAB, "/c".toList)) ∧
    Spec.jsrBestService Eany [wAB, wA] path = some (some (wAB, "/c".toList)) ∧
    Spec.jsrBestService Eany [wAB, ws 3 "/zz", wA] path = some (some (wAB, "/c".toList)) ∧
    Spec.jsrBestService Eany [ws 3 "/zz"] path = some none ∧
    Spec.jsrBestService Eany [wA, ws 4 "/{a:"] path = none := by
  decide

/-- two roots with EQUAL keys that both match `/a/b` (one variable, one literal character each) -/
def wXb : Service := ws 5 "/{x}/b"
def wAy : Service := ws 6 "/a/{y}"

/-- **the tie**: with equal keys the FIRST registered service is chosen, in both orders — by the
    specification and by the model's `sort.Sort(sort.Reverse(…))` alike -/
theorem tie_first :
    Spec.jsrClaim Eany "/a/b".toList wXb = some (wXb, [], ⟨3, 1, 1⟩) ∧
    Spec.jsrClaim Eany "/a/b".toList wAy = some (wAy, [], ⟨3, 1, 1⟩) ∧
    Spec.jsrBestService Eany [wXb, wAy] "/a/b".toList = some (some (wXb, [])) ∧
    Spec.jsrBestService Eany [wAy, wXb] "/a/b".toList = some (some (wAy, [])) ∧
    Jsr.detectDispatcher Eany [wXb, wAy] "/a/b".toList = some (some (wXb, [])) ∧
    Jsr.detectDispatcher Eany [wAy, wXb] "/a/b".toList = some (some (wAy, [])) := by
  decide

/-- the general theorem on these instances -/
example : Jsr.detectDispatcher Eany [wAB, wXB, wA] path = some (some (wXB, "/c".toList)) := by
  rw [Jsr.detectDispatcher_eq_spec]; exact three_roots.2.2.2.1

end JsrBestExample
end Restful
