/-
Helper lemmas for C08 / C09: the loops of cors_filter.go and container.go:426 in closed form.
-/
import Restful.Model.Cors
import Restful.Spec.Cors
namespace Restful
open Str Cors

namespace Cors
variable (lower : Str → Str)

theorem domainLoop_eq_any (lo : Str) (ds : List Str) :
    domainLoop lower lo ds = ds.any (fun d => d == sDotStar || lower d == lo) := by
  induction ds with
  | nil => rfl
  | cons d ds ih =>
    simp only [domainLoop, List.any_cons, ih]
    by_cases h : (d = sDotStar || lower d = lo) = true
    · have h' : (d == sDotStar || lower d == lo) = true := by
        simpa [Bool.or_eq_true, beq_iff_eq] using h
      simp [h, h']
    · have h' : (d == sDotStar || lower d == lo) = false := by
        simpa [Bool.or_eq_true, beq_iff_eq] using h
      simp [h, h']

/-- `isOriginAllowed` is the declarative `Spec.originAllowed` -/
theorem isOriginAllowed_eq (cc : CorsCfg) (o : Str) :
    isOriginAllowed lower cc o = Spec.originAllowed lower cc o := by
  unfold isOriginAllowed Spec.originAllowed
  cases o with
  | nil => simp
  | cons c cs =>
    simp only [List.length_cons, Nat.add_one_ne_zero, if_false, List.isEmpty_cons, Bool.not_false, Bool.true_and]
    rw [domainLoop_eq_any]
    cases hd : cc.allowedDomains with
    | nil => cases cc.pred <;> simp
    | cons d ds =>
      simp only [List.length_cons, Nat.add_one_ne_zero, if_false, List.isEmpty_cons, Bool.false_and, Bool.false_or,
        Bool.not_false, Bool.true_and]
      cases h : (d :: ds).any (fun d => d == sDotStar || lower d == lower (c :: cs)) with
      | true => simp
      | false => cases cc.pred <;> simp

theorem originAllowed_iff (cc : CorsCfg) (o : Str) :
    Spec.originAllowed lower cc o = true ↔ Spec.OriginAllowed lower cc o := by
  unfold Spec.originAllowed Spec.OriginAllowed
  cases o with
  | nil => simp
  | cons c cs =>
    simp only [List.isEmpty_cons, Bool.not_false, Bool.true_and, ne_eq, reduceCtorEq, not_false_eq_true, true_and]
    cases hd : cc.allowedDomains with
    | nil =>
      cases hp : cc.pred with
      | none => simp
      | some f => simp
    | cons d ds =>
      simp only [List.isEmpty_cons, Bool.false_and, Bool.false_or, Bool.not_false, Bool.true_and, Bool.or_eq_true,
        List.any_eq_true, beq_iff_eq, reduceCtorEq, false_and, false_or, not_false_eq_true, true_and]
      constructor
      · rintro (⟨x, hx, h | h⟩ | h)
        · exact Or.inr (Or.inl (h ▸ hx))
        · exact Or.inl ⟨x, hx, h⟩
        · cases hp : cc.pred with
          | none => simp [hp] at h
          | some f => rw [hp] at h; exact Or.inr (Or.inr ⟨f, rfl, h⟩)
      · rintro (⟨x, hx, h⟩ | h | ⟨f, hf, h⟩)
        · exact Or.inl ⟨x, hx, Or.inr h⟩
        · exact Or.inl ⟨sDotStar, h, Or.inl rfl⟩
        · exact Or.inr (by rw [hf]; exact h)

theorem isValidMethod_eq (m : Str) (ms : List Str) :
    isValidAccessControlRequestMethod m ms = ms.contains m := by
  induction ms with
  | nil => rfl
  | cons x xs ih =>
    simp only [isValidAccessControlRequestMethod, List.contains_cons, ih]
    by_cases h : x = m
    · simp [h]
    · have : (m == x) = false := by simpa using fun e => h e.symm
      simp [h, this]

theorem isValidHeader_eq (h : Str) (allowed : List Str) :
    isValidAccessControlRequestHeader lower h allowed = Spec.headerAllowed lower allowed h := by
  unfold Spec.headerAllowed
  induction allowed with
  | nil => rfl
  | cons a as ih =>
    simp only [isValidAccessControlRequestHeader, List.any_cons, ih]
    by_cases h1 : lower a = lower h
    · simp [h1]
    · by_cases h2 : a = sStar
      · simp [h2]
      · simp [h1, h2]

theorem requestHeadersLoop_eq (allowed parts : List Str) :
    requestHeadersLoop lower allowed parts = (parts.map (trim ' ')).all (Spec.headerAllowed lower allowed) := by
  induction parts with
  | nil => rfl
  | cons p ps ih =>
    simp only [requestHeadersLoop, List.map_cons, List.all_cons, ih, isValidHeader_eq]
    cases Spec.headerAllowed lower allowed (trim ' ' p) <;> simp

/-- the header check of `doPreflightRequest` (guard + loop) is "every requested header is allowed" -/
theorem headerCheck_eq (allowed : List Str) (acrh : Str) :
    (acrh.length > 0 && !requestHeadersLoop lower allowed (split ',' acrh)) =
      !(Spec.requestedHeaders acrh).all (Spec.headerAllowed lower allowed) := by
  unfold Spec.requestedHeaders
  cases acrh with
  | nil => simp
  | cons c cs => simp [requestHeadersLoop_eq]

variable (E : ReEnv)

theorem routeMethods_some (rts : List RouteDecl) (final : Str) (a : List Str)
    (h : routeMethods E rts final = some a) :
    a = (rts.filter (fun r => Spec.routeOK E r final)).map (·.method) := by
  induction rts generalizing a with
  | nil => simp [routeMethods] at h; simp [h]
  | cons r rs ih =>
    unfold routeMethods at h
    cases hc : Jsr.compile r.relPath with
    | none => simp [hc] at h
    | some ex =>
      simp only [hc] at h
      cases hm : Jsr.matchExpr E ex.toks final with
      | none =>
        simp only [hm] at h
        have hr : Spec.routeOK E r final = false := by simp [Spec.routeOK, hc, hm]
        simp [hr, ih a h]
      | some cf =>
        obtain ⟨caps, last⟩ := cf
        simp only [hm] at h
        by_cases hl : (last = [] || last = ['/']) = true
        · have hr : Spec.routeOK E r final = true := by
            simp only [Spec.routeOK, hc, hm]
            simpa [Bool.or_eq_true, beq_iff_eq] using hl
          rw [if_pos hl] at h
          cases hrest : routeMethods E rs final with
          | none => simp [hrest] at h
          | some b =>
            simp only [hrest, Option.map_some, Option.some.injEq] at h
            simp [hr, ← h, ih b hrest]
        · have hr : Spec.routeOK E r final = false := by
            simp only [Spec.routeOK, hc, hm]
            simpa [Bool.or_eq_true, beq_iff_eq] using hl
          rw [if_neg hl] at h
          simp [hr, ih a h]

/-- whenever `computeAllowedMethods` answers (every template it looked at compiles), the answer
    is the declarative "methods routable at that URL" -/
theorem computeAllowedMethods_some (svcs : List Service) (path : Str) (ms : List Str)
    (h : computeAllowedMethods E svcs path = some ms) :
    ms = svcs.flatMap (fun s => (s.routes.filter (fun r => Spec.routableAt E s r path)).map (·.method)) := by
  induction svcs generalizing ms with
  | nil => simp [computeAllowedMethods] at h; simp [h]
  | cons s ss ih =>
    unfold computeAllowedMethods at h
    cases hc : Jsr.compile s.rootPath with
    | none => simp [hc] at h
    | some ex =>
      simp only [hc] at h
      cases hm : Jsr.matchExpr E ex.toks path with
      | none =>
        simp only [hm] at h
        have hr : ∀ r, Spec.routableAt E s r path = false := by intro r; simp [Spec.routableAt, hc, hm]
        simp [List.flatMap_cons, hr, ih ms h]
      | some cf =>
        obtain ⟨caps, final⟩ := cf
        simp only [hm] at h
        have hr : ∀ r, Spec.routableAt E s r path = Spec.routeOK E r final := by
          intro r; simp [Spec.routableAt, hc, hm]
        cases ha : routeMethods E s.routes final with
        | none => simp [ha] at h
        | some a =>
          cases hb : computeAllowedMethods E ss path with
          | none => simp [ha, hb] at h
          | some b =>
            simp only [ha, hb, Option.some.injEq] at h
            simp only [List.flatMap_cons, hr]
            rw [← h, routeMethods_some E _ _ a ha, ih b hb]

theorem computeAllowedMethods_eq_methodsAt (tbl : Config) (path : Str) (ms : List Str)
    (h : computeAllowedMethods E tbl.services path = some ms) : ms = Spec.methodsAt E tbl path :=
  computeAllowedMethods_some E tbl.services path ms h

/-- once the origin is allowed, `setOptionsHeaders` adds exactly the actual-request headers -/
theorem setOptionsHeaders_of_allowed (cc : CorsCfg) (rq : CorsReq)
    (h : isOriginAllowed lower cc rq.origin = true) :
    setOptionsHeaders lower cc rq = Spec.actualHeaders cc rq := by
  unfold setOptionsHeaders Spec.actualHeaders checkAndSetExposeHeaders setAllowOriginHeader checkAndSetAllowCredentials
  rw [if_pos h]
  cases he : cc.exposeHeaders <;> simp

/-- `setOptionsHeaders` reads only fields that `doPreflightRequest` does not write -/
theorem setOptionsHeaders_withMethods (cc : CorsCfg) (ms : List Str) (rq : CorsReq) :
    setOptionsHeaders lower { cc with allowedMethods := ms } rq = setOptionsHeaders lower cc rq := rfl

theorem hdr_names_distinct :
    hExposeHeaders ≠ hAllowOrigin ∧ hExposeHeaders ≠ hAllowCredentials ∧ hExposeHeaders ≠ hMaxAge ∧
    hAllowOrigin ≠ hAllowCredentials ∧ hAllowOrigin ≠ hMaxAge ∧ hAllowCredentials ≠ hMaxAge ∧
    hAllowMethods ≠ hAllowHeaders ∧ hAllowMethods ≠ hExposeHeaders ∧ hAllowMethods ≠ hAllowOrigin ∧
    hAllowMethods ≠ hAllowCredentials ∧ hAllowMethods ≠ hMaxAge ∧ hAllowHeaders ≠ hExposeHeaders ∧
    hAllowHeaders ≠ hAllowOrigin ∧ hAllowHeaders ≠ hAllowCredentials ∧ hAllowHeaders ≠ hMaxAge := by
  decide

end Cors
end Restful

/-! ### the three exits of `Filter` -/
namespace Restful
open Str Cors
namespace Cors
variable (lower : Str → Str) (E : ReEnv)

/-- the grant a successful preflight receives -/
def preflightGrant (cc : CorsCfg) (ms : List Str) (rq : CorsReq) : List (Str × Str) :=
  (hAllowMethods, join sComma ms) :: (hAllowHeaders, rq.acrh) :: Spec.actualHeaders cc rq

theorem corsOut_not_allowed (cc : CorsCfg) (tbl : Config) (rq : CorsReq)
    (h : Spec.originAllowed lower cc rq.origin = false) :
    corsOut lower E cc tbl rq = some ⟨[], true⟩ := by
  unfold corsOut
  by_cases h0 : rq.origin.length = 0
  · simp [h0]
  · simp [h0, isOriginAllowed_eq, h]

theorem origin_ne_of_allowed (cc : CorsCfg) (o : Str) (h : Spec.originAllowed lower cc o = true) :
    o.length ≠ 0 := by
  cases o with
  | nil => simp [Spec.originAllowed] at h
  | cons c cs => simp

theorem corsOut_actual (cc : CorsCfg) (tbl : Config) (rq : CorsReq)
    (h : Spec.originAllowed lower cc rq.origin = true) (hp : Spec.isPreflight rq = false) :
    corsOut lower E cc tbl rq = some ⟨Spec.actualHeaders cc rq, true⟩ := by
  have h0 := origin_ne_of_allowed lower cc rq.origin h
  have ha : isOriginAllowed lower cc rq.origin = true := by rw [isOriginAllowed_eq]; exact h
  unfold corsOut doActualRequest
  simp only [h0, if_false, ha, Bool.not_true, Bool.false_eq_true]
  rw [setOptionsHeaders_of_allowed lower cc rq ha]
  by_cases hm : rq.method = sOPTIONS
  · have : rq.acrm = [] := by
      simp only [Spec.isPreflight, hm, beq_self_eq_true, Bool.true_and, Bool.not_eq_false', List.isEmpty_iff] at hp
      exact hp
    simp [hm, this]
  · simp [hm]

/-- the checks of `doPreflightRequest` once the method list is installed -/
theorem preflight_checks (cc' : CorsCfg) (rq : CorsReq) (A : List (Str × Str))
    (hs : setOptionsHeaders lower cc' rq = A) :
    (if (!isValidAccessControlRequestMethod rq.acrm cc'.allowedMethods) = true then some (cc', [])
     else if (decide (rq.acrh.length > 0) && !requestHeadersLoop lower cc'.allowedHeaders (split ',' rq.acrh)) = true then some (cc', [])
     else some (cc', (hAllowMethods, join sComma cc'.allowedMethods) :: (hAllowHeaders, rq.acrh) :: setOptionsHeaders lower cc' rq))
    = some (cc', if Spec.preflightOK lower cc' cc'.allowedMethods rq
                 then (hAllowMethods, join sComma cc'.allowedMethods) :: (hAllowHeaders, rq.acrh) :: A else []) := by
  rw [isValidMethod_eq, headerCheck_eq, hs]
  unfold Spec.preflightOK
  cases h1 : cc'.allowedMethods.contains rq.acrm <;>
    cases h2 : (Spec.requestedHeaders rq.acrh).all (Spec.headerAllowed lower cc'.allowedHeaders) <;> simp

/-- a preflight from an allowed origin: never passed on; granted exactly when the requested method
    is among the allowed methods and every requested header is allowed -/
theorem corsOut_preflight (cc : CorsCfg) (tbl : Config) (rq : CorsReq) (out : Out)
    (h : Spec.originAllowed lower cc rq.origin = true) (hp : Spec.isPreflight rq = true)
    (ho : corsOut lower E cc tbl rq = some out) :
    out.passOn = false ∧
    out.added = (if Spec.preflightOK lower cc (Spec.methodsFor E cc tbl rq.path) rq
                 then preflightGrant cc (Spec.methodsFor E cc tbl rq.path) rq else []) := by
  have h0 := origin_ne_of_allowed lower cc rq.origin h
  have ha : isOriginAllowed lower cc rq.origin = true := by rw [isOriginAllowed_eq]; exact h
  simp only [Spec.isPreflight, Bool.and_eq_true, beq_iff_eq, Bool.not_eq_true', List.isEmpty_eq_false_iff] at hp
  obtain ⟨hm, hacrm⟩ := hp
  unfold corsOut at ho
  simp only [h0, if_false, ha, Bool.not_true, Bool.false_eq_true, hm, ne_eq, not_true_eq_false, hacrm,
    not_false_eq_true, if_true] at ho
  unfold doPreflightRequest at ho
  by_cases hcfg : cc.allowedMethods.length = 0
  · -- computed methods
    have hempty : cc.allowedMethods.isEmpty = true := by
      cases hl : cc.allowedMethods with
      | nil => rfl
      | cons a as => rw [hl] at hcfg; simp at hcfg
    simp only [hcfg, if_true] at ho
    cases hc : computeAllowedMethods E tbl.services rq.path with
    | none => simp [hc] at ho
    | some ms =>
      have hms : Spec.methodsFor E cc tbl rq.path = ms := by
        rw [Spec.methodsFor, if_pos hempty]
        exact (computeAllowedMethods_eq_methodsAt E tbl rq.path ms hc).symm
      simp only [hc, Option.map_some] at ho
      rw [preflight_checks lower { cc with allowedMethods := ms } rq (Spec.actualHeaders cc rq)
        (by rw [setOptionsHeaders_withMethods]; exact setOptionsHeaders_of_allowed lower cc rq ha)] at ho
      simp only [Option.map_some, Option.some.injEq] at ho
      rw [hms, ← ho]
      exact ⟨rfl, rfl⟩
  · -- configured methods
    have hne : cc.allowedMethods.isEmpty = false := by
      cases hl : cc.allowedMethods with
      | nil => rw [hl] at hcfg; simp at hcfg
      | cons a as => rfl
    have hms : Spec.methodsFor E cc tbl rq.path = cc.allowedMethods := by
      simp [Spec.methodsFor, hne]
    simp only [hcfg, if_false] at ho
    rw [preflight_checks lower cc rq (Spec.actualHeaders cc rq) (setOptionsHeaders_of_allowed lower cc rq ha)] at ho
    simp only [Option.map_some, Option.some.injEq] at ho
    rw [hms, ← ho]
    exact ⟨rfl, rfl⟩

end Cors
end Restful

/-! ### the six header names are pairwise different (as `==` facts for `simp`) -/
namespace Restful
open Str Cors
namespace Cors

@[simp] theorem hExposeHeaders_bne_hAllowMethods : (hExposeHeaders == hAllowMethods) = false := by decide
@[simp] theorem hExposeHeaders_bne_hAllowOrigin : (hExposeHeaders == hAllowOrigin) = false := by decide
@[simp] theorem hExposeHeaders_bne_hAllowCredentials : (hExposeHeaders == hAllowCredentials) = false := by decide
@[simp] theorem hExposeHeaders_bne_hAllowHeaders : (hExposeHeaders == hAllowHeaders) = false := by decide
@[simp] theorem hExposeHeaders_bne_hMaxAge : (hExposeHeaders == hMaxAge) = false := by decide
@[simp] theorem hAllowMethods_bne_hExposeHeaders : (hAllowMethods == hExposeHeaders) = false := by decide
@[simp] theorem hAllowMethods_bne_hAllowOrigin : (hAllowMethods == hAllowOrigin) = false := by decide
@[simp] theorem hAllowMethods_bne_hAllowCredentials : (hAllowMethods == hAllowCredentials) = false := by decide
@[simp] theorem hAllowMethods_bne_hAllowHeaders : (hAllowMethods == hAllowHeaders) = false := by decide
@[simp] theorem hAllowMethods_bne_hMaxAge : (hAllowMethods == hMaxAge) = false := by decide
@[simp] theorem hAllowOrigin_bne_hExposeHeaders : (hAllowOrigin == hExposeHeaders) = false := by decide
@[simp] theorem hAllowOrigin_bne_hAllowMethods : (hAllowOrigin == hAllowMethods) = false := by decide
@[simp] theorem hAllowOrigin_bne_hAllowCredentials : (hAllowOrigin == hAllowCredentials) = false := by decide
@[simp] theorem hAllowOrigin_bne_hAllowHeaders : (hAllowOrigin == hAllowHeaders) = false := by decide
@[simp] theorem hAllowOrigin_bne_hMaxAge : (hAllowOrigin == hMaxAge) = false := by decide
@[simp] theorem hAllowCredentials_bne_hExposeHeaders : (hAllowCredentials == hExposeHeaders) = false := by decide
@[simp] theorem hAllowCredentials_bne_hAllowMethods : (hAllowCredentials == hAllowMethods) = false := by decide
@[simp] theorem hAllowCredentials_bne_hAllowOrigin : (hAllowCredentials == hAllowOrigin) = false := by decide
@[simp] theorem hAllowCredentials_bne_hAllowHeaders : (hAllowCredentials == hAllowHeaders) = false := by decide
@[simp] theorem hAllowCredentials_bne_hMaxAge : (hAllowCredentials == hMaxAge) = false := by decide
@[simp] theorem hAllowHeaders_bne_hExposeHeaders : (hAllowHeaders == hExposeHeaders) = false := by decide
@[simp] theorem hAllowHeaders_bne_hAllowMethods : (hAllowHeaders == hAllowMethods) = false := by decide
@[simp] theorem hAllowHeaders_bne_hAllowOrigin : (hAllowHeaders == hAllowOrigin) = false := by decide
@[simp] theorem hAllowHeaders_bne_hAllowCredentials : (hAllowHeaders == hAllowCredentials) = false := by decide
@[simp] theorem hAllowHeaders_bne_hMaxAge : (hAllowHeaders == hMaxAge) = false := by decide
@[simp] theorem hMaxAge_bne_hExposeHeaders : (hMaxAge == hExposeHeaders) = false := by decide
@[simp] theorem hMaxAge_bne_hAllowMethods : (hMaxAge == hAllowMethods) = false := by decide
@[simp] theorem hMaxAge_bne_hAllowOrigin : (hMaxAge == hAllowOrigin) = false := by decide
@[simp] theorem hMaxAge_bne_hAllowCredentials : (hMaxAge == hAllowCredentials) = false := by decide
@[simp] theorem hMaxAge_bne_hAllowHeaders : (hMaxAge == hAllowHeaders) = false := by decide

variable (lower : Str → Str)

/-- in the actual-request headers: the origin once and verbatim, credentials only if configured,
    no Allow-Methods / Allow-Headers, no name twice -/
theorem actualHeaders_facts (cc : CorsCfg) (rq : CorsReq) :
    Spec.valuesOf hAllowOrigin (Spec.actualHeaders cc rq) = [rq.origin] ∧
    (Spec.valuesOf hAllowCredentials (Spec.actualHeaders cc rq) ≠ [] → cc.cookies = true) ∧
    Spec.valuesOf hAllowCredentials (Spec.actualHeaders cc rq) = (if cc.cookies then [sTrue] else []) ∧
    Spec.valuesOf hExposeHeaders (Spec.actualHeaders cc rq) =
      (if cc.exposeHeaders.isEmpty then [] else [join sComma cc.exposeHeaders]) ∧
    Spec.valuesOf hMaxAge (Spec.actualHeaders cc rq) = (if cc.maxAge > 0 then [itoa cc.maxAge] else []) ∧
    Spec.valuesOf hAllowMethods (Spec.actualHeaders cc rq) = [] ∧
    Spec.valuesOf hAllowHeaders (Spec.actualHeaders cc rq) = [] ∧
    ((Spec.actualHeaders cc rq).map (·.1)).Nodup := by
  unfold Spec.actualHeaders Spec.valuesOf
  cases he : cc.exposeHeaders.isEmpty <;> cases hc : cc.cookies <;> by_cases hm : cc.maxAge > 0 <;>
    simp [hm, hdr_names_distinct]

theorem preflightGrant_facts (cc : CorsCfg) (ms : List Str) (rq : CorsReq) :
    Spec.valuesOf hAllowOrigin (preflightGrant cc ms rq) = [rq.origin] ∧
    (Spec.valuesOf hAllowCredentials (preflightGrant cc ms rq) ≠ [] → cc.cookies = true) ∧
    Spec.valuesOf hAllowMethods (preflightGrant cc ms rq) = [join sComma ms] ∧
    Spec.valuesOf hAllowHeaders (preflightGrant cc ms rq) = [rq.acrh] ∧
    ((preflightGrant cc ms rq).map (·.1)).Nodup := by
  unfold preflightGrant Spec.actualHeaders Spec.valuesOf
  cases he : cc.exposeHeaders.isEmpty <;> cases hc : cc.cookies <;> by_cases hm : cc.maxAge > 0 <;>
    simp [hm, hdr_names_distinct]

end Cors
end Restful

/-! ### from the filter's outcome to an observation: what is derived and what only the harness sees

The model of the filter (`corsOut`) says two things: which headers the filter adds with
`resp.AddHeader`, and whether it calls `chain.ProcessFilter`.  It has no status, no body, no event
log and no twin.  The predicates `Spec.c08Holds` / `Spec.c09Holds` speak about an OBSERVATION
(`Spec.CorsObs`): the real exchange compared with the exchange of a twin container without the
filter.  To state them of the model without pretending, the rest of the container is made explicit
as an ARBITRARY function `k : Rest` — everything behind the filter (later filters, the route function
or the router's error answer, net/http), as a function of the header lines already on the response
when control arrives.  Then

* the container with the filter is `withFilter k out` and the twin is `k []`;
* the observation is computed from the two exchanges the way the harness computes it (`observe`);
* what follows from the model ALONE, for every `k`: when the filter passes control on, it has done
  nothing but `AddHeader` (`withFilter_passOn`), and for a request without Origin or from a
  disallowed origin the exchange IS the twin's (`withFilter_absent`, from `corsOut_not_allowed`) —
  so "processed exactly as if the filter were absent" is a theorem there, with no assumption;
* what does NOT follow from the model, and is therefore a HYPOTHESIS of `C08_spec` / `C09_spec` for
  allowed origins only (`RestOK k`): that the code behind the filter leaves the lines the filter
  added alone and is otherwise blind to them (frame), that it logs when it runs, and that it sets
  no CORS header of its own.  These are facts about user code; the harness's generated containers
  have them by construction, and the twin comparison measures their consequences on the real code
  on every request (`missing`, `status`/`twinStatus`, `bodySame`, `logSame`).
-/
namespace Restful
open Str Cors
namespace Cors

/-- one finished exchange as the harness records it -/
structure Exch where
  headers : List (Str × Str)   -- response header lines (canonical name, value)
  status : Nat
  body : Str
  log : List Str               -- the events logged BEHIND the CORS filter (later filters, route function)
  deriving DecidableEq, Repr

/-- everything behind the CORS filter, as a function of the header lines already on the response
    when control arrives (filter.go:17 `FilterChain.ProcessFilter`).  The request is the same in both
    containers, so it is not an argument.  ARBITRARY: user code. -/
abbrev Rest := List (Str × Str) → Exch

/-- the exchange when the filter does not pass control on: nothing behind it runs, the response is
    what the filter added (net/http: status 200, no body).  Neither predicate reads status or body
    of an exchange the filter answered alone. -/
def answered (added : List (Str × Str)) : Exch := ⟨added, 200, [], []⟩

/-- the container WITH the filter, given the filter's outcome -/
def withFilter (k : Rest) (out : Out) : Exch := if out.passOn then k out.added else answered out.added

/-- multiset difference of header lines: `l` minus `m` (real.go `Observe`: `lines(a.header)` against
    `lines(b.header)`) -/
def msub : List (Str × Str) → List (Str × Str) → List (Str × Str)
  | l, [] => l
  | l, b :: bs => msub (l.erase b) bs

/-- harness/internal/cors/real.go `Observe` for a request that reached the filter chain: the real
    exchange against the twin's -/
def observe (real twin : Exch) : Spec.CorsObs :=
  { reached := true
    extra := msub real.headers twin.headers
    missing := (msub twin.headers real.headers).length
    status := real.status, twinStatus := twin.status
    bodySame := real.body == twin.body
    logSame := real.log == twin.log
    later := !real.log.isEmpty }

/-- the observation the model's outcome amounts to, in front of the rest `k` of the container -/
def obsOf (k : Rest) (out : Out) : Spec.CorsObs := observe (withFilter k out) (k [])

/-- the six names the filter writes -/
def isCorsName (n : Str) : Bool :=
  n == hExposeHeaders || n == hAllowMethods || n == hAllowOrigin || n == hAllowCredentials || n == hAllowHeaders || n == hMaxAge

/-- What the twin comparison needs of the code BEHIND the filter.  None of it can come from a model
    of the filter; it is what the harness's generated containers are built to satisfy (a logging
    filter directly behind the CORS filter; route functions that only ADD `X-Handler` lines and never
    look at the response headers) and what every run checks the consequences of on the real code. -/
structure RestOK (k : Rest) : Prop where
  /-- whatever runs behind the filter logs -/
  logs : ∀ hs, (k hs).log ≠ []
  /-- frame: the lines present on arrival are still there at the end, the code behind the filter
      neither reads, overwrites nor deletes them — headers up to order (`http.Header` is a map) -/
  frame : ∀ hs, (k hs).headers.Perm (hs ++ (k []).headers) ∧ (k hs).status = (k []).status ∧
            (k hs).body = (k []).body ∧ (k hs).log = (k []).log
  /-- it sets no CORS header itself (else the multiset difference `extra` would hide a grant) -/
  noCors : ∀ h ∈ (k []).headers, isCorsName h.1 = false

/-- a rest of the container of the shape the harness builds (harness/internal/cors/real.go
    `buildOne`): the logging filter directly behind the CORS filter, then whatever logs `log`, and a
    route function that ADDS one `X-Handler` line and writes a status and a body — blind to what is
    already on the response.  Used to instantiate `RestOK` (non-vacuity). -/
def exRest (id : Str) (status : Nat) (body : Str) (log : List Str) : Rest := fun hs =>
  ⟨hs ++ [("X-Handler".toList, id)], status, body, "post".toList :: log⟩

theorem exRest_ok (id : Str) (status : Nat) (body : Str) (log : List Str) : RestOK (exRest id status body log) where
  logs := by intro hs; simp [exRest]
  frame := by intro hs; simp [exRest]
  noCors := by
    intro h hh
    have e : h = ("X-Handler".toList, id) := by simpa [exRest] using hh
    have n : isCorsName "X-Handler".toList = false := by decide
    rw [e]; exact n

theorem count_msub (x : Str × Str) (l m : List (Str × Str)) :
    (msub l m).count x = l.count x - m.count x := by
  induction m generalizing l with
  | nil => simp [msub]
  | cons b bs ih =>
    rw [msub, ih, List.count_erase, List.count_cons]
    omega

theorem msub_self (l : List (Str × Str)) : msub l l = [] := by
  rw [List.eq_nil_iff_forall_not_mem]
  intro x hx
  have := count_msub x l l
  have hp := List.count_pos_iff.mpr hx
  omega

/-- `l` is `a` on top of `t` ⇒ `l` minus `t` is `a` (up to order) and `t` minus `l` is nothing -/
theorem msub_of_perm_append {l a t : List (Str × Str)} (h : l.Perm (a ++ t)) :
    (msub l t).Perm a ∧ msub t l = [] := by
  constructor
  · rw [List.perm_iff_count]
    intro x
    rw [count_msub, h.count_eq x, List.count_append]
    omega
  · rw [List.eq_nil_iff_forall_not_mem]
    intro x hx
    have hc := count_msub x t l
    rw [h.count_eq x, List.count_append] at hc
    have hp := List.count_pos_iff.mpr hx
    omega

theorem msub_disjoint (l m : List (Str × Str)) (h : ∀ x ∈ m, x ∉ l) : msub l m = l := by
  induction m generalizing l with
  | nil => rfl
  | cons b bs ih =>
    rw [msub, List.erase_of_not_mem (h b (by simp))]
    exact ih l (fun x hx => h x (by simp [hx]))

/-- DERIVED from the model, for every rest of the container: when the filter passes control on, all
    it has done is `AddHeader` — the exchange is the rest of the chain started on a response that
    carries the added lines, and nothing else differs from the twin's start `k []`. -/
theorem withFilter_passOn (k : Rest) (out : Out) (h : out.passOn = true) :
    withFilter k out = k out.added := by
  simp [withFilter, h]

theorem withFilter_answered (k : Rest) (out : Out) (h : out.passOn = false) :
    withFilter k out = answered out.added := by
  simp [withFilter, h]

/-- comparing an exchange with itself: exactly the twin's -/
theorem sameAsTwin_observe_self (e : Exch) : Spec.sameAsTwin (observe e e) = true := by
  simp [Spec.sameAsTwin, Spec.restSame, observe, msub_self]

end Cors
end Restful

namespace Restful
open Str Cors
namespace Cors
variable (lower : Str → Str) (E : ReEnv)

/-- DERIVED from the model, for EVERY rest of the container (no `RestOK`): a request without Origin
    or from a disallowed origin goes through the container with the filter exactly as through the
    twin — the two exchanges are EQUAL, hence the observation is "same as twin" in every field. -/
theorem withFilter_absent (cc : CorsCfg) (tbl : Config) (rq : CorsReq)
    (h : Spec.originAllowed lower cc rq.origin = false) (k : Rest) :
    ∃ out, corsOut lower E cc tbl rq = some out ∧ withFilter k out = k [] ∧
      Spec.sameAsTwin (obsOf k out) = true := by
  refine ⟨⟨[], true⟩, corsOut_not_allowed lower E cc tbl rq h, rfl, ?_⟩
  exact sameAsTwin_observe_self (k [])

/-- what the observation of a passed-on exchange is, given the frame hypotheses -/
theorem observe_passOn (k : Rest) (hk : RestOK k) (added : List (Str × Str)) :
    let o := observe (k added) (k [])
    o.extra.Perm added ∧ Spec.restSame o = true ∧ o.later = true ∧ o.reached = true := by
  obtain ⟨hh, hs, hb, hl⟩ := hk.frame added
  obtain ⟨hp, hm⟩ := msub_of_perm_append hh
  refine ⟨hp, ?_, ?_, rfl⟩
  · simp [Spec.restSame, observe, hm, hs, hb, hl]
  · have := hk.logs added
    cases hlog : (k added).log with
    | nil => exact absurd hlog this
    | cons a as => simp [observe, hlog]

/-- what the observation of an exchange the filter answered alone is, when the twin's response
    carries no CORS header and the filter added only CORS headers -/
theorem observe_answered (k : Rest) (hk : RestOK k) (added : List (Str × Str))
    (hc : ∀ h ∈ added, isCorsName h.1 = true) :
    let o := observe (answered added) (k [])
    o.extra = added ∧ o.later = false ∧ o.reached = true := by
  refine ⟨?_, rfl, rfl⟩
  show msub added (k []).headers = added
  apply msub_disjoint
  intro x hx hx'
  have h1 := hk.noCors x hx
  have h2 := hc x hx'
  rw [h1] at h2
  cases h2

end Cors
end Restful

namespace Restful
open Str Cors
namespace Cors
variable (lower : Str → Str)

/-- `Spec.preflightOK` as a proposition -/
theorem preflightOK_iff (cc : CorsCfg) (ms : List Str) (rq : CorsReq) :
    Spec.preflightOK lower cc ms rq = true ↔
      (rq.acrm ∈ ms ∧ ∀ h ∈ Spec.requestedHeaders rq.acrh, ∃ a ∈ cc.allowedHeaders, lower a = lower h ∨ a = sStar) := by
  simp [Spec.preflightOK, Spec.headerAllowed]

end Cors
end Restful

namespace Restful
open Str Cors
namespace Cors

theorem valuesOf_perm (n : Str) {l l' : List (Str × Str)} (h : l.Perm l') :
    (Spec.valuesOf n l).Perm (Spec.valuesOf n l') :=
  (h.filter _).map _

/-- the filter writes only the six CORS names -/
theorem actualHeaders_corsNames (cc : CorsCfg) (rq : CorsReq) :
    ∀ h ∈ Spec.actualHeaders cc rq, isCorsName h.1 = true := by
  have e : isCorsName hExposeHeaders = true := by decide
  have o : isCorsName hAllowOrigin = true := by decide
  have c : isCorsName hAllowCredentials = true := by decide
  have m : isCorsName hMaxAge = true := by decide
  intro h hh
  unfold Spec.actualHeaders at hh
  simp only [List.mem_append, List.mem_singleton] at hh
  rcases hh with ((hh | hh) | hh) | hh
  · split at hh
    · cases hh
    · simp only [List.mem_singleton] at hh; subst hh; exact e
  · subst hh; exact o
  · split at hh
    · simp only [List.mem_singleton] at hh; subst hh; exact c
    · cases hh
  · split at hh
    · simp only [List.mem_singleton] at hh; subst hh; exact m
    · cases hh

theorem preflightGrant_corsNames (cc : CorsCfg) (ms : List Str) (rq : CorsReq) :
    ∀ h ∈ preflightGrant cc ms rq, isCorsName h.1 = true := by
  intro h hh
  simp only [preflightGrant, List.mem_cons] at hh
  rcases hh with rfl | rfl | hh
  · simp [isCorsName]
  · simp [isCorsName]
  · exact actualHeaders_corsNames cc rq h hh

/-- beyond Allow-Methods and Allow-Headers a grant consists of actual-request headers -/
theorem preflightGrant_only (cc : CorsCfg) (ms : List Str) (rq : CorsReq) :
    (preflightGrant cc ms rq).all
      (fun h => h.1 == hAllowMethods || h.1 == hAllowHeaders || (Spec.actualHeaders cc rq).contains h) = true := by
  rw [List.all_eq_true]
  intro h hh
  simp only [preflightGrant, List.mem_cons] at hh
  rcases hh with rfl | rfl | hh
  · simp
  · simp
  · simp [hh]

end Cors
end Restful
