/-
Helper lemmas for C08 / C09: the loops of cors_filter.go and container.go:426 in closed form.
-/
import Restful.Model.Cors
import Restful.Spec.Cors
namespace Restful
open Str Cors

namespace Cors
variable (lower : Str → Str)

theorem domainLoop_eq_any (lo : Str) (ds : List Str) :
    domainLoop lower lo ds = ds.any (fun d => d == sDotStar || lower d == lo) := by
  induction ds with
  | nil => rfl
  | cons d ds ih =>
    simp only [domainLoop, List.any_cons, ih]
    by_cases h : (d = sDotStar || lower d = lo) = true
    · have h' : (d == sDotStar || lower d == lo) = true := by
        simpa [Bool.or_eq_true, beq_iff_eq] using h
      simp [h, h']
    · have h' : (d == sDotStar || lower d == lo) = false := by
        simpa [Bool.or_eq_true, beq_iff_eq] using h
      simp [h, h']

/-- `isOriginAllowed` is the declarative `Spec.originAllowed` -/
theorem isOriginAllowed_eq (cc : CorsCfg) (o : Str) :
    isOriginAllowed lower cc o = Spec.originAllowed lower cc o := by
  unfold isOriginAllowed Spec.originAllowed
  cases o with
  | nil => simp
  | cons c cs =>
    simp only [List.length_cons, Nat.add_one_ne_zero, if_false, List.isEmpty_cons, Bool.not_false, Bool.true_and]
    rw [domainLoop_eq_any]
    cases hd : cc.allowedDomains with
    | nil => cases cc.pred <;> simp
    | cons d ds =>
      simp only [List.length_cons, Nat.add_one_ne_zero, if_false, List.isEmpty_cons, Bool.false_and, Bool.false_or,
        Bool.not_false, Bool.true_and]
      cases h : (d :: ds).any (fun d => d == sDotStar || lower d == lower (c :: cs)) with
      | true => simp
      | false => cases cc.pred <;> simp

theorem originAllowed_iff (cc : CorsCfg) (o : Str) :
    Spec.originAllowed lower cc o = true ↔ Spec.OriginAllowed lower cc o := by
  unfold Spec.originAllowed Spec.OriginAllowed
  cases o with
  | nil => simp
  | cons c cs =>
    simp only [List.isEmpty_cons, Bool.not_false, Bool.true_and, ne_eq, reduceCtorEq, not_false_eq_true, true_and]
    cases hd : cc.allowedDomains with
    | nil =>
      cases hp : cc.pred with
      | none => simp
      | some f => simp
    | cons d ds =>
      simp only [List.isEmpty_cons, Bool.false_and, Bool.false_or, Bool.not_false, Bool.true_and, Bool.or_eq_true,
        List.any_eq_true, beq_iff_eq, reduceCtorEq, false_and, false_or, not_false_eq_true, true_and]
      constructor
      · rintro (⟨x, hx, h | h⟩ | h)
        · exact Or.inr (Or.inl (h ▸ hx))
        · exact Or.inl ⟨x, hx, h⟩
        · cases hp : cc.pred with
          | none => simp [hp] at h
          | some f => rw [hp] at h; exact Or.inr (Or.inr ⟨f, rfl, h⟩)
      · rintro (⟨x, hx, h⟩ | h | ⟨f, hf, h⟩)
        · exact Or.inl ⟨x, hx, Or.inr h⟩
        · exact Or.inl ⟨sDotStar, h, Or.inl rfl⟩
        · exact Or.inr (by rw [hf]; exact h)

theorem isValidMethod_eq (m : Str) (ms : List Str) :
    isValidAccessControlRequestMethod m ms = ms.contains m := by
  induction ms with
  | nil => rfl
  | cons x xs ih =>
    simp only [isValidAccessControlRequestMethod, List.contains_cons, ih]
    by_cases h : x = m
    · simp [h]
    · have : (m == x) = false := by simpa using fun e => h e.symm
      simp [h, this]

theorem isValidHeader_eq (h : Str) (allowed : List Str) :
    isValidAccessControlRequestHeader lower h allowed = Spec.headerAllowed lower allowed h := by
  unfold Spec.headerAllowed
  induction allowed with
  | nil => rfl
  | cons a as ih =>
    simp only [isValidAccessControlRequestHeader, List.any_cons, ih]
    by_cases h1 : lower a = lower h
    · simp [h1]
    · by_cases h2 : a = sStar
      · simp [h2]
      · simp [h1, h2]

theorem requestHeadersLoop_eq (allowed parts : List Str) :
    requestHeadersLoop lower allowed parts = (parts.map (trim ' ')).all (Spec.headerAllowed lower allowed) := by
  induction parts with
  | nil => rfl
  | cons p ps ih =>
    simp only [requestHeadersLoop, List.map_cons, List.all_cons, ih, isValidHeader_eq]
    cases Spec.headerAllowed lower allowed (trim ' ' p) <;> simp

/-- the header check of `doPreflightRequest` (guard + loop) is "every requested header is allowed" -/
theorem headerCheck_eq (allowed : List Str) (acrh : Str) :
    (acrh.length > 0 && !requestHeadersLoop lower allowed (split ',' acrh)) =
      !(Spec.requestedHeaders acrh).all (Spec.headerAllowed lower allowed) := by
  unfold Spec.requestedHeaders
  cases acrh with
  | nil => simp
  | cons c cs => simp [requestHeadersLoop_eq]

variable (E : ReEnv)

theorem routeMethods_some (rts : List RouteDecl) (final : Str) (a : List Str)
    (h : routeMethods E rts final = some a) :
    a = (rts.filter (fun r => Spec.routeOK E r final)).map (·.method) := by
  induction rts generalizing a with
  | nil => simp [routeMethods] at h; simp [h]
  | cons r rs ih =>
    unfold routeMethods at h
    cases hc : Jsr.compile r.relPath with
    | none => simp [hc] at h
    | some ex =>
      simp only [hc] at h
      cases hm : Jsr.matchExpr E ex.toks final with
      | none =>
        simp only [hm] at h
        have hr : Spec.routeOK E r final = false := by simp [Spec.routeOK, hc, hm]
        simp [hr, ih a h]
      | some cf =>
        obtain ⟨caps, last⟩ := cf
        simp only [hm] at h
        by_cases hl : (last = [] || last = ['/']) = true
        · have hr : Spec.routeOK E r final = true := by
            simp only [Spec.routeOK, hc, hm]
            simpa [Bool.or_eq_true, beq_iff_eq] using hl
          rw [if_pos hl] at h
          cases hrest : routeMethods E rs final with
          | none => simp [hrest] at h
          | some b =>
            simp only [hrest, Option.map_some, Option.some.injEq] at h
            simp [hr, ← h, ih b hrest]
        · have hr : Spec.routeOK E r final = false := by
            simp only [Spec.routeOK, hc, hm]
            simpa [Bool.or_eq_true, beq_iff_eq] using hl
          rw [if_neg hl] at h
          simp [hr, ih a h]

/-- whenever `computeAllowedMethods` answers (every template it looked at compiles), the answer
    is the declarative "methods routable at that URL" -/
theorem computeAllowedMethods_some (svcs : List Service) (path : Str) (ms : List Str)
    (h : computeAllowedMethods E svcs path = some ms) :
    ms = svcs.flatMap (fun s => (s.routes.filter (fun r => Spec.routableAt E s r path)).map (·.method)) := by
  induction svcs generalizing ms with
  | nil => simp [computeAllowedMethods] at h; simp [h]
  | cons s ss ih =>
    unfold computeAllowedMethods at h
    cases hc : Jsr.compile s.rootPath with
    | none => simp [hc] at h
    | some ex =>
      simp only [hc] at h
      cases hm : Jsr.matchExpr E ex.toks path with
      | none =>
        simp only [hm] at h
        have hr : ∀ r, Spec.routableAt E s r path = false := by intro r; simp [Spec.routableAt, hc, hm]
        simp [List.flatMap_cons, hr, ih ms h]
      | some cf =>
        obtain ⟨caps, final⟩ := cf
        simp only [hm] at h
        have hr : ∀ r, Spec.routableAt E s r path = Spec.routeOK E r final := by
          intro r; simp [Spec.routableAt, hc, hm]
        cases ha : routeMethods E s.routes final with
        | none => simp [ha] at h
        | some a =>
          cases hb : computeAllowedMethods E ss path with
          | none => simp [ha, hb] at h
          | some b =>
            simp only [ha, hb, Option.some.injEq] at h
            simp only [List.flatMap_cons, hr]
            rw [← h, routeMethods_some E _ _ a ha, ih b hb]

theorem computeAllowedMethods_eq_methodsAt (tbl : Config) (path : Str) (ms : List Str)
    (h : computeAllowedMethods E tbl.services path = some ms) : ms = Spec.methodsAt E tbl path :=
  computeAllowedMethods_some E tbl.services path ms h

/-- once the origin is allowed, `setOptionsHeaders` adds exactly the actual-request headers -/
theorem setOptionsHeaders_of_allowed (cc : CorsCfg) (rq : CorsReq)
    (h : isOriginAllowed lower cc rq.origin = true) :
    setOptionsHeaders lower cc rq = Spec.actualHeaders cc rq := by
  unfold setOptionsHeaders Spec.actualHeaders checkAndSetExposeHeaders setAllowOriginHeader checkAndSetAllowCredentials
  rw [if_pos h]
  cases he : cc.exposeHeaders <;> simp

/-- `setOptionsHeaders` reads only fields that `doPreflightRequest` does not write -/
theorem setOptionsHeaders_withMethods (cc : CorsCfg) (ms : List Str) (rq : CorsReq) :
    setOptionsHeaders lower { cc with allowedMethods := ms } rq = setOptionsHeaders lower cc rq := rfl

theorem hdr_names_distinct :
    hExposeHeaders ≠ hAllowOrigin ∧ hExposeHeaders ≠ hAllowCredentials ∧ hExposeHeaders ≠ hMaxAge ∧
    hAllowOrigin ≠ hAllowCredentials ∧ hAllowOrigin ≠ hMaxAge ∧ hAllowCredentials ≠ hMaxAge ∧
    hAllowMethods ≠ hAllowHeaders ∧ hAllowMethods ≠ hExposeHeaders ∧ hAllowMethods ≠ hAllowOrigin ∧
    hAllowMethods ≠ hAllowCredentials ∧ hAllowMethods ≠ hMaxAge ∧ hAllowHeaders ≠ hExposeHeaders ∧
    hAllowHeaders ≠ hAllowOrigin ∧ hAllowHeaders ≠ hAllowCredentials ∧ hAllowHeaders ≠ hMaxAge := by
  decide

end Cors
end Restful

/-! ### the three exits of `Filter` -/
namespace Restful
open Str Cors
namespace Cors
variable (lower : Str → Str) (E : ReEnv)

/-- the grant a successful preflight receives -/
def preflightGrant (cc : CorsCfg) (ms : List Str) (rq : CorsReq) : List (Str × Str) :=
  (hAllowMethods, join sComma ms) :: (hAllowHeaders, rq.acrh) :: Spec.actualHeaders cc rq

theorem corsOut_not_allowed (cc : CorsCfg) (tbl : Config) (rq : CorsReq)
    (h : Spec.originAllowed lower cc rq.origin = false) :
    corsOut lower E cc tbl rq = some ⟨[], true⟩ := by
  unfold corsOut
  by_cases h0 : rq.origin.length = 0
  · simp [h0]
  · simp [h0, isOriginAllowed_eq, h]

theorem origin_ne_of_allowed (cc : CorsCfg) (o : Str) (h : Spec.originAllowed lower cc o = true) :
    o.length ≠ 0 := by
  cases o with
  | nil => simp [Spec.originAllowed] at h
  | cons c cs => simp

theorem corsOut_actual (cc : CorsCfg) (tbl : Config) (rq : CorsReq)
    (h : Spec.originAllowed lower cc rq.origin = true) (hp : Spec.isPreflight rq = false) :
    corsOut lower E cc tbl rq = some ⟨Spec.actualHeaders cc rq, true⟩ := by
  have h0 := origin_ne_of_allowed lower cc rq.origin h
  have ha : isOriginAllowed lower cc rq.origin = true := by rw [isOriginAllowed_eq]; exact h
  unfold corsOut doActualRequest
  simp only [h0, if_false, ha, Bool.not_true, Bool.false_eq_true]
  rw [setOptionsHeaders_of_allowed lower cc rq ha]
  by_cases hm : rq.method = sOPTIONS
  · have : rq.acrm = [] := by
      simp only [Spec.isPreflight, hm, beq_self_eq_true, Bool.true_and, Bool.not_eq_false', List.isEmpty_iff] at hp
      exact hp
    simp [hm, this]
  · simp [hm]

/-- the checks of `doPreflightRequest` once the method list is installed -/
theorem preflight_checks (cc' : CorsCfg) (rq : CorsReq) (A : List (Str × Str))
    (hs : setOptionsHeaders lower cc' rq = A) :
    (if (!isValidAccessControlRequestMethod rq.acrm cc'.allowedMethods) = true then some (cc', [])
     else if (decide (rq.acrh.length > 0) && !requestHeadersLoop lower cc'.allowedHeaders (split ',' rq.acrh)) = true then some (cc', [])
     else some (cc', (hAllowMethods, join sComma cc'.allowedMethods) :: (hAllowHeaders, rq.acrh) :: setOptionsHeaders lower cc' rq))
    = some (cc', if Spec.preflightOK lower cc' cc'.allowedMethods rq
                 then (hAllowMethods, join sComma cc'.allowedMethods) :: (hAllowHeaders, rq.acrh) :: A else []) := by
  rw [isValidMethod_eq, headerCheck_eq, hs]
  unfold Spec.preflightOK
  cases h1 : cc'.allowedMethods.contains rq.acrm <;>
    cases h2 : (Spec.requestedHeaders rq.acrh).all (Spec.headerAllowed lower cc'.allowedHeaders) <;> simp

/-- a preflight from an allowed origin: never passed on; granted exactly when the requested method
    is among the allowed methods and every requested header is allowed -/
theorem corsOut_preflight (cc : CorsCfg) (tbl : Config) (rq : CorsReq) (out : Out)
    (h : Spec.originAllowed lower cc rq.origin = true) (hp : Spec.isPreflight rq = true)
    (ho : corsOut lower E cc tbl rq = some out) :
    out.passOn = false ∧
    out.added = (if Spec.preflightOK lower cc (Spec.methodsFor E cc tbl rq.path) rq
                 then preflightGrant cc (Spec.methodsFor E cc tbl rq.path) rq else []) := by
  have h0 := origin_ne_of_allowed lower cc rq.origin h
  have ha : isOriginAllowed lower cc rq.origin = true := by rw [isOriginAllowed_eq]; exact h
  simp only [Spec.isPreflight, Bool.and_eq_true, beq_iff_eq, Bool.not_eq_true', List.isEmpty_eq_false_iff] at hp
  obtain ⟨hm, hacrm⟩ := hp
  unfold corsOut at ho
  simp only [h0, if_false, ha, Bool.not_true, Bool.false_eq_true, hm, ne_eq, not_true_eq_false, hacrm,
    not_false_eq_true, if_true] at ho
  unfold doPreflightRequest at ho
  by_cases hcfg : cc.allowedMethods.length = 0
  · -- computed methods
    have hempty : cc.allowedMethods.isEmpty = true := by
      cases hl : cc.allowedMethods with
      | nil => rfl
      | cons a as => rw [hl] at hcfg; simp at hcfg
    simp only [hcfg, if_true] at ho
    cases hc : computeAllowedMethods E tbl.services rq.path with
    | none => simp [hc] at ho
    | some ms =>
      have hms : Spec.methodsFor E cc tbl rq.path = ms := by
        rw [Spec.methodsFor, if_pos hempty]
        exact (computeAllowedMethods_eq_methodsAt E tbl rq.path ms hc).symm
      simp only [hc, Option.map_some] at ho
      rw [preflight_checks lower { cc with allowedMethods := ms } rq (Spec.actualHeaders cc rq)
        (by rw [setOptionsHeaders_withMethods]; exact setOptionsHeaders_of_allowed lower cc rq ha)] at ho
      simp only [Option.map_some, Option.some.injEq] at ho
      rw [hms, ← ho]
      exact ⟨rfl, rfl⟩
  · -- configured methods
    have hne : cc.allowedMethods.isEmpty = false := by
      cases hl : cc.allowedMethods with
      | nil => rw [hl] at hcfg; simp at hcfg
      | cons a as => rfl
    have hms : Spec.methodsFor E cc tbl rq.path = cc.allowedMethods := by
      simp [Spec.methodsFor, hne]
    simp only [hcfg, if_false] at ho
    rw [preflight_checks lower cc rq (Spec.actualHeaders cc rq) (setOptionsHeaders_of_allowed lower cc rq ha)] at ho
    simp only [Option.map_some, Option.some.injEq] at ho
    rw [hms, ← ho]
    exact ⟨rfl, rfl⟩

end Cors
end Restful

/-! ### the six header names are pairwise different (as `==` facts for `simp`) -/
namespace Restful
open Str Cors
namespace Cors

@[simp] theorem hExposeHeaders_bne_hAllowMethods : (hExposeHeaders == hAllowMethods) = false := by decide
@[simp] theorem hExposeHeaders_bne_hAllowOrigin : (hExposeHeaders == hAllowOrigin) = false := by decide
@[simp] theorem hExposeHeaders_bne_hAllowCredentials : (hExposeHeaders == hAllowCredentials) = false := by decide
@[simp] theorem hExposeHeaders_bne_hAllowHeaders : (hExposeHeaders == hAllowHeaders) = false := by decide
@[simp] theorem hExposeHeaders_bne_hMaxAge : (hExposeHeaders == hMaxAge) = false := by decide
@[simp] theorem hAllowMethods_bne_hExposeHeaders : (hAllowMethods == hExposeHeaders) = false := by decide
@[simp] theorem hAllowMethods_bne_hAllowOrigin : (hAllowMethods == hAllowOrigin) = false := by decide
@[simp] theorem hAllowMethods_bne_hAllowCredentials : (hAllowMethods == hAllowCredentials) = false := by decide
@[simp] theorem hAllowMethods_bne_hAllowHeaders : (hAllowMethods == hAllowHeaders) = false := by decide
@[simp] theorem hAllowMethods_bne_hMaxAge : (hAllowMethods == hMaxAge) = false := by decide
@[simp] theorem hAllowOrigin_bne_hExposeHeaders : (hAllowOrigin == hExposeHeaders) = false := by decide
@[simp] theorem hAllowOrigin_bne_hAllowMethods : (hAllowOrigin == hAllowMethods) = false := by decide
@[simp] theorem hAllowOrigin_bne_hAllowCredentials : (hAllowOrigin == hAllowCredentials) = false := by decide
@[simp] theorem hAllowOrigin_bne_hAllowHeaders : (hAllowOrigin == hAllowHeaders) = false := by decide
@[simp] theorem hAllowOrigin_bne_hMaxAge : (hAllowOrigin == hMaxAge) = false := by decide
@[simp] theorem hAllowCredentials_bne_hExposeHeaders : (hAllowCredentials == hExposeHeaders) = false := by decide
@[simp] theorem hAllowCredentials_bne_hAllowMethods : (hAllowCredentials == hAllowMethods) = false := by decide
@[simp] theorem hAllowCredentials_bne_hAllowOrigin : (hAllowCredentials == hAllowOrigin) = false := by decide
@[simp] theorem hAllowCredentials_bne_hAllowHeaders : (hAllowCredentials == hAllowHeaders) = false := by decide
@[simp] theorem hAllowCredentials_bne_hMaxAge : (hAllowCredentials == hMaxAge) = false := by decide
@[simp] theorem hAllowHeaders_bne_hExposeHeaders : (hAllowHeaders == hExposeHeaders) = false := by decide
@[simp] theorem hAllowHeaders_bne_hAllowMethods : (hAllowHeaders == hAllowMethods) = false := by decide
@[simp] theorem hAllowHeaders_bne_hAllowOrigin : (hAllowHeaders == hAllowOrigin) = false := by decide
@[simp] theorem hAllowHeaders_bne_hAllowCredentials : (hAllowHeaders == hAllowCredentials) = false := by decide
@[simp] theorem hAllowHeaders_bne_hMaxAge : (hAllowHeaders == hMaxAge) = false := by decide
@[simp] theorem hMaxAge_bne_hExposeHeaders : (hMaxAge == hExposeHeaders) = false := by decide
@[simp] theorem hMaxAge_bne_hAllowMethods : (hMaxAge == hAllowMethods) = false := by decide
@[simp] theorem hMaxAge_bne_hAllowOrigin : (hMaxAge == hAllowOrigin) = false := by decide
@[simp] theorem hMaxAge_bne_hAllowCredentials : (hMaxAge == hAllowCredentials) = false := by decide
@[simp] theorem hMaxAge_bne_hAllowHeaders : (hMaxAge == hAllowHeaders) = false := by decide

variable (lower : Str → Str)

/-- in the actual-request headers: the origin once and verbatim, credentials only if configured,
    no Allow-Methods / Allow-Headers, no name twice -/
theorem actualHeaders_facts (cc : CorsCfg) (rq : CorsReq) :
    Spec.valuesOf hAllowOrigin (Spec.actualHeaders cc rq) = [rq.origin] ∧
    (Spec.valuesOf hAllowCredentials (Spec.actualHeaders cc rq) ≠ [] → cc.cookies = true) ∧
    Spec.valuesOf hAllowCredentials (Spec.actualHeaders cc rq) = (if cc.cookies then [sTrue] else []) ∧
    Spec.valuesOf hExposeHeaders (Spec.actualHeaders cc rq) =
      (if cc.exposeHeaders.isEmpty then [] else [join sComma cc.exposeHeaders]) ∧
    Spec.valuesOf hMaxAge (Spec.actualHeaders cc rq) = (if cc.maxAge > 0 then [itoa cc.maxAge] else []) ∧
    Spec.valuesOf hAllowMethods (Spec.actualHeaders cc rq) = [] ∧
    Spec.valuesOf hAllowHeaders (Spec.actualHeaders cc rq) = [] ∧
    ((Spec.actualHeaders cc rq).map (·.1)).Nodup := by
  unfold Spec.actualHeaders Spec.valuesOf
  cases he : cc.exposeHeaders.isEmpty <;> cases hc : cc.cookies <;> by_cases hm : cc.maxAge > 0 <;>
    simp [hm, hdr_names_distinct]

theorem preflightGrant_facts (cc : CorsCfg) (ms : List Str) (rq : CorsReq) :
    Spec.valuesOf hAllowOrigin (preflightGrant cc ms rq) = [rq.origin] ∧
    (Spec.valuesOf hAllowCredentials (preflightGrant cc ms rq) ≠ [] → cc.cookies = true) ∧
    Spec.valuesOf hAllowMethods (preflightGrant cc ms rq) = [join sComma ms] ∧
    Spec.valuesOf hAllowHeaders (preflightGrant cc ms rq) = [rq.acrh] ∧
    ((preflightGrant cc ms rq).map (·.1)).Nodup := by
  unfold preflightGrant Spec.actualHeaders Spec.valuesOf
  cases he : cc.exposeHeaders.isEmpty <;> cases hc : cc.cookies <;> by_cases hm : cc.maxAge > 0 <;>
    simp [hm, hdr_names_distinct]

end Cors
end Restful

namespace Restful
open Str Cors
namespace Cors

/-- the observation that the model's outcome amounts to.  The filter touches the response only
    through `AddHeader` and the chain only through `ProcessFilter` (filter.go:17), so against a twin
    without the filter the extra headers are the added ones, and everything behind the filter runs —
    on the same request — exactly when the filter passes on. -/
def obsOf (out : Out) : Spec.CorsObs :=
  { reached := true, extra := out.added, missing := 0, status := 200, twinStatus := 200,
    bodySame := out.passOn, logSame := out.passOn, later := out.passOn }

end Cors
end Restful

namespace Restful
open Str Cors
namespace Cors
variable (lower : Str → Str)

/-- `Spec.preflightOK` as a proposition -/
theorem preflightOK_iff (cc : CorsCfg) (ms : List Str) (rq : CorsReq) :
    Spec.preflightOK lower cc ms rq = true ↔
      (rq.acrm ∈ ms ∧ ∀ h ∈ Spec.requestedHeaders rq.acrh, ∃ a ∈ cc.allowedHeaders, lower a = lower h ∨ a = sStar) := by
  simp [Spec.preflightOK, Spec.headerAllowed]

end Cors
end Restful
