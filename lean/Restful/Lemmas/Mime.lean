/-
Lemmas for C05: `insertMime` keeps the list sorted, the first satisfiable element of the sorted list
is the earliest element of greatest weight, what `walk` returns on a well-formed route, and the
agreement of the code's parse with the specification's.
-/
import Restful.Model.Mime
import Restful.Spec.Mime
import Restful.Lemmas.SplitOn
import Restful.Lemmas.Detect
import Restful.Lemmas.Entity
namespace Restful
namespace Mime
open Str

/-! ### insertion by quality -/

/-- descending by quality -/
abbrev Sorted (l : List Mime) : Prop := l.Pairwise (fun x y => y.quality ≤ x.quality)

theorem mem_insertMime {l : List Mime} {e x : Mime} : x ∈ insertMime l e ↔ x = e ∨ x ∈ l := by
  induction l with
  | nil => simp [insertMime]
  | cons each l ih =>
    unfold insertMime
    split
    · simp
    · simp only [List.mem_cons, ih]
      constructor
      · rintro (h | h | h) <;> simp [h]
      · rintro (h | h | h) <;> simp [h]

theorem insertMime_sorted {l : List Mime} (e : Mime) (h : Sorted l) : Sorted (insertMime l e) := by
  induction l with
  | nil => simp [insertMime]
  | cons each l ih =>
    unfold insertMime
    have h := List.pairwise_cons.mp h
    split
    · rename_i hlt
      refine List.pairwise_cons.mpr ⟨?_, List.pairwise_cons.mpr h⟩
      intro y hy
      rcases List.mem_cons.mp hy with rfl | hy
      · omega
      · have := h.1 y hy; omega
    · rename_i hlt
      refine List.pairwise_cons.mpr ⟨?_, ih h.2⟩
      intro y hy
      rcases mem_insertMime.mp hy with rfl | hy
      · omega
      · exact h.1 y hy

/-- how one insertion changes the first element satisfying `p` -/
def step (p : Mime → Bool) (cur : Option Mime) (e : Mime) : Option Mime :=
  if p e then
    (match cur with
     | some b => if b.quality < e.quality then some e else some b
     | none => some e)
  else cur

theorem find?_insertMime (p : Mime → Bool) {l : List Mime} (e : Mime) (h : Sorted l) :
    (insertMime l e).find? p = step p (l.find? p) e := by
  induction l with
  | nil => by_cases hp : p e <;> simp [insertMime, step, hp]
  | cons each l ih =>
    have h := List.pairwise_cons.mp h
    unfold insertMime
    by_cases hlt : each.quality < e.quality
    · simp only [hlt, if_true]
      by_cases hp : p e = true
      · rw [List.find?_cons_of_pos (h := hp)]
        cases hf : (each :: l).find? p with
        | none => simp [step, hp]
        | some b =>
          have hb : b ∈ each :: l := List.mem_of_find?_eq_some hf
          have hq : b.quality < e.quality := by
            rcases List.mem_cons.mp hb with rfl | hb
            · exact hlt
            · have := h.1 b hb; omega
          simp [step, hp, hq]
      · rw [List.find?_cons_of_neg (h := hp)]
        simp [step, hp]
    · simp only [hlt, if_false]
      by_cases hpe : p each = true
      · rw [List.find?_cons_of_pos (h := hpe), List.find?_cons_of_pos (h := hpe)]
        by_cases hp : p e = true <;> simp [step, hp, hlt]
      · rw [List.find?_cons_of_neg (h := hpe), List.find?_cons_of_neg (h := hpe)]
        exact ih h.2

/-! ### the sorted list as a fold; its first satisfiable element -/

theorem foldl_insertValid (acc : List Mime) (pieces : List Str) :
    pieces.foldl insertValid acc = (pieces.filterMap rangeOf).foldl insertMime acc := by
  induction pieces generalizing acc with
  | nil => rfl
  | cons x xs ih =>
    simp only [List.foldl_cons, List.filterMap_cons, insertValid]
    cases rangeOf x with
    | none => exact ih _
    | some m => simpa using ih _

theorem foldl_insertMime_sorted {acc : List Mime} (rs : List Mime) (h : Sorted acc) :
    Sorted (rs.foldl insertMime acc) := by
  induction rs generalizing acc with
  | nil => exact h
  | cons e rs ih => exact ih (insertMime_sorted e h)

/-- an earlier candidate `b` against the best later one `m`: the later one must be strictly better -/
def combine : Option Mime → Option Mime → Option Mime
  | none, m => m
  | some b, none => some b
  | some b, some m => if b.quality < m.quality then some m else some b

theorem find?_foldl_insertMime (p : Mime → Bool) {acc : List Mime} (rs : List Mime) (h : Sorted acc) :
    (rs.foldl insertMime acc).find? p = combine (acc.find? p) (Spec.C05.maxFirst (rs.filter p)) := by
  induction rs generalizing acc with
  | nil =>
    simp only [List.foldl_nil, List.filter_nil, Spec.C05.maxFirst]
    cases acc.find? p <;> rfl
  | cons e rs ih =>
    rw [List.foldl_cons, ih (insertMime_sorted e h), find?_insertMime p e h]
    by_cases hp : p e = true
    · rw [List.filter_cons_of_pos hp]
      simp only [step, hp, if_true, Spec.C05.maxFirst]
      cases hc : acc.find? p with
      | none =>
        cases hm : Spec.C05.maxFirst (rs.filter p) with
        | none => simp [combine]
        | some m =>
          simp only [combine]
          by_cases h2 : m.quality ≤ e.quality
          · have : ¬ e.quality < m.quality := by omega
            simp [h2, this]
          · have : e.quality < m.quality := by omega
            simp [h2, this]
      | some b =>
        cases hm : Spec.C05.maxFirst (rs.filter p) with
        | none =>
          by_cases h1 : b.quality < e.quality <;> simp [combine, h1]
        | some m =>
          by_cases h1 : b.quality < e.quality <;> by_cases h2 : m.quality ≤ e.quality <;>
            by_cases h3 : b.quality < m.quality <;> by_cases h4 : e.quality < m.quality <;>
            simp [combine, h1, h2, h3, h4] <;> omega
    · rw [List.filter_cons_of_neg hp]
      simp [step, hp]

/-- the first element of `sortedMimes a` that satisfies `p` is the earliest range of greatest weight
    that does -/
theorem find?_sortedMimes (p : Mime → Bool) (a : Str) :
    (sortedMimes a).find? p = Spec.C05.maxFirst (((split ',' a).filterMap rangeOf).filter p) := by
  unfold sortedMimes
  rw [foldl_insertValid, find?_foldl_insertMime p _ List.Pairwise.nil]
  simp [combine]

theorem sortedMimes_sorted (a : Str) : Sorted (sortedMimes a) := by
  unfold sortedMimes
  rw [foldl_insertValid]
  exact foldl_insertMime_sorted _ List.Pairwise.nil

/-! ### the walk on a route whose produced types all have a writer -/

theorem accessorAt_of_mem {reg : List Str} {m : Str} (h : m ∈ reg) : accessorAt reg m = [m] := by
  simp [accessorAt, h]

/-- a range can be satisfied: it names a produced type, or it is the wildcard -/
def satB (P : List Str) (m : Mime) : Bool := P.contains m.media || m.media == starStar

/-- the produced type a satisfiable range stands for -/
def resolveM (P : List Str) (x : Str) : Str := if P.contains x then x else P.headD []

theorem walkProduces_eq {reg : List Str} (media : Str) (P : List Str) (hsub : ∀ p ∈ P, p ∈ reg) :
    walkProduces reg media P = if media ∈ P then [media] else [] := by
  induction P with
  | nil => simp [walkProduces]
  | cons p ps ih =>
    unfold walkProduces
    by_cases hp : p = media
    · subst hp
      simp [accessorAt_of_mem (hsub p List.mem_cons_self)]
    · have hp' : ¬ media = p := fun h => hp h.symm
      rw [if_neg hp, ih (fun q hq => hsub q (List.mem_cons_of_mem _ hq))]
      simp [hp']

theorem firstProduced_eq {reg : List Str} (P : List Str) (hsub : ∀ p ∈ P, p ∈ reg) :
    firstProduced reg P = (match P with | [] => [] | p :: _ => [p]) := by
  cases P with
  | nil => rfl
  | cons p ps => simp [firstProduced, accessorAt_of_mem (hsub p List.mem_cons_self)]

theorem walk_eq {reg P : List Str} (hsub : ∀ p ∈ P, p ∈ reg) (hne : P ≠ []) (ms : List Mime) :
    walk reg P ms = (match ms.find? (satB P) with | none => [] | some m => [resolveM P m.media]) := by
  induction ms with
  | nil => rfl
  | cons m ms ih =>
    unfold walk
    rw [walkProduces_eq _ _ hsub]
    by_cases hc : m.media ∈ P
    · have hs : satB P m = true := by simp [satB, hc]
      rw [List.find?_cons_of_pos (h := hs)]
      simp [hc, resolveM]
    · by_cases hst : m.media = starStar
      · have hs : satB P m = true := by simp [satB, hst]
        rw [List.find?_cons_of_pos (h := hs), firstProduced_eq _ hsub]
        cases P with
        | nil => exact absurd rfl hne
        | cons p ps =>
          rw [hst] at hc
          have h1 : ¬ starStar = p := fun h => hc (by simp [h])
          have h2 : starStar ∉ ps := fun h => hc (by simp [h])
          simp [hst, resolveM, h1, h2]
      · have hs : ¬ satB P m = true := by simp [satB, hc, hst]
        rw [List.find?_cons_of_neg (h := hs), ← ih]
        simp [hc, hst]

/-! ### the specification's parse is the code's parse -/

theorem qualityOf_cons (p : Str) (rest : List Str) :
    qualityOf (p :: rest) = (match Spec.C05.qParam p with | some v => parseQ v | none => qualityOf rest) := by
  conv => lhs; unfold qualityOf
  unfold Spec.C05.qParam
  generalize split '=' p = sp
  rcases sp with _ | ⟨k, _ | ⟨v, _ | ⟨x, xs⟩⟩⟩
  · rfl
  · rfl
  · by_cases hk : trimOWS k = qKey <;> simp [hk]
  · rfl

theorem qualityOf_eq_weight (ps : List Str) : qualityOf ps = Spec.C05.weight ps := by
  induction ps with
  | nil => rfl
  | cons p rest ih =>
    rw [qualityOf_cons, ih]
    unfold Spec.C05.weight
    rw [List.findSome?_cons]
    cases Spec.C05.qParam p <;> rfl

theorem rangeOf_eq_parseRange (e : Str) : rangeOf e = Spec.C05.parseRange e := by
  unfold rangeOf Spec.C05.parseRange
  generalize split ';' e = sp
  cases sp with
  | nil => rfl
  | cons m ps => simp only [qualityOf_eq_weight]

theorem ranges_eq (a : Str) : Spec.C05.ranges a = (split ',' a).filterMap rangeOf := by
  unfold Spec.C05.ranges
  congr 1
  funext e
  exact (rangeOf_eq_parseRange e).symm

/-! ### the quantifier of C05, unpacked -/

structure WF (P reg : List Str) : Prop where
  ne : P ≠ []
  sub : ∀ p ∈ P, p ∈ reg
  pMedia : ∀ p ∈ P, Spec.wfMedia p = true
  rMedia : ∀ k ∈ reg, Spec.wfMedia k = true

theorem wf_of {P reg : List Str} (h : Spec.wfMime P reg = true) : WF P reg := by
  unfold Spec.wfMime at h
  simp only [Bool.and_eq_true, List.all_eq_true, Bool.not_eq_true', List.isEmpty_eq_false_iff,
    List.contains_iff_mem] at h
  obtain ⟨⟨⟨h1, h2⟩, h3⟩, h4⟩ := h
  exact ⟨h1, h4, h2, h3⟩

theorem wfMedia_ne_nil {m : Str} (h : Spec.wfMedia m = true) : m ≠ [] := by
  rintro rfl
  simp [Spec.wfMedia] at h

theorem wfMedia_ne_star {m : Str} (h : Spec.wfMedia m = true) : m ≠ starStar := by
  rintro rfl
  simp [Spec.wfMedia] at h

theorem WF.star_not_mem {P reg : List Str} (h : WF P reg) : starStar ∉ P :=
  fun hm => wfMedia_ne_star (h.pMedia _ hm) rfl

theorem WF.nil_not_mem_reg {P reg : List Str} (h : WF P reg) : ([] : Str) ∉ reg :=
  fun hm => wfMedia_ne_nil (h.rMedia _ hm) rfl

theorem WF.nil_not_mem {P reg : List Str} (h : WF P reg) : ([] : Str) ∉ P :=
  fun hm => h.nil_not_mem_reg (h.sub _ hm)

theorem WF.usable {P reg : List Str} (h : WF P reg) : Spec.C05.usable P reg = P := by
  unfold Spec.C05.usable
  rw [List.filter_eq_self]
  intro p hp
  simpa using h.sub p hp

theorem resolveM_mem {P : List Str} (hne : P ≠ []) (x : Str) : resolveM P x ∈ P := by
  unfold resolveM
  by_cases hx : x ∈ P
  · simp [hx]
  · cases P with
    | nil => exact absurd rfl hne
    | cons p ps => simp [hx]

theorem resolve_isSome {P reg : List Str} (h : WF P reg) (m : Mime) :
    (Spec.C05.resolve P reg m.media).isSome = satB P m := by
  unfold Spec.C05.resolve satB
  rw [h.usable]
  by_cases hst : m.media = starStar
  · have : P.head?.isSome = true := by
      cases P with
      | nil => exact absurd rfl h.ne
      | cons p ps => rfl
    simp [hst, this]
  · by_cases hc : m.media ∈ P <;> simp [hst, hc]

theorem resolve_of_sat {P reg : List Str} (h : WF P reg) {m : Mime} (hs : satB P m = true) :
    Spec.C05.resolve P reg m.media = some (resolveM P m.media) := by
  unfold Spec.C05.resolve resolveM
  rw [h.usable]
  by_cases hst : m.media = starStar
  · have hn : starStar ∉ P := h.star_not_mem
    cases P with
    | nil => exact absurd rfl h.ne
    | cons p ps => simp [hst, hn]
  · have hc : m.media ∈ P := by
      simp only [satB, Bool.or_eq_true, List.contains_iff_mem, beq_iff_eq] at hs
      rcases hs with hs | hs
      · exact hs
      · exact absurd hs hst
    simp [hst, hc]

/-- the representation the specification demands, in terms of the sorted list -/
theorem best_eq {P reg : List Str} (h : WF P reg) (a : Str) :
    Spec.best a P reg =
      (match (sortedMimes (if a.isEmpty then starStar else a)).find? (satB P) with
       | none => none
       | some r => some (resolveM P r.media)) := by
  unfold Spec.best
  simp only
  rw [find?_sortedMimes, ranges_eq]
  have hf : (fun r : Mime => (Spec.C05.resolve P reg r.media).isSome) = satB P := by
    funext r; exact resolve_isSome h r
  rw [hf]
  cases hm : Spec.C05.maxFirst (List.filter (satB P) (List.filterMap rangeOf (split ',' (if a.isEmpty then starStar else a)))) with
  | none => rfl
  | some r =>
    have hfind : (sortedMimes (if a.isEmpty then starStar else a)).find? (satB P) = some r := by
      rw [find?_sortedMimes, hm]
    exact resolve_of_sat h (List.find?_some hfind)

/-- when the walk over the sorted ranges decides (a missing header is ranked as `*/*`) -/
theorem entityWriter_of_walk {a : Str} {P reg : List Str} {d : Str} {w : List Str}
    (hw : walk reg P (sortedMimes (if a.isEmpty then starStar else a)) = w) (hne : w ≠ []) :
    entityWriter a P reg d = w := by
  unfold entityWriter entityWriterTagged
  simp only [hw]
  have : (!w.isEmpty) = true := by cases w <;> simp_all
  simp [this]

/-- one of the well-formed ranges of the header (`*/*` when there is none) is satisfiable: the writer
    is the best one — with or without an Accept header -/
theorem entityWriter_of_best {a : Str} {P reg : List Str} {d b : Str} (h : WF P reg)
    (hb : Spec.best a P reg = some b) : entityWriter a P reg d = [b] ∧ b ∈ P := by
  rw [best_eq h] at hb
  have hw := walk_eq h.sub h.ne (sortedMimes (if a.isEmpty then starStar else a))
  cases hf : (sortedMimes (if a.isEmpty then starStar else a)).find? (satB P) with
  | none => rw [hf] at hb; simp at hb
  | some r =>
    rw [hf] at hb hw
    simp only [Option.some.injEq] at hb hw
    subst hb
    exact ⟨entityWriter_of_walk hw (by simp), resolveM_mem h.ne _⟩

/-! ### the fallbacks after the walk -/

theorem entityWriter_fallback {a : Str} {P reg : List Str} (d : Str)
    (hw : walk reg P (sortedMimes (if a.isEmpty then starStar else a)) = []) (hk : accessorAt reg a = []) :
    entityWriter a P reg d =
      if d = mimeJSON then accessorAt reg mimeJSON
      else if d = mimeXML then accessorAt reg mimeXML
      else if d = mimeZIP then accessorAt reg mimeZIP
      else firstProduced reg P := by
  unfold entityWriter entityWriterTagged
  simp only [hw, hk, List.isEmpty_nil, Bool.not_true, Bool.false_eq_true, if_false]
  by_cases h1 : d = mimeJSON
  · rw [if_pos h1, if_pos h1]
  rw [if_neg h1, if_neg h1]
  by_cases h2 : d = mimeXML
  · rw [if_pos h2, if_pos h2]
  rw [if_neg h2, if_neg h2]
  by_cases h3 : d = mimeZIP
  · rw [if_pos h3, if_pos h3]
  rw [if_neg h3, if_neg h3]
  cases firstProduced reg P <;> simp

theorem sortedMimes_star : sortedMimes starStar = [⟨starStar, 1000⟩] := by decide

theorem best_nil {P reg : List Str} (h : WF P reg) : Spec.best [] P reg = some (P.headD []) := by
  rw [best_eq h]
  simp only [List.isEmpty_nil, if_true, sortedMimes_star]
  have hs : satB P ⟨starStar, 1000⟩ = true := by simp [satB]
  rw [List.find?_cons_of_pos (h := hs)]
  have hn : starStar ∉ P := h.star_not_mem
  simp [resolveM, hn]

/-- no Accept header: the first produced type, whatever `DefaultResponseContentType` says (F07 repaired) -/
theorem entityWriter_nil {P reg : List Str} (h : WF P reg) (d : Str) :
    entityWriter [] P reg d = [P.headD []] :=
  (entityWriter_of_best h (best_nil h)).1

theorem defaultSet_false_iff {d : Str} : defaultSet d = false ↔ d ≠ mimeJSON ∧ d ≠ mimeXML ∧ d ≠ mimeZIP := by
  simp [defaultSet, and_assoc]

theorem defaultSet_cases {d : Str} (hs : defaultSet d = true) : d = mimeJSON ∨ d = mimeXML ∨ d = mimeZIP := by
  unfold defaultSet at hs
  simp only [Bool.or_eq_true, beq_iff_eq] at hs
  rcases hs with (hs | hs) | hs
  · exact Or.inl hs
  · exact Or.inr (Or.inl hs)
  · exact Or.inr (Or.inr hs)

/-- the default branch on a registry that has a writer for the default type -/
theorem default_singleton {reg P : List Str} {d : Str} (hd : Spec.defaultOK reg d = true) (hs : defaultSet d = true) :
    (if d = mimeJSON then accessorAt reg mimeJSON
      else if d = mimeXML then accessorAt reg mimeXML
      else if d = mimeZIP then accessorAt reg mimeZIP
      else firstProduced reg P) = [d] := by
  have hmem : d ∈ reg := by
    simp only [Spec.defaultOK, hs, Bool.not_true, Bool.false_or, List.contains_iff_mem] at hd
    exact hd
  by_cases h1 : d = mimeJSON
  · rw [if_pos h1, ← h1, accessorAt_of_mem hmem]
  rw [if_neg h1]
  by_cases h2 : d = mimeXML
  · rw [if_pos h2, ← h2, accessorAt_of_mem hmem]
  rw [if_neg h2]
  by_cases h3 : d = mimeZIP
  · rw [if_pos h3, ← h3, accessorAt_of_mem hmem]
  rcases defaultSet_cases hs with hs | hs | hs
  · exact absurd hs h1
  · exact absurd hs h2
  · exact absurd hs h3

/-- the default branch when no default is set -/
theorem default_unset {reg P : List Str} {d : Str} (hs : defaultSet d = false) :
    (if d = mimeJSON then accessorAt reg mimeJSON
      else if d = mimeXML then accessorAt reg mimeXML
      else if d = mimeZIP then accessorAt reg mimeZIP
      else firstProduced reg P) = firstProduced reg P := by
  obtain ⟨h1, h2, h3⟩ := defaultSet_false_iff.mp hs
  rw [if_neg h1, if_neg h2, if_neg h3]

/-- outside F07b an admitted header has a satisfiable well-formed range (a missing header is `*/*`) -/
theorem best_isSome_of {a : Str} {P reg : List Str} (h : WF P reg)
    (hadm : routerAdmits a P = true) (h07b : Spec.F07b a P reg = false) : ∃ b, Spec.best a P reg = some b := by
  by_cases ha : a = []
  · subst ha
    exact ⟨_, best_nil h⟩
  have hacc : Spec.acceptOK P a = true := by
    unfold routerAdmits at hadm
    unfold Spec.acceptOK
    exact acceptLoop_sound _ _ hadm
  have hne : a.isEmpty = false := by cases a <;> simp_all
  simp only [Spec.F07b, hne, hacc, Bool.not_false, Bool.true_and, Option.isNone_eq_false_iff] at h07b
  exact Option.isSome_iff_exists.mp h07b

/-! ### the answer is a function of the request (since 8b400b4) -/

/-- at most one value: any two elements are equal -/
def OneVal (l : List Str) : Prop := ∀ m ∈ l, ∀ m' ∈ l, m = m'

theorem oneVal_nil : OneVal [] := fun _ h => by cases h

theorem accessorAt_function (reg : List Str) (x : Str) : OneVal (accessorAt reg x) := by
  unfold accessorAt
  intro m hm m' hm'
  by_cases hc : reg.contains x = true
  · simp only [hc, if_true, List.mem_singleton] at hm hm'
    rw [hm, hm']
  · simp only [hc, Bool.false_eq_true, if_false, List.mem_filter] at hm hm'
    exact Entity.firstLongest_unique hm.1 hm'.1 hm.2 hm'.2

/-- the reverse lookup finds a key as soon as one occurs in the value -/
theorem accessorAt_ne_nil_of_contains {reg : List Str} {x k : Str} (hk : k ∈ reg) (hc : containsSub k x = true) :
    accessorAt reg x ≠ [] := by
  unfold accessorAt
  by_cases hx : reg.contains x = true
  · simp [List.contains_iff_mem.mp hx]
  · obtain ⟨w, hw, hwin⟩ := Entity.firstLongest_exists (keys := reg) (v := x) ⟨k, hk, hc⟩
    simp only [hx, Bool.false_eq_true, if_false]
    intro hnil
    have : w ∈ reg.filter (firstLongest reg x) := List.mem_filter.mpr ⟨hw, hwin⟩
    rw [hnil] at this
    cases this

theorem walkProduces_function (reg : List Str) (media : Str) (P : List Str) : OneVal (walkProduces reg media P) := by
  induction P with
  | nil => exact oneVal_nil
  | cons p ps ih =>
    unfold walkProduces
    by_cases hp : p = media
    · simp only [hp, if_true]
      split
      · exact ih
      · exact accessorAt_function reg media
    · simp only [hp, if_false]
      exact ih

theorem firstProduced_function (reg : List Str) (P : List Str) : OneVal (firstProduced reg P) := by
  induction P with
  | nil => exact oneVal_nil
  | cons p ps ih =>
    unfold firstProduced
    simp only
    split
    · exact ih
    · exact accessorAt_function reg p

theorem walk_function (reg P : List Str) (ms : List Mime) : OneVal (walk reg P ms) := by
  induction ms with
  | nil => exact oneVal_nil
  | cons m ms ih =>
    unfold walk
    simp only
    split
    · exact walkProduces_function reg m.media P
    · split
      · split
        · exact firstProduced_function reg P
        · exact ih
      · exact ih

theorem entityWriter_function (a : Str) (P reg : List Str) (d : Str) : OneVal (entityWriter a P reg d) := by
  unfold entityWriter entityWriterTagged
  simp only
  generalize sortedMimes (if a.isEmpty then starStar else a) = S
  by_cases h1 : (!(walk reg P S).isEmpty) = true
  · rw [if_pos h1]; exact walk_function _ _ _
  rw [if_neg h1]
  by_cases h2 : (!(accessorAt reg a).isEmpty) = true
  · rw [if_pos h2]; exact accessorAt_function _ _
  rw [if_neg h2]
  by_cases h3 : d = mimeJSON
  · rw [if_pos h3]; exact accessorAt_function _ _
  rw [if_neg h3]
  by_cases h4 : d = mimeXML
  · rw [if_pos h4]; exact accessorAt_function _ _
  rw [if_neg h4]
  by_cases h5 : d = mimeZIP
  · rw [if_pos h5]; exact accessorAt_function _ _
  rw [if_neg h5]
  by_cases h6 : (!(firstProduced reg P).isEmpty) = true
  · rw [if_pos h6]; exact firstProduced_function _ _
  rw [if_neg h6]; exact oneVal_nil

/-! ### inside F07b: what the fallbacks answer -/

/-- inside F07b the header is present and the walk over its well-formed ranges finds nothing -/
theorem walk_nil_of_F07b {a : Str} {P reg : List Str} (h : WF P reg) (h07b : Spec.F07b a P reg = true) :
    a.isEmpty = false ∧ walk reg P (sortedMimes (if a.isEmpty then starStar else a)) = [] := by
  simp only [Spec.F07b, Bool.and_eq_true, Bool.not_eq_true', Option.isNone_iff_eq_none] at h07b
  obtain ⟨⟨hne, _⟩, hbest⟩ := h07b
  refine ⟨hne, ?_⟩
  rw [best_eq h] at hbest
  rw [walk_eq h.sub h.ne]
  cases hf : (sortedMimes (if a.isEmpty then starStar else a)).find? (satB P) with
  | none => rfl
  | some r => rw [hf] at hbest; simp at hbest

/-- … so the raw-header lookup answers, when it finds a key -/
theorem entityWriter_of_F07b_key {a : Str} {P reg : List Str} (d : Str) (h : WF P reg)
    (h07b : Spec.F07b a P reg = true) (hk : accessorAt reg a ≠ []) : entityWriter a P reg d = accessorAt reg a := by
  obtain ⟨_, hw⟩ := walk_nil_of_F07b h h07b
  unfold entityWriter entityWriterTagged
  simp only [hw, List.isEmpty_nil, Bool.not_true, Bool.false_eq_true, if_false]
  have : (!(accessorAt reg a).isEmpty) = true := by
    cases hacc : accessorAt reg a with
    | nil => exact absurd hacc hk
    | cons x xs => rfl
  rw [if_pos this]

/-- … and the default type, else the first produced type, when it finds none -/
theorem entityWriter_of_F07b_no_key {a : Str} {P reg : List Str} (d : Str) (h : WF P reg)
    (h07b : Spec.F07b a P reg = true) (hk : accessorAt reg a = []) :
    entityWriter a P reg d = if defaultSet d = true then accessorAt reg d else [P.headD []] := by
  obtain ⟨_, hw⟩ := walk_nil_of_F07b h h07b
  rw [entityWriter_fallback d hw hk]
  by_cases hs : defaultSet d = true
  · rw [if_pos hs]
    rcases defaultSet_cases hs with e | e | e
    · rw [if_pos e, e]
    · have h1 : d ≠ mimeJSON := by rw [e]; decide
      rw [if_neg h1, if_pos e, e]
    · have h1 : d ≠ mimeJSON := by rw [e]; decide
      have h2 : d ≠ mimeXML := by rw [e]; decide
      rw [if_neg h1, if_neg h2, if_pos e, e]
  · rw [if_neg hs, default_unset (by simpa using hs), firstProduced_eq _ h.sub]
    cases P with
    | nil => exact absurd rfl h.ne
    | cons p ps => rfl

end Mime
end Restful
