import Restful.Lemmas.TieImp
import Restful.Model.Mime
import Restful.Lemmas.TieImpMime
import Restful.Lemmas.TieImpTactic
namespace Restful
namespace TieImp
open Imp

/-- a media range of the model (quality in thousandths) as the `mime` struct -/
def genMime (m : Mime.Mime) : ImpGen.GoMime := { media := m.media, quality := ((m.quality : Nat) : Int) }

/-- what the mime functions leave uninterpreted, instantiated by the model's reading: float64 qualities are
    exact thousandths (DESIGN 4.4: decimal literals with at most three fraction digits; everything else is
    "unparsable", as far as the model and its generator go), `trimOWS` is tied separately (`Tie.trim_ows`) -/
structure MimeExt (X : ImpGen.Ext) : Prop where
  gt : ∀ a b : Int, X.float_gt a b = decide (a > b)
  one : X.float_lit "1.0" = 1000
  trim : X.trimOWS = Mime.trimOWS
  parse : ∀ s : Str, X.strconv_ParseFloat s 64 =
    (match Mime.parseQ s with
     | some q => (((q : Nat) : Int), none)
     | none => (0, some {}))

/-- mime.go `insertMime`: before the first element of strictly smaller quality, else at the end -/
theorem insert_mime (X : ImpGen.Ext) (hgt : ∀ a b : Int, X.float_gt a b = decide (a > b))
    (l : List Mime.Mime) (e : Mime.Mime) :
    ImpGen.insertMime X (l.map genMime) (genMime e) = some ((Mime.insertMime l e).map genMime) := by
  rw [T15.insertMime_eq]
  congr 1
  induction l with
  | nil => rfl
  | cons x xs ih =>
    simp only [List.map_cons, T15.insP, Mime.insertMime, ih]
    have hq : X.float_gt (genMime e).quality (genMime x).quality = decide (x.quality < e.quality) := by
      rw [hgt]; simp [genMime]
    rw [hq]
    by_cases h : x.quality < e.quality <;> simp [h]

/-- mime.go `sortedMimes`: the Accept header parsed into media ranges ordered by quality (stable), ranges
    whose q does not parse dropped; never panics -/
theorem sorted_mimes (X : ImpGen.Ext) (h : MimeExt X) (accept : Str) :
    ImpGen.sortedMimes X accept = some ((Mime.sortedMimes accept).map genMime) := by
  unfold ImpGen.sortedMimes
  unfold_gen_helpers keeping ImpGen.insertMime
  simp only [Option.pure_def, Option.bind_eq_bind]
  rw [show ([] : List ImpGen.GoMime) = List.map genMime [] from rfl,
    T15.fold_loop (List.map genMime) Mime.insertValid _ ?hf]
  · rfl
  case hf =>
    intro each acc
    rcases hs : Str.split ';' each with _ | ⟨m, params⟩
    · exact absurd hs (Str.split_ne_nil ';' each)
    simp only [T15.at?_zero_cons, T15.sliceFrom_one_cons, Option.bind_some, h.one]
    -- the parameter loop: with `break` and the two variables as its state (`param_loop`), or — as a helper
    -- `func … (quality, valid)` — with early `return`s (`findSome_loop` over `paramRet`); either way `qvOf params`
    first
    | (rw [T15.param_loop _ ?hp]
       case hp =>
         intro param s
         have hq : ("q".toList : Str) = Mime.qKey := rfl
         unfold T15.paramStep
         rcases Str.split '=' param with _ | ⟨k, _ | ⟨v, _ | ⟨w, t⟩⟩⟩
         · rfl
         · rfl
         · simp only [T15.len_two, T15.at?_zero_cons, T15.at?_one_cons, Option.bind_some, h.trim, h.parse, hq, if_true,
             beq_iff_eq]
           by_cases hk : Mime.trimOWS k = Mime.qKey
           · simp only [hk, if_true]
             cases Mime.parseQ (Mime.trimOWS v) <;> rfl
           · simp only [hk, if_false]
         · have : (len (k :: v :: w :: t) == 2) = false := by simp [len]; omega
           simp only [this]; rfl)
    | (rw [T15.findSome_loop T15.paramRet _ ?hp]
       case hp =>
         intro param
         have hq : ("q".toList : Str) = Mime.qKey := rfl
         unfold T15.paramRet
         rcases Str.split '=' param with _ | ⟨k, _ | ⟨v, _ | ⟨w, t⟩⟩⟩
         · rfl
         · rfl
         · simp only [T15.len_two, T15.at?_zero_cons, T15.at?_one_cons, Option.bind_some, h.trim, h.parse, hq, if_true,
             beq_iff_eq]
           by_cases hk : Mime.trimOWS k = Mime.qKey
           · simp only [hk, if_true]
             cases Mime.parseQ (Mime.trimOWS v) <;> rfl
           · simp only [hk, if_false]
         · have : (len (k :: v :: w :: t) == 2) = false := by simp [len]; omega
           simp only [this]; rfl
       have hpr := T15.paramRet_eq params
       cases hfs : params.findSome? T15.paramRet <;>
         (rw [hfs] at hpr
          simp only [Option.getD_none, Option.getD_some] at hpr
          first
          | (show ((some ((1000 : Int), true)).bind _) = _
             rw [hpr])
          | (show ((some _).bind _) = _
             rw [hpr])))
    all_goals
      simp only [Option.bind_some, T15.qvOf, Mime.insertValid, Mime.rangeOf, hs, h.trim]
      cases Mime.qualityOf params with
      | none => rfl
      | some q =>
        simp only [Option.map_some, if_true]
        rw [show ({ media := Mime.trimOWS m, quality := ((q : Nat) : Int) } : ImpGen.GoMime)
          = genMime ⟨Mime.trimOWS m, q⟩ from rfl, insert_mime X h.gt]
        rfl

/-- response.go `Response.EntityWriter`: the negotiation of the written entity's media type, with the
    registry lookup `accessorAt` uninterpreted in the translation and instantiated by the model's (`hacc`;
    `idOf` names writers by their registration key) -/
theorem entity_writer (X : ImpGen.Ext) (h : MimeExt X) (reg : List Str) (dflt : Str) (idOf : Str → Nat)
    (hacc : ∀ m : Str, X.entityAccessRegistry_accessorAt m =
      (match Mime.accessorAt reg m with
       | [] => (default, false)
       | k :: _ => (idOf k, true)))
    (hd : X.DefaultResponseMimeType = dflt) (accept : Str) (produces : List Str) :
    (ImpGen.Response_EntityWriter X accept produces).map (fun p => if p.2 then some p.1 else none)
      = some ((Mime.entityWriter accept produces reg dflt).head?.map idOf) := by
  have hX : X.entityAccessRegistry_accessorAt = T15.accV reg idOf := funext hacc
  unfold ImpGen.Response_EntityWriter
  simp only [Option.pure_def, Option.bind_eq_bind, hX, hd, T15.first_loop, T15.match_loop, sorted_mimes X h,
    Option.bind_some]
  have hss : ("*/*".toList : Str) = starStar := rfl
  have hA : (len accept == 0) = accept.isEmpty := by
    cases accept with
    | nil => rfl
    | cons c t => simp [len]; omega
  rw [hA]
  rw [hss]
  split
  all_goals
    rw [T15.findSome_loop_map genMime (T15.walkStep reg idOf produces) _ ?hf]
    case hf =>
      intro m
      unfold T15.walkStep
      rw [show (genMime m).media = m.media from rfl]
      cases T15.wv idOf (Mime.walkProduces reg m.media produces) with
      | some r => rfl
      | none =>
        by_cases hm : m.media = starStar
        · simp only [hm, beq_self_eq_true, if_true]
          cases T15.wv idOf (Mime.firstProduced reg produces) <;> rfl
        · simp only [hm, beq_iff_eq, if_false]
    simp only [Option.bind_some, T15.walk_eq]
    rw [show ("application/json".toList : Str) = Mime.mimeJSON from rfl,
      show ("application/xml".toList : Str) = Mime.mimeXML from rfl,
      show ("application/zip".toList : Str) = Mime.mimeZIP from rfl]
    unfold Mime.entityWriter Mime.entityWriterTagged
    rename_i hE
    simp only [hE, if_true, if_false, Bool.false_eq_true]
    generalize Mime.walk reg produces _ = w
    rcases w with _ | ⟨k, t⟩
    · simp only [T15.wv, List.head?_nil, Option.map_none, List.isEmpty_nil, Bool.not_true, Bool.false_eq_true, if_false]
      unfold T15.accV
      rcases Mime.accessorAt reg accept with _ | ⟨k, t⟩
      · simp only [Bool.not_false, if_true, List.isEmpty_nil, Bool.not_true, Bool.false_eq_true, if_false, beq_iff_eq]
        by_cases h1 : dflt = Mime.mimeJSON
        · simp only [h1, if_true]
          cases Mime.accessorAt reg Mime.mimeJSON <;> rfl
        simp only [h1, if_false]
        by_cases h2 : dflt = Mime.mimeXML
        · simp only [h2, if_true]
          cases Mime.accessorAt reg Mime.mimeXML <;> rfl
        simp only [h2, if_false]
        by_cases h3 : dflt = Mime.mimeZIP
        · simp only [h3, if_true]
          cases Mime.accessorAt reg Mime.mimeZIP <;> rfl
        simp only [h3, if_false]
        cases Mime.firstProduced reg produces <;> rfl
      · rfl
    · rfl

end TieImp
end Restful
