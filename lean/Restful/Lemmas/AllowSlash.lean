/-
C14 for the COMPUTED Allow header (container.go:426 `computeAllowedMethods`, used by
`Container.OPTIONSFilter` and by the CORS preflight when no methods are configured).

`computeAllowedMethods` walks ALL services with the compiled (RouterJSR311-style) expressions,
whatever router the container uses: the root expression is matched against the URL, its final group
against every route's own expression, and the route's method is listed when the route's final group
is empty or `/`.  So the trailing-slash argument is the one of Lemmas/JsrSlash.lean, one level
deeper and without a sort: on `p ++ "/"` the root match is the one on `p` with the final group
extended by `/` (`Jsr.matchExpr_append_slash`); that final group is a suffix of `p`, hence again
empty or not ending in `/` (`Jsr.matchExpr_suffix`, `Jsr.NoTS.of_suffix`); the same two lemmas at
route level turn the route's final group `l` into `l ++ "/"`, and the test `l = "" ∨ l = "/"` has
the same value on both (`last_test_append_slash`).
-/
import Restful.Lemmas.JsrSlash
import Restful.Model.Options
namespace Restful
namespace Cors
open Jsr

/-- the test of container.go:438 on the final group of a route match: the same for `l` and `l/`
    when `l` is empty or does not end in `/` -/
theorem last_test_append_slash (l : Str) (hl : NoTS l) :
    (decide (l ++ ['/'] = []) || decide (l ++ ['/'] = ['/'])) = (decide (l = []) || decide (l = ['/'])) := by
  cases l with
  | nil => rfl
  | cons c r =>
    have h1 : ¬ (c :: r = ['/']) := by
      intro h; rw [h] at hl; exact hl rfl
    have h2 : ¬ (c :: r ++ ['/'] = ['/']) := by
      intro h
      have := congrArg List.length h
      simp at this
    simp [h1]

/-- the inner loop: the methods a service contributes for the final group `f` of its root match and
    for `f/` are the same -/
theorem routeMethods_append_slash (E : ReEnv) (routes : List RouteDecl)
    (hs : ∀ rt ∈ routes, ∀ ex, compile rt.relPath = some ex → ∀ t ∈ ex.toks, tokOK E t)
    (f : Str) (hf : NoTS f) :
    routeMethods E routes (f ++ ['/']) = routeMethods E routes f := by
  induction routes with
  | nil => rfl
  | cons r rs ih =>
    have ih' := ih (fun rt h => hs rt (List.mem_cons_of_mem _ h))
    unfold routeMethods
    cases hex : compile r.relPath with
    | none => rfl
    | some ex =>
      simp only
      rw [matchExpr_append_slash E ex.toks (hs r List.mem_cons_self ex hex) f hf]
      cases hm : matchExpr E ex.toks f with
      | none => simpa using ih'
      | some cf =>
        obtain ⟨caps, l⟩ := cf
        have hl : NoTS l := hf.of_suffix (matchExpr_suffix E _ _ _ _ hm)
        simp only [Option.map_some, ih', last_test_append_slash l hl]

/-- the outer loop, on token lists that satisfy `tokOK` -/
theorem computeAllowedMethods_append_slash_tokOK (E : ReEnv) (svcs : List Service)
    (hroot : ∀ svc ∈ svcs, ∀ ex, compile svc.rootPath = some ex → ∀ t ∈ ex.toks, tokOK E t)
    (hrel : ∀ svc ∈ svcs, ∀ rt ∈ svc.routes, ∀ ex, compile rt.relPath = some ex → ∀ t ∈ ex.toks, tokOK E t)
    (p : Str) (hp : NoTS p) :
    computeAllowedMethods E svcs (p ++ ['/']) = computeAllowedMethods E svcs p := by
  induction svcs with
  | nil => rfl
  | cons s ss ih =>
    have ih' := ih (fun svc h => hroot svc (List.mem_cons_of_mem _ h))
      (fun svc h => hrel svc (List.mem_cons_of_mem _ h))
    unfold computeAllowedMethods
    cases hex : compile s.rootPath with
    | none => rfl
    | some ex =>
      simp only
      rw [matchExpr_append_slash E ex.toks (hroot s List.mem_cons_self ex hex) p hp]
      cases hm : matchExpr E ex.toks p with
      | none => simpa using ih'
      | some cf =>
        obtain ⟨caps, f⟩ := cf
        have hf : NoTS f := hp.of_suffix (matchExpr_suffix E _ _ _ _ hm)
        simp only [Option.map_some, ih', routeMethods_append_slash E s.routes (hrel s List.mem_cons_self) f hf]

/-- a declared route is slash-safe when its built route is: `Build` keeps the relative path -/
theorem slashSafe_routes {E : ReEnv} {cfg : Config} (hs : slashSafe E cfg) :
    ∀ svc ∈ cfg.services, ∀ rt ∈ svc.routes, ∀ ex, compile rt.relPath = some ex → ∀ t ∈ ex.toks, tokSlashSafe E t :=
  fun svc hsvc rt hrt ex hex => (hs svc hsvc).2 (svc.build rt) (List.mem_map_of_mem hrt) ex hex

/-- **the computed Allow list of `p/` is the computed Allow list of `p`** on a slash-safe table
    (no tail wildcard, no regex variable that matches the empty segment — in root AND route
    templates, since `computeAllowedMethods` matches with both); no hypothesis on the router,
    which `computeAllowedMethods` never consults -/
theorem computeAllowedMethods_trailing_slash (E : ReEnv) (cfg : Config) (hs : slashSafe E cfg) (p : Str)
    (hp : p = [] ∨ p.getLast? ≠ some '/') :
    computeAllowedMethods E cfg.services (p ++ ['/']) = computeAllowedMethods E cfg.services p := by
  have hp' : NoTS p := by
    rcases hp with rfl | h
    · exact NoTS.nil
    · exact h
  exact computeAllowedMethods_append_slash_tokOK E cfg.services
    (fun svc h ex hex => compile_tokOK E hex ((hs svc h).1 ex hex))
    (fun svc h rt hrt ex hex => compile_tokOK E hex (slashSafe_routes hs svc h rt hrt ex hex))
    p hp'

end Cors

namespace Options

/-- the OPTIONS filter reads the path only through `computeAllowedMethods` -/
theorem optionsOut_trailing_slash (E : ReEnv) (cfg : Config) (hs : Jsr.slashSafe E cfg) (rq : OptReq) (p : Str)
    (hp : p = [] ∨ p.getLast? ≠ some '/') (hreq : rq.path = p) :
    optionsOut E cfg { rq with path := p ++ ['/'] } = optionsOut E cfg rq := by
  unfold optionsOut
  simp only [hreq, Cors.computeAllowedMethods_trailing_slash E cfg hs p hp]

end Options

namespace Cors

/-- the CORS filter reads the path only through `computeAllowedMethods` (preflight without
    configured methods) -/
theorem corsOut_trailing_slash (lower : Str → Str) (E : ReEnv) (cc : CorsCfg) (cfg : Config)
    (hs : Jsr.slashSafe E cfg) (rq : CorsReq) (p : Str)
    (hp : p = [] ∨ p.getLast? ≠ some '/') (hreq : rq.path = p) :
    corsOut lower E cc cfg { rq with path := p ++ ['/'] } = corsOut lower E cc cfg rq := by
  unfold corsOut doPreflightRequest doActualRequest setOptionsHeaders setAllowOriginHeader
  simp only [hreq, computeAllowedMethods_trailing_slash E cfg hs p hp]

end Cors
end Restful
