/- lemmas about the Response bookkeeping model (for Props/C15.lean) -/
import Restful.Spec.Response
namespace Restful
namespace Resp
open Spec

/-- the last status handed to `WriteHeader`, `d` when there was none -/
def lastStatus : Nat → List UEvent → Nat
  | d, [] => d
  | _, .header s :: es => lastStatus s es
  | d, .write _ _ _ :: es => lastStatus d es

/-- bytes accepted by the first `n` underlying `Write` calls -/
def envAccepted (env : Env) : Nat → Nat
  | 0 => 0
  | n + 1 => envAccepted env n + (env n).accepted

theorem acceptedBytes_append (a b : List UEvent) : acceptedBytes (a ++ b) = acceptedBytes a + acceptedBytes b := by
  induction a with
  | nil => simp [acceptedBytes]
  | cons e es ih => cases e <;> simp [acceptedBytes, ih, Nat.add_assoc]

theorem writeCount_append (a b : List UEvent) : writeCount (a ++ b) = writeCount a + writeCount b := by
  induction a with
  | nil => simp [writeCount]
  | cons e es ih => cases e <;> simp [writeCount, ih] <;> omega

theorem lastStatus_append (d : Nat) (a b : List UEvent) : lastStatus d (a ++ b) = lastStatus (lastStatus d a) b := by
  induction a generalizing d with
  | nil => simp [lastStatus]
  | cons e es ih => cases e <;> simp [lastStatus, ih]

/-- everything `runPrims` does, in one statement -/
theorem runPrims_spec (env : Env) (ps : List Prim) : ∀ (st st1 : State) (evs : List UEvent) (f : Nat),
    runPrims env st ps = (st1, evs, f) →
      st1.contentLength = st.contentLength + acceptedBytes evs ∧
      st1.writes = st.writes + writeCount evs ∧
      st1.statusCode = lastStatus st.statusCode evs ∧
      st1.err = st.err ∧ st1.set = st.set ∧
      (f != 0) = evs.any failedWrite ∧
      (evs.map shape) <+: ps ∧
      (f = 0 → evs.map shape = ps) := by
  induction ps with
  | nil =>
    intro st st1 evs f h
    simp only [runPrims, Prod.mk.injEq] at h
    obtain ⟨rfl, rfl, rfl⟩ := h
    simp [acceptedBytes, writeCount, lastStatus]
  | cons p ps ih =>
    intro st st1 evs f h
    cases p with
    | hdr s =>
      simp only [runPrims, stepPrim] at h
      generalize hr : runPrims env { st with statusCode := s } ps = r at h
      obtain ⟨st2, es, f2⟩ := r
      simp only [Prod.mk.injEq] at h
      obtain ⟨rfl, rfl, rfl⟩ := h
      obtain ⟨h1, h2, h3, h4, h5, h6, h7, h8⟩ := ih _ _ _ _ hr
      simp only at h1 h2 h3 h4 h5
      refine ⟨by simpa [acceptedBytes] using h1, by simpa [writeCount] using h2, by simpa [lastStatus] using h3, h4, h5,
        by simpa [failedWrite] using h6, ?_, ?_⟩
      · simpa [shape] using h7
      · intro hf; simp [shape, h8 hf]
    | wr n =>
      simp only [runPrims, stepPrim] at h
      cases hfail : (env st.writes).err with
      | succ t =>
        simp only [hfail, Prod.mk.injEq] at h
        obtain ⟨rfl, rfl, rfl⟩ := h
        simp [acceptedBytes, writeCount, lastStatus, failedWrite, shape]
      | zero =>
        simp only [hfail] at h
        generalize hr : runPrims env { st with contentLength := st.contentLength + (env st.writes).accepted, writes := st.writes + 1 } ps = r at h
        obtain ⟨st2, es, f2⟩ := r
        simp only [Prod.mk.injEq] at h
        obtain ⟨rfl, rfl, rfl⟩ := h
        obtain ⟨h1, h2, h3, h4, h5, h6, h7, h8⟩ := ih _ _ _ _ hr
        simp only at h1 h2 h3 h4 h5
        refine ⟨by simp [acceptedBytes, h1]; omega, by simp [writeCount, h2]; omega, by simpa [lastStatus] using h3, h4, h5,
          by simpa [failedWrite] using h6, ?_, ?_⟩
        · simpa [shape] using h7
        · intro hf; simp [shape, h8 hf]

/-- the error `runPrims` returns is the one of the first (and only) failed write among the events -/
theorem runPrims_firstFailure (env : Env) (ps : List Prim) : ∀ (st st1 : State) (evs : List UEvent) (f : Nat),
    runPrims env st ps = (st1, evs, f) → firstFailure evs = if f = 0 then none else some f := by
  induction ps with
  | nil =>
    intro st st1 evs f h
    simp only [runPrims, Prod.mk.injEq] at h
    obtain ⟨rfl, rfl, rfl⟩ := h
    rfl
  | cons p ps ih =>
    intro st st1 evs f h
    cases p with
    | hdr s =>
      simp only [runPrims, stepPrim] at h
      generalize hr : runPrims env { st with statusCode := s } ps = r at h
      obtain ⟨st2, es, f2⟩ := r
      simp only [Prod.mk.injEq] at h
      obtain ⟨rfl, rfl, rfl⟩ := h
      simpa [firstFailure] using ih _ _ _ _ hr
    | wr n =>
      simp only [runPrims, stepPrim] at h
      cases hfail : (env st.writes).err with
      | succ t =>
        simp only [hfail, Prod.mk.injEq] at h
        obtain ⟨rfl, rfl, rfl⟩ := h
        simp [firstFailure]
      | zero =>
        simp only [hfail] at h
        generalize hr : runPrims env { st with contentLength := st.contentLength + (env st.writes).accepted, writes := st.writes + 1 } ps = r at h
        obtain ⟨st2, es, f2⟩ := r
        simp only [Prod.mk.injEq] at h
        obtain ⟨rfl, rfl, rfl⟩ := h
        simpa [firstFailure] using ih _ _ _ _ hr

/-- the write events carry the results of the environment at consecutive indices from `k` -/
def faithful (env : Env) : Nat → List UEvent → Bool
  | _, [] => true
  | k, .header _ :: es => faithful env k es
  | k, .write _ a f :: es => (a == (env k).accepted && f == (env k).err) && faithful env (k + 1) es

/-- a failed write is the last event -/
def failsOnlyLast : List UEvent → Bool
  | [] => true
  | e :: es => (!failedWrite e || es.isEmpty) && failsOnlyLast es

theorem runPrims_env (env : Env) (ps : List Prim) : ∀ (st st1 : State) (evs : List UEvent) (f : Nat),
    runPrims env st ps = (st1, evs, f) → faithful env st.writes evs = true ∧ failsOnlyLast evs = true := by
  induction ps with
  | nil =>
    intro st st1 evs f h
    simp only [runPrims, Prod.mk.injEq] at h
    obtain ⟨rfl, rfl, rfl⟩ := h
    simp [faithful, failsOnlyLast]
  | cons p ps ih =>
    intro st st1 evs f h
    cases p with
    | hdr s =>
      simp only [runPrims, stepPrim] at h
      generalize hr : runPrims env { st with statusCode := s } ps = r at h
      obtain ⟨st2, es, f2⟩ := r
      simp only [Prod.mk.injEq] at h
      obtain ⟨rfl, rfl, rfl⟩ := h
      obtain ⟨h1, h2⟩ := ih _ _ _ _ hr
      simp only at h1
      simp [faithful, failsOnlyLast, failedWrite, h1, h2]
    | wr n =>
      simp only [runPrims, stepPrim] at h
      cases hfail : (env st.writes).err with
      | succ t =>
        simp only [hfail, Prod.mk.injEq] at h
        obtain ⟨rfl, rfl, rfl⟩ := h
        simp [faithful, failsOnlyLast, hfail]
      | zero =>
        simp only [hfail] at h
        generalize hr : runPrims env { st with contentLength := st.contentLength + (env st.writes).accepted, writes := st.writes + 1 } ps = r at h
        obtain ⟨st2, es, f2⟩ := r
        simp only [Prod.mk.injEq] at h
        obtain ⟨rfl, rfl, rfl⟩ := h
        obtain ⟨h1, h2⟩ := ih _ _ _ _ hr
        simp only at h1
        simp [faithful, failsOnlyLast, failedWrite, h1, h2, hfail]

theorem envAccepted_faithful (env : Env) : ∀ (evs : List UEvent) (k : Nat), faithful env k evs = true →
    envAccepted env (k + writeCount evs) = envAccepted env k + acceptedBytes evs := by
  intro evs
  induction evs with
  | nil => intro k _; simp [writeCount, acceptedBytes]
  | cons e es ih =>
    intro k h
    cases e with
    | header s => simpa [writeCount, acceptedBytes] using ih k (by simpa [faithful] using h)
    | write n a f =>
      simp only [faithful, Bool.and_eq_true, beq_iff_eq] at h
      have := ih (k + 1) h.2
      simp only [writeCount, acceptedBytes]
      rw [show k + (writeCount es + 1) = k + 1 + writeCount es by omega, this, envAccepted, h.1.1]
      omega

/-- a failing result of the environment inside the index range of the events shows up as a failed
    write event, and it is the last write -/
theorem faithful_failed (env : Env) : ∀ (evs : List UEvent) (k j : Nat), faithful env k evs = true →
    failsOnlyLast evs = true → k ≤ j → j < k + writeCount evs → (env j).failed = true →
      evs.any failedWrite = true ∧ j + 1 = k + writeCount evs ∧ firstFailure evs = some (env j).err := by
  intro evs
  induction evs with
  | nil => intro k j _ _ h1 h2; simp [writeCount] at h2; omega
  | cons e es ih =>
    intro k j hf hl h1 h2 hj
    cases e with
    | header s =>
      have := ih k j (by simpa [faithful] using hf) (by simp [failsOnlyLast] at hl; exact hl.2) h1 (by simpa [writeCount] using h2) hj
      simpa [writeCount, failedWrite, firstFailure] using this
    | write n a f =>
      simp only [faithful, Bool.and_eq_true, beq_iff_eq] at hf
      simp only [failsOnlyLast, Bool.and_eq_true, Bool.or_eq_true, Bool.not_eq_eq_eq_not, Bool.not_true] at hl
      simp only [writeCount] at h2
      by_cases hjk : j = k
      · subst hjk
        have hff : (f != 0) = true := by rw [hf.1.2]; exact hj
        have hes : es = [] := by
          rcases hl.1 with h | h
          · simp [failedWrite, hff] at h
          · simpa using h
        subst hes
        have hne : (env j).err ≠ 0 := by simpa [WRes.failed] using hj
        simp [failedWrite, writeCount, firstFailure, hf.1.2, hne]
      · have := ih (k + 1) j hf.2 hl.2 (by omega) (by omega) hj
        have hne : es ≠ [] := by
          intro he; rw [he] at this; simp at this
        have hf0 : (f != 0) = false := by
          rcases hl.1 with h | h
          · simpa [failedWrite] using h
          · exact absurd (List.isEmpty_iff.mp h) hne
        refine ⟨by simp [this.1], ?_, ?_⟩
        · simp only [writeCount]; omega
        · simp only [firstFailure, hf0]; exact this.2.2

/-- a failed write among the events has an error, and it is a non-nil one -/
theorem firstFailure_of_any : ∀ (evs : List UEvent), evs.any failedWrite = true →
    ∃ t, t ≠ 0 ∧ firstFailure evs = some t := by
  intro evs
  induction evs with
  | nil => intro h; simp at h
  | cons e es ih =>
    intro h
    cases e with
    | header s => simpa [firstFailure] using ih (by simpa [failedWrite] using h)
    | write n a f =>
      by_cases hf : f = 0
      · subst hf
        simpa [firstFailure] using ih (by simpa [failedWrite] using h)
      · exact ⟨f, hf, by simp [firstFailure, hf]⟩

theorem firstFailure_none_of_not_any : ∀ (evs : List UEvent), evs.any failedWrite = false → firstFailure evs = none := by
  intro evs
  induction evs with
  | nil => intro _; rfl
  | cons e es ih =>
    intro h
    cases e with
    | header s => simpa [firstFailure] using ih (by simpa [failedWrite] using h)
    | write n a f =>
      simp only [List.any_cons, failedWrite, Bool.or_eq_false_iff] at h
      simp only [firstFailure, h.1]
      exact ih h.2

/-! ### the error a call returns -/

theorem Plan.ret_isErr (p : Plan) (made werr : Nat) : (p.ret made werr).isErr = (werr != 0 || p.ownErr) := by
  unfold Plan.ret
  by_cases h0 : werr = 0
  · subst h0; cases p.ownErr <;> rfl
  · simp only [h0, if_false]
    split <;> simp [Ret.isErr, h0]

/-- a failed write: the call returns the writer's error, or — only when the marshaller has an error
    of its own — that one -/
theorem Plan.ret_cases (p : Plan) (made : Nat) {werr : Nat} (h0 : werr ≠ 0) :
    p.ret made werr = .writer werr ∨ (p.ownErr = true ∧ p.ret made werr = .other) := by
  unfold Plan.ret
  simp only [h0, if_false]
  split
  · rename_i h; simp only [Bool.and_eq_true] at h; exact Or.inr ⟨h.1, rfl⟩
  · exact Or.inl rfl

/-- no `WriteHeader` among the events: the last status is unchanged -/
theorem lastStatus_all_wr (d : Nat) : ∀ (es : List UEvent), (es.map shape).all Prim.isWr = true → lastStatus d es = d := by
  intro es
  induction es with
  | nil => intro _; rfl
  | cons e es ih =>
    intro h
    cases e with
    | header s => simp [shape, Prim.isWr] at h
    | write n a f => simp only [List.map_cons, List.all_cons, Bool.and_eq_true] at h; simpa [lastStatus] using ih h.2

theorem validStatus_ne_zero {s : Nat} (h : validStatus s = true) : s ≠ 0 := by
  simp [validStatus] at h; omega

/-- under the discipline, what `StatusCode()` computes from the last status set is the status a
    `net/http`-like writer sent -/
theorem discipline_status (evs : List UEvent) (h : discipline evs = true) :
    (if lastStatus 200 evs = 0 then 200 else lastStatus 200 evs) = effectiveStatus evs := by
  cases evs with
  | nil => simp [lastStatus, effectiveStatus]
  | cons e es =>
    cases e with
    | header s =>
      simp only [discipline, List.map_cons, shape, primDiscipline, Bool.and_eq_true] at h
      have := lastStatus_all_wr s es h.2
      simp [lastStatus, effectiveStatus, this, validStatus_ne_zero h.1]
    | write n a f =>
      simp only [discipline, List.map_cons, shape, primDiscipline] at h
      simp [lastStatus, effectiveStatus, lastStatus_all_wr 200 es h]

theorem all_wr_of_sublist {a b : List Prim} (h : a.Sublist b) (hb : b.all Prim.isWr = true) : a.all Prim.isWr = true := by
  simp only [List.all_eq_true] at *
  intro x hx
  exact hb x (h.subset hx)

theorem primDiscipline_of_all_wr : ∀ (a : List Prim), a.all Prim.isWr = true → primDiscipline a = true := by
  intro a h
  cases a with
  | nil => rfl
  | cons p ps =>
    simp only [List.all_cons, Bool.and_eq_true] at h
    cases p with
    | hdr s => simp [Prim.isWr] at h
    | wr n => simpa [primDiscipline] using h.2

/-- the discipline is inherited by every subsequence of calls -/
theorem primDiscipline_sublist {a b : List Prim} (h : a.Sublist b) (hb : primDiscipline b = true) : primDiscipline a = true := by
  cases h with
  | slnil => rfl
  | cons x h' =>
    cases x with
    | hdr s =>
      simp only [primDiscipline, Bool.and_eq_true] at hb
      exact primDiscipline_of_all_wr _ (all_wr_of_sublist h' hb.2)
    | wr n =>
      simp only [primDiscipline] at hb
      exact primDiscipline_of_all_wr _ (all_wr_of_sublist h' hb)
  | cons_cons x h' =>
    cases x with
    | hdr s =>
      simp only [primDiscipline, Bool.and_eq_true] at hb ⊢
      exact ⟨hb.1, all_wr_of_sublist h' hb.2⟩
    | wr n =>
      simp only [primDiscipline] at hb ⊢
      exact all_wr_of_sublist h' hb

/-- everything one high-level call does -/
theorem exec_spec (env : Env) (st st1 : State) (c : Call) (evs : List UEvent) (e : Ret)
    (h : exec env st c = (st1, evs, e)) :
      st1.contentLength = st.contentLength + acceptedBytes evs ∧
      st1.writes = st.writes + writeCount evs ∧
      st1.statusCode = lastStatus st.statusCode evs ∧
      st1.err = c.errAfter st.err ∧ st1.set = c.next st.set ∧
      e.isErr = (evs.any failedWrite || (c.plan st.set).ownErr) ∧
      (evs.map shape) <+: (c.plan st.set).prims ∧
      faithful env st.writes evs = true ∧ failsOnlyLast evs = true ∧
      e = (c.plan st.set).ret (writeCount evs) ((firstFailure evs).getD 0) := by
  unfold exec at h
  simp only [Prod.mk.injEq] at h
  obtain ⟨rfl, rfl, rfl⟩ := h
  have hr : runPrims env { st with err := c.errAfter st.err, set := c.next st.set } (c.plan st.set).prims = (_, _, _) := rfl
  obtain ⟨h1, h2, h3, h4, h5, h6, h7, _⟩ := runPrims_spec env _ _ _ _ _ hr
  obtain ⟨h9, h10⟩ := runPrims_env env _ _ _ _ _ hr
  have h11 := runPrims_firstFailure env _ _ _ _ _ hr
  simp only at h1 h2 h3 h4 h5 h9
  refine ⟨h1, h2, h3, h4, h5, by rw [Plan.ret_isErr, h6], h7, h9, h10, ?_⟩
  have hw : (runPrims env { st with err := c.errAfter st.err, set := c.next st.set } (c.plan st.set).prims).1.writes - st.writes =
      writeCount (runPrims env { st with err := c.errAfter st.err, set := c.next st.set } (c.plan st.set).prims).2.1 := by
    rw [h2]; exact Nat.add_sub_cancel_left _ _
  rw [hw, h11]
  split
  · rename_i h0; rw [h0]; rfl
  · rfl

/-- the invariant that ties the Response fields to what the underlying writer received so far -/
def Inv (st : State) (before : List UEvent) : Prop :=
  st.contentLength = acceptedBytes before ∧ st.statusCode = lastStatus 200 before

theorem Inv_init (s : Settings) : Inv (State.init s) [] := by simp [Inv, State.init, acceptedBytes, lastStatus]

theorem Inv_step {env : Env} {st st1 : State} {c : Call} {evs : List UEvent} {e : Ret} {before : List UEvent}
    (h : exec env st c = (st1, evs, e)) (hi : Inv st before) : Inv st1 (before ++ evs) := by
  obtain ⟨h1, _, h3, _⟩ := exec_spec env st st1 c evs e h
  exact ⟨by rw [h1, hi.1, acceptedBytes_append], by rw [h3, hi.2, lastStatus_append]⟩

theorem Inv_bookkeeping {st : State} {evs : List UEvent} (hi : Inv st evs) :
    bookkeepingOK evs st.StatusCode st.ContentLength = true := by
  unfold bookkeepingOK
  cases hd : discipline evs with
  | false => simp
  | true =>
    have := discipline_status evs hd
    simp [State.StatusCode, State.ContentLength, hi.1, hi.2, this]

theorem allEvents_run (env : Env) : ∀ (calls : List Call) (st : State),
    allEvents ((run env st calls).map CallResult.obs) = eventsOf env st calls := by
  intro calls
  induction calls with
  | nil => intro st; rfl
  | cons c cs ih =>
    intro st
    simp only [run, eventsOf]
    generalize hr : exec env st c = r
    obtain ⟨st1, evs, e⟩ := r
    simp [allEvents, CallResult.obs, ih]

theorem Inv_final (env : Env) : ∀ (calls : List Call) (st : State) (before : List UEvent), Inv st before →
    Inv (finalState env st calls) (before ++ eventsOf env st calls) := by
  intro calls
  induction calls with
  | nil => intro st before h; simpa [finalState, eventsOf] using h
  | cons c cs ih =>
    intro st before h
    simp only [finalState, eventsOf]
    generalize hr : exec env st c = r
    obtain ⟨st1, evs, e⟩ := r
    have := ih st1 (before ++ evs) (Inv_step hr h)
    simpa [List.append_assoc] using this

/-- every call of the model satisfies the per-call clause of the predicate -/
theorem run_callsOK (coding : Bool) (env : Env) : ∀ (calls : List Call) (st : State) (before : List UEvent), Inv st before →
    callsOK coding before ((run env st calls).map CallResult.obs) = true := by
  intro calls
  induction calls with
  | nil => intro st before _; rfl
  | cons c cs ih =>
    intro st before h
    simp only [run]
    generalize hr : exec env st c = r
    obtain ⟨st1, evs, e⟩ := r
    have hi := Inv_step hr h
    obtain ⟨_, _, _, _, _, h6, _, _, _, h10⟩ := exec_spec env st st1 c evs e hr
    simp only [List.map_cons, callsOK, CallResult.obs, Bool.and_eq_true]
    refine ⟨?_, ih st1 _ hi⟩
    simp only [callOK, Bool.and_eq_true]
    refine ⟨Inv_bookkeeping hi, ?_⟩
    cases hany : evs.any failedWrite with
    | false => simp
    | true =>
      have : st1.ContentLength = acceptedBytes (before ++ evs) := hi.1
      obtain ⟨t, ht0, ht⟩ := firstFailure_of_any evs hany
      have hid : ((c.plan st.set).ownErr || (firstFailure evs).map Ret.writer == some e) = true := by
        rw [ht] at h10 ⊢
        rcases Plan.ret_cases (c.plan st.set) (writeCount evs) ht0 with h | h
        · simp [h10, h]
        · simp [h.1]
      simp only [ObsCall.retErr, h6, hany, this, hid]
      simp

/-- what the underlying writer received is a subsequence of the planned calls -/
theorem events_sublist_planned (env : Env) : ∀ (calls : List Call) (st : State),
    ((eventsOf env st calls).map shape).Sublist (plannedPrims st.set calls) := by
  intro calls
  induction calls with
  | nil => intro st; simp [eventsOf, plannedPrims]
  | cons c cs ih =>
    intro st
    simp only [eventsOf, plannedPrims]
    generalize hr : exec env st c = r
    obtain ⟨st1, evs, e⟩ := r
    obtain ⟨_, _, _, _, h5, _, h7, _⟩ := exec_spec env st st1 c evs e hr
    have := ih st1
    rw [h5] at this
    simp only [List.map_append]
    exact List.Sublist.append h7.sublist this

/-- the call containing a failing underlying write -/
theorem run_error (env : Env) : ∀ (calls : List Call) (st : State) (k : Nat),
    st.contentLength = envAccepted env st.writes → st.writes ≤ k → k < (finalState env st calls).writes →
    (env k).failed = true →
      ∃ r ∈ run env st calls, r.firstWrite ≤ k ∧ k + 1 = r.firstWrite + writeCount r.events ∧
        r.events.any failedWrite = true ∧ r.retErr = true ∧ r.length = envAccepted env (k + 1) ∧
        (r.ret = .writer (env k).err ∨ (r.ownErr = true ∧ r.ret = .other)) := by
  intro calls
  induction calls with
  | nil => intro st k _ h1 h2 _; simp [finalState] at h2; omega
  | cons c cs ih =>
    intro st k hc h1 h2 hf
    simp only [finalState, run] at h2 ⊢
    generalize hr : exec env st c = r at h2 ⊢
    obtain ⟨st1, evs, e⟩ := r
    obtain ⟨e1, e2, _, _, _, e6, _, e8, e9, e10⟩ := exec_spec env st st1 c evs e hr
    have hc1 : st1.contentLength = envAccepted env st1.writes := by
      rw [e1, e2, envAccepted_faithful env evs st.writes e8, hc]
    by_cases hk : k < st1.writes
    · obtain ⟨ha, hl, hff⟩ := faithful_failed env evs st.writes k e8 e9 h1 (by omega) hf
      have hne : (env k).err ≠ 0 := by simpa [WRes.failed] using hf
      refine ⟨_, List.mem_cons_self, h1, hl, ha, by simp [CallResult.retErr, e6, ha], ?_, ?_⟩
      · simp only [State.ContentLength]
        rw [hc1, e2, hl]
      · simp only
        rw [e10, hff]
        exact Plan.ret_cases _ _ hne
    · obtain ⟨r, hr', h⟩ := ih st1 k hc1 (by omega) h2 hf
      exact ⟨r, List.mem_cons_of_mem _ hr', h⟩

/-- in a sequence in which every entity marshals no call has an error of its own -/
theorem run_ownErr_clean (env : Env) : ∀ (calls : List Call) (st : State), marshalClean st.set calls = true →
    ∀ r ∈ run env st calls, r.ownErr = false := by
  intro calls
  induction calls with
  | nil => intro st _ r h; simp [run] at h
  | cons c cs ih =>
    intro st hm r h
    simp only [marshalClean, Bool.and_eq_true, Bool.not_eq_eq_eq_not, Bool.not_true] at hm
    simp only [run] at h
    generalize hr : exec env st c = x at h
    obtain ⟨st1, evs, e⟩ := x
    obtain ⟨_, _, _, _, e5, _⟩ := exec_spec env st st1 c evs e hr
    rcases List.mem_cons.mp h with h | h
    · subst h; exact hm.1
    · exact ih st1 (by rw [e5]; exact hm.2) r h

/-- per call: a failed write makes the call return an error and is the last thing it does -/
theorem run_error_events (env : Env) : ∀ (calls : List Call) (st : State), ∀ r ∈ run env st calls,
    failsOnlyLast r.events = true ∧ (r.events.any failedWrite = true → r.retErr = true) := by
  intro calls
  induction calls with
  | nil => intro st r h; simp [run] at h
  | cons c cs ih =>
    intro st r h
    simp only [run] at h
    generalize hr : exec env st c = x at h
    obtain ⟨st1, evs, e⟩ := x
    obtain ⟨_, _, _, _, _, e6, _, _, e9, _⟩ := exec_spec env st st1 c evs e hr
    rcases List.mem_cons.mp h with h | h
    · subst h
      exact ⟨e9, fun ha => by simp [CallResult.retErr, e6, ha]⟩
    · exact ih st1 r h

end Resp
end Restful
