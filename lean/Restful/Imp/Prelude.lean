/-
Prelude of the statement-by-statement translation of imperative Go functions (tools/goimp →
Restful/Gen/Imp.lean).  Hand-written and stable: the meaning of the Go operations the translated
subset may use.  The monad is `Option`: `none` is a run-time panic (index out of range, slice
bounds out of range).  Go `int` is `Int`, `string` is `Str` (one `Char` per byte), `[]T` is `List T`,
`error` is `GoErr` (`none` = nil), `map[string]string` is an association list written to in order.
-/
import Restful.Go.Str
namespace Restful.Imp
open Restful

/-- an error value of the package (`ServiceError`: code, message, header); errors of other packages are
    values of the same shape whose content nobody reads -/
structure ErrVal where
  code : Int := 0
  message : Str := []
  header : List (Str × List Str) := []
  deriving DecidableEq, Repr

/-- Go `error`: `none` = nil -/
abbrev GoErr := Option ErrVal

/-- what the package reads of a `*http.Request`: `.Method`, `.URL.Path`, `.Header.Get(key)` (the first value
    of the canonical key, "" when absent), `.ContentLength` -/
structure HttpRequest where
  method : Str
  path : Str
  header : Str → Str
  contentLength : Int
  deriving Inhabited

/-- a `float64` as an opaque value: literals, `strconv.ParseFloat` and the comparisons are uninterpreted
    operations of `Ext` (with NaN they are no order); the carrier is `Int` only so that models can instantiate
    them with exact fixed-point numbers -/
abbrev GoFloat := Int

/-- a value the translated functions only copy, test for nil or hand to an uninterpreted function (a function
    of another signature, an `interface{}`, a map, a pointer to a struct that is not generated): `Option Opaque` -/
abbrev Opaque := Nat

/-- an `EntityReaderWriter` (an interface value the package only passes on): identified by a number -/
abbrev GoAccessor := Nat

/-- what the package reads of an `http.ResponseWriter` before writing: `.Header().Get(key)` -/
structure HttpWriter where
  header : Str → Str
  deriving Inhabited

/-- a compiled `*regexp.Regexp` as its `FindStringSubmatch` function (`[]` = nil = no match; a match has at
    least one element); `MatchString s` is `!(re s).isEmpty` -/
abbrev Regexp := Str → List Str

/-- what a function did to a `*Response`: the headers it added with `AddHeader`, in order -/
abbrev RespLog := List (Str × Str)

/-- what a function did to a `*FilterChain`: one entry per `ProcessFilter` call — the response log at the
    moment control was passed on -/
abbrev ChainLog := List RespLog

/-- `*p` / `p.f` through a pointer: a nil pointer is a run-time panic -/
def deref {α : Type} (p : Option α) : Option α := p

/-- `len(x)` of a string or slice -/
def len {α : Type} (xs : List α) : Int := (xs.length : Nat)

/-- `xs[i]`; `none` = index out of range -/
def at? {α : Type} (xs : List α) (i : Int) : Option α :=
  if 0 ≤ i then xs[i.toNat]? else none

/-- `s[i:j]` of a string or slice; `none` = slice bounds out of range -/
def slice {α : Type} (xs : List α) (i j : Int) : Option (List α) :=
  if 0 ≤ i ∧ i ≤ j ∧ j ≤ (xs.length : Int) then some ((xs.drop i.toNat).take (j.toNat - i.toNat)) else none

/-- `s[i:]` -/
def sliceFrom {α : Type} (xs : List α) (i : Int) : Option (List α) := slice xs i (len xs)

/-- `s[:j]` -/
def sliceTo {α : Type} (xs : List α) (j : Int) : Option (List α) := slice xs 0 j

/-- `for i, x := range xs`: the elements with their indices -/
def enum {α : Type} (xs : List α) : List (Int × α) := xs.zipIdx.map (fun p => (((p.2 : Nat) : Int), p.1))

/-- `for i := a; i < b; i++` with a loop-invariant bound and no assignment to `i` in the body -/
def range (a b : Int) : List Int := (List.range (b - a).toNat).map (fun k => a + ((k : Nat) : Int))

/-- `strings.Index(s, sub)`: −1 when absent -/
def index (s sub : Str) : Int :=
  match Str.indexSub sub s with
  | some k => ((k : Nat) : Int)
  | none => -1

/-- Go's `+` on strings -/
instance : HAdd Str Str Str := ⟨List.append⟩

/-- `append(xs, x)` (value semantics: the translated subset never aliases) -/
def push {α : Type} (xs : List α) (x : α) : List α := xs ++ [x]

/-- `m[k] = v` on a `map[string]string` kept as an association list written to in order -/
def mapSet (m : List (Str × Str)) (k v : Str) : List (Str × Str) :=
  match m with
  | [] => [(k, v)]
  | (k', v') :: rest => if k' = k then (k, v) :: rest else (k', v') :: mapSet rest k v

/-- `m[k] = true` on a `map[string]bool` used as a set (only `true` is ever stored; `m[k]` reads as `contains`) -/
def setAdd (s : List Str) (k : Str) : List Str := if s.contains k then s else s ++ [k]

/-- what a function did to a `*http.ServeMux`: the patterns it registered, in order (`HandleFunc` itself is an
    uninterpreted partial operation of `Ext`: net/http panics on an empty or already registered pattern) -/
abbrev MuxLog := List Str

/-- `for k, v := range m2 { m1[k] = v }`: the entries of `m2` written into `m1` (in the order in which `m2`
    was written; as a finite map the result does not depend on the order) -/
def mapMerge (m1 m2 : List (Str × Str)) : List (Str × Str) := m2.foldl (fun acc kv => mapSet acc kv.1 kv.2) m1

end Restful.Imp
