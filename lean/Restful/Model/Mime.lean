/-
mime.go (`sortedMimes`, `insertMime`, `trimOWS`), response.go:84 `Response.EntityWriter`,
entity_accessors.go:70 `accessorAt` — the code as it is after the repairs 7e00ed6, 355f38b and 8b400b4.

Qualities.  `strconv.ParseFloat` is modelled on decimal literals `D+`, `D+.`, `D*.D{1,3}` only
(`parseQ`, thousandths as `Nat`: exact, and order-isomorphic to the float64 values as long as the
integer part stays below 2^53/1000).  Everything else is "unparsable" in the model.  ParseFloat
ALSO accepts a sign (`+1`, `-0.5`), exponents (`1e-1`), more than three fraction digits, hex floats,
`inf`/`nan`, digit-separating underscores (`1_0`): the generator stays away from those (boundary of
C05, DESIGN 4.4); `.5` and `1.` are accepted by ParseFloat and are modelled.

Registry.  `entityAccessRegistry.accessors` is a Go map; the model has its key list.  A writer is
identified with its registration key (the built-in accessors and the ones the harness registers
write their key as Content-Type).  `accessorAt` falls back to the reverse lookup: among the keys
that occur in the argument, the one whose first occurrence is earliest, the longer of two that
start at the same position (`Str.firstLongest`, Model/Entity.lean — the same function the entity READ
side uses; since 8b400b4 the iteration order of the map cannot show).  The answer stays a list:
`[]` = not found, otherwise one key (`Mime.accessorAt_function`: any two elements are equal).
-/
import Restful.Go.Str
import Restful.Model.Detect
import Restful.Model.Entity
namespace Restful
namespace Mime
open Str

/-- RFC 7230 optional whitespace: space and horizontal tab -/
def isOWS (c : Char) : Bool := c == ' ' || c == '\t'

/-- mime.go:58 `trimOWS` = `strings.Trim(s, " \t")` -/
def trimOWS (s : Str) : Str := ((s.dropWhile isOWS).reverse.dropWhile isOWS).reverse

/-- mime.go:8 `type mime struct { media string; quality float64 }`, quality in thousandths -/
structure Mime where
  media : Str
  quality : Nat
  deriving DecidableEq, Repr

/-- mime.go:14 `insertMime`: before the first element of strictly smaller quality, else at the end -/
def insertMime : List Mime → Mime → List Mime
  | [], e => [e]
  | each :: l, e => if each.quality < e.quality then e :: each :: l else each :: insertMime l e

def allDigits (s : Str) : Bool := s.all Char.isDigit

/-- value of a digit string -/
def natOf (s : Str) : Nat := s.foldl (fun n c => 10 * n + (c.toNat - 48)) 0

/-- `strconv.ParseFloat(s, 64)` on the decimal literals of the header comment, in thousandths;
    `none` = `err != nil` -/
def parseQ (s : Str) : Option Nat :=
  let ip := s.takeWhile (· != '.')
  match s.dropWhile (· != '.') with
  | [] => if !ip.isEmpty && allDigits ip then some (natOf ip * 1000) else none
  | _ :: fp =>
    if allDigits ip && allDigits fp && decide (fp.length ≤ 3) && !(ip.isEmpty && fp.isEmpty)
    then some (natOf ip * 1000 + natOf fp * 10 ^ (3 - fp.length)) else none

def qKey : Str := ['q']

/-- mime.go:35-51, the loop over `typeAndQuality[1:]`: the first parameter that splits into exactly
    two pieces at `=` and whose trimmed name is `q` decides (then `break`); `none` = `valid == false` -/
def qualityOf : List Str → Option Nat
  | [] => some 1000
  | param :: rest =>
    match split '=' param with
    | [k, v] => if trimOWS k = qKey then parseQ (trimOWS v) else qualityOf rest
    | _ => qualityOf rest

/-- one element of the comma-separated list: `none` when its quality does not parse -/
def rangeOf (each : Str) : Option Mime :=
  match split ';' each with
  | [] => none -- unreachable: strings.Split never returns an empty slice
  | m :: params => (qualityOf params).map (fun q => ⟨trimOWS m, q⟩)

def insertValid (sorted : List Mime) (each : Str) : List Mime :=
  match rangeOf each with
  | some m => insertMime sorted m
  | none => sorted

/-- mime.go:28 `sortedMimes` -/
def sortedMimes (accept : Str) : List Mime := (split ',' accept).foldl insertValid []

/-- entity_accessors.go:70 `accessorAt`: the writer (key) the call returns — the exact key, else
    the key that occurs first in the value, the longest of those that start there; `[]` = `ok == false` -/
def accessorAt (reg : List Str) (mime : Str) : List Str :=
  if reg.contains mime then [mime] else reg.filter (firstLongest reg mime)

/-- response.go:87-93, the inner loop over `routeProduces` for one accepted media type -/
def walkProduces (reg : List Str) (media : Str) : List Str → List Str
  | [] => []
  | p :: ps =>
    if p = media then
      (let w := accessorAt reg media
       if w.isEmpty then walkProduces reg media ps else w)
    else walkProduces reg media ps

/-- response.go:95-99 and 117-121: the first produced type that has a writer -/
def firstProduced (reg : List Str) : List Str → List Str
  | [] => []
  | p :: ps =>
    let w := accessorAt reg p
    if w.isEmpty then firstProduced reg ps else w

/-- response.go:86-101, the loop over the sorted ranges -/
def walk (reg produces : List Str) : List Mime → List Str
  | [] => []
  | m :: ms =>
    let w := walkProduces reg m.media produces
    if !w.isEmpty then w
    else if m.media = starStar then
      (let w2 := firstProduced reg produces
       if !w2.isEmpty then w2 else walk reg produces ms)
    else walk reg produces ms

def mimeJSON : Str := "application/json".toList
def mimeXML : Str := "application/xml".toList
def mimeZIP : Str := "application/zip".toList

/-- `DefaultResponseMimeType` is one of the three values `EntityWriter` looks at -/
def defaultSet (d : Str) : Bool := d == mimeJSON || d == mimeXML || d == mimeZIP

/-- which part of `EntityWriter` produced the answer (coverage tag of the driver) -/
inductive Branch where
  | walk | acceptKey | default | produces | none
  deriving DecidableEq, Repr

/-- response.go:84 `EntityWriter`: the writer and the branch; `[]` = `(nil, false)`, i.e.
    `WriteHeaderAndEntity` answers 406 -/
def entityWriterTagged (accept : Str) (produces reg : List Str) (dflt : Str) : List Str × Branch :=
  -- a missing Accept header is read as `*/*`, as the router does (repair of F07); the raw-header
  -- lookup below still sees the header as it was sent
  let w := walk reg produces (sortedMimes (if accept.isEmpty then starStar else accept))
  if !w.isEmpty then (w, .walk) else
  let w := accessorAt reg accept
  if !w.isEmpty then (w, .acceptKey) else
  if dflt = mimeJSON then (accessorAt reg mimeJSON, .default)
  else if dflt = mimeXML then (accessorAt reg mimeXML, .default)
  else if dflt = mimeZIP then (accessorAt reg mimeZIP, .default)
  else
    let w := firstProduced reg produces
    if !w.isEmpty then (w, .produces) else ([], .none)

def entityWriter (accept : Str) (produces reg : List Str) (dflt : Str) : List Str :=
  (entityWriterTagged accept produces reg dflt).1

/-- jsr311.go:104-113 + route.go:86: the router's own Accept test for one route (an empty Accept
    header is replaced by `*/*` by the router, and by the router only) -/
def routerAdmits (accept : Str) (produces : List Str) : Bool :=
  acceptLoop produces (split ',' (if accept.isEmpty then starStar else accept))

/-- the registry the correspondence stream sets up (harness/internal/mime/real.go): the built-in JSON and
    XML accessors plus four custom registrations; the witnesses of the known findings use it -/
def harnessReg : List Str :=
  [mimeJSON, mimeXML, "application/vnd.x+json".toList, "application/vnd.y+xml".toList, "text/csv".toList,
   "application/x".toList]

/-! ### optional whitespace normal form (used by C05_ows) -/

/-- a parameter with the whitespace next to its `=` signs removed -/
def normParam (p : Str) : Str := join ['='] ((split '=' p).map trimOWS)

/-- one list element with the whitespace at its ends and next to `;` and the parameters' `=` removed -/
def normElem (e : Str) : Str :=
  match split ';' e with
  | [] => []
  | m :: ps => join [';'] (trimOWS m :: ps.map normParam)

/-- the Accept header with every space/tab next to `,`, `;`, a parameter's `=`, or at either end of
    the header removed.  (An `=` before the first `;` of an element is not a separator.) -/
def dropOWS (a : Str) : Str := join [','] ((split ',' a).map normElem)

end Mime
end Restful
