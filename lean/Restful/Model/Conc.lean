/-
The analysis of the generated synchronisation facts: lexically held locks, locks guaranteed by
every caller (a small data-flow over the call graph), lock discipline, lock order.
Everything is a total, structurally recursive function over the generated data, so the obligations
in Props/C12.lean and Props/C13.lean are closed by `decide`.
-/
import Restful.Gen.Types
namespace Restful.Conc
open Gen

/-- a held lock: which lock, in which mode, acquired at which closure depth -/
structure Held where
  lock : Nat
  mode : Mode
  depth : Nat
  deriving DecidableEq, Repr

def holds (hs : List Held) (l : Nat) (needW : Bool) : Bool :=
  hs.any (fun h => h.lock == l && (!needW || h.mode == .W))

/-- one step of the lexical walk over a function's items.  A deferred release keeps the lock to the
    end of the function (or of the func literal it was acquired in: entries deeper than the current
    item are dropped first). -/
def stepHeld (hs : List Held) (it : Item) : List Held :=
  let hs := hs.filter (fun h => h.depth ≤ it.depth)
  match it.op with
  | .acq l m => ⟨l, m, it.depth⟩ :: hs
  | .rel l _ => hs.eraseP (fun h => h.lock == l)
  | _ => hs

/-- the locks lexically held when each item executes (a func literal that does not run on the spot
    keeps nothing from its surroundings) -/
def annotate : List Held → List Item → List (Item × List Held)
  | _, [] => []
  | hs, it :: rest =>
    let cur := hs.filter (fun h => h.depth ≤ it.depth)
    let eff := if it.depth > 0 && !it.inline then cur.filter (fun h => h.depth ≥ it.depth) else cur
    (it, eff) :: annotate (stepHeld hs it) rest

def itemsOf (items : List Item) (f : Nat) : List Item := items.filter (·.fn == f)

/-- lock modes are ordered: holding W gives R -/
def meetMode (a b : Mode) : Mode := if a == .W && b == .W then .W else .R

/-- intersection of two guaranteed lock sets -/
def meet (a b : List (Nat × Mode)) : List (Nat × Mode) :=
  a.filterMap (fun (l, m) => (b.find? (·.1 == l)).map (fun (_, m') => (l, meetMode m m')))

def joinCtx (ctx : List (Nat × Mode)) (hs : List Held) : List (Nat × Mode) :=
  hs.map (fun h => (h.lock, h.mode)) ++ ctx

/-- context of each function: `none` = not reachable from an entry point (⊤), `some ls` = the locks
    every call path from an entry point guarantees on entry -/
abbrev Ctx := List (Option (List (Nat × Mode)))

def ctxGet (c : Ctx) (f : Nat) : Option (List (Nat × Mode)) := (c.getD f none)

def ctxMeetAt : Ctx → Nat → List (Nat × Mode) → Ctx
  | [], _, _ => []
  | x :: xs, 0, ls => (match x with
      | none => some ls
      | some old => some (meet old ls)) :: xs
  | x :: xs, n + 1, ls => x :: ctxMeetAt xs n ls

/-- one round: push every reachable caller's (context ∪ held at call site) into its callees -/
def propagate (ann : List (Item × List Held)) (c : Ctx) : Ctx :=
  ann.foldl (fun acc (it, hs) =>
    match it.op, ctxGet c it.fn with
    | .call fns, some ctx => fns.foldl (fun acc2 g => ctxMeetAt acc2 g (joinCtx ctx hs)) acc
    | _, _ => acc) c

def iterate (ann : List (Item × List Held)) : Nat → Ctx → Ctx
  | 0, c => c
  | n + 1, c => iterate ann n (propagate ann c)

/-- the same data-flow with union instead of intersection: the locks SOME call path holds on entry
    (used for the lock order: an acquisition is ordered after every lock that may be held) -/
def ctxJoinAt : Ctx → Nat → List (Nat × Mode) → Ctx
  | [], _, _ => []
  | x :: xs, 0, ls => (match x with
      | none => some (ls.eraseDups)
      | some old => some ((old ++ ls).eraseDups)) :: xs
  | x :: xs, n + 1, ls => x :: ctxJoinAt xs n ls

def propagateMay (ann : List (Item × List Held)) (c : Ctx) : Ctx :=
  ann.foldl (fun acc (it, hs) =>
    match it.op, ctxGet c it.fn with
    | .call fns, some ctx => fns.foldl (fun acc2 g => ctxJoinAt acc2 g (joinCtx ctx hs)) acc
    | _, _ => acc) c

def iterateMay (ann : List (Item × List Held)) : Nat → Ctx → Ctx
  | 0, c => c
  | n + 1, c => iterateMay ann n (propagateMay ann c)

def stableMay (ann : List (Item × List Held)) (c : Ctx) : Bool := propagateMay ann c == c

/-- all items annotated, function by function -/
def annotateAll (nFns : Nat) (items : List Item) : List (Item × List Held) :=
  (List.range nFns).flatMap (fun f => annotate [] (itemsOf items f))

def initCtx (nFns : Nat) (entries : List Nat) : Ctx :=
  (List.range nFns).map (fun f => if entries.contains f then some [] else none)

/-- the analysis result: annotated items and final contexts (the number of rounds bounds the
    length of call chains considered: a fixpoint is reached long before) -/
def analyse (nFns : Nat) (items : List Item) (entries : List Nat) (rounds : Nat) : List (Item × List Held) × Ctx :=
  let ann := annotateAll nFns items
  (ann, iterate ann rounds (initCtx nFns entries))

/-- the fixpoint was reached -/
def stable (ann : List (Item × List Held)) (c : Ctx) : Bool := propagate ann c == c

/-- which lock guards which tracked field -/
def guardOf (field : Nat) : Nat := if field == 3 then 1 else 0

structure Report where
  unknowns : List Item := []              -- unrecognised synchronisation in reachable code
  unguarded : List Item := []             -- reachable access without its guard (in the needed mode)
  reentrant : List Item := []             -- acquisition of a lock already held (lexically or by every caller)
  orderEdges : List (Nat × Nat) := []     -- l' held while l is acquired
  deriving Repr, DecidableEq

def check (ann : List (Item × List Held)) (c cMay : Ctx) : Report :=
  ann.foldl (fun r (it, hs) =>
    match ctxGet c it.fn with
    | none => r
    | some ctx =>
      let all := joinCtx ctx hs
      let may := joinCtx ((ctxGet cMay it.fn).getD []) hs
      let has (l : Nat) (w : Bool) : Bool := all.any (fun (l', m) => l' == l && (!w || m == .W))
      match it.op with
      | .unknown _ => { r with unknowns := it :: r.unknowns }
      | .goStmt _ => { r with unknowns := it :: r.unknowns }
      | .read f => if it.nonDynamic || has (guardOf f) false then r else { r with unguarded := it :: r.unguarded }
      | .write f => if has (guardOf f) true then r else { r with unguarded := it :: r.unguarded }
      | .acq l _ =>
        let r := if may.any (fun (l', _) => l' == l) then { r with reentrant := it :: r.reentrant } else r
        { r with orderEdges := ((may.map (fun (l', _) => (l', l))).eraseDups).filter (fun e => !r.orderEdges.contains e) ++ r.orderEdges }
      | _ => r) {}

/-- the acquired-while-holding relation has no cycle (two locks: not both directions, no self loop) -/
def acyclic (edges : List (Nat × Nat)) : Bool :=
  edges.all (fun (a, b) => a != b && !edges.contains (b, a))

def fnId (names : List String) (n : String) : Nat := (names.idxOf? n).getD names.length

end Restful.Conc

namespace Restful.Conc
open Gen

/-- the entry points of the quantifier of C12: serving, and the four mutators -/
def servingEntries : List String :=
  ["Container.ServeHTTP", "Container.Dispatch", "Container.dispatch", "Container.OPTIONSFilter", "CrossOriginResourceSharing.Filter"]
def mutatorEntries : List String :=
  ["Container.Add", "Container.Remove", "WebService.Route", "WebService.RemoveRoute"]

def rounds : Nat := 8

structure Analysis where
  ann : List (Item × List Held)
  must : Ctx
  may : Ctx
  deriving DecidableEq

def analysis (names : List String) (items : List Item) (entries : List String) : Analysis :=
  let ann := annotateAll names.length items
  let init := initCtx names.length (entries.map (fnId names))
  { ann := ann, must := iterate ann rounds init, may := iterateMay ann rounds init }

def Analysis.fixpoint (a : Analysis) : Bool := stable a.ann a.must && stableMay a.ann a.may
def Analysis.report (a : Analysis) : Report := check a.ann a.must a.may

/-- every entry point exists in the generated facts (a renamed function must not silently drop out) -/
def entriesPresent (names : List String) (entries : List String) : Bool := entries.all (names.contains ·)

/-- the non-call facts of one function, in source order -/
def factsOf (names : List String) (items : List Item) (fn : String) : List Op :=
  ((itemsOf items (fnId names fn)).map (·.op)).filter (fun o => match o with
    | .call _ => false
    | _ => true)

/-- tracked-field writes reachable from the given entries -/
def reachableWrites (a : Analysis) : List Item :=
  (a.ann.filter (fun (it, _) => (ctxGet a.must it.fn).isSome && (match it.op with
    | .write _ => true
    | _ => false))).map (·.1)

/-- appends reachable from the given entries whose result may alias a field's backing array -/
def reachableAliasAppends (a : Analysis) : List Item :=
  (a.ann.filter (fun (it, _) => (ctxGet a.must it.fn).isSome && (match it.op with
    | .aliasAppend _ => true
    | _ => false))).map (·.1)

/-- every lock acquisition is panic-safe: released by a `defer` that follows it immediately, or
    nothing is called between the acquisition and its release (so no panic can leave it held) -/
def panicSafeFrom : List Item → Bool
  | [] => true
  | it :: rest =>
    (match it.op with
     | .acq l _ =>
       (match rest with
        | nx :: _ => (match nx.op with
          | .deferRel l' _ => l == l'
          | _ => false)
        | [] => false) ||
       -- no call before the matching release
       ((rest.takeWhile (fun x => match x.op with
          | .rel l' _ => l' != l
          | _ => true)).all (fun x => match x.op with
          | .call _ => false
          | _ => true) &&
        rest.any (fun x => match x.op with
          | .rel l' _ => l' == l
          | _ => false))
     | _ => true) && panicSafeFrom rest

def panicSafe (nFns : Nat) (items : List Item) : Bool :=
  (List.range nFns).all (fun f => panicSafeFrom (itemsOf items f))

end Restful.Conc

/-! ### bracketing (used by the soundness theorem of the analysis, Lemmas/ConcSound.lean)

`check` looks at the locks held when an item executes; it does not look at how locks are given
back.  The soundness of its verdict w.r.t. an execution semantics of the facts
(Lemmas/ConcSem.lean) needs the lexical held-set of `annotate` to be the set of locks the function
really holds at that point, which is a matter of bracketing: what `annotate` drops at the end of a
func literal / of the function is exactly what the registered `defer`s release there, an explicit
release gives back a lock that is lexically held, in the mode it was taken in, and nothing of a
reachable function sits in a func literal that runs later (whose locks would be those of another
time).  This is a syntactic check of the facts, function by function. -/
namespace Restful.Conc
open Gen

/-- the item sits in a func literal that does not run on the spot -/
def detached (it : Item) : Bool := it.depth > 0 && !it.inline

/-- the pending deferred releases after an item: those registered in func literals that have ended
    are gone (they ran), a `defer x.Unlock()` registers one -/
def deferNext (ds : List Held) (it : Item) : List Held :=
  let ds := ds.filter (fun h => h.depth ≤ it.depth)
  if detached it then ds else
  match it.op with
  | .deferRel l m => ⟨l, m, it.depth⟩ :: ds
  | _ => ds

/-- `hs`: the lexical held-set of `annotate` (same walk: `stepHeld`), `ds`: the pending deferred
    releases.  At every item: what `annotate` drops because a func literal ended is exactly what the
    deferred releases of that literal give back; an explicit release concerns a lexically held lock
    in its mode; at the end of the function every lock still held has its deferred release. -/
def bracketedFrom : List Held → List Held → List Item → Bool
  | hs, ds, [] => hs == ds
  | hs, ds, it :: rest =>
    !detached it &&
    hs == ds.filter (fun h => it.depth < h.depth) ++ hs.filter (fun h => h.depth ≤ it.depth) &&
    (match it.op with
     | .rel l m =>
       (match (hs.filter (fun h => h.depth ≤ it.depth)).find? (fun h => h.lock == l) with
        | some h => h.mode == m
        | none => false)
     | _ => true) &&
    bracketedFrom (stepHeld hs it) (deferNext ds it) rest

/-- every function reachable from the entry points is bracketed -/
def bracketed (nFns : Nat) (items : List Item) (must : Ctx) : Bool :=
  (List.range nFns).all (fun f => (ctxGet must f).isNone || bracketedFrom [] [] (itemsOf items f))

def Analysis.bracketed (a : Analysis) (names : List String) (items : List Item) : Bool :=
  Conc.bracketed names.length items a.must

/-- every reachable access has its guard among the LEXICALLY held locks (the contexts guaranteed
    by the callers are not needed) -/
def Analysis.lexicallyGuarded (a : Analysis) : Bool :=
  a.ann.all (fun (it, hs) =>
    (ctxGet a.must it.fn).isNone ||
    (match it.op with
     | .read f => it.nonDynamic || holds hs (guardOf f) false
     | .write f => holds hs (guardOf f) true
     | _ => true))

end Restful.Conc
